import RedoModel.Deps
/-!
Statement-level definitions for C01 on the *full* engine model (`RedoModel/Deps.lean`): what "up to
date" means there, and the class of histories ("plain") for which the soundness theorem is proven
first.  Definitions only — no lemmas — so that both the proof files and `Props/C01.lean` can import it.
-/
namespace RedoModel.Deps

/-- "Has the content a from-scratch build would produce", for the full model: a file redo does not
own stands for itself; a target's content is its chosen script applied to the up-to-date contents of
what it reads. -/
inductive UpToDate (w : World) : Nat → Prop
  | source {f} : (∀ c ∈ w.rules f, existsF w c = false) → UpToDate w f
  | user {f} : (w.recs f).isGenerated = false → existsF w f = true → UpToDate w f
  | target {t dof sc n} :
      (findDoFile t (w.rules t) w).1 = some dof → w.fs dof = some n → w.progs n.content = some sc →
      (∀ c ∈ sc.ifchange, ∀ d ∈ c, UpToDate w d) →
      (w.fs t).map (·.content) =
        (if sc.outMode = 2 then none else some (outContent sc.tag (sc.reads.map (fun f => (w.fs f).map (·.content))))) →
      UpToDate w t

/-- A plain script: it declares everything it reads with `redo-ifchange` (any number of commands),
writes a function of what it read, may exit non-zero; no `redo-always`, `redo-ifcreate`, conditional
declarations, `redo-stamp`, or content-dependent failure. -/
def Script.Plain (sc : Script) : Prop :=
  sc.always = false ∧ sc.ifcreate = [] ∧ sc.cond = [] ∧ sc.stamp = 0 ∧ sc.failIfOdd = none ∧
  sc.reads = sc.ifchange.flatten

/-- The files a history may name are split by `rules`: a file with candidates is a *target name*,
a file without is a *plain file* (a source or a .do file).  `.do` files are plain files. -/
def RulesOk (rules : Nat → List Nat) : Prop :=
  rules alwaysId = [] ∧ ∀ t, ∀ c ∈ rules t, rules c = [] ∧ c ≠ alwaysId ∧ c ≠ t

/-- What the user may do between commands in a plain history: create/edit/remove/chmod plain files
(sources and .do files), remove target files, give meaning to .do contents (plain scripts only), and
run any of the commands.  Not in this class: hand-written files at target names (C11), hide/unhide,
kills (C10). -/
def PlainOp (rules : Nat → List Nat) : UserOp → Prop
  | .write f _ => rules f = [] ∧ f ≠ alwaysId
  | .remove f => f ≠ alwaysId
  | .chmod f => rules f = [] ∧ f ≠ alwaysId
  | .hide _ => False
  | .unhide _ => False
  | .setProg _ s => s.Plain
  | .cmd _ => True
  | .crashCmd _ _ _ => False

/-- The scripts currently in place respect one strict rank: whatever .do candidate of `t` exists and
has a meaning, every file it declares ranks below `t` (no cycles: C12's subject), and so do the
candidates themselves. -/
def Ranked (rank : Nat → Nat) (w : World) : Prop :=
  (∀ t, ∀ c ∈ w.rules t, rank c < rank t) ∧
  ∀ t, ∀ dof ∈ w.rules t, ∀ n sc, w.fs dof = some n → w.progs n.content = some sc →
    ∀ c ∈ sc.ifchange, ∀ d ∈ c, rank d < rank t

/-- Worlds along a history, most recent last (the world before each op and the final one). -/
def worldsOf (n : Nat) (d : Defects) : World → List UserOp → List World
  | w, [] => [w]
  | w, op :: ops => w :: worldsOf n d (applyOp d n op w).2 ops

/-- **C01 for plain histories of the full model** (statement).  Start from an empty project with any
rule table; after any plain history during which the scripts in place respect one rank and all ids stay
below `n`, whenever `redo-ifchange ts` (or `redo ts`) exits 0 every target named is up to date. -/
def NoStalePlain : Prop :=
  ∀ (n : Nat) (rules : Nat → List Nat) (rank : Nat → Nat) (ops : List UserOp) (ts : List Nat) (kg : Bool) (forced : Bool),
    RulesOk rules → (∀ op ∈ ops, PlainOp rules op) →
    (∀ w ∈ worldsOf n {} (initWorld rules) ops, Ranked rank w) →
    (∀ f, rank f < n) →
    let w := ops.foldl (fun w op => (applyOp {} n op w).2) (initWorld rules)
    let r := runCmd {} n (if forced then .redo ts kg else .ifchange ts kg) w
    r.1.status = 0 → ∀ t ∈ ts, UpToDate r.2 t

end RedoModel.Deps
