import RedoModel.Lemmas.DepsSound18
/-! The record written after a successful build of a target that was not good: the analogue of the
success case of `P.build_spec`. -/
namespace RedoModel.Deps

theorem OkFields.offT {R t out w w'} (hf : OkFields R t out w w') (hr : w.rules t ≠ []) : OffT t w w' := by
  refine ⟨hf.rules, hf.progs, hf.fs, fun h => absurd h hr, hf.recs, fun d hd => ?_, hf.clock, hf.rc⟩
  rw [hf.deps, List.mem_filter]
  simp [hd]

theorem OkFields.hasRow {R t out w w' s m} (hf : OkFields R t out w w') (h : HasRowU w t s m) : HasRow w' t s m := by
  obtain ⟨d, hd, h1, h2, h3, h4⟩ := h
  refine ⟨d, ?_, h1, h2, h3⟩
  rw [hf.deps, List.mem_filter]
  simp [hd, h4]

theorem OkFields.recOk {R t out w w'} (hf : OkFields R t out w w') (o : RecOk R t w) (hr : w.rules t ≠ [])
    (h0 : t ≠ alwaysId) : RecOk R t w' := by
  refine ⟨?_, ?_, hf.csum, hf.ovr, ?_, ?_, ?_, ?_, ?_, hf.fsB, ?_, ?_, ?_, ?_⟩
  · intro ch h; rw [hf.changed] at h; cases h; exact Nat.le_refl _
  · rw [hf.checked]; exact o.ckLe
  · intro h; rw [hf.rules] at h; exact absurd h hr
  · intro e; exact absurd e h0
  · intro _; rw [hf.changed]; simp
  · intro _ h; rw [hf.gen] at h; cases h
  · intro _ n hn
    exact ⟨n.rest, by rw [hf.stamp]; unfold readStamp; rw [hn]⟩
  · intro ms rest h
    rw [hf.stamp] at h
    cases hn : w'.fs t with
    | none => rw [readStamp_missing.2 hn] at h; cases h
    | some n =>
      have hrs : readStamp w' t = .st n.ms n.rest := by unfold readStamp; rw [hn]
      rw [hrs] at h; cases h
      exact ⟨hf.fsB n hn, fun n' hn' => by cases hn'; exact Or.inr ⟨rfl, Nat.le_refl _⟩⟩
  · intro _; exact hf.failed
  · intro _; exact Or.inl hf.failed
  · intro k h; rw [hf.failed] at h; cases h

/-- Everything known about the world `w` just before the result of a successful build of `t` is recorded. -/
structure Built (rank : Nat → Nat) (R t : Nat) (pre : List Nat) (dof : Nat) (post : List Nat) (sc : Script) (w : World) : Prop where
  notGood : ¬ Good w R t
  rules : w.rules t = pre ++ dof :: post
  pre : ∀ c ∈ pre, existsF w c = false ∧ HasRowU w t c false
  dofEx : existsF w dof = true
  dofRow : HasRowU w t dof true
  dofGood : Good w R dof
  script : scriptAt w dof = sc
  exit : sc.exit = 0
  reads : ∀ d ∈ sc.reads, Good w R d ∧ HasRowU w t d true
  shape : ∀ d ∈ w.deps, d.target = t → d.deleteMe = false →
    (d.modeM = false → existsF w d.source = false) ∧ (d.modeM = true → d.source = dof ∨ d.source ∈ sc.reads)

theorem Built.ne {rank R X t pre dof post sc w} (hi : Inv rank R X w) (hb : Built rank R t pre dof post sc w) :
    w.rules t ≠ [] ∧ t ≠ alwaysId ∧ ∀ x, Good w R x → x ≠ t := by
  have h1 : w.rules t ≠ [] := by rw [hb.rules]; simp
  exact ⟨h1, fun e => h1 (e ▸ hi.base.rulesOk.1), fun x hx e => hb.notGood (e ▸ hx)⟩

theorem recordOk_recTruth {rank R X t pre dof post sc w w'} (hi : Inv rank R X w)
    (hb : Built rank R t pre dof post sc w) (hf : OkFields R t (outOf w sc) w w') : RecTruth w' t := by
  obtain ⟨hr, h0, hne⟩ := hb.ne hi
  have off := hf.offT hr
  have hdofP : w.rules dof = [] := (hi.base.rulesOk.2 t dof (by rw [hb.rules]; simp)).1
  have hfsd := off.fsPlain hi.base hdofP
  have hcont : ∀ d ∈ sc.reads, contentOf w' d = contentOf w d :=
    fun d hd => contentOf_congr (hf.fs d (hne d (hb.reads d hd).1))
  have hmap : sc.reads.map (contentOf w') = sc.reads.map (contentOf w) := List.map_congr_left hcont
  refine ⟨pre, dof, post, sc, by rw [hf.rules]; exact hb.rules, fun c hc => hf.hasRow (hb.pre c hc).2,
    hf.hasRow hb.dofRow, fun d hd => hf.hasRow (hb.reads d hd).2, hb.exit,
    Or.inl ⟨by rw [existsF_congr hfsd]; exact hb.dofEx, by rw [scriptAt_congr hfsd hf.progs]; exact hb.script⟩,
    sc.reads.map (contentOf w'), ?_, by simp, ?_⟩
  · rw [hf.content, hmap]; rfl
  · intro p hp hne'
    exact absurd (P.zip_map_snd (contentOf w') _ p hp) hne'

theorem recordOk_upToDate {rank R X t pre dof post sc w w'} (hi : Inv rank R X w)
    (hb : Built rank R t pre dof post sc w) (hf : OkFields R t (outOf w sc) w w') : UpToDateD w' t := by
  obtain ⟨hr, h0, hne⟩ := hb.ne hi
  have off := hf.offT hr
  have hplain : ∀ c ∈ w.rules t, w'.fs c = w.fs c :=
    fun c hc => off.fsPlain hi.base (hi.base.rulesOk.2 t c hc).1
  have hfsd := hplain dof (by rw [hb.rules]; simp)
  have hsc : scriptAt w' dof = sc := by rw [scriptAt_congr hfsd hf.progs]; exact hb.script
  have hmap : sc.reads.map (contentOf w') = sc.reads.map (contentOf w) :=
    List.map_congr_left (fun d hd => contentOf_congr (hf.fs d (hne d (hb.reads d hd).1)))
  refine UpToDateD.target (dof := dof) ?_ ?_ ?_
  · rw [hf.rules, firstEx_congr _ hplain, hb.rules]
    exact firstEx_split pre dof post (fun c hc => (hb.pre c hc).1) hb.dofEx
  · rw [hsc]; intro d hd
    exact good_upToDate hi hf.rules hf.progs (fun x hx => contentOf_congr (off.fsPlain hi.base hx))
      (fun x hx => ⟨contentOf_congr (hf.fs x (hne x hx)), by rw [hf.recs x (hne x hx)]⟩)
      (rank d + 1) d (Nat.lt_succ_self _) (hb.reads d hd).1
  · rw [hsc, hf.content]; unfold outOf; rw [hmap]

theorem recordOk_spec {rank R t pre dof post sc w w' b po} {X X' : Nat → Prop} (hi : Inv rank R X w)
    (hX : ∀ u, u ≠ t → ¬ X' u → ¬ X u) (hb : Built rank R t pre dof post sc w)
    (hf : OkFields R t (outOf w sc) w w') (hlt : rank t < b) :
    Inv rank R X' w' ∧ VerR w' R t ∧ BExt rank R b po w w' ∧ (NoFail R w → NoFail R w') := by
  obtain ⟨hr, h0, hne⟩ := hb.ne hi
  have off := hf.offT hr
  have hsub : ∀ d ∈ w'.deps, d ∈ w.deps := fun d hd => by
    rw [hf.deps, List.mem_filter] at hd; exact hd.1
  have hrs : RecCur w' t := ⟨hf.failed, by rw [hf.changed]; simp, hf.stamp⟩
  have hv : VerR w' R t := ⟨hf.failed, Or.inr hf.changed⟩
  have hb' := Base_upd (X' := X') hi.base off (hf.recOk (hi.base.recOk t) hr h0) hX
    (fun d hd => hi.base.rowsLt d (hsub d hd))
    (fun d hd hm => by rw [off.rules]; exact hi.base.cPlain d (hsub d hd) hm)
    (hdet_loud hi hb.notGood hf.changed) (fun _ _ _ => recordOk_recTruth hi hb hf)
  have hver := Ver_upd hi off hb.notGood (fun _ => ⟨hrs, recordOk_upToDate hi hb hf, fun _ d hd hdt => by
    rw [hf.deps, List.mem_filter] at hd
    obtain ⟨hd1, hd2⟩ := hd
    have hdm : d.deleteMe = false := by
      cases hx : d.deleteMe with
      | false => rfl
      | true => simp [hdt, hx] at hd2
    obtain ⟨s1, s2⟩ := hb.shape d hd1 hdt hdm
    refine ⟨fun hm => ?_, fun hm => ?_⟩
    · have hg : Good w R d.source := by
        rcases s2 hm with e | e
        · rw [e]; exact hb.dofGood
        · exact (hb.reads _ e).1
      exact (off.good (hne _ hg) R).2 hg
    · rw [existsF_congr (off.fsPlain hi.base (hi.base.cPlain d hd1 hm))]; exact s1 hm⟩)
  refine ⟨⟨hb', hi.Rpos, hver⟩, hv,
    off.toBExt hi.base hlt (fun h => absurd (Or.inl h) hb.notGood) (fun hc hg => absurd (Or.inr ⟨hc, hg⟩) hb.notGood), ?_⟩
  intro hnf f
  by_cases e : f = t
  · subst e; rw [hf.failed]; simp
  · rw [hf.recs f e]; exact hnf f

/-- A forced rebuild of a target that already failed in this run succeeds: the record stays failed. -/
theorem recordKeep_spec {rank R t w w' b po out} {X X' : Nat → Prop} (hi : Inv rank R X w) (hng : ¬ Good w R t)
    (hX : ∀ u, u ≠ t → ¬ X' u → ¬ X u) (hfail : (w.recs t).failed = some R) (hch : (w.recs t).changed = some R)
    (hr : w.rules t ≠ []) (hf : KeepFields t out w w') (hlt : rank t < b) :
    Inv rank R X' w' ∧ BExt rank R b po w w' ∧ (w'.recs t).failed = some R := by
  have h0 : t ≠ alwaysId := fun e => hr (e ▸ hi.base.rulesOk.1)
  have hfail' : (w'.recs t).failed = some R := by rw [hf.failed]; exact hfail
  have off : OffT t w w' := by
    refine ⟨hf.rules, hf.progs, hf.fs, fun h => absurd h hr, hf.recs, fun d hd => ?_, hf.clock, hf.rc⟩
    rw [hf.deps, List.mem_filter]; simp [hd]
  have hsub : ∀ d ∈ w'.deps, d ∈ w.deps := fun d hd => by
    rw [hf.deps, List.mem_filter] at hd; exact hd.1
  have o := hi.base.recOk t
  have hok : RecOk R t w' := by
    refine ⟨?_, ?_, ?_, hf.ovr, ?_, fun e => absurd e h0, ?_, ?_, ?_, hf.fsB, ?_, ?_, ?_, ?_⟩
    · rw [hf.changed]; exact o.chLe
    · rw [hf.checked]; exact o.ckLe
    · rw [hf.csum]; exact o.noCsum
    · intro h; rw [hf.rules] at h; exact absurd h hr
    · intro _; rw [hf.changed, hch]; simp
    · intro h; rw [hfail'] at h; cases h
    · intro _ n hn
      exact ⟨n.rest, by rw [hf.stamp]; unfold readStamp; rw [hn]⟩
    · intro ms rest h
      rw [hf.stamp] at h
      cases hn : w'.fs t with
      | none => rw [readStamp_missing.2 hn] at h; cases h
      | some n =>
        have hrs : readStamp w' t = .st n.ms n.rest := by unfold readStamp; rw [hn]
        rw [hrs] at h; cases h
        exact ⟨hf.fsB n hn, fun n' hn' => by cases hn'; exact Or.inr ⟨rfl, Nat.le_refl _⟩⟩
    · intro h
      rw [hf.checked] at h
      have := o.ckFail h
      rw [hfail] at this; cases this
    · intro _; exact Or.inr hfail'
    · rw [hf.failed]; exact o.flLe
  have hb' := Base_upd (X' := X') hi.base off hok hX (fun d hd => hi.base.rowsLt d (hsub d hd))
    (fun d hd hm => by rw [off.rules]; exact hi.base.cPlain d (hsub d hd) hm)
    (hdet_loud hi hng (by rw [hf.changed]; exact hch))
    (fun _ hrc _ => by rw [hrc.1] at hfail'; cases hfail')
  exact ⟨⟨hb', hi.Rpos, Ver_upd hi off hng (fun hv => by rw [hv.1] at hfail'; cases hfail')⟩,
    off.toBExt hi.base hlt (fun hv => absurd (Or.inl hv) hng) (fun hc hg => absurd (Or.inr ⟨hc, hg⟩) hng), hfail'⟩

end RedoModel.Deps
