import RedoModel.Lemmas.DepsFuel3
/-!
# C12 — cycles are reported (part 4): a chain of forced targets that closes on itself fails at every level
-/
namespace RedoModel.Deps
open RedoModel.Generated

/-- `t` is forced to run and the first thing its script does is `redo-ifchange x …`:
`t` is a real file id, does not exist, and was never built or failed when last built; its first existing .do
candidate holds a program whose conditional declarations name missing files only and whose first
`redo-ifchange` command starts with `x`. -/
def Forced (w : World) (t x : Nat) : Prop :=
  t ≠ alwaysId ∧ w.fs t = none ∧ ((w.recs t).failed.isSome = true ∨ (w.recs t).changed = none) ∧
  ∃ dof n sc rest cs, (w.rules t).find? (existsF w) = some dof ∧ w.fs dof = some n ∧
    w.progs n.content = some sc ∧ (∀ f ∈ sc.cond, w.fs f = none) ∧ sc.ifchange = (x :: rest) :: cs

theorem Forced.mono {w w' : World} {t x : Nat} (h : Forced w t x) (hd : Desc w w') : Forced w' t x := by
  obtain ⟨h0, hm, hds, dof, n, sc, rest, cs, h1, h2, h3, h4, h5⟩ := h
  obtain ⟨d1, d2, d3, d4⟩ := hd
  have hr := d4 t h0 hm
  refine ⟨h0, by rw [d1]; exact hm, by rw [hr.1, hr.2]; exact hds,
    dof, n, sc, rest, cs, ?_, by rw [d1]; exact h2, by rw [d2]; exact h3, ?_, h5⟩
  · rw [d3, Desc.existsF ⟨d1, d2, d3, d4⟩]; exact h1
  · intro f hf'; rw [d1]; exact h4 f hf'

/-- **The step.**  If the command a forced target's script starts with fails (in every world the
way down can leave), the job of that target is a failed job. -/
theorem buildJob_forced (E : Engine) (d : Defects) (cx : Ctx) (fuel t x : Nat) (w : World)
    (hF : Forced w t x) (hfuel : 0 < fuel)
    (hE : ∀ rest w', Desc w w' → (E.ifchangeCmd (scriptCtx cx t) (x :: rest) w').1 ≠ 0) :
    ∀ rv w1, buildJob E d cx fuel t w = (.done rv, w1) → rv ≠ 0 := by
  obtain ⟨h0, hm, hds, dof, n, sc, rest, cs, h1, h2, h3, h4, h5⟩ := hF
  suffices hss : (ssBuild E d cx t (w.recs t) w).1 ≠ 0 by
    intro rv w1 hb
    unfold buildJob at hb
    rcases shouldBuild_ds cx fuel t w h0 hds hfuel with hsb | hsb
    · simp only [hsb, startSelf_missing E d cx t _ w hm] at hb
      cases hb
      exact hss
    · simp only [hsb] at hb
      split at hb
      · cases hb
      · cases hb
        simp [EXIT_TARGET_FAILED]
  · have hz := Desc.zapDeps1 w t
    have hfd := findDoFile_spec t ((zapDeps1 w t).rules t) (zapDeps1 w t)
    generalize hfe : findDoFile t ((zapDeps1 w t).rules t) (zapDeps1 w t) = r at hfd
    obtain ⟨o, w1⟩ := r
    obtain ⟨ho, hd1⟩ := hfd
    dsimp only at ho hd1
    have hdof : o = some dof := by
      rw [ho, hz.2.2.1, hz.existsF]; exact h1
    subst hdof
    have hw1 : Desc w w1 := hz.trans hd1
    have hdofex : w1.fs dof ≠ none := by rw [hw1.1, h2]; simp
    have hpre : Desc w (ssPre cx t dof w1) :=
      (hw1.trans (Desc.setRec w1 dof _ (Or.inr hdofex))).trans (Desc.ev _ _)
    have hsc : doScript (ssPre cx t dof w1) dof = sc := by
      unfold doScript
      rw [hpre.1, h2]
      dsimp only
      rw [hpre.2.1, h3]
      rfl
    apply ssBuild_nonzero E d cx t (w.recs t) w dof w1 hfe
    rw [hsc]
    apply runScript_nonzero'
    have ha := rsAlways_desc cx t sc (ssPre cx t dof w1)
    have hi := Desc.foldl_addDep t false sc.ifcreate (rsAlways cx t sc (ssPre cx t dof w1))
    have h2w := (hpre.trans ha).trans hi
    generalize sc.ifcreate.foldl (fun w f => addDep w t f false) (rsAlways cx t sc (ssPre cx t dof w1)) = w2 at h2w
    rw [conds_missing E t (scriptCtx cx t) sc.cond w2 (fun f hf' => by rw [h2w.1]; exact h4 f hf')]
    dsimp only
    rw [h5]
    apply cmds_head_nonzero
    exact hE rest _ (h2w.trans (Desc.foldl_addDep t false sc.cond w2))

/-- A failed job makes the command fail, whatever the other targets do. -/
theorem runTargets_head_nonzero (E : Engine) (d : Defects) (cx : Ctx) (fuel t : Nat) (ts seen : List Nat) (e : Bool)
    (w : World) (hs : t ∉ seen)
    (hj : ∀ rv w1, buildJob E d cx fuel t (addKnown w t) = (.done rv, w1) → rv ≠ 0) :
    (runTargets E d cx fuel (t :: ts) seen e w).1 ≠ 0 := by
  rw [runTargets]
  simp only [hs, if_false]
  split
  · simp
  · split
    · simp [EXIT_CYCLIC_DEPENDENCY]
    · split
      · rename_i heq
        exact buildJob_abort_ne _ _ _ _ _ _ _ _ heq
      · rename_i rv w1 heq
        have hrv := hj rv w1 heq
        split
        · simp [CRASHED]
        · simp only [hrv, ne_eq, not_false_eq_true, decide_true, Bool.or_true]
          exact C05.propagates E d cx fuel ts _ _


/-- A nested command of a script fails if its target loop does (after the declarations are recorded). -/
theorem ifchangeWith_script_nonzero (E : Engine) (d : Defects) (fuel : Nat) (cx : Ctx) (ts : List Nat) (w : World)
    (p : Nat) (hp : cx.parent = some p) (hu : cx.unlocked = false)
    (h : ∀ w', Desc w w' → (runTargets E d cx fuel ts [] false w').1 ≠ 0) :
    (ifchangeWith E d fuel cx ts w).1 ≠ 0 := by
  unfold ifchangeWith
  rw [hp]
  dsimp only
  split
  · simp [EXIT_CYCLIC_DEPENDENCY]
  · simp only [hu, Bool.false_eq_true, if_false]
    exact h _ ((Desc.addKnown w p).trans (Desc.foldl_addDep' p true ts _))

/-- A chain `ch 0 → ch 1 → … → ch k → ch (k+1) = ch j` with `j ≤ k`: every `ch i` (`i ≤ k`) is forced to run
and starts by asking for `ch (i+1)`; the last request closes the loop. -/
structure Lasso (w0 : World) (ch : Nat → Nat) (k j : Nat) : Prop where
  forced : ∀ i, i ≤ k → Forced w0 (ch i) (ch (i + 1))
  back : ch (k + 1) = ch j
  hj : j ≤ k

/-- **Every level of a chain that closes on itself fails**, whatever the innermost level `base` of the
engine answers, as soon as the engine has one level per remaining chain element. -/
theorem lasso_runTargets (base : Engine) (d : Defects) (w0 : World) (ch : Nat → Nat) (k j : Nat)
    (hL : Lasso w0 ch k j) :
    ∀ (m i : Nat), i + m = k + 1 → ∀ (n fuel : Nat) (cx : Ctx) (rest : List Nat) (w : World),
      m ≤ n → 0 < fuel → cx.unlocked = false → (∀ l, j ≤ l → l < i → ch l ∈ cx.cycles) → Desc w0 w →
      (runTargets (engineFrom base d n) d cx fuel (ch i :: rest) [] false w).1 ≠ 0
  | 0, i, him, n, fuel, cx, rest, w, _, _, hu, hcy, _ => by
    have hi : i = k + 1 := by omega
    subst hi
    refine runTargets_cycle_nonzero _ d cx fuel hu _ [] false w ⟨ch (k + 1), by simp, ?_, by simp⟩
    rw [hL.back]
    exact hcy j (Nat.le_refl j) (by have := hL.hj; omega)
  | m + 1, i, him, n, fuel, cx, rest, w, hn, hfuel, hu, hcy, hw => by
    obtain ⟨n', rfl⟩ : ∃ n', n = n' + 1 := ⟨n - 1, by omega⟩
    apply runTargets_head_nonzero _ d cx fuel (ch i) rest [] false w (by simp)
    have hF : Forced (addKnown w (ch i)) (ch i) (ch (i + 1)) :=
      (hL.forced i (by omega)).mono (hw.trans (Desc.addKnown w (ch i)))
    exact buildJob_forced (engineFrom base d (n' + 1)) d cx fuel (ch i) (ch (i + 1)) _ hF hfuel (by
      intro rest' w' hw'
      show (ifchangeWith (engineFrom base d n') d (n' + 1) (scriptCtx cx (ch i)) (ch (i + 1) :: rest') w').1 ≠ 0
      apply ifchangeWith_script_nonzero _ d _ _ _ w' (ch i) rfl rfl
      intro w'' hw''
      refine lasso_runTargets base d w0 ch k j hL m (i + 1) (by omega) n' (n' + 1) (scriptCtx cx (ch i)) rest' w''
        (by omega) (by omega) rfl ?_ (((hw.trans (Desc.addKnown w (ch i))).trans hw').trans hw'')
      intro l hjl hli
      show ch l ∈ ch i :: cx.cycles
      by_cases hl : l = i
      · subst hl; simp
      · exact List.mem_cons_of_mem _ (hcy l hjl (by omega)))

/-- The chain theorem for a top-level target list (`cycles = []`): the command fails. -/
theorem lasso_fails (base : Engine) (d : Defects) (w0 : World) (ch : Nat → Nat) (k j : Nat) (hL : Lasso w0 ch k j)
    (n fuel : Nat) (cx : Ctx) (rest : List Nat) (w : World) (hn : k + 1 ≤ n) (hfuel : 0 < fuel)
    (hu : cx.unlocked = false) (hw : Desc w0 w) :
    (runTargets (engineFrom base d n) d cx fuel (ch 0 :: rest) [] false w).1 ≠ 0 :=
  lasso_runTargets base d w0 ch k j hL (k + 1) 0 (by omega) n fuel cx rest w hn hfuel hu
    (fun l _ h => by omega) hw

/-- … in particular for the commands `redo-ifchange` and `redo` of the model, at its own fuel. -/
theorem lasso_runCmd_ifchange (d : Defects) (nf : Nat) (w : World) (ch : Nat → Nat) (k j : Nat) (hL : Lasso w ch k j)
    (hk : k ≤ 2 * nf + 3) (rest : List Nat) (kg : Bool) :
    (runCmd d nf (.ifchange (ch 0 :: rest) kg) w).1.status ≠ 0 := by
  have h := lasso_fails failBase d w ch k j hL (2 * nf + 4) (2 * nf + 4)
    { runid := w.runCounter + 1, keepGoing := kg } rest { w with runCounter := w.runCounter + 1 } (by omega) (by omega) rfl
    ⟨rfl, rfl, rfl, fun _ _ _ => ⟨rfl, rfl⟩⟩
  rw [← engine_eq_from] at h
  exact h

theorem lasso_runCmd_redo (d : Defects) (nf : Nat) (w : World) (ch : Nat → Nat) (k j : Nat) (hL : Lasso w ch k j)
    (hk : k ≤ 2 * nf + 3) (rest : List Nat) (kg : Bool) :
    (runCmd d nf (.redo (ch 0 :: rest) kg) w).1.status ≠ 0 := by
  have h := lasso_fails failBase d w ch k j hL (2 * nf + 4) (2 * nf + 4)
    { runid := w.runCounter + 1, keepGoing := kg, isRedo := true } rest { w with runCounter := w.runCounter + 1 }
    (by omega) (by omega) rfl ⟨rfl, rfl, rfl, fun _ _ _ => ⟨rfl, rfl⟩⟩
  rw [← engine_eq_from] at h
  exact h

end RedoModel.Deps
