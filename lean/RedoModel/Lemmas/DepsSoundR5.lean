import RedoModel.Lemmas.DepsSoundR4
/-! Record-only updates made by the dirtiness check: the vanished-target write and the checked mark. -/
namespace RedoModel.Deps.Rich

@[simp] theorem setRec_recs_self (w : World) (f : Nat) (r : Rec) : (setRec w f r).recs f = r := by simp [setRec]
theorem setRec_recs_other (w : World) (f : Nat) (r : Rec) {x : Nat} (h : x ≠ f) : (setRec w f r).recs x = w.recs x := by
  simp [setRec, h]
@[simp] theorem setRec_fs (w : World) (f : Nat) (r : Rec) : (setRec w f r).fs = w.fs := rfl
@[simp] theorem setRec_deps (w : World) (f : Nat) (r : Rec) : (setRec w f r).deps = w.deps := rfl
@[simp] theorem setRec_rules (w : World) (f : Nat) (r : Rec) : (setRec w f r).rules = w.rules := rfl
@[simp] theorem setRec_progs (w : World) (f : Nat) (r : Rec) : (setRec w f r).progs = w.progs := rfl
@[simp] theorem setRec_clock (w : World) (f : Nat) (r : Rec) : (setRec w f r).clock = w.clock := rfl
@[simp] theorem setRec_readStamp (w : World) (f : Nat) (r : Rec) (x) : readStamp (setRec w f r) x = readStamp w x := rfl
@[simp] theorem setRec_existsF (w : World) (f : Nat) (r : Rec) (x) : existsF (setRec w f r) x = existsF w x := rfl
@[simp] theorem setRec_contentOf (w : World) (f : Nat) (r : Rec) (x) : contentOf (setRec w f r) x = contentOf w x := rfl

theorem OffT.setRec (w : World) (f : Nat) (r : Rec) : OffT f w (setRec w f r) :=
  ⟨rfl, rfl, fun _ _ => rfl, fun _ => rfl, fun _ hx => setRec_recs_other w f r hx, fun _ _ => Iff.rfl, Nat.le_refl _, rfl⟩

/-- `isDirty` found the file of a generated target missing: it forgets that it was generated. -/
theorem Inv_vanished {rank R w f} (hi : Inv rank R X w) (h0 : f ≠ alwaysId) (hf : (w.recs f).failed = none)
    (hs : (w.recs f).stamp ≠ some (readStamp w f)) :
    Inv rank R X (setRec w f { w.recs f with isGenerated := false, isOverride := false, failed := some 0 }) := by
  have hnv : ¬ VerR w R f := fun hv => hs (hi.ver f hv).1.2.2
  have hng : ¬ Good w R f := fun hg => hs (hg.recCur hi).2.2
  have o := hi.base.recOk f
  have hoff := OffT.setRec w f { w.recs f with isGenerated := false, isOverride := false, failed := some 0 }
  refine ⟨Base_upd hi.base hoff ?_ (fun _ _ h => h) hi.base.rowsLt hi.base.cPlain
    (hdet_quiet rfl (by simp) (by simp) (fun h => absurd hf h.1)) ?_ (fun hg _ => by simp [genT] at hg),
    hi.Rpos, Ver_upd hi hoff hng ?_⟩
  · refine ⟨?_, ?_, ?_, ?_, ?_, ?_, ?_, ?_, ?_, ?_, ?_, ?_, ?_⟩ <;> simp only [setRec_recs_self, setRec_fs, setRec_rules, setRec_clock]
    · exact o.chLe
    · exact o.ckLe
    · exact o.noCsum
    · exact fun h => by cases h
    · exact fun _ => trivial
    · exact fun e => absurd e h0
    · exact o.stampCh
    · exact fun _ h => by cases h
    · exact o.fsB
    · exact o.stB
    · exact fun h => absurd ⟨hf, Or.inl h⟩ hnv
    · exact fun h => absurd ⟨hf, Or.inr h⟩ hnv
    · intro k h; cases h; exact Nat.zero_le _
  · intro _ hrc; exact absurd hrc.1 (by simp)
  · intro hv; exact absurd hv.1 (by simp)

theorem DetectS.toM {w M M' d} (h : DetectS w M d) (hm : M' ≤ M) : DetectM w M' d := by
  rcases h with h | ⟨ch, h1, h2⟩ | h | h
  · exact Or.inr (Or.inl h)
  · exact Or.inr (Or.inr (Or.inl ⟨ch, h1, by omega⟩))
  · exact Or.inr (Or.inr (Or.inr h))
  · exact Or.inl h.1

/-- What the loop over the recorded rows of `f` has established when it reports "all clean". -/
def RowsClean (w : World) (R mx f : Nat) : Prop :=
  genT (w.recs f) = true → ∀ d ∈ w.deps, d.target = f →
    (d.modeM = true → VerR w R d.source ∧ ¬ DetectM w mx d.source) ∧
    (d.modeM = false → existsF w d.source = false)

/-- The truth clause of a current target whose rows are all clean holds for any `M`: nothing it promised
has changed. -/
theorem RecTruth_clean {rank R w f mx} (hi : Inv rank R X w) (hx : ¬ X f ∨ VerR w R f) (hrc : RecCur w f)
    (hg : genT (w.recs f) = true)
    (hmx : mx ≤ Mof (w.recs f)) (hrows : RowsClean w R mx f) :
    ∃ pre dof post, VScript w f pre dof post := by
  refine recTruth_script (hi.base.recA f hx hrc.toV hg) hrc.2.2 ?_ ?_
  · rintro s ⟨d, hd, h1, h2, h3⟩ hdt
    exact ((hrows hg d hd h1).1 h3).2 (h2 ▸ hdt.toM hmx)
  · rintro s ⟨d, hd, h1, h2, h3⟩
    exact h2 ▸ (hrows hg d hd h1).2 h3

theorem firstEx_setRec (w : World) (f : Nat) (r : Rec) (cs : List Nat) : firstEx (setRec w f r) cs = firstEx w cs :=
  firstEx_congr cs (fun _ _ => rfl)

theorem ck_verR {w : World} {R f x : Nat} (hv : VerR w R x) :
    VerR (setRec w f { w.recs f with checked := some R }) R x := by
  by_cases e : x = f
  · subst e; unfold VerR; simp only [setRec_recs_self]; exact ⟨hv.1, Or.inl trivial⟩
  · unfold VerR; rw [setRec_recs_other _ _ _ e]; exact hv

theorem ck_good {w : World} {R f x : Nat} (hv : Good w R x) :
    Good (setRec w f { w.recs f with checked := some R }) R x := by
  rcases hv with hv | ⟨hc, hg⟩
  · exact Or.inl (ck_verR hv)
  · right
    by_cases e : x = f
    · subst e; unfold RecCur; simp only [setRec_recs_self, setRec_readStamp]; exact ⟨hc, hg⟩
    · unfold RecCur; rw [setRec_recs_other _ _ _ e]; exact ⟨hc, hg⟩

/-- Base part of marking a verified-clean file as checked. -/
theorem Base_setChecked {rank R w f mx} (hi : Inv rank R X w) (hx : ¬ X f) (hrc : RecCur w f)
    (h0 : f = alwaysId → (w.recs f).changed = some R)
    (hmx : mx ≤ Mof (w.recs f)) (hrows : RowsClean w R mx f) :
    Base rank R X (setRec w f { w.recs f with checked := some R }) := by
  have o := hi.base.recOk f
  refine Base_upd hi.base (OffT.setRec w f _) ?_ (fun _ _ h => h) hi.base.rowsLt hi.base.cPlain
    (hdet_quiet rfl (by simp) (by simp) (fun h => absurd hrc.1 h.1)) ?_
    (fun _ hs => Or.inl (fs_none_of_cur (w := w) hrc.2.2 (by simpa using hs)))
  · refine ⟨?_, ?_, ?_, ?_, ?_, ?_, ?_, ?_, ?_, ?_, ?_, ?_, ?_⟩ <;>
      simp only [setRec_recs_self, setRec_fs, setRec_rules, setRec_clock]
    · exact o.chLe
    · intro ck h; cases h; exact Nat.le_refl _
    · exact o.noCsum
    · exact o.ovrSt
    · exact o.srcNotGen
    · exact fun e => ⟨(o.rec0 e).failed, (o.rec0 e).gen, fun _ => h0 e, (o.rec0 e).stamp⟩
    · exact o.stampCh
    · exact o.staticEx
    · exact o.fsB
    · exact o.stB
    · exact fun _ => hrc.1
    · exact o.markFail
    · exact o.flLe
  · intro _ _ hg
    simp only [setRec_recs_self] at hg
    obtain ⟨pre, dof, post, vs⟩ := RecTruth_clean hi (Or.inl hx) hrc hg hmx hrows
    have vs' : VScript (setRec w f { w.recs f with checked := some R }) f pre dof post :=
      VScript.congr (w := w) (w' := setRec w f { w.recs f with checked := some R }) rfl rfl rfl rfl vs
    refine vs'.recTruth (scriptAt_rich hi.base dof) (by simpa using hrc.2.2) ?_
    rintro s ⟨d, hd, h1, h2, h3⟩ hgs hss
    have hv : VerR w R s := h2 ▸ ((hrows hg d hd h1).1 h3).1
    have hst : ∀ x, ((setRec w f { w.recs f with checked := some R }).recs x).stamp = (w.recs x).stamp := by
      intro x; by_cases e : x = f
      · subst e; simp
      · rw [setRec_recs_other _ _ _ e]
    rw [hst] at hss
    exact fs_none_of_cur (w := w) (hi.ver s hv).1.2.2 hss

theorem Ver_setChecked {rank R w f mx} (hi : Inv rank R X w) (hx : ¬ X f) (hrc : RecCur w f)
    (h0 : f = alwaysId → (w.recs f).changed = some R)
    (hmx : mx ≤ Mof (w.recs f)) (hrows : RowsClean w R mx f) :
    Ver R (setRec w f { w.recs f with checked := some R }) := by
  have hgen : ∀ x, genT ((setRec w f { w.recs f with checked := some R }).recs x) = genT (w.recs x) := by
    intro x
    by_cases e : x = f
    · subst e; simp [genT]
    · rw [setRec_recs_other _ _ _ e]
  have hup : ∀ x, Good w R x → UpToDateR (setRec w f { w.recs f with checked := some R }) x :=
    fun x hx => good_upToDate (w' := setRec w f { w.recs f with checked := some R }) hi rfl rfl
      (fun _ _ => rfl) (fun y _ => ⟨rfl, hgen y⟩) (rank x + 1) x (Nat.lt_succ_self _) hx
  intro x hv
  by_cases e : x = f
  · subst e
    refine ⟨by unfold RecCur; simp only [setRec_recs_self, setRec_readStamp]; exact hrc, ?_, ?_⟩
    · cases hg : genT (w.recs x) with
      | false =>
        by_cases h0 : x = alwaysId
        · subst h0
          refine UpToDateR.source ?_
          show ∀ c ∈ w.rules alwaysId, _
          rw [hi.base.rulesOk.1]; intro c hc; cases hc
        · refine UpToDateR.ofStat (by rw [hgen]; exact hg) ?_
          show existsF w x = true
          exact static_exists hi.base h0 hrc hg
      | true =>
        obtain ⟨pre, dof, post, vs⟩ := RecTruth_clean hi (Or.inl hx) hrc hg hmx hrows
        have vs' : VScript (setRec w x { w.recs x with checked := some R }) x pre dof post :=
          VScript.congr (w := w) (w' := setRec w x { w.recs x with checked := some R }) rfl rfl rfl rfl vs
        refine vs'.upToDate (Base_setChecked hi hx hrc h0 hmx hrows) (fun d hd => ?_)
        obtain ⟨r, hrm, h1, h2, h3⟩ := vs.decl d hd
        exact hup d (Or.inl (h2 ▸ ((hrows hg r hrm h1).1 h3).1))
    · intro hg d hd hdt
      rw [hgen] at hg
      exact ⟨fun hm => Or.inl (ck_verR ((hrows hg d hd hdt).1 hm).1), (hrows hg d hd hdt).2⟩
  · have hv0 : VerR w R x := by unfold VerR at hv; rw [setRec_recs_other _ _ _ e] at hv; exact hv
    obtain ⟨hrc0, _, hcl⟩ := hi.ver x hv0
    refine ⟨?_, hup x (Or.inl hv0), ?_⟩
    · unfold RecCur; rw [setRec_recs_other _ _ _ e]; exact hrc0
    · intro hg d hd hdt
      rw [hgen] at hg
      exact ⟨fun hm => ck_good ((hcl hg d hd hdt).1 hm), (hcl hg d hd hdt).2⟩

theorem Inv_setChecked {rank R w f mx} (hi : Inv rank R X w) (hx : ¬ X f) (hrc : RecCur w f)
    (h0 : f = alwaysId → (w.recs f).changed = some R)
    (hmx : mx ≤ Mof (w.recs f)) (hrows : RowsClean w R mx f) :
    Inv rank R X (setRec w f { w.recs f with checked := some R }) :=
  ⟨Base_setChecked hi hx hrc h0 hmx hrows, hi.Rpos, Ver_setChecked hi hx hrc h0 hmx hrows⟩

end RedoModel.Deps.Rich
