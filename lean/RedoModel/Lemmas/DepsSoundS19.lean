import RedoModel.Lemmas.DepsSoundS18
/-! The record written after a successful build of a target that was not good: the analogue of the
success case of `P.build_spec`. -/
namespace RedoModel.Deps.S

/-- What the two ways of recording a success have in common. -/
structure BuiltFields (t : Nat) (out : Option Content) (w w' : World) : Prop where
  rules : w'.rules = w.rules
  progs : w'.progs = w.progs
  fs : ∀ x, x ≠ t → w'.fs x = w.fs x
  content : contentOf w' t = out
  recs : ∀ x, x ≠ t → w'.recs x = w.recs x
  deps : w'.deps = w.deps.filter (fun d => !(d.target = t && d.deleteMe))
  clock : w.clock ≤ w'.clock
  rc : w'.runCounter = w.runCounter

theorem OkFields.toBuilt {R t out w w'} (hf : OkFields R t out w w') : BuiltFields t out w w' :=
  ⟨hf.rules, hf.progs, hf.fs, hf.content, hf.recs, hf.deps, hf.clock, hf.rc⟩

theorem SameFields.toBuilt {R t x w w'} (hf : SameFields R t x w w') : BuiltFields t (some x) w w' :=
  ⟨hf.rules, hf.progs, hf.fs, hf.content, hf.recs, hf.deps, hf.clock, hf.rc⟩

theorem BuiltFields.offT {t out w w'} (hf : BuiltFields t out w w') (hr : w.rules t ≠ []) : OffT t w w' := by
  refine ⟨hf.rules, hf.progs, hf.fs, fun h => absurd h hr, hf.recs, fun d hd => ?_, hf.clock, hf.rc⟩
  rw [hf.deps, List.mem_filter]
  simp [hd]

theorem BuiltFields.hasRow {t out w w' s m} (hf : BuiltFields t out w w') (h : HasRowU w t s m) : HasRow w' t s m := by
  obtain ⟨d, hd, h1, h2, h3, h4⟩ := h
  refine ⟨d, ?_, h1, h2, h3⟩
  rw [hf.deps, List.mem_filter]
  simp [hd, h4]

/-- The record clauses after a recorded success. -/
theorem recOk_success {R t : Nat} {w w' : World} (hrules : w'.rules = w.rules) (hr : w.rules t ≠ []) (h0 : t ≠ alwaysId)
    (hfsB : ∀ n, w'.fs t = some n → n.ms ≤ w'.clock) (hgen : (w'.recs t).isGenerated = true)
    (hovr : (w'.recs t).isOverride = false) (hfl : (w'.recs t).failed = none)
    (hst : (w'.recs t).stamp = some (readStamp w' t))
    (hch : ∀ ch, (w'.recs t).changed = some ch → ch ≤ R) (hck : ∀ ck, (w'.recs t).checked = some ck → ck ≤ R)
    (hcn : (w'.recs t).changed ≠ none) (hcs : ∀ x, (w'.recs t).csum = some x → contentOf w' t = some x) :
    RecOk R t w' := by
  refine ⟨hch, hck, ?_, ?_, ?_, fun _ => hcn, hovr, ?_, ?_, fun _ => hcn, ?_, ?_, hfsB, ?_, fun _ => hfl,
    fun _ => Or.inl hfl, ?_⟩
  · intro x hx n hn
    have := hcs x hx; unfold contentOf at this; rw [hn] at this; simpa using this
  · intro hne _
    obtain ⟨x, hx⟩ := Option.ne_none_iff_exists'.1 hne
    have := hcs x hx
    rw [hst]
    cases hn : w'.fs t with
    | none => unfold contentOf at this; rw [hn] at this; cases this
    | some n => unfold readStamp; rw [hn]; simp
  · intro h; rw [hrules] at h; exact absurd h hr
  · intro h; rw [hrules] at h; exact absurd h hr
  · intro e; exact absurd e h0
  · intro _ h; rw [hgen] at h; cases h
  · intro _ n hn
    exact ⟨n.rest, by rw [hst]; unfold readStamp; rw [hn]⟩
  · intro ms rest h
    rw [hst] at h
    cases hn : w'.fs t with
    | none => rw [readStamp_missing.2 hn] at h; cases h
    | some n =>
      have hrs : readStamp w' t = .st n.ms n.rest := by unfold readStamp; rw [hn]
      rw [hrs] at h; cases h
      exact ⟨hfsB n hn, fun n' hn' => by cases hn'; exact Or.inr ⟨rfl, Nat.le_refl _⟩⟩
  · intro k h; rw [hfl] at h; cases h

theorem OkFields.recOk {R t out w w'} (hf : OkFields R t out w w') (o : RecOk R t w) (hr : w.rules t ≠ [])
    (h0 : t ≠ alwaysId) : RecOk R t w' :=
  recOk_success hf.rules hr h0 hf.fsB hf.gen hf.ovr hf.failed hf.stamp
    (fun ch h => by rw [hf.changed] at h; cases h; exact Nat.le_refl _) (by rw [hf.checked]; exact o.ckLe)
    (by rw [hf.changed]; simp) (fun x hx => by rw [hf.content]; exact hf.csum x hx)

theorem SameFields.recOk {R t x w w'} (hf : SameFields R t x w w') (o : RecOk R t w) (hr : w.rules t ≠ [])
    (h0 : t ≠ alwaysId) : RecOk R t w' :=
  recOk_success hf.rules hr h0 hf.fsB hf.gen hf.ovr hf.failed hf.stamp
    (by rw [hf.changed]; exact o.chLe) (fun ck h => by rw [hf.checked] at h; cases h; exact Nat.le_refl _)
    (by rw [hf.changed]; exact o.csumCh (by rw [hf.csum0]; simp))
    (fun y hy => by rw [hf.csum] at hy; cases hy; exact hf.content)

/-- Everything known about the world `w` just before the result of a successful build of `t` is recorded. -/
structure Built (rank : Nat → Nat) (R t : Nat) (pre : List Nat) (dof : Nat) (post : List Nat) (sc : Script) (w : World) : Prop where
  notGood : ¬ Good w R t
  rules : w.rules t = pre ++ dof :: post
  pre : ∀ c ∈ pre, existsF w c = false ∧ HasRowU w t c false
  dofEx : existsF w dof = true
  dofRow : HasRowU w t dof true
  dofGood : Good w R dof
  script : scriptAt w dof = sc
  exit : sc.exit = 0
  reads : ∀ d ∈ sc.reads, Good w R d ∧ HasRowU w t d true
  shape : ∀ d ∈ w.deps, d.target = t → d.deleteMe = false →
    (d.modeM = false → existsF w d.source = false) ∧ (d.modeM = true → d.source = dof ∨ d.source ∈ sc.reads)

theorem Built.ne {rank R X t pre dof post sc w} (hi : Inv rank R X w) (hb : Built rank R t pre dof post sc w) :
    w.rules t ≠ [] ∧ t ≠ alwaysId ∧ ∀ x, Good w R x → x ≠ t := by
  have h1 : w.rules t ≠ [] := by rw [hb.rules]; simp
  exact ⟨h1, fun e => h1 (e ▸ hi.base.rulesOk.1), fun x hx e => hb.notGood (e ▸ hx)⟩

theorem recordOk_recTruth {rank R X t pre dof post sc w w'} (hi : Inv rank R X w)
    (hb : Built rank R t pre dof post sc w) (hf : BuiltFields t (outOf w sc) w w') : RecTruth w' t := by
  obtain ⟨hr, h0, hne⟩ := hb.ne hi
  have off := hf.offT hr
  have hdofP : w.rules dof = [] := (hi.base.rulesOk.2 t dof (by rw [hb.rules]; simp)).1
  have hfsd := off.fsPlain hi.base hdofP
  have hcont : ∀ d ∈ sc.reads, contentOf w' d = contentOf w d :=
    fun d hd => contentOf_congr (hf.fs d (hne d (hb.reads d hd).1))
  have hmap : sc.reads.map (contentOf w') = sc.reads.map (contentOf w) := List.map_congr_left hcont
  refine ⟨pre, dof, post, sc, by rw [hf.rules]; exact hb.rules, fun c hc => hf.hasRow (hb.pre c hc).2,
    hf.hasRow hb.dofRow, fun d hd => hf.hasRow (hb.reads d hd).2, hb.exit,
    Or.inl ⟨by rw [existsF_congr hfsd]; exact hb.dofEx, by rw [scriptAt_congr hfsd hf.progs]; exact hb.script⟩,
    sc.reads.map (contentOf w'), ?_, by simp, ?_⟩
  · rw [hf.content, hmap]; rfl
  · intro p hp
    have hp2 := P.zip_map_snd (contentOf w') _ p hp
    refine ⟨fun hne' => absurd hp2 hne', fun x hx => Or.inl ?_⟩
    have hm := P.zip_fst_mem _ _ p hp
    have hg := (hb.reads p.1 hm).1
    rw [hf.recs p.1 (hne _ hg)] at hx
    rw [hp2, hcont p.1 hm]
    exact hi.base.csumCur (hg.recCur hi) hx

theorem recordOk_upToDate {rank R X t pre dof post sc w w'} (hi : Inv rank R X w)
    (hb : Built rank R t pre dof post sc w) (hf : BuiltFields t (outOf w sc) w w') : UpToDateD w' t := by
  obtain ⟨hr, h0, hne⟩ := hb.ne hi
  have off := hf.offT hr
  have hplain : ∀ c ∈ w.rules t, w'.fs c = w.fs c :=
    fun c hc => off.fsPlain hi.base (hi.base.rulesOk.2 t c hc).1
  have hfsd := hplain dof (by rw [hb.rules]; simp)
  have hsc : scriptAt w' dof = sc := by rw [scriptAt_congr hfsd hf.progs]; exact hb.script
  have hmap : sc.reads.map (contentOf w') = sc.reads.map (contentOf w) :=
    List.map_congr_left (fun d hd => contentOf_congr (hf.fs d (hne d (hb.reads d hd).1)))
  refine UpToDateD.target (dof := dof) ?_ ?_ ?_
  · rw [hf.rules, firstEx_congr _ hplain, hb.rules]
    exact firstEx_split pre dof post (fun c hc => (hb.pre c hc).1) hb.dofEx
  · rw [hsc]; intro d hd
    exact good_upToDate hi hf.rules hf.progs (fun x hx => contentOf_congr (off.fsPlain hi.base hx))
      (fun x hx => ⟨contentOf_congr (hf.fs x (hne x hx)), by rw [hf.recs x (hne x hx)]⟩)
      (rank d + 1) d (Nat.lt_succ_self _) (hb.reads d hd).1
  · rw [hsc, hf.content]; unfold outOf; rw [hmap]

/-- The common end of the two ways of recording a success: the new record is current, verified and detectable. -/
theorem recordBuilt_spec {rank R t pre dof post sc w w' b po} {X X' : Nat → Prop} (hi : Inv rank R X w)
    (hX : ∀ u, u ≠ t → ¬ X' u → ¬ X u) (hb : Built rank R t pre dof post sc w)
    (hf : BuiltFields t (outOf w sc) w w') (hok : RecOk R t w') (hrs : RecCur w' t) (hv : VerR w' R t)
    (hdet : ∀ u, u ≠ t → RecCur w u → (w.recs u).isGenerated = true → HasRow w u t true →
      Hdet w w' t (Mof (w.recs u))) (hlt : rank t < b) :
    Inv rank R X' w' ∧ VerR w' R t ∧ BExt rank R b po w w' ∧ (NoFail R w → NoFail R w') := by
  obtain ⟨hr, h0, hne⟩ := hb.ne hi
  have off := hf.offT hr
  have hsub : ∀ d ∈ w'.deps, d ∈ w.deps := fun d hd => by
    rw [hf.deps, List.mem_filter] at hd; exact hd.1
  have hb' := Base_upd (X' := X') hi.base off hok hX
    (fun d hd => hi.base.rowsLt d (hsub d hd))
    (fun d hd hm => by rw [off.rules]; exact hi.base.cPlain d (hsub d hd) hm)
    hdet (fun _ _ _ => recordOk_recTruth hi hb hf)
  have hver := Ver_upd hi off hb.notGood (fun _ => ⟨hrs, recordOk_upToDate hi hb hf, fun _ d hd hdt => by
    rw [hf.deps, List.mem_filter] at hd
    obtain ⟨hd1, hd2⟩ := hd
    have hdm : d.deleteMe = false := by
      cases hx : d.deleteMe with
      | false => rfl
      | true => simp [hdt, hx] at hd2
    obtain ⟨s1, s2⟩ := hb.shape d hd1 hdt hdm
    refine ⟨fun hm => ?_, fun hm => ?_⟩
    · have hg : Good w R d.source := by
        rcases s2 hm with e | e
        · rw [e]; exact hb.dofGood
        · exact (hb.reads _ e).1
      exact (off.good (hne _ hg) R).2 hg
    · rw [existsF_congr (off.fsPlain hi.base (hi.base.cPlain d hd1 hm))]; exact s1 hm⟩)
  refine ⟨⟨hb', hi.Rpos, hver⟩, hv,
    off.toBExt hi.base hlt (fun h => absurd (Or.inl h) hb.notGood) (fun hc hg => absurd (Or.inr ⟨hc, hg⟩) hb.notGood), ?_⟩
  intro hnf f
  by_cases e : f = t
  · subst e; rw [hrs.1]; simp
  · rw [hf.recs f e]; exact hnf f

theorem recordOk_spec {rank R t pre dof post sc w w' b po} {X X' : Nat → Prop} (hi : Inv rank R X w)
    (hX : ∀ u, u ≠ t → ¬ X' u → ¬ X u) (hb : Built rank R t pre dof post sc w)
    (hf : OkFields R t (outOf w sc) w w') (hlt : rank t < b) :
    Inv rank R X' w' ∧ VerR w' R t ∧ BExt rank R b po w w' ∧ (NoFail R w → NoFail R w') := by
  obtain ⟨hr, h0, _⟩ := hb.ne hi
  exact recordBuilt_spec hi hX hb hf.toBuilt (hf.recOk (hi.base.recOk t) hr h0)
    ⟨hf.failed, by rw [hf.changed]; simp, hf.stamp⟩ ⟨hf.failed, Or.inr hf.changed⟩
    (hdet_loud hi hb.notGood hf.changed) hlt

/-- The script reproduced the recorded checksum: the record is only marked `checked`, and that is right. -/
theorem recordSame_spec {rank R t pre dof post sc w w' b po x} {X X' : Nat → Prop} (hi : Inv rank R X w)
    (hX : ∀ u, u ≠ t → ¬ X' u → ¬ X u) (hb : Built rank R t pre dof post sc w) (hx : outOf w sc = some x)
    (hf : SameFields R t x w w') (hlt : rank t < b) :
    Inv rank R X' w' ∧ VerR w' R t ∧ BExt rank R b po w w' ∧ (NoFail R w → NoFail R w') := by
  obtain ⟨hr, h0, _⟩ := hb.ne hi
  have hcn : (w'.recs t).changed ≠ none := by
    rw [hf.changed]; exact hi.base.csumCh t (by rw [hf.csum0]; simp)
  exact recordBuilt_spec hi hX hb (hx ▸ hf.toBuilt) (hf.recOk (hi.base.recOk t) hr h0)
    ⟨hf.failed, hcn, hf.stamp⟩ ⟨hf.failed, Or.inl hf.checked⟩
    (hdet_same hf.csum0 hf.csum hf.content hf.changed) hlt

end RedoModel.Deps.S
