import RedoModel.Lemmas.DepsOk5
/-!
# C09 — `runTargets`, `ifchangeWith`, the engine knot: every level of the real engine satisfies `ESucc`
-/
namespace RedoModel.Deps.Rich
open RedoModel.Generated

/-- `builder::run` over buildable targets, given that each job on a buildable target returns 0 (`hjobS`) and
keeps the invariant (`hjob`). -/
theorem runTargets_succ {rank R b fuel} {E : Engine} {cx : Ctx} {X : Nat → Prop} (d : Defects)
    (hK : EngineKeeps E) (hF : EngineFr E) (hcyc : ∀ c ∈ cx.cycles, b ≤ rank c) (po : Option Nat)
    (hjob : ∀ t w, Inv rank R X w → rank t < b → t ≠ alwaysId →
      JobPostW rank R X t b po w (jrStatus (buildJob E d cx fuel t w).1, (buildJob E d cx fuel t w).2))
    (hjobS : ∀ t w, Inv rank R X w → rank t < b → t ≠ alwaysId → NoFail R w → Buildable w t →
      (buildJob E d cx fuel t w).1 = .done 0) :
    ∀ (ts seen : List Nat) (w : World), Inv rank R X w → (∀ t ∈ ts, rank t < b ∧ t ≠ alwaysId) → NoFail R w →
      (∀ t ∈ ts, Buildable w t) → (runTargets E d cx fuel ts seen false w).1 = 0
  | [], seen, w, _, _, _, _ => by simp [runTargets]
  | t :: ts, seen, w, hi, hts, hnf, hB => by
    have htl : ∀ t' ∈ ts, rank t' < b ∧ t' ≠ alwaysId := fun t' h => hts t' (List.mem_cons_of_mem _ h)
    have hBl : ∀ t' ∈ ts, Buildable w t' := fun t' h => hB t' (List.mem_cons_of_mem _ h)
    rw [runTargets]
    by_cases hin : t ∈ seen
    · simp only [hin, if_true]
      exact runTargets_succ d hK hF hcyc po hjob hjobS ts seen w hi htl hnf hBl
    simp only [hin, if_false, Bool.false_and, Bool.false_eq_true]
    have e1 := WEqv.addKnown w t
    have hi1 := e1.inv hi
    have hnc : t ∉ cx.cycles := fun h => by
      have := hcyc t h; have := (hts t (by simp)).1; omega
    have hc : (!cx.unlocked && decide (t ∈ cx.cycles)) = false := by simp [hnc]
    simp only [hc, Bool.false_eq_true, if_false]
    have hj := hjob t (addKnown w t) hi1 (hts t (by simp)).1 (hts t (by simp)).2
    have hz := hjobS t (addKnown w t) hi1 (hts t (by simp)).1 (hts t (by simp)).2 (hnf.eqv e1)
      ((hB t (by simp)).tr hi.base (Tr.addKnown w t))
    have htr : Tr (addKnown w t) (buildJob E d cx fuel t (addKnown w t)).2 :=
      ⟨buildJob_frU E hF d cx fuel t _, buildJob_keepsUser E hK d cx fuel t _⟩
    generalize buildJob E d cx fuel t (addKnown w t) = res at hj hz htr ⊢
    obtain ⟨jr, w2⟩ := res
    dsimp only at hz htr
    subst hz
    obtain ⟨j1, _, _, j4, _⟩ := hj
    simp only [jrStatus] at j1 j4
    have hor : (false || decide ((0 : Status) ≠ 0)) = false := by decide
    simp only [CRASHED_ne_zero, if_false, hor]
    exact runTargets_succ d hK hF hcyc po hjob hjobS ts (t :: seen) w2 j1 htl (j4 (hnf.eqv e1) trivial)
      (fun t' ht' => ((hBl t' ht').tr hi.base (Tr.addKnown w t)).tr hi1.base htr)

/-- `redo-ifchange` one level up satisfies the success specification when the nested engine does. -/
theorem ifchangeWith_succ {rank R n E} (hE : EOk rank R n E) (d : Defects) :
    ESucc rank R (n + 1) { ifchangeCmd := fun cx ts w => ifchangeWith E d (n + 1) cx ts w } := by
  intro X cx ts w b h1 h2 h3 h4 hi hts hXb hpar hcyc hk hnf hB
  show (ifchangeWith E d (n + 1) cx ts w).1 = 0
  have hjob : ∀ t w0, Inv rank R X w0 → rank t < b → t ≠ alwaysId →
      JobPostW rank R X t b none w0 (jrStatus (buildJob E d cx (n + 1) t w0).1, (buildJob E d cx (n + 1) t w0).2) :=
    fun t w0 hi0 hlt ht0 => (buildJob_spec hE.spec d h1 h2 h4 hi0 ht0
      (fun x hx => Nat.lt_of_lt_of_le hlt (hXb x hx)) hlt none).weak
  have hjobS : ∀ t w0, Inv rank R X w0 → rank t < b → t ≠ alwaysId → NoFail R w0 → Buildable w0 t →
      (buildJob E d cx (n + 1) t w0).1 = .done 0 :=
    fun t w0 hi0 hlt ht0 hnf0 hB0 => buildJob_succ hE d h1 h2 h4 hi0 ht0
      (fun x hx => Nat.lt_of_lt_of_le hlt (hXb x hx)) (fun c hc => Nat.lt_of_lt_of_le hlt (hcyc c hc))
      (by omega) (by omega) hnf0 hB0
  unfold ifchangeWith
  cases hp : cx.parent with
  | none =>
    simp only [Bool.false_eq_true, if_false]
    exact runTargets_succ d hE.keeps hE.fr hcyc none hjob hjobS ts [] w hi hts hnf hB
  | some p =>
    obtain ⟨hbp, hXp, hngp⟩ := hpar p hp
    simp only [h3, Bool.not_false, Bool.true_and]
    have hc : ts.contains p = false := by
      cases h : ts.contains p with
      | false => rfl
      | true =>
        have := (hts p (by simpa using h)).1
        omega
    simp only [hc, Bool.false_eq_true, if_false]
    have e1 := WEqv.addKnown w p
    have hi1 := e1.inv hi
    have hng1 : ¬ Good (addKnown w p) R p := fun h => hngp ((e1.good R p).1 h)
    obtain ⟨d1, d2, _, _⟩ := declare_spec (rank := rank) (R := R) hXp b hbp ts (addKnown w p) hi1 hng1
      (fun t ht => (hts t ht).1)
    exact runTargets_succ d hE.keeps hE.fr hcyc none hjob hjobS ts [] (declare p ts (addKnown w p)) d1 hts
      (fun f => by rw [d2.eqv.failed]; exact (hnf.eqv e1) f)
      (fun t ht => ((hB t ht).tr hi.base (Tr.addKnown w p)).tr hi1.base (Tr.ofRowOp d2))

/-- Every level of the real engine satisfies the four specifications. -/
theorem engine_ok (rank : Nat → Nat) (R : Nat) (d : Defects) : ∀ n, EOk rank R n (engine d n)
  | 0 => ⟨engine_spec rank R d 0, fun _ _ _ _ _ _ _ _ _ _ _ _ _ _ hk => absurd hk (Nat.not_lt_zero _),
      engine_keeps d 0, engine_frU d 0⟩
  | n + 1 => ⟨engine_spec rank R d (n + 1), ifchangeWith_succ (engine_ok rank R d n) d, engine_keeps d (n + 1),
      engine_frU d (n + 1)⟩

theorem Tr.alloc (w : World) : Tr w (allocRun w).2 := ⟨FrU.of_fs rfl rfl rfl, SameOwn.keeps (⟨rfl, fun _ _ => KeyEq.refl _⟩ : SameOwn w (allocRun w).2)⟩

/-- Top-level `redo-ifchange ts` over buildable targets exits 0. -/
theorem top_succ_ifchange {rank N w} {cx : Ctx} (d : Defects) (hN : ∀ f, rank f < N) (h : Btw rank w)
    (hcx : cx.runid = w.runCounter + 1) (hredo : cx.isRedo = false) (hcrash : cx.crash = none)
    (hcyc : cx.cycles = []) (ts : List Nat) (hts0 : ∀ t ∈ ts, t ≠ alwaysId) (hB : ∀ t ∈ ts, Buildable w t) :
    (runTargets (engine d (2 * N + 4)) d cx (2 * N + 4) ts [] false (allocRun w).2).1 = 0 := by
  obtain ⟨hi1, hnf1⟩ := Inv_alloc h
  have hE := engine_ok rank (w.runCounter + 1) d (2 * N + 4)
  refine runTargets_succ (b := N) (X := NoX) d hE.keeps hE.fr (by rw [hcyc]; intro c hc; cases hc) none
    (fun t w0 hi0 hlt ht0 => (buildJob_spec hE.spec d hcx hredo hcrash hi0 ht0 (fun _ hx => hx.elim) hlt none).weak)
    (fun t w0 hi0 hlt ht0 hnf0 hB0 => buildJob_succ hE d hcx hredo hcrash hi0 ht0 (fun _ hx => hx.elim)
      (by rw [hcyc]; intro c hc; cases hc) (by omega) (by omega) hnf0 hB0)
    ts [] (allocRun w).2 hi1 (fun t ht => ⟨hN t, hts0 t ht⟩) hnf1
    (fun t ht => (hB t ht).tr (show Base rank w.runCounter NoX w from h) (Tr.alloc w))

end RedoModel.Deps.Rich
