import RedoModel.Lemmas.DepsSoundR2
import RedoModel.Core.Build
/-! Consequences of the invariant for verified files: their script, their cone. -/
namespace RedoModel.Deps.Rich

theorem Base.Mof_le {rank R w} (hb : Base rank R X w) (u : Nat) : Mof (w.recs u) ≤ R := by
  unfold Mof
  have h1 : (w.recs u).changed.getD 0 ≤ R := by
    cases h : (w.recs u).changed with
    | none => simp
    | some c => simpa using hb.chLe u c h
  have h2 : (w.recs u).checked.getD 0 ≤ R := by
    cases h : (w.recs u).checked with
    | none => simp
    | some c => simpa using hb.ckLe u c h
  exact Nat.max_le.2 ⟨h1, h2⟩

theorem Mof_eq_R {R : Nat} {r : Rec} (h : Mof r = R) (hR : 0 < R) : r.changed = some R ∨ r.checked = some R := by
  unfold Mof at h
  cases hc : r.changed with
  | none =>
    cases hk : r.checked with
    | none => rw [hc, hk] at h; simp at h; omega
    | some k => rw [hc, hk] at h; simp at h; right; rw [h]
  | some c =>
    cases hk : r.checked with
    | none => rw [hc, hk] at h; simp at h; left; rw [h]
    | some k =>
      rw [hc, hk] at h; simp only [Option.getD_some] at h
      rcases Nat.le_total c k with hck | hck
      · right; rw [← h, Nat.max_eq_right hck]
      · left; rw [← h, Nat.max_eq_left hck]

theorem VerR.Mof_eq {rank R w f} (hb : Base rank R X w) (hv : VerR w R f) : Mof (w.recs f) = R := by
  have hle := hb.Mof_le f
  unfold Mof at hle ⊢
  rcases hv.2 with h | h
  · rw [h] at hle ⊢; simp only [Option.getD_some] at hle ⊢; omega
  · rw [h] at hle ⊢; simp only [Option.getD_some] at hle ⊢; omega

theorem RecCur.notDetectS {rank R w d} (hb : Base rank R X w) (hc : RecCur w d) : ¬ DetectS w R d := by
  rintro (h | ⟨ch, h1, h2⟩ | h | h)
  · exact hc.2.1 h
  · have := hb.chLe d ch h1; omega
  · exact h hc.2.2
  · exact h.1 hc.1

theorem Good.recCur {rank R w d} (hi : Inv rank R X w) (hg : Good w R d) : RecCur w d := by
  rcases hg with hv | ⟨_, hc, _⟩
  · exact (hi.ver d hv).1
  · exact hc

theorem Good.notDetectM {rank R w d} (hi : Inv rank R X w) (hg : Good w R d) : ¬ DetectM w R d := by
  have hc := hg.recCur hi
  rintro (h | h | h | h)
  · exact h hc.1
  · exact hc.notDetectS hi.base (Or.inl h)
  · exact hc.notDetectS hi.base (Or.inr (Or.inl h))
  · exact hc.notDetectS hi.base (Or.inr (Or.inr (Or.inl h)))

/-- A current record of a file redo does not own: the file exists. -/
theorem static_exists {rank R w d} (hb : Base rank R X w) (h0 : d ≠ alwaysId) (hc : RecCur w d)
    (hg : genT (w.recs d) = false) : existsF w d = true := by
  have h1 := hb.staticEx d h0 hc.1 hg
  rw [hc.2.2] at h1
  cases hx : existsF w d with
  | true => rfl
  | false =>
    exfalso; apply h1
    rw [readStamp_missing.2 (existsF_eq_false.1 hx)]

theorem HasRow.good {rank R w x s} (hi : Inv rank R X w) (hv : VerR w R x) (hg : genT (w.recs x) = true)
    (h : HasRow w x s true) : Good w R s := by
  obtain ⟨d, hd, h1, h2, h3⟩ := h
  have := ((hi.ver x hv).2.2 hg d hd h1).1 h3
  rwa [h2] at this

theorem HasRow.absent {rank R w x s} (hi : Inv rank R X w) (hv : VerR w R x) (hg : genT (w.recs x) = true)
    (h : HasRow w x s false) : existsF w s = false := by
  obtain ⟨d, hd, h1, h2, h3⟩ := h
  have := ((hi.ver x hv).2.2 hg d hd h1).2 h3
  rwa [h2] at this

theorem scriptAt_rich {rank R X w} (hb : Base rank R X w) (dof : Nat) : (scriptAt w dof).Rich := by
  unfold scriptAt
  cases w.fs dof with
  | none => exact ⟨rfl, by simp, by simp⟩
  | some n =>
    simp only
    cases h : w.progs n.content with
    | none => exact ⟨rfl, by simp, by simp⟩
    | some sc => exact hb.richProgs _ sc h

/-- What is known about a current generated target `x` none of whose rows is dirty: its script is the one in
place, ran to completion on the present contents, and every declaration is recorded. -/
structure VScript (w : World) (x : Nat) (pre : List Nat) (dof : Nat) (post : List Nat) : Prop where
  rules : w.rules x = pre ++ dof :: post
  pre : ∀ c ∈ pre, existsF w c = false ∧ HasRow w x c false
  dofEx : existsF w dof = true
  dofRow : HasRow w x dof true
  first : firstEx w (w.rules x) = some dof
  decl : ∀ d ∈ (scriptAt w dof).ifchange.flatten, HasRow w x d true
  exit : (scriptAt w dof).exit = 0
  noFail : failNowOf w (scriptAt w dof) = false
  content : contentOf w x = outOf w (scriptAt w dof)
  alw : (scriptAt w dof).always = true → HasRow w x alwaysId true
  ic : ∀ d ∈ (scriptAt w dof).ifcreate, existsF w d = false ∧ HasRow w x d false
  cond : ∀ d ∈ (scriptAt w dof).cond, HasRow w x d true ∨ (existsF w d = false ∧ HasRow w x d false)

/-- The common core of `verR_script` and `RecTruth_clean`. -/
theorem recTruth_script {w : World} {x : Nat} (ht : RecTruth w x) (hcur : (w.recs x).stamp = some (readStamp w x))
    (hnd : ∀ s, HasRow w x s true → ¬ DetectS w (Mof (w.recs x)) s)
    (habs : ∀ s, HasRow w x s false → existsF w s = false) : ∃ pre dof post, VScript w x pre dof post := by
  obtain ⟨pre, dof, post, sc, hr, hpre, hdof, hdecl, hic, hcd, halw, hexit, hsc, hodd, cs, hcont, hlen, hz⟩ := ht
  obtain ⟨hex, hsceq⟩ : existsF w dof = true ∧ scriptAt w dof = sc := by
    rcases hsc with h | h
    · exact h
    · exact absurd h (hnd dof hdof)
  have hall : ∀ p ∈ List.zip sc.reads cs, p.2 = contentOf w p.1 := by
    intro p hp
    rcases hz p hp with ⟨h1, h2⟩ | ⟨h1, h2⟩
    · by_cases he : p.2 = contentOf w p.1
      · exact he
      · exact absurd (h2.1 he) (hnd p.1 h1)
    · rw [h2]; unfold contentOf; rw [existsF_eq_false.1 (habs p.1 h1)]; rfl
  have hcs := P.zip_all_eq (contentOf w) sc.reads cs hlen hall
  refine ⟨pre, dof, post, hr, fun c hc => ⟨habs c (hpre c hc), hpre c hc⟩, hex, hdof, ?_, ?_, ?_, ?_, ?_, ?_, ?_, ?_⟩
  · rw [hr]; exact firstEx_split pre dof post (fun c hc => habs c (hpre c hc)) hex
  · rw [hsceq]; exact hdecl
  · rw [hsceq]; exact hexit
  · rw [hsceq]; unfold failNowOf
    cases hf : sc.failIfOdd with
    | none => rfl
    | some f =>
      simp only
      rcases (hodd f hf).2 with h | h
      · exact h
      · exact absurd h (hnd f (hodd f hf).1)
  · rw [hsceq, ← contentV_cur hcur, hcont, hcs]; rfl
  · rw [hsceq]; exact halw
  · rw [hsceq]; exact fun d hd => ⟨habs d (hic d hd), hic d hd⟩
  · rw [hsceq]; exact fun d hd => (hcd d hd).imp id (fun h => ⟨habs d h, h⟩)

/-- The script of a verified generated target is the one in place, and its content is what that script produces
from the current contents. -/
theorem verR_script {rank R w x} (hi : Inv rank R X w) (hv : VerR w R x) (hg : genT (w.recs x) = true) :
    ∃ pre dof post, VScript w x pre dof post := by
  have hrc := (hi.ver x hv).1
  have hM := hv.Mof_eq hi.base
  refine recTruth_script (hi.base.recA x (Or.inr hv) hrc.toV hg) hrc.2.2 (fun s hs => ?_) (fun s hs => hs.absent hi hv hg)
  rw [hM]
  exact ((hs.good hi hv hg).recCur hi).notDetectS hi.base

theorem existsF_of_contentOf {w w' : World} {f : Nat} (h : contentOf w' f = contentOf w f) :
    existsF w' f = existsF w f := by
  unfold contentOf at h; unfold existsF
  cases h1 : w'.fs f <;> cases h2 : w.fs f <;> simp_all

theorem scriptAt_of_contentOf {w w' : World} {f : Nat} (h : contentOf w' f = contentOf w f)
    (hp : w'.progs = w.progs) : scriptAt w' f = scriptAt w f := by
  unfold contentOf at h; unfold scriptAt
  cases h1 : w'.fs f <;> cases h2 : w.fs f <;> simp_all

theorem firstEx_of_contentOf {w w' : World} : ∀ (cs : List Nat), (∀ c ∈ cs, contentOf w' c = contentOf w c) →
    firstEx w' cs = firstEx w cs
  | [], _ => rfl
  | c :: cs, h => by
    simp only [firstEx]
    rw [existsF_of_contentOf (h c (by simp)),
      firstEx_of_contentOf cs (fun c' hc' => h c' (List.mem_cons_of_mem _ hc'))]

theorem HasRow.rank_lt {rank R w t s m} (hb : Base rank R X w) (h : HasRow w t s m) : rank s < rank t := by
  obtain ⟨d, hd, h1, h2, _⟩ := h
  have := hb.rowsLt d hd
  rwa [h1, h2] at this

/-- A file that is the user's (never generated, or overridden) and exists stands for itself. -/
theorem UpToDateR.ofStat {w : World} {x : Nat} (hg : genT (w.recs x) = false) (hex : existsF w x = true) :
    UpToDateR w x := by
  rcases genT_false.1 hg with h | h
  · exact UpToDateR.user h hex
  · exact UpToDateR.override h hex

theorem scriptAt_hyg {rank R X w t dof} (hb : Base rank R X w) (hd : dof ∈ w.rules t) :
    ((scriptAt w dof).always = true → rank alwaysId < rank t) ∧
    (∀ d, (d ∈ (scriptAt w dof).ifchange.flatten ∨ d ∈ (scriptAt w dof).cond ∨ d ∈ (scriptAt w dof).ifcreate) →
      rank d < rank t ∧ d ≠ alwaysId) ∧
    (∀ d, (d ∈ (scriptAt w dof).cond ∨ d ∈ (scriptAt w dof).ifcreate) → w.rules d = []) := by
  unfold scriptAt
  cases hn : w.fs dof with
  | none => exact ⟨fun h => by simp at h, fun d h => by simp at h, fun d h => by simp at h⟩
  | some n =>
    simp only
    cases h : w.progs n.content with
    | none => exact ⟨fun h => by simp at h, fun d h => by simp at h, fun d h => by simp at h⟩
    | some sc => exact hb.ranked.2 t dof hd n sc hn h

/-- Good files are up to date, also in any world where good files and plain files kept their contents. -/
theorem good_upToDate {rank R w w'} (hi : Inv rank R X w) (hr : w'.rules = w.rules) (hp : w'.progs = w.progs)
    (hpl : ∀ x, w.rules x = [] → contentOf w' x = contentOf w x)
    (hfro : ∀ x, Good w R x → contentOf w' x = contentOf w x ∧ genT (w'.recs x) = genT (w.recs x)) :
    ∀ n x, rank x < n → Good w R x → UpToDateR w' x
  | 0, _, h, _ => by omega
  | n + 1, x, hx, hg => by
    have hrc := hg.recCur hi
    cases hgen : genT (w.recs x) with
    | false =>
      by_cases h0 : x = alwaysId
      · subst h0
        refine UpToDateR.source ?_
        rw [hr, hi.base.rulesOk.1]; intro c hc; cases hc
      · have hex : existsF w' x = true := by
          rw [existsF_of_contentOf (hfro x hg).1]; exact static_exists hi.base h0 hrc hgen
        exact UpToDateR.ofStat (by rw [(hfro x hg).2]; exact hgen) hex
    | true =>
      have hv : VerR w R x := by
        rcases hg with h | ⟨_, _, h⟩
        · exact h
        · rw [hgen] at h; cases h
      obtain ⟨pre, dof, post, vs⟩ := verR_script hi hv hgen
      have hra := scriptAt_rich hi.base dof
      have hdm : dof ∈ w.rules x := by rw [vs.rules]; simp
      obtain ⟨_, _, hyg⟩ := scriptAt_hyg hi.base hdm
      have hgd : ∀ d ∈ (scriptAt w dof).ifchange.flatten, Good w R d := fun d hd => (vs.decl d hd).good hi hv hgen
      have hcd : ∀ d, d ∈ (scriptAt w dof).ifchange.flatten ∨ d ∈ (scriptAt w dof).cond →
          contentOf w' d = contentOf w d := by
        rintro d (hd | hd)
        · exact (hfro d (hgd d hd)).1
        · exact hpl d (hyg d (Or.inl hd))
      have hmap : (scriptAt w dof).reads.map (contentOf w') = (scriptAt w dof).reads.map (contentOf w) :=
        List.map_congr_left (fun d hd => hcd d (hra.2.1 d hd))
      have hplain : ∀ c ∈ w.rules x, contentOf w' c = contentOf w c :=
        fun c hc => hpl c (hi.base.rulesOk.2 x c hc).1
      have hsc : scriptAt w' dof = scriptAt w dof :=
        scriptAt_of_contentOf (hplain dof hdm) hp
      refine UpToDateR.target (dof := dof) ?_ ?_ ?_ ?_ ?_ ?_ ?_
      · rw [hr, firstEx_of_contentOf _ hplain]; exact vs.first
      · rw [hsc]; intro d hd
        have := (vs.decl d hd).rank_lt hi.base
        exact good_upToDate hi hr hp hpl hfro n d (by omega) (hgd d hd)
      · rw [hsc]; intro d hd _
        refine UpToDateR.source ?_
        rw [hr, hyg d (Or.inl hd)]; intro c hc; cases hc
      · rw [hsc]; intro d hd
        rw [existsF_of_contentOf (hpl d (hyg d (Or.inr hd)))]; exact (vs.ic d hd).1
      · rw [hsc]; exact vs.exit
      · rw [hsc, ← vs.noFail]; unfold failNowOf
        cases hf : (scriptAt w dof).failIfOdd with
        | none => rfl
        | some f => simp only; rw [hcd f (Or.inl (hra.2.2 f hf))]
      · rw [hsc, (hfro x hg).1, vs.content]
        unfold outOf
        rw [hmap]

end RedoModel.Deps.Rich

namespace RedoModel.Deps.Rich

/-- `VScript` looks at the file system, the rows, the rules and the script table only. -/
theorem VScript.congr' {w w' : World} {x pre dof post} (hfs : w'.fs = w.fs)
    (e2 : ∀ t s m, HasRow w' t s m ↔ HasRow w t s m)
    (hrules : w'.rules = w.rules) (hprogs : w'.progs = w.progs) (vs : VScript w x pre dof post) :
    VScript w' x pre dof post := by
  have e1 : ∀ f, existsF w' f = existsF w f := fun f => existsF_congr (congrFun hfs f)
  have e3 : ∀ cs, firstEx w' cs = firstEx w cs := fun cs => firstEx_congr cs (fun c _ => congrFun hfs c)
  have e4 : ∀ f, scriptAt w' f = scriptAt w f := fun f => scriptAt_congr (congrFun hfs f) hprogs
  have e5 : contentOf w' = contentOf w := funext (fun f => contentOf_congr (congrFun hfs f))
  have e6 : ∀ sc, outOf w' sc = outOf w sc := fun sc => by unfold outOf; rw [e5]
  have e7 : ∀ sc, failNowOf w' sc = failNowOf w sc := fun sc => by unfold failNowOf; rw [e5]
  refine ⟨by rw [hrules]; exact vs.rules, fun c hc => by rw [e1, e2]; exact vs.pre c hc, by rw [e1]; exact vs.dofEx,
    (e2 _ _ _).2 vs.dofRow, by rw [hrules, e3]; exact vs.first, ?_, by rw [e4]; exact vs.exit,
    by rw [e4, e7]; exact vs.noFail, by rw [e4, e5, e6]; exact vs.content, ?_, ?_, ?_⟩
  · rw [e4]; exact fun d hd => (e2 _ _ _).2 (vs.decl d hd)
  · rw [e4]; exact fun ha => (e2 _ _ _).2 (vs.alw ha)
  · rw [e4]; exact fun d hd => by rw [e1, e2]; exact vs.ic d hd
  · rw [e4]; exact fun d hd => by rw [e1, e2, e2]; exact vs.cond d hd

theorem VScript.congr {w w' : World} {x pre dof post} (hfs : w'.fs = w.fs) (hdeps : w'.deps = w.deps)
    (hrules : w'.rules = w.rules) (hprogs : w'.progs = w.progs) (vs : VScript w x pre dof post) :
    VScript w' x pre dof post :=
  vs.congr' hfs (fun t s m => by unfold HasRow; rw [hdeps]) hrules hprogs

/-- A target whose script is the one in place and whose declarations are all recorded keeps its promise. -/
theorem VScript.recTruth {w : World} {x pre dof post} (hra : (scriptAt w dof).Rich) (vs : VScript w x pre dof post)
    (hcur : (w.recs x).stamp = some (readStamp w x))
    (hmem : ∀ d, HasRow w x d true → genT (w.recs d) = true → (w.recs d).stamp = some .missing → w.fs d = none) :
    RecTruth w x := by
  have hm : ∀ p : Nat × Option Content, p.2 = contentOf w p.1 → HasRow w x p.1 true →
      genT (w.recs p.1) = true → (w.recs p.1).stamp = some .missing → p.2 ≠ none →
        DetectC w (Mof (w.recs x)) p.1 := by
    intro p hp2 hrow hg hs hne
    exfalso; apply hne
    rw [hp2]; unfold contentOf; rw [hmem p.1 hrow hg hs]; rfl
  refine ⟨pre, dof, post, scriptAt w dof, vs.rules, fun c hc => (vs.pre c hc).2, vs.dofRow, vs.decl,
    fun d hd => (vs.ic d hd).2, fun d hd => (vs.cond d hd).imp id (fun h => h.2), vs.alw, vs.exit,
    Or.inl ⟨vs.dofEx, rfl⟩, ?_, (scriptAt w dof).reads.map (contentOf w),
    by rw [contentV_cur hcur]; exact vs.content, by simp, ?_⟩
  · intro f hf
    refine ⟨vs.decl f (hra.2.2 f hf), Or.inl ?_⟩
    have := vs.noFail; unfold failNowOf at this; rw [hf] at this; exact this
  · intro p hp
    have hp2 := P.zip_map_snd (contentOf w) _ p hp
    rcases hra.2.1 p.1 (P.zip_fst_mem _ _ p hp) with h | h
    · exact Or.inl ⟨vs.decl p.1 h, fun hne => absurd hp2 hne, hm p hp2 (vs.decl p.1 h)⟩
    · rcases vs.cond p.1 h with h1 | ⟨h1, h2⟩
      · exact Or.inl ⟨h1, fun hne => absurd hp2 hne, hm p hp2 h1⟩
      · refine Or.inr ⟨h2, ?_⟩
        rw [hp2]; unfold contentOf; rw [existsF_eq_false.1 h1]; rfl

theorem VScript.upToDate {rank R X w x pre dof post} (hb : Base rank R X w) (vs : VScript w x pre dof post)
    (hup : ∀ d ∈ (scriptAt w dof).ifchange.flatten, UpToDateR w d) : UpToDateR w x := by
  have hdm : dof ∈ w.rules x := by rw [vs.rules]; simp
  obtain ⟨_, _, hyg⟩ := scriptAt_hyg hb hdm
  refine UpToDateR.target vs.first hup (fun d hd _ => ?_) (fun d hd => (vs.ic d hd).1) vs.exit vs.noFail vs.content
  refine UpToDateR.source ?_
  rw [hyg d (Or.inl hd)]; intro c hc; cases hc

end RedoModel.Deps.Rich
