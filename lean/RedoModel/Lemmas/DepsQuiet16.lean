import RedoModel.Lemmas.DepsQuiet15
/-! The stronger form of `unrelatedChangeQuiet` at history level, and its non-vacuity. -/
namespace RedoModel.Deps.Rich
open RedoModel.Generated

theorem between_after_build {rank n w} (hN : ∀ f, rank f < n) (hb : Btw rank w) (ts : List Nat) (kg forced : Bool)
    (hts0 : ∀ t ∈ ts, t ≠ alwaysId)
    (hz : (runCmd {} n (if forced then .redo ts kg else .ifchange ts kg) w).1.status = 0)
    (hna : ¬ RecReach (runCmd {} n (if forced then .redo ts kg else .ifchange ts kg) w).2 ts alwaysId) :
    ∃ S : Nat → Prop, (∀ t ∈ ts, S t) ∧
      (∀ f, S f → RecReach (runCmd {} n (if forced then .redo ts kg else .ifchange ts kg) w).2 ts f) ∧
      Between rank S (RecReach (runCmd {} n (if forced then .redo ts kg else .ifchange ts kg) w).2 ts)
        (runCmd {} n (if forced then .redo ts kg else .ifchange ts kg) w).2 := by
  have key : ∃ w1, (runCmd {} n (if forced then .redo ts kg else .ifchange ts kg) w).2 = w1 ∧
      Inv rank (w.runCounter + 1) NoX w1 ∧ w1.runCounter = w.runCounter + 1 ∧
      ∀ t ∈ ts, Good w1 (w.runCounter + 1) t := by
    cases forced with
    | true =>
      obtain ⟨a1, a2, a3⟩ := top_runG (cx := { runid := w.runCounter + 1, keepGoing := kg, isRedo := true }) {} hN hb
        rfl rfl rfl ts hts0
      exact ⟨_, rfl, a1, a2, a3 hz⟩
    | false =>
      obtain ⟨a1, a2, a3⟩ := top_runG (cx := { runid := w.runCounter + 1, keepGoing := kg }) {} hN hb
        rfl rfl rfl ts hts0
      exact ⟨_, rfl, a1, a2, a3 hz⟩
  obtain ⟨w1, e, hi, hrc, hg⟩ := key
  rw [e] at hna ⊢
  have hq := QSet_of_good hi hna
  have hs := SSet_of_QSet hq hi.base.ckLe (fun d hd hm => (hi.base.cPlain d hd hm).1)
  refine ⟨GoodReach w1 (w.runCounter + 1) ts, fun t ht => ⟨RecReach.base ht, hg t ht⟩, fun f hf => hf.1,
    hs.mono (by omega), fun d hd _ _ => hi.base.rowsLt d hd, fun d hd hS => RecReach.step hS.1 hd rfl⟩

/-- After any rich history, a successful `redo-ifchange ts` / `redo ts` whose recorded closure holds no `//ALWAYS`
row, then any `Harmless` activity — touching files outside the closure, queries, and `redo-ifchange` of anything:
`redo-ifchange ts` exits 0, executes nothing and touches no file. -/
theorem otherBuildsQuiet (n : Nat) (rules : Nat → List Nat) (rank : Nat → Nat) (ops : List UserOp) (ts : List Nat)
    (kg forced : Bool) (hr : RulesOk rules) (hp : ∀ op ∈ ops, RichOp rules op)
    (hrk : ∀ w ∈ worldsOf n {} (initWorld rules) ops, RankedR rank w) (hN : ∀ f, rank f < n)
    (hok : OpsOkW n (initWorld rules) ops) (hts0 : ∀ t ∈ ts, t ≠ alwaysId) (us : List UserOp) (kg2 : Bool) :
    let w := ops.foldl (fun w op => (applyOp {} n op w).2) (initWorld rules)
    let r1 := runCmd {} n (if forced then .redo ts kg else .ifchange ts kg) w
    r1.1.status = 0 → ¬ RecReach r1.2 ts alwaysId → (∀ u ∈ us, Harmless (RecReach r1.2 ts) u) →
    let w2 := us.foldl (fun w op => (applyOp {} n op w).2) r1.2
    let r2 := runCmd {} n (.ifchange ts kg2) { w2 with trace := [] }
    r2.1.status = 0 ∧ (∀ t, Ev.ran t ∉ r2.2.trace) ∧ r2.2.fs = w2.fs := by
  intro w r1 hz hna hus w2 r2
  have h0 : Btw rank (initWorld rules) := Btw_init hr (hrk _ (worldsOf_head n {} _ ops))
  obtain ⟨hb, _⟩ := history_btw hN ops (initWorld rules) h0 rfl hp hrk hok
  obtain ⟨S, hS, hSC, hbt⟩ := between_after_build hN hb ts kg forced hts0 hz hna
  have hb2 : Between rank S (RecReach r1.2 ts) w2 := foldl_between hSC {} n us r1.2 hus hbt
  have hb3 : Between rank S (RecReach r1.2 ts) { w2 with trace := [] } :=
    hb2.user hSC rfl rfl rfl (fun _ _ => rfl) (Nat.le_refl _)
  obtain ⟨a1, a2, a3⟩ := ifchange_members_quiet {} hb3.set hb3.lt hN ts kg2 hS
  exact ⟨a1, fun t ht => by simpa using a2 t ht, a3⟩

def ddUs : List UserOp := [.write 5 9, .cmd (.ifchange [5, 4] false), .cmd .ood]
def ddW2 : World := ddUs.foldl (fun w op => (applyOp {} 6 op w).2) ddRes.2

/-- Non-vacuity (history `ddOps`): after the rebuild of 2, the user edits 5, builds 5 and 4 with `redo-ifchange`
(a different command, naming a member of the closure and a file outside it), asks `redo-ood`; then `redo-ifchange 2`
runs nothing. -/
theorem dd_other_builds :
    (runCmd {} 6 (.ifchange [2] false) { ddW2 with trace := [] }).1.status = 0 ∧
    (∀ t, Ev.ran t ∉ (runCmd {} 6 (.ifchange [2] false) { ddW2 with trace := [] }).2.trace) ∧
    (runCmd {} 6 (.ifchange [2] false) { ddW2 with trace := [] }).2.fs = ddW2.fs :=
  otherBuildsQuiet 6 cxRules cxRank ddOps [2] false true cx_rulesOk dd_ops dd_ranked dd_rankLt dd_opsOk
    (by simp [alwaysId]) ddUs false dd_status dd_no_always (fun u hu => by
      simp only [ddUs, List.mem_cons, List.not_mem_nil, or_false] at hu
      rcases hu with rfl | rfl | rfl
      · exact dd_five_out
      · exact Or.inr (Or.inr (Or.inr ⟨_, _, rfl⟩))
      · exact Or.inl rfl)

end RedoModel.Deps.Rich
