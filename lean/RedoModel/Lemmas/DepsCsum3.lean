import RedoModel.Lemmas.DepsCsum2
/-!
# C03 — checksum cut-off, part 3: a changed checksum is forwarded

A row of `t` whose source has `changed` newer than `t`'s mark (e.g. a checksummed source rebuilt in this run
with a different checksum: `changed = R`) makes `should_build t` answer `dirty` (or `cyclic`): `t`'s script
runs, or the command fails.
-/
namespace RedoModel.Deps
open RedoModel.Generated

/-- An `m` row of `t` whose source's `changed` run is newer than `t`'s mark. -/
def ChangedDep (w : World) (t : Nat) (d0 : Dep) : Prop :=
  d0.modeM = true ∧ d0.source ≠ alwaysId ∧ d0.source ≠ t ∧
  ∃ c, (w.recs d0.source).changed = some c ∧ mark (w.recs t) < c

theorem ChangedDep.transfer {t : Nat} {w w' : World} (h : RowsOnly t w w') (d0 : Dep) (hq : ChangedDep w t d0) :
    ChangedDep w' t d0 := by
  obtain ⟨h1, h0, hne, c, hc, hlt⟩ := hq
  obtain ⟨_, _, _, s4, _, _, _⟩ := h.recs d0.source
  obtain ⟨_, _, t3, t4, _, _, _⟩ := h.recs t
  refine ⟨h1, h0, hne, c, by rw [s4]; exact hc, ?_⟩
  unfold mark at hlt ⊢
  rw [t3, t4]
  exact hlt

/-- `should_build` for a target whose record is current but one of whose sources changed after its mark:
`dirty` or `cyclic`, never `clean`, never `need`. -/
theorem shouldBuild_changedDep (cx : Ctx) (fuel t : Nat) (w : World) (hr : cx.isRedo = false)
    (ht : t ≠ alwaysId) (hcur : CurrentBefore w cx.runid t)
    (d0 : Dep) (hd : d0 ∈ w.deps) (hdt : d0.target = t) (hfire : ChangedDep w t d0) :
    (shouldBuild cx (fuel + 2) t w).1 = some .cyclic ∨ (shouldBuild cx (fuel + 2) t w).1 = some .dirty := by
  obtain ⟨ch, hch, hlt⟩ := hcur.changed
  have hf := hcur.nofail
  have hget : getRec w cx.runid t = w.recs t := getRec_ne w _ t ht
  have hnf : isFailedR (w.recs t) cx.runid = false := by simp [isFailedR, hf]
  have hnc : isCheckedR (w.recs t) cx.runid = false := by
    unfold isCheckedR
    cases h : (w.recs t).checked with
    | none => rfl
    | some c => have := hcur.checked c h; simp; omega
  have hmark : mark (w.recs t) = max ch ((w.recs t).checked.getD 0) := by simp [mark, hch]
  obtain ⟨h1, h0, hne, c, hc, hgt⟩ := hfire
  have key := isDirty_fires cx.runid (fuel + 1) w [] t cx.runid [] ch (by simp) (by rw [hget]; exact hf)
    (by rw [hget]; exact hch) (by omega) (by rw [hget]; exact hnc) (by rw [hget]; exact hcur.stamp)
    ⟨(d0, getRec w cx.runid d0.source),
      mem_depsWithRecs w _ _ t d0 hd hdt (by rw [hget]; exact hcur.gen) (by rw [hget]; exact hcur.novr), by
      refine Or.inr ⟨h1, fun w1 c1 => ?_⟩
      dsimp only
      rw [hget, getRec_ne _ _ _ h0]
      rw [isDirty_snap_dirty false cx.runid fuel w1 c1 d0.source _ [t] _ (by simpa using hne)
        (Or.inr (Or.inr ⟨c, hc, by rw [← hmark]; exact hgt⟩))]⟩
  unfold shouldBuild
  simp only [hr, Bool.false_eq_true, if_false, hget, hnf]
  rw [hget] at key
  generalize isDirty false cx.runid (fuel + 1 + 1) w [] t cx.runid [] none = res at key ⊢
  obtain ⟨dr, w', c'⟩ := res
  dsimp only at key ⊢
  rcases key with h | h
  · subst h; left; rfl
  · subst h
    right
    cases (w.recs t).csum <;> simp

/-- A job whose `should_build` answers `dirty` or `cyclic`, for a target whose record is current and that has an
existing .do candidate: the job aborts the command with the cyclic status, or executes the target's script. -/
theorem buildJob_dirty_runs (E : Engine) (hE : EngineExt E) (d : Defects) (cx : Ctx) (fuel t : Nat) (w : World)
    (hg : (w.recs t).isGenerated = true) (ho : (w.recs t).isOverride = false)
    (hst : (w.recs t).stamp = some (readStamp w t))
    (hdo : ∃ c ∈ w.rules t, existsF w c = true)
    (hs : (shouldBuild cx fuel t w).1 = some .cyclic ∨ (shouldBuild cx fuel t w).1 = some .dirty) :
    (buildJob E d cx fuel t w).1 = .abort EXIT_CYCLIC_DEPENDENCY ∨
    ((∃ rv, (buildJob E d cx fuel t w).1 = .done rv) ∧ RanIn t w (buildJob E d cx fuel t w).2) := by
  have hsame := shouldBuild_rel SameButRecs.dirtyRel cx fuel t w
  have htr := shouldBuild_rel TraceExt.dirtyRel cx fuel t w
  unfold buildJob
  dsimp only
  generalize shouldBuild cx fuel t w = sb at hs hsame htr
  obtain ⟨o, w1⟩ := sb
  dsimp only at hs hsame htr
  obtain ⟨hfs, _, _, _, _, _, hrules⟩ := hsame
  rcases hs with h | h
  · subst h
    left; rfl
  · subst h
    right
    dsimp only
    refine ⟨⟨_, rfl⟩, RanIn.after htr (startSelf_ran E hE d cx t (w.recs t) w1 hg ho ?_ ?_)⟩
    · rw [hst, readStamp_congr (congrFun hfs t)]
    · obtain ⟨c, hc, he⟩ := hdo
      exact ⟨c, by rw [hrules]; exact hc, by rw [existsF_congr (congrFun hfs c)]; exact he⟩

/-- **A change is forwarded, at the command.**  `redo-ifchange t` (top level, or the second phase of
`redo-unlocked`) when `t`'s record is current but a source of `t` has `changed` newer than `t`'s mark: the
command exits with the cyclic status, or `t`'s script is executed. -/
theorem ifchangeWith_changed (E : Engine) (hE : EngineExt E) (d : Defects) (fuel : Nat) (cx : Ctx) (t : Nat) (w : World)
    (hp : cx.parent = none ∨ cx.unlocked = true) (hcy : cx.unlocked = true ∨ t ∉ cx.cycles)
    (hr : cx.isRedo = false) (ht : t ≠ alwaysId) (hcur : CurrentBefore w cx.runid t)
    (d0 : Dep) (hd : d0 ∈ w.deps) (hdt : d0.target = t) (hfire : ChangedDep w t d0)
    (hdo : ∃ c ∈ w.rules t, existsF w c = true) :
    (ifchangeWith E d (fuel + 2) cx [t] w).1 = EXIT_CYCLIC_DEPENDENCY ∨
    RanIn t w (ifchangeWith E d (fuel + 2) cx [t] w).2 := by
  have hrel : RowsOnly t w (addKnown w t) := RowsOnly.addKnown t w t
  have hcur' := hcur.transfer hrel
  have hfs : (addKnown w t).fs = w.fs := addKnown_fs _ _
  have hs := shouldBuild_changedDep cx fuel t (addKnown w t) hr ht hcur' d0 (by rw [addKnown_deps]; exact hd) hdt
    (hfire.transfer hrel d0)
  have key := buildJob_dirty_runs E hE d cx (fuel + 2) t (addKnown w t) hcur'.gen hcur'.novr hcur'.stamp
    (by
      obtain ⟨c, hc, he⟩ := hdo
      exact ⟨c, by rw [addKnown_rules]; exact hc, by rw [existsF_congr (congrFun hfs _)]; exact he⟩) hs
  rw [ifchangeWith_single E d (fuel + 2) cx t w hp hcy]
  have hpre : TraceExt w (addKnown w t) := TraceExt.of_eq (addKnown_trace _ _)
  generalize buildJob _ _ _ _ _ _ = r at key
  obtain ⟨jr, w1⟩ := r
  dsimp only at key
  rcases key with h | ⟨⟨rv, h⟩, hran⟩
  · subst h; left; rfl
  · subst h; right; exact RanIn.after hpre hran

/-- … so a successful exit means `t` was rebuilt. -/
theorem ifchangeWith_changed_of_zero (E : Engine) (hE : EngineExt E) (d : Defects) (fuel : Nat) (cx : Ctx) (t : Nat)
    (w : World) (hp : cx.parent = none ∨ cx.unlocked = true) (hcy : cx.unlocked = true ∨ t ∉ cx.cycles)
    (hr : cx.isRedo = false) (ht : t ≠ alwaysId) (hcur : CurrentBefore w cx.runid t)
    (d0 : Dep) (hd : d0 ∈ w.deps) (hdt : d0.target = t) (hfire : ChangedDep w t d0)
    (hdo : ∃ c ∈ w.rules t, existsF w c = true) (h0 : (ifchangeWith E d (fuel + 2) cx [t] w).1 = 0) :
    RanIn t w (ifchangeWith E d (fuel + 2) cx [t] w).2 := by
  rcases ifchangeWith_changed E hE d fuel cx t w hp hcy hr ht hcur d0 hd hdt hfire hdo with h | h
  · rw [h] at h0
    exact absurd h0 (by decide)
  · exact h

end RedoModel.Deps
