import RedoModel.Lemmas.DepsFail
/-!
# C05 at the level of whole commands — part 2: the target loop, prefix by prefix (`--keep-going` or not)
-/
namespace RedoModel.Deps
open RedoModel.Generated

/-- One step of the target loop, as an equation. -/
theorem runTargets_cons (E : Engine) (d : Defects) (cx : Ctx) (fuel t : Nat) (ts seen : List Nat) (e : Bool) (w : World) :
    runTargets E d cx fuel (t :: ts) seen e w =
      if t ∈ seen then runTargets E d cx fuel ts seen e w else
      if e && !cx.keepGoing then (1, w) else
      if !cx.unlocked && t ∈ cx.cycles then (EXIT_CYCLIC_DEPENDENCY, addKnown w t) else
      match buildJob E d cx fuel t (addKnown w t) with
      | (.abort code, w1) => (code, w1)
      | (.done rv, w1) =>
        if rv = CRASHED then (CRASHED, w1)
        else runTargets E d cx fuel ts (t :: seen) (e || rv ≠ 0) w1 := by
  rw [runTargets]
  rfl

/-- Without `--keep-going`, once a failure is known nothing more is done, whatever targets remain. -/
theorem runTargets_errored_nokg (E : Engine) (d : Defects) (cx : Ctx) (fuel : Nat) (hk : cx.keepGoing = false) :
    ∀ (ts seen : List Nat) (w : World), runTargets E d cx fuel ts seen true w = (1, w)
  | [], _, _ => by rw [runTargets]; rfl
  | t :: ts, seen, w => by
    rw [runTargets_cons]
    split
    · exact runTargets_errored_nokg E d cx fuel hk ts seen w
    · simp [hk]

/-- With the defect switch off, a job aborts the run only with the cyclic status. -/
theorem buildJob_abort_cyclic (E : Engine) (d : Defects) (cx : Ctx) (fuel t : Nat) (w0 : World) (code : Status) (w1 : World)
    (hd : d.failedTargetAbortsRun = false) (h : buildJob E d cx fuel t w0 = (.abort code, w1)) :
    code = EXIT_CYCLIC_DEPENDENCY := by
  unfold buildJob at h
  simp only at h
  generalize shouldBuild cx fuel t w0 = sb at h
  obtain ⟨o, w⟩ := sb
  cases o with
  | none => simp [hd] at h
  | some dr =>
    cases dr with
    | cyclic => simp at h; exact h.1.symm
    | clean => simp at h
    | dirty => simp at h
    | need ts =>
      simp only at h
      split at h
      · simp at h
      · split at h
        · simp at h
        · simp at h

/-- The ways the loop can end before the end of the list. -/
def Stopped (d : Defects) (cx : Ctx) (s : Status) : Prop :=
  (cx.keepGoing = false ∧ s = 1) ∨ s = EXIT_CYCLIC_DEPENDENCY ∨
  (d.failedTargetAbortsRun = true ∧ s = EXIT_TARGET_FAILED) ∨ s = CRASHED

theorem Stopped.ne_zero {d : Defects} {cx : Ctx} {s : Status} (h : Stopped d cx s) : s ≠ 0 := by
  rcases h with ⟨_, h⟩ | h | ⟨_, h⟩ | h <;> subst h <;> simp [EXIT_CYCLIC_DEPENDENCY, EXIT_TARGET_FAILED, CRASHED]

/-- The loop went through the whole prefix `ts₁`: what it knows at that point. -/
def Completed (E : Engine) (d : Defects) (cx : Ctx) (fuel : Nat) (ts₁ seen : List Nat) (e : Bool) (w : World) : Prop :=
  ∃ (seen' : List Nat) (e' : Bool) (w₁ : World), (∀ x, x ∈ seen' ↔ x ∈ ts₁ ∨ x ∈ seen) ∧ (e = true → e' = true) ∧
    runTargets E d cx fuel ts₁ seen e w = ((if e' then 1 else 0), w₁) ∧
    ∀ ts₂, runTargets E d cx fuel (ts₁ ++ ts₂) seen e w = runTargets E d cx fuel ts₂ seen' e' w₁

/-- The step of `runTargets_append` through a job. -/
theorem runTargets_append_job (E : Engine) (d : Defects) (cx : Ctx) (fuel t : Nat) (ts seen : List Nat) (e : Bool) (w : World)
    (hs : t ∉ seen) (hek : ¬ (e && !cx.keepGoing) = true) (hcy : ¬ (!cx.unlocked && decide (t ∈ cx.cycles)) = true)
    (ih : ∀ e2 w1, Completed E d cx fuel ts (t :: seen) e2 w1 ∨
      (Stopped d cx (runTargets E d cx fuel ts (t :: seen) e2 w1).1 ∧
        ∀ ts₂, runTargets E d cx fuel (ts ++ ts₂) (t :: seen) e2 w1 = runTargets E d cx fuel ts (t :: seen) e2 w1)) :
    Completed E d cx fuel (t :: ts) seen e w ∨
      (Stopped d cx (runTargets E d cx fuel (t :: ts) seen e w).1 ∧
        ∀ ts₂, runTargets E d cx fuel (t :: ts ++ ts₂) seen e w = runTargets E d cx fuel (t :: ts) seen e w) := by
  have hstep : ∀ l, runTargets E d cx fuel (t :: l) seen e w =
      match buildJob E d cx fuel t (addKnown w t) with
      | (.abort code, w1) => (code, w1)
      | (.done rv, w1) =>
        if rv = CRASHED then (CRASHED, w1)
        else runTargets E d cx fuel l (t :: seen) (e || rv ≠ 0) w1 := by
    intro l; rw [runTargets_cons, if_neg hs, if_neg hek, if_neg hcy]
  have hab := buildJob_abort_code E d cx fuel t (addKnown w t)
  have hab2 := buildJob_abort_cyclic E d cx fuel t (addKnown w t)
  generalize buildJob E d cx fuel t (addKnown w t) = r at hstep hab hab2
  obtain ⟨jr, w1⟩ := r
  cases jr with
  | abort code =>
    dsimp only at hstep
    right
    rw [hstep]
    refine ⟨?_, fun ts₂ => by rw [List.cons_append, hstep]⟩
    dsimp only
    rcases hab code w1 rfl with h | h
    · by_cases hd : d.failedTargetAbortsRun = true
      · exact Or.inr (Or.inr (Or.inl ⟨hd, h⟩))
      · exact Or.inr (Or.inl (hab2 code w1 (by simpa using hd) rfl))
    · exact Or.inr (Or.inl h)
  | done rv =>
    dsimp only at hstep
    by_cases hc : rv = CRASHED
    · simp only [hc, if_true] at hstep
      right
      rw [hstep]
      exact ⟨Or.inr (Or.inr (Or.inr rfl)), fun ts₂ => by rw [List.cons_append, hstep]⟩
    · simp only [hc, if_false] at hstep
      rcases ih (e || decide (rv ≠ 0)) w1 with ⟨seen', e', w₁, hm, he, hr, hrest⟩ | ⟨hst, hrest⟩
      · left
        refine ⟨seen', e', w₁, fun x => ?_, fun h => he (by simp [h]), by rw [hstep]; exact hr, fun ts₂ => ?_⟩
        · rw [hm x]
          simp only [List.mem_cons]
          constructor
          · rintro (h | h | h)
            · exact Or.inl (Or.inr h)
            · exact Or.inl (Or.inl h)
            · exact Or.inr h
          · rintro ((h | h) | h)
            · exact Or.inr (Or.inl h)
            · exact Or.inl h
            · exact Or.inr (Or.inr h)
        · rw [List.cons_append, hstep]; exact hrest ts₂
      · right
        rw [hstep]
        exact ⟨hst, fun ts₂ => by rw [List.cons_append, hstep]; exact hrest ts₂⟩

/-- **The loop, prefix by prefix.**  Either the loop went through all of `ts₁` and carries on with the rest of
the list from the world it reached, or it stopped inside `ts₁` for one of the four reasons of `Stopped`, and
then what follows `ts₁` is irrelevant. -/
theorem runTargets_append (E : Engine) (d : Defects) (cx : Ctx) (fuel : Nat) :
    ∀ (ts₁ seen : List Nat) (e : Bool) (w : World),
      Completed E d cx fuel ts₁ seen e w ∨
      (Stopped d cx (runTargets E d cx fuel ts₁ seen e w).1 ∧
        ∀ ts₂, runTargets E d cx fuel (ts₁ ++ ts₂) seen e w = runTargets E d cx fuel ts₁ seen e w)
  | [], seen, e, w => by
    left
    refine ⟨seen, e, w, by simp, id, ?_, fun ts₂ => rfl⟩
    rw [runTargets]
  | t :: ts, seen, e, w => by
    by_cases hs : t ∈ seen
    · have hstep : ∀ l, runTargets E d cx fuel (t :: l) seen e w = runTargets E d cx fuel l seen e w := by
        intro l; rw [runTargets_cons, if_pos hs]
      rcases runTargets_append E d cx fuel ts seen e w with ⟨seen', e', w₁, hm, he, hr, hrest⟩ | ⟨hst, hrest⟩
      · left
        refine ⟨seen', e', w₁, fun x => ?_, he, by rw [hstep]; exact hr, fun ts₂ => ?_⟩
        · rw [hm x, List.mem_cons]
          constructor
          · rintro (h | h)
            · exact Or.inl (Or.inr h)
            · exact Or.inr h
          · rintro ((h | h) | h)
            · subst h; exact Or.inr hs
            · exact Or.inl h
            · exact Or.inr h
        · rw [List.cons_append, hstep]; exact hrest ts₂
      · right
        rw [hstep]
        exact ⟨hst, fun ts₂ => by rw [List.cons_append, hstep]; exact hrest ts₂⟩
    · by_cases hek : (e && !cx.keepGoing) = true
      · have hstep : ∀ l, runTargets E d cx fuel (t :: l) seen e w = (1, w) := by
          intro l; rw [runTargets_cons, if_neg hs, if_pos hek]
        have hk : cx.keepGoing = false := by
          simp only [Bool.and_eq_true, Bool.not_eq_true'] at hek
          exact hek.2
        right
        rw [hstep]
        exact ⟨Or.inl ⟨hk, rfl⟩, fun ts₂ => by rw [List.cons_append, hstep]⟩
      · by_cases hcy : (!cx.unlocked && decide (t ∈ cx.cycles)) = true
        · have hstep : ∀ l, runTargets E d cx fuel (t :: l) seen e w = (EXIT_CYCLIC_DEPENDENCY, addKnown w t) := by
            intro l; rw [runTargets_cons, if_neg hs, if_neg hek, if_pos hcy]
          right
          rw [hstep]
          exact ⟨Or.inr (Or.inl rfl), fun ts₂ => by rw [List.cons_append, hstep]⟩
        · exact runTargets_append_job E d cx fuel t ts seen e w hs hek hcy
            (fun e2 w1 => runTargets_append E d cx fuel ts (t :: seen) e2 w1)

/-- A prefix whose loop returns 0 was gone through entirely, without any failure. -/
theorem runTargets_prefix_zero (E : Engine) (d : Defects) (cx : Ctx) (fuel : Nat) (ts₁ seen : List Nat) (e : Bool)
    (w w₁ : World) (hp : runTargets E d cx fuel ts₁ seen e w = (0, w₁)) :
    ∃ seen', (∀ x, x ∈ seen' ↔ x ∈ ts₁ ∨ x ∈ seen) ∧
      ∀ ts₂, runTargets E d cx fuel (ts₁ ++ ts₂) seen e w = runTargets E d cx fuel ts₂ seen' false w₁ := by
  rcases runTargets_append E d cx fuel ts₁ seen e w with ⟨seen', e', w₁', hm, _, hr, hrest⟩ | ⟨hst, _⟩
  · rw [hp] at hr
    cases e' with
    | true => simp at hr
    | false =>
      simp only [Bool.false_eq_true, if_false, Prod.mk.injEq, true_and] at hr
      subst hr
      exact ⟨seen', hm, hrest⟩
  · rw [hp] at hst
    exact absurd rfl hst.ne_zero

/-- **(6)** Without `--keep-going`: the targets before `t` were all fine (the loop over them returns 0), the job
of `t` does not end with 0.  Then the command ends non-zero in exactly the world the job of `t` left: no target
after `t` is registered, checked or run. -/
theorem runTargets_first_failure (E : Engine) (d : Defects) (cx : Ctx) (fuel t : Nat) (ts₁ ts₂ seen : List Nat)
    (w w₁ w₂ : World) (jr : JobResult) (hk : cx.keepGoing = false)
    (hp : runTargets E d cx fuel ts₁ seen false w = (0, w₁)) (ht : t ∉ ts₁) (hts : t ∉ seen)
    (hcy : (!cx.unlocked && decide (t ∈ cx.cycles)) = false)
    (hb : buildJob E d cx fuel t (addKnown w₁ t) = (jr, w₂)) (hne : jr ≠ .done 0) :
    (runTargets E d cx fuel (ts₁ ++ t :: ts₂) seen false w).1 ≠ 0 ∧
    (runTargets E d cx fuel (ts₁ ++ t :: ts₂) seen false w).2 = w₂ := by
  obtain ⟨seen', hm, hrest⟩ := runTargets_prefix_zero E d cx fuel ts₁ seen false w w₁ hp
  have hs : t ∉ seen' := fun h => by rcases (hm t).1 h with h | h; exact ht h; exact hts h
  rw [hrest, runTargets_cons, if_neg hs, hcy, hb]
  simp only [Bool.false_and, Bool.false_eq_true, if_false]
  cases jr with
  | abort code => exact ⟨buildJob_abort_ne _ _ _ _ _ _ _ _ hb, rfl⟩
  | done rv =>
    dsimp only
    split
    · exact ⟨by simp [CRASHED], rfl⟩
    · have hrv : rv ≠ 0 := fun h => hne (by rw [h])
      simp only [hrv, ne_eq, not_false_eq_true, decide_true, Bool.or_true]
      rw [runTargets_errored_nokg E d cx fuel hk]
      exact ⟨by simp, rfl⟩

/-- **(5)** With `--keep-going` (and the repaired `failedTargetAbortsRun`): whatever the results of the targets
before `t`, either the run was aborted inside them — an ancestor was requested (208) or the process tree was
killed — or the loop reaches `t` and evaluates its job in the world the prefix left. -/
theorem runTargets_keep_going_reaches (E : Engine) (d : Defects) (cx : Ctx) (fuel t : Nat) (ts₁ ts₂ seen : List Nat)
    (e : Bool) (w : World) (hk : cx.keepGoing = true) (hd : d.failedTargetAbortsRun = false)
    (ht : t ∉ ts₁) (hts : t ∉ seen) :
    (((runTargets E d cx fuel ts₁ seen e w).1 = EXIT_CYCLIC_DEPENDENCY ∨ (runTargets E d cx fuel ts₁ seen e w).1 = CRASHED) ∧
      runTargets E d cx fuel (ts₁ ++ t :: ts₂) seen e w = runTargets E d cx fuel ts₁ seen e w) ∨
    ∃ (seen' : List Nat) (e' : Bool), t ∉ seen' ∧
      runTargets E d cx fuel (ts₁ ++ t :: ts₂) seen e w =
        (let w₁ := (runTargets E d cx fuel ts₁ seen e w).2
         if !cx.unlocked && t ∈ cx.cycles then (EXIT_CYCLIC_DEPENDENCY, addKnown w₁ t) else
         match buildJob E d cx fuel t (addKnown w₁ t) with
         | (.abort code, w2) => (code, w2)
         | (.done rv, w2) =>
           if rv = CRASHED then (CRASHED, w2)
           else runTargets E d cx fuel ts₂ (t :: seen') (e' || rv ≠ 0) w2) := by
  rcases runTargets_append E d cx fuel ts₁ seen e w with ⟨seen', e', w₁, hm, _, hr, hrest⟩ | ⟨hst, hrest⟩
  · right
    have hs : t ∉ seen' := fun h => by rcases (hm t).1 h with h | h; exact ht h; exact hts h
    refine ⟨seen', e', hs, ?_⟩
    rw [hrest, hr, runTargets_cons, if_neg hs]
    simp [hk]
  · left
    refine ⟨?_, hrest _⟩
    rcases hst with ⟨h, _⟩ | h | ⟨h, _⟩ | h
    · rw [hk] at h; cases h
    · exact Or.inl h
    · rw [hd] at h; cases h
    · exact Or.inr h

end RedoModel.Deps
