import RedoModel.Lemmas.DepsIfcreate2
/-!
# C14 lifted to whole commands — part 3: once per run, at the level of a further dependent's command

`ifchangeCmd_after_rebuild` : in the run in which `t` was rebuilt, the nested `redo-ifchange t` of another
dependent exits 0, executes nothing and only records its row; `many_dependents` iterates this over any
number of further dependents.

Also: `depsOf_pair`, which lets `decide +kernel` evaluate concrete commands (the kernel cannot unfold
`List.mergeSort`, defined by well-founded recursion, on two or more rows).
-/
namespace RedoModel.Deps
open RedoModel.Generated

theorem mergeSort_pair {α} (le : α → α → Bool) (a b : α) :
    [a, b].mergeSort le = if le a b then [a, b] else [b, a] := by
  rw [List.mergeSort]
  simp [List.merge]

/-- The rows of a target that has exactly two, without `mergeSort`. -/
theorem depsOf_pair (w : World) (r : Rec) (f : Nat) (a b : Dep)
    (hf : w.deps.filter (fun d => d.target = f) = [a, b]) :
    depsOf w r f = if r.isOverride || !r.isGenerated then []
      else if (w.recs a.source).row ≤ (w.recs b.source).row then [a, b] else [b, a] := by
  unfold depsOf
  split
  · rfl
  · rw [hf, mergeSort_pair]
    by_cases h : (w.recs a.source).row ≤ (w.recs b.source).row <;> simp [h]

/-- Equal in every field but the row id. -/
def FieldsEq (a b : Rec) : Prop :=
  a.isGenerated = b.isGenerated ∧ a.isOverride = b.isOverride ∧ a.checked = b.checked ∧ a.changed = b.changed ∧
  a.failed = b.failed ∧ a.stamp = b.stamp ∧ a.csum = b.csum

theorem FieldsEq.refl (a : Rec) : FieldsEq a a := ⟨rfl, rfl, rfl, rfl, rfl, rfl, rfl⟩

theorem FieldsEq.trans {a b c : Rec} (h1 : FieldsEq a b) (h2 : FieldsEq b c) : FieldsEq a c := by
  obtain ⟨a1, a2, a3, a4, a5, a6, a7⟩ := h1
  obtain ⟨b1, b2, b3, b4, b5, b6, b7⟩ := h2
  exact ⟨a1.trans b1, a2.trans b2, a3.trans b3, a4.trans b4, a5.trans b5, a6.trans b6, a7.trans b7⟩

/-- What registering a file or recording a row of *another* target changes: row ids, and rows of other targets. -/
structure RowsOnly (t : Nat) (w w' : World) : Prop where
  fs : w'.fs = w.fs
  recs : ∀ x, FieldsEq (w'.recs x) (w.recs x)
  deps : ∀ d0 ∈ w'.deps, d0.target = t → d0 ∈ w.deps

theorem RowsOnly.trans {t : Nat} {a b c : World} (h1 : RowsOnly t a b) (h2 : RowsOnly t b c) : RowsOnly t a c :=
  ⟨h2.fs.trans h1.fs, fun x => (h2.recs x).trans (h1.recs x), fun d0 hd ht => h1.deps d0 (h2.deps d0 hd ht) ht⟩

theorem addKnown_fieldsEq (w : World) (f x : Nat) : FieldsEq ((addKnown w f).recs x) (w.recs x) := by
  by_cases hx : x = f
  · subst hx
    obtain ⟨row, h⟩ := addKnown_recs_self w x
    rw [h]
    exact ⟨rfl, rfl, rfl, rfl, rfl, rfl, rfl⟩
  · rw [addKnown_recs_ne w f x hx]
    exact FieldsEq.refl _

theorem RowsOnly.addKnown (t : Nat) (w : World) (f : Nat) : RowsOnly t w (addKnown w f) :=
  ⟨addKnown_fs w f, addKnown_fieldsEq w f, fun d0 hd _ => by rw [addKnown_deps] at hd; exact hd⟩

theorem RowsOnly.addDep (t : Nat) (w : World) (p s : Nat) (m : Bool) (hp : p ≠ t) : RowsOnly t w (addDep w p s m) := by
  refine ⟨addDep_fs w p s m, addKnown_fieldsEq w s, fun d0 hd ht => ?_⟩
  unfold Deps.addDep at hd
  rcases List.mem_cons.1 hd with rfl | hd'
  · exact absurd ht hp
  · have := (List.mem_filter.1 hd').1
    rw [addKnown_deps] at this
    exact this

theorem QuietDep.transfer {t : Nat} {w w' : World} (h : RowsOnly t w w') (d0 : Dep) (hq : QuietDep w t d0) :
    QuietDep w' t d0 := by
  obtain ⟨hc, hm⟩ := hq
  refine ⟨fun hh => by rw [existsF_congr (congrFun h.fs _)]; exact hc hh, fun hh => ?_⟩
  obtain ⟨h0, hg, hf, ⟨c, hcc, hcl⟩, hst⟩ := hm hh
  obtain ⟨s1, _, _, s4, s5, s6, _⟩ := h.recs d0.source
  obtain ⟨_, _, t3, t4, _, _, _⟩ := h.recs t
  refine ⟨h0, by rw [s1]; exact hg, by rw [s5]; exact hf, ⟨c, by rw [s4]; exact hcc, ?_⟩, ?_⟩
  · unfold mark at hcl ⊢
    rw [t3, t4]
    exact hcl
  · rw [s6, hst, readStamp_congr (congrFun h.fs _)]

theorem AlwaysFresh.transfer {t R : Nat} {w w' : World} (h : RowsOnly t w w') (hA : AlwaysFresh w R) :
    AlwaysFresh w' R := by
  obtain ⟨s1, _, _, s4, s5, s6, _⟩ := h.recs alwaysId
  exact ⟨by rw [s5]; exact hA.nofail, by rw [s1]; exact hA.notgen, by rw [s6]; exact hA.stamp,
    by rw [h.fs]; exact hA.nofile, fun c hc => hA.le c (by rw [← s4]; exact hc)⟩

/-- "`t` was rebuilt in run `R`, and nothing it depends on has moved since": the hypothesis of the
once-per-run theorems. -/
def RebuiltIn (R t : Nat) (w : World) : Prop :=
  (w.recs t).isGenerated = true ∧ (w.recs t).failed = none ∧
  ((R ≠ 0 ∧ (w.recs t).checked = some R ∧ ∃ ch, (w.recs t).changed = some ch ∧ ch ≤ R) ∨
    ((w.recs t).changed = some R ∧ (w.recs t).stamp = some (readStamp w t) ∧ AlwaysFresh w R ∧
      ∀ d0 ∈ w.deps, d0.target = t → (d0.modeM = true ∧ d0.source = alwaysId) ∨ QuietDep w t d0))

theorem RebuiltIn.transfer {R t : Nat} {w w' : World} (h : RowsOnly t w w') (hb : RebuiltIn R t w) :
    RebuiltIn R t w' := by
  obtain ⟨hg, hf, hd⟩ := hb
  obtain ⟨t1, _, t3, t4, t5, t6, _⟩ := h.recs t
  refine ⟨by rw [t1]; exact hg, by rw [t5]; exact hf, ?_⟩
  rcases hd with ⟨h0, hck, ch, hch, hle⟩ | ⟨hch, hst, hA, hrows⟩
  · exact Or.inl ⟨h0, by rw [t3]; exact hck, ch, by rw [t4]; exact hch, hle⟩
  · refine Or.inr ⟨by rw [t4]; exact hch, by rw [t6, hst, readStamp_congr (congrFun h.fs _)], hA.transfer h,
      fun d0 hd0 hdt => ?_⟩
    rcases hrows d0 (h.deps d0 hd0 hdt) hdt with ha | hq
    · exact Or.inl ha
    · exact Or.inr (hq.transfer h d0)

/-- **Once per run, at the level of the dependent's command.**  In the run in which `t` was rebuilt, the
`redo-ifchange t` of a further dependent `p` exits 0 and only records the row `p → t`: nothing is executed, no
file changes. -/
theorem ifchangeCmd_after_rebuild (d : Defects) (n : Nat) (hn : 0 < n) (cx : Ctx) (p t : Nat) (w : World)
    (hp : cx.parent = some p) (hpt : p ≠ t) (hu : cx.unlocked = false) (hcy : t ∉ cx.cycles)
    (hr : cx.isRedo = false) (ht : t ≠ alwaysId) (hb : RebuiltIn cx.runid t w) :
    ((engine d (n + 1)).ifchangeCmd cx [t] w).1 = 0 ∧
    QuietExt (addDep (addKnown w p) p t true) ((engine d (n + 1)).ifchangeCmd cx [t] w).2 := by
  have hrel : RowsOnly t w (addKnown (addDep (addKnown w p) p t true) t) :=
    ((RowsOnly.addKnown t w p).trans (RowsOnly.addDep t _ p t true hpt)).trans (RowsOnly.addKnown t _ t)
  obtain ⟨hg, hf, hd⟩ := hb.transfer hrel
  have hsb := shouldBuild_after_rebuild cx n hn t _ hr ht hg hf hd
  have hjob := buildJob_of_clean (engine d n) d cx (n + 1) t _ hsb
  have hq : QuietExt (addDep (addKnown w p) p t true)
      (shouldBuild cx (n + 1) t (addKnown (addDep (addKnown w p) p t true) t)).2 :=
    (QuietExt.addKnown _ t).trans (shouldBuild_rel QuietExt.dirtyRel cx _ t _)
  show (ifchangeWith (engine d n) d (n + 1) cx [t] w).1 = 0 ∧ QuietExt _ (ifchangeWith (engine d n) d (n + 1) cx [t] w).2
  have hcont : [t].contains p = false := by simp [hpt]
  unfold ifchangeWith
  simp only [hp, hu, hcont, Bool.not_false, Bool.and_false, Bool.false_eq_true, if_false, List.foldl_cons,
    List.foldl_nil]
  rw [runTargets]
  simp only [List.not_mem_nil, if_false, Bool.false_and, Bool.false_eq_true, hu, hcy, Bool.not_false, Bool.true_and,
    decide_false, hjob]
  have : (0 : Status) ≠ CRASHED := by decide
  simp only [if_neg this, runTargets]
  exact ⟨by simp, hq⟩

/-- What the clean check of `isDirty_quiet` writes: nothing if the record was already checked in this run,
else (besides the sources' records) the target's record with `checked := R`. -/
theorem isDirty_quiet_rec (R m : Nat) (hm : 0 < m) (w : World) (cache : List Nat) (t mx ch : Nat)
    (hf : (getRec w R t).failed = none) (hch : (getRec w R t).changed = some ch) (hmx : ch ≤ mx)
    (h : isCheckedR (getRec w R t) R = true ∨
      ((getRec w R t).stamp = some (readStamp w t) ∧
        ∀ p ∈ depsWithRecs w R (getRec w R t) t, QuietRow w [t] (max ch ((getRec w R t).checked.getD 0)) p)) :
    (isDirty false R (m + 1) w cache t mx [] none).2.1 = w ∨
    (isDirty false R (m + 1) w cache t mx [] none).2.1.recs t = { (getRec w R t) with checked := some R } := by
  have hgt : ¬ (ch > mx) := by omega
  by_cases hck : isCheckedR (getRec w R t) R = true
  · left
    simp (config := { zeta := true, zetaHave := true }) only [isDirty, Option.getD_none, List.not_mem_nil, hf, hch,
      hgt, hck, if_true, if_false, Option.isSome_none, Bool.false_eq_true]
  · rcases h with h | ⟨hst, hq⟩
    · exact absurd h hck
    · right
      simp (config := { zeta := true, zetaHave := true }) only [isDirty, Option.getD_none, List.not_mem_nil, hf, hch,
        hgt, hck, hst, if_false, Option.isSome_none, Bool.false_eq_true, ne_eq, not_true_eq_false]
      obtain ⟨n, rfl⟩ : ∃ n, m = n + 1 := ⟨m - 1, by omega⟩
      have key := goDeps_quiet R n (max ch ((getRec w R t).checked.getD 0)) [t] (getRec w R t).csum.isSome t w
        (depsWithRecs w R (getRec w R t) t) w cache rfl hq
      split
      · rename_i dr w' c' heq
        rw [heq] at key
        cases key
      · simp [setRec]

/-- The state "rebuilt in run `R`" survives the `should_build` of a further dependent (`R ≠ 0`: run ids start
at 1; a mark 0 never counts as "checked in this run"). -/
theorem shouldBuild_keeps_rebuilt (cx : Ctx) (m : Nat) (hm : 0 < m) (t : Nat) (w : World) (hr : cx.isRedo = false)
    (ht : t ≠ alwaysId) (h0 : cx.runid ≠ 0) (hb : RebuiltIn cx.runid t w) :
    RebuiltIn cx.runid t (shouldBuild cx (m + 1) t w).2 := by
  obtain ⟨hg, hf, hd⟩ := hb
  have hget : getRec w cx.runid t = w.recs t := getRec_ne w _ t ht
  have hnf : isFailedR (w.recs t) cx.runid = false := by simp [isFailedR, hf]
  have hch : ∃ ch, (w.recs t).changed = some ch ∧ ch ≤ cx.runid := by
    rcases hd with ⟨_, _, ch, h1, h2⟩ | ⟨h1, _⟩
    · exact ⟨ch, h1, h2⟩
    · exact ⟨cx.runid, h1, Nat.le_refl _⟩
  obtain ⟨ch, hch, hle⟩ := hch
  have key := isDirty_quiet_rec cx.runid m hm w [] t cx.runid ch (by rw [hget]; exact hf) (by rw [hget]; exact hch) hle
    (by
      rw [hget]
      rcases hd with ⟨h0', hck, _⟩ | ⟨hch', hst, hA, hrows⟩
      · exact Or.inl (by simp [isCheckedR, hck, h0'])
      · have hcc : ch = cx.runid := Option.some.inj (hch.symm.trans hch')
        refine Or.inr ⟨hst, fun p hp => ?_⟩
        obtain ⟨d0, hd0, hdt, rfl⟩ := of_mem_depsWithRecs w _ _ t p hp
        rcases hrows d0 hd0 hdt with ⟨h1, h2⟩ | hq
        · exact quietRow_always w cx.runid t _ ht hA (by rw [hcc]; exact Nat.le_max_left _ _) d0 h2 h1
        · exact quietRow_of_quietDep w cx.runid t _ hg (by simp [mark, hch]) d0 hq)
  unfold shouldBuild
  simp only [hr, Bool.false_eq_true, if_false, hget, hnf]
  generalize isDirty false cx.runid (m + 1) w [] t cx.runid [] none = res at key ⊢
  obtain ⟨dr, w', c'⟩ := res
  dsimp only at key ⊢
  rcases key with h | h
  · subst h
    exact ⟨hg, hf, hd⟩
  · rw [hget] at h
    refine ⟨by rw [h]; exact hg, by rw [h]; exact hf, Or.inl ⟨h0, by rw [h], ch, by rw [h]; exact hch, hle⟩⟩

/-- Nothing was executed and no file changed (rows and records may have). -/
def NoRun (w w' : World) : Prop := w'.fs = w.fs ∧ ∃ pre, w'.trace = pre ++ w.trace ∧ ∀ x, Ev.ran x ∉ pre

theorem NoRun.refl (w : World) : NoRun w w := ⟨rfl, [], rfl, fun _ h => by cases h⟩

theorem NoRun.trans {a b c : World} (h1 : NoRun a b) (h2 : NoRun b c) : NoRun a c := by
  obtain ⟨a1, p1, e1, n1⟩ := h1
  obtain ⟨b1, p2, e2, n2⟩ := h2
  refine ⟨b1.trans a1, p2 ++ p1, by rw [e2, e1, List.append_assoc], fun x hx => ?_⟩
  rcases List.mem_append.1 hx with h | h
  · exact n2 x h
  · exact n1 x h

theorem QuietExt.noRun {w w' : World} (h : QuietExt w w') : NoRun w w' := ⟨h.1, h.2.2.2.2.2⟩

/-- `ifchangeCmd_after_rebuild`, and the state "rebuilt in run `R`" is still there afterwards: the statement can
be iterated. -/
theorem ifchangeCmd_after_rebuild_keeps (d : Defects) (n : Nat) (hn : 0 < n) (cx : Ctx) (p t : Nat) (w : World)
    (hp : cx.parent = some p) (hpt : p ≠ t) (hu : cx.unlocked = false) (hcy : t ∉ cx.cycles)
    (hr : cx.isRedo = false) (ht : t ≠ alwaysId) (h0 : cx.runid ≠ 0) (hb : RebuiltIn cx.runid t w) :
    ((engine d (n + 1)).ifchangeCmd cx [t] w).1 = 0 ∧ NoRun w ((engine d (n + 1)).ifchangeCmd cx [t] w).2 ∧
    RebuiltIn cx.runid t ((engine d (n + 1)).ifchangeCmd cx [t] w).2 := by
  have hrel : RowsOnly t w (addKnown (addDep (addKnown w p) p t true) t) :=
    ((RowsOnly.addKnown t w p).trans (RowsOnly.addDep t _ p t true hpt)).trans (RowsOnly.addKnown t _ t)
  have hb' := hb.transfer hrel
  obtain ⟨hg, hf, hd⟩ := hb'
  have hsb := shouldBuild_after_rebuild cx n hn t _ hr ht hg hf hd
  have hjob := buildJob_of_clean (engine d n) d cx (n + 1) t _ hsb
  have hkeep := shouldBuild_keeps_rebuilt cx n hn t _ hr ht h0 ⟨hg, hf, hd⟩
  have hq : NoRun w (shouldBuild cx (n + 1) t (addKnown (addDep (addKnown w p) p t true) t)).2 := by
    refine NoRun.trans ?_ (shouldBuild_rel QuietExt.dirtyRel cx _ t _).noRun
    exact ⟨hrel.fs, [], by rw [addKnown_trace, addDep_trace, addKnown_trace]; rfl, fun _ h => by cases h⟩
  show (ifchangeWith (engine d n) d (n + 1) cx [t] w).1 = 0 ∧ NoRun w (ifchangeWith (engine d n) d (n + 1) cx [t] w).2 ∧
    RebuiltIn cx.runid t (ifchangeWith (engine d n) d (n + 1) cx [t] w).2
  have hcont : [t].contains p = false := by simp [hpt]
  unfold ifchangeWith
  simp only [hp, hu, hcont, Bool.not_false, Bool.and_false, Bool.false_eq_true, if_false, List.foldl_cons,
    List.foldl_nil]
  rw [runTargets]
  simp only [List.not_mem_nil, if_false, Bool.false_and, Bool.false_eq_true, hu, hcy, Bool.not_false, Bool.true_and,
    decide_false, hjob]
  have : (0 : Status) ≠ CRASHED := by decide
  simp only [if_neg this, runTargets]
  exact ⟨by simp, hq, hkeep⟩

/-- What is required of the process of a further dependent of `t` in run `R`. -/
def Dependent (R t : Nat) (cx : Ctx) : Prop :=
  cx.runid = R ∧ (∃ p, cx.parent = some p ∧ p ≠ t) ∧ cx.unlocked = false ∧ t ∉ cx.cycles ∧ cx.isRedo = false

/-- The nested `redo-ifchange t` commands of a list of processes, one after the other: their statuses and the
final world. -/
def runDependents (d : Defects) (n t : Nat) : List Ctx → World → List Status × World
  | [], w => ([], w)
  | cx :: cxs, w =>
    (((engine d (n + 1)).ifchangeCmd cx [t] w).1 :: (runDependents d n t cxs ((engine d (n + 1)).ifchangeCmd cx [t] w).2).1,
     (runDependents d n t cxs ((engine d (n + 1)).ifchangeCmd cx [t] w).2).2)

/-- **Once per run, however many dependents.**  After `t` was rebuilt in run `R`, any number of further
dependents may run `redo-ifchange t` one after the other: every one of these commands exits 0, none executes a
script, no file changes (and `t` is still "rebuilt in run `R`" afterwards). -/
theorem many_dependents (d : Defects) (n : Nat) (hn : 0 < n) (R t : Nat) (ht : t ≠ alwaysId) (h0 : R ≠ 0) :
    ∀ (cxs : List Ctx) (w : World), (∀ cx ∈ cxs, Dependent R t cx) → RebuiltIn R t w →
      (∀ rv ∈ (runDependents d n t cxs w).1, rv = 0) ∧ NoRun w (runDependents d n t cxs w).2 ∧
      RebuiltIn R t (runDependents d n t cxs w).2
  | [], w, _, hb => ⟨(fun _ h => by cases h), NoRun.refl w, hb⟩
  | cx :: cxs, w, hc, hb => by
    obtain ⟨hR, ⟨p, hp, hpt⟩, hu, hcy, hr⟩ := hc cx (List.mem_cons_self ..)
    subst hR
    obtain ⟨h1, h2, h3⟩ := ifchangeCmd_after_rebuild_keeps d n hn cx p t w hp hpt hu hcy hr ht h0 hb
    obtain ⟨h4, h5, h6⟩ := many_dependents d n hn cx.runid t ht h0 cxs _
      (fun c hcm => hc c (List.mem_cons_of_mem _ hcm)) h3
    rw [runDependents]
    refine ⟨fun rv hrv => ?_, h2.trans h5, h6⟩
    rcases List.mem_cons.1 hrv with rfl | h
    · exact h1
    · exact h4 rv h

end RedoModel.Deps
