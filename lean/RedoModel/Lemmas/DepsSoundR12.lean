import RedoModel.Lemmas.DepsSoundR11
/-! `startSelf` with the job's stale copy of the record behaves as with the current record. -/
namespace RedoModel.Deps.Rich

theorem ssGuard_missing (cx : Ctx) (t : Nat) (sf : Rec) (w : World) (h : w.fs t = none) : ssGuard cx t sf w = (sf, w) := by
  unfold ssGuard
  have : readStamp w t = .missing := readStamp_missing.2 h
  simp [this]

end RedoModel.Deps.Rich
