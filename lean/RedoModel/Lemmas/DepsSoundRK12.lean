import RedoModel.Lemmas.DepsSoundRK8
import RedoModel.Lemmas.DepsSoundRK0b
/-! The three stages of the rich development with kills: stage 1 (`AlwaysOp`) holds in full under `SingleDo`;
stage 2 (`WatchOp`) is already false (the counterexample `kcOps` writes plain files only). -/
namespace RedoModel.Deps
open RedoModel.Generated

/-- `AlwaysOp` (scripts with `redo-always` and content-dependent failure; plain user writes) plus killed runs. -/
def AlwaysOpK (rules : Nat → List Nat) : UserOp → Prop
  | .crashCmd ts _ _ => ∀ t ∈ ts, t ≠ alwaysId
  | op => AlwaysOp rules op

/-- `WatchOp` (also `redo-ifcreate`, conditional declarations; plain user writes) plus killed runs. -/
def WatchOpK (rules : Nat → List Nat) : UserOp → Prop
  | .crashCmd ts _ _ => ∀ t ∈ ts, t ≠ alwaysId
  | op => WatchOp rules op

theorem AlwaysOpK.toRichK {rules : Nat → List Nat} : ∀ {op : UserOp}, AlwaysOpK rules op → RichOpK rules op
  | .write f v, h => (AlwaysOp.toWatch (show AlwaysOp rules (.write f v) from h)).toRich
  | .remove f, h => (AlwaysOp.toWatch (show AlwaysOp rules (.remove f) from h)).toRich
  | .chmod f, h => (AlwaysOp.toWatch (show AlwaysOp rules (.chmod f) from h)).toRich
  | .hide f, h => (AlwaysOp.toWatch (show AlwaysOp rules (.hide f) from h)).toRich
  | .unhide f, h => (AlwaysOp.toWatch (show AlwaysOp rules (.unhide f) from h)).toRich
  | .setProg c s, h => (AlwaysOp.toWatch (show AlwaysOp rules (.setProg c s) from h)).toRich
  | .cmd c, h => (AlwaysOp.toWatch (show AlwaysOp rules (.cmd c) from h)).toRich
  | .crashCmd _ _ _, h => h

theorem WatchOpK.toRichK {rules : Nat → List Nat} : ∀ {op : UserOp}, WatchOpK rules op → RichOpK rules op
  | .write f v, h => WatchOp.toRich (show WatchOp rules (.write f v) from h)
  | .remove f, h => WatchOp.toRich (show WatchOp rules (.remove f) from h)
  | .chmod f, h => WatchOp.toRich (show WatchOp rules (.chmod f) from h)
  | .hide f, h => WatchOp.toRich (show WatchOp rules (.hide f) from h)
  | .unhide f, h => WatchOp.toRich (show WatchOp rules (.unhide f) from h)
  | .setProg c s, h => WatchOp.toRich (show WatchOp rules (.setProg c s) from h)
  | .cmd c, h => WatchOp.toRich (show WatchOp rules (.cmd c) from h)
  | .crashCmd _ _ _, h => h

end RedoModel.Deps

namespace RedoModel.Deps.Rich
open RedoModel.Generated

theorem alwaysOpK_noWatch {rules : Nat → List Nat} : ∀ {op : UserOp}, AlwaysOpK rules op → NoWatchOp op
  | .write _ _, _ => trivial
  | .remove _, _ => trivial
  | .chmod _, _ => trivial
  | .hide _, _ => trivial
  | .unhide _, _ => trivial
  | .setProg _ s, h => ⟨(show s.RichA from h).2.1, (show s.RichA from h).2.2⟩
  | .cmd _, _ => trivial
  | .crashCmd _ _ _, _ => trivial

/-- **Stage 1 with kills, full strength** (only `SingleDo` added, which is necessary): histories of `AlwaysOp`
operations (`redo-always`, content-dependent failure) and killed runs. -/
theorem recoversAlwaysK (n : Nat) (rules : Nat → List Nat) (rank : Nat → Nat) (ops : List UserOp) (ts : List Nat)
    (kg forced : Bool) (hr : RulesOk rules) (hS : SingleDo rules) (hp : ∀ op ∈ ops, AlwaysOpK rules op)
    (hrk : ∀ w ∈ worldsOf n {} (initWorld rules) ops, RankedR rank w) (hN : ∀ f, rank f < n)
    (hok : OpsOkW n (initWorld rules) ops) (hts0 : ∀ t ∈ ts, t ≠ alwaysId) :
    let w := ops.foldl (fun w op => (applyOp {} n op w).2) (initWorld rules)
    let r := runCmd {} n (if forced then .redo ts kg else .ifchange ts kg) w
    r.1.status = 0 → ∀ t ∈ ts, UpToDateR r.2 t :=
  recoversRichK_partial n rules rank ops ts kg forced hr hS (fun op h => (hp op h).toRichK)
    (fun op h => alwaysOpK_noWatch (hp op h)) hrk hN hok hts0

/-- The statement for stage 2. -/
def RecoversWatchK : Prop :=
  ∀ (n : Nat) (rules : Nat → List Nat) (rank : Nat → Nat) (ops : List UserOp) (ts : List Nat) (kg forced : Bool),
    RulesOk rules → SingleDo rules → (∀ op ∈ ops, WatchOpK rules op) →
    (∀ w ∈ worldsOf n {} (initWorld rules) ops, RankedR rank w) → (∀ f, rank f < n) →
    OpsOkW n (initWorld rules) ops → (∀ t ∈ ts, t ≠ alwaysId) →
    let w := ops.foldl (fun w op => (applyOp {} n op w).2) (initWorld rules)
    let r := runCmd {} n (if forced then .redo ts kg else .ifchange ts kg) w
    r.1.status = 0 → ∀ t ∈ ts, UpToDateR r.2 t

theorem kc_opsW : ∀ op ∈ kcOps, WatchOpK cxRules op := by
  intro op hop
  simp only [kcOps, List.mem_cons, List.not_mem_nil, or_false] at hop
  rcases hop with rfl | rfl | rfl | rfl | rfl | rfl
  · exact kc_rich
  · exact ⟨by simp [cxRules], by simp [alwaysId]⟩
  · exact ⟨by simp [cxRules], by simp [alwaysId]⟩
  · intro t ht; simp only [Cmd.names, List.mem_singleton] at ht; subst ht; simp [alwaysId]
  · simp [WatchOpK, WatchOp, alwaysId]
  · intro t ht; simp only [List.mem_singleton] at ht; subst ht; simp [alwaysId]

/-- Stage 2 with kills is already false: the counterexample history writes plain files only. -/
theorem not_recoversWatchK : ¬ RecoversWatchK := by
  intro h
  exact kc_notUpToDate (h 2 cxRules cxRank kcOps [2] false false cx_rulesOk kc_single kc_opsW kc_ranked kc_rankLt
    kc_opsOk (by simp [alwaysId]) kc_eval'.1 2 (by simp))

end RedoModel.Deps.Rich
