import RedoModel.Lemmas.DepsSoundK8
/-!
Non-vacuity of `noStalePlainK_partial`: a two-level project (5 <- 6, 3;  6 <- 4), built, a source edited, the
rebuild killed inside the script of the inner target 6 (after its `redo-ifchange 4`), then recovered.
-/
namespace RedoModel.Deps
open RedoModel.Generated

def exRules : Nat → List Nat := fun t => if t = 5 then [1] else if t = 6 then [2] else []
def exRank : Nat → Nat := fun f => if f = 5 then 2 else if f = 6 then 1 else 0
def exS1 : Script := { tag := 1, ifchange := [[6], [3]], reads := [6, 3] }
def exS2 : Script := { tag := 2, ifchange := [[4]], reads := [4] }

/-- set-up (scripts, .do files 1 and 2, sources 3 and 4) -/
def exOps0 : List UserOp :=
  [.setProg [17] exS1, .setProg [19] exS2, .write 1 7, .write 2 8, .write 3 1, .write 4 2]
/-- build, edit source 4, rebuild killed at step 1 of the script of 6 -/
def exOps : List UserOp :=
  exOps0 ++ [.cmd (.ifchange [5] false), .write 4 3, .crashCmd [5] 6 1]

theorem ex_rulesOk : RulesOk exRules := by
  refine ⟨by simp [exRules, alwaysId], fun t c hc => ?_⟩
  unfold exRules at hc ⊢
  split at hc
  · simp at hc; subst hc; subst_vars; simp [alwaysId]
  · split at hc
    · simp at hc; subst hc; subst_vars; simp [alwaysId]
    · simp at hc

theorem ex_single : SingleDo exRules := by
  intro t; unfold exRules; split
  · simp
  · split <;> simp

theorem ex_rank_lt : ∀ f, exRank f < 3 := by
  intro f; unfold exRank; split
  · omega
  · split <;> omega

/-- rules as given, the two scripts only, and the .do files 1 and 2 hold (if anything) their own script. -/
def ExShape (w : World) : Prop :=
  w.rules = exRules ∧ (∀ c sc, w.progs c = some sc → (c = [17] ∧ sc = exS1) ∨ (c = [19] ∧ sc = exS2)) ∧
  (∀ n, w.fs 1 = some n → n.content = [17]) ∧ (∀ n, w.fs 2 = some n → n.content = [19])

theorem ExShape.ranked {w : World} (h : ExShape w) : Ranked exRank w := by
  obtain ⟨hr, hp, h1, h2⟩ := h
  refine ⟨fun t c hc => ?_, fun t dof hd n sc hn hsc c hc d hdc => ?_⟩
  · rw [hr] at hc; unfold exRules at hc
    split at hc
    · simp at hc; subst hc; subst_vars; simp [exRank]
    · split at hc
      · simp at hc; subst hc; subst_vars; simp [exRank]
      · simp at hc
  · rw [hr] at hd; unfold exRules at hd
    split at hd
    · simp at hd; subst hd; subst_vars
      have hc17 := h1 n hn
      rcases hp _ sc hsc with ⟨_, rfl⟩ | ⟨e, _⟩
      · simp [exS1] at hc; rcases hc with rfl | rfl <;> simp at hdc <;> subst hdc <;> simp [exRank]
      · rw [hc17] at e; simp at e
    · split at hd
      · simp at hd; subst hd; subst_vars
        have hc19 := h2 n hn
        rcases hp _ sc hsc with ⟨e, _⟩ | ⟨_, rfl⟩
        · rw [hc19] at e; simp at e
        · simp [exS2] at hc; subst hc; simp at hdc; subst hdc; simp [exRank]
      · simp at hd

theorem Ranked_same {rank : Nat → Nat} {w w' : World} (h : Ranked rank w) (hr : w'.rules = w.rules)
    (hp : w'.progs = w.progs) (hf : ∀ t, ∀ dof ∈ w.rules t, w'.fs dof = w.fs dof) : Ranked rank w' := by
  refine ⟨by rw [hr]; exact h.1, fun t dof hd n sc hn hsc => ?_⟩
  rw [hr] at hd
  rw [hf t dof hd] at hn
  rw [hp] at hsc
  exact h.2 t dof hd n sc hn hsc

theorem ex_shape0 : ∀ w ∈ worldsOf 3 {} (initWorld exRules) exOps0, ExShape w := by
  intro w hw
  simp only [exOps0, worldsOf, List.mem_cons, List.not_mem_nil, or_false] at hw
  rcases hw with rfl | rfl | rfl | rfl | rfl | rfl | rfl
  all_goals
    refine ⟨rfl, ?_, ?_, ?_⟩
    all_goals simp (config := { decide := true }) [applyOp, initWorld, newNode, setFile, srcContent]
  all_goals
    intro c sc h
    repeat' split at h
    all_goals simp_all

theorem ex_plainK : ∀ op ∈ exOps, PlainOpK exRules op := by
  intro op hop
  simp only [exOps, exOps0, List.cons_append, List.nil_append, List.mem_cons, List.not_mem_nil, or_false] at hop
  rcases hop with rfl | rfl | rfl | rfl | rfl | rfl | rfl | rfl | rfl <;>
    simp [PlainOpK, PlainOp, Script.Plain, exRules, alwaysId, exS1, exS2]

theorem ex_opsOk : OpsOk 3 (initWorld exRules) exOps := by
  simp [OpsOk, OpOk, exOps, exOps0, SetProgOk, applyOp, initWorld]

def exW6 : World := exOps0.foldl (fun w op => (applyOp {} 3 op w).2) (initWorld exRules)
def exW7 : World := (applyOp {} 3 (.cmd (.ifchange [5] false)) exW6).2
def exW8 : World := (applyOp {} 3 (.write 4 3) exW7).2
def exW9 : World := (applyOp {} 3 (.crashCmd [5] 6 1) exW8).2

theorem ex_btw6 : Btw exRank exW6 ∧ exW6.rules = exRules := by
  have h0 : Btw exRank (initWorld exRules) :=
    Btw_init ex_rulesOk (ex_shape0 _ (worldsOf_head 3 {} _ exOps0)).ranked
  refine history_btwK ex_rank_lt ex_single exOps0 _ h0 rfl (fun op hop => ex_plainK op ?_)
    (fun w hw => (ex_shape0 w hw).ranked) ?_
  · unfold exOps; exact List.mem_append_left _ hop
  · simp [OpsOk, OpOk, exOps0, SetProgOk, applyOp, initWorld]

theorem ex_btw7 : Btw exRank exW7 ∧ exW7.rules = exRules := by
  obtain ⟨a1, a2⟩ := runCmd_btw {} ex_rank_lt ex_btw6.1 (.ifchange [5] false)
  exact ⟨a1, a2.trans ex_btw6.2⟩

theorem ex_ranked8 : Ranked exRank exW8 := by
  refine Ranked_same ex_btw7.1.ranked rfl rfl (fun t dof hd => ?_)
  rw [ex_btw7.2] at hd
  have hne : dof ≠ 4 := by
    unfold exRules at hd
    split at hd
    · simp at hd; omega
    · split at hd
      · simp at hd; omega
      · simp at hd
  show (setFile _ 4 _).fs dof = _
  simp [setFile, hne]

theorem ex_btw8 : Btw exRank exW8 ∧ exW8.rules = exRules :=
  applyOp_btwK ex_rank_lt ex_single ex_btw7.1 ex_btw7.2 (.write 4 3) (by simp [PlainOpK, PlainOp, exRules, alwaysId])
    trivial ex_ranked8

theorem ex_btw9 : Btw exRank exW9 ∧ exW9.rules = exRules := by
  obtain ⟨a1, a2⟩ := crashCmd_btw {} ex_rank_lt (by rw [ex_btw8.2]; exact ex_single) ex_btw8.1 [5] 6 1
  exact ⟨a1, a2.trans ex_btw8.2⟩

theorem ex_ranked : ∀ w ∈ worldsOf 3 {} (initWorld exRules) exOps, Ranked exRank w := by
  intro w hw
  simp only [exOps, exOps0, List.cons_append, List.nil_append, worldsOf, List.mem_cons, List.not_mem_nil, or_false] at hw
  rcases hw with rfl | rfl | rfl | rfl | rfl | rfl | rfl | rfl | rfl | rfl
  · exact (ex_shape0 _ (by simp [exOps0, worldsOf])).ranked
  · exact (ex_shape0 _ (by simp [exOps0, worldsOf])).ranked
  · exact (ex_shape0 _ (by simp [exOps0, worldsOf])).ranked
  · exact (ex_shape0 _ (by simp [exOps0, worldsOf])).ranked
  · exact (ex_shape0 _ (by simp [exOps0, worldsOf])).ranked
  · exact (ex_shape0 _ (by simp [exOps0, worldsOf])).ranked
  · exact ex_btw6.1.ranked
  · exact ex_btw7.1.ranked
  · exact ex_ranked8
  · exact ex_btw9.1.ranked

/-- **Non-vacuity of `noStalePlainK_partial`**: every hypothesis holds for the history `exOps` (which ends with
a kill in the middle of a two-level rebuild). -/
example : let w := exOps.foldl (fun w op => (applyOp {} 3 op w).2) (initWorld exRules)
    let r := runCmd {} 3 (.ifchange [5] false) w
    r.1.status = 0 → ∀ t ∈ [5], UpToDateD r.2 t :=
  noStalePlainK_partial 3 exRules exRank exOps [5] false false ex_rulesOk ex_single ex_plainK ex_ranked ex_rank_lt
    ex_opsOk

theorem mergeSort_triple' {α} (a b c : α) (le : α → α → Bool) :
    [a, b, c].mergeSort le = List.merge ([a, b].mergeSort le) [c] le := by
  simp [List.mergeSort, List.MergeSort.Internal.splitInTwo]

/-- Status of the killed run, status of the recovery run, and what the recovery leaves in 6 and 5. -/
def exSummary : Option Status × Status × Option Content × Option Content :=
  let w8 := (exOps0 ++ [UserOp.cmd (.ifchange [5] false), UserOp.write 4 3]).foldl (fun w op => (applyOp {} 3 op w).2) (initWorld exRules)
  let k := applyOp {} 3 (.crashCmd [5] 6 1) w8
  let r := runCmd {} 3 (.ifchange [5] false) k.2
  (k.1.map (·.status), r.1.status, contentOf r.2 6, contentOf r.2 5)

set_option maxRecDepth 8000 in
set_option maxHeartbeats 4000000 in
/-- The run is really killed (status `CRASHED`), the recovery exits 0, and rebuilds 6 from the edited source 4
and 5 from the new 6. -/
theorem ex_eval : exSummary = (some CRASHED, 0, some [6, 0, 9, 1], some [4, 0, 6, 0, 9, 1, 1, 0, 5, 1]) := by
  unfold exSummary exOps0 exRules exS1 exS2
  simp (config := { zeta := true, zetaHave := true, decide := true, maxSteps := 4000000 }) [runCmd, allocRun, applyOp, initWorld, engine, runTargets,
    buildJob, shouldBuild, isDirty, goDeps, startSelf, recordNewState, runScript, runScript.cmds, runScript.conds,
    ifchangeWith, findDoFile, addDep, addKnown, setRec, setFile, ev, getRec, readStamp, existsF, newNode,
    srcContent, outContent, depsWithRecs, depsOf, zapDeps1, zapDeps2, updateStamp, setChanged, setStatic,
    detectOverride, isCheckedR, isChangedR, isFailedR, alwaysId, mergeSort_pair', mergeSort_triple',
    CRASHED, EXIT_CYCLIC_DEPENDENCY, EXIT_FAILURE, contentOf]

/-- The conclusion of the theorem on this history, with its premise discharged by evaluation: after the kill and
the recovery, 5 is up to date. -/
theorem ex_recovered :
    UpToDateD (runCmd {} 3 (.ifchange [5] false)
      (exOps.foldl (fun w op => (applyOp {} 3 op w).2) (initWorld exRules))).2 5 := by
  refine noStalePlainK_partial 3 exRules exRank exOps [5] false false ex_rulesOk ex_single ex_plainK ex_ranked
    ex_rank_lt ex_opsOk ?_ 5 (by simp)
  have he := ex_eval
  unfold exSummary at he
  simp only [Prod.mk.injEq, List.foldl_append, List.foldl_cons, List.foldl_nil] at he
  simp only [exOps, List.foldl_append, List.foldl_cons, List.foldl_nil, Bool.false_eq_true, if_false]
  exact he.2.1

#print axioms ex_recovered

end RedoModel.Deps

namespace RedoModel.Deps
/-- Non-vacuity of `recovery_is_sound` (the state before the kill of the history above). -/
example := recovery_is_sound ex_rank_lt (by rw [ex_btw8.2]; exact ex_single) ex_btw8.1 [5] 6 1 [5] false false
end RedoModel.Deps
