import RedoModel.Lemmas.DepsSoundS4
/-! Record-only updates made by the dirtiness check: the vanished-target write and the checked mark. -/
namespace RedoModel.Deps.S

@[simp] theorem setRec_recs_self (w : World) (f : Nat) (r : Rec) : (setRec w f r).recs f = r := by simp [setRec]
theorem setRec_recs_other (w : World) (f : Nat) (r : Rec) {x : Nat} (h : x ≠ f) : (setRec w f r).recs x = w.recs x := by
  simp [setRec, h]
@[simp] theorem setRec_fs (w : World) (f : Nat) (r : Rec) : (setRec w f r).fs = w.fs := rfl
@[simp] theorem setRec_deps (w : World) (f : Nat) (r : Rec) : (setRec w f r).deps = w.deps := rfl
@[simp] theorem setRec_rules (w : World) (f : Nat) (r : Rec) : (setRec w f r).rules = w.rules := rfl
@[simp] theorem setRec_progs (w : World) (f : Nat) (r : Rec) : (setRec w f r).progs = w.progs := rfl
@[simp] theorem setRec_clock (w : World) (f : Nat) (r : Rec) : (setRec w f r).clock = w.clock := rfl
@[simp] theorem setRec_readStamp (w : World) (f : Nat) (r : Rec) (x) : readStamp (setRec w f r) x = readStamp w x := rfl
@[simp] theorem setRec_existsF (w : World) (f : Nat) (r : Rec) (x) : existsF (setRec w f r) x = existsF w x := rfl
@[simp] theorem setRec_contentOf (w : World) (f : Nat) (r : Rec) (x) : contentOf (setRec w f r) x = contentOf w x := rfl

theorem OffT.setRec (w : World) (f : Nat) (r : Rec) : OffT f w (setRec w f r) :=
  ⟨rfl, rfl, fun _ _ => rfl, fun _ => rfl, fun _ hx => setRec_recs_other w f r hx, fun _ _ => Iff.rfl, Nat.le_refl _, rfl⟩

/-- `isDirty` found the file of a generated target missing: it forgets that it was generated. -/
theorem Inv_vanished {rank R w f} (hi : Inv rank R X w) (hf : (w.recs f).failed = none)
    (hs : (w.recs f).stamp ≠ some (readStamp w f)) :
    Inv rank R X (setRec w f { w.recs f with isGenerated := false, isOverride := false, failed := some 0 }) := by
  have hnv : ¬ VerR w R f := fun hv => hs (hi.ver f hv).1.2.2
  have hng : ¬ Good w R f := fun hg => hs (hg.recCur hi).2.2
  have o := hi.base.recOk f
  have hoff := OffT.setRec w f { w.recs f with isGenerated := false, isOverride := false, failed := some 0 }
  refine ⟨Base_upd hi.base hoff ?_ (fun _ _ h => h) hi.base.rowsLt hi.base.cPlain
    (hdet_quiet rfl (by simp) (by simp) (by simp) (fun h => absurd hf h.1)) ?_, hi.Rpos, Ver_upd hi hoff hng ?_⟩
  · refine ⟨?_, ?_, ?_, ?_, ?_, ?_, ?_, ?_, ?_, ?_, ?_, ?_, ?_, ?_, ?_, ?_, ?_⟩ <;> simp only [setRec_recs_self, setRec_fs, setRec_rules, setRec_clock]
    · exact o.chLe
    · exact o.ckLe
    · exact o.csumFile
    · exact fun _ h => by cases h
    · exact o.srcNoCsum
    · exact o.csumCh
    · exact fun _ => trivial
    · exact fun _ => Or.inl (by simp)
    · exact o.stampCh
    · exact fun h => by cases h
    · exact fun h => by cases h
    · exact o.fsB
    · exact o.stB
    · exact fun h => absurd ⟨hf, Or.inl h⟩ hnv
    · exact fun h => absurd ⟨hf, Or.inr h⟩ hnv
    · intro k h; cases h; exact Nat.zero_le _
  · intro _ hrc; exact absurd hrc.1 (by simp)
  · intro hv; exact absurd hv.1 (by simp)

theorem DetectS.toM {w M M' d} (h : DetectS w M d) (hm : M' ≤ M) : DetectM w M' d := by
  rcases h with h | ⟨ch, h1, h2⟩ | h | h
  · exact Or.inr (Or.inl h)
  · exact Or.inr (Or.inr (Or.inl ⟨ch, h1, by omega⟩))
  · exact Or.inr (Or.inr (Or.inr h))
  · exact Or.inl h.1

/-- What the loop over the recorded rows of `f` has established when it reports "all clean". -/
def RowsClean (w : World) (R mx f : Nat) : Prop :=
  (w.recs f).isGenerated = true → ∀ d ∈ w.deps, d.target = f →
    (d.modeM = true → VerR w R d.source ∧ ¬ DetectM w mx d.source) ∧
    (d.modeM = false → existsF w d.source = false)

/-- The truth clause of a current target whose rows are all clean holds for any `M`: nothing it promised
has changed. -/
theorem RecTruth_clean {rank R w f mx} (hi : Inv rank R X w) (hx : ¬ X f ∨ VerR w R f) (hrc : RecCur w f)
    (hg : (w.recs f).isGenerated = true)
    (hmx : mx ≤ Mof (w.recs f)) (hrows : RowsClean w R mx f) :
    ∃ pre dof post, w.rules f = pre ++ dof :: post ∧ (∀ c ∈ pre, existsF w c = false ∧ HasRow w f c false) ∧
      existsF w dof = true ∧ HasRow w f dof true ∧
      (∀ d ∈ (scriptAt w dof).reads, HasRow w f d true) ∧ (scriptAt w dof).exit = 0 ∧
      contentOf w f = outOf w (scriptAt w dof) := by
  obtain ⟨pre, dof, post, sc, hr, hpre, hdof, hreads, hexit, hsc, cs, hcont, hlen, hz⟩ := hi.base.recA f hx hrc hg
  have hnd : ∀ s, HasRow w f s true → ¬ DetectS w (Mof (w.recs f)) s := by
    rintro s ⟨d, hd, h1, h2, h3⟩ hdt
    exact ((hrows hg d hd h1).1 h3).2 (h2 ▸ hdt.toM hmx)
  have habs : ∀ s, HasRow w f s false → existsF w s = false := by
    rintro s ⟨d, hd, h1, h2, h3⟩
    exact h2 ▸ (hrows hg d hd h1).2 h3
  obtain ⟨hex, hsceq⟩ : existsF w dof = true ∧ scriptAt w dof = sc := by
    rcases hsc with h | h
    · exact h
    · exact absurd h (hnd dof hdof)
  have hall : ∀ p ∈ List.zip sc.reads cs, p.2 = contentOf w p.1 := by
    intro p hp
    by_cases he : p.2 = contentOf w p.1
    · exact he
    · exact absurd ((hz p hp).1 he) (hnd p.1 (hreads p.1 (P.zip_fst_mem _ _ p hp)))
  have hcs := P.zip_all_eq (contentOf w) sc.reads cs hlen hall
  refine ⟨pre, dof, post, hr, fun c hc => ⟨habs c (hpre c hc), hpre c hc⟩, hex, hdof, ?_, ?_, ?_⟩
  · rw [hsceq]; exact hreads
  · rw [hsceq]; exact hexit
  · rw [hsceq, hcont, hcs]; rfl

theorem firstEx_setRec (w : World) (f : Nat) (r : Rec) (cs : List Nat) : firstEx (setRec w f r) cs = firstEx w cs :=
  firstEx_congr cs (fun _ _ => rfl)

theorem ck_verR {w : World} {R f x : Nat} (hv : VerR w R x) :
    VerR (setRec w f { w.recs f with checked := some R }) R x := by
  by_cases e : x = f
  · subst e; unfold VerR; simp only [setRec_recs_self]; exact ⟨hv.1, Or.inl trivial⟩
  · unfold VerR; rw [setRec_recs_other _ _ _ e]; exact hv

theorem ck_good {w : World} {R f x : Nat} (hv : Good w R x) :
    Good (setRec w f { w.recs f with checked := some R }) R x := by
  rcases hv with hv | ⟨hc, hg⟩
  · exact Or.inl (ck_verR hv)
  · right
    by_cases e : x = f
    · subst e; unfold RecCur; simp only [setRec_recs_self, setRec_readStamp]; exact ⟨hc, hg⟩
    · unfold RecCur; rw [setRec_recs_other _ _ _ e]; exact ⟨hc, hg⟩

/-- Base part of marking a verified-clean file as checked. -/
theorem Base_setChecked {rank R w f mx} (hi : Inv rank R X w) (hx : ¬ X f) (hrc : RecCur w f)
    (hmx : mx ≤ Mof (w.recs f)) (hrows : RowsClean w R mx f) :
    Base rank R X (setRec w f { w.recs f with checked := some R }) := by
  have o := hi.base.recOk f
  have hf0 : f ≠ alwaysId := by
    intro e; subst e
    rcases hi.base.rec0 with h | ⟨h, _⟩
    · exact h hrc.1
    · have := hrc.2.2; rw [h] at this; cases this
  refine Base_upd hi.base (OffT.setRec w f _) ?_ (fun _ _ h => h) hi.base.rowsLt hi.base.cPlain
    (hdet_quiet rfl (by simp) (by simp) (by simp) (fun h => absurd hrc.1 h.1)) ?_
  · refine ⟨?_, ?_, ?_, ?_, ?_, ?_, ?_, ?_, ?_, ?_, ?_, ?_, ?_, ?_, ?_, ?_, ?_⟩ <;>
      simp only [setRec_recs_self, setRec_fs, setRec_rules, setRec_clock]
    · exact o.chLe
    · intro ck h; cases h; exact Nat.le_refl _
    · exact o.csumFile
    · exact o.csumEx
    · exact o.srcNoCsum
    · exact o.csumCh
    · exact o.noOvr
    · exact o.srcNotGen
    · exact fun e => absurd e hf0
    · exact o.stampCh
    · exact o.staticEx
    · exact o.genMs
    · exact o.fsB
    · exact o.stB
    · exact fun _ => hrc.1
    · exact o.markFail
    · exact o.flLe
  · intro _ _ hg
    simp only [setRec_recs_self] at hg
    obtain ⟨pre, dof, post, hr, hpre, hex, hdof, hreads, hexit, hcont⟩ := RecTruth_clean hi (Or.inl hx) hrc hg hmx hrows
    refine ⟨pre, dof, post, scriptAt w dof, hr, fun c hc => (hpre c hc).2, hdof, hreads, hexit,
      Or.inl ⟨hex, rfl⟩, (scriptAt w dof).reads.map (contentOf w), hcont, by simp, ?_⟩
    intro p hp
    have hp2 := P.zip_map_snd (contentOf w) _ p hp
    refine ⟨fun hne => absurd hp2 hne, fun x hx => Or.inl ?_⟩
    have hcs : ((setRec w f { w.recs f with checked := some R }).recs p.1).csum = (w.recs p.1).csum := by
      by_cases e : p.1 = f
      · rw [e]; simp
      · rw [setRec_recs_other _ _ _ e]
    obtain ⟨r, hrm, h1, h2, h3⟩ := hreads p.1 (P.zip_fst_mem _ _ p hp)
    have hv : VerR w R p.1 := h2 ▸ ((hrows hg r hrm h1).1 h3).1
    rw [hp2]; exact hi.base.csumCur (hi.ver _ hv).1 (hcs ▸ hx)

theorem Ver_setChecked {rank R w f mx} (hi : Inv rank R X w) (hx : ¬ X f) (hrc : RecCur w f)
    (hmx : mx ≤ Mof (w.recs f)) (hrows : RowsClean w R mx f) :
    Ver R (setRec w f { w.recs f with checked := some R }) := by
  have hgen : ∀ x, ((setRec w f { w.recs f with checked := some R }).recs x).isGenerated = (w.recs x).isGenerated := by
    intro x
    by_cases e : x = f
    · subst e; simp
    · rw [setRec_recs_other _ _ _ e]
  have hup : ∀ x, Good w R x → UpToDateD (setRec w f { w.recs f with checked := some R }) x :=
    fun x hx => good_upToDate (w' := setRec w f { w.recs f with checked := some R }) hi rfl rfl
      (fun _ _ => rfl) (fun y _ => ⟨rfl, hgen y⟩) (rank x + 1) x (Nat.lt_succ_self _) hx
  intro x hv
  by_cases e : x = f
  · subst e
    refine ⟨by unfold RecCur; simp only [setRec_recs_self, setRec_readStamp]; exact hrc, ?_, ?_⟩
    · cases hg : (w.recs x).isGenerated with
      | false =>
        refine UpToDateD.user (by rw [hgen]; exact hg) ?_
        show existsF w x = true
        exact static_exists hi.base hrc hg
      | true =>
        obtain ⟨pre, dof, post, hr, hpre, hex, hdof, hreads, hexit, hcont⟩ := RecTruth_clean hi (Or.inl hx) hrc hg hmx hrows
        refine UpToDateD.target (dof := dof) ?_ ?_ hcont
        · rw [firstEx_setRec]; show firstEx w (w.rules x) = some dof
          rw [hr]; exact firstEx_split pre dof post (fun c hc => (hpre c hc).1) hex
        · intro d hd
          obtain ⟨r, hrm, h1, h2, h3⟩ := hreads d hd
          exact hup d (Or.inl (h2 ▸ ((hrows hg r hrm h1).1 h3).1))
    · intro hg d hd hdt
      rw [hgen] at hg
      exact ⟨fun hm => Or.inl (ck_verR ((hrows hg d hd hdt).1 hm).1), (hrows hg d hd hdt).2⟩
  · have hv0 : VerR w R x := by unfold VerR at hv; rw [setRec_recs_other _ _ _ e] at hv; exact hv
    obtain ⟨hrc0, _, hcl⟩ := hi.ver x hv0
    refine ⟨?_, hup x (Or.inl hv0), ?_⟩
    · unfold RecCur; rw [setRec_recs_other _ _ _ e]; exact hrc0
    · intro hg d hd hdt
      rw [hgen] at hg
      exact ⟨fun hm => ck_good ((hcl hg d hd hdt).1 hm), (hcl hg d hd hdt).2⟩

theorem Inv_setChecked {rank R w f mx} (hi : Inv rank R X w) (hx : ¬ X f) (hrc : RecCur w f)
    (hmx : mx ≤ Mof (w.recs f)) (hrows : RowsClean w R mx f) :
    Inv rank R X (setRec w f { w.recs f with checked := some R }) :=
  ⟨Base_setChecked hi hx hrc hmx hrows, hi.Rpos, Ver_setChecked hi hx hrc hmx hrows⟩

end RedoModel.Deps.S
