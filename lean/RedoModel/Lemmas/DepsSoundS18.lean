import RedoModel.Lemmas.DepsSoundS17
/-! `recordNewState` after a successful script: the fields of the resulting world. -/
namespace RedoModel.Deps.S

structure OkFields (R t : Nat) (out : Option Content) (w w' : World) : Prop where
  rules : w'.rules = w.rules
  progs : w'.progs = w.progs
  fs : ∀ x, x ≠ t → w'.fs x = w.fs x
  content : contentOf w' t = out
  recs : ∀ x, x ≠ t → w'.recs x = w.recs x
  deps : w'.deps = w.deps.filter (fun d => !(d.target = t && d.deleteMe))
  clock : w.clock ≤ w'.clock
  rc : w'.runCounter = w.runCounter
  fsB : ∀ n, w'.fs t = some n → n.ms ≤ w'.clock
  gen : (w'.recs t).isGenerated = true
  ovr : (w'.recs t).isOverride = false
  checked : (w'.recs t).checked = (w.recs t).checked
  changed : (w'.recs t).changed = some R
  failed : (w'.recs t).failed = none
  stamp : (w'.recs t).stamp = some (readStamp w' t)
  csum : ∀ x, (w'.recs t).csum = some x → out = some x

theorem isCheckedR_ext (r : Rec) (R : Nat) (g o : Bool) :
    isCheckedR { r with isGenerated := g, isOverride := o } R = isCheckedR r R := rfl
theorem isChangedR_ext (r : Rec) (R : Nat) (g o : Bool) :
    isChangedR { r with isGenerated := g, isOverride := o } R = isChangedR r R := rfl

theorem updateStamp_gen (w : World) (t : Nat) (r : Rec) (R : Nat) : (updateStamp w t r R).isGenerated = r.isGenerated := by
  unfold updateStamp setChanged; simp only; split <;> rfl

/-- The record written after a successful build. -/
def okRec (w : World) (t : Nat) (r : Rec) (R : Nat) : Rec :=
  setChanged (updateStamp w t { r with isGenerated := true, isOverride := false, csum := none } R) R

theorem okRec_gen (w t r R) : (okRec w t r R).isGenerated = true := by
  unfold okRec setChanged; simp only [updateStamp_gen]
theorem okRec_ovr (w t r R) : (okRec w t r R).isOverride = false := rfl
theorem okRec_failed (w t r R) : (okRec w t r R).failed = none := rfl
theorem okRec_changed (w t r R) : (okRec w t r R).changed = some R := rfl
theorem okRec_checked (w t r R) : (okRec w t r R).checked = r.checked := by
  unfold okRec setChanged; simp only [updateStamp_checked]
theorem okRec_stamp (w t r R) : (okRec w t r R).stamp = some (readStamp w t) := by
  unfold okRec setChanged; simp only [updateStamp_stamp]
theorem okRec_csum (w t r R) : (okRec w t r R).csum = none := by
  unfold okRec setChanged; simp only [updateStamp_csum]

theorem recordOk_eq (cx : Ctx) (t : Nat) (sf : Rec) (out : Option Content) (w : World)
    (hck : isCheckedR (w.recs t) cx.runid = false) (hch : isChangedR (w.recs t) cx.runid = false) :
    recordNewState cx t sf 0 out w =
      (0, match out with
        | some c => setRec (zapDeps2 (setFile { w with clock := w.clock + 1 } t
              (some { content := c, ms := w.clock + 1, rest := 0 })) t) t
            (okRec (setFile { w with clock := w.clock + 1 } t (some { content := c, ms := w.clock + 1, rest := 0 })) t
              (w.recs t) cx.runid)
        | none => setRec (zapDeps2 (setFile w t none) t) t (okRec (setFile w t none) t (w.recs t) cx.runid)) := by
  unfold isCheckedR at hck
  unfold isChangedR at hch
  unfold recordNewState
  simp only [if_true]
  cases out with
  | none =>
    have e : (setFile w t none).recs t = w.recs t := rfl
    simp only [e, isCheckedR, isChangedR, hck, hch, Bool.or_self, Bool.false_eq_true, if_false]
    rfl
  | some c =>
    have e : (setFile { w with clock := w.clock + 1 } t (some { content := c, ms := w.clock + 1, rest := 0 })).recs t
        = w.recs t := rfl
    simp only [newNode, e, isCheckedR, isChangedR, hck, hch, Bool.or_self, Bool.false_eq_true, if_false]
    rfl

theorem recordOk_fields (cx : Ctx) (t : Nat) (sf : Rec) (out : Option Content) (w : World)
    (hck : isCheckedR (w.recs t) cx.runid = false) (hch : isChangedR (w.recs t) cx.runid = false) :
    (recordNewState cx t sf 0 out w).1 = 0 ∧ OkFields cx.runid t out w (recordNewState cx t sf 0 out w).2 := by
  rw [recordOk_eq cx t sf out w hck hch]
  refine ⟨rfl, ?_⟩
  cases out with
  | none =>
    refine ⟨rfl, rfl, fun x hx => by simp [zapDeps2, setFile, hx], ?_, fun x hx => setRec_recs_other _ _ _ hx,
      rfl, Nat.le_refl _, rfl, ?_, ?_, ?_, ?_, ?_, ?_, ?_, ?_⟩
    · simp [contentOf, zapDeps2, setFile]
    · intro n hn; simp [zapDeps2, setFile] at hn
    all_goals simp only [setRec_recs_self]
    · exact okRec_gen _ _ _ _
    · exact okRec_ovr _ _ _ _
    · exact okRec_checked _ _ _ _
    · exact okRec_changed _ _ _ _
    · exact okRec_failed _ _ _ _
    · exact okRec_stamp _ _ _ _
    · intro x h; rw [okRec_csum] at h; cases h
  | some c =>
    refine ⟨rfl, rfl, fun x hx => by simp [zapDeps2, setFile, hx], ?_, fun x hx => setRec_recs_other _ _ _ hx,
      rfl, Nat.le_succ _, rfl, ?_, ?_, ?_, ?_, ?_, ?_, ?_, ?_⟩
    · simp [contentOf, zapDeps2, setFile]
    · intro n hn
      simp only [setRec_fs, zapDeps2, setFile, if_true, Option.some.injEq] at hn
      subst hn; exact Nat.le_refl _
    all_goals simp only [setRec_recs_self]
    · exact okRec_gen _ _ _ _
    · exact okRec_ovr _ _ _ _
    · exact okRec_checked _ _ _ _
    · exact okRec_changed _ _ _ _
    · exact okRec_failed _ _ _ _
    · exact okRec_stamp _ _ _ _
    · intro x h; rw [okRec_csum] at h; cases h

/-- The other branch of `recordNewState`: the record was already marked in this run; only its stamp moves. -/
structure KeepFields (t : Nat) (out : Option Content) (w w' : World) : Prop where
  rules : w'.rules = w.rules
  progs : w'.progs = w.progs
  fs : ∀ x, x ≠ t → w'.fs x = w.fs x
  content : contentOf w' t = out
  recs : ∀ x, x ≠ t → w'.recs x = w.recs x
  deps : w'.deps = w.deps.filter (fun d => !(d.target = t && d.deleteMe))
  clock : w.clock ≤ w'.clock
  rc : w'.runCounter = w.runCounter
  fsB : ∀ n, w'.fs t = some n → n.ms ≤ w'.clock
  gen : (w'.recs t).isGenerated = true
  ovr : (w'.recs t).isOverride = false
  checked : (w'.recs t).checked = (w.recs t).checked
  changed : (w'.recs t).changed = (w.recs t).changed
  failed : (w'.recs t).failed = (w.recs t).failed
  stamp : (w'.recs t).stamp = some (readStamp w' t)
  csum : (w'.recs t).csum = (w.recs t).csum

theorem recordKeep_fields (cx : Ctx) (t : Nat) (sf : Rec) (out : Option Content) (w : World)
    (hm : (isCheckedR (w.recs t) cx.runid || isChangedR (w.recs t) cx.runid) = true) :
    (recordNewState cx t sf 0 out w).1 = 0 ∧ KeepFields t out w (recordNewState cx t sf 0 out w).2 := by
  unfold isCheckedR isChangedR at hm
  unfold recordNewState
  simp only [if_true]
  cases out with
  | none =>
    have e : (setFile w t none).recs t = w.recs t := rfl
    simp only [e, isCheckedR, isChangedR, hm, if_true]
    refine ⟨trivial, rfl, rfl, fun x hx => by simp [zapDeps2, setFile, hx], ?_, fun x hx => setRec_recs_other _ _ _ hx,
      rfl, Nat.le_refl _, rfl, ?_, ?_, ?_, ?_, ?_, ?_, ?_, ?_⟩
    · simp [contentOf, zapDeps2, setFile]
    · intro n hn; simp [zapDeps2, setFile] at hn
    all_goals simp only [setRec_recs_self]
    · rfl
  | some c =>
    have e : (setFile { w with clock := w.clock + 1 } t (some { content := c, ms := w.clock + 1, rest := 0 })).recs t
        = w.recs t := rfl
    simp only [newNode, e, isCheckedR, isChangedR, hm, if_true]
    refine ⟨trivial, rfl, rfl, fun x hx => by simp [zapDeps2, setFile, hx], ?_, fun x hx => setRec_recs_other _ _ _ hx,
      rfl, Nat.le_succ _, rfl, ?_, ?_, ?_, ?_, ?_, ?_, ?_, ?_⟩
    · simp [contentOf, zapDeps2, setFile]
    · intro n hn
      simp only [setRec_fs, zapDeps2, setFile, if_true, Option.some.injEq] at hn
      subst hn; exact Nat.le_refl _
    all_goals simp only [setRec_recs_self]
    · rfl

/-- The record after a successful build whose output reproduced the recorded checksum `x`. -/
structure SameFields (R t : Nat) (x : Content) (w w' : World) : Prop where
  rules : w'.rules = w.rules
  progs : w'.progs = w.progs
  fs : ∀ y, y ≠ t → w'.fs y = w.fs y
  content : contentOf w' t = some x
  recs : ∀ y, y ≠ t → w'.recs y = w.recs y
  deps : w'.deps = w.deps.filter (fun d => !(d.target = t && d.deleteMe))
  clock : w.clock ≤ w'.clock
  rc : w'.runCounter = w.runCounter
  fsB : ∀ n, w'.fs t = some n → n.ms ≤ w'.clock
  gen : (w'.recs t).isGenerated = true
  ovr : (w'.recs t).isOverride = false
  checked : (w'.recs t).checked = some R
  changed : (w'.recs t).changed = (w.recs t).changed
  failed : (w'.recs t).failed = none
  stamp : (w'.recs t).stamp = some (readStamp w' t)
  csum : (w'.recs t).csum = some x
  csum0 : (w.recs t).csum = some x

theorem stampW_other (cx : Ctx) (t : Nat) (sc : Script) (w : World) {y : Nat} (hy : y ≠ t) :
    (stampW cx t sc w).recs y = w.recs y := by
  unfold stampW
  split
  · rfl
  · rw [setRec_recs_other _ _ _ hy]
    unfold Deps.addKnown
    split
    · rfl
    · simp [setRec, hy]

theorem stampW_eqv (cx : Ctx) (t : Nat) (sc : Script) (w : World) :
    (stampW cx t sc w).fs = w.fs ∧ (stampW cx t sc w).deps = w.deps ∧ (stampW cx t sc w).rules = w.rules ∧
    (stampW cx t sc w).progs = w.progs ∧ (stampW cx t sc w).clock = w.clock ∧
    (stampW cx t sc w).runCounter = w.runCounter := by
  have e := WEqv.addKnown w t
  unfold stampW
  split
  · exact ⟨rfl, rfl, rfl, rfl, rfl, rfl⟩
  · exact ⟨e.fs, e.deps, e.rules, e.progs, e.clock, e.rc⟩

theorem stampW_self (cx : Ctx) (t : Nat) (sc : Script) (w : World) (hs : sc.stamp = 1) :
    (stampW cx t sc w).recs t =
      stampRec ((addKnown w t).recs t) cx.runid (outContent sc.tag (sc.reads.map (contentOf w))) := by
  unfold stampW
  simp [hs]

theorem stampRec_ne {r : Rec} {R : Nat} {data : Content} (h : r.csum ≠ some data) :
    stampRec r R data = { r with isGenerated := true, isOverride := false, failed := none, changed := some R, csum := some data } := by
  unfold stampRec setChanged
  simp only [ne_eq, h, not_false_eq_true, if_true]

theorem stampRec_eq {r : Rec} {R : Nat} {data : Content} (h : r.csum = some data) :
    stampRec r R data = { r with isGenerated := true, isOverride := false, failed := none, checked := some R } := by
  unfold stampRec
  simp only [ne_eq, h, not_true_eq_false, if_false]

theorem stampW_marked (cx : Ctx) (t : Nat) (sc : Script) (w : World) (hs : sc.stamp = 1) (hR : 0 < cx.runid) :
    (isCheckedR ((stampW cx t sc w).recs t) cx.runid || isChangedR ((stampW cx t sc w).recs t) cx.runid) = true := by
  rw [stampW_self cx t sc w hs]
  have hR' : cx.runid ≠ 0 := by omega
  by_cases h : ((addKnown w t).recs t).csum = some (outContent sc.tag (sc.reads.map (contentOf w)))
  · rw [stampRec_eq h]; simp [isCheckedR, hR']
  · rw [stampRec_ne h]; simp [isChangedR, hR']

/-- Recording the success of a script that piped its output `o` to `redo-stamp`. -/
theorem recordStamp_fields (cx : Ctx) (t : Nat) (sf : Rec) (sc : Script) (w : World) (hs : sc.stamp = 1)
    (hR : 0 < cx.runid) (o : Content) (ho : o = outContent sc.tag (sc.reads.map (contentOf w))) :
    (recordNewState cx t sf 0 (some o) (stampW cx t sc w)).1 = 0 ∧
    (((w.recs t).csum ≠ some o ∧ OkFields cx.runid t (some o) w (recordNewState cx t sf 0 (some o) (stampW cx t sc w)).2) ∨
     ((w.recs t).csum = some o ∧ SameFields cx.runid t o w (recordNewState cx t sf 0 (some o) (stampW cx t sc w)).2)) := by
  obtain ⟨h0, k⟩ := recordKeep_fields cx t sf (some o) (stampW cx t sc w) (stampW_marked cx t sc w hs hR)
  refine ⟨h0, ?_⟩
  obtain ⟨e1, e2, e3, e4, e5, e6⟩ := stampW_eqv cx t sc w
  have ea := WEqv.addKnown w t
  have hself := stampW_self cx t sc w hs
  rw [← ho] at hself
  generalize (recordNewState cx t sf 0 (some o) (stampW cx t sc w)).2 = w' at k
  by_cases h : (w.recs t).csum = some o
  · right
    have h' : ((addKnown w t).recs t).csum = some o := by rw [ea.csum]; exact h
    rw [stampRec_eq h'] at hself
    refine ⟨h, k.rules.trans e3, k.progs.trans e4, fun y hy => by rw [k.fs y hy, e1], k.content,
      fun y hy => by rw [k.recs y hy, stampW_other cx t sc w hy], by rw [k.deps, e2], by rw [← e5]; exact k.clock,
      k.rc.trans e6, k.fsB, k.gen, k.ovr, ?_, ?_, ?_, k.stamp, ?_, h⟩
    · rw [k.checked, hself]
    · rw [k.changed, hself]; exact ea.changed t
    · rw [k.failed, hself]
    · rw [k.csum, hself]; exact h'
  · left
    have h' : ((addKnown w t).recs t).csum ≠ some o := by rw [ea.csum]; exact h
    rw [stampRec_ne h'] at hself
    refine ⟨h, k.rules.trans e3, k.progs.trans e4, fun y hy => by rw [k.fs y hy, e1], k.content,
      fun y hy => by rw [k.recs y hy, stampW_other cx t sc w hy], by rw [k.deps, e2], by rw [← e5]; exact k.clock,
      k.rc.trans e6, k.fsB, k.gen, k.ovr, ?_, ?_, ?_, k.stamp, ?_⟩
    · rw [k.checked, hself]; exact ea.checked t
    · rw [k.changed, hself]
    · rw [k.failed, hself]
    · intro x hx; rw [k.csum, hself] at hx; exact hx

end RedoModel.Deps.S
