import RedoModel.Lemmas.DepsSoundR40
import RedoModel.Lemmas.DepsSound0
/-! Non-vacuity of `noStaleAlways`: a concrete history satisfying every hypothesis, in which a `redo-always` target
(target 2, built by the .do file 1 whose script declares and reads the source 5 and fails on odd versions of it) is
built, and built again by the next `redo-ifchange` although nothing changed. -/
namespace RedoModel.Deps.Rich
open RedoModel.Generated

def nvScript : Script := { always := true, ifchange := [[5]], reads := [5], failIfOdd := some 5, tag := 1 }
def nvOps : List UserOp := [.setProg [17] nvScript, .write 5 0, .write 1 7, .cmd (.ifchange [2] false)]
def nvW : World := nvOps.foldl (fun w op => (applyOp {} 2 op w).2) (initWorld cxRules)
def nvRes : Result × World := runCmd {} 2 (.redo [2] false) nvW

theorem nv_status : nvRes.1.status = 0 := by decide +kernel
theorem nv_ran : nvRes.2.trace = [.ran 2, .ran 2] := by decide +kernel
theorem nv_always_row : (⟨2, alwaysId, true, false⟩ : Dep) ∈ nvRes.2.deps := by decide +kernel

theorem nv_rich : nvScript.RichA := by
  refine ⟨⟨rfl, ?_, ?_⟩, rfl, rfl⟩
  · intro f hf; left; simpa [nvScript] using hf
  · intro f hf; simp only [nvScript, Option.some.injEq] at hf; subst hf; simp [nvScript]

theorem nv_ops : ∀ op ∈ nvOps, AlwaysOp cxRules op := by
  intro op hop
  simp only [nvOps, List.mem_cons, List.not_mem_nil, or_false] at hop
  rcases hop with rfl | rfl | rfl | rfl
  · exact nv_rich
  · exact ⟨by simp [cxRules], by simp [alwaysId]⟩
  · exact ⟨by simp [cxRules], by simp [alwaysId]⟩
  · intro t ht; simp only [Cmd.names, List.mem_singleton] at ht; subst ht; simp [alwaysId]

theorem nv_ranked_of (w : World) (hr : w.rules = cxRules)
    (hp : ∀ c sc, w.progs c = some sc → sc = nvScript) : RankedR cxRank w := by
  refine ⟨fun t c hc => ?_, fun t dof hd n sc _ h => ?_⟩
  · rw [hr] at hc; unfold cxRules at hc
    split at hc
    · simp at hc; subst hc; subst_vars; simp [cxRank]
    · simp at hc
  · rw [hr] at hd; unfold cxRules at hd
    split at hd
    · have := hp _ _ h; subst this; subst_vars
      refine ⟨fun _ => by simp [cxRank, alwaysId], fun d hdm => ?_, fun d hdm => by simp [nvScript] at hdm⟩
      have : d = 5 := by simpa [nvScript] using hdm
      subst this
      simp [cxRank, alwaysId]
    · simp at hd

theorem nv_progs_of (w : World) (hp : w.progs = fun x => if x = [17] then some nvScript else none) :
    ∀ c sc, w.progs c = some sc → sc = nvScript := by
  intro c sc h
  rw [hp] at h
  simp only at h
  split at h
  · exact (Option.some.inj h).symm
  · cases h

theorem nv_ranked : ∀ w ∈ worldsOf 2 {} (initWorld cxRules) nvOps, RankedR cxRank w := by
  intro w hw
  simp only [nvOps, worldsOf, List.mem_cons, List.not_mem_nil, or_false] at hw
  rcases hw with rfl | rfl | rfl | rfl | rfl
  · exact nv_ranked_of _ rfl (fun c sc h => by cases h)
  · exact nv_ranked_of _ rfl (nv_progs_of _ rfl)
  · exact nv_ranked_of _ rfl (nv_progs_of _ rfl)
  · exact nv_ranked_of _ rfl (nv_progs_of _ rfl)
  · exact nv_ranked_of _ rfl (nv_progs_of _ rfl)

theorem nv_opsOk : OpsOkW 2 (initWorld cxRules) nvOps := by
  refine ⟨?_, trivial, trivial, trivial, trivial⟩
  intro t dof _ n hn
  cases hn

theorem nv_rankLt : ∀ f, cxRank f < 2 := by intro f; unfold cxRank; split <;> omega

/-- Non-vacuity of `noStaleAlways`: all hypotheses hold; the script really ran in both commands. -/
example : UpToDateR nvRes.2 2 :=
  noStaleAlways 2 cxRules cxRank nvOps [2] false true cx_rulesOk nv_ops nv_ranked nv_rankLt nv_opsOk
    (by simp [alwaysId]) nv_status 2 (by simp)

/-! The same with `redo-ifchange` as the final command: the dirtiness check walks the `//ALWAYS` row.  (The kernel
cannot unfold `List.mergeSort` on two or more rows, hence evaluation by `simp`.) -/

theorem mergeSort_pair' {α} (a b : α) (le : α → α → Bool) :
    [a, b].mergeSort le = if le a b then [a, b] else [b, a] := by
  simp [List.mergeSort, List.merge, List.MergeSort.Internal.splitInTwo]

theorem mergeSort_triple' {α} (a b c : α) (le : α → α → Bool) :
    [a, b, c].mergeSort le = List.merge ([a, b].mergeSort le) [c] le := by
  simp [List.mergeSort, List.MergeSort.Internal.splitInTwo]

/-- Evaluation set for concrete runs. -/
macro "eval_runR" : tactic => `(tactic|
  simp (config := { zeta := true, zetaHave := true, decide := true }) [runCmd, allocRun, applyOp, initWorld, engine,
    runTargets, buildJob, shouldBuild, isDirty, goDeps, startSelf, recordNewState, runScript, runScript.cmds,
    runScript.conds, ifchangeWith, findDoFile, addDep, addKnown, setRec, setFile, ev, getRec, readStamp, existsF,
    newNode, srcContent, outContent, depsWithRecs, depsOf, zapDeps1, zapDeps2, updateStamp, setChanged, setStatic,
    setFailed, setOverride, detectOverride, isCheckedR, isChangedR, isFailedR, alwaysId, mergeSort_pair',
    mergeSort_triple', List.merge, CRASHED, EXIT_CYCLIC_DEPENDENCY, EXIT_TARGET_FAILED, EXIT_FAILURE, stampRec])

def nvRes2 : Result × World := runCmd {} 2 (.ifchange [2] false) nvW

set_option linter.unusedSimpArgs false in
set_option maxHeartbeats 1000000 in
theorem nv2_run : nvRes2.1.status = 0 ∧ nvRes2.2.trace = [.ran 2, .ran 2] := by
  unfold nvRes2 nvW nvOps nvScript cxRules
  eval_runR

/-- Non-vacuity of `noStaleAlways` for `redo-ifchange`: the `redo-always` target is rebuilt though nothing changed. -/
example : UpToDateR nvRes2.2 2 :=
  noStaleAlways 2 cxRules cxRank nvOps [2] false false cx_rulesOk nv_ops nv_ranked nv_rankLt nv_opsOk
    (by simp [alwaysId]) nv2_run.1 2 (by simp)

/-! ### Stage 2: `redo-ifcreate` and conditional declarations

Target 2 (.do file 1): `redo-ifcreate 6`; conditional files 7 (present: `redo-ifchange 7`) and 8 (absent:
`redo-ifcreate 8`); `redo-ifchange 5`; reads 5, 7, 8.  It is built, then the user creates 8: the next
`redo-ifchange 2` rebuilds it. -/

def nwScript : Script :=
  { ifcreate := [6], cond := [7, 8], ifchange := [[5]], reads := [5, 7, 8], failIfOdd := some 5, tag := 1 }
def nwOps : List UserOp :=
  [.setProg [17] nwScript, .write 5 0, .write 7 1, .write 1 7, .cmd (.ifchange [2] false), .write 8 3]
def nwW : World := nwOps.foldl (fun w op => (applyOp {} 2 op w).2) (initWorld cxRules)
def nwRes : Result × World := runCmd {} 2 (.ifchange [2] false) nwW

set_option linter.unusedSimpArgs false in
set_option maxHeartbeats 4000000 in
theorem nw_run : nwRes.1.status = 0 ∧ nwRes.2.trace = [.ran 2, .ran 2] := by
  unfold nwRes nwW nwOps nwScript cxRules
  simp (config := { zeta := true, zetaHave := true, decide := true }) [runCmd, allocRun, applyOp, initWorld, engine,
    runTargets, buildJob, shouldBuild, isDirty, goDeps, startSelf, recordNewState, runScript, runScript.cmds,
    runScript.conds, ifchangeWith, findDoFile, addDep, addKnown, setRec, setFile, ev, getRec, readStamp, existsF,
    newNode, srcContent, outContent, depsWithRecs, depsOf, zapDeps1, zapDeps2, updateStamp, setChanged, setStatic,
    setFailed, setOverride, detectOverride, isCheckedR, isChangedR, isFailedR, alwaysId,
    List.mergeSort, List.MergeSort.Internal.splitInTwo, List.merge, CRASHED, EXIT_CYCLIC_DEPENDENCY,
    EXIT_TARGET_FAILED, EXIT_FAILURE, stampRec]

theorem nw_rich : nwScript.Rich := by
  refine ⟨rfl, ?_, ?_⟩
  · intro f hf
    simp only [nwScript, List.mem_cons, List.not_mem_nil, or_false] at hf
    rcases hf with rfl | rfl | rfl <;> simp [nwScript]
  · intro f hf; simp only [nwScript, Option.some.injEq] at hf; subst hf; simp [nwScript]

theorem nw_ops : ∀ op ∈ nwOps, WatchOp cxRules op := by
  intro op hop
  simp only [nwOps, List.mem_cons, List.not_mem_nil, or_false] at hop
  rcases hop with rfl | rfl | rfl | rfl | rfl | rfl
  · exact nw_rich
  · exact ⟨by simp [cxRules], by simp [alwaysId]⟩
  · exact ⟨by simp [cxRules], by simp [alwaysId]⟩
  · exact ⟨by simp [cxRules], by simp [alwaysId]⟩
  · intro t ht; simp only [Cmd.names, List.mem_singleton] at ht; subst ht; simp [alwaysId]
  · exact ⟨by simp [cxRules], by simp [alwaysId]⟩

theorem nw_ranked_of (w : World) (hr : w.rules = cxRules)
    (hp : ∀ c sc, w.progs c = some sc → sc = nwScript) : RankedR cxRank w := by
  refine ⟨fun t c hc => ?_, fun t dof hd n sc _ h => ?_⟩
  · rw [hr] at hc; unfold cxRules at hc
    split at hc
    · simp at hc; subst hc; subst_vars; simp [cxRank]
    · simp at hc
  · rw [hr] at hd; unfold cxRules at hd
    split at hd
    · have := hp _ _ h; subst this; subst_vars
      refine ⟨fun ha => by simp [nwScript] at ha, fun d hdm => ?_, fun d hdm => ?_⟩
      · have : d = 5 ∨ (d = 7 ∨ d = 8) ∨ d = 6 := by simpa [nwScript] using hdm
        rcases this with rfl | (rfl | rfl) | rfl <;> simp [cxRank, alwaysId]
      · have : (d = 7 ∨ d = 8) ∨ d = 6 := by simpa [nwScript] using hdm
        rw [hr]
        rcases this with (rfl | rfl) | rfl <;> simp [cxRules]
    · simp at hd

theorem nw_progs_of (w : World) (hp : w.progs = fun x => if x = [17] then some nwScript else none) :
    ∀ c sc, w.progs c = some sc → sc = nwScript := by
  intro c sc h
  rw [hp] at h
  simp only at h
  split at h
  · exact (Option.some.inj h).symm
  · cases h

theorem nw_ranked : ∀ w ∈ worldsOf 2 {} (initWorld cxRules) nwOps, RankedR cxRank w := by
  intro w hw
  simp only [nwOps, worldsOf, List.mem_cons, List.not_mem_nil, or_false] at hw
  rcases hw with rfl | rfl | rfl | rfl | rfl | rfl | rfl
  · exact nw_ranked_of _ rfl (fun c sc h => by cases h)
  · exact nw_ranked_of _ rfl (nw_progs_of _ rfl)
  · exact nw_ranked_of _ rfl (nw_progs_of _ rfl)
  · exact nw_ranked_of _ rfl (nw_progs_of _ rfl)
  · exact nw_ranked_of _ rfl (nw_progs_of _ rfl)
  · exact nw_ranked_of _ rfl (nw_progs_of _ rfl)
  · exact nw_ranked_of _ rfl (nw_progs_of _ rfl)

theorem nw_opsOk : OpsOkW 2 (initWorld cxRules) nwOps := by
  refine ⟨?_, trivial, trivial, trivial, trivial, trivial, trivial⟩
  intro t dof _ n hn
  cases hn

/-- Non-vacuity of `noStaleWatch`: all hypotheses hold; after the user created the conditional file 8 the target is
rebuilt and is up to date. -/
example : UpToDateR nwRes.2 2 :=
  noStaleWatch 2 cxRules cxRank nwOps [2] false false cx_rulesOk nw_ops nw_ranked nv_rankLt nw_opsOk
    (by simp [alwaysId]) nw_run.1 2 (by simp)

/-! ### Stage 3: a hand edit of a generated target

Target 2 (.do file 1, reads the source 5) and target 3 (.do file 4, reads target 2).  Both are built; then the user
overwrites the generated file 2 by hand.  The next `redo-ifchange 3` detects the edit (`warnOverride 2`), keeps the
user's file and rebuilds 3 from it. -/

def r3Rules : Nat → List Nat := fun t => if t = 2 then [1] else if t = 3 then [4] else []
def r3Rank : Nat → Nat := fun f => if f = 3 then 2 else if f = 2 then 1 else 0
def s2 : Script := { ifchange := [[5]], reads := [5], tag := 1 }
def s3 : Script := { ifchange := [[2]], reads := [2], tag := 2 }
def roOps : List UserOp :=
  [.setProg [17] s2, .setProg [19] s3, .write 5 0, .write 1 7, .write 4 8, .cmd (.ifchange [3] false), .write 2 9]
def roW : World := roOps.foldl (fun w op => (applyOp {} 3 op w).2) (initWorld r3Rules)
def roRes : Result × World := runCmd {} 3 (.ifchange [3] false) roW

set_option linter.unusedSimpArgs false in
set_option maxHeartbeats 4000000 in
theorem ro_run : roRes.1.status = 0 ∧ roRes.2.trace = [.warnOverride 2, .ran 3, .ran 2, .ran 3] ∧
    (roRes.2.recs 2).isOverride = true ∧ contentOf roRes.2 2 = some (srcContent 9) := by
  unfold roRes roW roOps s2 s3 r3Rules contentOf
  simp (config := { zeta := true, zetaHave := true, decide := true }) [runCmd, allocRun, applyOp, initWorld, engine,
    runTargets, buildJob, shouldBuild, isDirty, goDeps, startSelf, recordNewState, runScript, runScript.cmds,
    runScript.conds, ifchangeWith, findDoFile, addDep, addKnown, setRec, setFile, ev, getRec, readStamp, existsF,
    newNode, srcContent, outContent, depsWithRecs, depsOf, zapDeps1, zapDeps2, updateStamp, setChanged, setStatic,
    setFailed, setOverride, detectOverride, isCheckedR, isChangedR, isFailedR, alwaysId,
    List.mergeSort, List.MergeSort.Internal.splitInTwo, List.merge, CRASHED, EXIT_CYCLIC_DEPENDENCY,
    EXIT_TARGET_FAILED, EXIT_FAILURE, stampRec]

theorem r3_rulesOk : RulesOk r3Rules := by
  refine ⟨by simp [r3Rules, alwaysId], fun t c hc => ?_⟩
  unfold r3Rules at hc ⊢
  split at hc
  · simp at hc; subst hc; subst_vars; simp [alwaysId]
  · split at hc
    · simp at hc; subst hc; subst_vars; simp [alwaysId]
    · simp at hc

theorem ro_ops : ∀ op ∈ roOps, RichOp r3Rules op := by
  intro op hop
  simp only [roOps, List.mem_cons, List.not_mem_nil, or_false] at hop
  rcases hop with rfl | rfl | rfl | rfl | rfl | rfl | rfl
  · exact ⟨rfl, by intro f hf; left; simpa [s2] using hf, by intro f hf; simp [s2] at hf⟩
  · exact ⟨rfl, by intro f hf; left; simpa [s3] using hf, by intro f hf; simp [s3] at hf⟩
  · simp [RichOp, alwaysId]
  · simp [RichOp, alwaysId]
  · simp [RichOp, alwaysId]
  · intro t ht; simp only [Cmd.names, List.mem_singleton] at ht; subst ht; simp [alwaysId]
  · simp [RichOp, alwaysId]

theorem ro_ranked_of (w : World) (hr : w.rules = r3Rules)
    (hp : ∀ c sc, w.progs c = some sc → (c = [17] ∧ sc = s2) ∨ (c = [19] ∧ sc = s3))
    (h1 : ∀ n, w.fs 1 = some n → n.content = [17]) (h4 : ∀ n, w.fs 4 = some n → n.content = [19]) :
    RankedR r3Rank w := by
  refine ⟨fun t c hc => ?_, fun t dof hd n sc hn h => ?_⟩
  · rw [hr] at hc; unfold r3Rules at hc
    split at hc
    · simp at hc; subst hc; subst_vars; simp [r3Rank]
    · split at hc
      · simp at hc; subst hc; subst_vars; simp [r3Rank]
      · simp at hc
  · rw [hr] at hd; unfold r3Rules at hd
    split at hd
    · simp only [List.mem_singleton] at hd; subst hd; subst_vars
      have hc := h1 n hn
      rw [hc] at h
      rcases hp _ _ h with ⟨_, rfl⟩ | ⟨hc', _⟩
      · refine ⟨fun ha => by simp [s2] at ha, fun d hdm => ?_, fun d hdm => by simp [s2] at hdm⟩
        have : d = 5 := by simpa [s2] using hdm
        subst this; simp [r3Rank, alwaysId]
      · simp at hc'
    · split at hd
      · simp only [List.mem_singleton] at hd; subst hd; subst_vars
        have hc := h4 n hn
        rw [hc] at h
        rcases hp _ _ h with ⟨hc', _⟩ | ⟨_, rfl⟩
        · simp at hc'
        · refine ⟨fun ha => by simp [s3] at ha, fun d hdm => ?_, fun d hdm => by simp [s3] at hdm⟩
          have : d = 2 := by simpa [s3] using hdm
          subst this; simp [r3Rank, alwaysId]
      · simp at hd

theorem fsc_of {w : World} {f : Nat} {c : Content}
    (h : (w.fs f).map (·.content) = none ∨ (w.fs f).map (·.content) = some c) : ∀ n, w.fs f = some n → n.content = c := by
  intro n hn
  rw [hn] at h
  rcases h with h | h
  · cases h
  · exact Option.some.inj h

theorem ro_progs0 (w : World) (hp : w.progs = fun _ => none) :
    ∀ c sc, w.progs c = some sc → (c = [17] ∧ sc = s2) ∨ (c = [19] ∧ sc = s3) := by
  intro c sc h; rw [hp] at h; cases h

theorem ro_progs1 (w : World) (hp : w.progs = fun x => if x = [17] then some s2 else none) :
    ∀ c sc, w.progs c = some sc → (c = [17] ∧ sc = s2) ∨ (c = [19] ∧ sc = s3) := by
  intro c sc h
  rw [hp] at h
  simp only at h
  split at h
  · exact Or.inl ⟨by assumption, (Option.some.inj h).symm⟩
  · cases h

theorem ro_progs2 (w : World)
    (hp : w.progs = fun x => if x = [19] then some s3 else if x = [17] then some s2 else none) :
    ∀ c sc, w.progs c = some sc → (c = [17] ∧ sc = s2) ∨ (c = [19] ∧ sc = s3) := by
  intro c sc h
  rw [hp] at h
  simp only at h
  split at h
  · exact Or.inr ⟨by assumption, (Option.some.inj h).symm⟩
  · split at h
    · exact Or.inl ⟨by assumption, (Option.some.inj h).symm⟩
    · cases h

theorem ro_ranked : ∀ w ∈ worldsOf 3 {} (initWorld r3Rules) roOps, RankedR r3Rank w := by
  intro w hw
  simp only [roOps, worldsOf, List.mem_cons, List.not_mem_nil, or_false] at hw
  rcases hw with rfl | rfl | rfl | rfl | rfl | rfl | rfl | rfl
  · exact ro_ranked_of _ rfl (ro_progs0 _ rfl) (fsc_of (by decide +kernel)) (fsc_of (by decide +kernel))
  · exact ro_ranked_of _ rfl (ro_progs1 _ rfl) (fsc_of (by decide +kernel)) (fsc_of (by decide +kernel))
  · exact ro_ranked_of _ rfl (ro_progs2 _ rfl) (fsc_of (by decide +kernel)) (fsc_of (by decide +kernel))
  · exact ro_ranked_of _ rfl (ro_progs2 _ rfl) (fsc_of (by decide +kernel)) (fsc_of (by decide +kernel))
  · exact ro_ranked_of _ rfl (ro_progs2 _ rfl) (fsc_of (by decide +kernel)) (fsc_of (by decide +kernel))
  · exact ro_ranked_of _ rfl (ro_progs2 _ rfl) (fsc_of (by decide +kernel)) (fsc_of (by decide +kernel))
  · exact ro_ranked_of _ rfl (ro_progs2 _ rfl) (fsc_of (by decide +kernel)) (fsc_of (by decide +kernel))
  · exact ro_ranked_of _ rfl (ro_progs2 _ rfl) (fsc_of (by decide +kernel)) (fsc_of (by decide +kernel))

theorem ro_opsOk : OpsOk 3 (initWorld r3Rules) roOps := by
  refine ⟨?_, ?_, ?_, ?_, ?_, trivial, ?_, trivial⟩
  · intro t dof _ n hn; cases hn
  · intro t dof _ n hn; cases hn
  · intro hg; revert hg; decide +kernel
  · intro hg; revert hg; decide +kernel
  · intro hg; revert hg; decide +kernel
  · intro _; decide +kernel

theorem r3_rankLt : ∀ f, r3Rank f < 3 := by intro f; unfold r3Rank; split <;> (try split) <;> omega

/-- Non-vacuity of `noStaleRich`: the hand-edited target 2 stands for itself, and 3 is rebuilt from the user's
content of 2. -/
example : UpToDateR roRes.2 3 ∧ UpToDateR roRes.2 2 := by
  have h := noStaleRich 3 r3Rules r3Rank roOps [3] false false r3_rulesOk ro_ops ro_ranked r3_rankLt ro_opsOk
    (by simp [alwaysId]) ro_run.1
  exact ⟨h 3 (by simp), UpToDateR.override ro_run.2.2.1 (by
    have := ro_run.2.2.2
    unfold contentOf at this
    unfold existsF
    cases hfs : roRes.2.fs 2 with
    | none => rw [hfs] at this; cases this
    | some n => rfl)⟩

end RedoModel.Deps.Rich
