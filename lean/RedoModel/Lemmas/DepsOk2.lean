import RedoModel.Lemmas.DepsOk1
/-!
# C09 — the dirtiness check never answers `cyclic` when the recorded rows respect a rank and the fuel exceeds it
-/
namespace RedoModel.Deps.Rich
open RedoModel.Generated

theorem goDeps_notCyclic (chk : World → List Nat → Nat → Rec → DR × World × List Nat) (D : List Dep)
    (hfr : ∀ w c s r, (chk w c s r).2.1.deps = w.deps) (hasCsum : Bool) (f : Nat) :
    ∀ (ds : List (Dep × Rec)) (w : World) (cache must : List Nat), w.deps = D →
      (∀ p ∈ ds, p.1.modeM = true → ∀ w' c, w'.deps = D → (chk w' c p.1.source p.2).1 ≠ .cyclic) →
      (goDeps chk hasCsum f ds w cache must).1 ≠ some .cyclic
  | [], w, cache, must, _, _ => by
    simp only [goDeps]; split <;> simp
  | (d, snap) :: ds, w, cache, must, hw, hds => by
    have htl : ∀ p ∈ ds, p.1.modeM = true → ∀ w' c, w'.deps = D → (chk w' c p.1.source p.2).1 ≠ .cyclic :=
      fun p hp => hds p (List.mem_cons_of_mem _ hp)
    rw [goDeps]
    by_cases hm : d.modeM = true
    · simp only [hm, if_true]
      have h1 := hds (d, snap) (by simp) hm w cache hw
      have h2 := hfr w cache d.source snap
      generalize chk w cache d.source snap = r at h1 h2
      obtain ⟨sub, w1, c1⟩ := r
      dsimp only at h1 h2
      cases sub with
      | cyclic => exact absurd rfl h1
      | clean => exact goDeps_notCyclic chk D hfr hasCsum f ds w1 c1 must (h2.trans hw) htl
      | dirty => cases hasCsum <;> simp
      | need ts => exact goDeps_notCyclic chk D hfr hasCsum f ds w1 c1 (must ++ ts) (h2.trans hw) htl
    · simp only [hm, Bool.false_eq_true, if_false]
      cases existsF w d.source with
      | true => cases hasCsum <;> simp
      | false => exact goDeps_notCyclic chk D hfr hasCsum f ds w cache must hw htl

theorem isDirty_notCyclic (rank : Nat → Nat) (ood : Bool) (R : Nat) :
    ∀ (fuel : Nat) (w : World) (cache : List Nat) (f mx : Nat) (seen : List Nat) (pre : Option Rec),
      (∀ d ∈ w.deps, rank d.source < rank d.target) → FuelOk rank fuel seen f →
      (isDirty ood R fuel w cache f mx seen pre).1 ≠ .cyclic
  | 0, w, cache, f, mx, seen, pre, _, hf => by have := hf.1; omega
  | fuel + 1, w, cache, f, mx, seen, pre, hrows, hf => by
    have hseen : f ∉ seen := fun h => Nat.lt_irrefl _ (hf.2 f h)
    have hg : ∀ mx' hc r, (goDeps
        (fun w cache s snap => isDirty ood R fuel w cache s mx' (f :: seen) (some snap)) hc f
          (depsWithRecs w R r f) w cache []).1 ≠ some .cyclic := by
      intro mx' hc r
      refine goDeps_notCyclic _ w.deps (fun w c s r => (isDirty_frame ood R fuel w c s _ _ _).2.1) hc f _ w cache [] rfl ?_
      intro p hp _ w' c hw'
      obtain ⟨d, hd, rfl⟩ := List.mem_map.1 hp
      obtain ⟨_, hd1, hd2⟩ := mem_depsOf.1 hd
      have hlt := hrows d hd1
      rw [hd2] at hlt
      refine isDirty_notCyclic rank ood R fuel w' c d.source mx' (f :: seen) _ (by rw [hw']; exact hrows) ⟨?_, ?_⟩
      · have := hf.1; omega
      · intro x hx
        rcases List.mem_cons.1 hx with rfl | hx
        · exact hlt
        · have := hf.2 x hx; omega
    simp (config := {zeta := true, zetaHave := true}) only [isDirty, hseen, if_false]
    repeat' split
    all_goals try (simp; done)
    all_goals
      rename_i heq
      have e := congrArg (fun x => x.1) heq
      dsimp only at e ⊢
      intro hc
      rw [hc] at e
      exact hg _ _ _ e

end RedoModel.Deps.Rich
