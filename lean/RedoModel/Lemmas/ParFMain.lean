import RedoModel.Lemmas.ParFInv
/-!
Consequences of the invariants of `RedoModel.ParF`: at most one start per target; a target recorded as
failed cannot be built, a target recorded as built can (so the status class of a settled target, and of the
invocation once it returns, is the same in every schedule); built targets hold the from-scratch content;
no dependent of a failed target is recorded as built.
-/
namespace RedoModel.ParF

/-! ### The ghost list of starts is the list of `start` events -/

def evStart : Ev → List Nat
  | .start t _ => [t]
  | _ => []

/-- The targets of the `start` events of a schedule, in order. -/
def startsOf (es : List Ev) : List Nat := es.flatMap evStart

theorem evStart_reverse (e : Ev) : (evStart e).reverse = evStart e := by cases e <;> rfl

theorem nodup_of_reverse {l : List Nat} (h : l.reverse.Nodup) : l.Nodup := by
  unfold List.Nodup at *
  rw [List.pairwise_reverse] at h
  exact h.imp (fun hab => Ne.symm hab)

theorem step_starts {g : Graph} {s s' : State} {e : Ev} (h : step g s e = some s') :
    s'.starts = evStart e ++ s.starts := by
  cases e with
  | start t b => obtain ⟨_, _, _, rfl⟩ := step_start h; rfl
  | clean t => obtain ⟨_, _, rfl⟩ := step_clean h; rfl
  | ret t ok =>
    cases ok with
    | true => obtain ⟨_, _, _, _, _, _, _, rfl⟩ := step_ret_ok h; rfl
    | false => obtain ⟨_, _, _, _, _, _, _, rfl⟩ := step_ret_bad h; rfl
  | finish t => obtain ⟨_, _, _, _, rfl⟩ := step_finish h; rfl
  | fail t => obtain ⟨_, _, _, rfl⟩ := step_fail h; rfl

theorem run_starts {g : Graph} : ∀ (es : List Ev) (s s' : State), run g s es = some s' →
    s'.starts = (startsOf es).reverse ++ s.starts
  | [], s, s', h => by cases h; simp [startsOf]
  | e :: es, s, s', h => by
    rw [run_cons] at h
    cases hs : step g s e with
    | none => rw [hs] at h; cases h
    | some s1 =>
      rw [hs] at h
      rw [run_starts es s1 s' h, step_starts hs]
      simp [startsOf, List.flatMap_cons, evStart_reverse]

/-! ### Starting points -/

theorem init_invB {g : Graph} {s0 : State} (h0 : Init g s0) : InvB g s0 := by
  obtain ⟨h1, h2, _⟩ := h0
  refine ⟨(by rw [h1]; exact List.nodup_nil), (by rw [h1]; intro t ht; cases ht), ?_, ?_, ?_⟩
  · intro t sc k _ hst
    rcases h2 t with h | h <;> rw [h] at hst <;> cases hst
  · intro t hst
    rcases h2 t with h | h <;> rw [h] at hst <;> cases hst
  · intro t hst
    rcases h2 t with h | h <;> rw [h] at hst <;> cases hst

theorem allIdle_init {g : Graph} {s0 : State} (h : AllIdle s0) : Init g s0 :=
  ⟨h.1, fun t => Or.inl (h.2 t), fun t _ _ hd => by rw [h.2 t] at hd; cases hd⟩

/-- The targets the dirtiness check declares clean in `es` can be built and hold, at the start, what a
from-scratch build would give them.  (As in `Par.lean` the `clean` event has no such guard of its own.) -/
def CleanOk (g : Graph) (s0 : State) (es : List Ev) : Prop :=
  ∀ t sc, Ev.clean t ∈ es → g.script t = some sc → s0.st t = .idle → ¬ Bad g t ∧ Spec g t (s0.content t)

theorem cleanOk_of_no_clean {g : Graph} {s0 : State} {es : List Ev} (h : ∀ t, Ev.clean t ∉ es) :
    CleanOk g s0 es := fun t _ ht => absurd ht (h t)

/-- The two instances of `Q`. -/
def QBad (g : Graph) : Nat → Content → Prop := fun t _ => ¬ Bad g t

def QSpec (g : Graph) : Nat → Content → Prop := fun t c => ¬ Bad g t ∧ Spec g t c

theorem not_bad_of_deps {g : Graph} {t : Nat} {sc : Script} (hsc : g.script t = some sc)
    (hnf : sc.fails = false) (hd : ∀ f ∈ sc.cmds.flatten, ∀ scf, g.script f = some scf → ¬ Bad g f) :
    ¬ Bad g t := by
  intro hb
  cases hb with
  | self hsc' hf => rw [hsc] at hsc'; cases hsc'; rw [hnf] at hf; cases hf
  | dep hsc' hmem hbd =>
    rw [hsc] at hsc'; cases hsc'
    obtain ⟨scd, hscd⟩ := hbd.hasScript
    exact hd _ hmem scd hscd hbd

theorem finishClosed_QBad (g : Graph) : FinishClosed g (QBad g) :=
  fun _ _ _ hsc hnf hd => not_bad_of_deps hsc hnf hd

theorem finishClosed_QSpec {g : Graph} (hw : WellFormed g) : FinishClosed g (QSpec g) := by
  intro s t sc hsc hnf hd
  refine ⟨not_bad_of_deps hsc hnf (fun f hf scf hscf => (hd f hf scf hscf).1), ?_⟩
  refine Spec.tgt (sc.reads.map (val g s)) hsc hnf (by simp) ?_
  intro i h h'
  simp only [List.getElem_map]
  have hmem := hw t sc hsc _ (List.getElem_mem h)
  unfold val
  cases hscf : g.script sc.reads[i] with
  | none => exact Spec.src hscf
  | some scf => exact (hd _ hmem scf hscf).2

theorem init_inv_QBad {g : Graph} {s0 : State} {es : List Ev} (h0 : Init g s0) (hc : CleanOk g s0 es) :
    Inv g (QBad g) (fun t => Ev.clean t ∈ es) s0 :=
  ⟨init_invB h0, fun t sc hsc hd => (h0.2.2 t sc hsc hd).1, fun t sc hk hsc hidle => (hc t sc hk hsc hidle).1⟩

theorem init_inv_QSpec {g : Graph} {s0 : State} {es : List Ev} (h0 : Init g s0) (hc : CleanOk g s0 es) :
    Inv g (QSpec g) (fun t => Ev.clean t ∈ es) s0 :=
  ⟨init_invB h0, h0.2.2, fun t sc hk hsc hidle => hc t sc hk hsc hidle⟩

/-! ### 1. At most once -/

theorem parf_at_most_once {g : Graph} {s0 s : State} {es : List Ev} (h0 : Init g s0)
    (h : run g s0 es = some s) :
    s.starts.Nodup ∧ (∀ t ∈ s.starts, s.st t ≠ .idle) ∧ s.starts = (startsOf es).reverse ∧
    (startsOf es).Nodup := by
  have hs : s.starts = (startsOf es).reverse := by rw [run_starts es s0 s h, h0.1, List.append_nil]
  have hi := run_invB es s0 s (init_invB h0) h
  exact ⟨hi.nodup, hi.started, hs, nodup_of_reverse (hs ▸ hi.nodup)⟩

/-! ### 2. The status class -/

/-- Only what cannot be built is ever recorded as failed (no hypothesis on clean targets). -/
theorem failed_bad {g : Graph} {s0 s : State} {es : List Ev} (h0 : Init g s0) (h : run g s0 es = some s)
    {t : Nat} (ht : s.st t = .failed) : Bad g t :=
  (run_invB es s0 s (init_invB h0) h).failedBad t ht

/-- What cannot be built is never recorded as built. -/
theorem done_not_bad {g : Graph} {s0 s : State} {es : List Ev} (h0 : Init g s0) (hc : CleanOk g s0 es)
    (h : run g s0 es = some s) {t : Nat} (ht : s.st t = .done) : ¬ Bad g t := by
  intro hb
  obtain ⟨sc, hsc⟩ := hb.hasScript
  exact (run_inv (finishClosed_QBad g) es s0 s (fun _ ht => ht) (init_inv_QBad h0 hc) h).doneQ t sc hsc ht hb

theorem status_class {g : Graph} {s0 s : State} {es : List Ev} (h0 : Init g s0) (hc : CleanOk g s0 es)
    (h : run g s0 es = some s) {t : Nat} (ht : s.st t = .done ∨ s.st t = .failed) :
    s.st t = .failed ↔ Bad g t := by
  constructor
  · exact failed_bad h0 h
  · intro hb
    rcases ht with ht | ht
    · exact absurd hb (done_not_bad h0 hc h ht)
    · exact ht

/-- Without the hypothesis on clean targets the class can be wrong: a target whose script fails can be
declared clean. -/
theorem status_class_needs_cleanOk :
    ∃ (g : Graph) (s0 s : State) (es : List Ev), AllIdle s0 ∧ run g s0 es = some s ∧
      ∃ t, s.st t = .done ∧ Bad g t := by
  let g : Graph :=
    { script := fun t => if t = 0 then some { cmds := [], reads := [], tag := 0, fails := true } else none,
      src := fun _ => [] }
  let s0 : State := { st := fun _ => .idle, content := fun _ => [] }
  exact ⟨g, s0, { s0 with st := upd s0.st 0 .done }, [.clean 0], ⟨rfl, fun _ => rfl⟩, rfl, 0, rfl,
    Bad.self (g := g) (t := 0) (sc := { cmds := [], reads := [], tag := 0, fails := true }) rfl rfl⟩

theorem status_zero_iff {g : Graph} {s : State} {ts : List Nat} :
    status g s ts = 0 ↔ ∀ t ∈ ts, okSettled g s t = true := by
  unfold status
  by_cases h : ts.all (okSettled g s) = true
  · simp only [h, if_true, true_iff]; simpa using h
  · simp only [h]
    constructor
    · intro hh; cases hh
    · intro hh; exact absurd (by simpa using hh) h

/-- Once the top-level command may return, its status is 0 exactly when every top target can be built. -/
theorem exit_class {g : Graph} {s0 s : State} {es : List Ev} {ts : List Nat} (h0 : Init g s0)
    (hc : CleanOk g s0 es) (h : run g s0 es = some s) (hret : topReturns g s ts = true) :
    status g s ts = 0 ↔ ∀ t ∈ ts, ¬ Bad g t := by
  rw [status_zero_iff]
  constructor
  · intro hall t ht hb
    obtain ⟨sc, hsc⟩ := hb.hasScript
    exact done_not_bad h0 hc h ((okSettled_tgt hsc).1 (hall t ht)) hb
  · intro hnb
    simp only [topReturns, Bool.or_eq_true] at hret
    rcases hret with hall | hbad
    · simpa using hall
    · obtain ⟨d, hd, hdf⟩ := mayReturnBad_failed hbad
      exact absurd (failed_bad h0 h hdf) (hnb d hd)

/-- Two schedules of the same invocation that both reach a point where the top level returns give the
same status. -/
theorem exit_schedule_independent {g : Graph} {s0 s₁ s₂ : State} {es₁ es₂ : List Ev} {ts : List Nat}
    (h0 : Init g s0) (hc₁ : CleanOk g s0 es₁) (hc₂ : CleanOk g s0 es₂)
    (h₁ : run g s0 es₁ = some s₁) (h₂ : run g s0 es₂ = some s₂)
    (hr₁ : topReturns g s₁ ts = true) (hr₂ : topReturns g s₂ ts = true) :
    status g s₁ ts = status g s₂ ts := by
  have e1 := exit_class h0 hc₁ h₁ hr₁
  have e2 := exit_class h0 hc₂ h₂ hr₂
  have hcases : ∀ s, status g s ts = 0 ∨ status g s ts = 1 := by
    intro s; unfold status; split <;> simp
  rcases hcases s₁ with a | a <;> rcases hcases s₂ with b | b
  · rw [a, b]
  · exact absurd (e2.2 (e1.1 a)) (by rw [b]; decide)
  · exact absurd (e1.2 (e2.1 b)) (by rw [a]; decide)
  · rw [a, b]

/-! ### Built targets hold the from-scratch content -/

theorem done_is_spec {g : Graph} {s0 s : State} {es : List Ev} (hw : WellFormed g) (h0 : Init g s0)
    (hc : CleanOk g s0 es) (h : run g s0 es = some s) :
    ∀ t sc, g.script t = some sc → s.st t = .done → Spec g t (s.content t) :=
  fun t sc hsc hd =>
    ((run_inv (finishClosed_QSpec hw) es s0 s (fun _ ht => ht) (init_inv_QSpec h0 hc) h).doneQ t sc hsc hd).2

theorem spec_unique {g : Graph} {t : Nat} {c₁ c₂ : Content} (h₁ : Spec g t c₁) (h₂ : Spec g t c₂) :
    c₁ = c₂ := by
  induction h₁ generalizing c₂ with
  | src hs =>
    cases h₂ with
    | src _ => rfl
    | tgt cs hsc _ _ _ => rw [hs] at hsc; cases hsc
  | tgt cs hsc hnf hlen hp ih =>
    cases h₂ with
    | src hs => rw [hs] at hsc; cases hsc
    | tgt cs' hsc' hnf' hlen' hp' =>
      rw [hsc] at hsc'; cases hsc'
      have : cs = cs' := by
        apply List.ext_getElem (by omega)
        intro i h1 h2
        exact ih i (by omega) h1 (hp' i (by omega) h2)
      rw [this]

theorem confluent {g : Graph} {s0 s₁ s₂ : State} {es₁ es₂ : List Ev} (hw : WellFormed g)
    (h0 : Init g s0) (hc₁ : CleanOk g s0 es₁) (hc₂ : CleanOk g s0 es₂)
    (h₁ : run g s0 es₁ = some s₁) (h₂ : run g s0 es₂ = some s₂) (t : Nat) {sc : Script}
    (hsc : g.script t = some sc) (hd₁ : s₁.st t = .done) (hd₂ : s₂.st t = .done) :
    s₁.content t = s₂.content t :=
  spec_unique (done_is_spec hw h0 hc₁ h₁ t sc hsc hd₁) (done_is_spec hw h0 hc₂ h₂ t sc hsc hd₂)

/-! ### 3. No dependent of a failed target is recorded as built -/

theorem no_dependent_recorded_ok {g : Graph} {s0 s : State} {es : List Ev} (h0 : Init g s0)
    (hc : CleanOk g s0 es) (h : run g s0 es = some s) {t d : Nat} {sc : Script}
    (hsc : g.script t = some sc) (hd : d ∈ sc.cmds.flatten) (hf : s.st d = .failed) : s.st t ≠ .done :=
  fun hdone => done_not_bad h0 hc h hdone (Bad.dep hsc hd (failed_bad h0 h hf))

/-! ### `--keep-going` only restricts the schedules -/

theorem step_keepGoing_weaken {g : Graph} {s s' : State} {e : Ev} (h : step g s e = some s') :
    step { g with keepGoing := false } s e = some s' := by
  cases e with
  | start t b => exact h
  | clean t => exact h
  | finish t => exact h
  | fail t => exact h
  | ret t ok =>
    cases ok with
    | true => exact h
    | false =>
      obtain ⟨sc, k, ds, hsc, hst, hds, hbad, rfl⟩ := step_ret_bad h
      obtain ⟨d, hd, hdf⟩ := mayReturnBad_failed hbad
      have hb' : mayReturnBad { g with keepGoing := false } s ds = true := by
        simp only [mayReturnBad, Bool.not_false, Bool.true_or, Bool.and_true, List.any_eq_true, isFailed,
          beq_iff_eq]
        exact ⟨d, hd, hdf⟩
      simp [step, hsc, hst, hds, hb']

/-- Every run accepted with `--keep-going` is accepted without it (and ends in the same state). -/
theorem run_keepGoing_weaken {g : Graph} : ∀ (es : List Ev) (s s' : State), run g s es = some s' →
    run { g with keepGoing := false } s es = some s'
  | [], s, s', h => h
  | e :: es, s, s', h => by
    rw [run_cons] at h ⊢
    cases hs : step g s e with
    | none => rw [hs] at h; cases h
    | some s1 =>
      rw [hs] at h
      rw [step_keepGoing_weaken hs]
      exact run_keepGoing_weaken es s1 s' h

end RedoModel.ParF
