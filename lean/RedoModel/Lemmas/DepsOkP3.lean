import RedoModel.Lemmas.DepsOkP2
import RedoModel.Lemmas.DepsSoundK9
/-!
# C10 — non-vacuity of `recoveryExitsZeroPlain`: the history `exOps` of `DepsSoundK9` (two-level project, first
build, edit of a source, rebuild KILLED at step 1 of the script of the inner target).  The project is buildable after
the kill (shown through the frames, without evaluating the killed run), hence the recovery run exits 0 and the
targets are up to date — `ex_recovered` of `DepsSoundK9` obtained its `status = 0` by evaluating the whole run.
-/
namespace RedoModel.Deps
open RedoModel.Generated
open Rich (Buildable FrU Tr EngineFr)

theorem runCmd_ifchange_frU (d : Defects) (n : Nat) (ts : List Nat) (kg : Bool) (w : World) :
    FrU w (runCmd d n (.ifchange ts kg) w).2 :=
  (trP_alloc w).1.trans (Rich.runTargets_frU _ (Rich.engine_frU d _) d _ _ ts [] false _)

theorem crashCmd_frU (d : Defects) (n : Nat) (ts : List Nat) (t k : Nat) (w : World) :
    FrU w (applyOp d n (.crashCmd ts t k) w).2 := by
  rw [applyOp_crashCmd]
  exact (trP_alloc w).1.trans (Rich.runTargets_frU _ (Rich.engine_frU d _) d _ _ ts [] false _)

theorem ex_fr79 : (∀ x, exRules x = [] → exW7.fs x = exW6.fs x) ∧ exW7.progs = exW6.progs ∧
    (∀ x, exRules x = [] → exW9.fs x = exW8.fs x) ∧ exW9.progs = exW8.progs := by
  have h7 : FrU exW6 exW7 := runCmd_ifchange_frU {} 3 [5] false exW6
  have h9 : FrU exW8 exW9 := crashCmd_frU {} 3 [5] 6 1 exW8
  have r6 : RulesOk exW6.rules := by rw [ex_btw6.2]; exact ex_rulesOk
  have r8 : RulesOk exW8.rules := by rw [ex_btw8.2]; exact ex_rulesOk
  exact ⟨fun x hx => h7.plain r6 (by rw [ex_btw6.2]; exact hx), (h7 r6).2.1,
    fun x hx => h9.plain r8 (by rw [ex_btw8.2]; exact hx), (h9 r8).2.1⟩

theorem ex_fs8 (x : Nat) (hx : x ≠ 4) : exW8.fs x = exW7.fs x := by
  show (setFile _ 4 _).fs x = _
  simp [setFile, hx]

theorem ex_fs9 (x : Nat) (hp : exRules x = []) (hx : x ≠ 4) : exW9.fs x = exW6.fs x := by
  rw [ex_fr79.2.2.1 x hp, ex_fs8 x hx, ex_fr79.1 x hp]

theorem ex_progs9 : exW9.progs = exW6.progs := by
  rw [ex_fr79.2.2.2]
  show exW7.progs = _
  exact ex_fr79.2.1

theorem ex_ex4 : existsF exW9 4 = true := by
  have : exW9.fs 4 = exW8.fs 4 := ex_fr79.2.2.1 4 (by decide)
  rw [existsF_congr this]
  show ((setFile _ 4 _).fs 4).isSome = true
  simp [setFile]

/-- The project is buildable after the kill. -/
theorem ex_buildable9 : Buildable exW9 5 := by
  have hr : exW9.rules = exRules := ex_btw9.2
  have e1 : exW9.fs 1 = exW6.fs 1 := ex_fs9 1 (by decide) (by decide)
  have e2 : exW9.fs 2 = exW6.fs 2 := ex_fs9 2 (by decide) (by decide)
  have e3 : exW9.fs 3 = exW6.fs 3 := ex_fs9 3 (by decide) (by decide)
  have s1 : Rich.scriptAt exW9 1 = exS1 := by
    rw [Rich.scriptAt_congr e1 ex_progs9]; decide +kernel
  have s2 : Rich.scriptAt exW9 2 = exS2 := by
    rw [Rich.scriptAt_congr e2 ex_progs9]; decide +kernel
  have x1 : existsF exW9 1 = true := by rw [existsF_congr e1]; decide +kernel
  have x2 : existsF exW9 2 = true := by rw [existsF_congr e2]; decide +kernel
  have x3 : existsF exW9 3 = true := by rw [existsF_congr e3]; decide +kernel
  have src : ∀ x, exRules x = [] → existsF exW9 x = true → Buildable exW9 x :=
    fun x hx he => .source (fun c hc => by rw [hr, hx] at hc; cases hc) he
  have b6 : Buildable exW9 6 := by
    refine .target (dof := 2) (by rw [hr]; simp [exRules, Rich.firstEx, x2]) ?_ ?_ ?_ ?_ ?_
    · rw [s2]; intro d hd
      have : d = 4 := by simpa [exS2] using hd
      subst this; exact src 4 (by decide) ex_ex4
    · rw [s2]; intro d hd; simp [exS2] at hd
    · rw [s2]; intro d hd; simp [exS2] at hd
    · rw [s2]; rfl
    · rw [s2]; rfl
  refine .target (dof := 1) (by rw [hr]; simp [exRules, Rich.firstEx, x1]) ?_ ?_ ?_ ?_ ?_
  · rw [s1]; intro d hd
    have : d = 6 ∨ d = 3 := by simpa [exS1] using hd
    rcases this with rfl | rfl
    · exact b6
    · exact src 3 (by decide) x3
  · rw [s1]; intro d hd; simp [exS1] at hd
  · rw [s1]; intro d hd; simp [exS1] at hd
  · rw [s1]; rfl
  · rw [s1]; rfl

/-- **Non-vacuity of `recoveryExitsZeroPlain`**: every hypothesis holds for the history `exOps` (which ends with a
kill in the middle of a two-level rebuild); the recovery run exits 0 and 5 is up to date. -/
theorem ex_recovery_succeeds :
    (runCmd {} 3 (.ifchange [5] false) (exOps.foldl (fun w op => (applyOp {} 3 op w).2) (initWorld exRules))).1.status = 0 ∧
    UpToDateD (runCmd {} 3 (.ifchange [5] false)
      (exOps.foldl (fun w op => (applyOp {} 3 op w).2) (initWorld exRules))).2 5 := by
  obtain ⟨a, b⟩ := recoveryExitsZeroPlain 3 exRules exRank exOps [5] false false ex_rulesOk ex_single ex_plainK ex_ranked
    ex_rank_lt ex_opsOk (fun t ht => by
      simp only [List.mem_singleton] at ht; subst ht
      exact ex_buildable9)
  exact ⟨a, b 5 (by simp)⟩

end RedoModel.Deps
