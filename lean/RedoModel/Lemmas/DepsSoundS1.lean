import RedoModel.Lemmas.DepsSoundS0
/-!
The run invariant with checksums.  Reused from `DepsSound1`: `scriptAt`, `firstEx`, `contentOf`, `outOf`, `UpToDateD`,
`RecCur`, `DetectM`, `DetectS`, `Mof`, `VerR`, `HasRow`, `Good`, `Ver`, `NoFail`.  New: the loud part of detection
(`DetectL`), the checksum clause of `RecTruth`, and the clauses `csumFile`, `csumEx`, `srcNoCsum` of `Base`.
-/
namespace RedoModel.Deps.S

def RecCur (w : World) (f : Nat) : Prop :=
  (w.recs f).failed = none ∧ (w.recs f).changed ≠ none ∧ (w.recs f).stamp = some (readStamp w f)

/-- A change of the `m` dependency `d` is visible to a parent whose max(changed, checked) is `M`. -/
def DetectM (w : World) (M : Nat) (d : Nat) : Prop :=
  (w.recs d).failed ≠ none ∨ (w.recs d).changed = none ∨
  (∃ ch, (w.recs d).changed = some ch ∧ ch > M) ∨ (w.recs d).stamp ≠ some (readStamp w d)

/-- The part of `DetectM` that does not look at the `failed` flag: the truth clause uses this one. -/
def FailedAbsent (w : World) (d : Nat) : Prop :=
  (w.recs d).failed ≠ none ∧ (w.recs d).isGenerated = false ∧ (w.recs d).stamp = some .missing

def DetectS (w : World) (M : Nat) (d : Nat) : Prop :=
  (w.recs d).changed = none ∨
  (∃ ch, (w.recs d).changed = some ch ∧ ch > M) ∨ (w.recs d).stamp ≠ some (readStamp w d) ∨ FailedAbsent w d

def Mof (r : Rec) : Nat := max (r.changed.getD 0) (r.checked.getD 0)

def VerR (w : World) (R : Nat) (f : Nat) : Prop :=
  (w.recs f).failed = none ∧ ((w.recs f).checked = some R ∨ (w.recs f).changed = some R)

def HasRow (w : World) (t s : Nat) (m : Bool) : Prop :=
  ∃ d ∈ w.deps, d.target = t ∧ d.source = s ∧ d.modeM = m

def rowsOf (w : World) (t : Nat) : List Dep := w.deps.filter (fun d => d.target = t)

/-- The part of `DetectS` that nothing undoes: the `changed` mark of the dependency is newer than the parent. -/
def DetectL (w : World) (M : Nat) (d : Nat) : Prop :=
  (w.recs d).changed = none ∨ ∃ ch, (w.recs d).changed = some ch ∧ ch > M

theorem DetectL.toS {w M d} (h : DetectL w M d) : DetectS w M d := by
  rcases h with h | h
  · exact Or.inl h
  · exact Or.inr (Or.inl h)

/-- What the record of a current generated target `t` promises.  With checksums: whenever a file it read carries a
checksum, that checksum is the content remembered (or the file has been loudly changed since). -/
def RecTruth (w : World) (t : Nat) : Prop :=
  ∃ (pre : List Nat) (dof : Nat) (post : List Nat) (sc : Script),
    w.rules t = pre ++ dof :: post ∧
    (∀ c ∈ pre, HasRow w t c false) ∧ HasRow w t dof true ∧ (∀ d ∈ sc.reads, HasRow w t d true) ∧
    sc.exit = 0 ∧
    ((existsF w dof = true ∧ scriptAt w dof = sc) ∨ DetectS w (Mof (w.recs t)) dof) ∧
    ∃ cs : List (Option Content),
      contentOf w t = (if sc.outMode = 2 then none else some (outContent sc.tag cs)) ∧
      cs.length = sc.reads.length ∧
      ∀ p ∈ List.zip sc.reads cs,
        (p.2 ≠ contentOf w p.1 → DetectS w (Mof (w.recs t)) p.1) ∧
        (∀ x, (w.recs p.1).csum = some x → p.2 = some x ∨ DetectL w (Mof (w.recs t)) p.1)

/-- The part of the invariant that also holds between commands (`R` bounds the run ids in use). -/
structure Base (rank : Nat → Nat) (R : Nat) (X : Nat → Prop) (w : World) : Prop where
  rulesOk : RulesOk w.rules
  ranked : Ranked rank w
  plainProgs : ∀ c sc, w.progs c = some sc → sc.PlainS
  chLe : ∀ f ch, (w.recs f).changed = some ch → ch ≤ R
  ckLe : ∀ f ck, (w.recs f).checked = some ck → ck ≤ R
  csumFile : ∀ f x, (w.recs f).csum = some x → ∀ n, w.fs f = some n → n.content = x
  csumEx : ∀ f, (w.recs f).csum ≠ none → (w.recs f).failed = none → (w.recs f).stamp ≠ some .missing
  srcNoCsum : ∀ f, w.rules f = [] → (w.recs f).csum = none
  csumCh : ∀ f, (w.recs f).csum ≠ none → (w.recs f).changed ≠ none
  noOvr : ∀ f, (w.recs f).isOverride = false
  srcNotGen : ∀ f, w.rules f = [] → (w.recs f).isGenerated = false
  fs0 : w.fs alwaysId = none
  rec0 : (w.recs alwaysId).failed ≠ none ∨ ((w.recs alwaysId).stamp = none ∧ (w.recs alwaysId).checked = none)
  rowsLt : ∀ d ∈ w.deps, rank d.source < rank d.target
  cPlain : ∀ d ∈ w.deps, d.modeM = false → w.rules d.source = []
  stampCh : ∀ f, (w.recs f).stamp ≠ none → (w.recs f).changed ≠ none
  staticEx : ∀ f, (w.recs f).failed = none → (w.recs f).isGenerated = false → (w.recs f).stamp ≠ some .missing
  genMs : ∀ f, (w.recs f).isGenerated = true → ∀ n, w.fs f = some n → ∃ rest, (w.recs f).stamp = some (.st n.ms rest)
  fsB : ∀ f n, w.fs f = some n → n.ms ≤ w.clock
  stB : ∀ f ms rest, (w.recs f).stamp = some (.st ms rest) →
      ms ≤ w.clock ∧ ∀ n, w.fs f = some n → ms < n.ms ∨ (ms = n.ms ∧ rest ≤ n.rest)
  ckFail : ∀ f, (w.recs f).checked = some R → (w.recs f).failed = none
  markFail : ∀ f, (w.recs f).changed = some R → (w.recs f).failed = none ∨ (w.recs f).failed = some R
  flLe : ∀ f k, (w.recs f).failed = some k → k ≤ R
  recA : ∀ t, (¬ X t ∨ VerR w R t) → RecCur w t → (w.recs t).isGenerated = true → RecTruth w t

/-- Verified in run `R`, or a current record of a file redo does not own (nothing to rebuild). -/
def Good (w : World) (R : Nat) (f : Nat) : Prop :=
  VerR w R f ∨ (RecCur w f ∧ (w.recs f).isGenerated = false)

/-- What "verified in run `R`" guarantees. -/
def Ver (R : Nat) (w : World) : Prop :=
  ∀ f, VerR w R f → RecCur w f ∧ UpToDateD w f ∧
    ((w.recs f).isGenerated = true → ∀ d ∈ w.deps, d.target = f →
      (d.modeM = true → Good w R d.source) ∧ (d.modeM = false → existsF w d.source = false))

structure Inv (rank : Nat → Nat) (R : Nat) (X : Nat → Prop) (w : World) : Prop where
  base : Base rank R X w
  Rpos : 0 < R
  ver : Ver R w

def NoFail (R : Nat) (w : World) : Prop := ∀ f, (w.recs f).failed ≠ some R


/-- A current record with a checksum: the checksum is the content of the file. -/
theorem Base.csumCur {rank R X w} (hb : Base rank R X w) {f x} (hc : RecCur w f) (hx : (w.recs f).csum = some x) :
    contentOf w f = some x := by
  have h1 := hb.csumEx f (by rw [hx]; simp) hc.1
  rw [hc.2.2] at h1
  unfold contentOf
  cases hn : w.fs f with
  | none => exact absurd (by rw [readStamp_missing.2 hn]) h1
  | some n => simp [hb.csumFile f x hx n hn]

end RedoModel.Deps.S
