import RedoModel.Lemmas.LogFollow0
/-!
# `redo-log --follow` — completeness when no new instance is created under the follower

`Good s`: the follower's descriptor (if any) is on the instance that is at the log name, and the follower's belief
"the lock was free" (`wasLocked = false`) is only held when the build is really over.  Every step other than `create`
keeps `Good`; a stopped `Good` state has shown the whole current instance and nothing can be appended any more.
-/
namespace RedoModel.LogFollow

structure Good (s : Sys) : Prop where
  pre : Pre s
  /-- the descriptor is on the instance at the log name -/
  last : ∀ g, s.opened = some g → g + 1 = s.insts.length
  /-- end of file without a descriptor, believed unlocked: there is no log file -/
  noFile : s.opened = none → (s.pc = .read ∨ s.pc = .stopped) → s.wasLocked = false → s.insts = []
  /-- "was not locked" is only believed once the build is over -/
  wl : s.pc ≠ .start → s.wasLocked = false → s.phase ≠ .building
  stop : s.pc = .stopped → s.phase ≠ .building ∧ s.emitted.reverse = current s

theorem Good_enter (insts : List (List Nat)) (ph : Phase) : Good (enter insts ph) := by
  refine ⟨Pre_enter insts ph, ?_, ?_, ?_, ?_⟩ <;> simp [enter]

theorem current_appendLast_nil (l : Nat) : current { insts := appendLast [] l, phase := .idle } = [] := rfl

/-- At end of file on the last instance everything of it has been shown. -/
theorem eof_all (s : Sys) (hg : Good s) (hpc : s.pc = .read) (hwl : s.wasLocked = false)
    (hline : (match s.opened with | some g => (s.insts.getD g [])[s.pos]? | none => none) = none) :
    s.emitted.reverse = current s := by
  have hp := hg.pre
  unfold Pre at hp
  unfold current
  split at hline
  · next g hopen =>
    simp only [hopen] at hp
    obtain ⟨h1, h2, h3⟩ := hp
    have hl := hg.last g hopen
    have hge : (s.insts.getD g []).length ≤ s.pos := List.getElem?_eq_none_iff.mp hline
    rw [h3, List.take_of_length_le hge, ← getD_last]
    congr 1; omega
  · next hopen =>
    simp only [hopen] at hp
    have he := hg.noFile hopen (.inl hpc) hwl
    simp [hp, he]

theorem Good_step (s : Sys) (e : Ev) (s' : Sys) (hg : Good s) (hne : e ≠ .create) (h : step s e = some s') :
    Good s' := by
  have hpre := Pre_step s e s' hg.pre h
  obtain ⟨_, hlast, hnf, hwl, hstop⟩ := hg
  cases e with
  | create => exact absurd rfl hne
  | lock =>
    simp only [step] at h; split at h
    · next hph =>
      cases h
      refine ⟨hpre, hlast, hnf, ?_, ?_⟩
      · intro _ _; simp
      · intro hpc; exact ⟨by simp, (hstop hpc).2⟩
    · cases h
  | unlock =>
    simp only [step] at h; split at h
    · cases h
    · cases h
      refine ⟨hpre, hlast, hnf, ?_, ?_⟩
      · intro _ _; simp
      · intro hpc; exact ⟨by simp, (hstop hpc).2⟩
  | append l =>
    simp only [step] at h; split at h
    · next hph =>
      cases h
      refine ⟨hpre, ?_, ?_, ?_, ?_⟩
      · intro g hg; simpa [appendLast_length] using hlast g hg
      · intro h1 h2 h3; simpa [appendLast_eq_nil] using hnf h1 h2 h3
      · exact hwl
      · intro hpc; exact absurd hph (hstop hpc).1
    · cases h
  | fol =>
    have hg : Good s := ⟨‹_›, hlast, hnf, hwl, hstop⟩
    simp only [step] at h
    split at h
    · next hpc =>
      cases h
      refine ⟨hpre, hlast, ?_, ?_, ?_⟩
      · intro _ h2; simp at h2
      · intro _ h2 h3; simp [locked] at h2; simp [h2] at h3
      · intro h2; simp at h2
    · next hpc =>
      split at h
      · next g hopen =>
        cases h
        refine ⟨hpre, hlast, ?_, ?_, ?_⟩
        · intro h1; simp [hopen] at h1
        · intro _ h2; exact hwl (by simp [hpc]) h2
        · intro h2; simp at h2
      · next hopen =>
        split at h
        · next hemp =>
          cases h
          refine ⟨hpre, hlast, ?_, ?_, ?_⟩
          · intro _ _ _; simpa using hemp
          · intro _ h2; exact hwl (by simp [hpc]) h2
          · intro h2; simp at h2
        · next hemp =>
          cases h
          have : s.insts ≠ [] := by intro h0; simp [h0] at hemp
          have hpos : 0 < s.insts.length := List.length_pos_iff.mpr this
          refine ⟨hpre, ?_, ?_, ?_, ?_⟩
          · intro g hg; simp only [Option.some.injEq] at hg; subst hg; dsimp only; omega
          · intro h1; simp at h1
          · intro _ h2; exact hwl (by simp [hpc]) h2
          · intro h2; simp at h2
    · next hpc =>
      split at h
      · next l hl =>
        cases h
        refine ⟨hpre, hlast, ?_, ?_, ?_⟩
        · intro _ h2; simp at h2
        · intro _ h2; exact hwl (by simp [hpc]) h2
        · intro h2; simp at h2
      · next hl =>
        split at h
        · next hw =>
          cases h
          refine ⟨hpre, hlast, ?_, ?_, ?_⟩
          · intro _ h2; simp at h2
          · intro _ h2; exact hwl (by simp [hpc]) h2
          · intro h2; simp at h2
        · next hw =>
          cases h
          have hw' : s.wasLocked = false := by simpa using hw
          refine ⟨hpre, hlast, ?_, ?_, ?_⟩
          · intro h1 _ h3; exact hnf h1 (.inl hpc) h3
          · intro _ h2; exact hwl (by simp [hpc]) h2
          · intro _; exact ⟨hwl (by simp [hpc]) hw', eof_all s hg hpc hw' hl⟩
    · next hpc =>
      cases h
      refine ⟨hpre, hlast, ?_, ?_, ?_⟩
      · intro _ h2; simp at h2
      · intro _ h2 h3; simp [locked] at h2; simp [h2] at h3
      · intro h2; simp at h2
    · cases h

theorem Good_run {s s' : Sys} {es : List Ev} (h : run s es = some s') (hnc : Ev.create ∉ es) (hg : Good s) :
    Good s' :=
  run_induct Good (fun e => e ≠ .create) (fun s e s' hp hne h => Good_step s e s' hp hne h) h
    (fun _ he hc => hnc (hc ▸ he)) hg

/-! ### After the stop -/

/-- Stopped, build over: only `lock`/`unlock` are accepted as long as no `create` comes. -/
theorem stopped_step (s : Sys) (e : Ev) (s' : Sys) (hpc : s.pc = .stopped) (hph : s.phase ≠ .building)
    (hne : e ≠ .create) (h : step s e = some s') :
    s'.pc = .stopped ∧ s'.phase ≠ .building ∧ s'.insts = s.insts ∧ s'.emitted = s.emitted ∧
      (e = .lock ∨ e = .unlock) := by
  cases e with
  | create => exact absurd rfl hne
  | lock =>
    simp only [step] at h; split at h
    · cases h; simp [hpc]
    · cases h
  | unlock =>
    simp only [step] at h; split at h
    · cases h
    · cases h; simp [hpc]
  | append l =>
    simp only [step] at h; split at h
    · next hb => exact absurd hb hph
    · cases h
  | fol => simp [step, hpc] at h

theorem stopped_run {s s' : Sys} {es : List Ev} (h : run s es = some s') (hnc : Ev.create ∉ es)
    (hpc : s.pc = .stopped) (hph : s.phase ≠ .building) :
    s'.pc = .stopped ∧ s'.phase ≠ .building ∧ s'.insts = s.insts ∧ s'.emitted = s.emitted ∧
      ∀ e ∈ es, e = .lock ∨ e = .unlock := by
  induction es generalizing s with
  | nil => simp only [run, Option.some.injEq] at h; subst h; simp [hpc, hph]
  | cons e es ih =>
    simp only [run] at h
    cases hs : step s e with
    | none => rw [hs] at h; cases h
    | some s1 =>
      rw [hs] at h
      have hne : e ≠ .create := fun hc => hnc (hc ▸ List.mem_cons_self)
      obtain ⟨a1, a2, a3, a4, a5⟩ := stopped_step s e s1 hpc hph hne hs
      obtain ⟨b1, b2, b3, b4, b5⟩ := ih h (fun hc => hnc (List.mem_cons_of_mem _ hc)) a1 a2
      refine ⟨b1, b2, b3.trans a3, b4.trans a4, ?_⟩
      intro e' he'
      rcases List.mem_cons.mp he' with rfl | hm
      · exact a5
      · exact b5 e' hm

/-- Main statement 2, from any `Good` state. -/
theorem complete_of_good {s0 s : Sys} {es : List Ev} (hg : Good s0) (h : run s0 es = some s)
    (hnc : Ev.create ∉ es) (hpc : s.pc = .stopped) :
    s.emitted.reverse = current s ∧
    ∀ es' s', Ev.create ∉ es' → run s es' = some s' →
      s'.pc = .stopped ∧ current s' = current s ∧ s'.emitted = s.emitted ∧ (∀ l, Ev.append l ∉ es') ∧ Ev.fol ∉ es' := by
  have hgs := Good_run h hnc hg
  obtain ⟨hph, hem⟩ := hgs.stop hpc
  refine ⟨hem, ?_⟩
  intro es' s' hnc' h'
  obtain ⟨a1, _, a3, a4, a5⟩ := stopped_run h' hnc' hpc hph
  refine ⟨a1, by simp [current, a3], a4, ?_, ?_⟩
  · intro l hl; rcases a5 _ hl with h | h <;> cases h
  · intro hl; rcases a5 _ hl with h | h <;> cases h

end RedoModel.LogFollow
