import RedoModel.Lemmas.DepsSoundRK0
/-!
Evidence (one evaluated instance, not a theorem about all histories) that a kill after a plain `redo-ifcreate`
declaration IS recovered from, although it replaces an `m` row by a `c` row exactly like the conditional declaration
of `DepsSoundRK0`: here the declaration changed because the .do file changed, and the killed build has already
re-stamped the .do file, so the target stays dirty.  (`redo-ifcreate` is outside `recoversRichK_partial` because the
invariant of the soundness proof, not the recovery, breaks.)
-/
namespace RedoModel.Deps.Rich
open RedoModel.Generated

/-- old script of target 2: `redo-ifchange 5; cat 5` -/
def icOld : Script := { ifchange := [[5]], reads := [5], tag := 1 }
/-- new script of target 2: `redo-ifcreate 5` -/
def icNew : Script := { ifcreate := [5], tag := 2 }

/-- Build 2 by the old script; edit the .do file 1 (new script), remove 5; rebuild killed at step 0 of the script of 2
(after `redo-ifcreate 5` replaced the row `(2, 5, m)` by `(2, 5, c)`). -/
def icOps : List UserOp :=
  [.setProg [17] icOld, .setProg [19] icNew, .write 5 0, .write 1 7, .cmd (.ifchange [2] false),
   .write 1 8, .remove 5, .crashCmd [2] 2 0]

/-- Status of the killed run; status and trace of the recovery run; what it leaves in 2. -/
def icSummary :=
  let w7 := (icOps.take 7).foldl (fun w op => (applyOp {} 2 op w).2) (initWorld cxRules)
  let k := applyOp {} 2 (.crashCmd [2] 2 0) w7
  let r := runCmd {} 2 (.ifchange [2] false) k.2
  (k.1.map (·.status), r.1.status, r.2.trace, contentOf r.2 2)

set_option linter.unusedSimpArgs false in
set_option maxRecDepth 8000 in
set_option maxHeartbeats 4000000 in
/-- The run is killed; the recovery run exits 0 and DOES run the script of 2 again (third `ran 2`): 2 holds the
output of the new script. -/
theorem ic_eval : icSummary = (some CRASHED, 0, [.ran 2, .ran 2, .ran 2], some [6]) := by
  unfold icSummary icOps icOld icNew cxRules contentOf
  simp only [List.take, List.foldl]
  eval_runR

end RedoModel.Deps.Rich
