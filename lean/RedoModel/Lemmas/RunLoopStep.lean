import RedoModel.RunLoop
/-! The transitions of the `RunLoop` acceptor as an inductive relation (`Step`), and `run` over lists.
Helper for Lemmas/RunLoopInv.lean and Lemmas/RunLoopLocks.lean. -/
namespace RedoModel.RunLoop

/-! ## `run` over lists -/

theorem run_nil (c : Cfg) (s : St) : run c s [] = .ok s := rfl

theorem run_cons_ok {c : Cfg} {s s' : St} {e : Ev} {es : List Ev} (h : run c s (e :: es) = .ok s') :
    ∃ s1, step c s e = .ok s1 ∧ run c s1 es = .ok s' := by
  simp only [run] at h
  split at h
  · cases h
  · rename_i s1 hs1; exact ⟨s1, hs1, h⟩

theorem run_append_ok {c : Cfg} {s s' : St} {es₁ es₂ : List Ev} (h : run c s (es₁ ++ es₂) = .ok s') :
    ∃ s1, run c s es₁ = .ok s1 ∧ run c s1 es₂ = .ok s' := by
  induction es₁ generalizing s with
  | nil => exact ⟨s, rfl, h⟩
  | cons e es ih =>
    obtain ⟨s1, h1, h2⟩ := run_cons_ok (es := es ++ es₂) h
    obtain ⟨s2, h3, h4⟩ := ih h2
    refine ⟨s2, ?_, h4⟩
    simp only [run, h1]; exact h3

/-- An invariant of single steps holds after every accepted run. -/
theorem run_inv {c : Cfg} (I : St → Prop) (hstep : ∀ s ev s', step c s ev = .ok s' → I s → I s')
    {s s' : St} {es : List Ev} (h : run c s es = .ok s') (hi : I s) : I s' := by
  induction es generalizing s with
  | nil => cases h; exact hi
  | cons e es ih =>
    obtain ⟨s1, h1, h2⟩ := run_cons_ok h
    exact ih h2 (hstep s e s1 h1 hi)

/-! ## The step relation: every accepted transition, one constructor each

`step c s ev = .ok s'` is equivalent to `Step c s ev s'`; the invariants below are proven by cases on `Step`.
The first loop accepts the events of `l1` also at `l1go` (a duplicate spelling was skipped), the second loop those of
`l2` also at `l2go` with nothing queued. -/

inductive Step (c : Cfg) (s : St) : Ev → St → Prop
  | l1JobEnd {f : Nat} {fail : Bool} (hf : f ∈ s.jobs) (hpc : s.pc = .l1) :
      Step c s (.jobEnd f fail)
        { s with jobs := s.jobs.erase f, errored := s.errored || fail, failed := s.failed || fail, pc := .l1 }
  | l1goJobEnd {f : Nat} {fail : Bool} (hf : f ∈ s.jobs) (hpc : s.pc = .l1go) :
      Step c s (.jobEnd f fail)
        { s with jobs := s.jobs.erase f, errored := s.errored || fail, failed := s.failed || fail, pc := .l1 }
  | l2JobEnd {f : Nat} {fail : Bool} (hf : f ∈ s.jobs) (hpc : s.pc = .l2) :
      Step c s (.jobEnd f fail)
        { s with jobs := s.jobs.erase f, errored := s.errored || fail, failed := s.failed || fail, pc := .l2 }
  | l2goJobEnd {f : Nat} {fail : Bool} (hf : f ∈ s.jobs) (hq : s.queue = []) (hpc : s.pc = .l2go) :
      Step c s (.jobEnd f fail)
        { s with jobs := s.jobs.erase f, errored := s.errored || fail, failed := s.failed || fail, pc := .l2 }
  | l1Tok (hpc : s.pc = .l1) :
      Step c s .tok
        { poll s with tokHeld := true, pc := .l1tok }
  | l1Bad (hpc : s.pc = .l1) :
      Step c s .badTarget
        { s with errored := true, failed := true, pc := .l2 }
  | l1goTok (hpc : s.pc = .l1go) :
      Step c s .tok
        { poll s with tokHeld := true, pc := .l1tok }
  | l1goBad (hpc : s.pc = .l1go) :
      Step c s .badTarget
        { s with errored := true, failed := true, pc := .l2 }
  | l1WaitAll (hj : s.jobs = []) (hpc : s.pc = .l1) :
      Step c s .waitAll
        { poll s with tokHeld := false, pc := .l2all }
  | l1Fin {ok : Bool} (hj : s.jobs = []) (hq : s.queue = []) (hok : ok = !((poll s).errored)) (hpc : s.pc = .l1) :
      Step c s (.fin ok)
        { poll s with pc := .ended ok }
  | l1goWaitAll (hj : s.jobs = []) (hpc : s.pc = .l1go) :
      Step c s .waitAll
        { poll s with tokHeld := false, pc := .l2all }
  | l1goFin {ok : Bool} (hj : s.jobs = []) (hq : s.queue = []) (hok : ok = !((poll s).errored)) (hpc : s.pc = .l1go) :
      Step c s (.fin ok)
        { poll s with pc := .ended ok }
  | l2WaitAll (hj : s.jobs = []) (hpc : s.pc = .l2) :
      Step c s .waitAll
        { poll s with tokHeld := false, pc := .l2all }
  | l2Fin {ok : Bool} (hj : s.jobs = []) (hq : s.queue = []) (hok : ok = !((poll s).errored)) (hpc : s.pc = .l2) :
      Step c s (.fin ok)
        { poll s with pc := .ended ok }
  | l2goWaitAll (hj : s.jobs = []) (hq0 : s.queue = []) (hpc : s.pc = .l2go) :
      Step c s .waitAll
        { poll s with tokHeld := false, pc := .l2all }
  | l2goFin {ok : Bool} (hj : s.jobs = []) (hq : s.queue = []) (hok : ok = !((poll s).errored)) (hq0 : s.queue = []) (hpc : s.pc = .l2go) :
      Step c s (.fin ok)
        { poll s with pc := .ended ok }
  | abort (hd : s.pc ≠ .drain) (he : ∀ ok, s.pc ≠ .ended ok) :
      Step c s .abort
        { s with aborted := true, held := [], pc := .drain }
  | l1tokStop (hs : stop c s = true) (hpc : s.pc = .l1tok) :
      Step c s (.chk s.errored)
        { s with pc := .l2 }
  | l1tokGo (hs : stop c s = false) (hpc : s.pc = .l1tok) :
      Step c s (.chk s.errored)
        { s with pc := .l1go }
  | l1goTarget {f : Nat} (hf : f ∉ s.seen) (hpc : s.pc = .l1go) :
      Step c s (.target f)
        { s with seen := f :: s.seen, pc := .l1lock f }
  | l1lockOk {f : Nat} (hpc : s.pc = .l1lock f) :
      Step c s (.tryLock f true)
        { s with held := f :: s.held, pc := .l1own f }
  | l1lockFail {f : Nat} (hpc : s.pc = .l1lock f) :
      Step c s (.tryLock f false)
        { s with queue := s.queue ++ [f], pc := .l1 }
  | l1ownBegin {f : Nat} (hpc : s.pc = .l1own f) :
      Step c s (.begin f)
        { s with started := f :: s.started, pc := .l1started f }
  | l1startedImmediate {f : Nat} {fail : Bool} (hpc : s.pc = .l1started f) :
      Step c s (.immediate f fail)
        { s with held := s.held.erase f, pending := s.pending || fail, failed := s.failed || fail, pc := .l1 }
  | l1startedForked {f : Nat} (hpc : s.pc = .l1started f) :
      Step c s (.forked f)
        { s with held := s.held.erase f, jobs := f :: s.jobs, tokHeld := false, pc := .l1 }
  | l2startedImmediate {f : Nat} {fail : Bool} (hpc : s.pc = .l2started f) :
      Step c s (.immediate f fail)
        { s with held := s.held.erase f, pending := s.pending || fail, failed := s.failed || fail, pc := .l2 }
  | l2startedForked {f : Nat} (hpc : s.pc = .l2started f) :
      Step c s (.forked f)
        { s with held := s.held.erase f, jobs := f :: s.jobs, tokHeld := false, pc := .l2 }
  | l2allStop (hs : stop c s = true) (hpc : s.pc = .l2all) :
      Step c s (.chk s.errored)
        { s with pc := .drain }
  | l2allGo (hs : stop c s = false) (hpc : s.pc = .l2all) :
      Step c s (.chk s.errored)
        { s with pc := .l2go }
  | l2goTok {f : Nat} {rest : List Nat} (hq : s.queue = f :: rest) (hpc : s.pc = .l2go) :
      Step c s .tok
        { s with queue := rest, tokHeld := true, pc := .l2try f }
  | l2tryOk {f : Nat} (hpc : s.pc = .l2try f) :
      Step c s (.tryLock f true)
        { s with held := f :: s.held, pc := .l2own f }
  | l2tryFail {f : Nat} (hpc : s.pc = .l2try f) :
      Step c s (.tryLock f false)
        { s with pc := .l2rel f }
  | l2relRelease {f : Nat} (hpc : s.pc = .l2rel f) :
      Step c s .releaseMine
        { s with tokHeld := false, pc := .l2wait f }
  | l2waitWaited {f : Nat} (hpc : s.pc = .l2wait f) :
      Step c s (.waited f)
        { s with held := f :: s.held, pc := .l2got f }
  | l2gotUnlock {f : Nat} (hpc : s.pc = .l2got f) :
      Step c s (.unlock f)
        { s with held := s.held.erase f, pc := .l2retok f }
  | l2retokTok {f : Nat} (hpc : s.pc = .l2retok f) :
      Step c s .tok
        { s with tokHeld := true, pc := .l2try f }
  | l2ownElsewhere {f : Nat} (hpc : s.pc = .l2own f) :
      Step c s (.failedElsewhere f)
        { s with held := s.held.erase f, errored := true, failed := true, elsewhere := f :: s.elsewhere, pc := .l2 }
  | l2ownBegin {f : Nat} (hpc : s.pc = .l2own f) :
      Step c s (.begin f)
        { s with started := f :: s.started, pc := .l2started f }
  | drainJobEnd {f : Nat} {fail : Bool} (hf : f ∈ s.jobs) (hpc : s.pc = .drain) :
      Step c s (.jobEnd f fail)
        { s with jobs := s.jobs.erase f, errored := s.errored || fail, failed := s.failed || fail }
  | drainFin {ok : Bool} (hj : s.jobs = []) (hok : ok = (!((poll s).errored) && !s.aborted)) (hpc : s.pc = .drain) :
      Step c s (.fin ok)
        { poll s with pc := .ended ok }

macro "pick_step" : tactic => `(tactic| (
  first
  | (apply Step.l1JobEnd <;> simp_all [poll] <;> done)
  | (apply Step.l1goJobEnd <;> simp_all [poll] <;> done)
  | (apply Step.l2JobEnd <;> simp_all [poll] <;> done)
  | (apply Step.l2goJobEnd <;> simp_all [poll] <;> done)
  | (apply Step.l1Tok <;> simp_all [poll] <;> done)
  | (apply Step.l1Bad <;> simp_all [poll] <;> done)
  | (apply Step.l1goTok <;> simp_all [poll] <;> done)
  | (apply Step.l1goBad <;> simp_all [poll] <;> done)
  | (apply Step.l1WaitAll <;> simp_all [poll] <;> done)
  | (apply Step.l1Fin <;> simp_all [poll] <;> done)
  | (apply Step.l1goWaitAll <;> simp_all [poll] <;> done)
  | (apply Step.l1goFin <;> simp_all [poll] <;> done)
  | (apply Step.l2WaitAll <;> simp_all [poll] <;> done)
  | (apply Step.l2Fin <;> simp_all [poll] <;> done)
  | (apply Step.l2goWaitAll <;> simp_all [poll] <;> done)
  | (apply Step.l2goFin <;> simp_all [poll] <;> done)
  | (apply Step.abort <;> simp_all [poll] <;> done)
  | (apply Step.l1tokStop <;> simp_all [poll] <;> done)
  | (apply Step.l1tokGo <;> simp_all [poll] <;> done)
  | (apply Step.l1goTarget <;> simp_all [poll] <;> done)
  | (apply Step.l1lockOk <;> simp_all [poll] <;> done)
  | (apply Step.l1lockFail <;> simp_all [poll] <;> done)
  | (apply Step.l1ownBegin <;> simp_all [poll] <;> done)
  | (apply Step.l1startedImmediate <;> simp_all [poll] <;> done)
  | (apply Step.l1startedForked <;> simp_all [poll] <;> done)
  | (apply Step.l2startedImmediate <;> simp_all [poll] <;> done)
  | (apply Step.l2startedForked <;> simp_all [poll] <;> done)
  | (apply Step.l2allStop <;> simp_all [poll] <;> done)
  | (apply Step.l2allGo <;> simp_all [poll] <;> done)
  | (apply Step.l2goTok <;> simp_all [poll] <;> done)
  | (apply Step.l2tryOk <;> simp_all [poll] <;> done)
  | (apply Step.l2tryFail <;> simp_all [poll] <;> done)
  | (apply Step.l2relRelease <;> simp_all [poll] <;> done)
  | (apply Step.l2waitWaited <;> simp_all [poll] <;> done)
  | (apply Step.l2gotUnlock <;> simp_all [poll] <;> done)
  | (apply Step.l2retokTok <;> simp_all [poll] <;> done)
  | (apply Step.l2ownElsewhere <;> simp_all [poll] <;> done)
  | (apply Step.l2ownBegin <;> simp_all [poll] <;> done)
  | (apply Step.drainJobEnd <;> simp_all [poll] <;> done)
  | (apply Step.drainFin <;> simp_all [poll] <;> done)
  ))

/-- Every accepted step is one of the transitions of `Step`. -/
theorem step_Step {c : Cfg} {s s' : St} {ev : Ev} (h : step c s ev = .ok s') : Step c s ev s' := by
  cases ev <;> (unfold step at h; split at h)
  all_goals (try simp only [stepL1, stepL2, stepStarted] at h)
  all_goals (repeat' split at h)
  all_goals (try cases h)
  all_goals (try (simp only [ne_eq, Decidable.not_not, Bool.not_eq_true] at *))
  all_goals (try subst_vars)
  all_goals pick_step

end RedoModel.RunLoop
