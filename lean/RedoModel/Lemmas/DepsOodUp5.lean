import RedoModel.Lemmas.DepsOodUp4
/-!
# redo-ood, upper bound — part 5: the members of a `need` verdict

Without any assumption on fuel: a file with a `PC` derivation is never reported `dirty` or `need _` by redo-ood's
walk (only `clean`, or `cyclic` when the fuel runs out); and every member of a `need ts` verdict for `f` is a file
below `f` (along `m` rows) that has a recorded checksum and no `PC` derivation under any bound — a checksummed
target that needs rebuilding.
-/
namespace RedoModel.Deps

theorem goDeps_ood_cc (w : World) (R : Nat) (chk : World → List Nat → Nat → Rec → DR × World × List Nat)
    (hasCsum : Bool) (f : Nat) :
    ∀ (ds : List (Dep × Rec)) (w' : World) (cache : List Nat), OInv w w' R →
      (∀ p ∈ ds, (p.1.modeM = true → ∀ w'' c, OInv w w'' R →
            ((chk w'' c p.1.source p.2).1 = .clean ∨ (chk w'' c p.1.source p.2).1 = .cyclic) ∧
            OInv w (chk w'' c p.1.source p.2).2.1 R) ∧
          (p.1.modeM = false → existsF w p.1.source = false)) →
      (goDeps chk hasCsum f ds w' cache []).1 = none ∨ (goDeps chk hasCsum f ds w' cache []).1 = some .cyclic
  | [], w', cache, _, _ => by rw [goDeps]; exact Or.inl rfl
  | (d, snap) :: ds, w', cache, hi, hds => by
    have hds' : ∀ p ∈ ds, _ := fun p hp => hds p (List.mem_cons_of_mem _ hp)
    have h0 := hds (d, snap) List.mem_cons_self
    rw [goDeps]
    by_cases hm : d.modeM = true
    · simp only [hm, if_true]
      have h1 := h0.1 hm w' cache hi
      generalize chk w' cache d.source snap = r at h1
      obtain ⟨sub, w1, c1⟩ := r
      obtain ⟨hcl, hi1⟩ := h1
      dsimp only at hcl hi1 ⊢
      rcases hcl with hcl | hcl <;> subst hcl
      · exact goDeps_ood_cc w R chk hasCsum f ds w1 c1 hi1 hds'
      · exact Or.inr rfl
    · simp only [hm, Bool.false_eq_true, if_false]
      have hex : existsF w' d.source = false := by
        rw [hi.toOod.ex]; exact h0.2 (by simpa using hm)
      simp only [hex, Bool.false_eq_true, if_false]
      exact goDeps_ood_cc w R chk hasCsum f ds w' cache hi hds'

/-- A file with a `PC` derivation is reported clean — or the walk gives up; never dirty, never `need _`. -/
theorem isDirty_ood_cc (w : World) (R : Nat) {f mx : Nat} (h : PC w R f mx) :
    ∀ (fuel : Nat) (w' : World) (cache seen : List Nat) (pre : Option Rec),
      OInv w w' R → (∀ s, pre = some s → ORec w R f s) →
      (isDirty true R fuel w' cache f mx seen pre).1 = .clean ∨ (isDirty true R fuel w' cache f mx seen pre).1 = .cyclic := by
  induction h with
  | mk f mx ch hfail hch hle hst hm hc ih =>
    intro fuel w' cache seen pre hi hpre
    cases fuel with
    | zero => rw [isDirty]; exact Or.inr rfl
    | succ fuel =>
    have hr : ORec w R f (pre.getD (getRec w' R f)) := by
      cases pre with
      | none => exact hi.recOk f
      | some s => exact hpre s rfl
    have hre : pre.getD (getRec w' R f) = getRec w R f := by
      rcases hr with h | h
      · exact h
      · exact absurd hst h.2
    by_cases hns : f ∈ seen
    · rw [isDirty]; simp only [hns, if_true]; exact Or.inr trivial
    simp (config := { zeta := true, zetaHave := true }) only [isDirty, ↓reduceIte, hns, hre]
    have hrs : (getRec w R f).stamp = some (readStamp w' f) := by rw [hi.toOod.rs]; exact hst
    simp only [hfail, Option.isSome_none, Bool.false_eq_true, if_false, hch]
    have hgt : ¬ ch > mx := by omega
    simp only [hgt, if_false]
    split
    · exact Or.inl rfl
    simp only [hrs, ne_eq, not_true_eq_false, if_false]
    have hgd := goDeps_ood_cc w R
      (fun w2 cache s snap => isDirty true R fuel w2 cache s (max ch ((getRec w R f).checked.getD 0)) (f :: seen) (some snap))
      (getRec w R f).csum.isSome f (depsWithRecs w' R (getRec w R f) f) w' cache hi
      (by
        intro p hp
        simp only [depsWithRecs, List.mem_map] at hp
        obtain ⟨d, hd, rfl⟩ := hp
        rw [hi.toOod.dp] at hd
        refine ⟨fun hmode w'' c hi'' => ⟨?_, ?_⟩, fun hmode => hc d hd hmode⟩
        · exact ih d hd hmode fuel w'' c (f :: seen) (some (getRec w' R d.source)) hi''
            (fun s hs => by cases hs; exact hi.recOk d.source)
        · exact isDirty_ood_oinv w R fuel w'' c d.source _ (f :: seen) _ hi''
            (fun s hs => by cases hs; exact hi.recOk d.source))
    generalize goDeps _ (getRec w R f).csum.isSome f (depsWithRecs w' R (getRec w R f) f) w' cache [] = gr at hgd
    obtain ⟨o, w2, c2⟩ := gr
    dsimp only at hgd
    rcases hgd with ho | ho <;> subst ho
    · exact Or.inl rfl
    · exact Or.inr rfl

/-- `x` lies below `f` along recorded `m` rows (of files redo owns). -/
inductive MReach (w : World) (R : Nat) : Nat → Nat → Prop
  | refl (f : Nat) : MReach w R f f
  | step {s f x : Nat} : Chld w R s f → MReach w R s x → MReach w R f x

/-- A checksummed target that needs rebuilding. -/
def NeedOk (w : World) (R x : Nat) : Prop := (getRec w R x).csum.isSome = true ∧ ∀ mx, ¬ PC w R x mx

/-- What the recursive call must guarantee. -/
def ChkNeed (w : World) (R mx' : Nat) (chk : World → List Nat → Nat → Rec → DR × World × List Nat) : Prop :=
  ∀ w' cache s snap, OInv w w' R → ORec w R s snap →
    OInv w (chk w' cache s snap).2.1 R ∧ ((chk w' cache s snap).1 = .dirty → ¬ PC w R s mx') ∧
    ∀ ts, (chk w' cache s snap).1 = .need ts → ∀ x ∈ ts, MReach w R s x ∧ NeedOk w R x

theorem goDeps_ood_need (w : World) (R mx' : Nat) (chk : World → List Nat → Nat → Rec → DR × World × List Nat)
    (hchk : ChkNeed w R mx' chk) (hasCsum : Bool) (f : Nat) :
    ∀ (ds : List (Dep × Rec)) (w' : World) (cache must : List Nat), OInv w w' R →
      (∀ p ∈ ds, ORec w R p.1.source p.2) →
      ∀ ts, (goDeps chk hasCsum f ds w' cache must).1 = some (.need ts) → ∀ x ∈ ts,
        x ∈ must ∨ (∃ p ∈ ds, p.1.modeM = true ∧ MReach w R p.1.source x ∧ NeedOk w R x) ∨
        (x = f ∧ hasCsum = true ∧ ∃ p ∈ ds, (p.1.modeM = true ∧ ¬ PC w R p.1.source mx') ∨
          (p.1.modeM = false ∧ existsF w p.1.source = true))
  | [], w', cache, must, _, _, ts, h, x, hx => by
    rw [goDeps] at h
    split at h
    · cases h
    · cases h; exact Or.inl hx
  | (d, snap) :: ds, w', cache, must, hi, hds, ts, h, x, hx => by
    have hds' : ∀ p ∈ ds, ORec w R p.1.source p.2 := fun p hp => hds p (List.mem_cons_of_mem _ hp)
    have lift : ∀ must' : List Nat, (x ∈ must' ∨ (∃ p ∈ ds, p.1.modeM = true ∧ MReach w R p.1.source x ∧ NeedOk w R x) ∨
        (x = f ∧ hasCsum = true ∧ ∃ p ∈ ds, (p.1.modeM = true ∧ ¬ PC w R p.1.source mx') ∨
          (p.1.modeM = false ∧ existsF w p.1.source = true))) →
        (x ∈ must' ∨ (∃ p ∈ (d, snap) :: ds, p.1.modeM = true ∧ MReach w R p.1.source x ∧ NeedOk w R x) ∨
        (x = f ∧ hasCsum = true ∧ ∃ p ∈ (d, snap) :: ds, (p.1.modeM = true ∧ ¬ PC w R p.1.source mx') ∨
          (p.1.modeM = false ∧ existsF w p.1.source = true))) := by
      rintro must' (h | ⟨p, hp, h⟩ | ⟨h1, h2, p, hp, h⟩)
      · exact Or.inl h
      · exact Or.inr (Or.inl ⟨p, List.mem_cons_of_mem _ hp, h⟩)
      · exact Or.inr (Or.inr ⟨h1, h2, p, List.mem_cons_of_mem _ hp, h⟩)
    rw [goDeps] at h
    by_cases hm : d.modeM = true
    · simp only [hm, if_true] at h
      have h1 := hchk w' cache d.source snap hi (hds (d, snap) List.mem_cons_self)
      generalize chk w' cache d.source snap = r at h1 h
      obtain ⟨sub, w1, c1⟩ := r
      obtain ⟨hi1, hdirty, hneed⟩ := h1
      dsimp only at hi1 hdirty hneed h
      cases sub with
      | cyclic => cases h
      | dirty =>
        dsimp only at h
        cases hasCsum with
        | false => cases h
        | true =>
          simp only [if_true, Option.some.injEq, DR.need.injEq] at h
          subst h
          simp only [List.mem_singleton] at hx
          exact Or.inr (Or.inr ⟨hx, rfl, (d, snap), List.mem_cons_self, Or.inl ⟨hm, hdirty rfl⟩⟩)
      | clean => exact lift _ (goDeps_ood_need w R mx' chk hchk hasCsum f ds w1 c1 must hi1 hds' ts h x hx)
      | need ts' =>
        have := goDeps_ood_need w R mx' chk hchk hasCsum f ds w1 c1 (must ++ ts') hi1 hds' ts h x hx
        rcases this with hmem | hrest
        · rcases List.mem_append.1 hmem with hmem | hmem
          · exact Or.inl hmem
          · exact Or.inr (Or.inl ⟨(d, snap), List.mem_cons_self, hm, hneed ts' rfl x hmem⟩)
        · exact lift [] (Or.inr hrest) |>.resolve_left (by simp) |> Or.inr
    · simp only [hm, Bool.false_eq_true, if_false] at h
      by_cases hex : existsF w' d.source = true
      · simp only [hex, if_true] at h
        cases hasCsum with
        | false => cases h
        | true =>
          simp only [if_true, Option.some.injEq, DR.need.injEq] at h
          subst h
          simp only [List.mem_singleton] at hx
          refine Or.inr (Or.inr ⟨hx, rfl, (d, snap), List.mem_cons_self, Or.inr ⟨by simpa using hm, ?_⟩⟩)
          rw [← hi.toOod.ex]; exact hex
      · simp only [hex, Bool.false_eq_true, if_false] at h
        exact lift _ (goDeps_ood_need w R mx' chk hchk hasCsum f ds w' cache must hi hds' ts h x hx)

end RedoModel.Deps
