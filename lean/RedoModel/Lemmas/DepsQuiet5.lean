import RedoModel.Lemmas.DepsQuiet4
/-! C02, converse direction, over rich histories from the empty project. -/
namespace RedoModel.Deps.Rich
open RedoModel.Generated

/-- After any rich history, a successful `redo-ifchange ts` / `redo ts` whose recorded closure holds no `//ALWAYS` row,
then any activity of the user that is unrelated to that closure: `redo-ifchange ts` exits 0, executes nothing and
touches no file. -/
theorem unrelatedChangeQuiet (n : Nat) (rules : Nat → List Nat) (rank : Nat → Nat) (ops : List UserOp) (ts : List Nat)
    (kg forced : Bool) (hr : RulesOk rules) (hp : ∀ op ∈ ops, RichOp rules op)
    (hrk : ∀ w ∈ worldsOf n {} (initWorld rules) ops, RankedR rank w) (hN : ∀ f, rank f < n)
    (hok : OpsOkW n (initWorld rules) ops) (hts0 : ∀ t ∈ ts, t ≠ alwaysId) (us : List UserOp) (kg2 : Bool) :
    let w := ops.foldl (fun w op => (applyOp {} n op w).2) (initWorld rules)
    let r1 := runCmd {} n (if forced then .redo ts kg else .ifchange ts kg) w
    r1.1.status = 0 → ¬ RecReach r1.2 ts alwaysId → (∀ u ∈ us, Unrelated (RecReach r1.2 ts) u) →
    let w2 := us.foldl (fun w op => (applyOp {} n op w).2) r1.2
    let r2 := runCmd {} n (.ifchange ts kg2) { w2 with trace := [] }
    r2.1.status = 0 ∧ (∀ t, Ev.ran t ∉ r2.2.trace) ∧ r2.2.fs = w2.fs := by
  intro w r1 hz hna hus w2 r2
  have h0 : Btw rank (initWorld rules) := Btw_init hr (hrk _ (worldsOf_head n {} _ ops))
  obtain ⟨hb, _⟩ := history_btw hN ops (initWorld rules) h0 rfl hp hrk hok
  obtain ⟨a1, a2, a3⟩ := second_run_quiet hN hb ts kg forced hts0 hz hna us hus kg2 []
  exact ⟨a1, fun t ht => by simpa using a2 t ht, a3⟩

/-- The immediately repeated command. -/
theorem repeatQuiet (n : Nat) (rules : Nat → List Nat) (rank : Nat → Nat) (ops : List UserOp) (ts : List Nat)
    (kg forced : Bool) (hr : RulesOk rules) (hp : ∀ op ∈ ops, RichOp rules op)
    (hrk : ∀ w ∈ worldsOf n {} (initWorld rules) ops, RankedR rank w) (hN : ∀ f, rank f < n)
    (hok : OpsOkW n (initWorld rules) ops) (hts0 : ∀ t ∈ ts, t ≠ alwaysId) (kg2 : Bool) :
    let w := ops.foldl (fun w op => (applyOp {} n op w).2) (initWorld rules)
    let r1 := runCmd {} n (if forced then .redo ts kg else .ifchange ts kg) w
    r1.1.status = 0 → ¬ RecReach r1.2 ts alwaysId →
    let r2 := runCmd {} n (.ifchange ts kg2) { r1.2 with trace := [] }
    r2.1.status = 0 ∧ (∀ t, Ev.ran t ∉ r2.2.trace) ∧ r2.2.fs = r1.2.fs := by
  intro w r1 hz hna
  exact unrelatedChangeQuiet n rules rank ops ts kg forced hr hp hrk hN hok hts0 [] kg2 hz hna (fun u hu => by simp at hu)

/-- To bound a recorded closure of a concrete world: a list closed under the rows that contains the targets. -/
theorem RecReach.sub {w : World} {ts : List Nat} (L : List Nat) (hts : ∀ t ∈ ts, t ∈ L)
    (hstep : ∀ d ∈ w.deps, d.target ∈ L → d.source ∈ L) {f : Nat} (h : RecReach w ts f) : f ∈ L := by
  induction h with
  | base ht => exact hts _ ht
  | step _ hd ht ih => exact hstep _ hd (ht ▸ ih)

/-- No row at all leads to `f`, and `f` is not a target of the command: `f` is outside the recorded closure. -/
theorem not_recReach_of_no_row {w : World} {ts : List Nat} {f : Nat} (hts : f ∉ ts)
    (hrow : ∀ d ∈ w.deps, d.source ≠ f) : ¬ RecReach w ts f := by
  intro h
  cases h with
  | base ht => exact hts ht
  | step _ hd _ => exact hrow _ hd rfl

end RedoModel.Deps.Rich
