import RedoModel.Lemmas.DepsOk3
/-!
# C09 — a script whose declared inputs are buildable, whose `redo-ifcreate` objects are absent and whose own
exit conditions are clean, exits 0
-/
namespace RedoModel.Deps.Rich
open RedoModel.Generated

theorem rsAlways_fs (cx : Ctx) (t : Nat) (sc : Script) (w : World) : (rsAlways cx t sc w).fs = w.fs := by
  unfold rsAlways
  split
  · exact addDep_fs w t alwaysId true
  · rfl

theorem noFail_foldl_addDep {R : Nat} (t : Nat) (m : Bool) : ∀ (fs : List Nat) (w : World), NoFail R w →
    NoFail R (fs.foldl (fun w f => addDep w t f m) w)
  | [], _, h => h
  | f :: fs, w, h => by
    rw [List.foldl_cons]
    exact noFail_foldl_addDep t m fs _ (noFail_addDep h t f m)

theorem runScript_succ {rank R k E t w4} {cx : Ctx} {X : Nat → Prop} {sc : Script} (hE : EOk rank R k E) (d : Defects)
    (hcx : cx.runid = R) (hcrash : cx.crash = none) (hXa : ∀ x, X x → rank t < rank x)
    (hi4 : Inv rank R (addX X t) w4) (hng4 : ¬ Good w4 R t) (hra : sc.Rich) (hn4 : NoFail R w4)
    (hrk1 : sc.always = true → rank alwaysId < rank t)
    (hrk2 : ∀ d, (d ∈ sc.ifchange.flatten ∨ d ∈ sc.cond ∨ d ∈ sc.ifcreate) → rank d < rank t ∧ d ≠ alwaysId)
    (hrk3 : ∀ d, (d ∈ sc.cond ∨ d ∈ sc.ifcreate) → w4.rules d = [])
    (hcyc : ∀ c ∈ cx.cycles, rank t < rank c) (hk : rank t < k)
    (hB1 : ∀ d ∈ sc.ifchange.flatten, Buildable w4 d) (hB2 : ∀ d ∈ sc.cond, existsF w4 d = true → Buildable w4 d)
    (hB3 : ∀ d ∈ sc.ifcreate, existsF w4 d = false) (hex : sc.exit = 0) (hfn : failNowOf w4 sc = false) :
    (runScript E d cx t sc w4).1 = 0 := by
  have hXt : addX X t t := Or.inr rfl
  have hXa' : ∀ x, addX X t x → rank t ≤ rank x :=
    fun x hx => hx.elim (fun h => Nat.le_of_lt (hXa x h)) (fun h => by rw [h]; exact Nat.le_refl _)
  have hcyc' : ∀ c ∈ (childCx cx t).cycles, rank t ≤ rank c := by
    intro c hc
    rcases List.mem_cons.1 hc with rfl | hc
    · exact Nat.le_refl _
    · exact Nat.le_of_lt (hcyc c hc)
  rw [runScript_eq]
  obtain ⟨b1, b2, _, _, b5⟩ := rsAlways_spec (cx := cx) sc hcx hi4 hXt hng4 hrk1
  have hngA : ¬ Good (rsAlways cx t sc w4) R t := fun h => hng4 (((b2.sameT (Nat.le_refl _)).good R).1 h)
  have hic : sc.ifcreate.any (fun f => existsF (rsAlways cx t sc w4) f) = false := by
    rw [List.any_eq_false]
    intro x hx
    rw [existsF_congr (congrFun (rsAlways_fs cx t sc w4) x), hB3 x hx]; simp
  simp only [hic, Bool.false_eq_true, if_false]
  show (rsBody E cx t sc (declareC t sc.ifcreate (rsAlways cx t sc w4))).1 = 0
  obtain ⟨c1, c2, _, _⟩ := declareC_spec (rank := rank) (R := R) hXt sc.ifcreate (rsAlways cx t sc w4) b1 hngA
    (fun x hx => ⟨hrk2 x (Or.inr (Or.inr hx)), (by rw [b2.rules]; exact hrk3 x (Or.inr hx))⟩)
  have htrI : Tr w4 (declareC t sc.ifcreate (rsAlways cx t sc w4)) :=
    ⟨(rsAlways_frU cx t sc w4).trans (frU_foldl_addDep t false _ _),
     (rsAlways_keepsUser cx t sc w4).trans (SameOwn.foldl_addDep t false sc.ifcreate _).keeps⟩
  have hnI : NoFail R (declareC t sc.ifcreate (rsAlways cx t sc w4)) := noFail_foldl_addDep t false _ _ (b5 hn4)
  have hfsI : (declareC t sc.ifcreate (rsAlways cx t sc w4)).fs = w4.fs := c2.fs.trans (rsAlways_fs cx t sc w4)
  have hruI : (declareC t sc.ifcreate (rsAlways cx t sc w4)).rules = w4.rules := c2.rules.trans b2.rules
  generalize declareC t sc.ifcreate (rsAlways cx t sc w4) = wI at c1 c2 htrI hnI hfsI hruI ⊢
  have hngI : ¬ Good wI R t := fun h => hngA ((c2.good R t).1 h)
  rw [rsBody_rich _ _ _ _ _ hra.1]
  have hcr : ∀ x ∈ sc.cond, (rank x < rank t ∧ x ≠ alwaysId) ∧ wI.rules x = [] :=
    fun x hx => ⟨hrk2 x (Or.inr (Or.inl hx)), (by rw [hruI]; exact hrk3 x (Or.inl hx))⟩
  have cp := conds_spec (cx' := childCx cx t) hE.spec hcx rfl rfl hcrash rfl hXt hXa' sc.cond wI c1 hngI hcr
  have hz1 := conds_succ (cx' := childCx cx t) hE hcx rfl rfl hcrash rfl hXt hXa' hcyc' hk sc.cond wI c1 hngI hcr hnI
    (fun x hx hxe => (hB2 x hx (by rw [← existsF_congr (congrFun hfsI x)]; exact hxe)).tr hi4.base htrI)
  have htrC : Tr wI (runScript.conds E t (childCx cx t) sc.cond wI).2 :=
    ⟨conds_frU E hE.fr t _ _ _, conds_keepsUser E hE.keeps t _ _ _⟩
  generalize runScript.conds E t (childCx cx t) sc.cond wI = rc at cp hz1 htrC ⊢
  obtain ⟨rvc, wC⟩ := rc
  dsimp only at hz1 htrC
  subst hz1
  simp only [ne_eq, not_true_eq_false, if_false]
  have hngC : ¬ Good wC R t := fun h => hngI (((cp.bext.sameT (Nat.le_refl _)).good R).1 h)
  have hnC : NoFail R wC := cp.noFail hnI rfl
  have hcm : ∀ c ∈ sc.ifchange, ∀ x ∈ c, rank x < rank t ∧ x ≠ alwaysId :=
    fun c hc x hx => hrk2 x (Or.inl (List.mem_flatten.2 ⟨c, hc, hx⟩))
  have hz2 := cmds_succ (cx := cx) (cx' := childCx cx t) hE hcx rfl rfl hcrash rfl hcrash hXt hXa' hcyc' hk
    sc.ifchange 0 wC cp.inv hngC hcm hnC
    (fun c hc x hx => (hB1 x (List.mem_flatten.2 ⟨c, hc, hx⟩)).tr hi4.base (htrI.trans htrC))
  have hfr5 : FrU wC (runScript.cmds E cx t (childCx cx t) sc.ifchange 0 wC).2 := cmds_frU E hE.fr cx t _ _ _ _
  generalize runScript.cmds E cx t (childCx cx t) sc.ifchange 0 wC = r at hz2 hfr5 ⊢
  obtain ⟨rv, w5⟩ := r
  dsimp only at hz2 hfr5
  subst hz2
  have hfn5 : failNowOf w5 sc = false :=
    failNow_tr hi4.base.rulesOk ((htrI.trans htrC).1.trans hfr5) sc hfn
  unfold scriptEnd
  simp only [ne_eq, not_true_eq_false, if_false, hfn5, Bool.false_eq_true, hex]
  rfl

/-- The run of the script chosen by `findDoFile` (world `w2`), when the script's conditions hold in `w2`. -/
theorem ssb_run_succ {rank R k E t dof w2} {cx : Ctx} {X : Nat → Prop} (hE : EOk rank R k E) (d : Defects)
    (hcx : cx.runid = R) (hcrash : cx.crash = none) (hi2 : Inv rank R (addX X t) w2) (hng2 : ¬ Good w2 R t)
    (hXa : ∀ x, X x → rank t < rank x) (hdm : dof ∈ w2.rules t) (hdex : existsF w2 dof = true)
    (hcyc : ∀ c ∈ cx.cycles, rank t < rank c) (hk : rank t < k) (hn2 : NoFail R w2)
    (hB1 : ∀ d ∈ (scriptAt w2 dof).ifchange.flatten, Buildable w2 d)
    (hB2 : ∀ d ∈ (scriptAt w2 dof).cond, existsF w2 d = true → Buildable w2 d)
    (hB3 : ∀ d ∈ (scriptAt w2 dof).ifcreate, existsF w2 d = false) (hex : (scriptAt w2 dof).exit = 0)
    (hfn : failNowOf w2 (scriptAt w2 dof) = false) :
    (runScript E d cx t (scriptAt (startW w2 R t dof) dof) (startW w2 R t dof)).1 = 0 := by
  have hdP : w2.rules dof = [] := (hi2.base.rulesOk.2 t dof hdm).1
  have hdlt : rank dof < rank t := hi2.base.ranked.1 t dof hdm
  obtain ⟨hi3, _, hb3, hn3⟩ := setStatic_spec (b := rank t) (po := some t) hi2 hdex
    (hi2.base.srcNotGen dof hdP) hdlt
  have htr : Tr w2 (startW w2 R t dof) := by
    refine ⟨FrU.of_fs rfl rfl rfl, (KeepsUser.setRec w2 dof _ (fun ho => ?_)).trans (SameOwn.ev _ _).keeps⟩
    exact ⟨ho.1, Or.inl (by simp [setRec, setStatic])⟩
  have hsc : scriptAt (startW w2 R t dof) dof = scriptAt w2 dof := scriptAt_congr (w := w2) rfl rfl
  have hfs : (startW w2 R t dof).fs = w2.fs := rfl
  have hfn4 : failNowOf (startW w2 R t dof) (scriptAt w2 dof) = false := hfn
  unfold startW at htr hsc hfs hfn4 ⊢
  generalize setRec w2 dof (setStatic w2 dof (w2.recs dof) R) = w3 at hi3 hb3 hn3 htr hsc hfs hfn4 ⊢
  have e4 := WEqv.ev w3 (.ran t)
  have hi4 := e4.inv hi3
  have hb4 : BExt rank R (rank t) (some t) w2 (ev w3 (.ran t)) := hb3.trans e4.toBExt
  have hng4 : ¬ Good (ev w3 (.ran t)) R t := fun h => hng2 (((hb4.sameT (Nat.le_refl _)).good R).1 h)
  have hdm4 : dof ∈ (ev w3 (.ran t)).rules t := by rw [hb4.rules]; exact hdm
  have hra := scriptAt_rich hi4.base dof
  obtain ⟨hrk1, hrk2, hrk3⟩ := scriptAt_hyg hi4.base hdm4
  refine runScript_succ hE d hcx hcrash hXa hi4 hng4 hra ((hn3 hn2).eqv e4) hrk1 hrk2 hrk3 hcyc hk ?_ ?_ ?_ ?_ ?_
  · rw [hsc]; exact fun x hx => (hB1 x hx).tr hi2.base htr
  · rw [hsc]; exact fun x hx hxe => (hB2 x hx (by rw [← existsF_congr (congrFun hfs x)]; exact hxe)).tr hi2.base htr
  · rw [hsc]; exact fun x hx => by rw [existsF_congr (congrFun hfs x)]; exact hB3 x hx
  · rw [hsc]; exact hex
  · rw [hsc]; exact hfn4

end RedoModel.Deps.Rich
