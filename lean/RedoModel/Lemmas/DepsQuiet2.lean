import RedoModel.Lemmas.DepsQuiet1
import RedoModel.Lemmas.DepsTrace
/-! A command over members of a settled set runs nothing: `shouldBuild`, `buildJob`, `runTargets`. -/
namespace RedoModel.Deps.Rich
open RedoModel.Generated

/-- A settled set stays settled in a world that agrees on what `QAt` looks at. -/
theorem QSet.congr {rank R S w w'} (hq : QSet rank R S w) (hdeps : w'.deps = w.deps)
    (hfl : ∀ x, S x → (w'.recs x).failed = (w.recs x).failed)
    (hch : ∀ x, S x → (w'.recs x).changed = (w.recs x).changed)
    (hck : ∀ x, S x → (w'.recs x).checked = (w.recs x).checked)
    (hst : ∀ x, S x → (w'.recs x).stamp = (w.recs x).stamp)
    (hg : ∀ x, S x → (w'.recs x).isGenerated = (w.recs x).isGenerated)
    (ho : ∀ x, S x → (w'.recs x).isOverride = (w.recs x).isOverride)
    (hfs : ∀ f, (S f ∨ ∃ d ∈ w.deps, d.modeM = false ∧ S d.target ∧ genT (w.recs d.target) = true ∧ d.source = f) →
      w'.fs f = w.fs f) : QSet rank R S w' := by
  refine ⟨fun f hf => ?_, by rw [hdeps]; exact hq.rowsLt⟩
  have hqa := hq.mem f hf
  have hgt : genT (w'.recs f) = genT (w.recs f) := genT_congr (hg f hf) (ho f hf)
  refine ⟨hqa.ne0, by rw [hfl f hf]; exact hqa.failed, by rw [hch f hf]; exact hqa.ch, ?_, fun h => ?_, fun h d hd => ?_,
    fun h d hd ht hm => ?_⟩
  · rw [hst f hf, readStamp_congr (hfs f (Or.inl hf))]; exact hqa.stamp
  · have := hqa.mof (by rw [← hgt]; exact h)
    unfold Mof at *; rw [hch f hf, hck f hf]; exact this
  · rw [hdeps] at hd; exact hqa.rowsM (by rw [← hgt]; exact h) d hd
  · rw [hdeps] at hd
    have hgw : genT (w.recs f) = true := by rw [← hgt]; exact h
    rw [existsF_congr (hfs d.source (Or.inr ⟨d, hd, hm, by rw [ht]; exact hf, by rw [ht]; exact hgw, rfl⟩))]
    exact hqa.rowsC hgw d hd ht hm

theorem QSet.eqv {rank R S w w'} (hq : QSet rank R S w) (h : WEqv w w') : QSet rank R S w' :=
  hq.congr h.deps (fun x _ => h.failed x) (fun x _ => h.changed x) (fun x _ => h.checked x) (fun x _ => h.stamp x)
    (fun x _ => h.gen x) (fun x _ => h.ovr x) (fun f _ => congrFun h.fs f)

theorem FuelOk.top {rank : Nat → Nat} {fuel f : Nat} (h : rank f < fuel) : FuelOk rank fuel [] f :=
  ⟨h, fun x hx => by simp at hx⟩

theorem shouldBuild_quiet {rank R R' S fuel t w} {cx : Ctx} (hR : R ≤ R') (hcx : cx.runid = R')
    (hredo : cx.isRedo = false) (hq : QSet rank R S w) (ht : S t) (hfuel : rank t < fuel) :
    (shouldBuild cx fuel t w).1 = some .clean ∧ QExt R' w (shouldBuild cx fuel t w).2 := by
  have hqa := hq.mem t ht
  unfold shouldBuild
  simp only [hredo, Bool.false_eq_true, if_false, hcx]
  have hnf : isFailedR (getRec w R' t) R' = false := by
    rw [getRec_ne w R' hqa.ne0]; unfold isFailedR; rw [hqa.failed]
  simp only [hnf, Bool.false_eq_true, if_false]
  have h := isDirty_quiet (rank := rank) (S := S) hR false fuel t [] w [] none R' hq ht hR (fun s e => by cases e)
  generalize isDirty false R' fuel w [] t R' [] none = r at h
  obtain ⟨dr, w1, c⟩ := r
  obtain ⟨hx, h⟩ := h
  dsimp only at hx h ⊢
  rcases h with h | ⟨_, h⟩
  · subst h; exact ⟨rfl, hx⟩
  · exact absurd (FuelOk.top hfuel) h

theorem buildJob_quiet {rank R R' S fuel t w} {cx : Ctx} (E : Engine) (d : Defects) (hR : R ≤ R') (hcx : cx.runid = R')
    (hredo : cx.isRedo = false) (hq : QSet rank R S w) (ht : S t) (hfuel : rank t < fuel) :
    jrStatus (buildJob E d cx fuel t w).1 = 0 ∧ (∃ rv, (buildJob E d cx fuel t w).1 = .done rv) ∧
      QExt R' w (buildJob E d cx fuel t w).2 := by
  have h := shouldBuild_quiet hR hcx hredo hq ht hfuel
  unfold buildJob
  generalize shouldBuild cx fuel t w = r at h
  obtain ⟨o, w1⟩ := r
  obtain ⟨h1, h2⟩ := h
  dsimp only at h1 h2
  subst h1
  exact ⟨rfl, ⟨0, rfl⟩, h2⟩

/-- What a command that runs nothing leaves behind. -/
structure QCmd (R' : Nat) (w w' : World) : Prop where
  fs : w'.fs = w.fs
  deps : w'.deps = w.deps
  ran : ∀ t, Ev.ran t ∈ w'.trace → Ev.ran t ∈ w.trace

theorem QCmd.refl (R' : Nat) (w : World) : QCmd R' w w := ⟨rfl, rfl, fun _ h => h⟩
theorem QCmd.trans {R' a b c} (h1 : QCmd R' a b) (h2 : QCmd R' b c) : QCmd R' a c :=
  ⟨h2.fs.trans h1.fs, h2.deps.trans h1.deps, fun t h => h1.ran t (h2.ran t h)⟩
theorem QExt.toCmd {R' w w'} (h : QExt R' w w') : QCmd R' w w' := ⟨h.fs, h.deps, h.ran⟩

theorem runTargets_quiet {rank R R' S fuel} {cx : Ctx} (E : Engine) (d : Defects) (hR : R ≤ R') (hcx : cx.runid = R')
    (hredo : cx.isRedo = false) (hcyc : cx.cycles = []) :
    ∀ (ts seen : List Nat) (w : World), QSet rank R S w → (∀ t ∈ ts, S t ∧ rank t < fuel) →
      (runTargets E d cx fuel ts seen false w).1 = 0 ∧ QCmd R' w (runTargets E d cx fuel ts seen false w).2 ∧
      QSet rank R S (runTargets E d cx fuel ts seen false w).2
  | [], seen, w, hq, _ => by simp only [runTargets]; exact ⟨rfl, QCmd.refl _ _, hq⟩
  | t :: ts, seen, w, hq, hts => by
    have htl : ∀ t' ∈ ts, S t' ∧ rank t' < fuel := fun t' h => hts t' (List.mem_cons_of_mem _ h)
    rw [runTargets]
    by_cases hin : t ∈ seen
    · simp only [hin, if_true]
      exact runTargets_quiet E d hR hcx hredo hcyc ts seen w hq htl
    simp only [hin, if_false, Bool.false_and, Bool.false_eq_true, hcyc, List.not_mem_nil, decide_false, Bool.and_false]
    have e1 := WEqv.addKnown w t
    have hq1 := hq.eqv e1
    have hk : QCmd R' w (addKnown w t) := ⟨e1.fs, e1.deps, fun t' h => by rw [addKnown_trace] at h; exact h⟩
    obtain ⟨j1, ⟨rv, j2⟩, j3⟩ := buildJob_quiet E d hR hcx hredo hq1 (hts t (by simp)).1 (hts t (by simp)).2
    generalize buildJob E d cx fuel t (addKnown w t) = res at j1 j2 j3 ⊢
    obtain ⟨jr, w2⟩ := res
    dsimp only at j1 j2 j3
    subst j2
    simp only [jrStatus] at j1
    subst j1
    have hnc : ¬ ((0 : Status) = CRASHED) := by decide
    simp only [hnc, if_false, ne_eq, not_true_eq_false, decide_false, Bool.or_false]
    obtain ⟨a1, a2, a3⟩ := runTargets_quiet E d hR hcx hredo hcyc ts (t :: seen) w2 (hq1.ext j3 hR) htl
    exact ⟨a1, (hk.trans j3.toCmd).trans a2, a3⟩

end RedoModel.Deps.Rich
