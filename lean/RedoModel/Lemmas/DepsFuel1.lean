import RedoModel.Lemmas.Deps
/-!
# C12 — the fuel of the dirtiness check is an artefact (part 1: `isDirty`)

`isDirty` is structurally recursive on a fuel argument whose `0` case answers `.cyclic`.  Every
recursive call adds the file under examination to `seen`, and a file already in `seen` is answered at
once.  With all file ids below `N` the recursion depth is therefore at most `N - seen.length + 1` and
the answer of the `0` case is never looked at: replacing it by *anything* (`isDirtyFrom base`) does not
change the result.
-/
namespace RedoModel.Deps
open RedoModel.Generated

/-- A duplicate-free list of numbers below `N` has at most `N` elements. -/
theorem nodup_length_le : ∀ (N : Nat) (l : List Nat), l.Nodup → (∀ x ∈ l, x < N) → l.length ≤ N
  | 0, l, _, h => by
    cases l with
    | nil => simp
    | cons a l => exact absurd (h a (by simp)) (by omega)
  | N + 1, l, hn, h => by
    have h1 := nodup_length_le N (l.erase N) (hn.erase N) (fun x hx => by
      rw [hn.mem_erase_iff] at hx
      have := h x hx.2
      omega)
    rw [List.length_erase] at h1
    split at h1 <;> omega

/-- Pigeonhole in the form used below: a fresh id leaves room. -/
theorem fresh_room {N f : Nat} {seen : List Nat} (hf : f < N) (hns : f ∉ seen) (hnd : seen.Nodup)
    (hb : ∀ x ∈ seen, x < N) : seen.length + 1 ≤ N := by
  have := nodup_length_le N (f :: seen) (List.nodup_cons.2 ⟨hns, hnd⟩) (by
    intro x hx
    rcases List.mem_cons.1 hx with e | e
    · exact e ▸ hf
    · exact hb x e)
  simpa using this

/-- Every source id of the recorded dependency rows is below `N`. -/
def DepsBelow (N : Nat) (w : World) : Prop := ∀ d ∈ w.deps, d.source < N

theorem DepsBelow.of_same {N : Nat} {w w' : World} (h : SameButRecs w w') (hb : DepsBelow N w) : DepsBelow N w' := by
  intro d hd
  rw [h.2.1] at hd
  exact hb d hd

theorem depsWithRecs_below {N : Nat} {w : World} (hb : DepsBelow N w) (R : Nat) (r : Rec) (f : Nat) :
    ∀ p ∈ depsWithRecs w R r f, p.1.source < N := by
  intro p hp
  unfold depsWithRecs depsOf at hp
  split at hp
  · cases hp
  · obtain ⟨d, hd, rfl⟩ := List.mem_map.1 hp
    rw [List.mem_mergeSort] at hd
    exact hb d (List.mem_filter.1 hd).1


def isDirtyStep (ood : Bool) (R : Nat)
    (rec : World → List Nat → Nat → Nat → List Nat → Option Rec → DR × World × List Nat)
    (w : World) (cache : List Nat) (f mx : Nat) (seen : List Nat) (pre : Option Rec) : DR × World × List Nat :=
    if f ∈ seen then (.cyclic, w, cache) else
    let r := pre.getD (getRec w R f)
    if r.failed.isSome then (.dirty, w, cache) else
    match r.changed with
    | none => (.dirty, w, cache)
    | some ch =>
      if ch > mx then (.dirty, w, cache) else
      if (if ood then decide (f ∈ cache) else isCheckedR r R) then (.clean, w, cache) else
      match r.stamp with
      | none => (.dirty, w, cache)
      | some old =>
        let new := readStamp w f
        if old ≠ new then
          let w := if new = .missing ∧ r.isGenerated then
              setRec w f { r with isGenerated := false, isOverride := false, failed := some 0 } else w
          (if r.csum.isSome then .need [f] else .dirty, w, cache)
        else
          let mx' := max ch (r.checked.getD 0)
          match goDeps (fun w cache s snap => rec w cache s mx' (f :: seen) (some snap)) r.csum.isSome f
              (depsWithRecs w R r f) w cache [] with
          | (some dr, w, cache) => (dr, w, cache)
          | (none, w, cache) =>
            let w := if r.isOverride && !ood then ev w (.warnOverride f) else w
            if ood then (.clean, w, f :: cache)
            else (.clean, setRec w f { r with checked := some R }, cache)

theorem isDirty_succ (ood : Bool) (R fuel : Nat) (w : World) (cache : List Nat) (f mx : Nat) (seen : List Nat)
    (pre : Option Rec) :
    isDirty ood R (fuel + 1) w cache f mx seen pre = isDirtyStep ood R (isDirty ood R fuel) w cache f mx seen pre := by
  rfl


theorem goDeps_congr (N : Nat) (chk1 chk2 : World → List Nat → Nat → Rec → DR × World × List Nat)
    (hfr : ∀ w c s r, SameButRecs w (chk2 w c s r).2.1)
    (h : ∀ w c s r, DepsBelow N w → s < N → chk1 w c s r = chk2 w c s r) (hasCsum : Bool) (f : Nat) :
    ∀ (ds : List (Dep × Rec)) (w : World) (cache must : List Nat), DepsBelow N w → (∀ p ∈ ds, p.1.source < N) →
      goDeps chk1 hasCsum f ds w cache must = goDeps chk2 hasCsum f ds w cache must
  | [], w, cache, must, _, _ => by simp [goDeps]
  | (d, snap) :: ds, w, cache, must, hb, hs => by
    have hd : d.source < N := hs (d, snap) (by simp)
    have hs' : ∀ p ∈ ds, p.1.source < N := fun p hp => hs p (by simp [hp])
    rw [goDeps, goDeps]
    by_cases hm : d.modeM = true
    · simp only [hm, if_true]
      rw [h w cache d.source snap hb hd]
      have h1 := hfr w cache d.source snap
      generalize chk2 w cache d.source snap = r at h1
      obtain ⟨sub, w1, c1⟩ := r
      have hb1 : DepsBelow N w1 := hb.of_same h1
      cases sub with
      | cyclic => rfl
      | clean => exact goDeps_congr N chk1 chk2 hfr h hasCsum f ds w1 c1 must hb1 hs'
      | dirty => rfl
      | need ts => exact goDeps_congr N chk1 chk2 hfr h hasCsum f ds w1 c1 (must ++ ts) hb1 hs'
    · simp only [hm, Bool.false_eq_true, if_false]
      split
      · rfl
      · exact goDeps_congr N chk1 chk2 hfr h hasCsum f ds w cache must hb hs'
      · rfl
      · exact goDeps_congr N chk1 chk2 hfr h hasCsum f ds w cache _ hb hs'

theorem isDirtyStep_seen (ood : Bool) (R : Nat) (rec) (w : World) (cache : List Nat) (f mx : Nat) (seen : List Nat)
    (pre : Option Rec) (h : f ∈ seen) : isDirtyStep ood R rec w cache f mx seen pre = (.cyclic, w, cache) := by
  simp [isDirtyStep, h]

theorem isDirtyStep_congr (ood : Bool) (R : Nat) (rec1 rec2) (w : World) (cache : List Nat) (f mx : Nat)
    (seen : List Nat) (pre : Option Rec)
    (hg : ∀ mx' hc r, goDeps (fun w cache s snap => rec1 w cache s mx' (f :: seen) (some snap)) hc f
          (depsWithRecs w R r f) w cache [] =
        goDeps (fun w cache s snap => rec2 w cache s mx' (f :: seen) (some snap)) hc f
          (depsWithRecs w R r f) w cache []) :
    isDirtyStep ood R rec1 w cache f mx seen pre = isDirtyStep ood R rec2 w cache f mx seen pre := by
  unfold isDirtyStep
  simp only [hg]

/-- `isDirty` with an arbitrary answer `base` in place of the `fuel = 0` case. -/
def isDirtyFrom (base : World → List Nat → Nat → Nat → List Nat → Option Rec → DR × World × List Nat)
    (ood : Bool) (R : Nat) : Nat → World → List Nat → Nat → Nat → List Nat → Option Rec → DR × World × List Nat
  | 0 => base
  | n + 1 => isDirtyStep ood R (isDirtyFrom base ood R n)

/-- The model's `isDirty` is the instance whose base answers `.cyclic`. -/
theorem isDirty_eq_from (ood : Bool) (R : Nat) : ∀ n,
    isDirty ood R n = isDirtyFrom (fun w c _ _ _ _ => (.cyclic, w, c)) ood R n
  | 0 => by
    funext w c f mx seen pre
    rfl
  | n + 1 => by
    funext w c f mx seen pre
    rw [isDirty_succ, isDirty_eq_from ood R n]
    rfl

/-- **The base case is never consulted.**  With all ids below `N`, `seen` duplicate-free, and fuel at
least `N - seen.length + 1` on both sides, the check with an arbitrary base answer equals the model's. -/
theorem isDirtyFrom_eq_isDirty (base) (ood : Bool) (R N : Nat) :
    ∀ (n1 n2 : Nat) (w : World) (cache : List Nat) (f mx : Nat) (seen : List Nat) (pre : Option Rec),
      DepsBelow N w → f < N → seen.Nodup → (∀ x ∈ seen, x < N) →
      N - seen.length + 1 ≤ n1 → N - seen.length + 1 ≤ n2 →
      isDirtyFrom base ood R n1 w cache f mx seen pre = isDirty ood R n2 w cache f mx seen pre
  | 0, _, _, _, _, _, _, _, _, _, _, _, h1, _ => by omega
  | _, 0, _, _, _, _, _, _, _, _, _, _, _, h2 => by omega
  | k1 + 1, k2 + 1, w, cache, f, mx, seen, pre, hb, hf, hnd, hsb, h1, h2 => by
    rw [isDirty_succ]
    show isDirtyStep ood R (isDirtyFrom base ood R k1) w cache f mx seen pre = _
    by_cases hfs : f ∈ seen
    · rw [isDirtyStep_seen _ _ _ _ _ _ _ _ _ hfs, isDirtyStep_seen _ _ _ _ _ _ _ _ _ hfs]
    · have hroom := fresh_room hf hfs hnd hsb
      apply isDirtyStep_congr
      intro mx' hc r
      refine goDeps_congr N _ _ (fun w c s r => isDirty_frame ood R k2 w c s _ _ _) ?_ hc f _ w cache [] hb
        (depsWithRecs_below hb R r f)
      intro w' c s snap hb' hs
      refine isDirtyFrom_eq_isDirty base ood R N k1 k2 w' c s mx' (f :: seen) (some snap) hb' hs
        (List.nodup_cons.2 ⟨hfs, hnd⟩) ?_ ?_ ?_
      · intro x hx
        rcases List.mem_cons.1 hx with e | e
        · exact e ▸ hf
        · exact hsb x e
      · simp only [List.length_cons]; omega
      · simp only [List.length_cons]; omega

/-- Fuel irrelevance of the dirtiness check, in the form "more fuel changes nothing". -/
theorem isDirty_fuel_irrelevant (ood : Bool) (R N : Nat) (fuel k : Nat) (w : World) (cache : List Nat) (f mx : Nat)
    (seen : List Nat) (pre : Option Rec)
    (hb : DepsBelow N w) (hf : f < N) (hnd : seen.Nodup) (hsb : ∀ x ∈ seen, x < N)
    (hfuel : N - seen.length + 1 ≤ fuel) :
    isDirty ood R fuel w cache f mx seen pre = isDirty ood R (fuel + k) w cache f mx seen pre := by
  rw [isDirty_eq_from ood R fuel]
  exact isDirtyFrom_eq_isDirty _ ood R N fuel (fuel + k) w cache f mx seen pre hb hf hnd hsb hfuel (by omega)

/-- Any two sufficient amounts of fuel agree. -/
theorem isDirty_fuel_eq (ood : Bool) (R N : Nat) (n1 n2 : Nat) (w : World) (cache : List Nat) (f mx : Nat)
    (seen : List Nat) (pre : Option Rec)
    (hb : DepsBelow N w) (hf : f < N) (hnd : seen.Nodup) (hsb : ∀ x ∈ seen, x < N)
    (h1 : N - seen.length + 1 ≤ n1) (h2 : N - seen.length + 1 ≤ n2) :
    isDirty ood R n1 w cache f mx seen pre = isDirty ood R n2 w cache f mx seen pre := by
  rw [isDirty_eq_from ood R n1]
  exact isDirtyFrom_eq_isDirty _ ood R N n1 n2 w cache f mx seen pre hb hf hnd hsb h1 h2


/-! ### The `need` list only names walked files -/

/-- The ids of a `need` verdict are below `N`. -/
def DRBelow (N : Nat) : DR → Prop
  | .need ts => ∀ x ∈ ts, x < N
  | _ => True

theorem goDeps_below (N : Nat) (chk : World → List Nat → Nat → Rec → DR × World × List Nat)
    (hfr : ∀ w c s r, SameButRecs w (chk w c s r).2.1)
    (h : ∀ w c s r, DepsBelow N w → s < N → DRBelow N (chk w c s r).1) (hasCsum : Bool) (f : Nat) (hf : f < N) :
    ∀ (ds : List (Dep × Rec)) (w : World) (cache must : List Nat), DepsBelow N w → (∀ p ∈ ds, p.1.source < N) →
      (∀ x ∈ must, x < N) → ∀ dr, (goDeps chk hasCsum f ds w cache must).1 = some dr → DRBelow N dr
  | [], w, cache, must, _, _, hm, dr, he => by
    rw [goDeps] at he
    dsimp only at he
    split at he
    · cases he
    · cases he; exact hm
  | (d, snap) :: ds, w, cache, must, hb, hs, hm, dr, he => by
    have hd : d.source < N := hs (d, snap) (by simp)
    have hs' : ∀ p ∈ ds, p.1.source < N := fun p hp => hs p (by simp [hp])
    rw [goDeps] at he
    by_cases hmo : d.modeM = true
    · simp only [hmo, if_true] at he
      have h1 := hfr w cache d.source snap
      have h2 := h w cache d.source snap hb hd
      generalize chk w cache d.source snap = r at h1 h2 he
      obtain ⟨sub, w1, c1⟩ := r
      have hb1 : DepsBelow N w1 := hb.of_same h1
      cases sub with
      | cyclic => cases he; trivial
      | clean => exact goDeps_below N chk hfr h hasCsum f hf ds w1 c1 must hb1 hs' hm dr he
      | dirty =>
        dsimp only at he
        cases he
        split
        · intro x hx; simp at hx; omega
        · trivial
      | need ts =>
        refine goDeps_below N chk hfr h hasCsum f hf ds w1 c1 (must ++ ts) hb1 hs' ?_ dr he
        intro x hx
        rcases List.mem_append.1 hx with e | e
        · exact hm x e
        · exact h2 x e
    · simp only [hmo, Bool.false_eq_true, if_false] at he
      by_cases hex : existsF w d.source = true
      · simp only [hex, if_true] at he
        cases he
        split
        · intro x hx; simp at hx; omega
        · trivial
      · simp only [hex, Bool.false_eq_true, if_false] at he
        exact goDeps_below N chk hfr h hasCsum f hf ds w cache must hb hs' hm dr he

theorem isDirtyStep_below (N : Nat) (ood : Bool) (R : Nat) (rec) (w : World) (cache : List Nat) (f mx : Nat)
    (seen : List Nat) (pre : Option Rec) (hf : f < N)
    (hg : ∀ mx' hc r dr, (goDeps (fun w cache s snap => rec w cache s mx' (f :: seen) (some snap)) hc f
          (depsWithRecs w R r f) w cache []).1 = some dr → DRBelow N dr) :
    DRBelow N (isDirtyStep ood R rec w cache f mx seen pre).1 := by
  simp (config := { zeta := true, zetaHave := true }) only [isDirtyStep]
  repeat' split
  all_goals try trivial
  all_goals first
    | (intro x hx; simp at hx; omega)
    | (rename_i heq; exact hg _ _ _ _ (congrArg (fun x => x.1) heq))

/-- A `need` verdict of the dirtiness check only names ids below `N`. -/
theorem isDirty_below (ood : Bool) (R N : Nat) :
    ∀ (fuel : Nat) (w : World) (cache : List Nat) (f mx : Nat) (seen : List Nat) (pre : Option Rec),
      DepsBelow N w → f < N → DRBelow N (isDirty ood R fuel w cache f mx seen pre).1
  | 0, _, _, _, _, _, _, _, _ => by simp [isDirty, DRBelow]
  | fuel + 1, w, cache, f, mx, seen, pre, hb, hf => by
    rw [isDirty_succ]
    apply isDirtyStep_below N ood R _ w cache f mx seen pre hf
    intro mx' hc r dr he
    exact goDeps_below N _ (fun w c s r => isDirty_frame ood R fuel w c s _ _ _)
      (fun w c s r hb' hs => isDirty_below ood R N fuel w c s _ _ _ hb' hs) hc f hf _ w cache [] hb
      (depsWithRecs_below hb R r f) (fun x hx => by cases hx) dr he

/-! ### Projects that never use `redo-stamp`: no checksum, no `need` verdict -/

/-- No record carries a checksum. -/
def NoCsum (w : World) : Prop := ∀ f, (w.recs f).csum = none

theorem NoCsum.getRec {w : World} (h : NoCsum w) (R f : Nat) : (getRec w R f).csum = none := by
  unfold RedoModel.Deps.getRec
  dsimp only
  split
  · exact h f
  · exact h f

theorem NoCsum.setRec {w : World} (h : NoCsum w) (f : Nat) (r : Rec) (hr : r.csum = none) : NoCsum (setRec w f r) := by
  intro x
  simp only [RedoModel.Deps.setRec]
  split
  · exact hr
  · exact h x

theorem NoCsum.of_recs {w w' : World} (h : NoCsum w) (e : w'.recs = w.recs) : NoCsum w' := fun f => e ▸ h f

theorem depsWithRecs_nocsum {w : World} (h : NoCsum w) (R : Nat) (r : Rec) (f : Nat) :
    ∀ p ∈ depsWithRecs w R r f, p.2.csum = none := by
  intro p hp
  unfold depsWithRecs at hp
  obtain ⟨d, _, rfl⟩ := List.mem_map.1 hp
  exact h.getRec R d.source

theorem goDeps_nocsum (chk : World → List Nat → Nat → Rec → DR × World × List Nat)
    (h : ∀ w c s r, NoCsum w → r.csum = none → NoCsum (chk w c s r).2.1 ∧ ∀ ts, (chk w c s r).1 ≠ .need ts) (f : Nat) :
    ∀ (ds : List (Dep × Rec)) (w : World) (cache : List Nat), NoCsum w → (∀ p ∈ ds, p.2.csum = none) →
      NoCsum (goDeps chk false f ds w cache []).2.1 ∧ ∀ ts, (goDeps chk false f ds w cache []).1 ≠ some (.need ts)
  | [], w, cache, hw, _ => by
    rw [goDeps]
    exact ⟨hw, fun ts he => by simp at he⟩
  | (d, snap) :: ds, w, cache, hw, hs => by
    have hsnap : snap.csum = none := hs (d, snap) (by simp)
    have hs' : ∀ p ∈ ds, p.2.csum = none := fun p hp => hs p (by simp [hp])
    rw [goDeps]
    by_cases hmo : d.modeM = true
    · simp only [hmo, if_true]
      have h1 := h w cache d.source snap hw hsnap
      generalize chk w cache d.source snap = r at h1
      obtain ⟨sub, w1, c1⟩ := r
      cases sub with
      | cyclic => exact ⟨h1.1, fun ts he => by simp at he⟩
      | clean => exact goDeps_nocsum chk h f ds w1 c1 h1.1 hs'
      | dirty => exact ⟨h1.1, fun ts he => by simp at he⟩
      | need ts => exact absurd rfl (h1.2 ts)
    · simp only [hmo, Bool.false_eq_true, if_false]
      by_cases hex : existsF w d.source = true
      · simp only [hex, if_true]
        exact ⟨hw, fun ts he => by simp at he⟩
      · simp only [hex, Bool.false_eq_true, if_false]
        exact goDeps_nocsum chk h f ds w cache hw hs'

theorem isDirtyStep_nocsum (ood : Bool) (R : Nat) (rec) (w : World) (cache : List Nat) (f mx : Nat)
    (seen : List Nat) (pre : Option Rec) (hw : NoCsum w) (hpre : ∀ r, pre = some r → r.csum = none)
    (hg : ∀ mx' r dr' w' c', r.csum = none →
        goDeps (fun w cache s snap => rec w cache s mx' (f :: seen) (some snap)) false f
          (depsWithRecs w R r f) w cache [] = (dr', w', c') → NoCsum w' ∧ ∀ ts, dr' ≠ some (.need ts)) :
    NoCsum (isDirtyStep ood R rec w cache f mx seen pre).2.1 ∧
    ∀ ts, (isDirtyStep ood R rec w cache f mx seen pre).1 ≠ .need ts := by
  have hr : (pre.getD (getRec w R f)).csum = none := by
    cases pre with
    | none => exact hw.getRec R f
    | some r => exact hpre r rfl
  simp (config := { zeta := true, zetaHave := true }) only [isDirtyStep, hr, Option.isSome_none, Bool.false_eq_true,
    if_false]
  repeat' split
  all_goals first
    | exact ⟨hw, fun ts he => by cases he⟩
    | exact ⟨hw.setRec f _ rfl, fun ts he => by cases he⟩
    | (rename_i heq
       have h1 := hg _ _ _ _ _ hr heq
       exact ⟨h1.1, fun ts he => h1.2 ts (congrArg some he)⟩)
    | (rename_i heq hcond
       have h1 := hg _ _ _ _ _ hr heq
       first
        | exact ⟨h1.1, fun ts he => by cases he⟩
        | exact ⟨h1.1.of_recs rfl, fun ts he => by cases he⟩
        | exact ⟨h1.1.setRec f _ rfl, fun ts he => by cases he⟩
        | exact ⟨(h1.1.of_recs (w' := ev _ _) rfl).setRec f _ rfl, fun ts he => by cases he⟩)
    | (rename_i heq hcond hcond2
       have h1 := hg _ _ _ _ _ hr heq
       first
        | exact ⟨h1.1, fun ts he => by cases he⟩
        | exact ⟨h1.1.of_recs rfl, fun ts he => by cases he⟩
        | exact ⟨h1.1.setRec f _ rfl, fun ts he => by cases he⟩
        | exact ⟨(h1.1.of_recs (w' := ev _ _) rfl).setRec f _ rfl, fun ts he => by cases he⟩)

/-- In a project without checksums the dirtiness check keeps it so and never asks for an out-of-band rebuild. -/
theorem isDirty_nocsum (ood : Bool) (R : Nat) :
    ∀ (fuel : Nat) (w : World) (cache : List Nat) (f mx : Nat) (seen : List Nat) (pre : Option Rec),
      NoCsum w → (∀ r, pre = some r → r.csum = none) →
      NoCsum (isDirty ood R fuel w cache f mx seen pre).2.1 ∧ ∀ ts, (isDirty ood R fuel w cache f mx seen pre).1 ≠ .need ts
  | 0, w, _, _, _, _, _, hw, _ => by
    simp only [isDirty]
    exact ⟨hw, fun ts he => by cases he⟩
  | fuel + 1, w, cache, f, mx, seen, pre, hw, hpre => by
    rw [isDirty_succ]
    apply isDirtyStep_nocsum ood R _ w cache f mx seen pre hw hpre
    intro mx' r dr' w' c' _ he
    have h1 := goDeps_nocsum _ (fun w' c s snap hw' hsnap =>
      isDirty_nocsum ood R fuel w' c s mx' (f :: seen) (some snap) hw' (fun r' e => by cases e; exact hsnap))
      f _ w cache hw (depsWithRecs_nocsum hw R r f)
    rw [he] at h1
    exact h1

end RedoModel.Deps
