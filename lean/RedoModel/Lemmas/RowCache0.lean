import RedoModel.RowCache
/-!
Helper lemmas for `Props/C16b.lean`, part 0: unfolding of `step`, induction over accepted event lists from the end,
the state invariant `Inv` and its consequences (no lost update; the saves of one transaction are a contiguous block of
every row's log).
-/
namespace RedoModel.RowCache

/-! ### Unfolding `step` -/

theorem step_begin_some {s s' : State} {p : Nat} (h : step s (.begin p) = some s') :
    s.holder = none ∧
      s' = { s with holder := some p, txn := fun x => if x = p then s.txn p + 1 else s.txn x } := by
  simp only [step] at h
  split at h
  · cases h
  · rename_i hh; cases h; exact ⟨hh, rfl⟩

theorem step_commit_some {s s' : State} {p : Nat} (h : step s (.commit p) = some s') :
    s.holder = some p ∧ s' = { s with holder := none } := by
  simp only [step] at h
  split at h
  · rename_i hh; cases h; exact ⟨hh, rfl⟩
  · cases h

theorem step_load_some {s s' : State} {p f id : Nat} (h : step s (.load p f id) = some s') :
    s.holder = some p ∧
      s' = { s with loadedIn := upd2 s.loadedIn p id (some (s.txn p)),
                    loadedRow := upd2 s.loadedRow p id (some f),
                    seenAt := upd2 s.seenAt p id (s.writes f).length } := by
  simp only [step] at h
  split at h
  · cases h
  · rename_i hh; cases h; exact ⟨Classical.not_not.mp hh, rfl⟩

theorem step_save_some {s s' : State} {p f id : Nat} (h : step s (.save p f id) = some s') :
    s.holder = some p ∧ s.loadedIn p id = some (s.txn p) ∧ s.loadedRow p id = some f ∧
      s' = { s with writes := fun x => if x = f then p :: s.writes f else s.writes x,
                    stamps := fun x => if x = f then (p, s.txn p) :: s.stamps f else s.stamps x } := by
  simp only [step] at h
  split at h
  · cases h
  · split at h
    · cases h
    · split at h
      · cases h
      · rename_i h1 h2 h3; cases h
        exact ⟨Classical.not_not.mp h1, Classical.not_not.mp h2, Classical.not_not.mp h3, rfl⟩

/-- The guards of `save`, read the other way round. -/
theorem step_save_isSome {s : State} {p f id : Nat} (h1 : s.holder = some p)
    (h2 : s.loadedIn p id = some (s.txn p)) (h3 : s.loadedRow p id = some f) :
    (step s (.save p f id)).isSome = true := by
  simp [step, h1, h2, h3]

/-! ### Induction over accepted event lists, from the end -/

theorem run_append (s : State) (es : List Ev) (e : Ev) :
    run s (es ++ [e]) = (run s es).bind (fun t => step t e) := by
  induction es generalizing s with
  | nil => simp only [List.nil_append, run, Option.bind_some]; cases step s e <;> rfl
  | cons a es ih =>
    simp only [List.cons_append, run]
    cases step s a with
    | none => rfl
    | some t => exact ih t

theorem run_ind {P : List Ev → State → Prop} (s0 : State) (h0 : P [] s0)
    (hs : ∀ es s e s', run s0 es = some s → P es s → step s e = some s' → P (es ++ [e]) s')
    (es : List Ev) (s : State) (h : run s0 es = some s) : P es s := by
  have key : ∀ l : List Ev, ∀ s, run s0 l.reverse = some s → P l.reverse s := by
    intro l
    induction l with
    | nil => intro s h; simp only [List.reverse_nil, run, Option.some.injEq] at h; subst h; exact h0
    | cons e l ih =>
      intro s h
      rw [List.reverse_cons] at h ⊢
      rw [run_append] at h
      cases h1 : run s0 l.reverse with
      | none => rw [h1] at h; cases h
      | some t => rw [h1] at h; exact hs _ t e s h1 (ih t h1) h
  have := key es.reverse s
  rw [List.reverse_reverse] at this
  exact this h

/-- A property of states kept by every accepted step holds after every accepted event list. -/
theorem run_inv {P : State → Prop} (hs : ∀ s e s', P s → step s e = some s' → P s')
    (s0 : State) (h0 : P s0) (es : List Ev) (s : State) (h : run s0 es = some s) : P s :=
  run_ind (P := fun _ s => P s) s0 h0 (fun _ s e s' _ hp he => hs s e s' hp he) es s h

/-! ### Contiguous blocks -/

/-- Every element that occurs again later occurs again immediately: equal elements form contiguous blocks. -/
def Serial {α : Type} : List α → Prop
  | [] => True
  | a :: l => (a ∈ l → l.head? = some a) ∧ Serial l

theorem Serial.block {α : Type} {l : List α} (h : Serial l) {a : α} {i j k : Nat}
    (hi : l[i]? = some a) (hk : l[k]? = some a) (hij : i ≤ j) (hjk : j ≤ k) : l[j]? = some a := by
  induction l generalizing i j k with
  | nil => simp at hi
  | cons b l ih =>
    obtain ⟨hb, hl⟩ := h
    cases i with
    | succ i =>
      cases j with
      | zero => omega
      | succ j =>
        cases k with
        | zero => omega
        | succ k =>
          simp only [List.getElem?_cons_succ] at hi hk ⊢
          exact ih hl hi hk (by omega) (by omega)
    | zero =>
      simp only [List.getElem?_cons_zero, Option.some.injEq] at hi
      subst hi
      cases j with
      | zero => simp
      | succ j =>
        cases k with
        | zero => omega
        | succ k =>
          simp only [List.getElem?_cons_succ] at hk ⊢
          have hmem : b ∈ l := List.mem_of_getElem? hk
          have h0 : l[0]? = some b := by
            have := hb hmem
            cases l with
            | nil => cases this
            | cons c l => simpa using this
          exact ih hl h0 hk (by omega) (by omega)

/-! ### The invariant -/

structure Inv (s : State) : Prop where
  /-- no copy was loaded in a transaction that has not begun yet -/
  loadedLe : ∀ p id t, s.loadedIn p id = some t → t ≤ s.txn p
  holderPos : ∀ p, s.holder = some p → 1 ≤ s.txn p
  /-- the copies loaded in the running transaction have seen every save of their row but the holder's own -/
  fresh : ∀ p id f, s.holder = some p → s.loadedIn p id = some (s.txn p) → s.loadedRow p id = some f →
    s.seenAt p id ≤ (s.writes f).length ∧ ∀ q ∈ since s p f id, q = p
  stampFst : ∀ f, (s.stamps f).map Prod.fst = s.writes f
  stampLe : ∀ f q n, (q, n) ∈ s.stamps f → 1 ≤ n ∧ n ≤ s.txn q
  /-- a transaction that has ended has a number below the current one; the running one is the holder's -/
  stampHead : ∀ f p, s.holder = some p → (p, s.txn p) ∈ s.stamps f → (s.stamps f).head? = some (p, s.txn p)
  stampNone : ∀ f q, s.holder = none → (q, s.txn q + 1) ∉ s.stamps f
  serial : ∀ f, Serial (s.stamps f)
  /-- within one row's log the transaction numbers of one process never increase towards the past -/
  mono : ∀ f, (s.stamps f).Pairwise (fun a b => b.1 = a.1 → b.2 ≤ a.2)

theorem Inv_init : Inv {} := by
  constructor <;> intros <;> simp_all [Serial]

theorem Inv_step (s : State) (e : Ev) (s' : State) (hi : Inv s) (h : step s e = some s') : Inv s' := by
  cases e with
  | «begin» p =>
    obtain ⟨hh, rfl⟩ := step_begin_some h
    refine ⟨?_, ?_, ?_, hi.stampFst, ?_, ?_, ?_, hi.serial, hi.mono⟩
    · intro q id t ht
      have := hi.loadedLe q id t ht
      dsimp only
      split
      · subst_vars; omega
      · exact this
    · intro q hq; dsimp only at hq; cases hq; simp
    · intro q id f hq hl _
      dsimp only at hq hl
      cases hq
      simp only [if_true] at hl
      have := hi.loadedLe _ _ _ hl
      omega
    · intro f q n hm
      have := hi.stampLe f q n hm
      dsimp only
      split
      · subst_vars; omega
      · exact this
    · intro f q hq hm
      dsimp only at hq hm
      cases hq
      simp only [if_true] at hm
      have := (hi.stampLe f _ _ hm).2
      omega
    · intro f q hq; cases hq
  | commit p =>
    obtain ⟨hh, rfl⟩ := step_commit_some h
    refine ⟨hi.loadedLe, ?_, ?_, hi.stampFst, hi.stampLe, ?_, ?_, hi.serial, hi.mono⟩
    · intro q hq; cases hq
    · intro q id f hq; cases hq
    · intro f q hq; cases hq
    · intro f q _ hm
      have := (hi.stampLe f _ _ hm).2
      dsimp only at this
      omega
  | load p f id =>
    obtain ⟨hh, rfl⟩ := step_load_some h
    refine ⟨?_, hi.holderPos, ?_, hi.stampFst, hi.stampLe, hi.stampHead, hi.stampNone, hi.serial, hi.mono⟩
    · intro q i t ht
      dsimp only [upd2] at ht
      split at ht
      · rename_i hc; cases ht; rw [hc.1]; exact Nat.le_refl _
      · exact hi.loadedLe q i t ht
    · intro q i g hq hl hr
      dsimp only at hq
      by_cases hc : q = p ∧ i = id
      · obtain ⟨rfl, rfl⟩ := hc
        simp only [upd2, and_self, if_true, Option.some.injEq] at hr
        subst hr
        simp [since, upd2]
      · simp only [upd2, hc, if_false] at hl hr
        simpa [since, upd2, hc] using hi.fresh q i g hq hl hr
  | save p f id =>
    obtain ⟨hh, hl, hr, rfl⟩ := step_save_some h
    have hf := hi.fresh p id f hh hl hr
    refine ⟨hi.loadedLe, hi.holderPos, ?_, ?_, ?_, ?_, ?_, ?_, ?_⟩
    · intro q i g hq hl' hr'
      dsimp only at hq hl' hr'
      rw [hh] at hq; cases hq
      have ho := hi.fresh p i g hh hl' hr'
      by_cases hg : g = f
      · subst hg
        simp only [since, if_true, List.length_cons] at ho ⊢
        refine ⟨by omega, ?_⟩
        have he : (s.writes g).length + 1 - s.seenAt p i = ((s.writes g).length - s.seenAt p i) + 1 := by omega
        rw [he, List.take_succ_cons]
        intro q hq
        rcases List.mem_cons.mp hq with rfl | hq
        · rfl
        · exact ho.2 q hq
      · simpa [since, hg] using ho
    · intro g
      dsimp only
      split
      · subst_vars; simp [hi.stampFst]
      · exact hi.stampFst g
    · intro g q n hm
      dsimp only at hm
      split at hm
      · rcases List.mem_cons.mp hm with hc | hm
        · cases hc
          exact ⟨hi.holderPos p hh, Nat.le_refl _⟩
        · exact hi.stampLe f q n hm
      · exact hi.stampLe g q n hm
    · intro g q hq hm
      dsimp only at hq hm ⊢
      rw [hh] at hq; cases hq
      split
      · rfl
      · rename_i hg; simp only [hg, if_false] at hm; exact hi.stampHead g p hh hm
    · intro g q hq; rw [hh] at hq; cases hq
    · intro g
      dsimp only
      split
      · subst_vars
        exact ⟨fun hm => hi.stampHead _ p hh hm, hi.serial _⟩
      · exact hi.serial g
    · intro g
      dsimp only
      split
      · subst_vars
        refine List.pairwise_cons.mpr ⟨?_, hi.mono _⟩
        intro b hb hb1
        obtain ⟨q, n⟩ := b
        dsimp only at hb1 ⊢
        subst hb1
        exact (hi.stampLe _ _ _ hb).2
      · exact hi.mono g

end RedoModel.RowCache
