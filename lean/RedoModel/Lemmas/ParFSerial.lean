import RedoModel.Lemmas.ParFMain
/-!
The serial (-j1, depth-first) schedule of `RedoModel.ParF` — stopping at the first failure unless
`--keep-going` — is one of the accepted runs, and it ends at a point where the top level returns.  Hence
"same exit status as the serial build" is a special case of `exit_schedule_independent`.
-/
namespace RedoModel.ParF

/-! ### Guards that hold, read the other way round -/

theorem step_start_mk {g : Graph} {s : State} {t : Nat} {b : Option Nat} {sc : Script}
    (hsc : g.script t = some sc) (hidle : s.st t = .idle) (hby : ∀ p, b = some p → askedBy g s t p = true) :
    step g s (.start t b) = some { s with st := upd s.st t (.running 0), starts := t :: s.starts } := by
  cases b with
  | none => simp [step, hsc, hidle]
  | some p => simp [step, hsc, hidle, hby p rfl]

theorem step_ret_ok_mk {g : Graph} {s : State} {t k : Nat} {sc : Script} {ds : List Nat}
    (hsc : g.script t = some sc) (hst : s.st t = .running k) (hds : sc.cmds[k]? = some ds)
    (hall : ds.all (okSettled g s) = true) :
    step g s (.ret t true) = some { s with st := upd s.st t (.running (k + 1)) } := by
  simp [step, hsc, hst, hds, hall]

theorem step_ret_bad_mk {g : Graph} {s : State} {t k : Nat} {sc : Script} {ds : List Nat}
    (hsc : g.script t = some sc) (hst : s.st t = .running k) (hds : sc.cmds[k]? = some ds)
    (hbad : mayReturnBad g s ds = true) :
    step g s (.ret t false) = some { s with st := upd s.st t .aborting } := by
  simp [step, hsc, hst, hds, hbad]

theorem step_finish_mk {g : Graph} {s : State} {t : Nat} {sc : Script}
    (hsc : g.script t = some sc) (hst : s.st t = .running sc.cmds.length) (hnf : sc.fails = false) :
    step g s (.finish t) =
      some { s with st := upd s.st t .done,
                    content := upd s.content t (out sc.tag (sc.reads.map (val g s))) } := by
  simp [step, hsc, hst, hnf]

theorem step_fail_mk {g : Graph} {s : State} {t : Nat} {sc : Script} (hsc : g.script t = some sc)
    (hst : s.st t = .aborting ∨ (s.st t = .running sc.cmds.length ∧ sc.fails = true)) :
    step g s (.fail t) = some { s with st := upd s.st t .failed } := by
  rcases hst with hst | ⟨hst, hf⟩
  · simp [step, hsc, hst]
  · simp [step, hsc, hst, hf]

theorem askedBy_mk {g : Graph} {s : State} {t d k : Nat} {sc : Script} {ds : List Nat}
    (hsc : g.script t = some sc) (hst : s.st t = .running k) (hds : sc.cmds[k]? = some ds) (hd : d ∈ ds) :
    askedBy g s d t = true := by
  simp [askedBy, hsc, hst, hds, hd]

/-! ### What a serial sub-build may change -/

def Rest (v : St) : Prop := v = .idle ∨ v = .done ∨ v = .failed

/-- Target `x` is untouched unless it was idle, and an idle one at most becomes settled. -/
def FrameAt (s s' : State) (x : Nat) : Prop :=
  (s.st x ≠ .idle → s'.st x = s.st x) ∧ (s.st x = .idle → Rest (s'.st x))

def Frame (s s' : State) : Prop := ∀ x, FrameAt s s' x

def FrameX (t : Nat) (s s' : State) : Prop := ∀ x, x ≠ t → FrameAt s s' x

theorem FrameAt.refl (s : State) (x : Nat) : FrameAt s s x := ⟨fun _ => rfl, fun h => Or.inl h⟩

theorem FrameAt.trans {s s1 s2 : State} {x : Nat} (h1 : FrameAt s s1 x) (h2 : FrameAt s1 s2 x) :
    FrameAt s s2 x := by
  constructor
  · intro hne
    have e1 := h1.1 hne
    rw [h2.1 (by rw [e1]; exact hne), e1]
  · intro hidle
    rcases h1.2 hidle with h | h | h
    · exact h2.2 h
    · right; left; rw [h2.1 (by rw [h]; intro hh; cases hh), h]
    · right; right; rw [h2.1 (by rw [h]; intro hh; cases hh), h]

theorem FrameAt.of_st_eq {s s' : State} {x : Nat} (h : s'.st x = s.st x) : FrameAt s s' x :=
  ⟨fun _ => h, fun hi => Or.inl (h.trans hi)⟩

theorem Frame.keep {s s' : State} (h : Frame s s') {x : Nat} {v : St} (hx : s.st x = v) (hv : v ≠ .idle) :
    s'.st x = v := by rw [(h x).1 (by rw [hx]; exact hv), hx]

theorem Frame.okSettled {g : Graph} {s s' : State} (h : Frame s s') {f : Nat}
    (hf : okSettled g s f = true) : okSettled g s' f = true :=
  okSettled_mono (fun _ hx => h.keep hx (by intro hh; cases hh)) hf

theorem Frame.settled {g : Graph} {s s' : State} (h : Frame s s') {f : Nat}
    (hf : settled g s f = true) : settled g s' f = true := by
  simp only [RedoModel.ParF.settled, Bool.or_eq_true, isFailed, beq_iff_eq] at hf ⊢
  rcases hf with hf | hf
  · exact Or.inl (h.okSettled hf)
  · exact Or.inr (h.keep hf (by intro hh; cases hh))

/-- Everything of rank below `b` is at rest (nothing of that rank is in progress). -/
def Below (rank : Nat → Nat) (b : Nat) (s : State) : Prop := ∀ x, rank x < b → Rest (s.st x)

theorem FrameAt.rest {s s' : State} {x : Nat} (h : FrameAt s s' x) (hx : Rest (s.st x)) :
    Rest (s'.st x) := by
  rcases hx with hx | hx | hx
  · exact h.2 hx
  · right; left; rw [h.1 (by rw [hx]; intro hh; cases hh), hx]
  · right; right; rw [h.1 (by rw [hx]; intro hh; cases hh), hx]

theorem Below.frame {rank : Nat → Nat} {b : Nat} {s s' : State} (hb : Below rank b s) (h : Frame s s') :
    Below rank b s' := fun x hx => (h x).rest (hb x hx)

/-- The result `r` of a schedule generator started in `s`: the events are accepted from `s` and lead to
the state returned; no target is declared clean. -/
structure Good (g : Graph) (s : State) (r : List Ev × State) : Prop where
  runs : run g s r.1 = some r.2
  noClean : ∀ t, Ev.clean t ∉ r.1

/-- After the files `ds` of a command have been tried: all answer zero, or one has failed and (with
`--keep-going`) all have an answer. -/
def DepsPost (g : Graph) (s : State) (ds : List Nat) : Prop :=
  (∀ d ∈ ds, okSettled g s d = true) ∨
  ((∃ d ∈ ds, s.st d = .failed) ∧ (g.keepGoing = true → ∀ d ∈ ds, settled g s d = true))

theorem DepsPost.bad {g : Graph} {s : State} {ds : List Nat} (h : DepsPost g s ds)
    (hn : ¬ ds.all (okSettled g s) = true) : mayReturnBad g s ds = true := by
  rcases h with h | ⟨⟨d, hd, hf⟩, hk⟩
  · exact absurd (by simpa using h) hn
  · simp only [mayReturnBad, Bool.and_eq_true, List.any_eq_true, isFailed, beq_iff_eq, Bool.or_eq_true,
      Bool.not_eq_true', List.all_eq_true]
    refine ⟨⟨d, hd, hf⟩, ?_⟩
    cases hkg : g.keepGoing with
    | false => exact Or.inl rfl
    | true => exact Or.inr (hk hkg)

theorem DepsPost.top {g : Graph} {s : State} {ts : List Nat} (h : DepsPost g s ts) :
    topReturns g s ts = true := by
  by_cases hall : ts.all (okSettled g s) = true
  · simp [topReturns, hall]
  · simp [topReturns, h.bad hall]

/-! ### The files of one command -/

theorem serialDeps_ok {g : Graph} {rec : Nat → State → List Ev × State} (P : State → Prop)
    (hP : ∀ s s', P s → Frame s s' → P s') :
    ∀ (ds : List Nat),
      (∀ d ∈ ds, ∀ s, P s → Good g s (rec d s) ∧ Frame s (rec d s).2 ∧ settled g (rec d s).2 d = true) →
      ∀ s, P s → Good g s (serialDeps g rec ds s) ∧ Frame s (serialDeps g rec ds s).2 ∧
        DepsPost g (serialDeps g rec ds s).2 ds
  | [], _, s, _ =>
    ⟨⟨rfl, fun t ht => by cases ht⟩, fun x => FrameAt.refl s x, Or.inl (fun d hd => by cases hd)⟩
  | d :: ds, hrec, s, hs => by
    obtain ⟨g1, f1, st1⟩ := hrec d List.mem_cons_self s hs
    obtain ⟨g2, f2, st2⟩ := serialDeps_ok P hP ds (fun d' hd' => hrec d' (List.mem_cons_of_mem _ hd'))
      (rec d s).2 (hP _ _ hs f1)
    simp only [serialDeps]
    by_cases hstop : (!g.keepGoing && isFailed (rec d s).2 d) = true
    · rw [if_pos hstop]
      simp only [Bool.and_eq_true, Bool.not_eq_true', isFailed, beq_iff_eq] at hstop
      refine ⟨g1, f1, Or.inr ⟨⟨d, List.mem_cons_self, hstop.2⟩, ?_⟩⟩
      intro hk; rw [hstop.1] at hk; cases hk
    · rw [if_neg hstop]
      refine ⟨⟨?_, ?_⟩, fun x => (f1 x).trans (f2 x), ?_⟩
      · show run g s (_ ++ _) = _
        rw [run_append, g1.runs]; exact g2.runs
      · intro t ht
        rcases List.mem_append.1 ht with h | h
        · exact g1.noClean t h
        · exact g2.noClean t h
      · show DepsPost g (serialDeps g rec ds (rec d s).2).2 (d :: ds)
        have hd2 : settled g (serialDeps g rec ds (rec d s).2).2 d = true := f2.settled st1
        have hset : ∀ d' ∈ ds, DepsPost g (serialDeps g rec ds (rec d s).2).2 ds →
            g.keepGoing = true → settled g (serialDeps g rec ds (rec d s).2).2 d' = true := by
          intro d' hd' hpost hk
          rcases hpost with h | ⟨_, h⟩
          · simp only [settled, Bool.or_eq_true]; exact Or.inl (h d' hd')
          · exact h hk d' hd'
        simp only [settled, Bool.or_eq_true, isFailed, beq_iff_eq] at hd2
        rcases hd2 with hok | hfl
        · rcases st2 with h | ⟨⟨d', hd', hf'⟩, hk⟩
          · left
            intro d' hd'
            rcases List.mem_cons.1 hd' with rfl | hd'
            · exact hok
            · exact h d' hd'
          · right
            refine ⟨⟨d', List.mem_cons_of_mem _ hd', hf'⟩, ?_⟩
            intro hkg d'' hd''
            rcases List.mem_cons.1 hd'' with rfl | hd''
            · simp only [settled, Bool.or_eq_true]; exact Or.inl hok
            · exact hk hkg d'' hd''
        · right
          refine ⟨⟨d, List.mem_cons_self, hfl⟩, ?_⟩
          intro hkg d'' hd''
          rcases List.mem_cons.1 hd'' with rfl | hd''
          · simp only [settled, Bool.or_eq_true, isFailed, beq_iff_eq]; exact Or.inr hfl
          · exact hset d'' hd'' st2 hkg

/-! ### The commands of one script -/

theorem serialCmds_ok {g : Graph} {rank : Nat → Nat} {rec : Nat → State → List Ev × State} {t : Nat}
    {sc : Script} (hsc : g.script t = some sc)
    (hrec : ∀ k ds, sc.cmds[k]? = some ds → ∀ d ∈ ds, ∀ s, Below rank (rank t) s → s.st t = .running k →
      Good g s (rec d s) ∧ Frame s (rec d s).2 ∧ settled g (rec d s).2 d = true) :
    ∀ (cmds : List (List Nat)) (k : Nat) (s : State), (∀ j, cmds[j]? = sc.cmds[k + j]?) →
      Below rank (rank t) s → s.st t = .running k →
      Good g s (serialCmds g rec t cmds k s) ∧ FrameX t s (serialCmds g rec t cmds k s).2 ∧
        ((serialCmds g rec t cmds k s).2.st t = .running (k + cmds.length) ∨
         (serialCmds g rec t cmds k s).2.st t = .aborting)
  | [], k, s, _, _, hst =>
    ⟨⟨rfl, fun t ht => by cases ht⟩, fun x _ => FrameAt.refl s x, Or.inl (by simpa [serialCmds] using hst)⟩
  | ds :: rest, k, s, hcm, hb, hst => by
    have hk : sc.cmds[k]? = some ds := by simpa using (hcm 0).symm
    have hne : ∀ x, rank x < rank t → x ≠ t := fun x hx hxt => by rw [hxt] at hx; exact Nat.lt_irrefl _ hx
    obtain ⟨g1, f1, st1⟩ := serialDeps_ok (g := g) (rec := rec)
      (fun s => Below rank (rank t) s ∧ s.st t = .running k)
      (fun s s' hs hf => ⟨hs.1.frame hf, hf.keep hs.2 (by intro hh; cases hh)⟩)
      ds (fun d hd s hs => hrec k ds hk d hd s hs.1 hs.2) s ⟨hb, hst⟩
    generalize hr1 : serialDeps g rec ds s = r1 at g1 f1 st1
    have hst1 : r1.2.st t = .running k := f1.keep hst (by intro hh; cases hh)
    simp only [serialCmds, hr1]
    by_cases hall : ds.all (okSettled g r1.2) = true
    · rw [if_pos hall]
      have hstep := step_ret_ok_mk hsc hst1 hk hall
      generalize hs2 : ({ r1.2 with st := upd r1.2.st t (.running (k + 1)) } : State) = s2 at hstep
      have hs2st : ∀ x, x ≠ t → s2.st x = r1.2.st x := by
        intro x hx; rw [← hs2]; exact upd_other _ _ _ _ hx
      have hb2 : Below rank (rank t) s2 := by
        intro x hx
        rw [hs2st x (hne x hx)]
        exact (hb.frame f1) x hx
      have hst2 : s2.st t = .running (k + 1) := by rw [← hs2]; exact upd_same _ _ _
      obtain ⟨g3, f3, st3⟩ := serialCmds_ok hsc hrec rest (k + 1) s2
        (fun j => by
          have := hcm (j + 1)
          simp only [List.getElem?_cons_succ] at this
          rw [this]; congr 1; omega) hb2 hst2
      refine ⟨⟨?_, ?_⟩, ?_, ?_⟩
      · show run g s (_ ++ _ :: _) = _
        rw [run_append, g1.runs]
        simp only [Option.bind_some, run_cons, hstep]
        exact g3.runs
      · intro u hu
        rcases List.mem_append.1 hu with h | h
        · exact g1.noClean u h
        · rcases List.mem_cons.1 h with h | h
          · cases h
          · exact g3.noClean u h
      · intro x hx
        exact ((f1 x).trans (FrameAt.of_st_eq (hs2st x hx))).trans (f3 x hx)
      · rcases st3 with h | h
        · left; rw [h]; congr 1; simp only [List.length_cons]; omega
        · exact Or.inr h
    · rw [if_neg hall]
      have hstep := step_ret_bad_mk hsc hst1 hk (st1.bad hall)
      refine ⟨⟨?_, ?_⟩, ?_, Or.inr (upd_same _ _ _)⟩
      · show run g s (_ ++ [_]) = _
        rw [run_append, g1.runs]
        simp only [Option.bind_some, run_cons, hstep, run_nil]
      · intro u hu
        rcases List.mem_append.1 hu with h | h
        · exact g1.noClean u h
        · rcases List.mem_cons.1 h with h | h
          · cases h
          · cases h
      · intro x hx
        exact (f1 x).trans (FrameAt.of_st_eq (upd_other _ _ _ _ hx))

/-! ### One target, depth first -/

theorem settled_of_rest {g : Graph} {s : State} {t : Nat} (hr : Rest (s.st t)) (hne : s.st t ≠ .idle)
    {sc : Script} (hsc : g.script t = some sc) : settled g s t = true := by
  simp only [settled, Bool.or_eq_true, isFailed, beq_iff_eq, okSettled_tgt hsc]
  rcases hr with h | h | h
  · exact absurd h hne
  · exact Or.inl h
  · exact Or.inr h

theorem serialOne_ok {g : Graph} {rank : Nat → Nat} (hr : Ranked g rank) :
    ∀ (fuel t : Nat) (b : Option Nat) (s : State), rank t < fuel → Below rank (rank t + 1) s →
      (∀ p, b = some p → askedBy g s t p = true) →
      Good g s (serialOne g fuel t b s) ∧ Frame s (serialOne g fuel t b s).2 ∧
        settled g (serialOne g fuel t b s).2 t = true
  | 0, _, _, _, h, _, _ => absurd h (Nat.not_lt_zero _)
  | fuel + 1, t, b, s, hfuel, hb, hby => by
    cases hsc : g.script t with
    | none =>
      simp only [serialOne, hsc]
      exact ⟨⟨rfl, fun t ht => by cases ht⟩, fun x => FrameAt.refl s x,
        by simp [settled, okSettled_src hsc]⟩
    | some sc =>
      by_cases hidle : s.st t = .idle
      · have hne : ∀ x, rank x < rank t → x ≠ t := fun x hx hxt => by
          rw [hxt] at hx; exact Nat.lt_irrefl _ hx
        have hstart := step_start_mk hsc hidle hby
        generalize hs0 : ({ s with st := upd s.st t (.running 0), starts := t :: s.starts } : State) = s0
          at hstart
        have hs0st : ∀ x, x ≠ t → s0.st x = s.st x := by
          intro x hx; rw [← hs0]; exact upd_other _ _ _ _ hx
        have hb0 : Below rank (rank t) s0 := by
          intro x hx
          rw [hs0st x (hne x hx)]
          exact hb x (by omega)
        have hst0 : s0.st t = .running 0 := by rw [← hs0]; exact upd_same _ _ _
        obtain ⟨g1, f1, st1⟩ := serialCmds_ok (rank := rank)
          (rec := fun d s' => serialOne g fuel d (some t) s') hsc
          (fun k ds hk d hd s' hb' hst' => by
            have hrd : rank d < rank t :=
              hr t sc hsc d (List.mem_flatten.2 ⟨ds, List.mem_of_getElem? hk, hd⟩)
            exact serialOne_ok hr fuel d (some t) s' (by omega)
              (fun x hx => hb' x (by omega))
              (fun p hp => by cases hp; exact askedBy_mk hsc hst' hk hd))
          sc.cmds 0 s0 (fun j => by simp) hb0 hst0
        simp only [serialOne, hsc, hidle, ne_eq, not_true_eq_false, if_false, hs0]
        generalize hr1 : serialCmds g (fun d s' => serialOne g fuel d (some t) s') t sc.cmds 0 s0 = r1
          at g1 f1 st1
        simp only [Nat.zero_add] at st1
        by_cases hfl : r1.2.st t = .aborting ∨ sc.fails = true
        · rw [if_pos hfl]
          have hfin : step g r1.2 (.fail t) = some { r1.2 with st := upd r1.2.st t .failed } := by
            refine step_fail_mk hsc ?_
            rcases hfl with h | h
            · exact Or.inl h
            · rcases st1 with h1 | h1
              · exact Or.inr ⟨h1, h⟩
              · exact Or.inl h1
          refine ⟨⟨?_, ?_⟩, ?_, ?_⟩
          · show run g s (_ :: _ ++ [_]) = _
            simp only [List.cons_append, run_cons, hstart, Option.bind_some]
            rw [run_append, g1.runs]
            simp only [Option.bind_some, run_cons, hfin, run_nil]
          · intro u hu
            simp only [List.cons_append, List.mem_cons, List.mem_append, List.mem_nil_iff, or_false,
              reduceCtorEq, false_or] at hu
            exact g1.noClean u hu
          · intro x
            by_cases hx : x = t
            · subst hx
              exact ⟨fun h => absurd hidle h, fun _ => Or.inr (Or.inr (upd_same _ _ _))⟩
            · refine ((FrameAt.of_st_eq (hs0st x hx)).trans (f1 x hx)).trans (FrameAt.of_st_eq ?_)
              exact upd_other _ _ _ _ hx
          · simp only [settled, Bool.or_eq_true, isFailed, beq_iff_eq]
            exact Or.inr (upd_same _ _ _)
        · rw [if_neg hfl]
          have hna : r1.2.st t ≠ .aborting := fun h => hfl (Or.inl h)
          have hnf : sc.fails = false := by
            cases hf : sc.fails with
            | false => rfl
            | true => exact absurd (Or.inr hf) hfl
          have hrun : r1.2.st t = .running sc.cmds.length := st1.resolve_right hna
          have hfin := step_finish_mk hsc hrun hnf
          refine ⟨⟨?_, ?_⟩, ?_, ?_⟩
          · show run g s (_ :: _ ++ [_]) = _
            simp only [List.cons_append, run_cons, hstart, Option.bind_some]
            rw [run_append, g1.runs]
            simp only [Option.bind_some, run_cons, hfin, run_nil]
          · intro u hu
            simp only [List.cons_append, List.mem_cons, List.mem_append, List.mem_nil_iff, or_false,
              reduceCtorEq, false_or] at hu
            exact g1.noClean u hu
          · intro x
            by_cases hx : x = t
            · subst hx
              exact ⟨fun h => absurd hidle h, fun _ => Or.inr (Or.inl (upd_same _ _ _))⟩
            · refine ((FrameAt.of_st_eq (hs0st x hx)).trans (f1 x hx)).trans (FrameAt.of_st_eq ?_)
              exact upd_other _ _ _ _ hx
          · simp only [settled, Bool.or_eq_true, okSettled_tgt hsc]
            exact Or.inl (upd_same _ _ _)
      · simp only [serialOne, hsc, hidle, ne_eq, not_false_eq_true, if_true]
        exact ⟨⟨rfl, fun t ht => by cases ht⟩, fun x => FrameAt.refl s x,
          settled_of_rest (hb t (Nat.lt_succ_self _)) hidle hsc⟩

theorem init_below {g : Graph} {s0 : State} (h0 : Init g s0) (rank : Nat → Nat) (b : Nat) :
    Below rank b s0 := fun x _ => (h0.2.1 x).elim Or.inl (fun h => Or.inr (Or.inl h))

/-- The serial invocation `redo ts` is an accepted run that ends where the top level returns. -/
theorem serial_is_a_run {g : Graph} {rank : Nat → Nat} {s0 : State} {fuel : Nat} {ts : List Nat}
    (hr : Ranked g rank) (h0 : Init g s0) (hfuel : ∀ t ∈ ts, rank t < fuel) :
    run g s0 (serialTop g fuel ts s0).1 = some (serialTop g fuel ts s0).2 ∧
    topReturns g (serialTop g fuel ts s0).2 ts = true ∧
    (∀ u, Ev.clean u ∉ (serialTop g fuel ts s0).1) := by
  obtain ⟨g1, _, st1⟩ := serialDeps_ok (g := g) (rec := fun d s' => serialOne g fuel d none s')
    (fun s => ∀ b, Below rank b s) (fun s s' hs hf b => (hs b).frame hf) ts
    (fun d hd s hs => serialOne_ok hr fuel d none s (hfuel d hd) (hs _) (fun p hp => by cases hp))
    s0 (fun b => init_below h0 rank b)
  exact ⟨g1.runs, st1.top, g1.noClean⟩

/-- The exit status of any schedule, at a point where the top level returns, is that of the serial build. -/
theorem exit_equals_serial {g : Graph} {rank : Nat → Nat} {s0 s : State} {es : List Ev} {fuel : Nat}
    {ts : List Nat} (hr : Ranked g rank) (h0 : Init g s0) (hc : CleanOk g s0 es)
    (h : run g s0 es = some s) (hret : topReturns g s ts = true) (hfuel : ∀ t ∈ ts, rank t < fuel) :
    status g s ts = status g (serialTop g fuel ts s0).2 ts := by
  obtain ⟨h1, h2, h3⟩ := serial_is_a_run (ts := ts) hr h0 hfuel
  exact exit_schedule_independent h0 hc (cleanOk_of_no_clean h3) h h1 hret h2

end RedoModel.ParF
