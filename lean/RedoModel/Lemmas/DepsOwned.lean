import RedoModel.Lemmas.DepsOwned2
/-!
# C11 at the level of whole commands and whole histories

"redo never overwrites or deletes files it did not produce": a file that exists and that redo does not
own (`UserOwned`: not recorded as generated, or marked overridden, or generated but with an (mtime,size)
different from the recorded stamp) has the same `FNode` after any top-level command — `redo`,
`redo-ifchange`, `redo-ood`, `redo-targets`, `redo-sources`, a command killed at any script step — and
after any sequence of such commands, and is still user-owned then.  All defect switches are arbitrary.

Definitions and the algebra are in `DepsOwned1`, scripts/jobs/engine in `DepsOwned2`.
-/
namespace RedoModel.Deps
open RedoModel.Generated

theorem allocRun_sameOwn (w : World) : SameOwn w (allocRun w).2 := ⟨rfl, fun _ _ => KeyEq.refl _⟩

/-- The loop of `redo-ood` never touches a file. -/
theorem oodGo_fs (R fuel : Nat) : ∀ (fs : List Nat) (w : World) (cache acc : List Nat),
    (runCmd.go R fuel fs w cache acc).2.fs = w.fs
  | [], w, cache, acc => by rw [runCmd.go]
  | f :: fs, w, cache, acc => by
    rw [runCmd.go]
    have h := (isDirty_frame true R fuel w cache f R [] none).1
    generalize isDirty true R fuel w cache f R [] none = r at h
    obtain ⟨dr, w1, c1⟩ := r
    dsimp only at h ⊢
    rw [oodGo_fs R fuel fs w1 c1 _, h]

/-- **C11, one command.**  Whatever the command, the defect switches and the state, every user-owned file
is byte-for-byte the same afterwards and is still user-owned. -/
theorem runCmd_keepsUser (d : Defects) (n : Nat) (c : Cmd) (w : World) : KeepsUser w (runCmd d n c w).2 := by
  have ha := (allocRun_sameOwn w).keeps
  unfold runCmd
  generalize allocRun w = a at ha
  obtain ⟨R, w0⟩ := a
  dsimp only at ha ⊢
  cases c with
  | redo ts kg =>
    dsimp only
    exact ha.trans (runTargets_keepsUser (engine d (2 * n + 4)) (engine_keeps d _) d
      { runid := R, keepGoing := kg, isRedo := true } (2 * n + 4) ts [] false w0)
  | ifchange ts kg =>
    dsimp only
    exact ha.trans (runTargets_keepsUser (engine d (2 * n + 4)) (engine_keeps d _) d
      { runid := R, keepGoing := kg } (2 * n + 4) ts [] false w0)
  | ood =>
    dsimp only
    refine ha.trans (SameOwn.keeps ⟨?_, fun _ _ => KeyEq.refl _⟩)
    exact oodGo_fs R (2 * n + 4) _ w0 [] []
  | targets => exact ha
  | sources => exact ha

/-- The killed `redo-ifchange` (whole process tree killed at step `k` of the script of `t`). -/
theorem crashCmd_keepsUser (d : Defects) (n : Nat) (ts : List Nat) (t k : Nat) (w : World) :
    KeepsUser w (applyOp d n (.crashCmd ts t k) w).2 := by
  have ha := (allocRun_sameOwn w).keeps
  unfold applyOp
  dsimp only
  generalize allocRun w = a at ha
  obtain ⟨R, w0⟩ := a
  dsimp only at ha ⊢
  exact ha.trans (runTargets_keepsUser (engine d (2 * n + 4)) (engine_keeps d _) d
    { runid := R, crash := some (t, k) } (2 * n + 4) ts [] false w0)

/-- The user operations that are redo commands (as opposed to the user's own edits). -/
def UserOp.isCommand : UserOp → Bool
  | .cmd _ => true
  | .crashCmd _ _ _ => true
  | _ => false

theorem applyOp_keepsUser (d : Defects) (n : Nat) (op : UserOp) (hop : op.isCommand = true) (w : World) :
    KeepsUser w (applyOp d n op w).2 := by
  cases op with
  | cmd c => exact runCmd_keepsUser d n c w
  | crashCmd ts t k => exact crashCmd_keepsUser d n ts t k w
  | write f v => cases hop
  | remove f => cases hop
  | chmod f => cases hop
  | hide f => cases hop
  | unhide f => cases hop
  | setProg c s => cases hop

/-- The world after a list of operations. -/
def runOps (d : Defects) (n : Nat) (ops : List UserOp) (w : World) : World :=
  ops.foldl (fun w op => (applyOp d n op w).2) w

/-- **C11, whole histories.**  Between two user actions, however many redo commands of whatever kind run
(including killed ones), every user-owned file is byte-for-byte the same and still user-owned. -/
theorem history_keepsUser (d : Defects) (n : Nat) :
    ∀ (ops : List UserOp), (∀ op ∈ ops, op.isCommand = true) → ∀ (w : World), KeepsUser w (runOps d n ops w)
  | [], _, w => KeepsUser.refl w
  | op :: ops, h, w => by
    unfold runOps
    rw [List.foldl_cons]
    exact (applyOp_keepsUser d n op (h op (List.mem_cons_self ..)) w).trans
      (history_keepsUser d n ops (fun o ho => h o (List.mem_cons_of_mem _ ho)) _)

/-- **C11 in plain words.**  A file that exists and is not redo's has the same node (content, mtime/size,
inode/mode) after any command. -/
theorem runCmd_user_file_same (d : Defects) (n : Nat) (c : Cmd) (w : World) (f : Nat) (h : UserOwned w f) :
    (runCmd d n c w).2.fs f = w.fs f :=
  (runCmd_keepsUser d n c w f h).1

/-- … in particular it still exists (never deleted). -/
theorem runCmd_user_file_exists (d : Defects) (n : Nat) (c : Cmd) (w : World) (f : Nat) (h : UserOwned w f) :
    existsF (runCmd d n c w).2 f = true :=
  (runCmd_keepsUser d n c w f h).2.1

/-- The same after any sequence of commands. -/
theorem history_user_file_same (d : Defects) (n : Nat) (ops : List UserOp) (hops : ∀ op ∈ ops, op.isCommand = true)
    (w : World) (f : Nat) (h : UserOwned w f) : (runOps d n ops w).fs f = w.fs f :=
  (history_keepsUser d n ops hops w f h).1

/-! ### Non-vacuity

Files: 1 = a hand-written file whose name matches a .do rule, 2 = the .do file, 3 = a target with the same
rule.  `redo 1 3` runs the .do for 3 (so the command does write files) and leaves 1 alone. -/

def exRules : Nat → List Nat := fun t => if t = 1 ∨ t = 3 then [2] else []

def exW0 : World :=
  runOps {} 4 [.write 2 0, .setProg (srcContent 0) { tag := 7 }, .write 1 1] (initWorld exRules)

instance (w : World) (f : Nat) : Decidable (UserOwned w f) := by unfold UserOwned; exact inferInstance

/-- The hypothesis of the theorems holds on a concrete state … -/
example : UserOwned exW0 1 := by decide +kernel

/-- … the command is not a no-op there (it creates file 3 by running the .do file) … -/
example : (runCmd {} 4 (.redo [1, 3] false) exW0).2.fs 3 ≠ exW0.fs 3 := by decide +kernel

/-- … and the theorem applies: file 1 is the same. -/
example : (runCmd {} 4 (.redo [1, 3] false) exW0).2.fs 1 = exW0.fs 1 :=
  runCmd_user_file_same {} 4 _ exW0 1 (by decide +kernel)

example : KeepsUser exW0 (runCmd {} 4 (.redo [1, 3] false) exW0).2 := runCmd_keepsUser {} 4 _ exW0

/-- A generated file edited by hand: build 3, then the user rewrites it; it is user-owned through the stamp
mismatch, and a later `redo 3` (which would otherwise rebuild it) keeps it. -/
def exW1 : World :=
  runOps {} 4 [.cmd (.redo [3] false), .write 3 5] exW0

example : (exW1.recs 3).isGenerated = true ∧ (exW1.recs 3).isOverride = false ∧ UserOwned exW1 3 := by
  decide +kernel

example : (runCmd {} 4 (.redo [3] false) exW1).2.fs 3 = exW1.fs 3 :=
  runCmd_user_file_same {} 4 _ exW1 3 (by decide +kernel)

/-- A history of commands of every kind, one of them killed. -/
def exOps : List UserOp :=
  [.cmd (.redo [1, 3] false), .cmd (.ifchange [3] true), .crashCmd [3] 3 0, .cmd .ood, .cmd .targets, .cmd .sources]

example : KeepsUser exW0 (runOps {} 4 exOps exW0) :=
  history_keepsUser {} 4 exOps (by decide) exW0

example : (runOps {} 4 exOps exW0).fs 1 = exW0.fs 1 ∧ (runOps {} 4 exOps exW0).fs 3 ≠ exW0.fs 3 :=
  ⟨history_user_file_same {} 4 exOps (by decide) exW0 1 (by decide +kernel), by decide +kernel⟩

end RedoModel.Deps

section
open RedoModel.Deps
#print axioms runCmd_keepsUser
#print axioms history_keepsUser
#print axioms runCmd_user_file_same
#print axioms history_user_file_same
#print axioms engine_keeps
end
