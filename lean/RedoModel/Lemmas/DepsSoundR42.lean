import RedoModel.Lemmas.DepsSoundR41
/-! **C01 for rich histories without the write restriction.**  `noStaleRich` asked (`OpsOk`) that the user never
writes a file at the name of a redo-owned target whose recorded stamp is "missing" (a target whose script produced
no output).  The invariant now remembers "recorded as absent" (`contentV`, `RecCurV`, the third conjunct of the
reads clause of `RecTruth`), so the restriction is not needed: `OpsOkW` (the `setProg` condition alone) suffices. -/
namespace RedoModel.Deps.Rich
open RedoModel.Generated

/-- `noStaleRich` with `OpsOkW` in place of `OpsOk`: the user may write ANY file but `//ALWAYS` at any time. -/
theorem noStaleRichFree (n : Nat) (rules : Nat → List Nat) (rank : Nat → Nat) (ops : List UserOp) (ts : List Nat)
    (kg forced : Bool) (hr : RulesOk rules) (hp : ∀ op ∈ ops, RichOp rules op)
    (hrk : ∀ w ∈ worldsOf n {} (initWorld rules) ops, RankedR rank w) (hN : ∀ f, rank f < n)
    (hok : OpsOkW n (initWorld rules) ops) (hts0 : ∀ t ∈ ts, t ≠ alwaysId) :
    let w := ops.foldl (fun w op => (applyOp {} n op w).2) (initWorld rules)
    let r := runCmd {} n (if forced then .redo ts kg else .ifchange ts kg) w
    r.1.status = 0 → ∀ t ∈ ts, UpToDateR r.2 t := by
  intro w r
  have h0 : Btw rank (initWorld rules) := Btw_init hr (hrk _ (worldsOf_head n {} _ ops))
  obtain ⟨hb, _⟩ := history_btw hN ops (initWorld rules) h0 rfl hp hrk hok
  exact runCmd_sound {} hN hb ts kg forced hts0

end RedoModel.Deps.Rich

namespace RedoModel.Deps.Rich
open RedoModel.Generated

/-! Non-vacuity: target 2 has a script without output, target 3 declares and reads 2.  After a first build the user
puts a file at the name 2 (a write the old `OpsOk` forbids), removes it again, and asks for 3. -/
def q2 : Script := { outMode := 2, tag := 1 }
def q3 : Script := { ifchange := [[2]], reads := [2], tag := 2 }
def sqOps : List UserOp :=
  [.setProg [17] q2, .setProg [19] q3, .write 1 7, .write 4 8, .cmd (.ifchange [3] false), .write 2 9, .remove 2]
def sqW : World := sqOps.foldl (fun w op => (applyOp {} 3 op w).2) (initWorld r3Rules)
def sqRes : Result × World := runCmd {} 3 (.ifchange [3] false) sqW

set_option linter.unusedSimpArgs false in
set_option maxHeartbeats 4000000 in
theorem sq_run : sqRes.1.status = 0 ∧ sqRes.2.trace = [.ran 2, .ran 3] ∧ contentOf sqRes.2 2 = none := by
  unfold sqRes sqW sqOps q2 q3 r3Rules contentOf
  simp (config := { zeta := true, zetaHave := true, decide := true }) [runCmd, allocRun, applyOp, initWorld, engine,
    runTargets, buildJob, shouldBuild, isDirty, goDeps, startSelf, recordNewState, runScript, runScript.cmds,
    runScript.conds, ifchangeWith, findDoFile, addDep, addKnown, setRec, setFile, ev, getRec, readStamp, existsF,
    newNode, srcContent, outContent, depsWithRecs, depsOf, zapDeps1, zapDeps2, updateStamp, setChanged, setStatic,
    setFailed, setOverride, detectOverride, isCheckedR, isChangedR, isFailedR, alwaysId,
    List.mergeSort, List.MergeSort.Internal.splitInTwo, List.merge, CRASHED, EXIT_CYCLIC_DEPENDENCY,
    EXIT_TARGET_FAILED, EXIT_FAILURE, stampRec]

/-- The history is outside the old theorem: `OpsOk` fails at the write of 2. -/
theorem sq_not_opsOk : ¬ OpsOk 3 (initWorld r3Rules) sqOps := by
  intro h
  exact h.2.2.2.2.2.1 (by decide +kernel) (by decide +kernel)

theorem sq_ops : ∀ op ∈ sqOps, RichOp r3Rules op := by
  intro op hop
  simp only [sqOps, List.mem_cons, List.not_mem_nil, or_false] at hop
  rcases hop with rfl | rfl | rfl | rfl | rfl | rfl | rfl
  · exact ⟨rfl, by intro f hf; simp [q2] at hf, by intro f hf; simp [q2] at hf⟩
  · exact ⟨rfl, by intro f hf; left; simpa [q3] using hf, by intro f hf; simp [q3] at hf⟩
  · simp [RichOp, alwaysId]
  · simp [RichOp, alwaysId]
  · intro t ht; simp only [Cmd.names, List.mem_singleton] at ht; subst ht; simp [alwaysId]
  · simp [RichOp, alwaysId]
  · simp [RichOp, alwaysId]

theorem sq_ranked_of (w : World) (hr : w.rules = r3Rules)
    (hp : ∀ c sc, w.progs c = some sc → (c = [17] ∧ sc = q2) ∨ (c = [19] ∧ sc = q3))
    (h1 : ∀ n, w.fs 1 = some n → n.content = [17]) (h4 : ∀ n, w.fs 4 = some n → n.content = [19]) :
    RankedR r3Rank w := by
  refine ⟨fun t c hc => ?_, fun t dof hd n sc hn h => ?_⟩
  · rw [hr] at hc; unfold r3Rules at hc
    split at hc
    · simp at hc; subst hc; subst_vars; simp [r3Rank]
    · split at hc
      · simp at hc; subst hc; subst_vars; simp [r3Rank]
      · simp at hc
  · rw [hr] at hd; unfold r3Rules at hd
    split at hd
    · simp only [List.mem_singleton] at hd; subst hd; subst_vars
      have hc := h1 n hn
      rw [hc] at h
      rcases hp _ _ h with ⟨_, rfl⟩ | ⟨hc', _⟩
      · exact ⟨fun ha => by simp [q2] at ha, fun d hdm => by simp [q2] at hdm, fun d hdm => by simp [q2] at hdm⟩
      · simp at hc'
    · split at hd
      · simp only [List.mem_singleton] at hd; subst hd; subst_vars
        have hc := h4 n hn
        rw [hc] at h
        rcases hp _ _ h with ⟨hc', _⟩ | ⟨_, rfl⟩
        · simp at hc'
        · refine ⟨fun ha => by simp [q3] at ha, fun d hdm => ?_, fun d hdm => by simp [q3] at hdm⟩
          have : d = 2 := by simpa [q3] using hdm
          subst this; simp [r3Rank, alwaysId]
      · simp at hd

theorem sq_progs0 (w : World) (hp : w.progs = fun _ => none) :
    ∀ c sc, w.progs c = some sc → (c = [17] ∧ sc = q2) ∨ (c = [19] ∧ sc = q3) := by
  intro c sc h; rw [hp] at h; cases h

theorem sq_progs1 (w : World) (hp : w.progs = fun x => if x = [17] then some q2 else none) :
    ∀ c sc, w.progs c = some sc → (c = [17] ∧ sc = q2) ∨ (c = [19] ∧ sc = q3) := by
  intro c sc h
  rw [hp] at h
  simp only at h
  split at h
  · exact Or.inl ⟨by assumption, (Option.some.inj h).symm⟩
  · cases h

theorem sq_progs2 (w : World)
    (hp : w.progs = fun x => if x = [19] then some q3 else if x = [17] then some q2 else none) :
    ∀ c sc, w.progs c = some sc → (c = [17] ∧ sc = q2) ∨ (c = [19] ∧ sc = q3) := by
  intro c sc h
  rw [hp] at h
  simp only at h
  split at h
  · exact Or.inr ⟨by assumption, (Option.some.inj h).symm⟩
  · split at h
    · exact Or.inl ⟨by assumption, (Option.some.inj h).symm⟩
    · cases h

theorem sq_ranked : ∀ w ∈ worldsOf 3 {} (initWorld r3Rules) sqOps, RankedR r3Rank w := by
  intro w hw
  simp only [sqOps, worldsOf, List.mem_cons, List.not_mem_nil, or_false] at hw
  rcases hw with rfl | rfl | rfl | rfl | rfl | rfl | rfl | rfl
  · exact sq_ranked_of _ rfl (sq_progs0 _ rfl) (fsc_of (by decide +kernel)) (fsc_of (by decide +kernel))
  · exact sq_ranked_of _ rfl (sq_progs1 _ rfl) (fsc_of (by decide +kernel)) (fsc_of (by decide +kernel))
  · exact sq_ranked_of _ rfl (sq_progs2 _ rfl) (fsc_of (by decide +kernel)) (fsc_of (by decide +kernel))
  · exact sq_ranked_of _ rfl (sq_progs2 _ rfl) (fsc_of (by decide +kernel)) (fsc_of (by decide +kernel))
  · exact sq_ranked_of _ rfl (sq_progs2 _ rfl) (fsc_of (by decide +kernel)) (fsc_of (by decide +kernel))
  · exact sq_ranked_of _ rfl (sq_progs2 _ rfl) (fsc_of (by decide +kernel)) (fsc_of (by decide +kernel))
  · exact sq_ranked_of _ rfl (sq_progs2 _ rfl) (fsc_of (by decide +kernel)) (fsc_of (by decide +kernel))
  · exact sq_ranked_of _ rfl (sq_progs2 _ rfl) (fsc_of (by decide +kernel)) (fsc_of (by decide +kernel))

theorem sq_opsOkW : OpsOkW 3 (initWorld r3Rules) sqOps := by
  refine ⟨?_, ?_, trivial, trivial, trivial, trivial, trivial, trivial⟩
  · intro t dof _ n hn; cases hn
  · intro t dof _ n hn; cases hn

/-- Non-vacuity of `noStaleRichFree` on a history that `noStaleRich` does not cover (`sq_not_opsOk`): after the user
has put a file at the name of the output-less target 2 and removed it again, `redo-ifchange 3` exits 0 without
running anything, and 3 is up to date. -/
example : UpToDateR sqRes.2 3 :=
  noStaleRichFree 3 r3Rules r3Rank sqOps [3] false false r3_rulesOk sq_ops sq_ranked r3_rankLt sq_opsOkW
    (by simp [alwaysId]) sq_run.1 3 (by simp)

end RedoModel.Deps.Rich
