import RedoModel.Lemmas.Deps
/-!
# C11 at the level of whole commands — part 1: definitions, algebra of the relations, the dirtiness check

`UserOwned w f` : file `f` exists and redo must not touch it.
`KeepsUser w w'` : every user-owned file of `w` is byte-for-byte the same in `w'` and still user-owned.
`SameOwn w w'`   : same files, and the three record fields that decide ownership are the same for
                    every existing file (what the dirtiness check and the bookkeeping writes satisfy).
-/
namespace RedoModel.Deps

/-- A file that exists and that redo must not touch: not recorded as generated, or marked overridden,
or generated but its (mtime,size) differs from the recorded stamp (edited/replaced by hand). -/
def UserOwned (w : World) (f : Nat) : Prop :=
  existsF w f = true ∧ ((w.recs f).isGenerated = false ∨ (w.recs f).isOverride = true ∨
     detectOverride ((w.recs f).stamp.getD .missing) (readStamp w f) = true)

/-- `w'` keeps every user-owned file of `w` byte-for-byte (same FNode) and still user-owned. -/
def KeepsUser (w w' : World) : Prop := ∀ f, UserOwned w f → w'.fs f = w.fs f ∧ UserOwned w' f

/-- The same, for every file but `t` (the target of the job in progress). -/
def KeepsUserEx (t : Nat) (w w' : World) : Prop :=
  ∀ f, f ≠ t → UserOwned w f → w'.fs f = w.fs f ∧ UserOwned w' f

/-- The record fields ownership depends on. -/
def KeyEq (a b : Rec) : Prop :=
  a.isGenerated = b.isGenerated ∧ a.isOverride = b.isOverride ∧ a.stamp = b.stamp

/-- Same files; same ownership fields for every existing file. -/
def SameOwn (w w' : World) : Prop :=
  w'.fs = w.fs ∧ ∀ f, existsF w f = true → KeyEq (w'.recs f) (w.recs f)

theorem KeyEq.refl (a : Rec) : KeyEq a a := ⟨rfl, rfl, rfl⟩
theorem KeyEq.symm {a b : Rec} (h : KeyEq a b) : KeyEq b a := ⟨h.1.symm, h.2.1.symm, h.2.2.symm⟩
theorem KeyEq.trans {a b c : Rec} (h1 : KeyEq a b) (h2 : KeyEq b c) : KeyEq a c :=
  ⟨h1.1.trans h2.1, h1.2.1.trans h2.2.1, h1.2.2.trans h2.2.2⟩

theorem existsF_congr {w w' : World} {f : Nat} (h : w'.fs f = w.fs f) : existsF w' f = existsF w f := by
  unfold existsF; rw [h]

theorem readStamp_congr {w w' : World} {f : Nat} (h : w'.fs f = w.fs f) : readStamp w' f = readStamp w f := by
  unfold readStamp; rw [h]

/-- Ownership of `f` depends only on the node of `f` and the three fields of its record. -/
theorem UserOwned.of_key {w w' : World} {f : Nat} (hfs : w'.fs f = w.fs f) (hk : KeyEq (w'.recs f) (w.recs f))
    (h : UserOwned w f) : UserOwned w' f := by
  obtain ⟨h1, h2⟩ := h
  refine ⟨by rw [existsF_congr hfs]; exact h1, ?_⟩
  rw [hk.1, hk.2.1, hk.2.2, readStamp_congr hfs]
  exact h2

theorem UserOwned.congr {w w' : World} {f : Nat} (hfs : w'.fs f = w.fs f) (hr : w'.recs f = w.recs f)
    (h : UserOwned w f) : UserOwned w' f :=
  UserOwned.of_key hfs (by rw [hr]; exact KeyEq.refl _) h

/-! ### Algebra -/

theorem KeepsUser.refl (w : World) : KeepsUser w w := fun _ h => ⟨rfl, h⟩

theorem KeepsUser.trans {a b c : World} (h1 : KeepsUser a b) (h2 : KeepsUser b c) : KeepsUser a c := by
  intro f hf
  obtain ⟨e1, u1⟩ := h1 f hf
  obtain ⟨e2, u2⟩ := h2 f u1
  exact ⟨e2.trans e1, u2⟩

theorem KeepsUserEx.refl (t : Nat) (w : World) : KeepsUserEx t w w := fun _ _ h => ⟨rfl, h⟩

theorem KeepsUserEx.trans {t : Nat} {a b c : World} (h1 : KeepsUserEx t a b) (h2 : KeepsUserEx t b c) :
    KeepsUserEx t a c := by
  intro f hne hf
  obtain ⟨e1, u1⟩ := h1 f hne hf
  obtain ⟨e2, u2⟩ := h2 f hne u1
  exact ⟨e2.trans e1, u2⟩

theorem KeepsUser.ex {w w' : World} (h : KeepsUser w w') (t : Nat) : KeepsUserEx t w w' := fun f _ hf => h f hf

/-- If the excepted file was not user-owned to begin with, nothing is excepted. -/
theorem KeepsUserEx.toKeeps {t : Nat} {w w' : World} (h : KeepsUserEx t w w') (ht : ¬ UserOwned w t) :
    KeepsUser w w' := by
  intro f hf
  by_cases hft : f = t
  · subst hft; exact absurd hf ht
  · exact h f hft hf

theorem SameOwn.refl (w : World) : SameOwn w w := ⟨rfl, fun _ _ => KeyEq.refl _⟩

theorem SameOwn.trans {a b c : World} (h1 : SameOwn a b) (h2 : SameOwn b c) : SameOwn a c := by
  refine ⟨h2.1.trans h1.1, fun f hf => ?_⟩
  have hb : existsF b f = true := by rw [existsF_congr (congrFun h1.1 f)]; exact hf
  exact (h2.2 f hb).trans (h1.2 f hf)

theorem SameOwn.keeps {w w' : World} (h : SameOwn w w') : KeepsUser w w' := by
  intro f hf
  have hfs : w'.fs f = w.fs f := congrFun h.1 f
  exact ⟨hfs, UserOwned.of_key hfs (h.2 f hf.1) hf⟩

/-- Ownership is the same on both sides of `SameOwn`. -/
theorem SameOwn.owned_iff {w w' : World} (h : SameOwn w w') (f : Nat) : UserOwned w' f ↔ UserOwned w f := by
  have hfs : w'.fs f = w.fs f := congrFun h.1 f
  constructor
  · intro hf
    have hex : existsF w f = true := by rw [← existsF_congr hfs]; exact hf.1
    exact UserOwned.of_key hfs.symm (h.2 f hex).symm hf
  · exact fun hf => (h.keeps f hf).2

/-! ### Building blocks -/

theorem SameOwn.ev (w : World) (e : Ev) : SameOwn w (ev w e) := ⟨rfl, fun _ _ => KeyEq.refl _⟩

theorem SameOwn.zapDeps1 (w : World) (t : Nat) : SameOwn w (zapDeps1 w t) := ⟨rfl, fun _ _ => KeyEq.refl _⟩

theorem SameOwn.zapDeps2 (w : World) (t : Nat) : SameOwn w (zapDeps2 w t) := ⟨rfl, fun _ _ => KeyEq.refl _⟩

/-- Writing a record that keeps the three fields (or the record of a file that does not exist). -/
theorem SameOwn.setRec_key (w : World) (f : Nat) (r : Rec) (h : existsF w f = true → KeyEq r (w.recs f)) :
    SameOwn w (setRec w f r) := by
  refine ⟨rfl, fun x hx => ?_⟩
  by_cases hxf : x = f
  · subst hxf; simp only [setRec, if_true]; exact h hx
  · simp only [setRec, hxf, if_false]; exact KeyEq.refl _

theorem existsF_false_of_missing {w : World} {f : Nat} (h : readStamp w f = .missing) : existsF w f = false := by
  unfold readStamp at h; unfold existsF
  cases hfs : w.fs f with
  | none => rfl
  | some n => rw [hfs] at h; cases h

theorem SameOwn.setRec_vanished (w : World) (f : Nat) (r : Rec) {p : Prop} (h : readStamp w f = .missing ∧ p) :
    SameOwn w (setRec w f r) :=
  SameOwn.setRec_key w f r (fun hx => by rw [existsF_false_of_missing h.1] at hx; cases hx)

theorem SameOwn.addKnown (w : World) (f : Nat) : SameOwn w (addKnown w f) := by
  unfold Deps.addKnown
  split
  · exact SameOwn.refl w
  · refine ⟨rfl, fun x _ => ?_⟩
    by_cases hxf : x = f
    · subst hxf; simp only [setRec, if_true]; exact KeyEq.refl _
    · simp only [setRec, hxf, if_false]; exact KeyEq.refl _

theorem SameOwn.addDep (w : World) (t s : Nat) (m : Bool) : SameOwn w (addDep w t s m) := by
  have h := SameOwn.addKnown w s
  exact ⟨h.1, h.2⟩

theorem SameOwn.foldl_addDep (p : Nat) (m : Bool) : ∀ (ts : List Nat) (w : World),
    SameOwn w (ts.foldl (fun w t => Deps.addDep w p t m) w)
  | [], w => SameOwn.refl w
  | t :: ts, w => by
    rw [List.foldl_cons]
    exact (SameOwn.addDep w p t m).trans (SameOwn.foldl_addDep p m ts _)

/-- A record write keeps user files if it does not make the written file cease to be user-owned. -/
theorem KeepsUser.setRec (w : World) (t : Nat) (r : Rec)
    (h : UserOwned w t → UserOwned (setRec w t r) t) : KeepsUser w (setRec w t r) := by
  intro f hf
  refine ⟨rfl, ?_⟩
  by_cases hft : f = t
  · subst hft; exact h hf
  · exact UserOwned.congr (w := w) (w' := Deps.setRec w t r) rfl (by simp [Deps.setRec, hft]) hf

/-- Anything that changes only the node and the record of `t`. -/
theorem KeepsUserEx.of_off {t : Nat} {w w' : World}
    (h : ∀ f, f ≠ t → w'.fs f = w.fs f ∧ w'.recs f = w.recs f) : KeepsUserEx t w w' :=
  fun f hne hf => ⟨(h f hne).1, UserOwned.congr (h f hne).1 (h f hne).2 hf⟩

theorem KeepsUserEx.setRec (w : World) (t : Nat) (r : Rec) : KeepsUserEx t w (setRec w t r) :=
  KeepsUserEx.of_off (fun f hne => ⟨rfl, by simp [Deps.setRec, hne]⟩)

theorem getRec_keyEq (w : World) (R f : Nat) : KeyEq (getRec w R f) (w.recs f) := by
  unfold getRec
  split <;> exact ⟨rfl, rfl, rfl⟩

/-! ### The dirtiness check -/

theorem goDeps_sameOwn (chk : World → List Nat → Nat → Rec → DR × World × List Nat)
    (hchk : ∀ w c s r, (existsF w s = true → KeyEq r (w.recs s)) → SameOwn w (chk w c s r).2.1)
    (hasCsum : Bool) (f : Nat) :
    ∀ (ds : List (Dep × Rec)) (w : World) (cache must : List Nat),
      (∀ p ∈ ds, existsF w p.1.source = true → KeyEq p.2 (w.recs p.1.source)) →
      SameOwn w (goDeps chk hasCsum f ds w cache must).2.1
  | [], w, cache, must, _ => by simp [goDeps, SameOwn.refl]
  | (d, snap) :: ds, w, cache, must, hds => by
    have hrest : ∀ w1, SameOwn w w1 →
        ∀ p ∈ ds, existsF w1 p.1.source = true → KeyEq p.2 (w1.recs p.1.source) := by
      intro w1 h1 p hp hex
      have hex0 : existsF w p.1.source = true := by
        rw [← existsF_congr (congrFun h1.1 p.1.source)]; exact hex
      exact (hds p (List.mem_cons_of_mem _ hp) hex0).trans (h1.2 _ hex0).symm
    rw [goDeps]
    by_cases hm : d.modeM = true
    · simp only [hm, if_true]
      have h1 := hchk w cache d.source snap (hds (d, snap) (List.mem_cons_self ..))
      generalize chk w cache d.source snap = r at h1
      obtain ⟨sub, w1, c1⟩ := r
      cases sub with
      | cyclic => exact h1
      | clean => exact h1.trans (goDeps_sameOwn chk hchk hasCsum f ds w1 c1 must (hrest w1 h1))
      | dirty => exact h1
      | need ts => exact h1.trans (goDeps_sameOwn chk hchk hasCsum f ds w1 c1 (must ++ ts) (hrest w1 h1))
    · have hr := hrest w (SameOwn.refl w)
      simp only [hm, Bool.false_eq_true, if_false]
      split
      · rename_i heq
        split at heq <;> cases heq
        all_goals exact SameOwn.refl w
      · rename_i heq
        split at heq <;> cases heq
        all_goals exact goDeps_sameOwn chk hchk hasCsum f ds w cache must hr
      · rename_i heq
        split at heq <;> cases heq
        all_goals exact SameOwn.refl w
      · rename_i heq
        split at heq <;> cases heq

theorem depsWithRecs_keyEq (w : World) (R : Nat) (r : Rec) (f : Nat) :
    ∀ p ∈ depsWithRecs w R r f, existsF w p.1.source = true → KeyEq p.2 (w.recs p.1.source) := by
  intro p hp _
  unfold depsWithRecs at hp
  rw [List.mem_map] at hp
  obtain ⟨d, _, rfl⟩ := hp
  exact getRec_keyEq w R d.source

/-- The dirtiness check keeps every file, and the ownership fields of every existing file, provided the
record copy it is handed agrees with the database on those fields. -/
theorem isDirty_sameOwn (ood : Bool) (R : Nat) :
    ∀ (fuel : Nat) (w : World) (cache : List Nat) (f mx : Nat) (seen : List Nat) (pre : Option Rec),
      (∀ s, pre = some s → existsF w f = true → KeyEq s (w.recs f)) →
      SameOwn w (isDirty ood R fuel w cache f mx seen pre).2.1
  | 0, w, cache, f, mx, seen, pre, _ => by simp [isDirty, SameOwn.refl]
  | fuel + 1, w, cache, f, mx, seen, pre, hpre => by
    have hr : existsF w f = true → KeyEq (pre.getD (getRec w R f)) (w.recs f) := by
      intro hex
      cases pre with
      | none => exact getRec_keyEq w R f
      | some s => exact hpre s rfl hex
    have hg : ∀ mx' hc r, SameOwn w (goDeps
        (fun w cache s snap => isDirty ood R fuel w cache s mx' (f :: seen) (some snap)) hc f
          (depsWithRecs w R r f) w cache []).2.1 :=
      fun mx' hc r => goDeps_sameOwn _
        (fun w c s r hs => isDirty_sameOwn ood R fuel w c s _ _ _ (fun s' hs' hex => by cases hs'; exact hs hex))
        hc f _ w cache [] (depsWithRecs_keyEq w R r f)
    have hfin : ∀ (w1 : World) (c : Option Nat), SameOwn w w1 →
        SameOwn w (setRec w1 f { (pre.getD (getRec w R f)) with checked := c }) := by
      intro w1 c h1
      refine h1.trans (SameOwn.setRec_key w1 f _ (fun hex => ?_))
      have hex0 : existsF w f = true := by rw [← existsF_congr (congrFun h1.1 f)]; exact hex
      have := (hr hex0).trans (h1.2 f hex0).symm
      exact ⟨this.1, this.2.1, this.2.2⟩
    simp (config := {zeta := true, zetaHave := true}) only [isDirty]
    repeat' split
    all_goals try (first | exact SameOwn.refl w | (apply SameOwn.setRec_vanished; assumption))
    all_goals
      first
        | (rename_i heq
           have e := congrArg (fun x => x.2.1) heq
           dsimp only at e ⊢
           first
            | (rw [← e]; exact hg _ _ _)
            | (apply hfin; rw [← e]; exact hg _ _ _))
        | (rename_i heq hcond
           have e := congrArg (fun x => x.2.1) heq
           dsimp only at e ⊢
           first
            | (rw [← e]; exact hg _ _ _)
            | (apply hfin; rw [← e]; exact hg _ _ _)
            | (refine SameOwn.trans ?_ (SameOwn.ev _ _); rw [← e]; exact hg _ _ _)
            | (apply hfin; refine SameOwn.trans ?_ (SameOwn.ev _ _); rw [← e]; exact hg _ _ _))

end RedoModel.Deps
