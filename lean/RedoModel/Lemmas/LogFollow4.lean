import RedoModel.LogFollow
/-!
# `redo-log` — reassembly of partial reads (`line_head`): gluing pieces is splitting the byte stream at newlines
-/
namespace RedoModel.LogFollow

theorem splitLines_append_clean (q rest : List Nat) : ∀ acc, 10 ∉ q →
    splitLines acc (q ++ rest) = splitLines (acc ++ q) rest := by
  induction q with
  | nil => intro acc _; simp
  | cons b q ih =>
    intro acc h
    have hb : b ≠ 10 := fun hb => h (hb ▸ List.mem_cons_self)
    have hq : 10 ∉ q := fun hq => h (List.mem_cons_of_mem _ hq)
    simp only [List.cons_append, splitLines, hb, if_false]
    rw [ih _ hq]; simp

theorem splitLines_nl (acc rest : List Nat) :
    splitLines acc (10 :: rest) = ((acc :: (splitLines [] rest).1), (splitLines [] rest).2) := by
  simp [splitLines]

theorem dropLast_append_last (p : List Nat) (a : Nat) (h : p.getLast? = some a) : p.dropLast ++ [a] = p := by
  obtain ⟨ys, rfl⟩ := List.getLast?_eq_some_iff.mp h; simp

/-- A piece whose body has no newline and that does not end in one has none at all. -/
theorem clean_of_last (p : List Nat) (h : 10 ∉ p.dropLast) (hl : p.getLast? ≠ some 10) : 10 ∉ p := by
  cases hg : p.getLast? with
  | none => simp [List.getLast?_eq_none_iff.mp hg]
  | some a =>
    have hp : p.dropLast ++ [a] = p := dropLast_append_last p a hg
    intro hm
    rw [← hp] at hm
    rcases List.mem_append.mp hm with hm | hm
    · exact h hm
    · simp only [List.mem_singleton] at hm
      exact hl (by rw [hg, hm])

theorem feedAll_pair (head : List Nat) (ps : List (List Nat)) :
    feedAll head ps = ((feedAll head ps).1, (feedAll head ps).2) := rfl

/-- Main statement 6, generalised over the head. -/
theorem feedAll_eq_splitLines (ps : List (List Nat)) : ∀ head, (∀ p ∈ ps, 10 ∉ p.dropLast) →
    feedAll head ps = splitLines head ps.flatten := by
  induction ps with
  | nil => intro head _; simp [feedAll, splitLines]
  | cons p ps ih =>
    intro head h
    have hp := h p List.mem_cons_self
    have hps : ∀ q ∈ ps, 10 ∉ q.dropLast := fun q hq => h q (List.mem_cons_of_mem _ hq)
    by_cases hl : p.getLast? = some 10
    · have hpe : p.dropLast ++ [10] = p := dropLast_append_last p 10 hl
      have e1 : feedAll head (p :: ps) =
          ((head ++ p.dropLast) :: (feedAll [] ps).1, (feedAll [] ps).2) := by
        simp [feedAll, feed, hl]
      rw [e1, ih [] hps, List.flatten_cons]
      conv => rhs; rw [← hpe]
      rw [List.append_assoc, splitLines_append_clean _ _ _ hp]
      simp [splitLines_nl]
    · have e1 : feedAll head (p :: ps) = feedAll (head ++ p) ps := by
        simp [feedAll, feed, hl]
      rw [e1, ih _ hps, List.flatten_cons, splitLines_append_clean _ _ _ (clean_of_last p hp hl)]

theorem feed_is_split_core (ps : List (List Nat)) (head : List Nat) (h : ∀ p ∈ ps, Piece p) :
    feedAll head ps = splitLines head ps.flatten :=
  feedAll_eq_splitLines ps head (fun p hp => (h p hp).2)

end RedoModel.LogFollow
