import RedoModel.Lemmas.DepsSoundRK0
/-!
Killed builds, rich histories: the side conditions that make a half-finished build harmless, and a frame (`Tr`)
that every step of the engine respects.

`NoWatchP`: no script in `progs` uses `redo-ifcreate` or conditional declarations (the hypothesis forced by the
counterexample of `DepsSoundRK0`).  `RowsM`: the only `c` rows are those `findDoFile` writes for an absent .do
candidate of the target, and a key (target, source) never carries both modes.  Under both (and `SingleDo`) every
row a build adds *before* it is killed is an `m` row that replaces no `c` row, so the old record of the target keeps
its promise.
-/
namespace RedoModel.Deps.Rich
open RedoModel.Generated

/-- No script uses `redo-ifcreate` or conditional declarations. -/
def NoWatchP (w : World) : Prop := ∀ c sc, w.progs c = some sc → sc.ifcreate = [] ∧ sc.cond = []

/-- `c` rows sit on .do candidates of their target only, and never beside an `m` row with the same key. -/
def RowsM (w : World) : Prop := ∀ x s, HasRow w x s false → s ∈ w.rules x ∧ ¬ HasRow w x s true

theorem scriptAt_noWatch {w : World} (h : NoWatchP w) (dof : Nat) :
    (scriptAt w dof).ifcreate = [] ∧ (scriptAt w dof).cond = [] := by
  unfold scriptAt
  cases w.fs dof with
  | none => exact ⟨rfl, rfl⟩
  | some n =>
    simp only
    cases hp : w.progs n.content with
    | none => exact ⟨rfl, rfl⟩
    | some sc => exact h _ _ hp

theorem RowsM.sub {w w' : World} (hr : w'.rules = w.rules) (hs : ∀ x s m, HasRow w' x s m → HasRow w x s m)
    (h : RowsM w) : RowsM w' := by
  intro x s hc
  obtain ⟨a, b⟩ := h x s (hs x s false hc)
  exact ⟨by rw [hr]; exact a, fun hm => b (hs x s true hm)⟩

theorem hasRow_addDep {w : World} {t s : Nat} {m : Bool} {x y : Nat} {m' : Bool} :
    HasRow (addDep w t s m) x y m' ↔ (x = t ∧ y = s ∧ m' = m) ∨ (HasRow w x y m' ∧ ¬ (x = t ∧ y = s)) := by
  constructor
  · rintro ⟨d, hd, h1, h2, h3⟩
    rcases addDep_mem hd with rfl | ⟨h, hne⟩
    · exact Or.inl ⟨h1.symm, h2.symm, h3.symm⟩
    · exact Or.inr ⟨⟨d, h, h1, h2, h3⟩, by rw [← h1, ← h2]; exact hne⟩
  · rintro (⟨rfl, rfl, rfl⟩ | ⟨h, hne⟩)
    · exact addDep_hasRow_new w x y m'
    · exact addDep_hasRow_keep h hne

theorem addDep_rules (w : World) (t s : Nat) (m : Bool) : (addDep w t s m).rules = w.rules :=
  (RowOp.addDep w t s m).rules

theorem addDep_progs (w : World) (t s : Nat) (m : Bool) : (addDep w t s m).progs = w.progs :=
  (RowOp.addDep w t s m).progs

theorem RowsM.addDepM {w : World} (t s : Nat) (h : RowsM w) : RowsM (addDep w t s true) := by
  intro x y hc
  rw [addDep_rules]
  rcases hasRow_addDep.1 hc with ⟨_, _, e⟩ | ⟨hc0, hne⟩
  · cases e
  · obtain ⟨a, b⟩ := h x y hc0
    refine ⟨a, fun hm => ?_⟩
    rcases hasRow_addDep.1 hm with ⟨e1, e2, _⟩ | ⟨hm0, _⟩
    · exact hne ⟨e1, e2⟩
    · exact b hm0

theorem RowsM.addDepC {w : World} (t s : Nat) (hs : s ∈ w.rules t) (h : RowsM w) : RowsM (addDep w t s false) := by
  intro x y hc
  rw [addDep_rules]
  rcases hasRow_addDep.1 hc with ⟨rfl, rfl, _⟩ | ⟨hc0, hne⟩
  · refine ⟨hs, fun hm => ?_⟩
    rcases hasRow_addDep.1 hm with ⟨_, _, e⟩ | ⟨_, hne⟩
    · cases e
    · exact hne ⟨rfl, rfl⟩
  · obtain ⟨a, b⟩ := h x y hc0
    refine ⟨a, fun hm => ?_⟩
    rcases hasRow_addDep.1 hm with ⟨_, _, e⟩ | ⟨hm0, _⟩
    · cases e
    · exact b hm0

/-- The frame: rules and scripts stay, and the side condition on rows is kept. -/
structure Tr (w w' : World) : Prop where
  rules : w'.rules = w.rules
  progs : w'.progs = w.progs
  rowsM : NoWatchP w → RowsM w → RowsM w'

theorem Tr.refl (w : World) : Tr w w := ⟨rfl, rfl, fun _ h => h⟩

theorem NoWatchP.congr {w w' : World} (hp : w'.progs = w.progs) (h : NoWatchP w) : NoWatchP w' := by
  intro c sc hc; rw [hp] at hc; exact h c sc hc

theorem Tr.trans {a b c : World} (h1 : Tr a b) (h2 : Tr b c) : Tr a c :=
  ⟨h2.rules.trans h1.rules, h2.progs.trans h1.progs,
   fun hn hm => h2.rowsM (hn.congr h1.progs) (h1.rowsM hn hm)⟩

theorem Tr.noWatch {w w' : World} (h : Tr w w') (hn : NoWatchP w) : NoWatchP w' := hn.congr h.progs

/-- Same rules, scripts and rows. -/
theorem Tr.of_deps {w w' : World} (hr : w'.rules = w.rules) (hp : w'.progs = w.progs) (hd : w'.deps = w.deps) :
    Tr w w' :=
  ⟨hr, hp, fun _ h => h.sub hr (fun x s m hh => by unfold HasRow at hh ⊢; rw [hd] at hh; exact hh)⟩

/-- A step that cannot happen when no script watches. -/
theorem Tr.absurdM {w w' : World} (hr : w'.rules = w.rules) (hp : w'.progs = w.progs) (h : ¬ NoWatchP w) : Tr w w' :=
  ⟨hr, hp, fun hn => absurd hn h⟩

theorem Tr.setRec (w : World) (f : Nat) (r : Rec) : Tr w (setRec w f r) := Tr.of_deps rfl rfl rfl
theorem Tr.ev (w : World) (e : Ev) : Tr w (ev w e) := Tr.of_deps rfl rfl rfl
theorem Tr.setFile (w : World) (f : Nat) (n : Option FNode) : Tr w (setFile w f n) := Tr.of_deps rfl rfl rfl

theorem Tr.addKnown (w : World) (f : Nat) : Tr w (addKnown w f) :=
  Tr.of_deps (WEqv.addKnown w f).rules (WEqv.addKnown w f).progs (WEqv.addKnown w f).deps

theorem Tr.sameButRecs {w w' : World} (h : SameButRecs w w') : Tr w w' :=
  Tr.of_deps h.2.2.2.2.2.2 h.2.2.2.2.2.1 h.2.1

theorem Tr.addDepM (w : World) (t s : Nat) : Tr w (addDep w t s true) :=
  ⟨addDep_rules _ _ _ _, addDep_progs _ _ _ _, fun _ h => h.addDepM t s⟩

theorem Tr.addDepC (w : World) (t s : Nat) (hs : s ∈ w.rules t) : Tr w (addDep w t s false) :=
  ⟨addDep_rules _ _ _ _, addDep_progs _ _ _ _, fun _ h => h.addDepC t s hs⟩

theorem Tr.zapDeps1 (w : World) (t : Nat) : Tr w (zapDeps1 w t) :=
  ⟨rfl, rfl, fun _ h => RowsM.sub (w := w) (w' := Deps.zapDeps1 w t) rfl (fun x s m hh => (SameTriples.zapDeps1 w t x s m).1 hh) h⟩

theorem Tr.zapDeps2 (w : World) (t : Nat) : Tr w (zapDeps2 w t) := by
  refine ⟨rfl, rfl, fun _ h => RowsM.sub (w := w) (w' := Deps.zapDeps2 w t) rfl (fun x s m hh => ?_) h⟩
  obtain ⟨d, hd, h1, h2, h3⟩ := hh
  unfold Deps.zapDeps2 at hd
  exact ⟨d, (List.mem_filter.1 hd).1, h1, h2, h3⟩

theorem Tr.declare (p : Nat) : ∀ (ts : List Nat) (w : World), Tr w (ts.foldl (fun w t => addDep w p t true) w)
  | [], w => Tr.refl w
  | t :: ts, w => (Tr.addDepM w p t).trans (Tr.declare p ts _)

theorem Tr.findDoFile (t : Nat) : ∀ (cs : List Nat) (w : World), (∀ c ∈ cs, c ∈ w.rules t) →
    Tr w (findDoFile t cs w).2
  | [], w, _ => Tr.refl w
  | c :: cs, w, h => by
    rw [Deps.findDoFile]
    split
    · exact Tr.addDepM w t c
    · have h1 := Tr.addDepC w t c (h c (by simp))
      exact h1.trans (Tr.findDoFile t cs _ (fun c' hc' => by rw [h1.rules]; exact h c' (List.mem_cons_of_mem _ hc')))

theorem Tr.recordNewState (cx : Ctx) (t : Nat) (sf : Rec) (rv : Status) (out : Option Content) (w : World) :
    Tr w (recordNewState cx t sf rv out w).2 := by
  unfold Deps.recordNewState
  split
  · cases out with
    | none =>
      exact ((Tr.setFile w t none).trans (Tr.zapDeps2 _ t)).trans (Tr.setRec _ t _)
    | some c =>
      have h0 : Tr w (Deps.setFile (newNode w c).2 t (some (newNode w c).1)) := Tr.of_deps rfl rfl rfl
      exact (h0.trans (Tr.zapDeps2 _ t)).trans (Tr.setRec _ t _)
  · exact (Tr.zapDeps2 w t).trans (Tr.setRec _ t _)

end RedoModel.Deps.Rich
