import RedoModel.Lemmas.DepsSoundR20
/-! `ssBuild` when a .do file is found: the state after the script has run. -/
namespace RedoModel.Deps.Rich

theorem scriptAt_ranked {rank R X w t dof} (hb : Base rank R X w) (hd : dof ∈ w.rules t) :
    ((scriptAt w dof).always = true → rank alwaysId < rank t) ∧
    ∀ c ∈ (scriptAt w dof).ifchange, ∀ d ∈ c, rank d < rank t ∧ d ≠ alwaysId := by
  unfold scriptAt
  cases hn : w.fs dof with
  | none => exact ⟨fun h => by simp at h, fun c hc => by simp at hc⟩
  | some n =>
    simp only
    cases h : w.progs n.content with
    | none => exact ⟨fun h => by simp at h, fun c hc => by simp at hc⟩
    | some sc =>
      have := hb.ranked.2 t dof hd n sc hn h
      exact ⟨this.1, fun c hc d hd' => this.2.1 d (Or.inl (List.mem_flatten.2 ⟨c, hc, hd'⟩))⟩

theorem addDep_rowsDecl (w : World) (p t : Nat) : RowsDecl p [t] w (addDep w p t true) := by
  refine ⟨fun d hd _ => ?_, fun s m hr hm => ?_⟩
  · rcases addDep_mem hd with rfl | ⟨h, _⟩
    · exact Or.inr ⟨rfl, by simp, rfl⟩
    · exact Or.inl h
  · by_cases e : s = t
    · subst e; rw [hm (by simp)]; exact addDep_hasRowU_new w p s true
    · exact addDep_hasRowU_keep hr (fun ⟨_, h2⟩ => e h2)

theorem rsAlways_eq (cx : Ctx) (t : Nat) (sc : Script) (w : World) :
    rsAlways cx t sc w = if sc.always then
      setRec (addDep w t alwaysId true) alwaysId (alwRec ((addDep w t alwaysId true).recs alwaysId) cx.runid)
    else w := rfl

/-- `redo-always` run by the script of `t`. -/
theorem rsAlways_spec {rank R X t w} {cx : Ctx} (sc : Script) (hcx : cx.runid = R) (hi : Inv rank R X w) (hX : X t)
    (hng : ¬ Good w R t) (hlt : sc.always = true → rank alwaysId < rank t) :
    Inv rank R X (rsAlways cx t sc w) ∧ BExt rank R (rank t) (some t) w (rsAlways cx t sc w) ∧
    RowsDecl t (if sc.always then [alwaysId] else []) w (rsAlways cx t sc w) ∧
    (sc.always = true → Good (rsAlways cx t sc w) R alwaysId ∧ HasRowU (rsAlways cx t sc w) t alwaysId true) ∧
    (NoFail R w → NoFail R (rsAlways cx t sc w)) := by
  rw [rsAlways_eq, hcx]
  cases ha : sc.always with
  | false =>
    simp only [Bool.false_eq_true, if_false]
    exact ⟨hi, BExt.refl _ _ _ _ _, RowsDecl.refl _ _ _, fun h => h.elim, fun h => h⟩
  | true =>
    simp only [if_true]
    have hl := hlt ha
    have hro := RowOp.addDep w t alwaysId true
    have hi1 := Inv_addDep (m := true) hi hX hng hl (fun h => by cases h)
    obtain ⟨a1, a2, a3, a4⟩ := always_spec (b := rank t) (po := some t) hi1 hl
    refine ⟨a1, hro.toBExtP.trans a2, ?_, fun _ => ⟨Or.inl a3, ?_⟩, fun h => a4 (h.eqv hro.eqv : NoFail R { addDep w t alwaysId true with deps := w.deps })⟩
    · have := addDep_rowsDecl w t alwaysId
      exact this
    · exact addDep_hasRowU_new w t alwaysId true

/-- What is known at the end of a successful run of the script `sc` of `t` (started in `w2`, ended in `w5`). -/
structure RanOk (rank : Nat → Nat) (R t dof : Nat) (sc : Script) (w2 w5 : World) : Prop where
  dofGood : Good w5 R dof
  script : scriptAt w5 dof = sc
  exit : sc.exit = 0
  noFail : failNowOf w5 sc = false
  decl : ∀ d ∈ sc.ifchange.flatten, Good w5 R d ∧ HasRowU w5 t d true
  alw : sc.always = true → HasRowU w5 t alwaysId true
  ic : ∀ d ∈ sc.ifcreate, existsF w5 d = false ∧ HasRowU w5 t d false
  cond : ∀ d ∈ sc.cond, (Good w5 R d ∧ HasRowU w5 t d true) ∨ (existsF w5 d = false ∧ HasRowU w5 t d false)
  newRows : ∀ d ∈ w5.deps, d.target = t → d ∈ w2.deps ∨
    (d.deleteMe = false ∧ (d.modeM = true → Good w5 R d.source) ∧ (d.modeM = false → existsF w5 d.source = false))
  keepC : ∀ s, HasRowU w2 t s false → existsF w2 s = false → w2.rules s = [] → s ≠ alwaysId → HasRowU w5 t s false
  keepM : ∀ s, HasRowU w2 t s true → existsF w2 s = true → HasRowU w5 t s true

/-- A plain file that is absent is not among the files a successful script asked for with `redo-ifchange`. -/
theorem absent_not_good {rank R X w d} (hi : Inv rank R X w) (hp : w.rules d = []) (h0 : d ≠ alwaysId)
    (hex : existsF w d = false) : ¬ Good w R d := by
  intro hg
  have := static_exists hi.base h0 (hg.recCur hi) (hi.base.srcT d hp)
  rw [hex] at this; cases this

/-- The general assembly of `RanOk` from the frame of the whole script and what each phase established. -/
theorem RanOk.mk' {rank R X t dof sc w2 w5} {tm tc : List Nat} (hi5 : Inv rank R X w5)
    (hrules : w5.rules = w2.rules) (hpl : ∀ x, w2.rules x = [] → w5.fs x = w2.fs x)
    (D : RowsDecl2 t tm tc w2 w5)
    (htm : ∀ s ∈ tm, Good w5 R s) (htc : ∀ s ∈ tc, existsF w2 s = false ∧ w2.rules s = [])
    (dofGood : Good w5 R dof) (script : scriptAt w5 dof = sc) (exit : sc.exit = 0) (noFail : failNowOf w5 sc = false)
    (decl : ∀ d ∈ sc.ifchange.flatten, Good w5 R d ∧ HasRowU w5 t d true)
    (alw : sc.always = true → HasRowU w5 t alwaysId true)
    (ic : ∀ d ∈ sc.ifcreate, existsF w5 d = false ∧ HasRowU w5 t d false)
    (cond : ∀ d ∈ sc.cond, (Good w5 R d ∧ HasRowU w5 t d true) ∨ (existsF w5 d = false ∧ HasRowU w5 t d false)) :
    RanOk rank R t dof sc w2 w5 := by
  have hex : ∀ x, w2.rules x = [] → existsF w5 x = existsF w2 x := fun x hx => existsF_congr (hpl x hx)
  refine ⟨dofGood, script, exit, noFail, decl, alw, ic, cond, fun d hd hdt => ?_, fun s hr hab hp h0 => ?_,
    fun s hr hexs => ?_⟩
  · rcases D.1 d hd hdt with h | ⟨a, b, c⟩ | ⟨a, b, c⟩
    · exact Or.inl h
    · exact Or.inr ⟨c, fun _ => htm _ b, fun hm => by rw [a] at hm; cases hm⟩
    · exact Or.inr ⟨c, (fun hm => by rw [a] at hm; cases hm), fun _ => by rw [hex _ (htc _ b).2]; exact (htc _ b).1⟩
  · refine D.2 s false hr (fun hin => ?_) (fun _ => rfl)
    exact absurd (htm s hin) (absent_not_good hi5 (by rw [hrules]; exact hp) h0 (by rw [hex s hp]; exact hab))
  · refine D.2 s true hr (fun _ => rfl) (fun hin => ?_)
    have := (htc s hin).1; rw [hexs] at this; cases this

/-- What a script declares with `m` rows: `//ALWAYS` if it says `redo-always`, and its `redo-ifchange` arguments. -/
def declOf (sc : Script) : List Nat := (if sc.always then [alwaysId] else []) ++ sc.ifchange.flatten

/-- The world in which the script of `t` starts: the .do file recorded as static, the `ran` event. -/
def startW (w2 : World) (R t dof : Nat) : World := ev (setRec w2 dof (setStatic w2 dof (w2.recs dof) R)) (.ran t)

/-- Rows of `t` survive the conditional declarations and the `redo-ifchange` commands of a successful script. -/
theorem tail_keep {rank R X t w5} {sc : Script} {wI wC : World}
    (cp : CondsPost rank R X t sc.cond wI ((0 : Status), wC)) (a2 : BExt rank R (rank t) (some t) wC w5)
    (a3 : RowsDecl t sc.ifchange.flatten wC w5) (a4 : ∀ d ∈ sc.ifchange.flatten, Good w5 R d) (hi5 : Inv rank R X w5) :
    (∀ s, HasRowU wI t s false → existsF wI s = false → wI.rules s = [] → s ≠ alwaysId → HasRowU w5 t s false) ∧
    (∀ s, HasRowU wI t s true → (s ∈ sc.cond → existsF wI s = true) → HasRowU w5 t s true) := by
  have hr5 : w5.rules = wI.rules := a2.rules.trans cp.bext.rules
  have hfs5 : ∀ x, wI.rules x = [] → w5.fs x = wI.fs x := fun x hx =>
    (a2.plain x (by rw [cp.bext.rules]; exact hx)).trans (cp.bext.plain x hx)
  constructor
  · intro s hr hab hp h0
    have h1 := cp.decl.2 s false hr (fun hin => by
      have := (List.mem_filter.1 hin).2; rw [hab] at this; cases this) (fun _ => rfl)
    refine a3.2 s false h1 (fun hin => ?_)
    exact absurd (a4 s hin) (absent_not_good hi5 (by rw [hr5]; exact hp) h0
      (by rw [existsF_congr (hfs5 s hp)]; exact hab))
  · intro s hr hc
    have h1 := cp.decl.2 s true hr (fun _ => rfl) (fun hin => by
      have h2 := List.mem_filter.1 hin
      have := hc h2.1
      rw [this] at h2; simp at h2)
    exact a3.2 s true h1 (fun _ => rfl)

/-- From the start of the script to the end of its `redo-always` / `redo-ifcreate` declarations. -/
structure HeadPhase (rank : Nat → Nat) (R t : Nat) (sc : Script) (w2 wI : World) : Prop where
  bext : BExt rank R (rank t) (some t) w2 wI
  decl : RowsDecl2 t (if sc.always then [alwaysId] else []) sc.ifcreate w2 wI
  alw : sc.always = true → Good wI R alwaysId ∧ HasRowU wI t alwaysId true
  ic : ∀ d ∈ sc.ifcreate, existsF w2 d = false ∧ HasRowU wI t d false

theorem HeadPhase.mk' {rank R t sc w2 w4 wA wI}
    (hb4 : BExt rank R (rank t) (some t) w2 w4) (hdeps : w4.deps = w2.deps)
    (b2 : BExt rank R (rank t) (some t) w4 wA) (b3 : RowsDecl t (if sc.always then [alwaysId] else []) w4 wA)
    (b4 : sc.always = true → Good wA R alwaysId ∧ HasRowU wA t alwaysId true)
    (hic : sc.ifcreate.any (fun f => existsF wA f) = false)
    (c2 : RowOp t wA wI) (c3 : RowsDecl2 t [] sc.ifcreate wA wI) (c4 : ∀ d ∈ sc.ifcreate, HasRowU wI t d false)
    (hyg : ∀ d ∈ sc.ifcreate, w2.rules d = [] ∧ d ≠ alwaysId) : HeadPhase rank R t sc w2 wI := by
  have hbA : BExt rank R (rank t) (some t) w2 wA := hb4.trans b2
  refine ⟨hbA.trans c2.toBExtP, ?_, fun ha => ⟨(c2.good R _).2 (b4 ha).1, ?_⟩, fun d hd => ⟨?_, c4 d hd⟩⟩
  · have h1 : RowsDecl2 t (if sc.always then [alwaysId] else []) [] w2 wA := by
      have := b3.to2
      unfold RowsDecl2 HasRowU at this ⊢
      rw [hdeps] at this; exact this
    have := h1.trans c3
    simpa using this
  · exact c3.2 alwaysId true (b4 ha).2 (fun h => by cases h) (fun hin => absurd rfl (hyg _ hin).2)
  · have h1 : existsF wA d = false := by
      have := List.any_eq_false.1 hic d hd
      simpa using this
    rw [← existsF_congr (hbA.plain d (hyg d hd).1)]; exact h1

theorem RanOk.asm {rank R X t dof sc w2 wI wC w5} (hp : HeadPhase rank R t sc w2 wI)
    (cp : CondsPost rank R X t sc.cond wI ((0 : Status), wC)) (a1 : Inv rank R X w5)
    (a2 : BExt rank R (rank t) (some t) wC w5) (a3 : RowsDecl t sc.ifchange.flatten wC w5)
    (a4 : ∀ d ∈ sc.ifchange.flatten, Good w5 R d ∧ HasRowU w5 t d true)
    (hyg : ∀ d, (d ∈ sc.cond ∨ d ∈ sc.ifcreate) → w2.rules d = [] ∧ d ≠ alwaysId)
    (hgI : Good wI R dof) (hscI : scriptAt wI dof = sc) (hdP : w2.rules dof = [])
    (hexit : sc.exit = 0) (hfn : failNowOf w5 sc = false) : RanOk rank R t dof sc w2 w5 := by
  have hbI5 : BExt rank R (rank t) (some t) wI w5 := cp.bext.trans a2
  have hb5 : BExt rank R (rank t) (some t) w2 w5 := hp.bext.trans hbI5
  have hrI : wI.rules = w2.rules := hp.bext.rules
  have hexI : ∀ x, w2.rules x = [] → existsF wI x = existsF w2 x := fun x hx => existsF_congr (hp.bext.plain x hx)
  have hex5 : ∀ x, w2.rules x = [] → existsF w5 x = existsF w2 x := fun x hx => existsF_congr (hb5.plain x hx)
  obtain ⟨kC, kM⟩ := tail_keep cp a2 a3 (fun d hd => (a4 d hd).1) a1
  have hD := (hp.decl.trans cp.decl).trans a3.to2
  have hcond : ∀ d ∈ sc.cond, (Good w5 R d ∧ HasRowU w5 t d true) ∨ (existsF w5 d = false ∧ HasRowU w5 t d false) := by
    intro d hd
    have hpd := (hyg d (Or.inl hd)).1
    cases he : existsF wI d with
    | true =>
      obtain ⟨g, r⟩ := cp.okM rfl d hd he
      exact Or.inl ⟨a2.good g, a3.2 d true r (fun _ => rfl)⟩
    | false =>
      have h5 : existsF w5 d = false := by rw [hex5 d hpd, ← hexI d hpd]; exact he
      refine Or.inr ⟨h5, a3.2 d false (cp.okC rfl d hd he) (fun hin => ?_)⟩
      exact absurd (a4 d hin).1 (absent_not_good a1 (by rw [hb5.rules]; exact hpd) (hyg d (Or.inl hd)).2 h5)
  refine RanOk.mk' a1 hb5.rules hb5.plain hD ?_ ?_ (hbI5.good hgI) ?_ hexit hfn a4 ?_ ?_ hcond
  · intro s hs
    rcases List.mem_append.1 hs with hs | hs
    · rcases List.mem_append.1 hs with hs | hs
      · cases ha : sc.always with
        | false => rw [ha] at hs; simp at hs
        | true =>
          rw [ha] at hs; simp only [if_true, List.mem_singleton] at hs; subst hs
          exact hbI5.good (hp.alw ha).1
      · have h2 := List.mem_filter.1 hs
        exact a2.good (cp.okM rfl s h2.1 h2.2).1
    · exact (a4 s hs).1
  · intro s hs
    rcases List.mem_append.1 hs with hs | hs
    · rcases List.mem_append.1 hs with hs | hs
      · exact ⟨(hp.ic s hs).1, (hyg s (Or.inr hs)).1⟩
      · have h2 := List.mem_filter.1 hs
        have hpd := (hyg s (Or.inl h2.1)).1
        exact ⟨by rw [← hexI s hpd]; simpa using h2.2, hpd⟩
    · cases hs
  · rw [← hscI]
    exact scriptAt_congr (hbI5.plain dof (by rw [hrI]; exact hdP)) hbI5.progs
  · intro ha
    exact kM alwaysId (hp.alw ha).2 (fun hin => absurd rfl (hyg _ (Or.inl hin)).2)
  · intro d hd
    have hpd := (hyg d (Or.inr hd)).1
    exact ⟨by rw [hex5 d hpd]; exact (hp.ic d hd).1,
      kC d (hp.ic d hd).2 (by rw [hexI d hpd]; exact (hp.ic d hd).1) (by rw [hrI]; exact hpd) (hyg d (Or.inr hd)).2⟩

/-- What a run of the script `sc` of `t` (chosen .do file `dof`) guarantees, started in `w2`. -/
structure RunPost (rank : Nat → Nat) (R : Nat) (X : Nat → Prop) (t dof : Nat) (sc : Script) (w2 : World)
    (res : Status × Option Content × World) : Prop where
  inv : Inv rank R (addX X t) res.2.2
  bext : BExt rank R (rank t) (some t) w2 res.2.2
  notCrashed : res.1 ≠ CRASHED
  noFail : NoFail R w2 → res.1 = 0 → NoFail R res.2.2
  ok : res.1 = 0 → res.2.1 = outOf res.2.2 sc ∧ RanOk rank R t dof sc w2 res.2.2

theorem RunPost.fail {rank R X t dof sc w2 w'} (hi : Inv rank R (addX X t) w')
    (hb : BExt rank R (rank t) (some t) w2 w') (rv : Status) (h0 : rv ≠ 0) (hc : rv ≠ CRASHED) (out : Option Content) :
    RunPost rank R X t dof sc w2 (rv, out, w') :=
  ⟨hi, hb, hc, fun _ h => absurd h h0, fun h => absurd h h0⟩

/-- The end of the script, after the `redo-ifchange` commands returned `(rv, w5)`. -/
theorem RunPost.finish {rank R X t dof sc w2 wI wC w5} {rv : Status} (hp : HeadPhase rank R t sc w2 wI)
    (cp : CondsPost rank R (addX X t) t sc.cond wI ((0 : Status), wC)) (a1 : Inv rank R (addX X t) w5)
    (a2 : BExt rank R (rank t) (some t) wC w5) (a3 : RowsDecl t sc.ifchange.flatten wC w5)
    (a4 : rv = 0 → ∀ d ∈ sc.ifchange.flatten, Good w5 R d ∧ HasRowU w5 t d true)
    (a5 : NoFail R w2 → rv = 0 → NoFail R w5) (a6 : rv ≠ CRASHED)
    (hyg : ∀ d, (d ∈ sc.cond ∨ d ∈ sc.ifcreate) → w2.rules d = [] ∧ d ≠ alwaysId)
    (hgI : Good wI R dof) (hscI : scriptAt wI dof = sc) (hdP : w2.rules dof = []) :
    RunPost rank R X t dof sc w2 (scriptEnd sc (rv, w5)) := by
  have hb5 : BExt rank R (rank t) (some t) w2 w5 := hp.bext.trans (cp.bext.trans a2)
  unfold scriptEnd
  by_cases hrv : rv = 0
  · subst hrv
    simp only [ne_eq, not_true_eq_false, if_false]
    cases hfn : failNowOf w5 sc with
    | true => simp only [if_true]; exact RunPost.fail a1 hb5 1 one_ne_zero_status one_ne_crashed none
    | false =>
      simp only [Bool.false_eq_true, if_false]
      have hexc : ((sc.exit : Nat) : Int) ≠ CRASHED := by
        have : (0 : Int) ≤ (sc.exit : Int) := Int.natCast_nonneg _
        intro h; rw [h] at this; exact absurd this (by decide)
      refine ⟨a1, hb5, hexc, fun h _ => a5 h rfl, fun hz => ⟨rfl, ?_⟩⟩
      exact RanOk.asm hp cp a1 a2 a3 (a4 rfl) hyg hgI hscI hdP (Int.natCast_eq_zero.1 hz) hfn
  · simp only [ne_eq, hrv, not_false_eq_true, if_true]
    exact RunPost.fail a1 hb5 rv hrv a6 none

theorem ssb_run_tail {rank R E t dof w2 wI} {cx : Ctx} {X : Nat → Prop} {sc : Script} (hE : ESpec rank R E)
    (hcx : cx.runid = R) (hcrash : cx.crash = none) (hXa' : ∀ x, addX X t x → rank t ≤ rank x)
    (hp : HeadPhase rank R t sc w2 wI) (c1 : Inv rank R (addX X t) wI) (hngI : ¬ Good wI R t)
    (hgI : Good wI R dof) (hscI : scriptAt wI dof = sc) (hra : sc.Rich) (hdP : w2.rules dof = [])
    (hnI : NoFail R w2 → NoFail R wI)
    (hrk2 : ∀ d, (d ∈ sc.ifchange.flatten ∨ d ∈ sc.cond ∨ d ∈ sc.ifcreate) → rank d < rank t ∧ d ≠ alwaysId)
    (hrk3 : ∀ d, (d ∈ sc.cond ∨ d ∈ sc.ifcreate) → w2.rules d = []) :
    RunPost rank R X t dof sc w2 (rsBody E cx t sc wI) := by
  have hXt : addX X t t := Or.inr rfl
  rw [rsBody_rich _ _ _ _ _ hra.1]
  have cp := conds_spec (cx' := childCx cx t) hE hcx rfl rfl hcrash rfl hXt hXa' sc.cond wI c1 hngI
    (fun x hx => ⟨hrk2 x (Or.inr (Or.inl hx)), (by rw [hp.bext.rules]; exact hrk3 x (Or.inl hx))⟩)
  generalize runScript.conds E t (childCx cx t) sc.cond wI = rc at cp ⊢
  obtain ⟨rvc, wC⟩ := rc
  by_cases hrvc : rvc = 0
  · subst hrvc
    simp only [ne_eq, not_true_eq_false, if_false]
    have hngC : ¬ Good wC R t := fun h => hngI (((cp.bext.sameT (Nat.le_refl _)).good R).1 h)
    obtain ⟨a1, a2, a3, a4, a5, a6⟩ := cmds_spec (cx := cx) (cx' := childCx cx t) hE hcx rfl rfl hcrash rfl hcrash
      hXt hXa' sc.ifchange 0 wC cp.inv hngC
      (fun c hc x hx => hrk2 x (Or.inl (List.mem_flatten.2 ⟨c, hc, hx⟩)))
    generalize runScript.cmds E cx t (childCx cx t) sc.ifchange 0 wC = r at a1 a2 a3 a4 a5 a6 ⊢
    obtain ⟨rv, w5⟩ := r
    exact RunPost.finish hp cp a1 a2 a3 a4 (fun h hz => a5 (cp.noFail (hnI h) rfl) hz) a6
      (fun x hx => ⟨hrk3 x hx, (hrk2 x (Or.inr hx)).2⟩) hgI hscI hdP
  · simp only [ne_eq, hrvc, not_false_eq_true, if_true]
    exact RunPost.fail cp.inv (hp.bext.trans cp.bext) rvc hrvc cp.notCrashed none

theorem ssb_run_aux {rank R E t dof w2 w4} {cx : Ctx} {X : Nat → Prop} {sc : Script} (hE : ESpec rank R E) (d : Defects)
    (hcx : cx.runid = R) (hcrash : cx.crash = none) (hXa : ∀ x, X x → rank t < rank x)
    (hi4 : Inv rank R (addX X t) w4) (hb4 : BExt rank R (rank t) (some t) w2 w4) (hng4 : ¬ Good w4 R t)
    (hdeps : w4.deps = w2.deps) (hg4 : Good w4 R dof) (hsc : scriptAt w4 dof = sc) (hra : sc.Rich)
    (hdP : w2.rules dof = []) (hn4 : NoFail R w2 → NoFail R w4)
    (hrk1 : sc.always = true → rank alwaysId < rank t)
    (hrk2 : ∀ d, (d ∈ sc.ifchange.flatten ∨ d ∈ sc.cond ∨ d ∈ sc.ifcreate) → rank d < rank t ∧ d ≠ alwaysId)
    (hrk3 : ∀ d, (d ∈ sc.cond ∨ d ∈ sc.ifcreate) → w2.rules d = []) :
    RunPost rank R X t dof sc w2 (runScript E d cx t sc w4) := by
  have hXt : addX X t t := Or.inr rfl
  have hXa' : ∀ x, addX X t x → rank t ≤ rank x :=
    fun x hx => hx.elim (fun h => Nat.le_of_lt (hXa x h)) (fun h => by rw [h]; exact Nat.le_refl _)
  rw [runScript_eq]
  obtain ⟨b1, b2, b3, b4, b5⟩ := rsAlways_spec (cx := cx) sc hcx hi4 hXt hng4 hrk1
  have hngA : ¬ Good (rsAlways cx t sc w4) R t := fun h => hng4 (((b2.sameT (Nat.le_refl _)).good R).1 h)
  have hbA : BExt rank R (rank t) (some t) w2 (rsAlways cx t sc w4) := hb4.trans b2
  cases hic : sc.ifcreate.any (fun f => existsF (rsAlways cx t sc w4) f) with
  | true =>
    simp only [if_true]
    exact RunPost.fail b1 hbA 1 one_ne_zero_status one_ne_crashed none
  | false =>
    simp only [Bool.false_eq_true, if_false]
    obtain ⟨c1, c2, c3, c4⟩ := declareC_spec (rank := rank) (R := R) hXt sc.ifcreate (rsAlways cx t sc w4) b1 hngA
      (fun x hx => ⟨hrk2 x (Or.inr (Or.inr hx)), (by rw [hbA.rules]; exact hrk3 x (Or.inr hx))⟩)
    have hp : HeadPhase rank R t sc w2 (declareC t sc.ifcreate (rsAlways cx t sc w4)) :=
      HeadPhase.mk' hb4 hdeps b2 b3 b4 hic c2 c3 c4
        (fun x hx => ⟨hrk3 x (Or.inr hx), (hrk2 x (Or.inr (Or.inr hx))).2⟩)
    exact ssb_run_tail hE hcx hcrash hXa' hp c1 (fun h => hngA ((c2.good R t).1 h))
      ((c2.good R dof).2 (b2.good hg4))
      ((scriptAt_congr ((congrFun c2.fs dof).trans (b2.plain dof (by rw [hb4.rules]; exact hdP)))
        (c2.progs.trans b2.progs)).trans hsc)
      hra hdP (fun h => ((b5 (hn4 h)).eqv c2.eqv :
        NoFail R { declareC t sc.ifcreate (rsAlways cx t sc w4) with deps := (rsAlways cx t sc w4).deps })) hrk2 hrk3

/-- The run of the script of `t` chosen by `findDoFile` (world `w2`), whatever its outcome. -/
theorem ssb_run {rank R E t dof w2} {cx : Ctx} {X : Nat → Prop} (hE : ESpec rank R E) (d : Defects) (hcx : cx.runid = R)
    (hcrash : cx.crash = none) (hi2 : Inv rank R (addX X t) w2) (hng2 : ¬ Good w2 R t)
    (hXa : ∀ x, X x → rank t < rank x) (hdm : dof ∈ w2.rules t) (hdex : existsF w2 dof = true) :
    RunPost rank R X t dof (scriptAt (startW w2 R t dof) dof) w2
      (runScript E d cx t (scriptAt (startW w2 R t dof) dof) (startW w2 R t dof)) := by
  have hdP : w2.rules dof = [] := (hi2.base.rulesOk.2 t dof hdm).1
  have hdlt : rank dof < rank t := hi2.base.ranked.1 t dof hdm
  obtain ⟨hi3, hg3, hb3, hn3⟩ := setStatic_spec (b := rank t) (po := some t) hi2 hdex
    (hi2.base.srcNotGen dof hdP) hdlt
  have hd3 : (setRec w2 dof (setStatic w2 dof (w2.recs dof) R)).deps = w2.deps := rfl
  unfold startW
  generalize setRec w2 dof (setStatic w2 dof (w2.recs dof) R) = w3 at hi3 hg3 hb3 hn3 hd3 ⊢
  have e4 := WEqv.ev w3 (.ran t)
  have hi4 := e4.inv hi3
  have hb4 : BExt rank R (rank t) (some t) w2 (ev w3 (.ran t)) := hb3.trans e4.toBExt
  have hng4 : ¬ Good (ev w3 (.ran t)) R t := fun h => hng2 (((hb4.sameT (Nat.le_refl _)).good R).1 h)
  have hdm4 : dof ∈ (ev w3 (.ran t)).rules t := by rw [hb4.rules]; exact hdm
  have hdeps : (ev w3 (.ran t)).deps = w2.deps := hd3
  have hg4 : Good (ev w3 (.ran t)) R dof := (e4.good R dof).2 hg3
  have hra := scriptAt_rich hi4.base dof
  obtain ⟨hrk1, hrk2, hrk3⟩ := scriptAt_hyg hi4.base hdm4
  exact ssb_run_aux hE d hcx hcrash hXa hi4 hb4 hng4 hdeps hg4 rfl hra hdP (fun h => (hn3 h).eqv e4) hrk1 hrk2
    (fun x hx => by rw [← hb4.rules]; exact hrk3 x hx)

end RedoModel.Deps.Rich
