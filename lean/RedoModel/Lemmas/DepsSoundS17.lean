import RedoModel.Lemmas.DepsSoundS16
/-! A plain script: `runScript` is the loop over its `redo-ifchange` commands followed by the output. -/
namespace RedoModel.Deps.S

/-- The environment of the commands a script of `t` runs. -/
def childCx (cx : Ctx) (t : Nat) : Ctx :=
  { runid := cx.runid, parent := some t, cycles := t :: cx.cycles, keepGoing := cx.keepGoing, crash := cx.crash }

theorem runScript_plain (E : Engine) (d : Defects) (cx : Ctx) (t : Nat) (sc : Script) (w : World) (hp : sc.Plain) :
    runScript E d cx t sc w =
      (if (runScript.cmds E cx t (childCx cx t) sc.ifchange 0 w).1 ≠ 0 then
        ((runScript.cmds E cx t (childCx cx t) sc.ifchange 0 w).1, none, (runScript.cmds E cx t (childCx cx t) sc.ifchange 0 w).2)
       else ((sc.exit : Int), outOf (runScript.cmds E cx t (childCx cx t) sc.ifchange 0 w).2 sc,
          (runScript.cmds E cx t (childCx cx t) sc.ifchange 0 w).2)) := by
  obtain ⟨h1, h2, h3, h4, h5, _⟩ := hp
  rw [runScript_eq]
  simp only [rsAlways, h1, Bool.false_eq_true, if_false, h2, List.any_nil, List.foldl_nil]
  unfold rsBody
  simp only [h3, runScript.conds, ne_eq, not_true_eq_false, if_false]
  show (match runScript.cmds E cx t (childCx cx t) sc.ifchange 0 w with
    | (rv, w) => if rv ≠ 0 then (rv, none, w) else rsFinish cx t sc w) = _
  generalize runScript.cmds E cx t (childCx cx t) sc.ifchange 0 w = r
  obtain ⟨rv, w1⟩ := r
  simp only
  split
  · rfl
  · unfold rsFinish rsFailNow
    simp only [h5, Bool.false_eq_true, if_false, h4, if_true]
    rfl

/-- The world after the `redo-stamp` step of a script that pipes its output to it. -/
def stampW (cx : Ctx) (t : Nat) (sc : Script) (w : World) : World :=
  if sc.stamp = 0 then w else
    setRec (addKnown w t) t (stampRec ((addKnown w t).recs t) cx.runid (outContent sc.tag (sc.reads.map (contentOf w))))

theorem runScript_plainS (E : Engine) (d : Defects) (cx : Ctx) (t : Nat) (sc : Script) (w : World) (hp : sc.PlainS)
    (hcrash : cx.crash = none) :
    runScript E d cx t sc w =
      (if (runScript.cmds E cx t (childCx cx t) sc.ifchange 0 w).1 ≠ 0 then
        ((runScript.cmds E cx t (childCx cx t) sc.ifchange 0 w).1, none, (runScript.cmds E cx t (childCx cx t) sc.ifchange 0 w).2)
       else ((sc.exit : Int), outOf (runScript.cmds E cx t (childCx cx t) sc.ifchange 0 w).2 sc,
          stampW cx t sc (runScript.cmds E cx t (childCx cx t) sc.ifchange 0 w).2)) := by
  obtain ⟨h1, h2, h3, h4, h5, _, _⟩ := hp
  rw [runScript_eq]
  simp only [rsAlways, h1, Bool.false_eq_true, if_false, h2, List.any_nil, List.foldl_nil]
  unfold rsBody
  simp only [h3, runScript.conds, ne_eq, not_true_eq_false, if_false]
  show (match runScript.cmds E cx t (childCx cx t) sc.ifchange 0 w with
    | (rv, w) => if rv ≠ 0 then (rv, none, w) else rsFinish cx t sc w) = _
  generalize runScript.cmds E cx t (childCx cx t) sc.ifchange 0 w = r
  obtain ⟨rv, w1⟩ := r
  simp only
  split
  · rfl
  · unfold rsFinish rsFailNow stampW
    simp only [h5, Bool.false_eq_true, if_false, hcrash, reduceCtorEq, decide_false, Bool.and_false]
    rcases h4 with h4 | h4
    · simp only [h4, if_true]; rfl
    · simp only [h4, if_true]; rfl

end RedoModel.Deps.S
