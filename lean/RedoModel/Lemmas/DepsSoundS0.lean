import RedoModel.Lemmas.DepsSound41
/-!
C01 for histories whose scripts may pipe their output to `redo-stamp` (content checksums): statement-level
definitions.  The proof (`DepsSoundS1` … `DepsSoundS41`) is a generalised copy of `DepsSound1` … `DepsSound41`, in the
namespace `RedoModel.Deps.S`.
-/
namespace RedoModel.Deps

/-- plain, except that the script may pipe its output to redo-stamp -/
def Script.PlainS (sc : Script) : Prop :=
  sc.always = false ∧ sc.ifcreate = [] ∧ sc.cond = [] ∧ (sc.stamp = 0 ∨ sc.stamp = 1) ∧ sc.failIfOdd = none ∧
  sc.reads = sc.ifchange.flatten ∧ (sc.stamp = 1 → sc.outMode ≠ 2)

theorem Script.Plain.plainS {sc : Script} (h : sc.Plain) : sc.PlainS :=
  ⟨h.1, h.2.1, h.2.2.1, Or.inl h.2.2.2.1, h.2.2.2.2.1, h.2.2.2.2.2, fun e => by rw [h.2.2.2.1] at e; cases e⟩

/-- `PlainOp`, with scripts that may use `redo-stamp`. -/
def PlainOpS (rules : Nat → List Nat) : UserOp → Prop
  | .write f _ => rules f = [] ∧ f ≠ alwaysId
  | .remove f => f ≠ alwaysId
  | .chmod f => rules f = [] ∧ f ≠ alwaysId
  | .hide _ => False
  | .unhide _ => False
  | .setProg _ s => s.PlainS
  | .cmd _ => True
  | .crashCmd _ _ _ => False

end RedoModel.Deps
