import RedoModel.Lemmas.ParConfl
/-!
The serial (-j1, depth-first) schedule `serialOne` is one of the accepted runs of `RedoModel.Par`, and it
settles the target it is asked for.  Hence "equal to the serial build" is a special case of confluence.
-/
namespace RedoModel.Par

/-! ### Guards that hold, read the other way round -/

theorem step_start_ok {g : Graph} {s : State} {t : Nat} {b : Option Nat} {sc : Script}
    (hsc : g.script t = some sc) (hidle : s.st t = .idle) (hby : ∀ p, b = some p → askedBy g s t p = true) :
    step g s (.start t b) = some { s with st := upd s.st t (.running 0), starts := t :: s.starts } := by
  cases b with
  | none => simp [step, hsc, hidle]
  | some p => simp [step, hsc, hidle, hby p rfl]

theorem step_ret_ok {g : Graph} {s : State} {t k : Nat} {sc : Script} {ds : List Nat}
    (hsc : g.script t = some sc) (hst : s.st t = .running k) (hds : sc.cmds[k]? = some ds)
    (hall : ∀ d ∈ ds, settled g s d = true) :
    step g s (.ret t) = some { s with st := upd s.st t (.running (k + 1)) } := by
  have : ds.all (settled g s) = true := by simpa using hall
  simp [step, hsc, hst, hds, this]

theorem step_finish_ok {g : Graph} {s : State} {t : Nat} {sc : Script}
    (hsc : g.script t = some sc) (hst : s.st t = .running sc.cmds.length) :
    step g s (.finish t) =
      some { s with st := upd s.st t .done,
                    content := upd s.content t (out sc.tag (sc.reads.map (val g s))) } := by
  simp [step, hsc, hst]

theorem askedBy_ok {g : Graph} {s : State} {t d k : Nat} {sc : Script} {ds : List Nat}
    (hsc : g.script t = some sc) (hst : s.st t = .running k) (hds : sc.cmds[k]? = some ds) (hd : d ∈ ds) :
    askedBy g s d t = true := by
  simp [askedBy, hsc, hst, hds, hd]

/-! ### What a serial sub-build may change -/

/-- Target `x` is untouched unless it was idle, and an idle one at most becomes settled. -/
def FrameAt (s s' : State) (x : Nat) : Prop :=
  (s.st x ≠ .idle → s'.st x = s.st x) ∧ (s.st x = .idle → s'.st x = .idle ∨ s'.st x = .done)

def Frame (s s' : State) : Prop := ∀ x, FrameAt s s' x

def FrameX (t : Nat) (s s' : State) : Prop := ∀ x, x ≠ t → FrameAt s s' x

theorem FrameAt.refl (s : State) (x : Nat) : FrameAt s s x := ⟨fun _ => rfl, fun h => Or.inl h⟩

theorem FrameAt.trans {s s1 s2 : State} {x : Nat} (h1 : FrameAt s s1 x) (h2 : FrameAt s1 s2 x) :
    FrameAt s s2 x := by
  constructor
  · intro hne
    have e1 := h1.1 hne
    rw [h2.1 (by rw [e1]; exact hne), e1]
  · intro hidle
    rcases h1.2 hidle with h | h
    · exact h2.2 h
    · right; rw [h2.1 (by rw [h]; intro hh; cases hh), h]

theorem FrameAt.of_st_eq {s s' : State} {x : Nat} (h : s'.st x = s.st x) : FrameAt s s' x :=
  ⟨fun _ => h, fun hi => Or.inl (h.trans hi)⟩

theorem Frame.toX {s s' : State} (h : Frame s s') (t : Nat) : FrameX t s s' := fun x _ => h x

theorem Frame.settled {g : Graph} {s s' : State} (h : Frame s s') {f : Nat} (hf : settled g s f = true) :
    settled g s' f = true :=
  settled_mono (fun x hx => by rw [(h x).1 (by rw [hx]; intro hh; cases hh), hx]) hf

/-- Everything of rank below `b` is idle or settled (nothing of that rank is in progress). -/
def Below (rank : Nat → Nat) (b : Nat) (s : State) : Prop :=
  ∀ x, rank x < b → s.st x = .idle ∨ s.st x = .done

theorem FrameAt.idleOrDone {s s' : State} {x : Nat} (h : FrameAt s s' x)
    (hx : s.st x = .idle ∨ s.st x = .done) : s'.st x = .idle ∨ s'.st x = .done := by
  rcases hx with hx | hx
  · exact h.2 hx
  · right; rw [h.1 (by rw [hx]; intro hh; cases hh), hx]

theorem Below.frame {rank : Nat → Nat} {b : Nat} {s s' : State} (hb : Below rank b s) (h : Frame s s') :
    Below rank b s' := fun x hx => (h x).idleOrDone (hb x hx)

/-- The result `r` of a schedule generator started in `s`: the events are accepted from `s` and lead to
the state returned; no target is declared clean. -/
structure Good (g : Graph) (s : State) (r : List Ev × State) : Prop where
  runs : run g s r.1 = some r.2
  noClean : ∀ t, Ev.clean t ∉ r.1

/-! ### The dependencies of one command -/

theorem serialDeps_ok {g : Graph} {rec : Nat → State → List Ev × State} (P : State → Prop)
    (hP : ∀ s s', P s → Frame s s' → P s') :
    ∀ (ds : List Nat),
      (∀ d ∈ ds, ∀ s, P s → Good g s (rec d s) ∧ Frame s (rec d s).2 ∧ settled g (rec d s).2 d = true) →
      ∀ s, P s → Good g s (serialDeps rec ds s) ∧ Frame s (serialDeps rec ds s).2 ∧
        ∀ d ∈ ds, settled g (serialDeps rec ds s).2 d = true
  | [], _, s, _ => ⟨⟨rfl, fun t ht => by cases ht⟩, fun x => FrameAt.refl s x, fun d hd => by cases hd⟩
  | d :: ds, hrec, s, hs => by
    obtain ⟨g1, f1, st1⟩ := hrec d List.mem_cons_self s hs
    obtain ⟨g2, f2, st2⟩ := serialDeps_ok P hP ds (fun d' hd' => hrec d' (List.mem_cons_of_mem _ hd'))
      (rec d s).2 (hP _ _ hs f1)
    simp only [serialDeps]
    refine ⟨⟨?_, ?_⟩, fun x => (f1 x).trans (f2 x), ?_⟩
    · rw [run_append, g1.runs]; exact g2.runs
    · intro t ht
      rcases List.mem_append.1 ht with h | h
      · exact g1.noClean t h
      · exact g2.noClean t h
    · intro d' hd'
      rcases List.mem_cons.1 hd' with rfl | hd'
      · exact f2.settled st1
      · exact st2 d' hd'

/-! ### The commands of one script -/

theorem serialCmds_ok {g : Graph} {rank : Nat → Nat} {rec : Nat → State → List Ev × State} {t : Nat}
    {sc : Script} (hsc : g.script t = some sc) (hrk : ∀ f ∈ sc.cmds.flatten, rank f < rank t)
    (hrec : ∀ k ds, sc.cmds[k]? = some ds → ∀ d ∈ ds, ∀ s, Below rank (rank t) s → s.st t = .running k →
      Good g s (rec d s) ∧ Frame s (rec d s).2 ∧ settled g (rec d s).2 d = true) :
    ∀ (cmds : List (List Nat)) (k : Nat) (s : State), (∀ j, cmds[j]? = sc.cmds[k + j]?) →
      Below rank (rank t) s → s.st t = .running k →
      Good g s (serialCmds rec t cmds k s) ∧ FrameX t s (serialCmds rec t cmds k s).2 ∧
        (serialCmds rec t cmds k s).2.st t = .running (k + cmds.length)
  | [], k, s, _, _, hst =>
    ⟨⟨rfl, fun t ht => by cases ht⟩, fun x _ => FrameAt.refl s x, by simpa [serialCmds] using hst⟩
  | ds :: rest, k, s, hcm, hb, hst => by
    have hk : sc.cmds[k]? = some ds := by simpa using (hcm 0).symm
    have hne : ∀ x, rank x < rank t → x ≠ t := fun x hx hxt => by rw [hxt] at hx; exact Nat.lt_irrefl _ hx
    obtain ⟨g1, f1, st1⟩ := serialDeps_ok (g := g) (rec := rec)
      (fun s => Below rank (rank t) s ∧ s.st t = .running k)
      (fun s s' hs hf => ⟨hs.1.frame hf, by rw [(hf t).1 (by rw [hs.2]; intro hh; cases hh), hs.2]⟩)
      ds (fun d hd s hs => hrec k ds hk d hd s hs.1 hs.2) s ⟨hb, hst⟩
    generalize hr1 : serialDeps rec ds s = r1 at g1 f1 st1
    have hst1 : r1.2.st t = .running k := by rw [(f1 t).1 (by rw [hst]; intro hh; cases hh), hst]
    have hstep := step_ret_ok hsc hst1 hk st1
    generalize hs2 : ({ r1.2 with st := upd r1.2.st t (.running (k + 1)) } : State) = s2 at hstep
    have hs2st : ∀ x, x ≠ t → s2.st x = r1.2.st x := by
      intro x hx; rw [← hs2]; exact upd_other _ _ _ _ hx
    have hb2 : Below rank (rank t) s2 := by
      intro x hx
      rw [hs2st x (hne x hx)]
      exact (hb.frame f1) x hx
    have hst2 : s2.st t = .running (k + 1) := by rw [← hs2]; exact upd_same _ _ _
    obtain ⟨g3, f3, st3⟩ := serialCmds_ok hsc hrk hrec rest (k + 1) s2
      (fun j => by
        have := hcm (j + 1)
        simp only [List.getElem?_cons_succ] at this
        rw [this]; congr 1; omega) hb2 hst2
    simp only [serialCmds, hr1, hs2]
    refine ⟨⟨?_, ?_⟩, ?_, ?_⟩
    · rw [run_append, g1.runs]
      simp only [Option.bind_some, run_cons, hstep]
      exact g3.runs
    · intro u hu
      rcases List.mem_append.1 hu with h | h
      · exact g1.noClean u h
      · rcases List.mem_cons.1 h with h | h
        · cases h
        · exact g3.noClean u h
    · intro x hx
      exact ((f1 x).trans (FrameAt.of_st_eq (hs2st x hx))).trans (f3 x hx)
    · rw [st3]; congr 1; simp only [List.length_cons]; omega

/-! ### One target, depth first -/

theorem serialOne_ok {g : Graph} {rank : Nat → Nat} (hr : Ranked g rank) :
    ∀ (fuel t : Nat) (b : Option Nat) (s : State), rank t < fuel → Below rank (rank t + 1) s →
      (∀ p, b = some p → askedBy g s t p = true) →
      Good g s (serialOne g fuel t b s) ∧ Frame s (serialOne g fuel t b s).2 ∧
        settled g (serialOne g fuel t b s).2 t = true
  | 0, _, _, _, h, _, _ => absurd h (Nat.not_lt_zero _)
  | fuel + 1, t, b, s, hfuel, hb, hby => by
    cases hsc : g.script t with
    | none =>
      simp only [serialOne, hsc]
      exact ⟨⟨rfl, fun t ht => by cases ht⟩, fun x => FrameAt.refl s x, settled_src hsc⟩
    | some sc =>
      by_cases hidle : s.st t = .idle
      · have hne : ∀ x, rank x < rank t → x ≠ t := fun x hx hxt => by
          rw [hxt] at hx; exact Nat.lt_irrefl _ hx
        have hstart := step_start_ok hsc hidle hby
        generalize hs0 : ({ s with st := upd s.st t (.running 0), starts := t :: s.starts } : State) = s0
          at hstart
        have hs0st : ∀ x, x ≠ t → s0.st x = s.st x := by
          intro x hx; rw [← hs0]; exact upd_other _ _ _ _ hx
        have hb0 : Below rank (rank t) s0 := by
          intro x hx
          rw [hs0st x (hne x hx)]
          exact hb x (by omega)
        have hst0 : s0.st t = .running 0 := by rw [← hs0]; exact upd_same _ _ _
        obtain ⟨g1, f1, st1⟩ := serialCmds_ok (rank := rank)
          (rec := fun d s' => serialOne g fuel d (some t) s') hsc (hr t sc hsc)
          (fun k ds hk d hd s' hb' hst' => by
            have hrd : rank d < rank t :=
              hr t sc hsc d (List.mem_flatten.2 ⟨ds, List.mem_of_getElem? hk, hd⟩)
            exact serialOne_ok hr fuel d (some t) s' (by omega)
              (fun x hx => hb' x (by omega))
              (fun p hp => by cases hp; exact askedBy_ok hsc hst' hk hd))
          sc.cmds 0 s0 (fun j => by simp) hb0 hst0
        simp only [serialOne, hsc, hidle, ne_eq, not_true_eq_false, if_false, hs0]
        generalize hr1 : serialCmds (fun d s' => serialOne g fuel d (some t) s') t sc.cmds 0 s0 = r1
          at g1 f1 st1
        simp only [Nat.zero_add] at st1
        have hfin := step_finish_ok hsc st1
        refine ⟨⟨?_, ?_⟩, ?_, ?_⟩
        · simp only [List.cons_append, run_cons, hstart, Option.bind_some]
          rw [run_append, g1.runs]
          simp only [Option.bind_some, run_cons, hfin, run_nil]
        · intro u hu
          simp only [List.cons_append, List.mem_cons, List.mem_append, List.mem_nil_iff, or_false,
            reduceCtorEq, false_or] at hu
          exact g1.noClean u hu
        · intro x
          by_cases hx : x = t
          · subst hx
            exact ⟨fun h => absurd hidle h, fun _ => Or.inr (upd_same _ _ _)⟩
          · refine ((FrameAt.of_st_eq (hs0st x hx)).trans (f1 x hx)).trans (FrameAt.of_st_eq ?_)
            exact upd_other _ _ _ _ hx
        · rw [settled_tgt hsc]; exact upd_same _ _ _
      · simp only [serialOne, hsc, hidle, ne_eq, not_false_eq_true, if_true]
        refine ⟨⟨rfl, fun t ht => by cases ht⟩, fun x => FrameAt.refl s x, ?_⟩
        rw [settled_tgt hsc]
        exact (hb t (Nat.lt_succ_self _)).resolve_left hidle

theorem init_below {g : Graph} {s0 : State} (h0 : Init g s0) (rank : Nat → Nat) (b : Nat) :
    Below rank b s0 := fun x _ => h0.2.1 x

theorem serial_is_a_run {g : Graph} {rank : Nat → Nat} {s0 : State} {fuel t : Nat} (hr : Ranked g rank)
    (h0 : Init g s0) (hfuel : rank t < fuel) :
    run g s0 (serialOne g fuel t none s0).1 = some (serialOne g fuel t none s0).2 ∧
    (g.script t ≠ none → (serialOne g fuel t none s0).2.st t = .done) ∧
    (∀ u, Ev.clean u ∉ (serialOne g fuel t none s0).1) := by
  obtain ⟨g1, _, st1⟩ := serialOne_ok hr fuel t none s0 hfuel (init_below h0 rank _)
    (fun p hp => by cases hp)
  refine ⟨g1.runs, ?_, g1.noClean⟩
  intro hne
  cases hsc : g.script t with
  | none => exact absurd hsc hne
  | some sc => exact (settled_tgt hsc).1 st1

theorem equals_serial {g : Graph} {rank : Nat → Nat} {s0 s : State} {es : List Ev} {fuel t : Nat}
    (hw : WellFormed g) (hr : Ranked g rank) (h0 : Init g s0) (hc : CleanOk g s0 es)
    (h : run g s0 es = some s) (hd : s.st t = .done) (hfuel : rank t < fuel) :
    s.content t = (serialOne g fuel t none s0).2.content t := by
  obtain ⟨h1, h2, h3⟩ := serial_is_a_run (t := t) hr h0 hfuel
  cases hsc : g.script t with
  | none => rw [run_content_src _ _ _ h t hsc, run_content_src _ _ _ h1 t hsc]
  | some sc =>
    exact confluent hw h0 hc (cleanOk_of_no_clean h3) h h1 t hd (h2 (by rw [hsc]; intro hh; cases hh))

/-- The serial build gives the target it is asked for the from-scratch content. -/
theorem serial_is_spec {g : Graph} {rank : Nat → Nat} {s0 : State} {fuel t : Nat} {sc : Script}
    (hw : WellFormed g) (hr : Ranked g rank) (h0 : Init g s0) (hfuel : rank t < fuel)
    (hsc : g.script t = some sc) : Spec g t ((serialOne g fuel t none s0).2.content t) := by
  obtain ⟨h1, h2, h3⟩ := serial_is_a_run (t := t) hr h0 hfuel
  exact done_is_spec_partial hw h0 (cleanOk_of_no_clean h3) h1 t sc hsc
    (h2 (by rw [hsc]; intro hh; cases hh))

/-- In a well-formed graph without cycles every file has a from-scratch content. -/
theorem spec_exists {g : Graph} {rank : Nat → Nat} (hw : WellFormed g) (hr : Ranked g rank) (t : Nat) :
    ∃ c, Spec g t c := by
  cases hsc : g.script t with
  | none => exact ⟨_, Spec.src hsc⟩
  | some sc =>
    exact ⟨_, serial_is_spec (s0 := { st := fun _ => .idle, content := fun _ => [] }) hw hr
      ⟨rfl, fun _ => Or.inl rfl, fun _ _ _ h => by cases h⟩ (Nat.lt_succ_self _) hsc⟩

end RedoModel.Par
