import RedoModel.LogRec
import RedoModel.Props.C15
/-!
Lemmas about the replay half of `RedoModel/LogRec.lean` (`lines`, `catlog`, `redoLog`).

Layout:
* `lineStep` / `lines_cons` : the per-line loop is a fold of a one-line step;
* `Step` / `Run`            : what one line / a whole log contributes (structure of the output);
* `GoodChunk` / `LoopChunk` : what a complete replay / a line loop appends to the output (`already` holds cleaned names);
* `catlog_good`             : every successful `catlog` call appends a `GoodChunk`;
* fuel: `catlog_fuel_mono`, `catlog_no_outOfFuel`.
-/
namespace RedoModel.LogRec
open RedoModel.Paths

deriving instance DecidableEq for St

instance {ε α : Type} [DecidableEq ε] [DecidableEq α] : DecidableEq (Except ε α) := fun a b =>
  match a, b with
  | .ok x, .ok y => if h : x = y then isTrue (by rw [h]) else isFalse (fun e => h (by cases e; rfl))
  | .error x, .error y => if h : x = y then isTrue (by rw [h]) else isFalse (fun e => h (by cases e; rfl))
  | .ok _, .error _ => isFalse (fun e => by cases e)
  | .error _, .ok _ => isFalse (fun e => by cases e)

/-! ### Which log lines are shown verbatim -/

/-- The lines `lines` emits as `.raw`: everything that is not a record, records whose kind is
none of `unchanged`, `do`, `waiting`, `locked`, `unlocked`, `done` (e.g. `resumed`, or anything unknown), and `done`
records whose text is not of the form `<status> <name>` (`parseDoneText` fails: written by a script, not by redo). -/
def isRawLine (l : List Char) : Bool :=
  match parse l with
  | .error _ => true
  | .ok g =>
    if g.kind = kUnchanged then false
    else if g.kind = kDo ∨ g.kind = kWaiting ∨ g.kind = kLocked ∨ g.kind = kUnlocked then false
    else if g.kind = kDone then (parseDoneText g.text).isNone
    else true

/-- What a replay shows of a log: its raw lines, cleaned. -/
def rawLines (ls : List (List Char)) : List (List Char) := (ls.filter isRawLine).map cleanLine

theorem rawLines_nil : rawLines [] = [] := rfl

theorem rawLines_append (a b : List (List Char)) : rawLines (a ++ b) = rawLines a ++ rawLines b := by
  simp [rawLines]

theorem rawLines_cons (l : List Char) (ls : List (List Char)) :
    rawLines (l :: ls) = (if isRawLine l then [cleanLine l] else []) ++ rawLines ls := by
  unfold rawLines
  by_cases h : isRawLine l <;> simp [h]

/-- A log made only of plain text (nothing has the record prefix) is shown entirely. -/
theorem isRawLine_of_noPrefix {l : List Char} (h : isPrefix pre l = false) : isRawLine l = true := by
  unfold isRawLine parse
  simp [h]

theorem rawLines_of_plain {ls : List (List Char)} (h : ∀ l ∈ ls, isPrefix pre l = false) :
    rawLines ls = ls.map cleanLine := by
  unfold rawLines
  congr 1
  exact List.filter_eq_self.2 (fun l hl => isRawLine_of_noPrefix (h l hl))

/-! ### Reading the output -/

def isRaw : Out → Bool
  | .raw _ => true
  | .record _ _ => false

/-- The raw lines attributed to target `x` in a chronological output. -/
def rawsOf (x : List Char) (c : List Tagged) : List (List Char) :=
  c.filterMap (fun e => if e.tag = x then (match e.out with | .raw l => some l | .record _ _ => none) else none)

theorem rawsOf_nil (x : List Char) : rawsOf x [] = [] := rfl

theorem rawsOf_append (x : List Char) (a b : List Tagged) : rawsOf x (a ++ b) = rawsOf x a ++ rawsOf x b := by
  simp [rawsOf, List.filterMap_append]

theorem rawsOf_cons_raw (x : List Char) (l : List Char) (c : List Tagged) :
    rawsOf x (⟨x, .raw l⟩ :: c) = l :: rawsOf x c := by
  simp [rawsOf]

theorem rawsOf_cons_record (x y k tx : List Char) (c : List Tagged) :
    rawsOf x (⟨y, .record k tx⟩ :: c) = rawsOf x c := by
  unfold rawsOf
  rw [List.filterMap_cons]
  by_cases h : y = x <;> simp [h]

theorem rawsOf_eq_nil {x : List Char} {c : List Tagged} (h : ∀ e ∈ c, e.tag ≠ x) : rawsOf x c = [] := by
  induction c with
  | nil => rfl
  | cons e es ih =>
    unfold rawsOf
    rw [List.filterMap_cons]
    have h1 : e.tag ≠ x := h e (by simp)
    simp only [h1, if_false]
    exact ih (fun e' he' => h e' (List.mem_cons_of_mem _ he'))

theorem rawsOf_filter_ne {x t : List Char} (hx : x ≠ t) (c : List Tagged) :
    rawsOf x (c.filter (fun e => decide (e.tag ≠ t))) = rawsOf x c := by
  induction c with
  | nil => rfl
  | cons e es ih =>
    by_cases h : e.tag = t
    · have : rawsOf x (e :: es) = rawsOf x es := by
        unfold rawsOf
        rw [List.filterMap_cons]
        have : e.tag ≠ x := fun h2 => hx (h2 ▸ h)
        simp [this]
      rw [this, List.filter_cons, if_neg (by simp [h])]
      exact ih
    · rw [List.filter_cons, if_pos (by simp [h])]
      show rawsOf x ([e] ++ _) = rawsOf x ([e] ++ es)
      rw [rawsOf_append, rawsOf_append, ih]

/-- The filter reading of `rawsOf`: the raw entries tagged `x`, as entries. -/
theorem filter_raw_eq (x : List Char) (c : List Tagged) :
    c.filter (fun e => decide (e.tag = x) && isRaw e.out) = (rawsOf x c).map (fun l => ⟨x, .raw l⟩) := by
  induction c with
  | nil => rfl
  | cons e es ih =>
    obtain ⟨tg, o⟩ := e
    by_cases h : tg = x
    · subst h
      cases o with
      | raw l => rw [rawsOf_cons_raw, List.filter_cons, if_pos (by simp [isRaw]), ih]; rfl
      | record k tx => rw [rawsOf_cons_record, List.filter_cons, if_neg (by simp [isRaw]), ih]
    · have : rawsOf x (⟨tg, o⟩ :: es) = rawsOf x es := by
        unfold rawsOf
        rw [List.filterMap_cons]
        simp [h]
      rw [this, List.filter_cons, if_neg (by simp [h]), ih]

/-- The entries a call appended, in chronological order (`out` is most-recent-first). -/
def newOut (st st' : St) : List Tagged := (st'.out.take (st'.out.length - st.out.length)).reverse

theorem newOut_eq {st st' : St} {c : List Tagged} (h : st'.out = c.reverse ++ st.out) : newOut st st' = c := by
  unfold newOut
  rw [h]
  have : (c.reverse ++ st.out).length - st.out.length = c.reverse.length := by simp
  rw [this, List.take_left]
  simp

theorem newOut_self (st : St) : newOut st st = [] := newOut_eq (c := []) (by simp)

/-! ### The loop is a fold of one-line steps -/

/-- One iteration of `lines`: the new state, `interrupted` and `lines_written`. -/
def lineStep (recurse : List Char → St → Except CErr (St × Nat)) (optU optR : Bool) (t l : List Char)
    (st : St) (intr w : Nat) : Except CErr (St × Nat × Nat) :=
  match parse l with
  | .error _ =>
    let st := if intr ≠ 0 then emit st t (.record kResumed t) else st
    .ok (emit st t (.raw (cleanLine l)), 0, w + 1)
  | .ok g =>
    let full := resolve t g.text
    let fixname := normpath full
    if g.kind = kUnchanged then
      if optU then
        let st := if fixname ∈ st.already then st else emit st t (.record kDo fixname)
        if optR then
          match recurse full st with
          | .error e => .error e
          | .ok (st, got) => .ok ({ st with already := fixname :: st.already }, intr + got, w + got)
        else .ok ({ st with already := fixname :: st.already }, intr, w)
      else .ok (st, intr, w)
    else if g.kind = kDo ∨ g.kind = kWaiting ∨ g.kind = kLocked ∨ g.kind = kUnlocked then
      let (st, intr, w) :=
        if fixname ∈ st.already then (st, intr, w)
        else (emit st t (.record kDo fixname), intr + 1, w + 1)
      if optR then
        if g.text.isEmpty then .error .emptyText
        else match recurse full st with
          | .error e => .error e
          | .ok (st, got) => .ok ({ st with already := fixname :: st.already }, intr + got, w + got)
      else .ok ({ st with already := fixname :: st.already }, intr, w)
    else if g.kind = kDone then
      match parseDoneText g.text with
      | none => .ok (emit st t (.raw (cleanLine l)), intr, w + 1)
      | some (rv, name) => .ok (emit st t (.record kDone (rv ++ ' ' :: normpath (resolve t name))), intr, w + 1)
    else .ok (emit st t (.raw (cleanLine l)), intr, w + 1)

theorem lines_nil (recurse : List Char → St → Except CErr (St × Nat)) (optU optR : Bool) (t : List Char)
    (st : St) (intr w : Nat) : lines recurse optU optR t [] st intr w = .ok (st, w) := by
  rw [lines]

theorem lines_cons (recurse : List Char → St → Except CErr (St × Nat)) (optU optR : Bool) (t l : List Char)
    (ls : List (List Char)) (st : St) (intr w : Nat) :
    lines recurse optU optR t (l :: ls) st intr w =
      match lineStep recurse optU optR t l st intr w with
      | .error e => .error e
      | .ok (st1, i1, w1) => lines recurse optU optR t ls st1 i1 w1 := by
  rw [lines]
  unfold lineStep
  generalize parse l = p
  cases p with
  | error e => rfl
  | ok g =>
    dsimp only
    by_cases h1 : g.kind = kUnchanged
    · simp only [h1, if_true]
      cases optU
      · simp only [Bool.false_eq_true, if_false]
      · simp only [if_true]
        cases optR
        · simp only [Bool.false_eq_true, if_false]
        · simp only [if_true]
          generalize recurse (resolve t g.text) _ = rr
          cases rr with
          | error e => rfl
          | ok v => rfl
    · simp only [h1, if_false]
      by_cases h2 : g.kind = kDo ∨ g.kind = kWaiting ∨ g.kind = kLocked ∨ g.kind = kUnlocked
      · simp only [h2, if_true]
        by_cases h3 : normpath (resolve t g.text) ∈ st.already
        · simp only [h3, if_true]
          cases optR
          · simp only [Bool.false_eq_true, if_false]
          · simp only [if_true]
            by_cases h4 : g.text.isEmpty = true
            · simp only [h4, if_true]
            · simp only [h4]
              generalize recurse (resolve t g.text) _ = rr
              cases rr with
              | error e => rfl
              | ok v => rfl
        · simp only [h3, if_false]
          cases optR
          · simp only [Bool.false_eq_true, if_false]
          · simp only [if_true]
            by_cases h4 : g.text.isEmpty = true
            · simp only [h4, if_true]
            · simp only [h4]
              generalize recurse (resolve t g.text) _ = rr
              cases rr with
              | error e => rfl
              | ok v => rfl
      · simp only [h2, if_false]
        by_cases h5 : g.kind = kDone
        · simp only [h5, if_true]
          cases parseDoneText g.text with
          | none => rfl
          | some v => rfl
        · simp only [h5, if_false]

/-! ### Structure of the output of one log -/

/-- Every `do` record among `own` carries the cleaned name that a record text of the line `l` has when resolved
against the directory of `t`. -/
def DoSpec (t l : List Char) (own : List Tagged) : Prop :=
  ∀ e ∈ own, ∀ x, e.out = .record kDo x → ∃ g, parse l = .ok g ∧ x = normpath (resolve t g.text)

theorem DoSpec.nil (t l : List Char) : DoSpec t l [] := fun _ he => by cases he

theorem DoSpec.raw (t l x : List Char) : DoSpec t l [⟨t, .raw x⟩] := by
  intro e he y hy; simp at he; subst he; cases hy

theorem DoSpec.resumed_raw (t l x : List Char) : DoSpec t l [⟨t, .record kResumed t⟩, ⟨t, .raw x⟩] := by
  intro e he y hy; simp at he
  rcases he with he | he <;> subst he
  · simp only [Out.record.injEq] at hy; exact absurd hy.1 (by decide)
  · cases hy

theorem DoSpec.done (t l x : List Char) : DoSpec t l [⟨t, .record kDone x⟩] := by
  intro e he y hy; simp at he; subst he
  simp only [Out.record.injEq] at hy; exact absurd hy.1 (by decide)

theorem DoSpec.do {t l : List Char} {g : Rec} (hp : parse l = .ok g) :
    DoSpec t l [⟨t, .record kDo (normpath (resolve t g.text))⟩] := by
  intro e he y hy; simp at he; subst he
  simp only [Out.record.injEq] at hy; exact ⟨g, hp, hy.2.symm⟩

/-- What one line `l` of the log of `t` contributes, from state `st` to state `st'`: either only entries of
its own (tagged `t`; the raw ones are exactly `cleanLine l` if `l` is a raw line, nothing otherwise), or an
optional `do` record of its own followed by one complete sub-replay `recurse (resolve t g.text)`. -/
inductive Step (recurse : List Char → St → Except CErr (St × Nat)) (t l : List Char) (st st' : St) : Prop
  | own (own : List Tagged)
      (htag : ∀ e ∈ own, e.tag = t)
      (hraw : rawsOf t own = if isRawLine l then [cleanLine l] else [])
      (hlen : own.length ≤ 2)
      (hout : st'.out = own.reverse ++ st.out)
      (hal : st'.already = st.already ∨ ∃ g, parse l = .ok g ∧ st'.already = normpath (resolve t g.text) :: st.already)
      (hdo : DoSpec t l own)
  | sub (g : Rec) (own : List Tagged) (stB : St) (got : Nat)
      (hp : parse l = .ok g)
      (hnr : isRawLine l = false)
      (hown : own = [] ∨ own = [⟨t, .record kDo (normpath (resolve t g.text))⟩])
      (hrec : recurse (resolve t g.text) { st with out := own.reverse ++ st.out } = .ok (stB, got))
      (hst' : st' = { stB with already := normpath (resolve t g.text) :: stB.already })

/-- The whole line loop: the steps of the lines, in log order. -/
inductive Run (recurse : List Char → St → Except CErr (St × Nat)) (t : List Char) :
    List (List Char) → St → St → Prop
  | nil (st : St) : Run recurse t [] st st
  | cons {l : List Char} {ls : List (List Char)} {st st1 st2 : St} :
      Step recurse t l st st1 → Run recurse t ls st1 st2 → Run recurse t (l :: ls) st st2

theorem lineStep_step {recurse : List Char → St → Except CErr (St × Nat)} {optU optR : Bool} {t l : List Char}
    {st : St} {intr w : Nat} {st1 : St} {i1 w1 : Nat}
    (h : lineStep recurse optU optR t l st intr w = .ok (st1, i1, w1)) : Step recurse t l st st1 := by
  unfold lineStep at h
  generalize hp : parse l = p at h
  cases p with
  | error e =>
    have hr : isRawLine l = true := by unfold isRawLine; rw [hp]
    dsimp only at h
    simp only [Except.ok.injEq, Prod.mk.injEq] at h
    obtain ⟨h, -, -⟩ := h
    subst h
    by_cases hi : intr ≠ 0
    · refine Step.own [⟨t, .record kResumed t⟩, ⟨t, .raw (cleanLine l)⟩] ?_ ?_ (by simp) ?_ (Or.inl ?_) (DoSpec.resumed_raw _ _ _)
      · intro e he; simp at he; rcases he with he | he <;> subst he <;> rfl
      · rw [hr, rawsOf_cons_record, rawsOf_cons_raw]; rfl
      · simp [hi, emit]
      · simp [hi, emit]
    · refine Step.own [⟨t, .raw (cleanLine l)⟩] ?_ ?_ (by simp) ?_ (Or.inl ?_) (DoSpec.raw _ _ _)
      · intro e he; simp at he; subst he; rfl
      · rw [hr, rawsOf_cons_raw]; rfl
      · simp [hi, emit]
      · simp [hi, emit]
  | ok g =>
    dsimp only at h
    by_cases h1 : g.kind = kUnchanged
    · have hr : isRawLine l = false := by unfold isRawLine; rw [hp]; simp [h1]
      simp only [h1, if_true] at h
      cases optU
      · simp only [Bool.false_eq_true, if_false, Except.ok.injEq, Prod.mk.injEq] at h
        obtain ⟨h, -, -⟩ := h
        subst h
        exact Step.own [] (by simp) (by rw [hr]; rfl) (by simp) (by simp) (Or.inl rfl) (DoSpec.nil _ _)
      · simp only [if_true] at h
        cases optR
        · simp only [Bool.false_eq_true, if_false, Except.ok.injEq, Prod.mk.injEq] at h
          obtain ⟨h, -, -⟩ := h
          subst h
          by_cases h3 : normpath (resolve t g.text) ∈ st.already
          · exact Step.own [] (by simp) (by rw [hr]; rfl) (by simp) (by simp [h3]) (Or.inr ⟨g, hp, by simp [h3]⟩) (DoSpec.nil _ _)
          · refine Step.own [⟨t, .record kDo (normpath (resolve t g.text))⟩] ?_ ?_ (by simp) (by simp [h3, emit])
              (Or.inr ⟨g, hp, by simp [h3, emit]⟩) (DoSpec.do hp)
            · intro e he; simp at he; subst he; rfl
            · rw [hr, rawsOf_cons_record]; rfl
        · simp only [if_true] at h
          generalize hrr : recurse (resolve t g.text) _ = rr at h
          cases rr with
          | error e => cases h
          | ok v =>
            obtain ⟨stB, got⟩ := v
            simp only [Except.ok.injEq, Prod.mk.injEq] at h
            obtain ⟨h, -, -⟩ := h
            by_cases h3 : normpath (resolve t g.text) ∈ st.already
            · exact Step.sub g [] stB got hp hr (Or.inl rfl) (by simpa [h3] using hrr) h.symm
            · exact Step.sub g [⟨t, .record kDo (normpath (resolve t g.text))⟩] stB got hp hr (Or.inr rfl)
                (by simpa [h3, emit] using hrr) h.symm
    · simp only [h1, if_false] at h
      by_cases h2 : g.kind = kDo ∨ g.kind = kWaiting ∨ g.kind = kLocked ∨ g.kind = kUnlocked
      · have hr : isRawLine l = false := by unfold isRawLine; rw [hp]; simp [h1, h2]
        simp only [h2, if_true] at h
        by_cases h3 : normpath (resolve t g.text) ∈ st.already
        · simp only [h3, if_true] at h
          cases optR
          · simp only [Bool.false_eq_true, if_false, Except.ok.injEq, Prod.mk.injEq] at h
            obtain ⟨h, -, -⟩ := h
            subst h
            exact Step.own [] (by simp) (by rw [hr]; rfl) (by simp) (by simp) (Or.inr ⟨g, hp, rfl⟩) (DoSpec.nil _ _)
          · simp only [if_true] at h
            by_cases h4 : g.text.isEmpty = true
            · simp only [h4, if_true] at h; cases h
            · simp only [h4, Bool.false_eq_true, if_false] at h
              generalize hrr : recurse (resolve t g.text) _ = rr at h
              cases rr with
              | error e => cases h
              | ok v =>
                obtain ⟨stB, got⟩ := v
                simp only [Except.ok.injEq, Prod.mk.injEq] at h
                obtain ⟨h, -, -⟩ := h
                exact Step.sub g [] stB got hp hr (Or.inl rfl) (by simpa using hrr) h.symm
        · simp only [h3, if_false] at h
          cases optR
          · simp only [Bool.false_eq_true, if_false, Except.ok.injEq, Prod.mk.injEq] at h
            obtain ⟨h, -, -⟩ := h
            subst h
            refine Step.own [⟨t, .record kDo (normpath (resolve t g.text))⟩] ?_ ?_ (by simp) (by simp [emit])
              (Or.inr ⟨g, hp, by simp [emit]⟩) (DoSpec.do hp)
            · intro e he; simp at he; subst he; rfl
            · rw [hr, rawsOf_cons_record]; rfl
          · simp only [if_true] at h
            by_cases h4 : g.text.isEmpty = true
            · simp only [h4, if_true] at h; cases h
            · simp only [h4, Bool.false_eq_true, if_false] at h
              generalize hrr : recurse (resolve t g.text) _ = rr at h
              cases rr with
              | error e => cases h
              | ok v =>
                obtain ⟨stB, got⟩ := v
                simp only [Except.ok.injEq, Prod.mk.injEq] at h
                obtain ⟨h, -, -⟩ := h
                exact Step.sub g [⟨t, .record kDo (normpath (resolve t g.text))⟩] stB got hp hr (Or.inr rfl)
                  (by simpa [emit] using hrr) h.symm
      · simp only [h2, if_false] at h
        by_cases h5 : g.kind = kDone
        · simp only [h5, if_true] at h
          generalize hpd : parseDoneText g.text = pd at h
          cases pd with
          | none =>
            have hr : isRawLine l = true := by
              unfold isRawLine; rw [hp]; dsimp only; rw [if_neg h1, if_neg h2, if_pos h5, hpd]; rfl
            simp only [Except.ok.injEq, Prod.mk.injEq] at h
            obtain ⟨h, -, -⟩ := h
            subst h
            refine Step.own [⟨t, .raw (cleanLine l)⟩] ?_ ?_ (by simp) (by simp [emit]) (Or.inl rfl) (DoSpec.raw _ _ _)
            · intro e he; simp at he; subst he; rfl
            · rw [hr, rawsOf_cons_raw]; rfl
          | some v =>
            have hr : isRawLine l = false := by
              unfold isRawLine; rw [hp]; dsimp only; rw [if_neg h1, if_neg h2, if_pos h5, hpd]; rfl
            obtain ⟨rv, name⟩ := v
            simp only [Except.ok.injEq, Prod.mk.injEq] at h
            obtain ⟨h, -, -⟩ := h
            subst h
            refine Step.own [⟨t, .record kDone (rv ++ ' ' :: normpath (resolve t name))⟩] ?_ ?_ (by simp) (by simp [emit]) (Or.inl rfl) (DoSpec.done _ _ _)
            · intro e he; simp at he; subst he; rfl
            · rw [hr, rawsOf_cons_record]; rfl
        · have hr : isRawLine l = true := by unfold isRawLine; rw [hp]; simp [h1, h2, h5, -not_or]
          simp only [h5, if_false, Except.ok.injEq, Prod.mk.injEq] at h
          obtain ⟨h, -, -⟩ := h
          subst h
          refine Step.own [⟨t, .raw (cleanLine l)⟩] ?_ ?_ (by simp) (by simp [emit]) (Or.inl rfl) (DoSpec.raw _ _ _)
          · intro e he; simp at he; subst he; rfl
          · rw [hr, rawsOf_cons_raw]; rfl

theorem lines_run (recurse : List Char → St → Except CErr (St × Nat)) (optU optR : Bool) (t : List Char) :
    ∀ (ls : List (List Char)) (st : St) (intr w : Nat) (st' : St) (n : Nat),
      lines recurse optU optR t ls st intr w = .ok (st', n) → Run recurse t ls st st'
  | [], st, intr, w, st', n, h => by
    rw [lines_nil] at h
    simp only [Except.ok.injEq, Prod.mk.injEq] at h
    rw [← h.1]
    exact Run.nil st
  | l :: ls, st, intr, w, st', n, h => by
    rw [lines_cons] at h
    generalize hs : lineStep recurse optU optR t l st intr w = r at h
    cases r with
    | error e => cases h
    | ok v =>
      obtain ⟨st1, i1, w1⟩ := v
      exact Run.cons (lineStep_step hs) (lines_run recurse optU optR t ls st1 i1 w1 st' n h)

/-! ### What a complete replay appends -/

/-- A chronological chunk `c` appended while `already` grew from `a` to `a'`: it only speaks about targets
whose *cleaned* name was not in `a` and is in `a'`, a cleaned name is spoken for under one spelling only, and for
every target it shows nothing or that target's log (its lines after ungluing) once. -/
structure GoodChunk (F : Forest) (a : List (List Char)) (c : List Tagged) (a' : List (List Char)) : Prop where
  sub : a ⊆ a'
  tags : ∀ e ∈ c, normpath e.tag ∉ a ∧ normpath e.tag ∈ a'
  uniq : ∀ e1 ∈ c, ∀ e2 ∈ c, normpath e1.tag = normpath e2.tag → e1.tag = e2.tag
  raws : ∀ y, rawsOf y c = [] ∨ ∃ ls, lookup F (normpath y) = some (some ls) ∧ rawsOf y c = rawLines (unglue ls)

theorem GoodChunk.nil (F : Forest) {a a' : List (List Char)} (h : a ⊆ a') : GoodChunk F a [] a' :=
  ⟨h, fun _ he => (by cases he), fun _ he => (by cases he), fun _ => Or.inl rfl⟩

theorem GoodChunk.weaken {F : Forest} {a a' a'' : List (List Char)} {c : List Tagged}
    (h : GoodChunk F a c a') (hs : a' ⊆ a'') : GoodChunk F a c a'' :=
  ⟨fun _ hx => hs (h.sub hx), fun e he => ⟨(h.tags e he).1, hs (h.tags e he).2⟩, h.uniq, h.raws⟩

theorem GoodChunk.append {F : Forest} {a a1 a2 : List (List Char)} {c1 c2 : List Tagged}
    (h1 : GoodChunk F a c1 a1) (h2 : GoodChunk F a1 c2 a2) : GoodChunk F a (c1 ++ c2) a2 := by
  refine ⟨fun _ hx => h2.sub (h1.sub hx), ?_, ?_, ?_⟩
  · intro e he
    rcases List.mem_append.1 he with he | he
    · exact ⟨(h1.tags e he).1, h2.sub (h1.tags e he).2⟩
    · exact ⟨fun hin => (h2.tags e he).1 (h1.sub hin), (h2.tags e he).2⟩
  · intro e1 he1 e2 he2 hn
    rcases List.mem_append.1 he1 with he1 | he1 <;> rcases List.mem_append.1 he2 with he2 | he2
    · exact h1.uniq e1 he1 e2 he2 hn
    · exact absurd (hn ▸ (h1.tags e1 he1).2) (h2.tags e2 he2).1
    · exact absurd (hn ▸ (h1.tags e2 he2).2) (h2.tags e1 he1).1
    · exact h2.uniq e1 he1 e2 he2 hn
  · intro y
    rw [rawsOf_append]
    by_cases hy : normpath y ∈ a1
    · have : rawsOf y c2 = [] := rawsOf_eq_nil (fun e he heq => (h2.tags e he).1 (heq ▸ hy))
      rw [this, List.append_nil]
      exact h1.raws y
    · have : rawsOf y c1 = [] := rawsOf_eq_nil (fun e he heq => hy (heq ▸ (h1.tags e he).2))
      rw [this, List.nil_append]
      exact h2.raws y

/-- The specification every `recurse` argument of `lines` has to meet. -/
def RecSpec (F : Forest) (recurse : List Char → St → Except CErr (St × Nat)) : Prop :=
  ∀ x s s' n, recurse x s = .ok (s', n) →
    ∃ c, s'.out = c.reverse ++ s.out ∧ GoodChunk F s.already c s'.already

/-- What the line loop of `t` over the lines `ls` appends: the entries not tagged `t` form a good chunk,
and the raw entries tagged `t` are the raw lines of `ls`. -/
structure LoopChunk (F : Forest) (t : List Char) (ls : List (List Char)) (a : List (List Char))
    (c : List Tagged) (a' : List (List Char)) : Prop where
  others : GoodChunk F a (c.filter (fun e => decide (e.tag ≠ t))) a'
  mine : rawsOf t c = rawLines ls

theorem LoopChunk.append {F : Forest} {t : List Char} {ls1 ls2 : List (List Char)} {a a1 a2 : List (List Char)}
    {c1 c2 : List Tagged} (h1 : LoopChunk F t ls1 a c1 a1) (h2 : LoopChunk F t ls2 a1 c2 a2) :
    LoopChunk F t (ls1 ++ ls2) a (c1 ++ c2) a2 := by
  refine ⟨?_, ?_⟩
  · rw [List.filter_append]
    exact h1.others.append h2.others
  · rw [rawsOf_append, rawLines_append, h1.mine, h2.mine]

theorem filter_ne_of_all_eq {t : List Char} {c : List Tagged} (h : ∀ e ∈ c, e.tag = t) :
    c.filter (fun e => decide (e.tag ≠ t)) = [] := by
  rw [List.filter_eq_nil_iff]
  intro e he
  simp [h e he]

theorem filter_ne_of_all_ne {t : List Char} {c : List Tagged} (h : ∀ e ∈ c, e.tag ≠ t) :
    c.filter (fun e => decide (e.tag ≠ t)) = c := by
  rw [List.filter_eq_self]
  intro e he
  simp [h e he]

theorem step_chunk {F : Forest} {recurse : List Char → St → Except CErr (St × Nat)} (hrec : RecSpec F recurse)
    {t l : List Char} {st st1 : St} (ht : normpath t ∈ st.already) (h : Step recurse t l st st1) :
    ∃ c, st1.out = c.reverse ++ st.out ∧ LoopChunk F t [l] st.already c st1.already := by
  cases h with
  | own own htag hraw hlen hout hal hdo =>
    refine ⟨own, hout, ?_, ?_⟩
    · rw [filter_ne_of_all_eq htag]
      apply GoodChunk.nil
      rcases hal with e | ⟨g, _, e⟩ <;> rw [e]
      · exact fun _ h => h
      · exact fun _ h => List.mem_cons_of_mem _ h
    · rw [hraw, rawLines_cons, rawLines_nil, List.append_nil]
  | sub g own stB got hp hnr hown hrc hst' =>
    obtain ⟨c, hc, hg⟩ := hrec _ _ _ _ hrc
    dsimp only at hc hg
    have htag : ∀ e ∈ own, e.tag = t := by
      rcases hown with e | e <;> subst e
      · intro e he; cases he
      · intro e he; simp at he; subst he; rfl
    have hne : ∀ e ∈ c, e.tag ≠ t := fun e he heq => (hg.tags e he).1 (heq ▸ ht)
    subst hst'
    refine ⟨own ++ c, by simp [hc], ?_, ?_⟩
    · rw [List.filter_append, filter_ne_of_all_eq htag, filter_ne_of_all_ne hne, List.nil_append]
      exact hg.weaken (fun _ h => List.mem_cons_of_mem _ h)
    · rw [rawsOf_append, rawsOf_eq_nil hne, List.append_nil, rawLines_cons, hnr, rawLines_nil]
      rcases hown with e | e <;> subst e
      · rfl
      · rw [rawsOf_cons_record]; rfl

theorem Step.already_sub {F : Forest} {recurse : List Char → St → Except CErr (St × Nat)} (hrec : RecSpec F recurse)
    {t l : List Char} {st st1 : St} (h : Step recurse t l st st1) : st.already ⊆ st1.already := by
  cases h with
  | own own htag hraw hlen hout hal hdo =>
    rcases hal with e | ⟨g, _, e⟩ <;> rw [e]
    · exact fun _ h => h
    · exact fun _ h => List.mem_cons_of_mem _ h
  | sub g own stB got hp hnr hown hrc hst' =>
    obtain ⟨c, hc, hg⟩ := hrec _ _ _ _ hrc
    subst hst'
    exact fun _ h => List.mem_cons_of_mem _ (hg.sub h)

theorem run_chunk {F : Forest} {recurse : List Char → St → Except CErr (St × Nat)} (hrec : RecSpec F recurse)
    {t : List Char} {ls : List (List Char)} {st st' : St} (ht : normpath t ∈ st.already) (h : Run recurse t ls st st') :
    ∃ c, st'.out = c.reverse ++ st.out ∧ LoopChunk F t ls st.already c st'.already := by
  induction h with
  | nil st => exact ⟨[], by simp, GoodChunk.nil F (fun _ h => h), rfl⟩
  | cons hs _ ih =>
    obtain ⟨c1, ho1, hl1⟩ := step_chunk hrec ht hs
    obtain ⟨c2, ho2, hl2⟩ := ih (hs.already_sub hrec ht)
    exact ⟨c1 ++ c2, by rw [ho2, ho1]; simp, hl1.append hl2⟩

theorem lookup_mem {F : Forest} {t : List Char} {v : Option (List (List Char))} (h : lookup F t = some v) :
    t ∈ F.map Prod.fst := by
  unfold lookup at h
  generalize hf : F.find? (fun e => e.1 == t) = r at h
  cases r with
  | none => cases h
  | some e =>
    have h1 := List.find?_some hf
    have h2 := List.mem_of_find?_eq_some hf
    simp only [beq_iff_eq] at h1
    exact h1 ▸ List.mem_map_of_mem h2

/-- The line loop of `t`, entered with the cleaned name of `t` just added to `already`, appends a good chunk. -/
theorem LoopChunk.good {F : Forest} {t : List Char} {ls : List (List Char)} {a a' : List (List Char)}
    {c : List Tagged} (h : LoopChunk F t (unglue ls) (normpath t :: a) c a') (hl : lookup F (normpath t) = some (some ls))
    (hta : normpath t ∉ a) : GoodChunk F a c a' := by
  have hsub : a ⊆ a' := fun _ hx => h.others.sub (List.mem_cons_of_mem _ hx)
  have hta' : normpath t ∈ a' := h.others.sub (List.mem_cons_self ..)
  have hoth : ∀ e ∈ c, e.tag ≠ t → e ∈ c.filter (fun e => decide (e.tag ≠ t)) := by
    intro e he het
    rw [List.mem_filter]; exact ⟨he, by simp [het]⟩
  have hnt : ∀ e ∈ c, e.tag ≠ t → normpath e.tag ≠ normpath t := by
    intro e he het hn
    exact (h.others.tags e (hoth e he het)).1 (hn ▸ List.mem_cons_self ..)
  refine ⟨hsub, ?_, ?_, ?_⟩
  · intro e he
    by_cases het : e.tag = t
    · rw [het]; exact ⟨hta, hta'⟩
    · have := h.others.tags e (hoth e he het)
      exact ⟨fun hin => this.1 (List.mem_cons_of_mem _ hin), this.2⟩
  · intro e1 he1 e2 he2 hn
    by_cases h1 : e1.tag = t <;> by_cases h2 : e2.tag = t
    · rw [h1, h2]
    · exact absurd (h1 ▸ hn.symm) (hnt e2 he2 h2)
    · exact absurd (h2 ▸ hn) (hnt e1 he1 h1)
    · exact h.others.uniq e1 (hoth e1 he1 h1) e2 (hoth e2 he2 h2) hn
  · intro y
    by_cases hy : y = t
    · subst hy; exact Or.inr ⟨ls, hl, h.mine⟩
    · rw [← rawsOf_filter_ne hy c]
      exact h.others.raws y

/-- Main invariant: every successful `catlog` call appends a good chunk. -/
theorem catlog_good (F : Forest) (optU optR : Bool) : ∀ fuel, RecSpec F (catlog F optU optR fuel)
  | 0 => by
    intro x s s' n h
    rw [catlog] at h; cases h
  | fuel + 1 => by
    intro x s s' n h
    rw [catlog] at h
    by_cases hx : normpath x ∈ s.already
    · rw [if_pos hx] at h
      simp only [Except.ok.injEq, Prod.mk.injEq] at h
      rw [← h.1]
      exact ⟨[], by simp, GoodChunk.nil F (fun _ h => h)⟩
    · rw [if_neg hx] at h
      dsimp only at h
      generalize hl : lookup F (normpath x) = r at h
      cases r with
      | none => cases h
      | some v =>
        cases v with
        | none =>
          simp only [Except.ok.injEq, Prod.mk.injEq] at h
          rw [← h.1]
          exact ⟨[], by simp, GoodChunk.nil F (fun _ h => List.mem_cons_of_mem _ h)⟩
        | some ls =>
          dsimp only at h
          have hrun := lines_run _ _ _ _ _ _ _ _ _ _ h
          obtain ⟨c, hc, hloop⟩ := run_chunk (catlog_good F optU optR fuel) (List.mem_cons_self ..) hrun
          exact ⟨c, hc, hloop.good hl hx⟩

/-! ### Consequences for `catlog` -/

theorem catlog_already {F : Forest} {optU optR : Bool} {fuel : Nat} {t : List Char} {st : St}
    (h : normpath t ∈ st.already) : catlog F optU optR (fuel + 1) t st = .ok (st, 0) := by
  rw [catlog, if_pos h]

/-- A successful replay of a target with a log is the line loop over the lines of that log after ungluing. -/
theorem catlog_run {F : Forest} {optU optR : Bool} {fuel : Nat} {t : List Char} {st st' : St} {n : Nat}
    {ls : List (List Char)} (h : catlog F optU optR fuel t st = .ok (st', n)) (ht : normpath t ∉ st.already)
    (hl : lookup F (normpath t) = some (some ls)) :
    ∃ fuel', fuel = fuel' + 1 ∧
      Run (catlog F optU optR fuel') t (unglue ls) { st with already := normpath t :: st.already } st' := by
  cases fuel with
  | zero => rw [catlog] at h; cases h
  | succ fuel' =>
    refine ⟨fuel', rfl, ?_⟩
    rw [catlog, if_neg ht] at h
    dsimp only at h
    rw [hl] at h
    exact lines_run _ _ _ _ _ _ _ _ _ _ h

theorem catlog_mem_already {F : Forest} {optU optR : Bool} {fuel : Nat} {t : List Char} {st st' : St} {n : Nat}
    (h : catlog F optU optR fuel t st = .ok (st', n)) : normpath t ∈ st'.already := by
  cases fuel with
  | zero => rw [catlog] at h; cases h
  | succ fuel' =>
    by_cases ht : normpath t ∈ st.already
    · rw [catlog_already ht] at h
      simp only [Except.ok.injEq, Prod.mk.injEq] at h
      rw [← h.1]; exact ht
    · have h0 := h
      rw [catlog, if_neg ht] at h
      dsimp only at h
      generalize hl : lookup F (normpath t) = r at h
      cases r with
      | none => cases h
      | some v =>
        cases v with
        | none =>
          simp only [Except.ok.injEq, Prod.mk.injEq] at h
          rw [← h.1]; exact List.mem_cons_self ..
        | some ls =>
          obtain ⟨f, hf, hrun⟩ := catlog_run h0 ht hl
          obtain ⟨c, _, hloop⟩ := run_chunk (catlog_good F optU optR f) (List.mem_cons_self ..) hrun
          exact hloop.others.sub (List.mem_cons_self ..)

/-- Entries of a replay of `t` that are not tagged `t` belong to another cleaned name. -/
theorem catlog_foreign {F : Forest} {optU optR : Bool} {fuel : Nat} {t : List Char} {st st' : St} {n : Nat}
    (h : catlog F optU optR fuel t st = .ok (st', n)) :
    ∀ e ∈ newOut st st', e.tag ≠ t → normpath e.tag ≠ normpath t := by
  cases fuel with
  | zero => rw [catlog] at h; cases h
  | succ fuel' =>
    by_cases ht : normpath t ∈ st.already
    · rw [catlog_already ht] at h
      simp only [Except.ok.injEq, Prod.mk.injEq] at h
      rw [← h.1, newOut_self]; intro e he; cases he
    · have h0 := h
      rw [catlog, if_neg ht] at h
      dsimp only at h
      generalize hl : lookup F (normpath t) = r at h
      cases r with
      | none => cases h
      | some v =>
        cases v with
        | none =>
          simp only [Except.ok.injEq, Prod.mk.injEq] at h
          have : newOut st st' = [] := newOut_eq (c := []) (by rw [← h.1]; simp)
          rw [this]; intro e he; cases he
        | some ls =>
          obtain ⟨f, hf, hrun⟩ := catlog_run h0 ht hl
          obtain ⟨c, hc, hloop⟩ := run_chunk (catlog_good F optU optR f) (List.mem_cons_self ..) hrun
          have hc' : st'.out = c.reverse ++ st.out := hc
          rw [newOut_eq hc']
          intro e he het hn
          have hm : e ∈ c.filter (fun e => decide (e.tag ≠ t)) := by
            rw [List.mem_filter]; exact ⟨he, by simp [het]⟩
          exact (hloop.others.tags e hm).1 (hn ▸ List.mem_cons_self ..)

theorem catlog_raws {F : Forest} {optU optR : Bool} {fuel : Nat} {t : List Char} {st st' : St} {n : Nat}
    {ls : List (List Char)} (h : catlog F optU optR fuel t st = .ok (st', n)) (ht : normpath t ∉ st.already)
    (hl : lookup F (normpath t) = some (some ls)) : rawsOf t (newOut st st') = rawLines (unglue ls) := by
  obtain ⟨f, hf, hrun⟩ := catlog_run h ht hl
  obtain ⟨c, hc, hloop⟩ := run_chunk (catlog_good F optU optR f) (List.mem_cons_self ..) hrun
  have hc' : st'.out = c.reverse ++ st.out := hc
  rw [newOut_eq hc']
  exact hloop.mine

/-! ### The top-level loop -/

/-- In a good chunk two different spellings of one cleaned name never both have (raw) entries. -/
theorem GoodChunk.once_per_cleaned {F : Forest} {a a' : List (List Char)} {c : List Tagged}
    (h : GoodChunk F a c a') {x y : List Char} (hxy : x ≠ y) (hn : normpath x = normpath y) :
    rawsOf x c = [] ∨ rawsOf y c = [] := by
  by_cases hex : ∃ e ∈ c, e.tag = x
  · obtain ⟨e, he, hex⟩ := hex
    right
    apply rawsOf_eq_nil
    intro e2 he2 he2y
    have := h.uniq e he e2 he2 (by rw [hex, he2y, hn])
    exact hxy (by rw [← hex, this, he2y])
  · left
    exact rawsOf_eq_nil (fun e he heq => hex ⟨e, he, heq⟩)

/-- Invariant of the output of a whole `redo-log` run: per target, nothing raw before its cleaned name is marked,
and nothing or its log once; and two spellings of one cleaned name are never both shown. -/
def InvSt (F : Forest) (st : St) : Prop :=
  (∀ y, (normpath y ∉ st.already → rawsOf y st.out.reverse = []) ∧
    (rawsOf y st.out.reverse = [] ∨ ∃ ls, lookup F (normpath y) = some (some ls) ∧ rawsOf y st.out.reverse = rawLines (unglue ls))) ∧
  ∀ x y, x ≠ y → normpath x = normpath y → rawsOf x st.out.reverse = [] ∨ rawsOf y st.out.reverse = []

theorem InvSt.init (F : Forest) (a : List (List Char)) : InvSt F ⟨a, []⟩ :=
  ⟨fun _ => ⟨fun _ => rfl, Or.inl rfl⟩, fun _ _ _ _ => Or.inl rfl⟩

theorem InvSt.chunk {F : Forest} {st st' : St} {c : List Tagged} (hi : InvSt F st)
    (hc : st'.out = c.reverse ++ st.out) (hg : GoodChunk F st.already c st'.already) : InvSt F st' := by
  have ho : st'.out.reverse = st.out.reverse ++ c := by rw [hc]; simp
  have hold : ∀ y, normpath y ∈ st.already → rawsOf y c = [] :=
    fun y hy => rawsOf_eq_nil (fun e he heq => (hg.tags e he).1 (heq ▸ hy))
  refine ⟨?_, ?_⟩
  · intro y
    rw [ho, rawsOf_append]
    by_cases hy : normpath y ∈ st.already
    · rw [hold y hy, List.append_nil]
      exact ⟨fun hn => absurd (hg.sub hy) hn, (hi.1 y).2⟩
    · rw [(hi.1 y).1 hy, List.nil_append]
      refine ⟨fun hn => rawsOf_eq_nil (fun e he heq => hn (heq ▸ (hg.tags e he).2)), hg.raws y⟩
  · intro x y hxy hn
    rw [ho, rawsOf_append, rawsOf_append]
    by_cases hy : normpath y ∈ st.already
    · rw [hold y hy, hold x (hn ▸ hy), List.append_nil, List.append_nil]
      exact hi.2 x y hxy hn
    · rw [(hi.1 y).1 hy, (hi.1 x).1 (hn ▸ hy), List.nil_append, List.nil_append]
      exact hg.once_per_cleaned hxy hn

theorem InvSt.emit_record {F : Forest} {st : St} (hi : InvSt F st) (tag k x : List Char) :
    InvSt F (emit st tag (.record k x)) := by
  have : ∀ y, rawsOf y (emit st tag (.record k x)).out.reverse = rawsOf y st.out.reverse := by
    intro y
    simp only [emit, List.reverse_cons, rawsOf_append]
    rw [rawsOf_cons_record]; simp [rawsOf_nil]
  refine ⟨fun y => ?_, fun x' y hxy hn => ?_⟩
  · rw [this]; exact hi.1 y
  · rw [this, this]; exact hi.2 x' y hxy hn

theorem redoLog_inv {F : Forest} {optU optR : Bool} {fuel : Nat} :
    ∀ (ts : List (List Char)) (st st' : St), InvSt F st → redoLog F optU optR fuel ts st = .ok st' → InvSt F st'
  | [], st, st', hi, h => by
    rw [redoLog] at h
    simp only [Except.ok.injEq] at h
    exact h ▸ hi
  | t :: ts, st, st', hi, h => by
    rw [redoLog] at h
    generalize hc : catlog F optU optR fuel t (emit st [] (.record kDo (normpath t))) = r at h
    cases r with
    | error e => cases h
    | ok v =>
      obtain ⟨st1, n⟩ := v
      dsimp only at h
      obtain ⟨c, hout, hg⟩ := catlog_good F optU optR fuel _ _ _ _ hc
      exact redoLog_inv ts st1 st' ((hi.emit_record [] kDo (normpath t)).chunk hout hg) h

/-- Once the cleaned name of a target is in `already`, nothing raw is ever attributed to it again. -/
theorem redoLog_frozen {F : Forest} {optU optR : Bool} {fuel : Nat} {y : List Char} :
    ∀ (ts : List (List Char)) (st st' : St), normpath y ∈ st.already → redoLog F optU optR fuel ts st = .ok st' →
      normpath y ∈ st'.already ∧ rawsOf y st'.out.reverse = rawsOf y st.out.reverse
  | [], st, st', hy, h => by
    rw [redoLog] at h
    simp only [Except.ok.injEq] at h
    exact h ▸ ⟨hy, rfl⟩
  | t :: ts, st, st', hy, h => by
    rw [redoLog] at h
    generalize hc : catlog F optU optR fuel t (emit st [] (.record kDo (normpath t))) = r at h
    cases r with
    | error e => cases h
    | ok v =>
      obtain ⟨st1, n⟩ := v
      dsimp only at h
      obtain ⟨c, hout, hg⟩ := catlog_good F optU optR fuel _ _ _ _ hc
      have hy1 : normpath y ∈ st1.already := hg.sub hy
      obtain ⟨h1, h2⟩ := redoLog_frozen ts st1 st' hy1 h
      refine ⟨h1, ?_⟩
      rw [h2, hout]
      have : rawsOf y c = [] := rawsOf_eq_nil (fun e he heq => (hg.tags e he).1 (heq ▸ hy))
      simp only [emit, List.reverse_append, List.reverse_reverse, List.reverse_cons, rawsOf_append, this]
      rw [rawsOf_cons_record]; simp [rawsOf_nil]

/-! ### Fuel -/

/-- One step calls `recurse` at most once, on a state with the same `already`, and passes its error through;
otherwise it does not depend on `recurse` (and never reports `outOfFuel` by itself). -/
theorem lineStep_call (optU optR : Bool) (t l : List Char) (st : St) (intr w : Nat) :
    (∃ r0, r0 ≠ .error .outOfFuel ∧ ∀ recurse, lineStep recurse optU optR t l st intr w = r0) ∨
    (∃ (x : List Char) (s : St) (k : St → Nat → St × Nat × Nat), s.already = st.already ∧
      ∀ recurse, lineStep recurse optU optR t l st intr w =
        match recurse x s with
        | .error e => .error e
        | .ok (s', got) => .ok (k s' got)) := by
  unfold lineStep
  generalize parse l = p
  cases p with
  | error e => exact Or.inl ⟨_, (by intro h; cases h), fun _ => rfl⟩
  | ok g =>
    dsimp only
    by_cases h1 : g.kind = kUnchanged
    · simp only [h1, if_true]
      cases optU
      · simp only [Bool.false_eq_true, if_false]
        exact Or.inl ⟨_, (by intro h; cases h), fun _ => rfl⟩
      · simp only [if_true]
        cases optR
        · simp only [Bool.false_eq_true, if_false]
          exact Or.inl ⟨_, (by intro h; cases h), fun _ => rfl⟩
        · simp only [if_true]
          refine Or.inr ⟨resolve t g.text, _, fun s' got => ({ s' with already := normpath (resolve t g.text) :: s'.already }, intr + got, w + got),
            ?_, fun _ => rfl⟩
          by_cases h3 : normpath (resolve t g.text) ∈ st.already <;> simp [h3, emit]
    · simp only [h1, if_false]
      by_cases h2 : g.kind = kDo ∨ g.kind = kWaiting ∨ g.kind = kLocked ∨ g.kind = kUnlocked
      · simp only [h2, if_true]
        by_cases h3 : normpath (resolve t g.text) ∈ st.already
        · simp only [h3, if_true]
          cases optR
          · simp only [Bool.false_eq_true, if_false]
            exact Or.inl ⟨_, (by intro h; cases h), fun _ => rfl⟩
          · simp only [if_true]
            by_cases h4 : g.text.isEmpty = true
            · simp only [h4, if_true]
              exact Or.inl ⟨_, (by intro h; cases h), fun _ => rfl⟩
            · simp only [h4, Bool.false_eq_true, if_false]
              exact Or.inr ⟨resolve t g.text, st, fun s' got => ({ s' with already := normpath (resolve t g.text) :: s'.already }, intr + got, w + got),
                rfl, fun _ => rfl⟩
        · simp only [h3, if_false]
          cases optR
          · simp only [Bool.false_eq_true, if_false]
            exact Or.inl ⟨_, (by intro h; cases h), fun _ => rfl⟩
          · simp only [if_true]
            by_cases h4 : g.text.isEmpty = true
            · simp only [h4, if_true]
              exact Or.inl ⟨_, (by intro h; cases h), fun _ => rfl⟩
            · simp only [h4, Bool.false_eq_true, if_false]
              exact Or.inr ⟨resolve t g.text, emit st t (.record kDo (normpath (resolve t g.text))),
                fun s' got => ({ s' with already := normpath (resolve t g.text) :: s'.already }, intr + 1 + got, w + 1 + got),
                rfl, fun _ => rfl⟩
      · simp only [h2, if_false]
        by_cases h5 : g.kind = kDone
        · simp only [h5, if_true]
          cases parseDoneText g.text with
          | none => exact Or.inl ⟨_, (by intro h; cases h), fun _ => rfl⟩
          | some v => exact Or.inl ⟨_, (by intro h; cases h), fun _ => rfl⟩
        · simp only [h5, if_false]
          exact Or.inl ⟨_, (by intro h; cases h), fun _ => rfl⟩

/-- `rec2` extends `rec1`: wherever `rec1` does not run out of fuel, `rec2` agrees. -/
def Extends (rec1 rec2 : List Char → St → Except CErr (St × Nat)) : Prop :=
  ∀ x s, rec1 x s = rec2 x s ∨ rec1 x s = .error .outOfFuel

theorem lineStep_congr {rec1 rec2 : List Char → St → Except CErr (St × Nat)} (H : Extends rec1 rec2)
    (optU optR : Bool) (t l : List Char) (st : St) (intr w : Nat) :
    lineStep rec1 optU optR t l st intr w = lineStep rec2 optU optR t l st intr w ∨
    lineStep rec1 optU optR t l st intr w = .error .outOfFuel := by
  rcases lineStep_call optU optR t l st intr w with ⟨r0, _, hr⟩ | ⟨x, s, k, _, hr⟩
  · left; rw [hr, hr]
  · rw [hr rec1, hr rec2]
    rcases H x s with e | e
    · left; rw [e]
    · right; rw [e]

theorem lines_congr {rec1 rec2 : List Char → St → Except CErr (St × Nat)} (H : Extends rec1 rec2)
    (optU optR : Bool) (t : List Char) : ∀ (ls : List (List Char)) (st : St) (intr w : Nat),
    lines rec1 optU optR t ls st intr w = lines rec2 optU optR t ls st intr w ∨
    lines rec1 optU optR t ls st intr w = .error .outOfFuel
  | [], st, intr, w => by left; rw [lines_nil, lines_nil]
  | l :: ls, st, intr, w => by
    rw [lines_cons, lines_cons]
    rcases lineStep_congr H optU optR t l st intr w with e | e
    · rw [← e]
      generalize lineStep rec1 optU optR t l st intr w = r
      cases r with
      | error e => left; rfl
      | ok v => obtain ⟨st1, i1, w1⟩ := v; exact lines_congr H optU optR t ls st1 i1 w1
    · right; rw [e]

theorem catlog_fuel_succ (F : Forest) (optU optR : Bool) :
    ∀ fuel, Extends (catlog F optU optR fuel) (catlog F optU optR (fuel + 1))
  | 0 => fun x s => Or.inr (by rw [catlog])
  | fuel + 1 => by
    intro x s
    rw [catlog, catlog]
    by_cases hx : normpath x ∈ s.already
    · left; rw [if_pos hx, if_pos hx]
    · rw [if_neg hx, if_neg hx]
      dsimp only
      generalize lookup F (normpath x) = r
      cases r with
      | none => left; rfl
      | some v =>
        cases v with
        | none => left; rfl
        | some ls => exact lines_congr (catlog_fuel_succ F optU optR fuel) optU optR x (unglue ls) _ 0 0

/-- More fuel never changes a result that is not `outOfFuel` (successes and the other errors alike). -/
theorem catlog_fuel_mono {F : Forest} {optU optR : Bool} {fuel : Nat} {t : List Char} {st : St}
    (h : catlog F optU optR fuel t st ≠ .error .outOfFuel) :
    ∀ k, catlog F optU optR (fuel + k) t st = catlog F optU optR fuel t st
  | 0 => rfl
  | k + 1 => by
    have ih := catlog_fuel_mono h k
    rcases catlog_fuel_succ F optU optR (fuel + k) t st with e | e
    · rw [← ih, e]; rfl
    · rw [ih] at e; exact absurd e h

/-- Cleaned names of the keys of the forest (each once) that are not yet in `already`. -/
def pending (F : Forest) (a : List (List Char)) : Nat :=
  (F.map (fun e => normpath e.1)).eraseDups.countP (fun k => decide (k ∉ a))

theorem countP_lt_of_mem {α : Type} {p q : α → Bool} {t : α} :
    ∀ {l : List α}, (∀ x ∈ l, p x = true → q x = true) → t ∈ l → q t = true → p t = false →
      l.countP p < l.countP q
  | [], _, ht, _, _ => by cases ht
  | a :: l, himp, ht, hq, hp => by
    rw [List.countP_cons, List.countP_cons]
    have hle : l.countP p ≤ l.countP q :=
      List.countP_mono_left (fun x hx => himp x (List.mem_cons_of_mem _ hx))
    rcases List.mem_cons.1 ht with e | e
    · subst e
      simp only [hp, hq, Bool.false_eq_true, if_false, if_true]
      omega
    · have := countP_lt_of_mem (fun x hx => himp x (List.mem_cons_of_mem _ hx)) e hq hp
      have h2 := himp a (List.mem_cons_self ..)
      by_cases hpa : p a = true
      · simp only [hpa, h2 hpa, if_true]; omega
      · simp only [hpa, Bool.false_eq_true, if_false]
        split <;> omega

theorem pending_mono (F : Forest) {a a' : List (List Char)} (h : a ⊆ a') : pending F a' ≤ pending F a := by
  unfold pending
  apply List.countP_mono_left
  intro x _ hx
  simp only [decide_eq_true_eq] at hx ⊢
  exact fun hin => hx (h hin)

theorem pending_lt (F : Forest) {a : List (List Char)} {t : List Char} (ht : normpath t ∈ F.map Prod.fst)
    (hta : normpath t ∉ a) : pending F (normpath t :: a) < pending F a := by
  unfold pending
  apply countP_lt_of_mem (t := normpath t)
  · intro x _ hx
    simp only [decide_eq_true_eq, List.mem_cons, not_or] at hx ⊢
    exact hx.2
  · rw [List.mem_eraseDups]
    obtain ⟨e, he, hk⟩ := List.mem_map.1 ht
    exact List.mem_map.2 ⟨e, he, by rw [hk, C15.idempotent]⟩
  · simpa using hta
  · simp

theorem lineStep_noOOF {recurse : List Char → St → Except CErr (St × Nat)}
    {a : List (List Char)} (hn : ∀ x s, a ⊆ s.already → recurse x s ≠ .error .outOfFuel)
    (optU optR : Bool) (t l : List Char) (st : St) (intr w : Nat) (ha : a ⊆ st.already) :
    lineStep recurse optU optR t l st intr w ≠ .error .outOfFuel := by
  rcases lineStep_call optU optR t l st intr w with ⟨r0, h0, hr⟩ | ⟨x, s, k, hs, hr⟩
  · rw [hr]; exact h0
  · rw [hr]
    have := hn x s (hs ▸ ha)
    generalize recurse x s = rr at this
    cases rr with
    | error e => intro h; simp only [Except.error.injEq] at h; exact this (h ▸ rfl)
    | ok v => intro h; cases h

theorem lines_noOOF {F : Forest} {recurse : List Char → St → Except CErr (St × Nat)} (hrec : RecSpec F recurse)
    {a : List (List Char)} (hn : ∀ x s, a ⊆ s.already → recurse x s ≠ .error .outOfFuel)
    (optU optR : Bool) (t : List Char) : ∀ (ls : List (List Char)) (st : St) (intr w : Nat), a ⊆ st.already →
    lines recurse optU optR t ls st intr w ≠ .error .outOfFuel
  | [], st, intr, w, _ => by rw [lines_nil]; intro h; cases h
  | l :: ls, st, intr, w, ha => by
    rw [lines_cons]
    have h1 := lineStep_noOOF hn optU optR t l st intr w ha
    generalize hs : lineStep recurse optU optR t l st intr w = r at h1
    cases r with
    | error e =>
      dsimp only
      intro h
      simp only [Except.error.injEq] at h
      exact h1 (h ▸ rfl)
    | ok v =>
      obtain ⟨st1, i1, w1⟩ := v
      dsimp only
      have hsub := (lineStep_step hs).already_sub hrec
      exact lines_noOOF hrec hn optU optR t ls st1 i1 w1 (fun _ hx => hsub (ha hx))

/-- Fuel bound: one unit per forest key not yet in `already`, plus one. -/
theorem catlog_no_outOfFuel (F : Forest) (optU optR : Bool) :
    ∀ (fuel : Nat) (t : List Char) (st : St), pending F st.already + 1 ≤ fuel →
      catlog F optU optR fuel t st ≠ .error .outOfFuel
  | 0, _, _, h => by omega
  | fuel + 1, t, st, h => by
    rw [catlog]
    by_cases ht : normpath t ∈ st.already
    · rw [if_pos ht]; intro h; cases h
    · rw [if_neg ht]
      dsimp only
      generalize hl : lookup F (normpath t) = r
      cases r with
      | none => intro h; cases h
      | some v =>
        cases v with
        | none => intro h; cases h
        | some ls =>
          have hlt := pending_lt F (lookup_mem hl) ht
          apply lines_noOOF (F := F) (catlog_good F optU optR fuel) (a := normpath t :: st.already)
          · intro x s hs
            apply catlog_no_outOfFuel F optU optR fuel x s
            have := pending_mono F hs
            omega
          · exact fun _ h => h

theorem redoLog_no_outOfFuel (F : Forest) (optU optR : Bool) (fuel : Nat) :
    ∀ (ts : List (List Char)) (st : St), pending F st.already + 1 ≤ fuel →
      redoLog F optU optR fuel ts st ≠ .error .outOfFuel
  | [], st, _ => by rw [redoLog]; intro h; cases h
  | t :: ts, st, h => by
    rw [redoLog]
    have h1 := catlog_no_outOfFuel F optU optR fuel t (emit st [] (.record kDo (normpath t))) h
    generalize hc : catlog F optU optR fuel t (emit st [] (.record kDo (normpath t))) = r at h1
    cases r with
    | error e => intro h; simp only [Except.error.injEq] at h; exact h1 (h ▸ rfl)
    | ok v =>
      obtain ⟨st1, n⟩ := v
      dsimp only
      obtain ⟨c, _, hg⟩ := catlog_good F optU optR fuel _ _ _ _ hc
      apply redoLog_no_outOfFuel F optU optR fuel ts st1
      have := pending_mono F hg.sub
      simp only [emit] at this
      omega

/-! ### Extras used by the property file -/

/-- `isRawLine` is exactly "not one of the records `lines` interprets": no record at all, a record of a kind `lines`
does not know, or a `done` record whose text is not `<status> <name>`. -/
theorem isRawLine_iff (l : List Char) :
    isRawLine l = true ↔ ∀ g, parse l = .ok g →
      g.kind ≠ kUnchanged ∧ g.kind ≠ kDo ∧ g.kind ≠ kWaiting ∧ g.kind ≠ kLocked ∧ g.kind ≠ kUnlocked ∧
      (g.kind = kDone → parseDoneText g.text = none) := by
  unfold isRawLine
  cases parse l with
  | error e => simp
  | ok g =>
    simp only [Except.ok.injEq, forall_eq']
    by_cases h1 : g.kind = kUnchanged
    · simp [h1]
    · by_cases h2 : g.kind = kDo ∨ g.kind = kWaiting ∨ g.kind = kLocked ∨ g.kind = kUnlocked
      · simp only [h1, h2, if_true, if_false, Bool.false_eq_true, false_iff]
        intro h; rcases h2 with e | e | e | e
        · exact h.2.1 e
        · exact h.2.2.1 e
        · exact h.2.2.2.1 e
        · exact h.2.2.2.2.1 e
      · rw [if_neg h1, if_neg h2]
        simp only [not_or] at h2
        by_cases h5 : g.kind = kDone
        · rw [if_pos h5]
          constructor
          · intro h; exact ⟨h1, h2.1, h2.2.1, h2.2.2.1, h2.2.2.2, fun _ => Option.isNone_iff_eq_none.1 h⟩
          · intro h; exact Option.isNone_iff_eq_none.2 (h.2.2.2.2.2 h5)
        · rw [if_neg h5]
          exact ⟨fun _ => ⟨h1, h2.1, h2.2.1, h2.2.2.1, h2.2.2.2, fun h => absurd h h5⟩, fun _ => rfl⟩

/-! ### A malformed `done` record is not an error -/

theorem lineStep_ne_badDone {recurse : List Char → St → Except CErr (St × Nat)}
    (hn : ∀ x s, recurse x s ≠ .error .badDone) (optU optR : Bool) (t l : List Char) (st : St) (intr w : Nat) :
    lineStep recurse optU optR t l st intr w ≠ .error .badDone := by
  have key : ∀ (x : List Char) (s : St) (k : St → Nat → St × Nat × Nat),
      (match recurse x s with
        | .error e => .error e
        | .ok (s', got) => .ok (k s' got) : Except CErr (St × Nat × Nat)) ≠ .error .badDone := by
    intro x s k
    have := hn x s
    generalize recurse x s = rr at this
    cases rr with
    | error e => intro h; simp only [Except.error.injEq] at h; exact this (h ▸ rfl)
    | ok v => intro h; cases h
  unfold lineStep
  generalize parse l = p
  cases p with
  | error e => intro h; cases h
  | ok g =>
    dsimp only
    by_cases h1 : g.kind = kUnchanged
    · simp only [h1, if_true]
      cases optU
      · simp only [Bool.false_eq_true, if_false]
        intro h; cases h
      · simp only [if_true]
        cases optR
        · simp only [Bool.false_eq_true, if_false]
          intro h; cases h
        · simp only [if_true]
          exact key _ _ (fun s' got => ({ s' with already := normpath (resolve t g.text) :: s'.already }, intr + got, w + got))
    · simp only [h1, if_false]
      by_cases h2 : g.kind = kDo ∨ g.kind = kWaiting ∨ g.kind = kLocked ∨ g.kind = kUnlocked
      · simp only [h2, if_true]
        by_cases h3 : normpath (resolve t g.text) ∈ st.already
        · simp only [h3, if_true]
          cases optR
          · simp only [Bool.false_eq_true, if_false]
            intro h; cases h
          · simp only [if_true]
            by_cases h4 : g.text.isEmpty = true
            · simp only [h4, if_true]
              intro h; cases h
            · simp only [h4, Bool.false_eq_true, if_false]
              exact key _ _ (fun s' got => ({ s' with already := normpath (resolve t g.text) :: s'.already }, intr + got, w + got))
        · simp only [h3, if_false]
          cases optR
          · simp only [Bool.false_eq_true, if_false]
            intro h; cases h
          · simp only [if_true]
            by_cases h4 : g.text.isEmpty = true
            · simp only [h4, if_true]
              intro h; cases h
            · simp only [h4, Bool.false_eq_true, if_false]
              exact key _ _ (fun s' got => ({ s' with already := normpath (resolve t g.text) :: s'.already }, intr + 1 + got, w + 1 + got))
      · simp only [h2, if_false]
        by_cases h5 : g.kind = kDone
        · simp only [h5, if_true]
          cases parseDoneText g.text with
          | none => intro h; cases h
          | some v => intro h; cases h
        · simp only [h5, if_false]
          intro h; cases h

theorem lines_ne_badDone {recurse : List Char → St → Except CErr (St × Nat)}
    (hn : ∀ x s, recurse x s ≠ .error .badDone) (optU optR : Bool) (t : List Char) :
    ∀ (ls : List (List Char)) (st : St) (intr w : Nat), lines recurse optU optR t ls st intr w ≠ .error .badDone
  | [], st, intr, w => by rw [lines_nil]; intro h; cases h
  | l :: ls, st, intr, w => by
    rw [lines_cons]
    have h1 := lineStep_ne_badDone hn optU optR t l st intr w
    generalize lineStep recurse optU optR t l st intr w = r at h1
    cases r with
    | error e =>
      dsimp only
      intro h
      simp only [Except.error.injEq] at h
      exact h1 (h ▸ rfl)
    | ok v =>
      obtain ⟨st1, i1, w1⟩ := v
      exact lines_ne_badDone hn optU optR t ls st1 i1 w1

theorem catlog_ne_badDone (F : Forest) (optU optR : Bool) :
    ∀ (fuel : Nat) (t : List Char) (st : St), catlog F optU optR fuel t st ≠ .error .badDone
  | 0, _, _ => by rw [catlog]; intro h; cases h
  | fuel + 1, t, st => by
    rw [catlog]
    by_cases ht : normpath t ∈ st.already
    · rw [if_pos ht]; intro h; cases h
    · rw [if_neg ht]
      dsimp only
      generalize lookup F (normpath t) = r
      cases r with
      | none => intro h; cases h
      | some v =>
        cases v with
        | none => intro h; cases h
        | some ls => exact lines_ne_badDone (catlog_ne_badDone F optU optR fuel) optU optR t (unglue ls) _ 0 0

theorem redoLog_ne_badDone (F : Forest) (optU optR : Bool) (fuel : Nat) :
    ∀ (ts : List (List Char)) (st : St), redoLog F optU optR fuel ts st ≠ .error .badDone
  | [], st => by rw [redoLog]; intro h; cases h
  | t :: ts, st => by
    rw [redoLog]
    have h1 := catlog_ne_badDone F optU optR fuel t (emit st [] (.record kDo (normpath t)))
    generalize catlog F optU optR fuel t (emit st [] (.record kDo (normpath t))) = r at h1
    cases r with
    | error e => intro h; simp only [Except.error.injEq] at h; exact h1 (h ▸ rfl)
    | ok v =>
      obtain ⟨st1, n⟩ := v
      exact redoLog_ne_badDone F optU optR fuel ts st1

/-- The first command-line target of a run from the empty state is shown completely. -/
theorem redoLog_first {F : Forest} {optU optR : Bool} {fuel : Nat} {t : List Char} {ts : List (List Char)}
    {st' : St} {ls : List (List Char)} (h : redoLog F optU optR fuel (t :: ts) ⟨[], []⟩ = .ok st')
    (hl : lookup F (normpath t) = some (some ls)) : rawsOf t st'.out.reverse = rawLines (unglue ls) := by
  rw [redoLog] at h
  generalize hc : catlog F optU optR fuel t (emit ⟨[], []⟩ [] (.record kDo (normpath t))) = r at h
  cases r with
  | error e => cases h
  | ok v =>
    obtain ⟨st1, n⟩ := v
    dsimp only at h
    have hr := catlog_raws hc (by simp [emit]) hl
    obtain ⟨c, hout, _⟩ := catlog_good F optU optR fuel _ _ _ _ hc
    rw [newOut_eq hout] at hr
    rw [(redoLog_frozen ts st1 st' (catlog_mem_already hc) h).2, hout]
    simp only [emit, List.reverse_append, List.reverse_reverse, List.reverse_cons, List.reverse_nil,
      List.nil_append, rawsOf_append, hr]
    rw [rawsOf_cons_record]; simp [rawsOf_nil]

theorem length_eraseDups_le : ∀ (n : Nat) (l : List (List Char)), l.length ≤ n → l.eraseDups.length ≤ l.length
  | _, [], _ => by simp
  | 0, _ :: _, h => by simp at h
  | n + 1, a :: l, h => by
    rw [List.eraseDups_cons]
    have h1 : (l.filter fun b => !b == a).length ≤ l.length := List.length_filter_le _ _
    have h2 := length_eraseDups_le n (l.filter fun b => !b == a) (by simp at h; omega)
    simp only [List.length_cons]
    omega

theorem pending_le_length (F : Forest) (a : List (List Char)) : pending F a ≤ F.length := by
  unfold pending
  have h1 := List.countP_le_length (p := fun k => decide (k ∉ a)) (l := (F.map (fun e => normpath e.1)).eraseDups)
  have h2 := length_eraseDups_le _ (F.map (fun e => normpath e.1)) (Nat.le_refl _)
  simp only [List.length_map] at h2
  omega

end RedoModel.LogRec
