import RedoModel.Lemmas.DepsOk7
import RedoModel.Lemmas.DepsSound0
/-!
# C09 / C05 — a concrete history: two failures, two repairs, success (non-vacuity); necessity examples

Target 2 is built by the .do file 1.  With content `[17]` the script declares and reads the source 5 and fails
when 5 holds an odd version; with content `[19]` the script exits 1.

`rpOps`: source 5 written with an odd version, `redo-ifchange 2` **fails** (content-dependent failure); the user
writes an even version but also replaces the .do file by the one that exits 1, `redo-ifchange 2` **fails** again;
the user restores the good .do file.  Then `redo-ifchange 2` exits 0 and 2 is up to date.
-/
namespace RedoModel.Deps.Rich
open RedoModel.Generated

def rpGood : Script := { ifchange := [[5]], reads := [5], failIfOdd := some 5, tag := 1 }
def rpBad : Script := { exit := 1, tag := 2 }

def rpOps1 : List UserOp := [.setProg [17] rpGood, .setProg [19] rpBad, .write 5 1, .write 1 7]
def rpOps2 : List UserOp := rpOps1 ++ [.cmd (.ifchange [2] false), .write 5 2, .write 1 8]
def rpOps : List UserOp := rpOps2 ++ [.cmd (.ifchange [2] false), .write 1 7]

def rpW1 : World := rpOps1.foldl (fun w op => (applyOp {} 2 op w).2) (initWorld cxRules)
def rpW2 : World := rpOps2.foldl (fun w op => (applyOp {} 2 op w).2) (initWorld cxRules)
def rpW : World := rpOps.foldl (fun w op => (applyOp {} 2 op w).2) (initWorld cxRules)

/-- The first command of the history fails: the source holds an odd version. -/
theorem rp_fail1 : (runCmd {} 2 (.ifchange [2] false) rpW1).1.status = 1 := by decide +kernel
/-- The second command of the history fails: the .do file in place exits 1. -/
theorem rp_fail2 : (runCmd {} 2 (.ifchange [2] false) rpW2).1.status = 1 := by decide +kernel
/-- The record of the target still says "failed" (in run 2) when the last command starts. -/
theorem rp_failed_mark : (rpW.recs 2).failed = some 2 := by decide +kernel

theorem rp_rich1 : rpGood.Rich := by
  refine ⟨rfl, ?_, ?_⟩
  · intro f hf; left; simpa [rpGood] using hf
  · intro f hf; simp only [rpGood, Option.some.injEq] at hf; subst hf; simp [rpGood]

theorem rp_rich2 : rpBad.Rich := ⟨rfl, fun f hf => by simp [rpBad] at hf, fun f hf => by simp [rpBad] at hf⟩

theorem rp_ops : ∀ op ∈ rpOps, RichOp cxRules op := by
  intro op hop
  simp only [rpOps, rpOps2, rpOps1, List.cons_append, List.nil_append, List.mem_cons, List.not_mem_nil, or_false] at hop
  rcases hop with rfl | rfl | rfl | rfl | rfl | rfl | rfl | rfl | rfl
  · exact rp_rich1
  · exact rp_rich2
  · simp [RichOp, alwaysId]
  · simp [RichOp, alwaysId]
  · intro t ht; simp only [Cmd.names, List.mem_singleton] at ht; subst ht; simp [alwaysId]
  · simp [RichOp, alwaysId]
  · simp [RichOp, alwaysId]
  · intro t ht; simp only [Cmd.names, List.mem_singleton] at ht; subst ht; simp [alwaysId]
  · simp [RichOp, alwaysId]

theorem rp_ranked_of (w : World) (hr : w.rules = cxRules)
    (hp : ∀ c sc, w.progs c = some sc → sc = rpGood ∨ sc = rpBad) : RankedR cxRank w := by
  refine ⟨fun t c hc => ?_, fun t dof hd n sc _ h => ?_⟩
  · rw [hr] at hc; unfold cxRules at hc
    split at hc
    · simp at hc; subst hc; subst_vars; simp [cxRank]
    · simp at hc
  · rw [hr] at hd; unfold cxRules at hd
    split at hd
    · subst_vars
      rcases hp _ _ h with rfl | rfl
      · refine ⟨fun h => by simp [rpGood] at h, fun d hdm => ?_, fun d hdm => by simp [rpGood] at hdm⟩
        have : d = 5 := by simpa [rpGood] using hdm
        subst this
        simp [cxRank, alwaysId]
      · exact ⟨fun h => by simp [rpBad] at h, fun d hdm => by simp [rpBad] at hdm, fun d hdm => by simp [rpBad] at hdm⟩
    · simp at hd

theorem rp_progs0 (w : World) (hp : w.progs = fun _ => none) :
    ∀ c sc, w.progs c = some sc → sc = rpGood ∨ sc = rpBad := by
  intro c sc h; rw [hp] at h; cases h

theorem rp_progs1 (w : World) (hp : w.progs = fun x => if x = [17] then some rpGood else none) :
    ∀ c sc, w.progs c = some sc → sc = rpGood ∨ sc = rpBad := by
  intro c sc h
  rw [hp] at h
  simp only at h
  split at h
  · exact Or.inl (Option.some.inj h).symm
  · cases h

theorem rp_progs2 (w : World)
    (hp : w.progs = fun x => if x = [19] then some rpBad else if x = [17] then some rpGood else none) :
    ∀ c sc, w.progs c = some sc → sc = rpGood ∨ sc = rpBad := by
  intro c sc h
  rw [hp] at h
  simp only at h
  split at h
  · exact Or.inr (Option.some.inj h).symm
  · split at h
    · exact Or.inl (Option.some.inj h).symm
    · cases h

theorem rp_ranked : ∀ w ∈ worldsOf 2 {} (initWorld cxRules) rpOps, RankedR cxRank w := by
  intro w hw
  simp only [rpOps, rpOps2, rpOps1, List.cons_append, List.nil_append, worldsOf, List.mem_cons, List.not_mem_nil,
    or_false] at hw
  rcases hw with rfl | rfl | rfl | rfl | rfl | rfl | rfl | rfl | rfl | rfl
  · exact rp_ranked_of _ rfl (rp_progs0 _ rfl)
  · exact rp_ranked_of _ rfl (rp_progs1 _ rfl)
  · exact rp_ranked_of _ rfl (rp_progs2 _ rfl)
  · exact rp_ranked_of _ rfl (rp_progs2 _ rfl)
  · exact rp_ranked_of _ rfl (rp_progs2 _ rfl)
  · exact rp_ranked_of _ rfl (rp_progs2 _ rfl)
  · exact rp_ranked_of _ rfl (rp_progs2 _ rfl)
  · exact rp_ranked_of _ rfl (rp_progs2 _ rfl)
  · exact rp_ranked_of _ rfl (rp_progs2 _ rfl)
  · exact rp_ranked_of _ rfl (rp_progs2 _ rfl)

theorem rp_opsOk : OpsOkW 2 (initWorld cxRules) rpOps := by
  refine ⟨?_, ?_, trivial, trivial, trivial, trivial, trivial, trivial, trivial, trivial⟩
  · intro t dof _ n hn; cases hn
  · intro t dof _ n hn; cases hn

theorem rp_rankLt : ∀ f, cxRank f < 2 := by intro f; unfold cxRank; split <;> omega

/-- After the two repairs the target is buildable. -/
theorem rp_buildable : Buildable rpW 2 := by
  have h1 : firstEx rpW (rpW.rules 2) = some 1 := by decide +kernel
  have h2 : scriptAt rpW 1 = rpGood := by decide +kernel
  have h3 : rpW.rules 5 = [] := by decide +kernel
  have h4 : existsF rpW 5 = true := by decide +kernel
  have h5 : failNowOf rpW rpGood = false := by decide +kernel
  refine .target h1 ?_ ?_ ?_ ?_ ?_
  · rw [h2]; intro d hd
    have : d = 5 := by simpa [rpGood] using hd
    subst this
    exact .source (fun c hc => by rw [h3] at hc; cases hc) h4
  · rw [h2]; intro d hd; simp [rpGood] at hd
  · rw [h2]; intro d hd; simp [rpGood] at hd
  · rw [h2]; rfl
  · rw [h2]; exact h5

/-- **Non-vacuity of `buildableExitsZero` / `retriedAndRepaired`**: all hypotheses hold for the history with two
failed commands; the next `redo-ifchange 2` exits 0 and leaves 2 up to date. -/
theorem rp_repaired :
    (runCmd {} 2 (.ifchange [2] false) rpW).1.status = 0 ∧ UpToDateR (runCmd {} 2 (.ifchange [2] false) rpW).2 2 := by
  obtain ⟨a, b⟩ := retriedAndRepaired 2 cxRules cxRank rpOps [2] false false cx_rulesOk rp_ops rp_ranked rp_rankLt
    rp_opsOk (fun t ht => by simp only [List.mem_singleton] at ht; subst ht; exact rp_buildable)
  exact ⟨a, b 2 (by simp)⟩

/-- The same targets named twice: no extra hypothesis is needed for duplicates. -/
theorem rp_repaired_twice : (runCmd {} 2 (.redo [2, 2] true) rpW).1.status = 0 :=
  buildableExitsZero 2 cxRules cxRank rpOps [2, 2] true true cx_rulesOk rp_ops rp_ranked rp_rankLt rp_opsOk
    (fun t ht => by simp only [List.mem_cons, List.not_mem_nil, or_false, or_self] at ht; subst ht; exact rp_buildable)

/-! ### Necessity of the clauses of `Buildable` -/

/-- A source named on the command line must exist: in the empty project `redo-ifchange 5` fails (every other
hypothesis of `buildableExitsZero` holds for the empty history). -/
theorem missing_source_fails : (runCmd {} 2 (.ifchange [5] false) (initWorld cxRules)).1.status = 1 := by
  decide +kernel

/-- The content-dependent failure must not fire: before the first repair the target is not buildable only because
of that clause, and the command fails (`rp_fail1`). -/
theorem rp_only_odd :
    firstEx rpW1 (rpW1.rules 2) = some 1 ∧ scriptAt rpW1 1 = rpGood ∧ existsF rpW1 5 = true ∧
    failNowOf rpW1 rpGood = true := by decide +kernel

/-- The script must exit 0: before the second repair the target is not buildable only because of that clause, and
the command fails (`rp_fail2`). -/
theorem rp_only_exit : firstEx rpW2 (rpW2.rules 2) = some 1 ∧ scriptAt rpW2 1 = rpBad := by decide +kernel

end RedoModel.Deps.Rich
