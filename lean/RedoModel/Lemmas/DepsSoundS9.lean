import RedoModel.Lemmas.DepsSoundS8
/-! The invariant does not look at `row`, `nextRow`, `trace`: worlds equal up to those (`WEqv`). -/
namespace RedoModel.Deps.S

structure WEqv (w w' : World) : Prop where
  fs : w'.fs = w.fs
  deps : w'.deps = w.deps
  rules : w'.rules = w.rules
  progs : w'.progs = w.progs
  clock : w'.clock = w.clock
  rc : w'.runCounter = w.runCounter
  gen : ∀ x, (w'.recs x).isGenerated = (w.recs x).isGenerated
  ovr : ∀ x, (w'.recs x).isOverride = (w.recs x).isOverride
  checked : ∀ x, (w'.recs x).checked = (w.recs x).checked
  changed : ∀ x, (w'.recs x).changed = (w.recs x).changed
  failed : ∀ x, (w'.recs x).failed = (w.recs x).failed
  stamp : ∀ x, (w'.recs x).stamp = (w.recs x).stamp
  csum : ∀ x, (w'.recs x).csum = (w.recs x).csum

theorem WEqv.refl (w : World) : WEqv w w :=
  ⟨rfl, rfl, rfl, rfl, rfl, rfl, fun _ => rfl, fun _ => rfl, fun _ => rfl, fun _ => rfl, fun _ => rfl, fun _ => rfl, fun _ => rfl⟩

theorem WEqv.symm {w w'} (h : WEqv w w') : WEqv w' w :=
  ⟨h.fs.symm, h.deps.symm, h.rules.symm, h.progs.symm, h.clock.symm, h.rc.symm, fun x => (h.gen x).symm, fun x => (h.ovr x).symm,
   fun x => (h.checked x).symm, fun x => (h.changed x).symm, fun x => (h.failed x).symm, fun x => (h.stamp x).symm,
   fun x => (h.csum x).symm⟩

theorem WEqv.trans {a b c} (h1 : WEqv a b) (h2 : WEqv b c) : WEqv a c :=
  ⟨h2.fs.trans h1.fs, h2.deps.trans h1.deps, h2.rules.trans h1.rules, h2.progs.trans h1.progs, h2.clock.trans h1.clock,
   h2.rc.trans h1.rc, fun x => (h2.gen x).trans (h1.gen x), fun x => (h2.ovr x).trans (h1.ovr x),
   fun x => (h2.checked x).trans (h1.checked x), fun x => (h2.changed x).trans (h1.changed x),
   fun x => (h2.failed x).trans (h1.failed x), fun x => (h2.stamp x).trans (h1.stamp x),
   fun x => (h2.csum x).trans (h1.csum x)⟩

theorem WEqv.readStamp {w w'} (h : WEqv w w') (f) : readStamp w' f = readStamp w f := readStamp_congr (congrFun h.fs f)
theorem WEqv.existsF {w w'} (h : WEqv w w') (f) : existsF w' f = existsF w f := existsF_congr (congrFun h.fs f)
theorem WEqv.contentOf {w w'} (h : WEqv w w') (f) : contentOf w' f = contentOf w f := contentOf_congr (congrFun h.fs f)
theorem WEqv.scriptAt {w w'} (h : WEqv w w') (f) : scriptAt w' f = scriptAt w f := scriptAt_congr (congrFun h.fs f) h.progs
theorem WEqv.firstEx {w w'} (h : WEqv w w') (cs) : firstEx w' cs = firstEx w cs := firstEx_congr cs (fun c _ => congrFun h.fs c)

theorem WEqv.recCur {w w'} (h : WEqv w w') (f) : RecCur w' f ↔ RecCur w f := by
  unfold RecCur; rw [h.failed, h.changed, h.stamp, h.readStamp]
theorem WEqv.detectS {w w'} (h : WEqv w w') (M f) : DetectS w' M f ↔ DetectS w M f := by
  unfold DetectS FailedAbsent; rw [h.changed, h.stamp, h.readStamp, h.failed, h.gen]
theorem WEqv.verR {w w'} (h : WEqv w w') (R f) : VerR w' R f ↔ VerR w R f := by
  unfold VerR; rw [h.failed, h.changed, h.checked]
theorem WEqv.good {w w'} (h : WEqv w w') (R f) : Good w' R f ↔ Good w R f := by
  unfold Good; rw [h.verR, h.recCur, h.gen]
theorem WEqv.mof {w w'} (h : WEqv w w') (f) : Mof (w'.recs f) = Mof (w.recs f) := by
  unfold Mof; rw [h.changed, h.checked]
theorem WEqv.hasRow {w w'} (h : WEqv w w') (t s m) : HasRow w' t s m ↔ HasRow w t s m := by
  unfold HasRow; rw [h.deps]

theorem WEqv.upToDate {w w'} (h : WEqv w w') {f} (hu : UpToDateD w f) : UpToDateD w' f := by
  induction hu with
  | source hs => exact UpToDateD.source (fun c hc => by rw [h.existsF]; exact hs c (by rw [← h.rules]; exact hc))
  | user hg hex => exact UpToDateD.user (by rw [h.gen]; exact hg) (by rw [h.existsF]; exact hex)
  | @target t dof hfe _ hc ih =>
    refine UpToDateD.target (dof := dof) (by rw [h.rules, h.firstEx]; exact hfe) (by rw [h.scriptAt]; exact ih) ?_
    rw [h.scriptAt, h.contentOf, hc]
    unfold outOf
    have : (Deps.scriptAt w dof).reads.map (Deps.contentOf w') = (Deps.scriptAt w dof).reads.map (Deps.contentOf w) :=
      List.map_congr_left (fun d _ => h.contentOf d)
    rw [this]

theorem WEqv.recTruth {w w'} (h : WEqv w w') {t} (ht : RecTruth w t) : RecTruth w' t := by
  obtain ⟨pre, dof, post, sc, hr, hpre, hdof, hreads, hexit, hsc, cs, hcont, hlen, hz⟩ := ht
  refine ⟨pre, dof, post, sc, by rw [h.rules]; exact hr, fun c hc => (h.hasRow _ _ _).2 (hpre c hc),
    (h.hasRow _ _ _).2 hdof, fun d hd => (h.hasRow _ _ _).2 (hreads d hd), hexit, ?_, cs, ?_, hlen, ?_⟩
  · rw [h.existsF, h.scriptAt, h.mof, h.detectS]; exact hsc
  · rw [h.contentOf]; exact hcont
  · intro p hp
    rw [h.contentOf, h.mof, h.detectS, h.csum]
    unfold DetectL; rw [h.changed]
    exact hz p hp

theorem WEqv.base {rank R w w'} (h : WEqv w w') (hb : Base rank R X w) : Base rank R X w' := by
  have hfs := h.fs
  refine ⟨by rw [h.rules]; exact hb.rulesOk, ?_, by rw [h.progs]; exact hb.plainProgs, ?_, ?_, ?_, ?_, ?_, ?_, ?_, ?_, ?_, ?_,
    ?_, ?_, ?_, ?_, ?_, ?_, ?_, ?_, ?_, ?_, ?_⟩
  · refine ⟨by rw [h.rules]; exact hb.ranked.1, ?_⟩
    rw [h.rules, h.fs, h.progs]; exact hb.ranked.2
  · intro f; rw [h.changed]; exact hb.chLe f
  · intro f; rw [h.checked]; exact hb.ckLe f
  · intro f; rw [h.csum, h.fs]; exact hb.csumFile f
  · intro f; rw [h.csum, h.failed, h.stamp]; exact hb.csumEx f
  · intro f; rw [h.rules, h.csum]; exact hb.srcNoCsum f
  · intro f; rw [h.csum, h.changed]; exact hb.csumCh f
  · intro f; rw [h.ovr]; exact hb.noOvr f
  · intro f; rw [h.rules, h.gen]; exact hb.srcNotGen f
  · rw [h.fs]; exact hb.fs0
  · rw [h.failed, h.stamp, h.checked]; exact hb.rec0
  · rw [h.deps]; exact hb.rowsLt
  · rw [h.deps, h.rules]; exact hb.cPlain
  · intro f; rw [h.stamp, h.changed]; exact hb.stampCh f
  · intro f; rw [h.failed, h.gen, h.stamp]; exact hb.staticEx f
  · intro f; rw [h.gen, h.stamp, h.fs]; exact hb.genMs f
  · rw [h.fs, h.clock]; exact hb.fsB
  · intro f; rw [h.stamp, h.fs, h.clock]; exact hb.stB f
  · intro f; rw [h.checked, h.failed]; exact hb.ckFail f
  · intro f; rw [h.changed, h.failed]; exact hb.markFail f
  · intro f; rw [h.failed]; exact hb.flLe f
  · intro t hx hrc hg
    exact h.recTruth (hb.recA t (hx.imp id (h.verR R t).1) ((h.recCur t).1 hrc) (by rw [← h.gen]; exact hg))

theorem WEqv.inv {rank R w w'} (h : WEqv w w') (hi : Inv rank R X w) : Inv rank R X w' := by
  refine ⟨h.base hi.base, hi.Rpos, ?_⟩
  intro f hv
  obtain ⟨h1, h2, h3⟩ := hi.ver f ((h.verR R f).1 hv)
  refine ⟨(h.recCur f).2 h1, h.upToDate h2, ?_⟩
  rw [h.gen, h.deps]
  intro hg d hd hdt
  exact ⟨fun hm => (h.good R _).2 ((h3 hg d hd hdt).1 hm), fun hm => by rw [h.existsF]; exact (h3 hg d hd hdt).2 hm⟩

theorem Base.weaken {rank R w} {X X' : Nat → Prop} (hb : Base rank R X w) (h : ∀ x, X x → X' x) : Base rank R X' w :=
  { hb with recA := fun t hx => hb.recA t (hx.imp (fun hn hxt => hn (h t hxt)) id) }

theorem Inv.weaken {rank R w} {X X' : Nat → Prop} (hi : Inv rank R X w) (h : ∀ x, X x → X' x) : Inv rank R X' w :=
  ⟨hi.base.weaken h, hi.Rpos, hi.ver⟩

theorem WEqv.addKnown (w : World) (f : Nat) : WEqv w (addKnown w f) := by
  unfold Deps.addKnown
  split
  · exact WEqv.refl w
  · refine ⟨rfl, rfl, rfl, rfl, rfl, rfl, ?_, ?_, ?_, ?_, ?_, ?_, ?_⟩ <;> intro x <;> by_cases e : x = f <;> simp [setRec, e]

theorem WEqv.ev (w : World) (e : Ev) : WEqv w (ev w e) :=
  ⟨rfl, rfl, rfl, rfl, rfl, rfl, fun _ => rfl, fun _ => rfl, fun _ => rfl, fun _ => rfl, fun _ => rfl, fun _ => rfl, fun _ => rfl⟩

end RedoModel.Deps.S
