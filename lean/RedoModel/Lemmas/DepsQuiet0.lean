import RedoModel.Lemmas.DepsSoundR42
/-!
C02, the converse direction ("nothing runs without a reason"): definitions.

* `RecReach w ts` : the recorded dependency closure of `ts` (all rows of `w.deps`, whatever their mode or owner).
* `QAt R S w f` / `QSet rank R S w` : every member of the set `S` has a *settled* record: not failed, changed in a
  run `≤ R`, recorded stamp = stamp of the file, and — if the file is redo's — it was built or verified in a run
  `≥ R` (`Mof`), its `m` rows lead into `S` again and the objects of its `c` rows do not exist.
* `QExt R' w w'` : `w'` differs from `w` by `checked := R'` marks (and `warnOverride` events) only.
-/
namespace RedoModel.Deps.Rich

/-- The recorded dependency closure of `ts`: reflexive-transitive closure along ALL rows of `w.deps`. -/
inductive RecReach (w : World) (ts : List Nat) : Nat → Prop
  | base {t} : t ∈ ts → RecReach w ts t
  | step {t} {d : Dep} : RecReach w ts t → d ∈ w.deps → d.target = t → RecReach w ts d.source

/-- The record of `f` is settled with respect to the runs up to `R`. -/
structure QAt (R : Nat) (S : Nat → Prop) (w : World) (f : Nat) : Prop where
  ne0 : f ≠ alwaysId
  failed : (w.recs f).failed = none
  ch : ∃ ch, (w.recs f).changed = some ch ∧ ch ≤ R
  stamp : (w.recs f).stamp = some (readStamp w f)
  mof : genT (w.recs f) = true → R ≤ Mof (w.recs f)
  rowsM : genT (w.recs f) = true → ∀ d ∈ w.deps, d.target = f → d.modeM = true → S d.source
  rowsC : genT (w.recs f) = true → ∀ d ∈ w.deps, d.target = f → d.modeM = false → existsF w d.source = false

structure QSet (rank : Nat → Nat) (R : Nat) (S : Nat → Prop) (w : World) : Prop where
  mem : ∀ f, S f → QAt R S w f
  rowsLt : ∀ d ∈ w.deps, rank d.source < rank d.target

/-- Only `checked := R'` marks (and events other than `ran`) were added. -/
structure QExt (R' : Nat) (w w' : World) : Prop where
  same : SameButRecs w w'
  recs : ∀ x, w'.recs x = w.recs x ∨ w'.recs x = { w.recs x with checked := some R' }
  ran : ∀ t, Ev.ran t ∈ w'.trace → Ev.ran t ∈ w.trace

theorem QExt.refl (R' : Nat) (w : World) : QExt R' w w := ⟨SameButRecs.refl w, fun _ => Or.inl rfl, fun _ h => h⟩

theorem QExt.trans {R' a b c} (h1 : QExt R' a b) (h2 : QExt R' b c) : QExt R' a c := by
  refine ⟨h1.same.trans h2.same, fun x => ?_, fun t h => h1.ran t (h2.ran t h)⟩
  rcases h1.recs x with e1 | e1 <;> rcases h2.recs x with e2 | e2
  · exact Or.inl (e2.trans e1)
  · exact Or.inr (by rw [e2, e1])
  · exact Or.inr (by rw [e2, e1])
  · exact Or.inr (by rw [e2, e1])

theorem QExt.fs {R' w w'} (h : QExt R' w w') : w'.fs = w.fs := h.same.1
theorem QExt.deps {R' w w'} (h : QExt R' w w') : w'.deps = w.deps := h.same.2.1
theorem QExt.readStamp {R' w w'} (h : QExt R' w w') (f) : readStamp w' f = readStamp w f :=
  readStamp_congr (congrFun h.fs f)
theorem QExt.existsF {R' w w'} (h : QExt R' w w') (f) : existsF w' f = existsF w f :=
  existsF_congr (congrFun h.fs f)

theorem QExt.fields {R' w w'} (h : QExt R' w w') (x) :
    (w'.recs x).failed = (w.recs x).failed ∧ (w'.recs x).changed = (w.recs x).changed ∧
    (w'.recs x).stamp = (w.recs x).stamp ∧ (w'.recs x).isGenerated = (w.recs x).isGenerated ∧
    (w'.recs x).isOverride = (w.recs x).isOverride ∧
    ((w'.recs x).checked = (w.recs x).checked ∨ (w'.recs x).checked = some R') := by
  rcases h.recs x with e | e <;> rw [e] <;> simp

theorem QExt.genT {R' w w'} (h : QExt R' w w') (x) : genT (w'.recs x) = genT (w.recs x) :=
  genT_congr (h.fields x).2.2.2.1 (h.fields x).2.2.2.2.1

theorem QExt.mof {R R' w w'} (h : QExt R' w w') (hR : R ≤ R') (x) (hm : R ≤ Mof (w.recs x)) :
    R ≤ Mof (w'.recs x) := by
  obtain ⟨_, f2, _, _, _, f6⟩ := h.fields x
  unfold Mof at *
  rw [f2]
  rcases f6 with e | e
  · rw [e]; exact hm
  · rw [e]; simp only [Option.getD_some]; omega

theorem QAt.ext {R R' S w w' f} (hq : QAt R S w f) (h : QExt R' w w') (hR : R ≤ R') : QAt R S w' f := by
  obtain ⟨f1, f2, f3, _, _, _⟩ := h.fields f
  refine ⟨hq.ne0, by rw [f1]; exact hq.failed, by rw [f2]; exact hq.ch, by rw [f3, h.readStamp]; exact hq.stamp,
    fun hg => h.mof hR f (hq.mof (by rw [← h.genT]; exact hg)), fun hg d hd => ?_, fun hg d hd => ?_⟩
  · rw [h.deps] at hd; exact hq.rowsM (by rw [← h.genT]; exact hg) d hd
  · rw [h.deps] at hd; rw [h.existsF]; exact hq.rowsC (by rw [← h.genT]; exact hg) d hd

theorem QSet.ext {rank R R' S w w'} (hq : QSet rank R S w) (h : QExt R' w w') (hR : R ≤ R') : QSet rank R S w' :=
  ⟨fun f hf => (hq.mem f hf).ext h hR, by rw [h.deps]; exact hq.rowsLt⟩

/-- The working copy `r` of the record of `f`: the record but for an older `checked`; a copy of a record of redo's
own file still shows a build or check in a run `≥ R`. -/
structure QSnap (R : Nat) (w : World) (f : Nat) (r : Rec) : Prop where
  eq : ∃ c, r = { w.recs f with checked := c }
  mof : genT r = true → R ≤ Mof r

theorem QSnap.self {R S w f} (hq : QAt R S w f) : QSnap R w f (w.recs f) := ⟨⟨_, rfl⟩, hq.mof⟩

theorem QSnap.ext {R R' w w' f r} (hs : QSnap R w f r) (h : QExt R' w w') : QSnap R w' f r := by
  obtain ⟨c, e⟩ := hs.eq
  refine ⟨⟨c, ?_⟩, hs.mof⟩
  rcases h.recs f with e1 | e1 <;> rw [e1, e]

end RedoModel.Deps.Rich
