import RedoModel.Lemmas.DepsSoundR23
/-! `shouldBuild` / `buildJob` for `redo-ifchange` (not forced). -/
namespace RedoModel.Deps.Rich
open RedoModel.Generated

def jrStatus : JobResult → Status
  | .abort c => c
  | .done rv => rv

theorem DExt.noFail {rank R b w w'} (h : DExt rank R b w w') (hR : 0 < R) (hn : NoFail R w) : NoFail R w' := by
  intro f
  rcases h.fail f with e | e
  · rw [e]; exact hn f
  · rw [e]; intro h; cases h; omega

theorem isFailedR_false {r : Rec} {R : Nat} (hR : 0 < R) (h : isFailedR r R = false) : r.failed ≠ some R := by
  intro e
  unfold isFailedR at h
  rw [e] at h
  simp only [Bool.and_eq_false_iff, bne_eq_false_iff_eq, decide_eq_false_iff_not] at h
  omega

theorem getRec_failed (w : World) (R f : Nat) : (getRec w R f).failed = (w.recs f).failed := by
  unfold getRec; split <;> rfl

theorem exit_codes : EXIT_TARGET_FAILED ≠ 0 ∧ EXIT_TARGET_FAILED ≠ CRASHED ∧ EXIT_CYCLIC_DEPENDENCY ≠ 0 ∧
    EXIT_CYCLIC_DEPENDENCY ≠ CRASHED ∧ EXIT_FAILURE ≠ 0 ∧ EXIT_FAILURE ≠ CRASHED := by decide

theorem JobPost.nonzero {rank R X t b po w} (hi : Inv rank R X w) (rv : Status) (h0 : rv ≠ 0) (hc : rv ≠ CRASHED) :
    JobPost rank R X t b po w (rv, w) :=
  ⟨hi, BExt.refl _ _ _ _ _, fun h => absurd h h0, fun _ h => absurd h h0, hc⟩

theorem buildJob_spec {rank R E t w b fuel} {cx : Ctx} {X : Nat → Prop} (hE : ESpec rank R E) (d : Defects)
    (hcx : cx.runid = R) (hredo : cx.isRedo = false) (hcrash : cx.crash = none) (hi : Inv rank R X w)
    (h0 : t ≠ alwaysId)
    (hXa : ∀ x, X x → rank t < rank x) (hlt : rank t < b) (po : Option Nat) :
    JobPost rank R X t b po w (jrStatus (buildJob E d cx fuel t w).1, (buildJob E d cx fuel t w).2) := by
  obtain ⟨c1, c2, c3, c4, c5, c6⟩ := exit_codes
  unfold buildJob shouldBuild
  simp only [hredo, Bool.false_eq_true, if_false]
  cases hfr : isFailedR (getRec w cx.runid t) cx.runid with
  | true =>
    simp only [if_true]
    split <;> exact JobPost.nonzero hi _ c1 c2
  | false =>
    simp only [Bool.false_eq_true, if_false]
    have hsp := isDirty_spec (rank := rank) (R := R) (X := X) fuel t cx.runid [] w [] none (hcx ▸ hi)
      (fun s e => by cases e) hXa (fun e => absurd e h0)
    have hgc := fun hg => good_clean (rank := rank) (R := R) (X := X) fuel t [] w [] none (hcx ▸ hi) hg
      (fun s e => by cases e) hXa
    subst hcx
    generalize isDirty false cx.runid fuel w [] t cx.runid [] none = res at hsp hgc
    obtain ⟨dr, w1, c⟩ := res
    obtain ⟨hi1, hdx, hnn, hcl, hown⟩ := hsp
    dsimp only at hi1 hdx hnn hcl hown hgc ⊢
    have hnf0 : (w.recs t).failed ≠ some cx.runid := by
      rw [← getRec_failed w cx.runid t]; exact isFailedR_false hi.Rpos hfr
    cases dr with
    | need ts => exact absurd rfl (hnn ts)
    | cyclic => exact ⟨hi1, hdx.toBExt.mono (Nat.succ_le_of_lt hlt), fun h => absurd h c3, fun _ h => absurd h c3, c4⟩
    | clean =>
      obtain ⟨hck, hv, _⟩ := hcl rfl
      exact ⟨hi1, hdx.toBExt.mono (Nat.succ_le_of_lt hlt), fun _ => Or.inl hv,
        fun h _ => hdx.noFail hi.Rpos h, CRASHED_ne_zero⟩
    | dirty =>
      have ho := hown (by intro h; cases h)
      dsimp only
      have hown' : w1.recs t = w.recs t ∨ (w1.recs t = { w.recs t with isGenerated := false, isOverride := false, failed := some 0 } ∧
          w1.fs t = none ∧ (w.recs t).stamp ≠ some .missing) := by
        rcases ho with h | ⟨h, hf, hs⟩
        · exact Or.inl h
        · exact Or.inr ⟨h, by rw [congrFun hdx.same.1 t]; exact hf, hs⟩
      have hsf : w.recs t = w1.recs t ∨ (AgreeV (w.recs t) (w1.recs t) ∧ w1.fs t = none ∧ (w.recs t).stamp ≠ some .missing) := by
        rcases hown' with h | ⟨h, hf, hs⟩
        · exact Or.inl h.symm
        · exact Or.inr ⟨by rw [h]; exact ⟨rfl, rfl, rfl, rfl⟩, hf, hs⟩
      have hV : VerR w1 cx.runid t → genT (w1.recs t) = false := by
        intro hv
        rcases hown' with h | ⟨h, _⟩
        · exfalso
          have hv0 : VerR w cx.runid t := by unfold VerR at hv ⊢; rw [h] at hv; exact hv
          rcases hgc (Or.inl hv0) with h1 | ⟨h1, _⟩ <;> cases h1
        · rw [h]; rfl
      have hnf1 : (w1.recs t).failed ≠ some cx.runid := by
        rcases hown' with h | ⟨h, _⟩
        · rw [h]; exact hnf0
        · rw [h]; intro e; have e' := Option.some.inj e; have := hi.Rpos; omega
      obtain ⟨a1, a2, a3, a4, a5⟩ :=
        (startSelf_spec (b := b) (po := po) hE d rfl hcrash hi1 h0 hV hXa hlt (sf := w.recs t) hsf).strong hnf1
      exact ⟨a1, (hdx.toBExt.mono (Nat.succ_le_of_lt hlt)).trans a2, a3, fun h hz => a4 (hdx.noFail hi.Rpos h) hz, a5⟩

end RedoModel.Deps.Rich
