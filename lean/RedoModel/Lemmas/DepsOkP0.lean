import RedoModel.Lemmas.DepsOk7
import RedoModel.Lemmas.DepsSoundK8
/-!
# C10 — the success direction for plain histories WITH kills: port of `DepsOk3..5` to the plain development
(`DepsSound0..41`, namespace `RedoModel.Deps`), on which the kill development `DepsSoundK*` is built.
`Buildable`, `FrU`, `Tr` are those of `DepsOk0/3` (namespace `Rich`); the unconditional frames do not depend on the
invariant.
-/
namespace RedoModel.Deps
open RedoModel.Generated
open Rich (Buildable FrU Tr EngineFr)

theorem scriptAt_rich_eq (w : World) (dof : Nat) : Rich.scriptAt w dof = scriptAt w dof := rfl

theorem firstEx_rich_eq (w : World) : ∀ cs, Rich.firstEx w cs = firstEx w cs
  | [] => rfl
  | c :: cs => by simp only [Rich.firstEx, firstEx, firstEx_rich_eq w cs]

theorem buildable_trP {rank R} {X : Nat → Prop} {w w' : World} (hb : Base rank R X w) (h : Tr w w') {x : Nat}
    (hx : Buildable w x) : Buildable w' x :=
  hx.transport' hb.rulesOk (fun t dof _ d hd => by
    have hp := scriptAt_plain hb dof
    rw [scriptAt_rich_eq] at hd
    rcases hd with hd | hd
    · rw [hp.2.2.1] at hd; cases hd
    · rw [hp.2.1] at hd; cases hd) h.1 h.2

theorem trP_ofWEqv {w w' : World} (e : WEqv w w') : Tr w w' :=
  Rich.Tr.of_fields e.fs e.rules e.progs (fun f _ => ⟨e.gen f, e.ovr f, e.stamp f⟩)

theorem trP_ofRowOp {t : Nat} {w w' : World} (h : RowOp t w w') : Tr w w' :=
  Rich.Tr.of_fields h.eqv.fs h.eqv.rules h.eqv.progs (fun f _ => ⟨h.eqv.gen f, h.eqv.ovr f, h.eqv.stamp f⟩)

/-- `Rich.ESucc` over the plain invariant. -/
def ESuccP (rank : Nat → Nat) (R k : Nat) (E : Engine) : Prop :=
  ∀ (X : Nat → Prop) (cx : Ctx) (ts : List Nat) (w : World) (b : Nat),
    cx.runid = R → cx.isRedo = false → cx.unlocked = false → cx.crash = none →
    Inv rank R X w → (∀ t ∈ ts, rank t < b) → (∀ x, X x → b ≤ rank x) →
    (∀ p, cx.parent = some p → b ≤ rank p ∧ X p ∧ ¬ Good w R p) →
    (∀ c ∈ cx.cycles, b ≤ rank c) → b < k → NoFail R w → (∀ t ∈ ts, Buildable w t) →
    (E.ifchangeCmd cx ts w).1 = 0

structure EOkP (rank : Nat → Nat) (R k : Nat) (E : Engine) : Prop where
  spec : ESpec rank R E
  succ : ESuccP rank R k E
  keeps : EngineKeeps E
  fr : EngineFr E

theorem cmds_succP {rank R k E} (hE : EOkP rank R k E) {X : Nat → Prop} {t : Nat} {cx cx' : Ctx}
    (h1 : cx'.runid = R) (h2 : cx'.isRedo = false) (h3 : cx'.unlocked = false) (h4 : cx'.crash = none)
    (h5 : cx'.parent = some t) (hcrash : cx.crash = none) (hX : X t) (hXa : ∀ x, X x → rank t ≤ rank x)
    (hcyc : ∀ c ∈ cx'.cycles, rank t ≤ rank c) (hk : rank t < k) :
    ∀ (cs : List (List Nat)) (kk : Nat) (w : World), Inv rank R X w → ¬ Good w R t →
      (∀ c ∈ cs, ∀ d ∈ c, rank d < rank t) → NoFail R w →
      (∀ c ∈ cs, ∀ d ∈ c, Buildable w d) →
      (runScript.cmds E cx t cx' cs kk w).1 = 0
  | [], kk, w, _, _, _, _, _ => by
    simp only [runScript.cmds, hcrash, reduceCtorEq, if_false]
  | c :: cs, kk, w, hi, hng, hr, hnf, hB => by
    rw [runScript.cmds]
    simp only [hcrash, reduceCtorEq, if_false]
    have hpar : ∀ p, cx'.parent = some p → rank t ≤ rank p ∧ X p ∧ ¬ Good w R p :=
      fun p hp => by rw [h5] at hp; cases hp; exact ⟨Nat.le_refl _, hX, hng⟩
    have hs := hE.spec X cx' c w (rank t) h1 h2 h3 h4 hi (hr c (by simp)) hXa hpar
    have hz := hE.succ X cx' c w (rank t) h1 h2 h3 h4 hi (hr c (by simp)) hXa hpar hcyc hk hnf (hB c (by simp))
    have htr : Tr w (E.ifchangeCmd cx' c w).2 := ⟨hE.fr cx' c w, hE.keeps cx' c w⟩
    rw [h5] at hs
    generalize E.ifchangeCmd cx' c w = res at hs hz htr
    obtain ⟨rv, w1⟩ := res
    obtain ⟨hi1, hb1, _, _, hnf1, _⟩ := hs
    dsimp only at hi1 hb1 hnf1 hz htr
    split
    · rename_i w1' heq
      simp only [Prod.mk.injEq] at heq
      obtain ⟨_, rfl⟩ := heq
      have hng1 : ¬ Good w1 R t := fun h => hng ((hb1.good_above (Nat.le_refl _)).1 h)
      exact cmds_succP hE h1 h2 h3 h4 h5 hcrash hX hXa hcyc hk cs (kk + 1) w1 hi1 hng1
        (fun c' hc' => hr c' (List.mem_cons_of_mem _ hc')) (hnf1 hnf hz)
        (fun c' hc' d hd => buildable_trP hi.base htr (hB c' (List.mem_cons_of_mem _ hc') d hd))
    · rename_i rv' w1' hne heq
      simp only [Prod.mk.injEq] at heq
      obtain ⟨rfl, rfl⟩ := heq
      exact absurd hz (fun e => by first | exact hne e | exact hne e rfl | exact hne w1 e)

/-- The script chosen by `findDoFile` (world `w2`) exits 0 when its inputs are buildable and its `exit` is 0. -/
theorem ssb_script_succ {rank R k E t dof w2} {cx : Ctx} {X : Nat → Prop} (hE : EOkP rank R k E) (d : Defects)
    (hcx : cx.runid = R) (hcrash : cx.crash = none) (hi2 : Inv rank R (addX X t) w2) (hng2 : ¬ Good w2 R t)
    (hXa : ∀ x, X x → rank t < rank x) (hdm : dof ∈ w2.rules t) (hdex : existsF w2 dof = true)
    (hcyc : ∀ c ∈ cx.cycles, rank t < rank c) (hk : rank t < k) (hn2 : NoFail R w2)
    (hB1 : ∀ d ∈ (scriptAt w2 dof).ifchange.flatten, Buildable w2 d) (hex : (scriptAt w2 dof).exit = 0) :
    (runScript E d cx t (scriptAt (ev (setRec w2 dof (setStatic w2 dof (w2.recs dof) R)) (.ran t)) dof)
      (ev (setRec w2 dof (setStatic w2 dof (w2.recs dof) R)) (.ran t))).1 = 0 := by
  have hdP : w2.rules dof = [] := (hi2.base.rulesOk.2 t dof hdm).1
  have hdlt : rank dof < rank t := hi2.base.ranked.1 t dof hdm
  obtain ⟨hi3, _, hb3, hn3⟩ := setStatic_spec (b := rank t) (po := some t) hi2 hdex
    (fun _ => hi2.base.srcNotGen dof hdP) hdlt
  have htr : Tr w2 (ev (setRec w2 dof (setStatic w2 dof (w2.recs dof) R)) (.ran t)) := by
    refine ⟨FrU.of_fs rfl rfl rfl, (KeepsUser.setRec w2 dof _ (fun ho => ?_)).trans (SameOwn.ev _ _).keeps⟩
    exact ⟨ho.1, Or.inl (by simp [setRec, setStatic])⟩
  have hsc : scriptAt (ev (setRec w2 dof (setStatic w2 dof (w2.recs dof) R)) (.ran t)) dof = scriptAt w2 dof :=
    scriptAt_congr (w := w2) rfl rfl
  generalize setRec w2 dof (setStatic w2 dof (w2.recs dof) R) = w3 at hi3 hb3 hn3 htr hsc ⊢
  have e4 := WEqv.ev w3 (.ran t)
  have hi4 := e4.inv hi3
  have hb4 : BExt rank R (rank t) (some t) w2 (ev w3 (.ran t)) := hb3.trans e4.toBExt
  have hng4 : ¬ Good (ev w3 (.ran t)) R t := fun h => hng2 (((hb4.sameT (Nat.le_refl _)).good R).1 h)
  have hdm4 : dof ∈ (ev w3 (.ran t)).rules t := by rw [hb4.rules]; exact hdm
  have hz := cmds_succP (cx := cx) (cx' := childCx cx t) hE hcx rfl rfl hcrash rfl hcrash
    (X := addX X t) (Or.inr rfl) (fun x hx => hx.elim (fun h => Nat.le_of_lt (hXa x h)) (fun h => by rw [h]; exact Nat.le_refl _))
    (fun c hc => by
      rcases List.mem_cons.1 hc with rfl | hc
      · exact Nat.le_refl _
      · exact Nat.le_of_lt (hcyc c hc)) hk
    (scriptAt (ev w3 (.ran t)) dof).ifchange 0 (ev w3 (.ran t)) hi4 hng4 (scriptAt_ranked hi4.base hdm4)
    ((hn3 hn2).eqv e4)
    (fun c hc x hx => by
      rw [hsc] at hc
      exact buildable_trP hi2.base htr (hB1 x (List.mem_flatten.2 ⟨c, hc, hx⟩)))
  rw [runScript_plain _ _ _ _ _ _ (scriptAt_plain hi4.base dof)]
  rw [hsc] at hz ⊢
  simp only [hz, ne_eq, not_true_eq_false, if_false, hex]
  rfl

theorem recordNewState_zeroP (cx : Ctx) (t : Nat) (sf : Rec) (out : Option Content) (w : World) :
    (recordNewState cx t sf 0 out w).1 = 0 := by
  unfold recordNewState; simp

end RedoModel.Deps
