import RedoModel.Lemmas.DepsSoundS34
/-! Every top-level command keeps `Btw`; `redo` / `redo-ifchange` with status 0 leave their targets up to date. -/
namespace RedoModel.Deps.S
open RedoModel.Generated

theorem oodGo_frame (R fuel : Nat) : ∀ (fs : List Nat) (w : World) (cache acc : List Nat),
    SameButRecs w (runCmd.go R fuel fs w cache acc).2
  | [], w, cache, acc => by rw [runCmd.go]; exact SameButRecs.refl w
  | f :: fs, w, cache, acc => by
    rw [runCmd.go]
    have h := isDirty_frame true R fuel w cache f R [] none
    generalize isDirty true R fuel w cache f R [] none = r at h
    obtain ⟨dr, w1, c1⟩ := r
    dsimp only at h ⊢
    exact h.trans (oodGo_frame R fuel fs w1 c1 _)

theorem Btw_alloc {rank w} (h : Btw rank w) : Btw rank (allocRun w).2 := (Inv_alloc h).1.base

/-- A `redo -k` command (keep going after a failure, every target forced) is required to exit 0
(see `noStaleStamp_partial`). -/
def CmdOk (d : Defects) (N : Nat) (w : World) : Cmd → Prop
  | .redo ts true => (runCmd d N (.redo ts true) w).1.status = 0
  | _ => True

theorem runCmd_btw {rank N w} (d : Defects)
    (hd1 : d.oobRecordsDepsOnCaller = false) (hd2 : d.oobRebuildsDepsNotTarget = false)
    (hN : ∀ f, rank f < N) (h : Btw rank w) (c : Cmd) (hc : CmdOk d N w c) :
    Btw rank (runCmd d N c w).2 ∧ (runCmd d N c w).2.rules = w.rules := by
  cases c with
  | redo ts kg =>
    cases kg with
    | false =>
      exact (top_run (cx := { runid := w.runCounter + 1, keepGoing := false, isRedo := true }) d hd1 hd2 (fun _ => rfl) hN h
        rfl rfl rfl ts).1
    | true =>
      exact (top_sound (cx := { runid := w.runCounter + 1, keepGoing := true, isRedo := true }) d hd1 hd2 hN h
        rfl rfl rfl ts hc).1
  | ifchange ts kg =>
    exact (top_run (cx := { runid := w.runCounter + 1, keepGoing := kg }) d hd1 hd2 (fun h => by cases h) hN h
      rfl rfl rfl ts).1
  | targets => exact ⟨Btw_alloc h, rfl⟩
  | sources => exact ⟨Btw_alloc h, rfl⟩
  | ood =>
    have h1 := Btw_alloc h
    unfold runCmd
    simp only
    have hfr := oodGo_frame (allocRun w).1 (2 * N + 4)
      ((knownFiles (allocRun w).2 N).filter (isTarget (allocRun w).2 (allocRun w).1)) (allocRun w).2 [] []
    generalize runCmd.go (allocRun w).1 (2 * N + 4) _ (allocRun w).2 [] [] = r at hfr ⊢
    obtain ⟨hfs, _, hrc, hclock, _, hprogs, hrules⟩ := hfr
    have e : WEqv (allocRun w).2 { r.2 with recs := (allocRun w).2.recs, deps := (allocRun w).2.deps, trace := r.2.trace } :=
      ⟨hfs, rfl, hrules, hprogs, hclock, hrc, fun _ => rfl, fun _ => rfl, fun _ => rfl, fun _ => rfl, fun _ => rfl,
        fun _ => rfl, fun _ => rfl⟩
    refine ⟨?_, hrules⟩
    show Base rank _ NoX _
    have := e.base h1
    rw [← hrc] at this
    exact this

theorem runCmd_sound {rank N w} (d : Defects)
    (hd1 : d.oobRecordsDepsOnCaller = false) (hd2 : d.oobRebuildsDepsNotTarget = false)
    (hN : ∀ f, rank f < N) (h : Btw rank w) (ts : List Nat) (kg forced : Bool) :
    (runCmd d N (if forced then .redo ts kg else .ifchange ts kg) w).1.status = 0 →
    ∀ t ∈ ts, UpToDateD (runCmd d N (if forced then .redo ts kg else .ifchange ts kg) w).2 t := by
  cases forced with
  | true =>
    exact fun h0 => (top_sound (cx := { runid := w.runCounter + 1, keepGoing := kg, isRedo := true }) d hd1 hd2 hN h rfl rfl rfl ts h0).2
  | false =>
    exact fun h0 => (top_sound (cx := { runid := w.runCounter + 1, keepGoing := kg }) d hd1 hd2 hN h rfl rfl rfl ts h0).2

end RedoModel.Deps.S
