import RedoModel.Paths

/-! Helper lemmas about the lexical path model (used by `Props/C15.lean`, `Props/C13.lean`). -/
namespace RedoModel.Paths

/-- A component as produced by `comps`: non-empty and free of `/`. -/
def GoodComp (c : List Char) : Prop := c ≠ [] ∧ '/' ∉ c

theorem splitSlash_ne_nil (p : List Char) : splitSlash p ≠ [] := by
  induction p with
  | nil => simp [splitSlash]
  | cons c cs ih =>
    unfold splitSlash
    split
    · simp
    · split <;> simp

theorem splitSlash_noslash (p : List Char) : ∀ c ∈ splitSlash p, '/' ∉ c := by
  induction p with
  | nil => simp [splitSlash]
  | cons a cs ih =>
    intro c hc
    unfold splitSlash at hc
    split at hc
    · rcases List.mem_cons.1 hc with h | h
      · simp [h]
      · exact ih c h
    · rename_i hne
      split at hc
      · simp at hc; subst hc; simp; exact fun h => hne h.symm
      · rename_i h t heq
        rw [heq] at ih
        rcases List.mem_cons.1 hc with h' | h'
        · subst h'
          have := ih h (by simp)
          simp only [List.mem_cons, not_or]
          exact ⟨fun e => hne e.symm, this⟩
        · exact ih c (by simp [h'])

theorem comps_good (p : List Char) : ∀ c ∈ comps p, GoodComp c := by
  intro c hc
  unfold comps at hc
  rw [List.mem_filter] at hc
  refine ⟨?_, splitSlash_noslash p c hc.1⟩
  intro h; subst h; simp at hc

theorem splitSlash_single (c : List Char) (h : '/' ∉ c) : splitSlash c = [c] := by
  induction c with
  | nil => rfl
  | cons a cs ih =>
    simp only [List.mem_cons, not_or] at h
    unfold splitSlash
    rw [if_neg (fun e => h.1 e.symm), ih h.2]

theorem splitSlash_append (c r : List Char) (h : '/' ∉ c) :
    splitSlash (c ++ '/' :: r) = c :: splitSlash r := by
  induction c with
  | nil => simp [splitSlash]
  | cons a cs ih =>
    simp only [List.mem_cons, not_or] at h
    simp only [List.cons_append]
    rw [splitSlash, if_neg (fun e => h.1 e.symm), ih h.2]

theorem splitSlash_joinSlash (cs : List (List Char)) (hne : cs ≠ [])
    (h : ∀ c ∈ cs, '/' ∉ c) : splitSlash (joinSlash cs) = cs := by
  induction cs with
  | nil => exact absurd rfl hne
  | cons c cs ih =>
    cases cs with
    | nil => simpa [joinSlash] using splitSlash_single c (h c (by simp))
    | cons d ds =>
      simp only [joinSlash]
      rw [splitSlash_append c _ (h c (by simp))]
      rw [ih (by simp) (fun x hx => h x (by simp [hx]))]

theorem filter_good (cs : List (List Char)) (h : ∀ c ∈ cs, GoodComp c) :
    cs.filter (fun c => !c.isEmpty) = cs := by
  rw [List.filter_eq_self]
  intro c hc
  have := (h c hc).1
  cases c <;> simp_all

theorem comps_joinSlash (cs : List (List Char)) (hne : cs ≠ [])
    (h : ∀ c ∈ cs, GoodComp c) : comps (joinSlash cs) = cs := by
  unfold comps
  rw [splitSlash_joinSlash cs hne (fun c hc => (h c hc).2), filter_good cs h]

theorem comps_slash_joinSlash (cs : List (List Char))
    (h : ∀ c ∈ cs, GoodComp c) : comps ('/' :: joinSlash cs) = cs := by
  cases cs with
  | nil => simp [comps, joinSlash, splitSlash]
  | cons c cs =>
    unfold comps
    unfold splitSlash
    simp only [if_true]
    rw [splitSlash_joinSlash _ (by simp) (fun c hc => (h c hc).2)]
    rw [List.filter_cons]
    simp only [List.isEmpty_nil, Bool.not_true]
    exact filter_good _ h

theorem rooted_joinSlash (cs : List (List Char)) (hne : cs ≠ [])
    (h : ∀ c ∈ cs, GoodComp c) : rooted (joinSlash cs) = false := by
  cases cs with
  | nil => exact absurd rfl hne
  | cons c cs =>
    have hc := h c (by simp)
    cases c with
    | nil => exact absurd rfl hc.1
    | cons a as =>
      have : a ≠ '/' := fun e => hc.2 (by simp [e])
      cases cs <;> simp [joinSlash, rooted, this]

theorem normpath_def (q : List Char) :
    normpath q = render (rooted q) (cleanComps (rooted q) (comps q)) := rfl

theorem joinSlash_ne_nil (cs : List (List Char)) (hne : cs ≠ [])
    (h : ∀ c ∈ cs, GoodComp c) : joinSlash cs ≠ [] := by
  cases cs with
  | nil => exact absurd rfl hne
  | cons c cs =>
    have hc := (h c (by simp)).1
    cases cs with
    | nil => simpa [joinSlash] using hc
    | cons d ds => simp [joinSlash, hc]

/-! ### The output stack of the clean-up loop -/

def AllDD (st : List (List Char)) : Prop := ∀ c ∈ st, c = dotdot

/-- Shape of the reversed output stack: a (possibly empty, and empty when rooted)
bottom block of `..`, then real components. -/
inductive NStack (root : Bool) : List (List Char) → Prop
  | dds {st} : AllDD st → (root = true → st = []) → NStack root st
  | real {c st} : c ≠ dot → c ≠ dotdot → NStack root st → NStack root (c :: st)

theorem NStack.tail {root c st} (h : NStack root (c :: st)) : NStack root st := by
  cases h with
  | dds ha hr =>
    refine .dds (fun x hx => ha x (by simp [hx])) ?_
    intro r; have := hr r; simp at this
  | real _ _ h => exact h

theorem NStack.suffix {root} (xs ys : List (List Char)) (h : NStack root (xs ++ ys)) :
    NStack root ys := by
  induction xs with
  | nil => simpa using h
  | cons x xs ih => exact ih (NStack.tail (by simpa using h))

theorem push_NStack {root st} (c : List Char) (h : NStack root st) : NStack root (push root st c) := by
  unfold push
  split
  · exact h
  · split
    · rename_i hdd
      cases st with
      | nil =>
        cases root
        · exact .dds (by intro x hx; simp at hx; exact hx) (by simp)
        · exact .dds (by intro x hx; simp at hx) (by simp)
      | cons top rest =>
        simp only
        split
        · rename_i htop
          cases h with
          | dds ha hr =>
            refine .dds ?_ ?_
            · intro x hx
              rcases List.mem_cons.1 hx with e | e
              · exact e
              · exact ha x e
            · intro r; have := hr r; simp at this
          | real _ hndd _ => exact absurd htop hndd
        · exact h.tail
    · rename_i h1 h2
      exact .real h1 h2 h

theorem foldl_push_NStack {root} (cs st : List (List Char)) (h : NStack root st) :
    NStack root (cs.foldl (push root) st) := by
  induction cs generalizing st with
  | nil => simpa
  | cons c cs ih => exact ih _ (push_NStack c h)

/-- Pushing a component that already sits on a well-shaped stack is a plain `cons`. -/
theorem push_of_NStack {root c st} (h : NStack root (c :: st)) : push root st c = c :: st := by
  cases h with
  | dds ha hr =>
    have hc : c = dotdot := ha c (by simp)
    have hroot : root = false := by
      cases root
      · rfl
      · have := hr rfl; simp at this
    subst hc hroot
    unfold push
    rw [if_neg (by decide), if_pos rfl]
    cases st with
    | nil => rfl
    | cons top rest =>
      have : top = dotdot := ha top (by simp)
      simp [this]
  | real h1 h2 _ =>
    unfold push
    rw [if_neg h1, if_neg h2]

theorem foldl_push_id {root} (cs st : List (List Char)) (h : NStack root (cs.reverse ++ st)) :
    cs.foldl (push root) st = cs.reverse ++ st := by
  induction cs generalizing st with
  | nil => simp
  | cons c cs ih =>
    simp only [List.reverse_cons, List.append_assoc, List.singleton_append] at h
    simp only [List.foldl_cons]
    rw [push_of_NStack (NStack.suffix _ _ h)]
    rw [ih _ h]
    simp

/-- Forward view: `cs` is in normal form for `root`. -/
def NormalComps (root : Bool) (cs : List (List Char)) : Prop := NStack root cs.reverse

theorem cleanComps_normal (root : Bool) (cs : List (List Char)) :
    NormalComps root (cleanComps root cs) := by
  unfold NormalComps cleanComps
  rw [List.reverse_reverse]
  exact foldl_push_NStack cs [] (.dds (by intro x hx; simp at hx) (by simp))

theorem cleanComps_id {root cs} (h : NormalComps root cs) : cleanComps root cs = cs := by
  unfold cleanComps
  rw [foldl_push_id cs [] (by simpa [NormalComps] using h)]
  simp

theorem mem_push {root st c x} (h : x ∈ push root st c) : x ∈ st ∨ x = c ∨ x = dotdot := by
  unfold push at h
  split at h
  · exact .inl h
  · split at h
    · cases st with
      | nil =>
        cases root <;> simp at h
        exact .inr (.inr h)
      | cons top rest =>
        simp only at h
        split at h
        · rcases List.mem_cons.1 h with e | e
          · exact .inr (.inr e)
          · exact .inl e
        · exact .inl (by simp [h])
    · rcases List.mem_cons.1 h with e | e
      · exact .inr (.inl e)
      · exact .inl e

theorem mem_foldl_push {root} (cs st : List (List Char)) {x} (h : x ∈ cs.foldl (push root) st) :
    x ∈ st ∨ x ∈ cs ∨ x = dotdot := by
  induction cs generalizing st with
  | nil => exact .inl (by simpa using h)
  | cons c cs ih =>
    rcases ih _ h with h | h | h
    · rcases mem_push h with h | h | h
      · exact .inl h
      · exact .inr (.inl (by simp [h]))
      · exact .inr (.inr h)
    · exact .inr (.inl (by simp [h]))
    · exact .inr (.inr h)

theorem dotdot_good : GoodComp dotdot := by
  constructor <;> decide

theorem cleanComps_good {root cs} (h : ∀ c ∈ cs, GoodComp c) :
    ∀ c ∈ cleanComps root cs, GoodComp c := by
  intro c hc
  unfold cleanComps at hc
  rw [List.mem_reverse] at hc
  rcases mem_foldl_push cs [] hc with h' | h' | h'
  · simp at h'
  · exact h c h'
  · subst h'; exact dotdot_good

theorem rooted_render {root cs} (h : ∀ c ∈ cs, GoodComp c) : rooted (render root cs) = root := by
  unfold render
  cases root
  · simp only [Bool.false_eq_true, if_false]
    split
    · rfl
    · rename_i hne
      exact rooted_joinSlash cs (by intro e; subst e; simp at hne) h
  · simp [rooted]

end RedoModel.Paths
