import RedoModel.Lemmas.RunLoopInv
import RedoModel.Props.C06
/-! Helper lemmas for Props/C06b (simulation of `RunLoop` by `Locks`).

`Sim.toLocks`, `Sim.feed`, `Sim.pidOf`, `Sim.Agrees` are copies of the definitions of Props/C06b.lean (which imports
this file); C06b.lean shows that they coincide and transports the lemmas. -/
set_option linter.unusedSimpArgs false
namespace RedoModel.RunLoop.Sim
open RedoModel RedoModel.RunLoop

def toLocks (p : Nat) (s : St) : RunLoop.Ev → List Locks.Ev
  | .tryLock f true => [.lockOk p f]
  | .tryLock f false => [.lockFail p f]
  | .waited f => [.lockOk p f]
  | .unlock f => [.unlock p f]
  | .immediate f _ => [.unlock p f]
  | .forked f => [.script p f false]
  | .jobEnd f _ => [.recordEnd p f, .unlock p f]
  | .failedElsewhere f => [.unlock p f]
  | .abort => s.held.map (fun f => Locks.Ev.unlock p f)
  | .fin _ => [.exit p]
  | _ => []

def feed (L : Locks.State) : List Locks.Ev → Except Locks.Reject Locks.State
  | [] => .ok L
  | e :: es => match Locks.step L e with
    | .ok L' => feed L' es
    | .error r => .error r

def pidOf : Locks.Ev → Nat
  | .lockOk p _ => p | .lockFail p _ => p | .unlock p _ => p | .script p _ _ => p | .recordEnd p _ => p | .exit p => p

structure Agrees (p : Nat) (s : St) (L : Locks.State) : Prop where
  heldOwned : ∀ f ∈ s.held, L.owner f = some p
  jobsOwned : ∀ f ∈ s.jobs, L.owner f = some p
  jobsRunning : ∀ f ∈ s.jobs, (⟨f, p, false⟩ : Locks.Exec) ∈ L.running
  runningJobs : ∀ e ∈ L.running, e.pid = p → e.fid ∈ s.jobs
  ownsOnly : ∀ f, L.owner f = some p → f ∈ s.held ∨ f ∈ s.jobs
  disjoint : ∀ f ∈ s.held, f ∉ s.jobs
  nodupHeld : s.held.Nodup
  nodupJobs : s.jobs.Nodup
  noDelegated : ∀ e ∈ L.running, e.delegated = false
  ended : ∀ ok, s.pc = .ended ok → ∀ f, L.owner f ≠ some p
  heldPc : s.held = heldAtPc s.pc

theorem agrees_init (p : Nat) : Agrees p {} {} := by
  constructor <;> simp [heldAtPc]

/-! ## `feed` -/

theorem feed_one {L L' : Locks.State} {e : Locks.Ev} (h : Locks.step L e = .ok L') : feed L [e] = .ok L' := by
  simp [feed, h]

theorem feed_cons_ok {L L' : Locks.State} {e : Locks.Ev} {es : List Locks.Ev} (h : feed L (e :: es) = .ok L') :
    ∃ L1, Locks.step L e = .ok L1 ∧ feed L1 es = .ok L' := by
  simp only [feed] at h
  split at h
  · rename_i L1 h1; exact ⟨L1, h1, h⟩
  · cases h

theorem feed_inv {L L' : Locks.State} {es : List Locks.Ev} (h : feed L es = .ok L') (hi : C06.Inv L) : C06.Inv L' := by
  induction es generalizing L with
  | nil => cases h; exact hi
  | cons e es ih =>
    obtain ⟨L1, h1, h2⟩ := feed_cons_ok h
    exact ih h2 (C06.step_inv L L1 e hi h1)

/-! ## The state of the process alone: `held` follows the program counter -/

theorem held_step {c : Cfg} {s s' : St} {ev : RunLoop.Ev} (h : RunLoop.step c s ev = .ok s')
    (hh : s.held = heldAtPc s.pc) : s'.held = heldAtPc s'.pc := by
  cases step_Step h <;> simp_all [heldAtPc, poll]

theorem heldAtPc_cases (pc : Pc) : heldAtPc pc = [] ∨ ∃ f, heldAtPc pc = [f] := by
  cases pc <;> simp [heldAtPc]

/-! ## One lemma per kind of effect on the lock table -/

section
variable {p : Nat} {s s' : St} {L : Locks.State}

/-- No execution of a target whose lock the process itself holds is under way. -/
theorem held_not_running (ha : Agrees p s L) (hi : C06.Inv L) {f : Nat} (hf : f ∈ s.held) :
    ∀ e ∈ L.running, e.fid ≠ f := by
  intro e he hef
  have h1 := hi.own e he (ha.noDelegated e he)
  have h2 := ha.heldOwned f hf
  simp only [Locks.ownerOf, hef, h2, Option.some.injEq] at h1
  have h3 := ha.runningJobs e he h1.symm
  rw [hef] at h3
  exact ha.disjoint f hf h3

/-- Events that do not touch locks or jobs. -/
theorem sim_nop (ha : Agrees p s L) (e1 : s'.held = s.held) (e2 : s'.jobs = s.jobs)
    (hh : s'.held = heldAtPc s'.pc) (hne : ∀ ok, s'.pc ≠ .ended ok) : Agrees p s' L := by
  obtain ⟨a1, a2, a3, a4, a5, a6, a7, a8, a9, _, _⟩ := ha
  refine ⟨?_, ?_, ?_, ?_, ?_, ?_, ?_, ?_, a9, fun ok h => absurd h (hne ok), hh⟩ <;> simp only [e1, e2] <;> assumption

/-- A lock granted by the kernel (`try_lock` succeeded, `wait_lock` returned). -/
theorem sim_acquire (ha : Agrees p s L) (hi : C06.Inv L) {f : Nat} (hfree : L.owner f = none)
    (e1 : s'.held = f :: s.held) (e2 : s'.jobs = s.jobs)
    (hh : s'.held = heldAtPc s'.pc) (hne : ∀ ok, s'.pc ≠ .ended ok) :
    ∃ L', feed L [.lockOk p f] = .ok L' ∧ Agrees p s' L' ∧ C06.Inv L' := by
  have hstep : Locks.step L (.lockOk p f) = .ok (Locks.setOwner L f (some p)) := by
    simp [Locks.step, Locks.ownerOf, hfree]
  refine ⟨_, feed_one hstep, ?_, C06.step_inv _ _ _ hi hstep⟩
  obtain ⟨a1, a2, a3, a4, a5, a6, a7, a8, a9, _, _⟩ := ha
  have hfh : f ∉ s.held := fun h => by simp [a1 f h] at hfree
  have hfj : f ∉ s.jobs := fun h => by simp [a2 f h] at hfree
  refine ⟨?_, ?_, ?_, ?_, ?_, ?_, ?_, ?_, a9, fun ok h => absurd h (hne ok), hh⟩ <;>
    simp only [e1, e2, Locks.setOwner]
  · intro g hg
    by_cases hgf : g = f
    · simp [hgf]
    · simp only [hgf, if_false]
      rcases List.mem_cons.1 hg with h | h
      · exact absurd h hgf
      · exact a1 g h
  · intro g hg
    by_cases hgf : g = f
    · simp [hgf]
    · simp only [hgf, if_false]; exact a2 g hg
  · exact a3
  · exact a4
  · intro g hg
    by_cases hgf : g = f
    · left; simp [hgf]
    · simp only [hgf, if_false] at hg
      rcases a5 g hg with h | h
      · left; exact List.mem_cons_of_mem _ h
      · right; exact h
  · intro g hg
    rcases List.mem_cons.1 hg with h | h
    · rw [h]; exact hfj
    · exact a6 g h
  · exact List.nodup_cons.2 ⟨hfh, a7⟩
  · exact a8

/-- A lock the process itself holds is released (`unlock`, an immediate result, a target failed elsewhere). -/
theorem sim_release (ha : Agrees p s L) (hi : C06.Inv L) {f : Nat} (hf : f ∈ s.held)
    (e1 : s'.held = s.held.erase f) (e2 : s'.jobs = s.jobs)
    (hh : s'.held = heldAtPc s'.pc) (hne : ∀ ok, s'.pc ≠ .ended ok) :
    ∃ L', feed L [.unlock p f] = .ok L' ∧ Agrees p s' L' ∧ C06.Inv L' := by
  have hnr := held_not_running ha hi hf
  have hstep : Locks.step L (.unlock p f) = .ok (Locks.setOwner L f none) := by
    have h1 : L.running.any (fun e => e.fid == f) = false := by
      rw [List.any_eq_false]; intro e he; simpa using hnr e he
    simp [Locks.step, Locks.ownerOf, ha.heldOwned f hf, h1]
  refine ⟨_, feed_one hstep, ?_, C06.step_inv _ _ _ hi hstep⟩
  obtain ⟨a1, a2, a3, a4, a5, a6, a7, a8, a9, _, _⟩ := ha
  have hfj : f ∉ s.jobs := a6 f hf
  refine ⟨?_, ?_, ?_, ?_, ?_, ?_, ?_, ?_, a9, fun ok h => absurd h (hne ok), hh⟩ <;>
    simp only [e1, e2, Locks.setOwner]
  · intro g hg
    have := (List.Nodup.mem_erase_iff a7).1 hg
    simp only [this.1, if_false]; exact a1 g this.2
  · intro g hg
    have hgf : g ≠ f := fun h => hfj (h ▸ hg)
    simp only [hgf, if_false]; exact a2 g hg
  · exact a3
  · exact a4
  · intro g hg
    by_cases hgf : g = f
    · simp [hgf] at hg
    · simp only [hgf, if_false] at hg
      rcases a5 g hg with h | h
      · left; exact (List.mem_erase_of_ne hgf).2 h
      · right; exact h
  · intro g hg; exact a6 g (List.mem_of_mem_erase hg)
  · exact a7.erase f
  · exact a8

/-- `BuildJob::start` forks a child for the target whose lock the process holds. -/
theorem sim_fork (ha : Agrees p s L) (hi : C06.Inv L) {f : Nat} (hf : f ∈ s.held)
    (e1 : s'.held = s.held.erase f) (e2 : s'.jobs = f :: s.jobs)
    (hh : s'.held = heldAtPc s'.pc) (hne : ∀ ok, s'.pc ≠ .ended ok) :
    ∃ L', feed L [.script p f false] = .ok L' ∧ Agrees p s' L' ∧ C06.Inv L' := by
  have hnr := held_not_running ha hi hf
  have hstep : Locks.step L (.script p f false) =
      .ok { L with running := ⟨f, p, false⟩ :: L.running, started := (f, p) :: L.started } := by
    have h1 : L.running.any (fun e => e.fid == f && e.pid == p) = false := by
      rw [List.any_eq_false]; intro e he; simp [hnr e he]
    have h2 : L.running.any (fun e => e.fid == f && e.delegated) = false := by
      rw [List.any_eq_false]; intro e he; simp [hnr e he]
    simp [Locks.step, Locks.ownerOf, ha.heldOwned f hf, h1, h2]
  refine ⟨_, feed_one hstep, ?_, C06.step_inv _ _ _ hi hstep⟩
  obtain ⟨a1, a2, a3, a4, a5, a6, a7, a8, a9, _, _⟩ := ha
  have hfj : f ∉ s.jobs := a6 f hf
  refine ⟨?_, ?_, ?_, ?_, ?_, ?_, ?_, ?_, ?_, fun ok h => absurd h (hne ok), hh⟩ <;> simp only [e1, e2]
  · intro g hg; exact a1 g (List.mem_of_mem_erase hg)
  · intro g hg
    rcases List.mem_cons.1 hg with h | h
    · rw [h]; exact a1 f hf
    · exact a2 g h
  · intro g hg
    rcases List.mem_cons.1 hg with h | h
    · rw [h]; exact List.mem_cons_self
    · exact List.mem_cons_of_mem _ (a3 g h)
  · intro e he hep
    rcases List.mem_cons.1 he with h | h
    · rw [h]; exact List.mem_cons_self
    · exact List.mem_cons_of_mem _ (a4 e h hep)
  · intro g hg
    by_cases hgf : g = f
    · right; rw [hgf]; exact List.mem_cons_self
    · rcases a5 g hg with h | h
      · left; exact (List.mem_erase_of_ne hgf).2 h
      · right; exact List.mem_cons_of_mem _ h
  · intro g hg hgj
    have := (List.Nodup.mem_erase_iff a7).1 hg
    rcases List.mem_cons.1 hgj with h | h
    · exact this.1 h
    · exact a6 g this.2 h
  · exact a7.erase f
  · exact List.nodup_cons.2 ⟨hfj, a8⟩
  · intro e he
    rcases List.mem_cons.1 he with h | h
    · rw [h]
    · exact a9 e h

/-- A job's continuation ran: the result is recorded, then the job's lock is dropped. -/
theorem sim_jobEnd (ha : Agrees p s L) (hi : C06.Inv L) {f : Nat} (hf : f ∈ s.jobs)
    (e1 : s'.held = s.held) (e2 : s'.jobs = s.jobs.erase f)
    (hh : s'.held = heldAtPc s'.pc) (hne : ∀ ok, s'.pc ≠ .ended ok) :
    ∃ L', feed L [.recordEnd p f, .unlock p f] = .ok L' ∧ Agrees p s' L' ∧ C06.Inv L' := by
  obtain ⟨a1, a2, a3, a4, a5, a6, a7, a8, a9, _, _⟩ := ha
  have hrun := a3 f hf
  let L1 : Locks.State :=
    { L with running := L.running.filter (fun e => !(e.fid == f && e.pid == p)), recorded := (f, p) :: L.recorded }
  have hstep1 : Locks.step L (.recordEnd p f) = .ok L1 := by
    have h1 : L.running.any (fun e => e.fid == f && e.pid == p) = true := by
      rw [List.any_eq_true]; exact ⟨_, hrun, by simp⟩
    simp [Locks.step, h1, L1]
  have hi1 := C06.step_inv _ _ _ hi hstep1
  have hnr1 : ∀ e ∈ L1.running, e.fid ≠ f := by
    intro e he hef
    have he' := List.mem_filter.1 he
    have := hi.one e he'.1 _ hrun hef
    rw [this] at he'
    simp at he'
  have hstep2 : Locks.step L1 (.unlock p f) = .ok (Locks.setOwner L1 f none) := by
    have h1 : L1.running.any (fun e => e.fid == f) = false := by
      rw [List.any_eq_false]; intro e he; simpa using hnr1 e he
    have h2 : L1.owner f = some p := a2 f hf
    simp [Locks.step, Locks.ownerOf, h2, h1]
  refine ⟨Locks.setOwner L1 f none, ?_, ?_, C06.step_inv _ _ _ hi1 hstep2⟩
  · simp [feed, hstep1, hstep2]
  refine ⟨?_, ?_, ?_, ?_, ?_, ?_, ?_, ?_, ?_, fun ok h => absurd h (hne ok), hh⟩ <;>
    simp only [e1, e2, Locks.setOwner, L1]
  · intro g hg
    have hgf : g ≠ f := fun h => a6 g hg (h ▸ hf)
    simp only [hgf, if_false]; exact a1 g hg
  · intro g hg
    have := (List.Nodup.mem_erase_iff a8).1 hg
    simp only [this.1, if_false]; exact a2 g this.2
  · intro g hg
    have := (List.Nodup.mem_erase_iff a8).1 hg
    refine List.mem_filter.2 ⟨a3 g this.2, ?_⟩
    simp [this.1]
  · intro e he hep
    have he' := List.mem_filter.1 he
    have hne' : e.fid ≠ f := by
      intro h; simp [h, hep] at he'
    exact (List.mem_erase_of_ne hne').2 (a4 e he'.1 hep)
  · intro g hg
    by_cases hgf : g = f
    · simp [hgf] at hg
    · simp only [hgf, if_false] at hg
      rcases a5 g hg with h | h
      · left; exact h
      · right; exact (List.mem_erase_of_ne hgf).2 h
  · intro g hg hgj; exact a6 g hg (List.mem_of_mem_erase hgj)
  · exact a7
  · exact a8.erase f
  · intro e he; exact a9 e (List.mem_filter.1 he).1

/-- `run` returns: no job is under way and the process itself holds no lock. -/
theorem sim_fin (ha : Agrees p s L) (hi : C06.Inv L) (hj : s.jobs = []) (hh0 : s.held = [])
    (e1 : s'.held = s.held) (e2 : s'.jobs = s.jobs) (hh : s'.held = heldAtPc s'.pc) :
    ∃ L', feed L [.exit p] = .ok L' ∧ Agrees p s' L' ∧ C06.Inv L' := by
  obtain ⟨a1, a2, a3, a4, a5, a6, a7, a8, a9, _, _⟩ := ha
  have hown : ∀ g, L.owner g ≠ some p := by
    intro g hg
    rcases a5 g hg with h | h
    · rw [hh0] at h; cases h
    · rw [hj] at h; cases h
  have hnp : ∀ e ∈ L.running, e.pid ≠ p := by
    intro e he hep
    have := a4 e he hep
    rw [hj] at this; cases this
  have hstep : Locks.step L (.exit p) =
      .ok { L with owner := fun g => if L.owner g = some p then none else L.owner g } := by
    have h1 : L.running.any (fun e => e.pid == p || Locks.ownerOf L e.fid == some p) = false := by
      rw [List.any_eq_false]; intro e he
      simp [hnp e he, Locks.ownerOf, hown e.fid]
    simp [Locks.step, h1]
  refine ⟨_, feed_one hstep, ?_, C06.step_inv _ _ _ hi hstep⟩
  refine ⟨?_, ?_, ?_, ?_, ?_, ?_, ?_, ?_, a9, ?_, hh⟩ <;> simp only [e1, e2, hh0, hj]
  · intro g hg; cases hg
  · intro g hg; cases hg
  · intro g hg; cases hg
  · intro e he hep; exact absurd hep (hnp e he)
  · intro g hg; simp [hown g] at hg
  · intro g hg; cases hg
  · exact List.nodup_nil
  · exact List.nodup_nil
  · intro ok _ g; simp [hown g]

/-- An internal error: the locks the process itself holds (at most one) are dropped. -/
theorem sim_abort (ha : Agrees p s L) (hi : C06.Inv L) (e1 : s'.held = []) (e2 : s'.jobs = s.jobs)
    (hh : s'.held = heldAtPc s'.pc) (hne : ∀ ok, s'.pc ≠ .ended ok) :
    ∃ L', feed L (s.held.map (fun f => Locks.Ev.unlock p f)) = .ok L' ∧ Agrees p s' L' ∧ C06.Inv L' := by
  rcases heldAtPc_cases s.pc with h0 | ⟨f, h0⟩
  · have hs : s.held = [] := by rw [ha.heldPc, h0]
    rw [hs]
    exact ⟨L, rfl, sim_nop ha (by rw [e1, hs]) e2 hh hne, hi⟩
  · have hs : s.held = [f] := by rw [ha.heldPc, h0]
    rw [hs]
    exact sim_release ha hi (by rw [hs]; exact List.mem_cons_self) (by rw [e1, hs]; simp) e2 hh hne

end

/-! ## One step of `builder::run` against the lock table -/

theorem sim_step {p : Nat} {c : Cfg} {s s' : St} {ev : RunLoop.Ev} {L : Locks.State}
    (ha : Agrees p s L) (hi : C06.Inv L) (hs : RunLoop.step c s ev = .ok s')
    (hk : ∀ f, (ev = .tryLock f true ∨ ev = .waited f) → L.owner f = none) :
    ∃ L', feed L (toLocks p s ev) = .ok L' ∧ Agrees p s' L' ∧ C06.Inv L' := by
  have hh' := held_step hs ha.heldPc
  have hh := ha.heldPc
  have hS := step_Step hs
  clear hs
  cases hS with
  | l1JobEnd hf hpc => exact sim_jobEnd ha hi hf rfl rfl hh' (by simp)
  | l1goJobEnd hf hpc => exact sim_jobEnd ha hi hf rfl rfl hh' (by simp)
  | l2JobEnd hf hpc => exact sim_jobEnd ha hi hf rfl rfl hh' (by simp)
  | l2goJobEnd hf hq hpc => exact sim_jobEnd ha hi hf rfl rfl hh' (by simp)
  | drainJobEnd hf hpc => exact sim_jobEnd ha hi hf rfl rfl hh' (by simp [hpc])
  | l1lockOk hpc => exact sim_acquire ha hi (hk _ (Or.inl rfl)) rfl rfl hh' (by simp)
  | l2tryOk hpc => exact sim_acquire ha hi (hk _ (Or.inl rfl)) rfl rfl hh' (by simp)
  | l2waitWaited hpc => exact sim_acquire ha hi (hk _ (Or.inr rfl)) rfl rfl hh' (by simp)
  | l2gotUnlock hpc => exact sim_release ha hi (by simp [hh, hpc, heldAtPc]) rfl rfl hh' (by simp)
  | l2ownElsewhere hpc => exact sim_release ha hi (by simp [hh, hpc, heldAtPc]) rfl rfl hh' (by simp)
  | l1startedImmediate hpc => exact sim_release ha hi (by simp [hh, hpc, heldAtPc]) rfl rfl hh' (by simp)
  | l2startedImmediate hpc => exact sim_release ha hi (by simp [hh, hpc, heldAtPc]) rfl rfl hh' (by simp)
  | l1startedForked hpc => exact sim_fork ha hi (by simp [hh, hpc, heldAtPc]) rfl rfl hh' (by simp)
  | l2startedForked hpc => exact sim_fork ha hi (by simp [hh, hpc, heldAtPc]) rfl rfl hh' (by simp)
  | abort hd he => exact sim_abort ha hi rfl rfl hh' (by simp)
  | l1Fin hj hq hok hpc => exact sim_fin ha hi hj (by simp [hh, hpc, heldAtPc]) rfl rfl hh'
  | l1goFin hj hq hok hpc => exact sim_fin ha hi hj (by simp [hh, hpc, heldAtPc]) rfl rfl hh'
  | l2Fin hj hq hok hpc => exact sim_fin ha hi hj (by simp [hh, hpc, heldAtPc]) rfl rfl hh'
  | l2goFin hj hq hok hq0 hpc => exact sim_fin ha hi hj (by simp [hh, hpc, heldAtPc]) rfl rfl hh'
  | drainFin hj hok hpc => exact sim_fin ha hi hj (by simp [hh, hpc, heldAtPc]) rfl rfl hh'
  | _ => exact ⟨L, rfl, sim_nop ha rfl rfl hh' (by simp), hi⟩

/-! ## The other processes -/

theorem others_keep {p : Nat} {s : St} {L L' : Locks.State} {e : Locks.Ev} (ha : Agrees p s L)
    (hq : pidOf e ≠ p) (hu : ∀ q f, e ≠ .script q f true) (h : Locks.step L e = .ok L') : Agrees p s L' := by
  obtain ⟨a1, a2, a3, a4, a5, a6, a7, a8, a9, a10, a11⟩ := ha
  cases e with
  | lockOk q f =>
    simp only [pidOf] at hq
    simp only [Locks.step, Locks.ownerOf] at h
    split at h
    · split at h
      · cases h; exact ⟨a1, a2, a3, a4, a5, a6, a7, a8, a9, a10, a11⟩
      · cases h
    · rename_i hnone
      cases h
      have hne : ∀ g, L.owner g = some p → g ≠ f := by
        intro g hg hgf; rw [hgf, hnone] at hg; cases hg
      refine ⟨?_, ?_, a3, a4, ?_, a6, a7, a8, a9, ?_, a11⟩ <;> simp only [Locks.setOwner]
      · intro g hg; simp only [hne g (a1 g hg), if_false]; exact a1 g hg
      · intro g hg; simp only [hne g (a2 g hg), if_false]; exact a2 g hg
      · intro g hg
        by_cases hgf : g = f
        · simp only [hgf, if_true, Option.some.injEq] at hg; exact absurd hg hq
        · simp only [hgf, if_false] at hg; exact a5 g hg
      · intro ok hp g hg
        by_cases hgf : g = f
        · simp only [hgf, if_true, Option.some.injEq] at hg; exact absurd hg hq
        · simp only [hgf, if_false] at hg; exact a10 ok hp g hg
  | lockFail q f => simp only [Locks.step] at h; cases h; exact ⟨a1, a2, a3, a4, a5, a6, a7, a8, a9, a10, a11⟩
  | unlock q f =>
    simp only [pidOf] at hq
    simp only [Locks.step] at h
    split at h
    · cases h
    · rename_i hown
      split at h
      · cases h
      · cases h
        simp only [ne_eq, Decidable.not_not, Locks.ownerOf] at hown
        have hne : ∀ g, L.owner g = some p → g ≠ f := by
          intro g hg hgf; rw [hgf, hown] at hg; simp only [Option.some.injEq] at hg; exact hq hg
        refine ⟨?_, ?_, a3, a4, ?_, a6, a7, a8, a9, ?_, a11⟩ <;> simp only [Locks.setOwner]
        · intro g hg; simp only [hne g (a1 g hg), if_false]; exact a1 g hg
        · intro g hg; simp only [hne g (a2 g hg), if_false]; exact a2 g hg
        · intro g hg
          by_cases hgf : g = f
          · simp [hgf] at hg
          · simp only [hgf, if_false] at hg; exact a5 g hg
        · intro ok hp g hg
          by_cases hgf : g = f
          · simp [hgf] at hg
          · simp only [hgf, if_false] at hg; exact a10 ok hp g hg
  | script q f unlocked =>
    simp only [pidOf] at hq
    cases unlocked with
    | true => exact absurd rfl (hu q f)
    | false =>
      simp only [Locks.step, Bool.false_eq_true, if_false] at h
      split at h
      · cases h
      · split at h
        · cases h
        · split at h
          · cases h
          · cases h
            refine ⟨a1, a2, ?_, ?_, a5, a6, a7, a8, ?_, a10, a11⟩
            · intro g hg; exact List.mem_cons_of_mem _ (a3 g hg)
            · intro e he hep
              rcases List.mem_cons.1 he with h | h
              · rw [h] at hep; exact absurd hep hq
              · exact a4 e h hep
            · intro e he
              rcases List.mem_cons.1 he with h | h
              · rw [h]
              · exact a9 e h
  | recordEnd q f =>
    simp only [pidOf] at hq
    simp only [Locks.step] at h
    split at h
    · cases h
      refine ⟨a1, a2, ?_, ?_, a5, a6, a7, a8, ?_, a10, a11⟩
      · intro g hg
        refine List.mem_filter.2 ⟨a3 g hg, ?_⟩
        have : p ≠ q := fun h => hq h.symm
        simp [this]
      · intro e he hep; exact a4 e (List.mem_filter.1 he).1 hep
      · intro e he; exact a9 e (List.mem_filter.1 he).1
    · cases h
  | exit q =>
    simp only [pidOf] at hq
    simp only [Locks.step] at h
    split at h
    · cases h
    · cases h
      have hne : ∀ g, L.owner g = some p → L.owner g ≠ some q := by
        intro g hg hgq; rw [hg] at hgq; simp only [Option.some.injEq] at hgq; exact hq hgq.symm
      refine ⟨?_, ?_, a3, a4, ?_, a6, a7, a8, a9, ?_, a11⟩ <;> simp only
      · intro g hg; simp only [hne g (a1 g hg), if_false]; exact a1 g hg
      · intro g hg; simp only [hne g (a2 g hg), if_false]; exact a2 g hg
      · intro g hg
        by_cases hgq : L.owner g = some q
        · simp [hgq] at hg
        · simp only [hgq, if_false] at hg; exact a5 g hg
      · intro ok hp g hg
        by_cases hgq : L.owner g = some q
        · simp [hgq] at hg
        · simp only [hgq, if_false] at hg; exact a10 ok hp g hg

theorem toLocks_pid (p : Nat) (s : St) (ev : RunLoop.Ev) :
    ∀ e ∈ toLocks p s ev, pidOf e = p ∧ ∀ q f, e ≠ .script q f true := by
  cases ev <;> try (rename_i b; cases b)
  all_goals simp [toLocks, pidOf]

theorem feed_others {q : Nat} {s : St} {L L' : Locks.State} {es : List Locks.Ev} (h : feed L es = .ok L')
    (hes : ∀ e ∈ es, pidOf e ≠ q ∧ ∀ r f, e ≠ .script r f true) (ha : Agrees q s L) : Agrees q s L' := by
  induction es generalizing L with
  | nil => cases h; exact ha
  | cons e es ih =>
    obtain ⟨L1, h1, h2⟩ := feed_cons_ok h
    have he := hes e List.mem_cons_self
    exact ih h2 (fun e' he' => hes e' (List.mem_cons_of_mem _ he')) (others_keep ha he.1 he.2 h1)

/-- The events one process shows to `Locks` keep the agreement of every other process. -/
theorem step_others {p q : Nat} (hpq : q ≠ p) {s sq : St} {ev : RunLoop.Ev} {L L' : Locks.State}
    (h : feed L (toLocks p s ev) = .ok L') (ha : Agrees q sq L) : Agrees q sq L' :=
  feed_others h (fun e he => ⟨by rw [(toLocks_pid p s ev e he).1]; exact fun h => hpq h.symm,
    (toLocks_pid p s ev e he).2⟩) ha

/-! ## Any number of processes over one lock table -/

/-- One step of process `p` in a system state whose lock table satisfies `C06.Inv` and agrees with every process. -/
theorem sys_step {c : Cfg} {procs : Nat → St} {L : Locks.State} {p : Nat} {ev : RunLoop.Ev} {s' : St}
    (hi : C06.Inv L) (ha : ∀ q, Agrees q (procs q) L) (hs : RunLoop.step c (procs p) ev = .ok s')
    (hk : ∀ f, (ev = .tryLock f true ∨ ev = .waited f) → L.owner f = none) :
    ∃ L', feed L (toLocks p (procs p) ev) = .ok L' ∧ C06.Inv L' ∧
      ∀ q, Agrees q (if q = p then s' else procs q) L' := by
  obtain ⟨L', h1, h2, h3⟩ := sim_step (ha p) hi hs hk
  refine ⟨L', h1, h3, fun q => ?_⟩
  by_cases hq : q = p
  · simp only [hq, if_true]; exact h2
  · simp only [hq, if_false]; exact step_others hq h1 (ha q)

/-- `C06.exclusive`, from the invariant. -/
theorem inv_exclusive {L : Locks.State} (hi : C06.Inv L) (fid : Nat) : (Locks.active L fid).length ≤ 1 := by
  unfold Locks.active
  match hl : L.running.filter (fun e => e.fid == fid) with
  | [] => simp [hl]
  | [_] => simp [hl]
  | a :: b :: r =>
    exfalso
    have ha : a ∈ L.running.filter (fun e => e.fid == fid) := by rw [hl]; simp
    have hb : b ∈ L.running.filter (fun e => e.fid == fid) := by rw [hl]; simp
    have hfa := (List.mem_filter.1 ha)
    have hfb := (List.mem_filter.1 hb)
    have hab : a = b := hi.one a hfa.1 b hfb.1 (by
      have h1 : a.fid = fid := by simpa using hfa.2
      have h2 : b.fid = fid := by simpa using hfb.2
      rw [h1, h2])
    have hnd := hi.nodup.filter (fun e => e.fid == fid)
    rw [hl, hab] at hnd
    simp at hnd

/-- An execution under way runs under its target's lock, owned by the process that started it. -/
theorem inv_active_owner {L : Locks.State} (hi : C06.Inv L) (hd : ∀ e ∈ L.running, e.delegated = false)
    (fid : Nat) : ∀ e ∈ Locks.active L fid, L.owner fid = some e.pid := by
  intro e he
  have he' := List.mem_filter.1 he
  have h1 : e.fid = fid := by simpa using he'.2
  have := hi.own e he'.1 (hd e he'.1)
  rw [h1] at this
  exact this

end RedoModel.RunLoop.Sim
