import RedoModel.Lemmas.DepsTrace
/-!
# C14 lifted to whole commands — part 1: a dependency row that fires makes the verdict `dirty` (or `cyclic`)

A row *fires* when it is a `c` row whose source exists, or an `m` row whose check answers `dirty` in every
state (e.g. the row on `//ALWAYS`, whose snapshot is newer than any earlier mark).  Rows before it in the
SQLite order can only turn the verdict into `cyclic`, never into `clean` or `need`.
-/
namespace RedoModel.Deps
open RedoModel.Generated

theorem addKnown_fs (w : World) (f : Nat) : (addKnown w f).fs = w.fs := by
  unfold addKnown
  split <;> rfl

theorem addKnown_recs_ne (w : World) (f x : Nat) (h : x ≠ f) : (addKnown w f).recs x = w.recs x := by
  unfold addKnown
  split
  · rfl
  · simp [setRec, h]

theorem addDep_fs (w : World) (t s : Nat) (m : Bool) : (addDep w t s m).fs = w.fs := addKnown_fs w s

theorem getRec_ne (w : World) (R f : Nat) (h : f ≠ alwaysId) : getRec w R f = w.recs f := by
  unfold getRec
  simp [h]

/-- The row `p` (with the snapshot of its source) makes the target dirty, given the file system `fs`. -/
def Fires (chk : World → List Nat → Nat → Rec → DR × World × List Nat) (fs : Nat → Option FNode)
    (p : Dep × Rec) : Prop :=
  (p.1.modeM = false ∧ (fs p.1.source).isSome = true) ∨
  (p.1.modeM = true ∧ ∀ w c, (chk w c p.1.source p.2).1 = .dirty)

theorem goDeps_fires (chk : World → List Nat → Nat → Rec → DR × World × List Nat)
    (hchk : ∀ w c s r, (chk w c s r).2.1.fs = w.fs) (hc : Bool) (f : Nat) :
    ∀ (ds : List (Dep × Rec)) (w : World) (cache must : List Nat), (∃ p ∈ ds, Fires chk w.fs p) →
      (goDeps chk hc f ds w cache must).1 = some .cyclic ∨
      (goDeps chk hc f ds w cache must).1 = some (if hc then .need [f] else .dirty)
  | [], w, cache, must, h => by
    obtain ⟨p, hp, _⟩ := h
    cases hp
  | (d, snap) :: ds, w, cache, must, h => by
    rw [goDeps]
    by_cases hm : d.modeM = true
    · simp only [hm, if_true]
      have hfs := hchk w cache d.source snap
      have hhead : Fires chk w.fs (d, snap) → (chk w cache d.source snap).1 = .dirty := by
        intro hf
        rcases hf with ⟨h1, _⟩ | ⟨_, h2⟩
        · rw [hm] at h1; cases h1
        · exact h2 w cache
      have htail : (chk w cache d.source snap).1 ≠ .dirty → ∃ p ∈ ds, Fires chk (chk w cache d.source snap).2.1.fs p := by
        intro hne
        obtain ⟨p, hp, hf⟩ := h
        rcases List.mem_cons.1 hp with rfl | hp'
        · exact absurd (hhead hf) hne
        · exact ⟨p, hp', by rw [hfs]; exact hf⟩
      generalize chk w cache d.source snap = r at htail
      obtain ⟨sub, w1, c1⟩ := r
      cases sub with
      | cyclic => left; rfl
      | dirty => right; rfl
      | clean => exact goDeps_fires chk hchk hc f ds w1 c1 must (htail (by simp))
      | need ts => exact goDeps_fires chk hchk hc f ds w1 c1 (must ++ ts) (htail (by simp))
    · simp only [hm, Bool.false_eq_true, if_false]
      by_cases hex : existsF w d.source = true
      · simp [hex]
      · simp only [hex, Bool.false_eq_true, if_false]
        apply goDeps_fires chk hchk hc f ds w cache must
        obtain ⟨p, hp, hf⟩ := h
        rcases List.mem_cons.1 hp with rfl | hp'
        · exfalso
          rcases hf with ⟨_, h2⟩ | ⟨h1, _⟩
          · exact hex h2
          · exact hm h1
        · exact ⟨p, hp', hf⟩

theorem isDirty_fires (R fuel : Nat) (w : World) (cache : List Nat) (t mx : Nat) (seen : List Nat) (ch : Nat)
    (hseen : t ∉ seen) (hf : (getRec w R t).failed = none) (hch : (getRec w R t).changed = some ch)
    (hmx : ch ≤ mx) (hck : isCheckedR (getRec w R t) R = false)
    (hst : (getRec w R t).stamp = some (readStamp w t))
    (hrow : ∃ p ∈ depsWithRecs w R (getRec w R t) t,
      Fires (fun w1 c1 s snap => isDirty false R fuel w1 c1 s (max ch ((getRec w R t).checked.getD 0)) (t :: seen) (some snap))
        w.fs p) :
    (isDirty false R (fuel + 1) w cache t mx seen none).1 = .cyclic ∨
    (isDirty false R (fuel + 1) w cache t mx seen none).1 =
      (if (getRec w R t).csum.isSome then .need [t] else .dirty) := by
  have key := goDeps_fires
    (fun w1 c1 s snap => isDirty false R fuel w1 c1 s (max ch ((getRec w R t).checked.getD 0)) (t :: seen) (some snap))
    (fun w c s r => (isDirty_frame false R fuel w c s _ _ _).1) (getRec w R t).csum.isSome t
    (depsWithRecs w R (getRec w R t) t) w cache [] hrow
  have hgt : ¬ (ch > mx) := by omega
  simp (config := { zeta := true, zetaHave := true }) only [isDirty, Option.getD_none, hseen, hf, hch, hck, hst, hgt,
    if_false, Option.isSome_none, Bool.false_eq_true, ne_eq, not_true_eq_false]
  split
  · rename_i dr w' c' heq
    rw [heq] at key
    simpa using key
  · rename_i w' c' heq
    rw [heq] at key
    simp at key

/-- A snapshot that is failed, never built, or newer than the dependent's mark: dirty, whatever the state. -/
theorem isDirty_snap_dirty (ood : Bool) (R n : Nat) (w : World) (c : List Nat) (s mx : Nat) (seen : List Nat) (snap : Rec)
    (hs : s ∉ seen)
    (h : snap.failed.isSome = true ∨ snap.changed = none ∨ ∃ ch, snap.changed = some ch ∧ mx < ch) :
    isDirty ood R (n + 1) w c s mx seen (some snap) = (.dirty, w, c) := by
  by_cases hf : snap.failed.isSome = true
  · simp (config := { zeta := true, zetaHave := true }) only [isDirty, Option.getD_some, hs, hf, if_true, if_false]
  · rcases h with h | h | ⟨ch, h, hlt⟩
    · exact absurd h hf
    · simp (config := { zeta := true, zetaHave := true }) only [isDirty, Option.getD_some, hs, hf, h, if_false,
        Bool.false_eq_true]
    · have : ch > mx := hlt
      simp (config := { zeta := true, zetaHave := true }) only [isDirty, Option.getD_some, hs, hf, h, this, if_false,
        if_true, Bool.false_eq_true]

/-- The snapshot of `//ALWAYS` taken by a process of run `R` is marked changed in a run `≥ R`. -/
theorem getRec_always_changed (w : World) (R : Nat) : ∃ ch, (getRec w R alwaysId).changed = some ch ∧ R ≤ ch := by
  unfold getRec
  simp only [if_true]
  cases (w.recs alwaysId).changed with
  | none => exact ⟨R, rfl, Nat.le_refl _⟩
  | some c0 => exact ⟨max R c0, rfl, Nat.le_max_left _ _⟩

theorem mem_depsWithRecs (w : World) (R : Nat) (r : Rec) (t : Nat) (d0 : Dep) (hd : d0 ∈ w.deps) (ht : d0.target = t)
    (hg : r.isGenerated = true) (ho : r.isOverride = false) :
    (d0, getRec w R d0.source) ∈ depsWithRecs w R r t := by
  unfold depsWithRecs depsOf
  simp only [hg, ho, Bool.not_true, Bool.or_self, Bool.false_eq_true, if_false]
  refine List.mem_map.2 ⟨d0, ?_, rfl⟩
  rw [List.mem_mergeSort]
  exact List.mem_filter.2 ⟨hd, by simp [ht]⟩

/-- Rows of a dependent that force a rebuild: a `c` row whose source now exists, or the `m` row on `//ALWAYS`. -/
def RowFires (w : World) (d0 : Dep) : Prop :=
  (d0.modeM = false ∧ existsF w d0.source = true) ∨ (d0.modeM = true ∧ d0.source = alwaysId)

/-- `should_build` for a target whose record is current but one of whose rows fires: `dirty` or `cyclic`,
never `clean` and never the out-of-band `need`. -/
theorem shouldBuild_fires (cx : Ctx) (fuel t : Nat) (w : World) (ch : Nat) (hr : cx.isRedo = false)
    (ht : t ≠ alwaysId) (hg : (w.recs t).isGenerated = true) (ho : (w.recs t).isOverride = false)
    (hf : (w.recs t).failed = none) (hch : (w.recs t).changed = some ch) (hlt : ch < cx.runid)
    (hck : ∀ c, (w.recs t).checked = some c → c < cx.runid)
    (hst : (w.recs t).stamp = some (readStamp w t))
    (d0 : Dep) (hd : d0 ∈ w.deps) (hdt : d0.target = t) (hfire : RowFires w d0) :
    (shouldBuild cx (fuel + 2) t w).1 = some .cyclic ∨ (shouldBuild cx (fuel + 2) t w).1 = some .dirty := by
  have hget : getRec w cx.runid t = w.recs t := getRec_ne w _ t ht
  have hnf : isFailedR (w.recs t) cx.runid = false := by simp [isFailedR, hf]
  have hnc : isCheckedR (w.recs t) cx.runid = false := by
    unfold isCheckedR
    cases h : (w.recs t).checked with
    | none => rfl
    | some c => have := hck c h; simp; omega
  have hmx' : max ch ((w.recs t).checked.getD 0) < cx.runid := by
    cases h : (w.recs t).checked with
    | none => simp; omega
    | some c => have := hck c h; simp; omega
  have key := isDirty_fires cx.runid (fuel + 1) w [] t cx.runid [] ch (by simp) (by rw [hget]; exact hf)
    (by rw [hget]; exact hch) (by omega) (by rw [hget]; exact hnc) (by rw [hget]; exact hst)
    ⟨(d0, getRec w cx.runid d0.source), mem_depsWithRecs w _ _ t d0 hd hdt (by rw [hget]; exact hg) (by rw [hget]; exact ho), by
      rcases hfire with ⟨h1, h2⟩ | ⟨h1, h2⟩
      · exact Or.inl ⟨h1, h2⟩
      · refine Or.inr ⟨h1, fun w1 c1 => ?_⟩
        dsimp only
        rw [h2, hget]
        obtain ⟨ca, hca, hle⟩ := getRec_always_changed w cx.runid
        rw [isDirty_snap_dirty false cx.runid fuel w1 c1 alwaysId _ [t] _ (by simpa using Ne.symm ht)
          (Or.inr (Or.inr ⟨ca, hca, by omega⟩))]⟩
  unfold shouldBuild
  simp only [hr, Bool.false_eq_true, if_false, hget, hnf]
  rw [hget] at key
  generalize isDirty false cx.runid (fuel + 1 + 1) w [] t cx.runid [] none = res at key ⊢
  obtain ⟨dr, w', c'⟩ := res
  dsimp only at key ⊢
  rcases key with h | h
  · subst h; left; rfl
  · subst h
    right
    cases (w.recs t).csum <;> simp

theorem findDoFile_some (t : Nat) : ∀ (cs : List Nat) (w : World), (∃ c ∈ cs, existsF w c = true) →
    ∃ dof, (findDoFile t cs w).1 = some dof
  | [], w, h => by obtain ⟨c, hc, _⟩ := h; cases hc
  | c :: cs, w, h => by
    rw [findDoFile]
    by_cases hex : existsF w c = true
    · simp only [hex, if_true]; exact ⟨c, rfl⟩
    · simp only [hex, Bool.false_eq_true, if_false]
      apply findDoFile_some t cs
      obtain ⟨c', hc', he⟩ := h
      rcases List.mem_cons.1 hc' with rfl | hc''
      · exact absurd he hex
      · exact ⟨c', hc'', by unfold existsF at he ⊢; rw [addDep_fs]; exact he⟩

/-- `start_self` for a target whose file is as recorded (no override) and that has an existing .do candidate
executes the script. -/
theorem startSelf_ran (E : Engine) (hE : EngineExt E) (d : Defects) (cx : Ctx) (t : Nat) (sf0 : Rec) (w : World)
    (hg : sf0.isGenerated = true) (ho : sf0.isOverride = false) (hst : sf0.stamp = some (readStamp w t))
    (hdo : ∃ c ∈ w.rules t, existsF w c = true) :
    RanIn t w (startSelf E d cx t sf0 w).2 := by
  rw [startSelf_eq]
  have hguard : ssGuard cx t sf0 w = (sf0, w) := by
    unfold ssGuard
    simp [hg, ho, hst, detectOverride]
  rw [hguard]
  simp only [ho, hg, Bool.not_true, Bool.or_self, Bool.and_false, Bool.false_eq_true, if_false]
  unfold ssBuild
  dsimp only
  have h1 : TraceExt w (findDoFile t ((zapDeps1 w t).rules t) (zapDeps1 w t)).2 :=
    (TraceExt.of_eq (w := w) (w' := zapDeps1 w t) rfl).trans (findDoFile_traceExt t _ _)
  have h2 := findDoFile_some t ((zapDeps1 w t).rules t) (zapDeps1 w t) hdo
  generalize findDoFile t ((zapDeps1 w t).rules t) (zapDeps1 w t) = r at h1 h2
  obtain ⟨o, w1⟩ := r
  obtain ⟨dof, h2⟩ := h2
  dsimp only at h1 h2
  subst h2
  exact RanIn.before (RanIn.after h1 (RanIn.ev t (setRec w1 dof (setStatic w1 dof (w1.recs dof) cx.runid))))
    (ssRun_traceExt E hE d cx t sf0 _ _)


theorem SameButRecs.dirtyRel : DirtyRel SameButRecs :=
  ⟨SameButRecs.refl, SameButRecs.trans, SameButRecs.setRec, fun w _ => SameButRecs.ev w _⟩

/-- One job for a target whose record is current but one of whose rows fires (a `c` row whose source now
exists, or the row on `//ALWAYS`): the job either aborts the command with the cyclic status, or executes the
target's script. -/
theorem buildJob_fires (E : Engine) (hE : EngineExt E) (d : Defects) (cx : Ctx) (fuel t : Nat) (w : World) (ch : Nat)
    (hr : cx.isRedo = false)
    (ht : t ≠ alwaysId) (hg : (w.recs t).isGenerated = true) (ho : (w.recs t).isOverride = false)
    (hf : (w.recs t).failed = none) (hch : (w.recs t).changed = some ch) (hlt : ch < cx.runid)
    (hck : ∀ c, (w.recs t).checked = some c → c < cx.runid)
    (hst : (w.recs t).stamp = some (readStamp w t))
    (d0 : Dep) (hd : d0 ∈ w.deps) (hdt : d0.target = t) (hfire : RowFires w d0)
    (hdo : ∃ c ∈ w.rules t, existsF w c = true) :
    (buildJob E d cx (fuel + 2) t w).1 = .abort EXIT_CYCLIC_DEPENDENCY ∨
    ((∃ rv, (buildJob E d cx (fuel + 2) t w).1 = .done rv) ∧ RanIn t w (buildJob E d cx (fuel + 2) t w).2) := by
  have hs := shouldBuild_fires cx fuel t w ch hr ht hg ho hf hch hlt hck hst d0 hd hdt hfire
  have hsame := shouldBuild_rel SameButRecs.dirtyRel cx (fuel + 2) t w
  have htr := shouldBuild_rel TraceExt.dirtyRel cx (fuel + 2) t w
  unfold buildJob
  dsimp only
  generalize shouldBuild cx (fuel + 2) t w = sb at hs hsame htr
  obtain ⟨o, w1⟩ := sb
  dsimp only at hs hsame htr
  obtain ⟨hfs, _, _, _, _, _, hrules⟩ := hsame
  rcases hs with h | h
  · subst h
    left; rfl
  · subst h
    right
    dsimp only
    refine ⟨⟨_, rfl⟩, RanIn.after htr (startSelf_ran E hE d cx t (w.recs t) w1 hg ho ?_ ?_)⟩
    · rw [hst, readStamp_congr (congrFun hfs t)]
    · obtain ⟨c, hc, he⟩ := hdo
      exact ⟨c, by rw [hrules]; exact hc, by rw [existsF_congr (congrFun hfs c)]; exact he⟩

theorem addKnown_recs_self (w : World) (f : Nat) : ∃ row, (addKnown w f).recs f = { (w.recs f) with row := row } := by
  unfold addKnown
  split
  · exact ⟨(w.recs f).row, rfl⟩
  · exact ⟨w.nextRow, by simp [setRec]⟩

theorem addKnown_deps (w : World) (f : Nat) : (addKnown w f).deps = w.deps := by
  unfold addKnown
  split <;> rfl

theorem addKnown_rules (w : World) (f : Nat) : (addKnown w f).rules = w.rules := by
  unfold addKnown
  split <;> rfl

/-- The world a top-level command works in: the run counter advanced. -/
def nextRun (w : World) : World := { w with runCounter := w.runCounter + 1 }

/-- The result of the single job of a top-level `redo-ifchange t`. -/
def finish1 (jr : JobResult × World) : Result × World :=
  match jr with
  | (.abort code, w) => ({ status := code }, w)
  | (.done rv, w) => ({ status := if rv = CRASHED then CRASHED else if rv ≠ 0 then 1 else 0 }, w)

theorem runCmd_ifchange_single (d : Defects) (n : Nat) (t : Nat) (kg : Bool) (w : World) :
    runCmd d n (.ifchange [t] kg) w =
      finish1 (buildJob (engine d (2 * n + 4)) d { runid := w.runCounter + 1, keepGoing := kg } (2 * n + 4) t
        (addKnown (nextRun w) t)) := by
  unfold runCmd allocRun
  dsimp only
  rw [runTargets]
  simp only [List.not_mem_nil, if_false, Bool.false_and, Bool.false_eq_true, Bool.not_false, Bool.true_and,
    decide_false]
  unfold finish1 nextRun
  generalize buildJob _ _ _ _ _ _ = r
  obtain ⟨jr, w1⟩ := r
  cases jr with
  | abort code => rfl
  | done rv =>
    dsimp only
    by_cases hc : rv = CRASHED
    · simp [hc]
    · simp only [hc, if_false]
      rw [runTargets]
      by_cases h0 : rv = 0 <;> simp [h0]

/-- A record that says "built successfully, and nothing happened to the file since": the state of a target
after a successful build, seen from a later run. -/
structure Current (w : World) (t : Nat) : Prop where
  gen : (w.recs t).isGenerated = true
  novr : (w.recs t).isOverride = false
  nofail : (w.recs t).failed = none
  changed : ∃ ch, (w.recs t).changed = some ch ∧ ch ≤ w.runCounter
  checked : ∀ c, (w.recs t).checked = some c → c ≤ w.runCounter
  stamp : (w.recs t).stamp = some (readStamp w t)

/-- Top-level `redo-ifchange t` when a row of `t` fires. -/
theorem runCmd_fires (d : Defects) (n : Nat) (kg : Bool) (w : World) (t : Nat) (ht : t ≠ alwaysId)
    (hcur : Current w t) (d0 : Dep) (hd : d0 ∈ w.deps) (hdt : d0.target = t) (hfire : RowFires w d0)
    (hdo : ∃ c ∈ w.rules t, existsF w c = true) :
    (runCmd d n (.ifchange [t] kg) w).1.status = EXIT_CYCLIC_DEPENDENCY ∨
    RanIn t w (runCmd d n (.ifchange [t] kg) w).2 := by
  rw [runCmd_ifchange_single]
  obtain ⟨row, hrow⟩ := addKnown_recs_self (nextRun w) t
  obtain ⟨ch, hch, hle⟩ := hcur.changed
  have hfs : (addKnown (nextRun w) t).fs = w.fs := addKnown_fs _ _
  have key := buildJob_fires (engine d (2 * n + 4)) (engine_traceExt d _) d
    { runid := w.runCounter + 1, keepGoing := kg } (2 * n + 2) t (addKnown (nextRun w) t) ch rfl ht
    (by rw [hrow]; exact hcur.gen) (by rw [hrow]; exact hcur.novr) (by rw [hrow]; exact hcur.nofail)
    (by rw [hrow]; exact hch) (Nat.lt_succ_of_le hle)
    (fun c hc => Nat.lt_succ_of_le (hcur.checked c (by rw [hrow] at hc; exact hc)))
    (by rw [hrow, readStamp_congr (congrFun hfs t)]; exact hcur.stamp)
    d0 (by rw [addKnown_deps]; exact hd) hdt
    (by
      rcases hfire with ⟨h1, h2⟩ | h
      · exact Or.inl ⟨h1, by rw [existsF_congr (congrFun hfs _)]; exact h2⟩
      · exact Or.inr h)
    (by
      obtain ⟨c, hc, he⟩ := hdo
      exact ⟨c, by rw [addKnown_rules]; exact hc, by rw [existsF_congr (congrFun hfs _)]; exact he⟩)
  have hpre : TraceExt w (addKnown (nextRun w) t) := TraceExt.of_eq (addKnown_trace _ _)
  generalize buildJob _ _ _ _ _ _ = r at key
  obtain ⟨jr, w1⟩ := r
  dsimp only at key
  rcases key with h | ⟨⟨rv, h⟩, hran⟩
  · subst h; left; rfl
  · subst h; right; exact RanIn.after hpre hran

/-- … so a successful exit means the script ran. -/
theorem runCmd_fires_of_zero (d : Defects) (n : Nat) (kg : Bool) (w : World) (t : Nat) (ht : t ≠ alwaysId)
    (hcur : Current w t) (d0 : Dep) (hd : d0 ∈ w.deps) (hdt : d0.target = t) (hfire : RowFires w d0)
    (hdo : ∃ c ∈ w.rules t, existsF w c = true) (h0 : (runCmd d n (.ifchange [t] kg) w).1.status = 0) :
    RanIn t w (runCmd d n (.ifchange [t] kg) w).2 := by
  rcases runCmd_fires d n kg w t ht hcur d0 hd hdt hfire hdo with h | h
  · rw [h] at h0
    exact absurd h0 (by decide)
  · exact h

end RedoModel.Deps
