import RedoModel.Lemmas.DepsWF
set_option linter.unusedSimpArgs false
/-!
# Well-formedness is preserved — part 2: scripts, jobs, commands, user operations
-/
namespace RedoModel.Deps
open RedoModel.Generated

/-- What a nested `redo-ifchange` must satisfy. -/
def EngBW (R : Nat) (E : Engine) : Prop := ∀ cx ts w, cx.runid = R → BW R w → BW R (E.ifchangeCmd cx ts w).2

theorem findDoFile_bw {R : Nat} (t : Nat) : ∀ (cs : List Nat) (w : World), BW R w → BW R (findDoFile t cs w).2
  | [], w, h => by rw [findDoFile]; exact h
  | c :: cs, w, h => by
    rw [findDoFile]
    split
    · exact h.addDep t c true
    · exact findDoFile_bw t cs _ (h.addDep t c false)

theorem conds_bw {R : Nat} {E : Engine} (hE : EngBW R E) (t : Nat) (cx' : Ctx) (hcx : cx'.runid = R) :
    ∀ (fs : List Nat) (w : World), BW R w → BW R (runScript.conds E t cx' fs w).2
  | [], w, h => by rw [runScript.conds]; exact h
  | f :: fs, w, h => by
    rw [runScript.conds]
    split
    · have h1 := hE cx' [f] w hcx h
      generalize E.ifchangeCmd cx' [f] w = r at h1
      obtain ⟨rv, w1⟩ := r
      split
      · rename_i heq; cases heq; exact conds_bw hE t cx' hcx fs _ h1
      · rename_i heq; cases heq; exact h1
    · exact conds_bw hE t cx' hcx fs _ (h.addDep t f false)

theorem cmds_bw {R : Nat} {E : Engine} (hE : EngBW R E) (cx : Ctx) (t : Nat) (cx' : Ctx) (hcx : cx'.runid = R) :
    ∀ (cs : List (List Nat)) (k : Nat) (w : World), BW R w → BW R (runScript.cmds E cx t cx' cs k w).2
  | [], k, w, h => by rw [runScript.cmds]; exact h
  | c :: cs, k, w, h => by
    rw [runScript.cmds]
    split
    · exact h
    · have h1 := hE cx' c w hcx h
      generalize E.ifchangeCmd cx' c w = r at h1
      obtain ⟨rv, w1⟩ := r
      split
      · rename_i heq; cases heq; exact cmds_bw hE cx t cx' hcx cs _ _ h1
      · rename_i heq; cases heq; exact h1

theorem rsAlways_bw {R : Nat} (cx : Ctx) (hcx : cx.runid = R) (t : Nat) (sc : Script) (w : World) (h : BW R w) :
    BW R (rsAlways cx t sc w) := by
  unfold rsAlways
  split
  · dsimp only
    rw [hcx]
    have h1 := h.addDep t alwaysId true
    exact h1.setRec alwaysId
      (((h1.2 alwaysId).congr (r' := { ((addDep w t alwaysId true).recs alwaysId) with stamp := some DStamp.missing })
        rfl rfl rfl).setChanged)
  · exact h

theorem foldl_addDep_bw {R : Nat} (t : Nat) (m : Bool) : ∀ (fs : List Nat) (w : World), BW R w →
    BW R (fs.foldl (fun w f => addDep w t f m) w)
  | [], w, h => h
  | f :: fs, w, h => by
    simp only [List.foldl_cons]
    exact foldl_addDep_bw t m fs _ (h.addDep t f m)

theorem rsFinish_bw {R : Nat} (cx : Ctx) (hcx : cx.runid = R) (t : Nat) (sc : Script) (w : World) (h : BW R w) :
    BW R (rsFinish cx t sc w).2.2 := by
  rw [rsFinish_world]
  split
  · exact h
  · unfold rsStampW
    dsimp only
    split
    · exact h
    · rw [hcx]
      exact (h.addKnown t).setRec t (((h.addKnown t).2 t).stampRec _)

theorem rsBody_bw {R : Nat} {E : Engine} (hE : EngBW R E) (cx : Ctx) (hcx : cx.runid = R) (t : Nat) (sc : Script)
    (w : World) (h : BW R w) : BW R (rsBody E cx t sc w).2.2 := by
  unfold rsBody
  dsimp only
  have h1 := conds_bw hE t (scriptCx cx t) hcx sc.cond w h
  unfold scriptCx at h1
  generalize runScript.conds E t _ sc.cond w = r1 at h1
  obtain ⟨rvc, w1⟩ := r1
  dsimp only at h1 ⊢
  split
  · exact h1
  · have h2 := cmds_bw hE cx t (scriptCx cx t) hcx sc.ifchange 0 w1 h1
    unfold scriptCx at h2
    generalize runScript.cmds E cx t _ sc.ifchange 0 w1 = r2 at h2
    obtain ⟨rv, w2⟩ := r2
    dsimp only at h2 ⊢
    split
    · exact h2
    · exact rsFinish_bw cx hcx t sc w2 h2

theorem runScript_bw {R : Nat} {E : Engine} (hE : EngBW R E) (d : Defects) (cx : Ctx) (hcx : cx.runid = R) (t : Nat)
    (sc : Script) (w : World) (h : BW R w) : BW R (runScript E d cx t sc w).2.2 := by
  rw [runScript_eq]
  split
  · exact rsAlways_bw cx hcx t sc w h
  · exact rsBody_bw hE cx hcx t sc _ (foldl_addDep_bw t false _ _ (rsAlways_bw cx hcx t sc w h))

/-! ### Jobs -/

theorem rnsOut_bw {R : Nat} (t : Nat) (out : Option Content) (w : World) (h : BW R w) : BW R (rnsOut t out w) := by
  cases out <;> exact BW.of_recs h rfl rfl

theorem rnsOk_bw {R : Nat} (t : Nat) (w : World) (h : BW R w) : BW R (rnsOk R t w).2 := by
  unfold rnsOk
  dsimp only
  have hg : BR R (genRec (w.recs t)) := (h.2 t).congr rfl rfl rfl
  refine BW.setRec (BW.of_recs h rfl rfl) t ?_
  split
  · exact hg.congr rfl rfl rfl
  · exact ((hg.congr (r' := noCsum (genRec (w.recs t))) rfl rfl rfl).updateStamp w t).setChanged

theorem recordNewState_bw {R : Nat} (cx : Ctx) (hcx : cx.runid = R) (t : Nat) (sfPre : Rec) (hsf : BR R sfPre)
    (rv : Status) (out : Option Content) (w : World) (h : BW R w) :
    BW R (recordNewState cx t sfPre rv out w).2 := by
  rw [recordNewState_eq, hcx]
  split
  · exact rnsOk_bw t _ (rnsOut_bw t out w h)
  · exact BW.setRec (BW.of_recs h rfl rfl) t (hsf.setFailed w t)

theorem ssPhase1_bw {R : Nat} (t : Nat) (sf : Rec) (hsf : BR R sf) (w : World) (h : BW R w) :
    BR R (ssPhase1 R t sf w).1 ∧ BW R (ssPhase1 R t sf w).2 := by
  unfold ssPhase1
  dsimp only
  split
  · have hw : BW R (ev w (.warnOverride t)) := BW.of_recs h rfl rfl
    exact ⟨hsf.setOverride _ t, hw.setRec t (hsf.setOverride _ t)⟩
  · exact ⟨hsf, h⟩

theorem ssRun_bw {R : Nat} {E : Engine} (hE : EngBW R E) (d : Defects) (cx : Ctx) (hcx : cx.runid = R) (t : Nat)
    (sf : Rec) (hsf : BR R sf) (dof : Nat) (w : World) (h : BW R w) : BW R (ssRun E d cx t sf dof w).2 := by
  have h1 : BW R (ev (setRec w dof (setStatic w dof (w.recs dof) cx.runid)) (.ran t)) := by
    rw [hcx]; exact BW.of_recs (h.setRec dof ((h.2 dof).setStatic w dof)) rfl rfl
  have key : ∀ (sc : Script) (w1 : World), BW R w1 → BW R (match runScript E d cx t sc w1 with
      | (rv, out, w) => if rv = CRASHED then (CRASHED, w) else recordNewState cx t sf rv out w).2 := by
    intro sc w1 hw1
    have h3 := runScript_bw hE d cx hcx t sc w1 hw1
    generalize runScript E d cx t sc w1 = r at h3
    obtain ⟨rv, out, w2⟩ := r
    dsimp only at h3 ⊢
    split
    · exact h3
    · exact recordNewState_bw cx hcx t sf hsf rv out w2 h3
  exact key _ _ h1

theorem ssPhase2_bw {R : Nat} {E : Engine} (hE : EngBW R E) (d : Defects) (cx : Ctx) (hcx : cx.runid = R) (t : Nat)
    (sf : Rec) (hsf : BR R sf) (w : World) (h : BW R w) : BW R (ssPhase2 E d cx t sf w).2 := by
  unfold ssPhase2
  dsimp only
  rw [hcx]
  split
  · split
    · exact h.setRec t (hsf.setStatic w t)
    · exact h.setRec t hsf
  · have h1 := findDoFile_bw (R := R) t ((zapDeps1 w t).rules t) (zapDeps1 w t) (BW.of_recs h rfl rfl)
    generalize findDoFile t ((zapDeps1 w t).rules t) (zapDeps1 w t) = r at h1
    obtain ⟨o, w1⟩ := r
    cases o with
    | none =>
      dsimp only at h1 ⊢
      split
      · exact h1.setRec t (hsf.setStatic w1 t)
      · exact h1.setRec t (hsf.setFailed w1 t)
    | some dof => exact ssRun_bw hE d cx hcx t sf hsf dof w1 h1

theorem startSelf_bw {R : Nat} {E : Engine} (hE : EngBW R E) (d : Defects) (cx : Ctx) (hcx : cx.runid = R) (t : Nat)
    (sf0 : Rec) (hsf : BR R sf0) (w : World) (h : BW R w) : BW R (startSelf E d cx t sf0 w).2 := by
  rw [startSelf_eq2, hcx]
  obtain ⟨h1, h2⟩ := ssPhase1_bw t sf0 hsf w h
  exact ssPhase2_bw hE d cx hcx t _ h1 _ h2

theorem oobRun_bw {R : Nat} {E : Engine} (hE : EngBW R E) (d : Defects) (cx : Ctx) (hcx : cx.runid = R) (t : Nat)
    (ts : List Nat) (w : World) (h : BW R w) : BW R (oobRun E d cx t ts w).2 := by
  unfold oobRun
  have h1 := hE (oobCx1 d cx t) (oobOrder w ts) w hcx h
  generalize E.ifchangeCmd (oobCx1 d cx t) (oobOrder w ts) w = r at h1
  obtain ⟨rv, w1⟩ := r
  split
  · rename_i heq; cases heq
    exact hE (oobCx2 cx) _ _ hcx h1
  · rename_i heq; cases heq; exact h1

theorem buildJob_bw {R : Nat} {E : Engine} (hE : EngBW R E) (d : Defects) (cx : Ctx) (hcx : cx.runid = R)
    (fuel t : Nat) (w : World) (h : BW R w) : BW R (buildJob E d cx fuel t w).2 := by
  rw [buildJob_eq]
  have h1 := shouldBuild_bw cx hcx fuel t w h
  generalize shouldBuild cx fuel t w = r at h1
  obtain ⟨o, w1⟩ := r
  cases o with
  | none => exact h1
  | some dr =>
    cases dr with
    | cyclic => exact h1
    | clean => exact h1
    | dirty => exact startSelf_bw hE d cx hcx t _ (h.2 t) w1 h1
    | need ts =>
      dsimp only
      split
      · exact startSelf_bw hE d cx hcx t _ (h.2 t) w1 h1
      · exact oobRun_bw hE d cx hcx t ts w1 h1

theorem runTargets_bw {R : Nat} {E : Engine} (hE : EngBW R E) (d : Defects) (cx : Ctx) (hcx : cx.runid = R)
    (fuel : Nat) : ∀ (ts seen : List Nat) (errored : Bool) (w : World), BW R w →
      BW R (runTargets E d cx fuel ts seen errored w).2
  | [], seen, errored, w, h => by rw [runTargets]; exact h
  | t :: ts, seen, errored, w, h => by
    rw [runTargets]
    split
    · exact runTargets_bw hE d cx hcx fuel ts seen errored w h
    split
    · exact h
    dsimp only
    split
    · exact h.addKnown t
    have h1 := buildJob_bw hE d cx hcx fuel t _ (h.addKnown t)
    generalize buildJob E d cx fuel t (addKnown w t) = r at h1
    obtain ⟨jr, w1⟩ := r
    cases jr with
    | abort code => exact h1
    | done rv =>
      dsimp only
      split
      · exact h1
      · exact runTargets_bw hE d cx hcx fuel ts (t :: seen) _ w1 h1

theorem ifchangeWith_bw {R : Nat} {E : Engine} (hE : EngBW R E) (d : Defects) (fuel : Nat) (cx : Ctx)
    (hcx : cx.runid = R) (ts : List Nat) (w : World) (h : BW R w) : BW R (ifchangeWith E d fuel cx ts w).2 := by
  unfold ifchangeWith
  cases hp : cx.parent with
  | none =>
    simp only [Bool.false_eq_true, if_false]
    exact runTargets_bw hE d cx hcx fuel ts [] false w h
  | some p =>
    dsimp only
    split
    · exact h
    · apply runTargets_bw hE d cx hcx
      split
      · exact h
      · exact foldl_addDep_bw _ true ts _ (h.addKnown _)

theorem engine_bw (R : Nat) (d : Defects) : ∀ n, EngBW R (engine d n)
  | 0 => fun _ _ _ _ h => h
  | n + 1 => fun cx ts w hcx h => by
    simp only [engine]
    exact ifchangeWith_bw (engine_bw R d n) d (n + 1) cx hcx ts w h

/-! ### Top-level commands and user operations -/

theorem WF_alloc {w : World} (hwf : WF w) : BW (w.runCounter + 1) { w with runCounter := w.runCounter + 1 } :=
  ⟨Nat.le_refl _, fun f => BR.mono (r := w.recs f) (hwf f) (Nat.le_succ _)⟩

theorem WF_of_BW {R : Nat} {w : World} (h : BW R w) : WF w :=
  fun f => BR.mono (h.2 f) h.1

/-- Every build command keeps the world well-formed. -/
theorem WF_runTargets (d : Defects) (cx : Ctx) (fuel n : Nat) (ts : List Nat) (w : World) (hwf : WF w)
    (hcx : cx.runid = w.runCounter + 1) :
    WF (runTargets (engine d n) d cx fuel ts [] false { w with runCounter := w.runCounter + 1 }).2 :=
  WF_of_BW (runTargets_bw (engine_bw _ d n) d cx hcx fuel ts [] false _ (WF_alloc hwf))

theorem WF_of_recs {w w' : World} (hwf : WF w) (he : w'.recs = w.recs) (hrc : w'.runCounter = w.runCounter) : WF w' := by
  intro f; rw [he, hrc]; exact hwf f

/-- Well-formedness is an invariant of every user operation and command. -/
theorem WF_applyOp (d : Defects) (n : Nat) (op : UserOp) (w : World) (hwf : WF w) : WF (applyOp d n op w).2 := by
  cases op with
  | write f v => exact WF_of_recs hwf rfl rfl
  | remove f => exact WF_of_recs hwf rfl rfl
  | chmod f =>
    simp only [applyOp]
    split
    · exact WF_of_recs hwf rfl rfl
    · exact hwf
  | hide f =>
    simp only [applyOp]
    split
    · exact WF_of_recs hwf rfl rfl
    · exact hwf
  | unhide f =>
    simp only [applyOp]
    split
    · exact WF_of_recs hwf rfl rfl
    · exact hwf
  | setProg c s => exact WF_of_recs hwf rfl rfl
  | crashCmd ts t k => exact WF_runTargets d _ _ _ ts w hwf rfl
  | cmd c =>
    cases c with
    | redo ts kg => exact WF_runTargets d _ _ _ ts w hwf rfl
    | ifchange ts kg => exact WF_runTargets d _ _ _ ts w hwf rfl
    | ood => exact WF_query d n w hwf .ood (.inl rfl)
    | targets => exact WF_query d n w hwf .targets (.inr (.inl rfl))
    | sources => exact WF_query d n w hwf .sources (.inr (.inr rfl))

/-- Every world reachable from the initial one is well-formed. -/
theorem WF_reachable (d : Defects) (n : Nat) (rules : Nat → List Nat) (ops : List UserOp) :
    WF (ops.foldl (fun w op => (applyOp d n op w).2) (initWorld rules)) := by
  suffices h : ∀ w, WF w → WF (ops.foldl (fun w op => (applyOp d n op w).2) w) from h _ (WF_initWorld rules)
  induction ops with
  | nil => exact fun _ h => h
  | cons op ops ih => exact fun w h => ih _ (WF_applyOp d n op w h)

end RedoModel.Deps
