import RedoModel.Lemmas.DepsSoundR9
/-! The dirtiness check: frame `DExt`, snapshot relation, specification of `goDeps` and `isDirty`. -/
namespace RedoModel.Deps.Rich

/-- Frame of the dirtiness check of a file of rank `< b`, whatever its verdict. -/
structure DExt (rank : Nat → Nat) (R b : Nat) (w w' : World) : Prop where
  same : SameButRecs w w'
  above : ∀ x, b ≤ rank x → w'.recs x = w.recs x
  ver : ∀ x, VerR w R x → VerR w' R x ∧ genT (w'.recs x) = genT (w.recs x)
  stat : ∀ x, RecCur w x → genT (w.recs x) = false → RecCur w' x ∧ genT (w'.recs x) = false
  fail : ∀ x, (w'.recs x).failed = (w.recs x).failed ∨ (w'.recs x).failed = some 0

theorem DExt.refl (rank R b w) : DExt rank R b w w :=
  ⟨SameButRecs.refl w, fun _ _ => rfl, fun _ h => ⟨h, rfl⟩, fun _ h1 h2 => ⟨h1, h2⟩, fun _ => Or.inl rfl⟩

theorem DExt.trans {rank R b w w' w''} (h1 : DExt rank R b w w') (h2 : DExt rank R b w' w'') : DExt rank R b w w'' :=
  ⟨h1.same.trans h2.same, fun x hx => (h2.above x hx).trans (h1.above x hx),
   fun x hv => ⟨(h2.ver x (h1.ver x hv).1).1, (h2.ver x (h1.ver x hv).1).2.trans (h1.ver x hv).2⟩,
   fun x hc hg => h2.stat x (h1.stat x hc hg).1 (h1.stat x hc hg).2,
   fun x => by
    rcases h2.fail x with e2 | e2
    · rcases h1.fail x with e1 | e1
      · exact Or.inl (e2.trans e1)
      · exact Or.inr (e2.trans e1)
    · exact Or.inr e2⟩

theorem DExt.mono {rank R b b' w w'} (h : DExt rank R b w w') (hb : b ≤ b') : DExt rank R b' w w' :=
  ⟨h.same, fun x hx => h.above x (Nat.le_trans hb hx), h.ver, h.stat, h.fail⟩

theorem CkExt.toDExt {rank R b w w'} (h : CkExt rank R b w w') : DExt rank R b w w' :=
  ⟨h.1, fun _ hx => h.above hx, fun x hv => ⟨VerR_ext h hv, h.genT x⟩,
   fun x hc hg => ⟨(RecCur_ext h x).2 hc, by rw [h.genT]; exact hg⟩,
   fun x => Or.inl (h.fields x).1⟩

/-- The copy `r` of the record of `f` that the check works on agrees with the database except perhaps for an
older `checked` (and the synthetic `changed` of `//ALWAYS`). -/
structure Snap (w : World) (R f : Nat) (r : Rec) : Prop where
  failed : r.failed = (w.recs f).failed
  stamp : r.stamp = (w.recs f).stamp
  gen : r.isGenerated = (w.recs f).isGenerated
  ovr : r.isOverride = (w.recs f).isOverride
  csum : r.csum = (w.recs f).csum
  row : r.row = (w.recs f).row
  changed : f ≠ alwaysId → r.changed = (w.recs f).changed
  changed0 : f = alwaysId → r.changed = some (match (w.recs f).changed with
      | some c => max R c
      | none => R)
  checked : r.checked = (w.recs f).checked ∨ (w.recs f).checked = some R
  ckLe : ∀ c, r.checked = some c → c ≤ R

theorem Snap.getRec {rank R w} (hb : Base rank R X w) (f : Nat) : Snap w R f (getRec w R f) := by
  unfold Deps.getRec
  split
  · exact ⟨rfl, rfl, rfl, rfl, rfl, rfl, fun h => absurd ‹_› h, fun _ => rfl, Or.inl rfl, hb.ckLe f⟩
  · exact ⟨rfl, rfl, rfl, rfl, rfl, rfl, fun _ => rfl, fun h => absurd h ‹_›, Or.inl rfl, hb.ckLe f⟩

theorem Snap.ext {rank R b w w' f r} (hs : Snap w R f r) (h : CkExt rank R b w w') : Snap w' R f r := by
  obtain ⟨f1, f2, f3, f4, f5, f6, f7⟩ := h.fields f
  refine ⟨by rw [f1]; exact hs.failed, by rw [f3]; exact hs.stamp, by rw [f4]; exact hs.gen,
    by rw [f5]; exact hs.ovr, by rw [f6]; exact hs.csum, ?_, fun h0 => by rw [f2]; exact hs.changed h0,
    fun h0 => by rw [f2]; exact hs.changed0 h0, ?_, ?_⟩
  · rcases h.2 f with e | ⟨_, e⟩ <;> rw [e] <;> exact hs.row
  · rcases f7 with e | e
    · rw [e]; exact hs.checked
    · exact Or.inr e
  · exact hs.ckLe

/-- What a non-clean verdict may have done to the record of the file itself. -/
def OwnRel (w w' : World) (f : Nat) : Prop :=
  w'.recs f = w.recs f ∨
  (w'.recs f = { w.recs f with isGenerated := false, isOverride := false, failed := some 0 } ∧ w.fs f = none ∧
    (w.recs f).stamp ≠ some .missing)

def ChkPost (rank : Nat → Nat) (X : Nat → Prop) (R mx f : Nat) (w : World) (res : DR × World × List Nat) : Prop :=
  Inv rank R X res.2.1 ∧ DExt rank R (rank f + 1) w res.2.1 ∧ (∀ ts, res.1 ≠ .need ts) ∧
  (res.1 = .clean → CkExt rank R (rank f + 1) w res.2.1 ∧ VerR res.2.1 R f ∧ ¬ DetectM w mx f) ∧
  (res.1 ≠ .clean → OwnRel w res.2.1 f)

/-- The `//ALWAYS` record is only walked with `mx ≥ R` when it is verified in this run (then its `changed` is `R`). -/
def A0 (w : World) (R mx s : Nat) : Prop := s = alwaysId → R ≤ mx → VerR w R alwaysId

theorem A0.ext {rank R b w w' mx s} (h : A0 w R mx s) (hc : CkExt rank R b w w') : A0 w' R mx s :=
  fun e hm => VerR_ext hc (h e hm)

def ChkSpec (rank : Nat → Nat) (X : Nat → Prop) (R mx : Nat) (chk : World → List Nat → Nat → Rec → DR × World × List Nat) : Prop :=
  ∀ w cache s snap, Inv rank R X w → Snap w R s snap → (∀ x, X x → rank s < rank x) → A0 w R mx s →
    ChkPost rank X R mx s w (chk w cache s snap)

/-- Outcome of the loop over recorded rows. -/
def GoPost (rank : Nat → Nat) (X : Nat → Prop) (R mx b : Nat) (ds : List (Dep × Rec)) (w : World)
    (res : Option DR × World × List Nat) : Prop :=
  Inv rank R X res.2.1 ∧ DExt rank R b w res.2.1 ∧
  (res.1 = some .dirty ∨ res.1 = some .cyclic ∨
    (res.1 = none ∧ CkExt rank R b w res.2.1 ∧ ∀ p ∈ ds,
      (p.1.modeM = true → VerR res.2.1 R p.1.source ∧ ¬ DetectM res.2.1 mx p.1.source) ∧
      (p.1.modeM = false → existsF res.2.1 p.1.source = false)))

theorem GoPost.step {rank R mx b d snap ds w w1 res} (h1 : CkExt rank R b w w1)
    (hd : (d.modeM = true → VerR w1 R d.source ∧ ¬ DetectM w1 mx d.source) ∧
      (d.modeM = false → existsF w1 d.source = false))
    (h : GoPost rank X R mx b ds w1 res) : GoPost rank X R mx b ((d, snap) :: ds) w res := by
  obtain ⟨hi, hdx, hr⟩ := h
  refine ⟨hi, h1.toDExt.trans hdx, ?_⟩
  rcases hr with hr | hr | ⟨hn, hck, hall⟩
  · exact Or.inl hr
  · exact Or.inr (Or.inl hr)
  · refine Or.inr (Or.inr ⟨hn, h1.trans hck, ?_⟩)
    intro p hp
    rcases List.mem_cons.1 hp with rfl | hp
    · exact ⟨fun hm => ⟨VerR_ext hck (hd.1 hm).1, fun hdt => (hd.1 hm).2 ((DetectM_ext hck _ _).1 hdt)⟩,
        fun hm => by rw [hck.existsF]; exact hd.2 hm⟩
    · exact hall p hp

theorem goDeps_spec {rank R mx} (chk : World → List Nat → Nat → Rec → DR × World × List Nat)
    (hchk : ChkSpec rank X R mx chk) (f b : Nat) (hXb : ∀ x, X x → b ≤ rank x) :
    ∀ (ds : List (Dep × Rec)) (w : World) (cache : List Nat), Inv rank R X w →
      (∀ p ∈ ds, Snap w R p.1.source p.2 ∧ rank p.1.source < b ∧ (p.1.modeM = true → A0 w R mx p.1.source)) →
      GoPost rank X R mx b ds w (goDeps chk false f ds w cache [])
  | [], w, cache, hi, _ => by
    simp only [goDeps, List.isEmpty_nil, if_true]
    exact ⟨hi, DExt.refl _ _ _ _, Or.inr (Or.inr ⟨rfl, CkExt.refl _ _ _ _, fun p hp => by simp at hp⟩)⟩
  | (d, snap) :: ds, w, cache, hi, hds => by
    obtain ⟨hsn, hrk, ha0⟩ := hds (d, snap) (by simp)
    have hrest : ∀ w1, CkExt rank R b w w1 →
        ∀ p ∈ ds, Snap w1 R p.1.source p.2 ∧ rank p.1.source < b ∧ (p.1.modeM = true → A0 w1 R mx p.1.source) :=
      fun w1 h1 p hp => ⟨(hds p (List.mem_cons_of_mem _ hp)).1.ext h1, (hds p (List.mem_cons_of_mem _ hp)).2.1,
        fun hm => ((hds p (List.mem_cons_of_mem _ hp)).2.2 hm).ext h1⟩
    rw [goDeps]
    by_cases hm : d.modeM = true
    · simp only [hm, if_true]
      have h1 := hchk w cache d.source snap hi hsn (fun x hx => Nat.lt_of_lt_of_le hrk (hXb x hx)) (ha0 hm)
      generalize chk w cache d.source snap = r at h1
      obtain ⟨sub, w1, c1⟩ := r
      obtain ⟨hi1, hdx, hnn, hcl, _⟩ := h1
      cases sub with
      | cyclic => exact ⟨hi1, hdx.mono hrk, Or.inr (Or.inl rfl)⟩
      | dirty => exact ⟨hi1, hdx.mono hrk, Or.inl rfl⟩
      | need ts => exact absurd rfl (hnn ts)
      | clean =>
        obtain ⟨hck, hv, hnd⟩ := hcl rfl
        have hck' : CkExt rank R b w w1 := hck.mono hrk
        refine GoPost.step hck' ⟨fun _ => ⟨hv, fun h => hnd ((DetectM_ext hck _ _).1 h)⟩, fun h => ?_⟩
          (goDeps_spec chk hchk f b hXb ds w1 c1 hi1 (hrest w1 hck'))
        rw [hm] at h; cases h
    · have hm' : d.modeM = false := by simpa using hm
      simp only [hm', Bool.false_eq_true, if_false]
      cases hex : existsF w d.source with
      | true => exact ⟨hi, DExt.refl _ _ _ _, Or.inl rfl⟩
      | false =>
        refine GoPost.step (CkExt.refl _ _ _ _) ⟨fun h => ?_, fun _ => hex⟩
          (goDeps_spec chk hchk f b hXb ds w cache hi (hrest w (CkExt.refl _ _ _ _)))
        rw [hm'] at h; cases h

theorem ne_always_of_gen {rank R w f} (hb : Base rank R X w) (hg : genT (w.recs f) = true) : f ≠ alwaysId := by
  intro e; subst e
  rw [genT_of_gen_false hb.rec0.gen] at hg; cases hg

theorem ne_always_of_rawgen {rank R w f} (hb : Base rank R X w) (hg : (w.recs f).isGenerated = true) :
    f ≠ alwaysId := by
  intro e; subst e
  rw [hb.rec0.gen] at hg; cases hg

theorem CkExt.ev (rank : Nat → Nat) (R b : Nat) (w : World) (e : Ev) : CkExt rank R b w (ev w e) :=
  ⟨SameButRecs.ev w e, fun _ => Or.inl rfl⟩

theorem Snap.eq_of_checked {w R f r} (hs : Snap w R f r) (h7 : r.changed = (w.recs f).changed)
    (hc : r.checked = (w.recs f).checked) :
    r = w.recs f := by
  have h1 := hs.failed; have h2 := hs.stamp; have h3 := hs.gen; have h4 := hs.ovr
  have h5 := hs.csum; have h6 := hs.row
  generalize w.recs f = c at *
  cases r; cases c; simp_all

theorem Snap.withChecked {w R f r} (hs : Snap w R f r) (h7 : r.changed = (w.recs f).changed) (x : Option Nat) :
    { r with checked := x } = { w.recs f with checked := x } := by
  have h1 := hs.failed; have h2 := hs.stamp; have h3 := hs.gen; have h4 := hs.ovr
  have h5 := hs.csum; have h6 := hs.row
  generalize w.recs f = c at *
  cases r; cases c; simp_all

theorem mem_depsOf {w : World} {r : Rec} {f : Nat} {d : Dep} :
    d ∈ depsOf w r f ↔ (r.isOverride = false ∧ r.isGenerated = true) ∧ d ∈ w.deps ∧ d.target = f := by
  unfold depsOf
  split
  · rename_i h
    simp only [Bool.or_eq_true, Bool.not_eq_true'] at h
    constructor
    · intro hd; simp at hd
    · rintro ⟨⟨h1, h2⟩, _⟩
      rcases h with h | h
      · rw [h1] at h; cases h
      · rw [h2] at h; cases h
  · rename_i h
    simp only [Bool.or_eq_true, Bool.not_eq_true', not_or, Bool.not_eq_true, Bool.not_eq_false] at h
    rw [List.mem_mergeSort, List.mem_filter]
    simp [h.1, h.2]

/-- The copy's `changed` is at least the recorded one; for `//ALWAYS` it is at least `R`. -/
theorem Snap.chGe {R w f r c} (hs : Snap w R f r) (hc : (w.recs f).changed = some c) :
    ∃ ch, r.changed = some ch ∧ c ≤ ch ∧ (f = alwaysId → R ≤ ch) := by
  by_cases h0 : f = alwaysId
  · refine ⟨max R c, ?_, Nat.le_max_right _ _, fun _ => Nat.le_max_left _ _⟩
    rw [hs.changed0 h0, hc]
  · exact ⟨c, by rw [hs.changed h0, hc], Nat.le_refl _, fun e => absurd e h0⟩

theorem Snap.chLe {rank R w f r ch} (hb : Base rank R X w) (hs : Snap w R f r) (hch : r.changed = some ch) : ch ≤ R := by
  by_cases h0 : f = alwaysId
  · have h1 := hs.changed0 h0
    rw [hch] at h1
    cases hc : (w.recs f).changed with
    | none => rw [hc] at h1; simp only [Option.some.injEq] at h1; omega
    | some c =>
      rw [hc] at h1; simp only [Option.some.injEq] at h1
      have := hb.chLe f c hc; omega
  · exact hb.chLe f ch (by rw [← hs.changed h0]; exact hch)

/-- When the copy of the `//ALWAYS` record is not newer than `mx` and `A0` holds, the copy's `changed` is the
recorded one (`R`). -/
theorem Snap.changed_eq {rank R w f r ch mx} (hb : Base rank R X w) (hs : Snap w R f r) (hch : r.changed = some ch)
    (hle : ¬ ch > mx) (ha : A0 w R mx f) : r.changed = (w.recs f).changed := by
  by_cases h0 : f = alwaysId
  · subst h0
    have h1 := hs.changed0 rfl
    have hR : R ≤ mx := by
      rw [hch] at h1
      cases hc : (w.recs alwaysId).changed with
      | none => rw [hc] at h1; simp only [Option.some.injEq] at h1; omega
      | some c => rw [hc] at h1; simp only [Option.some.injEq] at h1; omega
    have hv := ha rfl hR
    have hc : (w.recs alwaysId).changed = some R := by
      rcases hv.2 with h | h
      · exact hb.rec0.ck h
      · exact h
    rw [h1, hc]; simp
  · exact hs.changed h0

end RedoModel.Deps.Rich
