import RedoModel.Lemmas.DepsCsum3
import RedoModel.Lemmas.DepsFuel1
/-!
# C03 — checksum cut-off, part 4: the out-of-band path (`redo-unlocked`)

When `should_build t` answers `need ts`, the job runs `redo-ifchange ts` (no parent, no further OOB), and, if
that exits 0, `redo-ifchange t` *unlocked*: the decision for `t` is taken again, now that the checksummed
dependencies are up to date.  The cut-off and the forwarding theorems apply to that second decision.
-/
namespace RedoModel.Deps
open RedoModel.Generated

/-- The order in which `redo-unlocked` is handed the dependencies. -/
def oobOrder (w : World) (ts : List Nat) : List Nat := if w.oobRev then ts.eraseDups.reverse else ts.eraseDups

/-- Environment of the first phase: rebuild the checksummed dependencies, declared on nobody. -/
def oobCx1 (cx : Ctx) (t : Nat) : Ctx := { cx with noOob := true, unlocked := false, isRedo := false, cycles := t :: cx.cycles, parent := none }

/-- Environment of the second phase: decide `t` again, unlocked. -/
def oobCx2 (cx : Ctx) : Ctx := { cx with noOob := true, unlocked := true, isRedo := false }

/-- The out-of-band path of a job for `t`, from the world `w` left by `should_build`. -/
def oobPath (E : Engine) (cx : Ctx) (t : Nat) (ts : List Nat) (w : World) : JobResult × World :=
  let r := E.ifchangeCmd (oobCx1 cx t) (oobOrder w ts) w
  if r.1 = 0 then (.done (E.ifchangeCmd (oobCx2 cx) [t] r.2).1, (E.ifchangeCmd (oobCx2 cx) [t] r.2).2)
  else (.done r.1, r.2)

/-- **The out-of-band decision.**  With the defect switches off and OOB allowed, a `need ts` verdict makes the job
exactly: `redo-ifchange ts`, then (if 0) `redo-ifchange t` unlocked, whose status is the job's. -/
theorem buildJob_need (E : Engine) (d : Defects) (cx : Ctx) (fuel t : Nat) (w : World) (ts : List Nat)
    (hno : cx.noOob = false) (hd1 : d.oobRecordsDepsOnCaller = false) (hd2 : d.oobRebuildsDepsNotTarget = false)
    (hs : (shouldBuild cx fuel t w).1 = some (.need ts)) :
    buildJob E d cx fuel t w = oobPath E cx t ts (shouldBuild cx fuel t w).2 := by
  unfold buildJob oobPath oobOrder oobCx1 oobCx2
  dsimp only
  generalize shouldBuild cx fuel t w = sb at hs ⊢
  obtain ⟨o, w1⟩ := sb
  dsimp only at hs
  subst hs
  simp only [hno, hd1, hd2, Bool.false_eq_true, if_false]
  generalize E.ifchangeCmd _ _ w1 = r
  obtain ⟨rv, w2⟩ := r
  by_cases hrv : rv = 0
  · subst hrv; simp
  · simp only [hrv, if_false]

theorem oobPath_first_fails (E : Engine) (cx : Ctx) (t : Nat) (ts : List Nat) (w : World) (rv : Status) (w2 : World)
    (h1 : E.ifchangeCmd (oobCx1 cx t) (oobOrder w ts) w = (rv, w2)) (hrv : rv ≠ 0) :
    oobPath E cx t ts w = (.done rv, w2) := by
  unfold oobPath
  simp [h1, hrv]

theorem oobPath_first_ok (E : Engine) (cx : Ctx) (t : Nat) (ts : List Nat) (w : World) (w2 : World)
    (h1 : E.ifchangeCmd (oobCx1 cx t) (oobOrder w ts) w = (0, w2)) :
    oobPath E cx t ts w = (.done (E.ifchangeCmd (oobCx2 cx) [t] w2).1, (E.ifchangeCmd (oobCx2 cx) [t] w2).2) := by
  unfold oobPath
  simp [h1]

theorem engine_cmd_eq (d : Defects) (n : Nat) (cx : Ctx) (ts : List Nat) (w : World) :
    (engine d (n + 1)).ifchangeCmd cx ts w = ifchangeWith (engine d n) d (n + 1) cx ts w := rfl

/-- A source rebuilt in this run with a changed checksum (`changed = R`) is newer than the mark of any
dependent whose record is from before the run. -/
theorem changedDep_of_changed_now (w : World) (R t : Nat) (d0 : Dep) (hcur : CurrentBefore w R t)
    (hm : d0.modeM = true) (h0 : d0.source ≠ alwaysId) (hne : d0.source ≠ t)
    (hch : (w.recs d0.source).changed = some R) : ChangedDep w t d0 :=
  ⟨hm, h0, hne, R, hch, hcur.mark_lt⟩

/-- **The cut-off survives the out-of-band path.**  `should_build t` asked for `ts`; the first phase
(`redo-ifchange ts`) exited 0 leaving `w2`, in which `t`'s record is still current and every row of `t` is quiet or
points to a source checked / rebuilt with unchanged checksum in this run: the second phase finds `t` clean, the
job is done with status 0, and nothing ran after the first phase. -/
theorem need_then_recheck_cutoff (d : Defects) (n : Nat) (hn : 0 < n) (cx : Ctx) (fuel t : Nat) (w : World)
    (ts : List Nat) (w2 : World)
    (hno : cx.noOob = false) (hd1 : d.oobRecordsDepsOnCaller = false) (hd2 : d.oobRebuildsDepsNotTarget = false)
    (hs : (shouldBuild cx fuel t w).1 = some (.need ts))
    (h1 : (engine d (n + 1)).ifchangeCmd (oobCx1 cx t) (oobOrder (shouldBuild cx fuel t w).2 ts)
      (shouldBuild cx fuel t w).2 = (0, w2))
    (hR : cx.runid ≠ 0) (ht : t ≠ alwaysId) (hcur : CurrentBefore w2 cx.runid t)
    (hq : ∀ d0 ∈ w2.deps, d0.target = t → QuietDep w2 t d0 ∨ MemoDep w2 cx.runid t d0) :
    (buildJob (engine d (n + 1)) d cx fuel t w).1 = .done 0 ∧
    QuietExt w2 (buildJob (engine d (n + 1)) d cx fuel t w).2 := by
  rw [buildJob_need _ d cx fuel t w ts hno hd1 hd2 hs, oobPath_first_ok _ cx t ts _ w2 h1, engine_cmd_eq]
  have key := ifchangeWith_cutoff (engine d n) d n hn (oobCx2 cx) t w2 (Or.inr rfl) (Or.inl rfl) rfl hR ht hcur hq
  exact ⟨by rw [key.1], key.2⟩

/-- **A changed checksum is forwarded through the out-of-band path.**  Same setting, but in `w2` some source of
`t` has `changed` newer than `t`'s mark (e.g. a member of `ts` whose checksum changed: `changed = R`): the job's
status is the cyclic one, or `t`'s script ran in the second phase. -/
theorem need_then_recheck_changed (d : Defects) (n : Nat) (cx : Ctx) (fuel t : Nat) (w : World)
    (ts : List Nat) (w2 : World)
    (hno : cx.noOob = false) (hd1 : d.oobRecordsDepsOnCaller = false) (hd2 : d.oobRebuildsDepsNotTarget = false)
    (hs : (shouldBuild cx fuel t w).1 = some (.need ts))
    (h1 : (engine d (n + 2)).ifchangeCmd (oobCx1 cx t) (oobOrder (shouldBuild cx fuel t w).2 ts)
      (shouldBuild cx fuel t w).2 = (0, w2))
    (ht : t ≠ alwaysId) (hcur : CurrentBefore w2 cx.runid t)
    (d0 : Dep) (hd : d0 ∈ w2.deps) (hdt : d0.target = t) (hfire : ChangedDep w2 t d0)
    (hdo : ∃ c ∈ w2.rules t, existsF w2 c = true) :
    (buildJob (engine d (n + 2)) d cx fuel t w).1 = .done EXIT_CYCLIC_DEPENDENCY ∨
    ((∃ rv, (buildJob (engine d (n + 2)) d cx fuel t w).1 = .done rv) ∧
      RanIn t w2 (buildJob (engine d (n + 2)) d cx fuel t w).2) := by
  rw [buildJob_need _ d cx fuel t w ts hno hd1 hd2 hs, oobPath_first_ok _ cx t ts _ w2 h1, engine_cmd_eq]
  rcases ifchangeWith_changed (engine d (n + 1)) (engine_traceExt d _) d n (oobCx2 cx) t w2 (Or.inr rfl) (Or.inl rfl)
    rfl ht hcur d0 hd hdt hfire hdo with h | h
  · left; rw [h]
  · right; exact ⟨⟨_, rfl⟩, h⟩

/-- Without checksums `should_build` never asks for the out-of-band path. -/
theorem shouldBuild_nocsum (cx : Ctx) (fuel t : Nat) (w : World) (h : NoCsum w) (ts : List Nat) :
    (shouldBuild cx fuel t w).1 ≠ some (.need ts) := by
  have key := (isDirty_nocsum false cx.runid fuel w [] t cx.runid [] none h (fun r e => by cases e)).2
  unfold shouldBuild
  split
  · simp
  · dsimp only
    split
    · simp
    · generalize isDirty false cx.runid fuel w [] t cx.runid [] none = res at key
      obtain ⟨dr, w', c'⟩ := res
      dsimp only at key ⊢
      cases dr with
      | need xs => exact absurd rfl (key xs)
      | clean => simp
      | dirty => simp
      | cyclic => simp

end RedoModel.Deps
