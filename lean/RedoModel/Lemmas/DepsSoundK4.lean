import RedoModel.Lemmas.DepsSoundK3
/-! Killed builds: `ssBuild` and `startSelf` with the outcome "killed". -/
namespace RedoModel.Deps
open RedoModel.Generated

/-- After the preparation of the build of `t` (rows flagged, .do file found and re-declared) the old record
of `t` still keeps its promise, when `t` has a single .do candidate. -/
theorem prep_keepT {rank R t w} (hS : SingleDo w.rules) (hi : Inv rank R NoX w) (dof : Nat)
    (h : (findDoFile t ((zapDeps1 w t).rules t) (zapDeps1 w t)).1 = some dof) :
    KeepT (findDoFile t ((zapDeps1 w t).rules t) (zapDeps1 w t)).2 t := by
  have hS1 : SingleDo (zapDeps1 w t).rules := hS
  rw [findDoFile_single (hS1 t) h]
  exact KeepT_addDep hS1 (KeepT_zapDeps1 hS (hi.base.keepT (fun hx => hx)))

theorem ssBuildK_spec {rank R E t w b} {cx : Ctx} (hE : ESpecK rank R E) (d : Defects)
    (hcx : cx.runid = R) (hS : SingleDo w.rules) (hi : Inv rank R NoX w) (hng : ¬ Good w R t)
    (hlt : rank t < b) (po : Option Nat) :
    Killed rank R w (ssBuild E d cx t (w.recs t) w) ∨ JobPostW rank R NoX t b po w (ssBuild E d cx t (w.recs t) w) := by
  subst hcx
  obtain ⟨p1, p2, p3, p4, p5⟩ := ssb_prep hi hng
  have pk := prep_keepT (t := t) hS hi
  unfold ssBuild
  simp only
  generalize findDoFile t ((zapDeps1 w t).rules t) (zapDeps1 w t) = fr at p1 p2 p3 p4 p5 pk ⊢
  obtain ⟨o, w2⟩ := fr
  dsimp only at p1 p2 p3 p4 p5 pk
  cases o with
  | none =>
    simp only
    exact Or.inr (ssb_none hng p2 p3 hlt).weak
  | some dof =>
    simp only
    have hi2 : Inv rank cx.runid NoX w2 := p2.release (pk dof rfl)
    have hS2 : SingleDo w2.rules := by rw [p3.rules]; exact hS
    have ran := ssb_scriptK (E := E) (cx := cx) hE rfl hS2 hi2 (fun h => hng ((p3.good _ t).1 h))
      (dof := dof) (by rw [p3.rules]; exact (firstEx_mem _ _ p1.symm).1)
      (by rw [p3.existsF]; exact (firstEx_mem _ _ p1.symm).2)
    have hpl : (scriptAt (ev (setRec w2 dof (setStatic w2 dof (w2.recs dof) cx.runid)) (Ev.ran t)) dof).Plain :=
      scriptAt_plain ((WEqv.ev _ _).inv (setStatic_spec (b := rank t) (po := some t) hi2
        (by rw [p3.existsF]; exact (firstEx_mem _ _ p1.symm).2)
        (fun _ => hi2.base.srcNotGen dof ((hi2.base.rulesOk.2 t dof (by rw [p3.rules]; exact (firstEx_mem _ _ p1.symm).1)).1))
        (hi2.base.ranked.1 t dof (by rw [p3.rules]; exact (firstEx_mem _ _ p1.symm).1))).1).base dof
    show Killed rank cx.runid w
      (if (runScript E d cx t (scriptAt (ev (setRec w2 dof (setStatic w2 dof (w2.recs dof) cx.runid)) (Ev.ran t)) dof)
            (ev (setRec w2 dof (setStatic w2 dof (w2.recs dof) cx.runid)) (Ev.ran t))).fst = CRASHED then
        (CRASHED, (runScript E d cx t (scriptAt (ev (setRec w2 dof (setStatic w2 dof (w2.recs dof) cx.runid)) (Ev.ran t)) dof)
            (ev (setRec w2 dof (setStatic w2 dof (w2.recs dof) cx.runid)) (Ev.ran t))).2.snd)
      else recordNewState cx t (w.recs t)
        (runScript E d cx t (scriptAt (ev (setRec w2 dof (setStatic w2 dof (w2.recs dof) cx.runid)) (Ev.ran t)) dof)
            (ev (setRec w2 dof (setStatic w2 dof (w2.recs dof) cx.runid)) (Ev.ran t))).fst
        (runScript E d cx t (scriptAt (ev (setRec w2 dof (setStatic w2 dof (w2.recs dof) cx.runid)) (Ev.ran t)) dof)
            (ev (setRec w2 dof (setStatic w2 dof (w2.recs dof) cx.runid)) (Ev.ran t))).2.fst
        (runScript E d cx t (scriptAt (ev (setRec w2 dof (setStatic w2 dof (w2.recs dof) cx.runid)) (Ev.ran t)) dof)
            (ev (setRec w2 dof (setStatic w2 dof (w2.recs dof) cx.runid)) (Ev.ran t))).2.snd) ∨
      JobPostW rank cx.runid NoX t b po w
      (if (runScript E d cx t (scriptAt (ev (setRec w2 dof (setStatic w2 dof (w2.recs dof) cx.runid)) (Ev.ran t)) dof)
            (ev (setRec w2 dof (setStatic w2 dof (w2.recs dof) cx.runid)) (Ev.ran t))).fst = CRASHED then
        (CRASHED, (runScript E d cx t (scriptAt (ev (setRec w2 dof (setStatic w2 dof (w2.recs dof) cx.runid)) (Ev.ran t)) dof)
            (ev (setRec w2 dof (setStatic w2 dof (w2.recs dof) cx.runid)) (Ev.ran t))).2.snd)
      else recordNewState cx t (w.recs t)
        (runScript E d cx t (scriptAt (ev (setRec w2 dof (setStatic w2 dof (w2.recs dof) cx.runid)) (Ev.ran t)) dof)
            (ev (setRec w2 dof (setStatic w2 dof (w2.recs dof) cx.runid)) (Ev.ran t))).fst
        (runScript E d cx t (scriptAt (ev (setRec w2 dof (setStatic w2 dof (w2.recs dof) cx.runid)) (Ev.ran t)) dof)
            (ev (setRec w2 dof (setStatic w2 dof (w2.recs dof) cx.runid)) (Ev.ran t))).2.fst
        (runScript E d cx t (scriptAt (ev (setRec w2 dof (setStatic w2 dof (w2.recs dof) cx.runid)) (Ev.ran t)) dof)
            (ev (setRec w2 dof (setStatic w2 dof (w2.recs dof) cx.runid)) (Ev.ran t))).2.snd)
    generalize scriptAt (ev (setRec w2 dof (setStatic w2 dof (w2.recs dof) cx.runid)) (Ev.ran t)) dof = sc at ran hpl ⊢
    rw [runScript_plain _ _ _ _ _ _ hpl]
    generalize runScript.cmds E cx t (childCx cx t) sc.ifchange 0
      (ev (setRec w2 dof (setStatic w2 dof (w2.recs dof) cx.runid)) (Ev.ran t)) = cr at ran ⊢
    obtain ⟨rv, w5⟩ := cr
    dsimp only at ran ⊢
    have hdm : dof ∈ w.rules t := (firstEx_mem _ _ p1.symm).1
    rcases ran with ⟨hk1, hk2⟩ | ran
    · left
      dsimp only at hk1 hk2
      subst hk1
      have hne : CRASHED ≠ (0 : Status) := fun h => CRASHED_ne_zero h.symm
      simp only [ne_eq, hne, not_false_eq_true, if_true]
      exact ⟨rfl, hk2.1, hk2.2.1.trans p3.eqv.rc, hk2.2.2.trans p3.rules⟩
    right
    by_cases hrv : rv = 0
    · subst hrv
      simp only [ne_eq, not_true_eq_false, if_false]
      have hexc : ((sc.exit : Nat) : Int) ≠ CRASHED := by
        have : (0 : Int) ≤ (sc.exit : Int) := Int.natCast_nonneg _
        intro h; rw [h] at this; exact absurd this (by decide)
      simp only [hexc, if_false]
      by_cases hex : sc.exit = 0
      · obtain ⟨pre, post, hr, hpre, hdex⟩ := firstEx_some_split _ _ p1.symm
        have built := ssb_built hi hng p3 hr hpre hdex (by rw [p1]; exact p4) (p5 pre dof post hr hpre hdex) ran hex
        rw [hex]
        exact ssb_ok rfl p3 built ran.inv ran.bext hlt po
          (fun h => ran.noFail ((h.eqv p3.eqv : NoFail cx.runid { w2 with deps := w.deps })) rfl)
      · have hne : ((sc.exit : Nat) : Int) ≠ 0 := by
          intro h; exact hex (Int.natCast_eq_zero.1 h)
        exact (ssb_fail rfl hng p3 ran.inv ran.bext hdm hlt po _ _ hne hexc).weak
    · simp only [ne_eq, hrv, not_false_eq_true, if_true, ran.notCrashed, if_false]
      exact (ssb_fail rfl hng p3 ran.inv ran.bext hdm hlt po _ _ hrv ran.notCrashed).weak

theorem startSelfK_spec {rank R E t w b} {cx : Ctx} (hE : ESpecK rank R E) (d : Defects)
    (hcx : cx.runid = R) (hS : SingleDo w.rules) (hi : Inv rank R NoX w)
    (hV : VerR w R t → (w.recs t).isGenerated = false) (hlt : rank t < b) (po : Option Nat) :
    Killed rank R w (startSelf E d cx t (w.recs t) w) ∨
    JobPostW rank R NoX t b po w (startSelf E d cx t (w.recs t) w) := by
  rw [startSelf_eq, ssGuard_noop hi.base]
  simp only [hi.base.noOvr t, Bool.false_or, Bool.not_false]
  have hgg : Good w R t → (w.recs t).isGenerated = false := fun h => h.elim hV (fun h => h.2)
  split
  · rename_i hc
    simp only [Bool.and_eq_true, Bool.not_eq_true'] at hc
    subst hcx
    obtain ⟨a1, a2, a3, a4⟩ := setStatic_spec (b := b) (po := po) hi hc.1 hgg hlt
    exact Or.inr ⟨a1, a3, fun _ _ => a2, fun h _ => a4 h, CRASHED_ne_zero⟩
  · rename_i hc
    refine ssBuildK_spec hE d hcx hS hi (fun hg => hc ?_) hlt po
    have hgen := hgg hg
    simp only [Bool.and_eq_true, Bool.not_eq_true']
    exact ⟨static_exists hi.base (hg.recCur hi) hgen, hgen⟩

end RedoModel.Deps
