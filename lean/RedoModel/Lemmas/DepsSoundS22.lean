import RedoModel.Lemmas.DepsSoundS21
/-! `ssBuild` when a .do file is found: recording the failure or the success. -/
namespace RedoModel.Deps.S

theorem recordFail_eq (cx : Ctx) (t : Nat) (sf : Rec) (rv : Status) (out : Option Content) (w : World) (h : rv ≠ 0) :
    recordNewState cx t sf rv out w = (rv, setRec (zapDeps2 w t) t (setFailed w t sf cx.runid)) := by
  unfold recordNewState
  simp only [h, if_false]

theorem zapDeps2_off (w : World) (t : Nat) (r : Rec) : OffT t w (setRec (zapDeps2 w t) t r) := by
  refine ⟨rfl, rfl, fun _ _ => rfl, fun _ => rfl, fun x hx => setRec_recs_other _ _ _ hx, fun d hd => ?_, Nat.le_refl _, rfl⟩
  show d ∈ (zapDeps2 w t).deps ↔ d ∈ w.deps
  unfold zapDeps2
  simp only [List.mem_filter]
  simp [hd]

theorem zapDeps2_sub (w : World) (t : Nat) (r : Rec) : ∀ d ∈ (setRec (zapDeps2 w t) t r).deps, d ∈ w.deps := by
  intro d hd
  have : d ∈ (zapDeps2 w t).deps := hd
  unfold zapDeps2 at this
  exact (List.mem_filter.1 this).1

/-- `w5'` is `w5` up to the record of `t` (and `nextRow`): the world after the `redo-stamp` step. -/
structure StampT (t : Nat) (w5 w5' : World) : Prop where
  fs : w5'.fs = w5.fs
  deps : w5'.deps = w5.deps
  rules : w5'.rules = w5.rules
  progs : w5'.progs = w5.progs
  clock : w5'.clock = w5.clock
  rc : w5'.runCounter = w5.runCounter
  recs : ∀ y, y ≠ t → w5'.recs y = w5.recs y

theorem StampT.refl (t : Nat) (w : World) : StampT t w w := ⟨rfl, rfl, rfl, rfl, rfl, rfl, fun _ _ => rfl⟩

theorem StampT.stampW (cx : Ctx) (t : Nat) (sc : Script) (w : World) : StampT t w (stampW cx t sc w) := by
  obtain ⟨e1, e2, e3, e4, e5, e6⟩ := stampW_eqv cx t sc w
  exact ⟨e1, e2, e3, e4, e5, e6, fun y hy => stampW_other cx t sc w hy⟩

theorem setFailed_congr_fs {w w' : World} (h : w'.fs = w.fs) (t : Nat) (r : Rec) (R : Nat) :
    setFailed w' t r R = setFailed w t r R := by
  unfold setFailed updateStamp
  rw [readStamp_congr (congrFun h t)]

/-- The script failed (or a nested command did): the failure is recorded. -/
theorem ssb_fail {rank R t w w2 w5 w5' b dof} {X : Nat → Prop} {cx : Ctx} (hcx : cx.runid = R) (hng : ¬ Good w R t)
    (hro : RowOp t w w2) (hi5 : Inv rank R (addX X t) w5) (hb5 : BExt rank R (rank t) (some t) w2 w5)
    (hs : StampT t w5 w5')
    (hdm : dof ∈ w.rules t) (hlt : rank t < b) (po : Option Nat) (rv : Status) (out : Option Content)
    (hrv : rv ≠ 0) (hnc : rv ≠ CRASHED) :
    JobPost rank R X t b po w (recordNewState cx t (w.recs t) rv out w5') := by
  rw [recordFail_eq _ _ _ _ _ _ hrv, hcx, setFailed_congr_fs hs.fs]
  have hst : SameT t w w5 := (hro.sameT t).trans (hb5.sameT (Nat.le_refl _))
  have hng5 : ¬ Good w5 R t := fun h => hng ((hst.good R).1 h)
  have hr5 : w5.rules t ≠ [] := by
    rw [hb5.rules, hro.rules]; intro h; rw [h] at hdm; simp at hdm
  have off : OffT t w5 (setRec (zapDeps2 w5' t) t (setFailed w5 t (w.recs t) R)) := by
    refine ⟨hs.rules, hs.progs, fun x _ => congrFun hs.fs x, fun _ => congrFun hs.fs t,
      fun x hx => (setRec_recs_other _ _ _ hx).trans (hs.recs x hx), fun d hd => ?_, Nat.le_of_eq hs.clock.symm, hs.rc⟩
    show d ∈ (zapDeps2 w5' t).deps ↔ d ∈ w5.deps
    unfold zapDeps2
    simp only [List.mem_filter, hs.deps]
    simp [hd]
  have hsub : ∀ d ∈ (setRec (zapDeps2 w5' t) t (setFailed w5 t (w.recs t) R)).deps, d ∈ w5.deps := by
    intro d hd
    have : d ∈ (zapDeps2 w5' t).deps := hd
    unfold zapDeps2 at this
    rw [hs.deps] at this
    exact (List.mem_filter.1 this).1
  obtain ⟨a1, a2, _⟩ := setFailed_spec (b := b) (po := po) (X' := X) hi5 hng5 addX_drop off (congrFun hs.fs t) hsub
    (by simpa using setFailed_flds hst.flds.symm w5 t R) (fun h => absurd h hr5) hlt
  have hb05 : BExt rank R b po w w5 := (hro.toBExt hlt).trans (hb5.lift hlt)
  exact ⟨a1, hb05.trans a2, fun h => absurd h hrv, fun _ h => absurd h hrv, hnc⟩

theorem notMarked {rank R X w t} (hi : Inv rank R X w) (hng : ¬ Good w R t) (hnf : (w.recs t).failed ≠ some R) :
    isCheckedR (w.recs t) R = false ∧ isChangedR (w.recs t) R = false := by
  have hb := hi.base
  constructor
  · unfold isCheckedR
    cases hc : (w.recs t).checked with
    | none => rfl
    | some c =>
      simp only
      cases hx : (c != 0 && decide (c ≥ R)) with
      | false => rfl
      | true =>
        exfalso
        simp only [Bool.and_eq_true, bne_iff_ne, ne_eq, decide_eq_true_eq] at hx
        have hle := hb.ckLe t c hc
        have : c = R := by omega
        subst this
        exact hng (Or.inl ⟨hb.ckFail t hc, Or.inl hc⟩)
  · unfold isChangedR
    cases hc : (w.recs t).changed with
    | none => rfl
    | some c =>
      simp only
      cases hx : (c != 0 && decide (c ≥ R)) with
      | false => rfl
      | true =>
        exfalso
        simp only [Bool.and_eq_true, bne_iff_ne, ne_eq, decide_eq_true_eq] at hx
        have hle := hb.chLe t c hc
        have : c = R := by omega
        subst this
        rcases hb.markFail t hc with h | h
        · exact hng (Or.inl ⟨h, Or.inr hc⟩)
        · exact hnf h

theorem ssb_built {rank R t w w2 w5 dof sc pre post} {X : Nat → Prop} (hi : Inv rank R X w) (hng : ¬ Good w R t)
    (hro : RowOp t w w2) (hr : w.rules t = pre ++ dof :: post) (hpre : ∀ c ∈ pre, existsF w c = false)
    (hdex : existsF w dof = true)
    (hshape : ∀ d ∈ w2.deps, d.target = t → d.deleteMe = false → DoRow w (some dof) d)
    (hrows : (∀ c ∈ pre, HasRowU w2 t c false) ∧ HasRowU w2 t dof true)
    (ran : Ran rank R X t dof sc w2 w5 0) (hexit : sc.exit = 0) : Built rank R t pre dof post sc w5 := by
  have hst : SameT t w w5 := (hro.sameT t).trans (ran.bext.sameT (Nat.le_refl _))
  have hrules : w5.rules = w.rules := ran.bext.rules.trans hro.rules
  have hplain : ∀ x, w.rules x = [] → w5.fs x = w.fs x := fun x hx =>
    (ran.bext.plain x (by rw [hro.rules]; exact hx)).trans (congrFun hro.fs x)
  have hcand : ∀ c ∈ w.rules t, w5.fs c = w.fs c := fun c hc => hplain c (hi.base.rulesOk.2 t c hc).1
  have hreads : sc.reads = sc.ifchange.flatten := ran.plain.2.2.2.2.2.1
  have hi5 := ran.inv
  refine ⟨fun h => hng ((hst.good R).1 h), by rw [hrules]; exact hr, ?_, ?_, ?_, ran.dofGood, ran.script, hexit, ?_, ?_⟩
  · intro c hc
    have hcm : c ∈ w.rules t := by rw [hr]; simp [hc]
    have habs : existsF w5 c = false := by rw [existsF_congr (hcand c hcm)]; exact hpre c hc
    refine ⟨habs, ran.decl.2 c false (hrows.1 c hc) (fun hin => ?_)⟩
    exfalso
    have hg := (ran.ok rfl c hin).1
    have hcP : w5.rules c = [] := by rw [hrules]; exact (hi.base.rulesOk.2 t c hcm).1
    have := static_exists hi5.base (hg.recCur hi5) (hi5.base.srcNotGen c hcP)
    rw [habs] at this; cases this
  · rw [existsF_congr (hcand dof (by rw [hr]; simp))]; exact hdex
  · exact ran.decl.2 dof true hrows.2 (fun _ => rfl)
  · rw [hreads]; exact ran.ok rfl
  · intro d hd hdt hdm
    rcases ran.decl.1 d hd hdt with h | ⟨a, b, _⟩
    · obtain ⟨_, s1, s2⟩ := hshape d h hdt hdm
      refine ⟨fun hm => ?_, fun hm => Or.inl (Option.some.inj (s2 hm)).symm⟩
      have hsP : w.rules d.source = [] := by rw [← hrules]; exact hi5.base.cPlain d hd hm
      rw [existsF_congr (hplain _ hsP)]; exact s1 hm
    · exact ⟨(fun hm => by rw [a] at hm; cases hm), fun _ => Or.inr (by rw [hreads]; exact b)⟩

end RedoModel.Deps.S
