import RedoModel.Lemmas.DepsOk2
/-!
# C09 — success specification of nested commands (`ESucc`) and of the loops of a script over them
-/
namespace RedoModel.Deps.Rich
open RedoModel.Generated

/-- The two unconditional frames along which `Buildable` is transported. -/
def Tr (w w' : World) : Prop := FrU w w' ∧ KeepsUser w w'

theorem Tr.refl (w : World) : Tr w w := ⟨FrU.refl w, KeepsUser.refl w⟩
theorem Tr.trans {a b c : World} (h1 : Tr a b) (h2 : Tr b c) : Tr a c := ⟨h1.1.trans h2.1, h1.2.trans h2.2⟩

theorem Buildable.tr {rank R} {X : Nat → Prop} {w w' : World} (hb : Base rank R X w) (h : Tr w w') {x : Nat}
    (hx : Buildable w x) : Buildable w' x := hx.transport hb h.1 h.2

theorem failNow_tr {w w' : World} (hr : RulesOk w.rules) (h : FrU w w') (sc : Script) (hf : failNowOf w sc = false) :
    failNowOf w' sc = false := by
  unfold failNowOf at hf ⊢
  cases hfo : sc.failIfOdd with
  | none => rfl
  | some f =>
    rw [hfo] at hf
    simp only at hf ⊢
    rcases (h hr).2.2 f with e | ⟨o, _⟩
    · rw [contentOf_congr e]; exact hf
    · exact o

/-- A step that leaves files alone and keeps, for every file, the three record fields ownership depends on. -/
theorem Tr.of_fields {w w' : World} (hfs : w'.fs = w.fs) (hru : w'.rules = w.rules) (hpr : w'.progs = w.progs)
    (hk : ∀ f, existsF w f = true → KeyEq (w'.recs f) (w.recs f)) : Tr w w' :=
  ⟨FrU.of_fs hfs hru hpr, SameOwn.keeps (⟨hfs, hk⟩ : SameOwn w w')⟩

theorem Tr.addKnown (w : World) (f : Nat) : Tr w (addKnown w f) := ⟨frU_addKnown w f, (SameOwn.addKnown w f).keeps⟩
theorem Tr.addDep (w : World) (t s : Nat) (m : Bool) : Tr w (addDep w t s m) :=
  ⟨frU_addDep w t s m, (SameOwn.addDep w t s m).keeps⟩

theorem Tr.ofWEqv {w w' : World} (e : WEqv w w') : Tr w w' :=
  Tr.of_fields e.fs e.rules e.progs (fun f _ => ⟨e.gen f, e.ovr f, e.stamp f⟩)

theorem Tr.ofRowOp {t : Nat} {w w' : World} (h : RowOp t w w') : Tr w w' :=
  Tr.of_fields h.fs h.rules h.progs (fun f _ => ⟨h.eqv.gen f, h.eqv.ovr f, h.eqv.stamp f⟩)

theorem noFail_addDep {R : Nat} {w : World} (h : NoFail R w) (t s : Nat) (m : Bool) : NoFail R (addDep w t s m) := by
  intro f
  have : ((addDep w t s m).recs f).failed = (w.recs f).failed := by
    unfold addDep addKnown
    split
    · rfl
    · by_cases hf : f = s <;> simp [setRec, hf]
  rw [this]; exact h f

/-- Success specification of a nested `redo-ifchange` at engine depth `k`: in the situation described by `ESpec`,
when moreover the ancestors rank above the targets, the depth exceeds the bound `b`, nothing has failed in this
run and every target is buildable, the command exits 0. -/
def ESucc (rank : Nat → Nat) (R k : Nat) (E : Engine) : Prop :=
  ∀ (X : Nat → Prop) (cx : Ctx) (ts : List Nat) (w : World) (b : Nat),
    cx.runid = R → cx.isRedo = false → cx.unlocked = false → cx.crash = none →
    Inv rank R X w → (∀ t ∈ ts, rank t < b ∧ t ≠ alwaysId) → (∀ x, X x → b ≤ rank x) →
    (∀ p, cx.parent = some p → b ≤ rank p ∧ X p ∧ ¬ Good w R p) →
    (∀ c ∈ cx.cycles, b ≤ rank c) → b < k → NoFail R w → (∀ t ∈ ts, Buildable w t) →
    (E.ifchangeCmd cx ts w).1 = 0

/-- The four facts about a nested engine the success proofs need. -/
structure EOk (rank : Nat → Nat) (R k : Nat) (E : Engine) : Prop where
  spec : ESpec rank R E
  succ : ESucc rank R k E
  keeps : EngineKeeps E
  fr : EngineFr E

theorem cmds_succ {rank R k E} (hE : EOk rank R k E) {X : Nat → Prop} {t : Nat} {cx cx' : Ctx}
    (h1 : cx'.runid = R) (h2 : cx'.isRedo = false) (h3 : cx'.unlocked = false) (h4 : cx'.crash = none)
    (h5 : cx'.parent = some t) (hcrash : cx.crash = none) (hX : X t) (hXa : ∀ x, X x → rank t ≤ rank x)
    (hcyc : ∀ c ∈ cx'.cycles, rank t ≤ rank c) (hk : rank t < k) :
    ∀ (cs : List (List Nat)) (kk : Nat) (w : World), Inv rank R X w → ¬ Good w R t →
      (∀ c ∈ cs, ∀ d ∈ c, rank d < rank t ∧ d ≠ alwaysId) → NoFail R w →
      (∀ c ∈ cs, ∀ d ∈ c, Buildable w d) →
      (runScript.cmds E cx t cx' cs kk w).1 = 0
  | [], kk, w, _, _, _, _, _ => by
    simp only [runScript.cmds, hcrash, reduceCtorEq, if_false]
  | c :: cs, kk, w, hi, hng, hr, hnf, hB => by
    rw [runScript.cmds]
    simp only [hcrash, reduceCtorEq, if_false]
    have hpar : ∀ p, cx'.parent = some p → rank t ≤ rank p ∧ X p ∧ ¬ Good w R p :=
      fun p hp => by rw [h5] at hp; cases hp; exact ⟨Nat.le_refl _, hX, hng⟩
    have hs := hE.spec X cx' c w (rank t) h1 h2 h3 h4 hi (hr c (by simp)) hXa hpar
    have hz := hE.succ X cx' c w (rank t) h1 h2 h3 h4 hi (hr c (by simp)) hXa hpar hcyc hk hnf (hB c (by simp))
    have htr : Tr w (E.ifchangeCmd cx' c w).2 := ⟨hE.fr cx' c w, hE.keeps cx' c w⟩
    rw [h5] at hs
    generalize E.ifchangeCmd cx' c w = res at hs hz htr
    obtain ⟨rv, w1⟩ := res
    obtain ⟨hi1, hb1, _, _, hnf1, _⟩ := hs
    dsimp only at hi1 hb1 hnf1 hz htr
    split
    · rename_i w1' heq
      simp only [Prod.mk.injEq] at heq
      obtain ⟨_, rfl⟩ := heq
      have hng1 : ¬ Good w1 R t := fun h => hng ((hb1.good_above (Nat.le_refl _)).1 h)
      exact cmds_succ hE h1 h2 h3 h4 h5 hcrash hX hXa hcyc hk cs (kk + 1) w1 hi1 hng1
        (fun c' hc' => hr c' (List.mem_cons_of_mem _ hc')) (hnf1 hnf hz)
        (fun c' hc' d hd => (hB c' (List.mem_cons_of_mem _ hc') d hd).tr hi.base htr)
    · rename_i rv' w1' hne heq
      simp only [Prod.mk.injEq] at heq
      obtain ⟨rfl, rfl⟩ := heq
      exact absurd hz (fun e => by first | exact hne e | exact hne e rfl | exact hne w1 e)

theorem conds_succ {rank R k E} (hE : EOk rank R k E) {X : Nat → Prop} {t : Nat} {cx' : Ctx}
    (h1 : cx'.runid = R) (h2 : cx'.isRedo = false) (h3 : cx'.unlocked = false) (h4 : cx'.crash = none)
    (h5 : cx'.parent = some t) (hX : X t) (hXa : ∀ x, X x → rank t ≤ rank x)
    (hcyc : ∀ c ∈ cx'.cycles, rank t ≤ rank c) (hk : rank t < k) :
    ∀ (fs : List Nat) (w : World), Inv rank R X w → ¬ Good w R t →
      (∀ d ∈ fs, (rank d < rank t ∧ d ≠ alwaysId) ∧ w.rules d = []) → NoFail R w →
      (∀ d ∈ fs, existsF w d = true → Buildable w d) →
      (runScript.conds E t cx' fs w).1 = 0
  | [], w, _, _, _, _, _ => by simp only [runScript.conds]
  | f :: fs, w, hi, hng, hr, hnf, hB => by
    obtain ⟨hrk, hpf⟩ := hr f (by simp)
    rw [runScript.conds]
    cases hex : existsF w f with
    | false =>
      simp only [Bool.false_eq_true, if_false]
      have hro := RowOp.addDep w t f false
      have hi1 := Inv_addDep (m := false) hi hX hng hrk.1 (fun _ => ⟨hpf, hrk.2⟩)
      have hng1 : ¬ Good (addDep w t f false) R t := fun h => hng ((hro.good R t).1 h)
      exact conds_succ hE h1 h2 h3 h4 h5 hX hXa hcyc hk fs (addDep w t f false) hi1 hng1
        (fun d hd => by rw [hro.rules]; exact hr d (List.mem_cons_of_mem _ hd)) (noFail_addDep hnf t f false)
        (fun d hd hde => (hB d (List.mem_cons_of_mem _ hd) (by rw [← hro.existsF d]; exact hde)).tr hi.base
          (Tr.addDep w t f false))
    | true =>
      simp only [if_true]
      have hts : ∀ x ∈ [f], rank x < rank t ∧ x ≠ alwaysId := fun x hx => by simp at hx; subst hx; exact hrk
      have hpar : ∀ p, cx'.parent = some p → rank t ≤ rank p ∧ X p ∧ ¬ Good w R p :=
        fun p hp => by rw [h5] at hp; cases hp; exact ⟨Nat.le_refl _, hX, hng⟩
      have hs := hE.spec X cx' [f] w (rank t) h1 h2 h3 h4 hi hts hXa hpar
      have hz := hE.succ X cx' [f] w (rank t) h1 h2 h3 h4 hi hts hXa hpar hcyc hk hnf
        (fun x hx => by simp at hx; subst hx; exact hB x (by simp) hex)
      have htr : Tr w (E.ifchangeCmd cx' [f] w).2 := ⟨hE.fr cx' [f] w, hE.keeps cx' [f] w⟩
      rw [h5] at hs
      generalize E.ifchangeCmd cx' [f] w = res at hs hz htr
      obtain ⟨rv, w1⟩ := res
      obtain ⟨hi1, hb1, _, _, hnf1, _⟩ := hs
      dsimp only at hi1 hb1 hnf1 hz htr
      split
      · rename_i w1' heq
        simp only [Prod.mk.injEq] at heq
        obtain ⟨_, rfl⟩ := heq
        have hng1 : ¬ Good w1 R t := fun h => hng ((hb1.good_above (Nat.le_refl _)).1 h)
        exact conds_succ hE h1 h2 h3 h4 h5 hX hXa hcyc hk fs w1 hi1 hng1
          (fun d hd => by rw [hb1.rules]; exact hr d (List.mem_cons_of_mem _ hd)) (hnf1 hnf hz)
          (fun d hd hde => (hB d (List.mem_cons_of_mem _ hd)
            (by rw [← existsF_congr (hb1.plain d (hr d (List.mem_cons_of_mem _ hd)).2)]; exact hde)).tr hi.base htr)
      · rename_i rv' w1' hne heq
        simp only [Prod.mk.injEq] at heq
        obtain ⟨rfl, rfl⟩ := heq
        exact absurd hz (fun e => by first | exact hne e | exact hne e rfl | exact hne w1 e)

end RedoModel.Deps.Rich
