import RedoModel.Lemmas.DepsQuiet12
/-!
A concrete history for the C02 / C17 theorems of `DepsQuiet*` (non-vacuity, and the `dropped_dep` corollary).

Target 2 is built by the .do file 1.  The first script (`sA`, content `[17]`) declares and reads the sources 4 and 5;
the user builds 2, then replaces the .do file by one (`sB`, content `[19]`) that declares and reads 4 only, and
builds 2 again (`redo 2`).  From then on 5 is no longer in the recorded closure of 2.
-/
namespace RedoModel.Deps.Rich
open RedoModel.Generated

def sA : Script := { ifchange := [[4, 5]], reads := [4, 5], tag := 1 }
def sB : Script := { ifchange := [[4]], reads := [4], tag := 2 }
def ddOps : List UserOp :=
  [.setProg [17] sA, .setProg [19] sB, .write 1 7, .write 4 0, .write 5 0, .cmd (.redo [2] false), .write 1 8]
def ddW : World := ddOps.foldl (fun w op => (applyOp {} 6 op w).2) (initWorld cxRules)
def ddRes : Result × World := runCmd {} 6 (.redo [2] false) ddW

theorem dd_status : ddRes.1.status = 0 := by decide +kernel
theorem dd_ran : ddRes.2.trace = [.ran 2, .ran 2] := by decide +kernel
theorem dd_deps : ddRes.2.deps.map (fun d => (d.target, d.source)) = [(2, 4), (2, 1)] := by decide +kernel

theorem sA_rich : sA.Rich := by
  refine ⟨rfl, fun f hf => Or.inl (by simpa [sA] using hf), fun f hf => by simp [sA] at hf⟩
theorem sB_rich : sB.Rich := by
  refine ⟨rfl, fun f hf => Or.inl (by simpa [sB] using hf), fun f hf => by simp [sB] at hf⟩

theorem dd_ops : ∀ op ∈ ddOps, RichOp cxRules op := by
  intro op hop
  simp only [ddOps, List.mem_cons, List.not_mem_nil, or_false] at hop
  rcases hop with rfl | rfl | rfl | rfl | rfl | rfl | rfl
  · exact sA_rich
  · exact sB_rich
  · show (1 : Nat) ≠ alwaysId; simp [alwaysId]
  · show (4 : Nat) ≠ alwaysId; simp [alwaysId]
  · show (5 : Nat) ≠ alwaysId; simp [alwaysId]
  · intro t ht; simp only [Cmd.names, List.mem_singleton] at ht; subst ht; simp [alwaysId]
  · show (1 : Nat) ≠ alwaysId; simp [alwaysId]

theorem dd_ranked_of (w : World) (hr : w.rules = cxRules)
    (hp : ∀ c sc, w.progs c = some sc → sc = sA ∨ sc = sB) : RankedR cxRank w := by
  refine ⟨fun t c hc => ?_, fun t dof hd n sc _ h => ?_⟩
  · rw [hr] at hc; unfold cxRules at hc
    split at hc
    · simp at hc; subst hc; subst_vars; simp [cxRank]
    · simp at hc
  · rw [hr] at hd; unfold cxRules at hd
    split at hd
    · subst_vars
      rcases hp _ _ h with rfl | rfl
      · refine ⟨fun h => by simp [sA] at h, fun d hdm => ?_, fun d hdm => by simp [sA] at hdm⟩
        have : d = 4 ∨ d = 5 := by simpa [sA] using hdm
        rcases this with rfl | rfl <;> simp [cxRank, alwaysId]
      · refine ⟨fun h => by simp [sB] at h, fun d hdm => ?_, fun d hdm => by simp [sB] at hdm⟩
        have : d = 4 := by simpa [sB] using hdm
        subst this; simp [cxRank, alwaysId]
    · simp at hd

theorem dd_progs_of (w : World)
    (hp : w.progs = fun x => if x = [19] then some sB else if x = [17] then some sA else none) :
    ∀ c sc, w.progs c = some sc → sc = sA ∨ sc = sB := by
  intro c sc h
  rw [hp] at h
  simp only at h
  split at h
  · exact Or.inr (Option.some.inj h).symm
  · split at h
    · exact Or.inl (Option.some.inj h).symm
    · cases h

theorem dd_ranked : ∀ w ∈ worldsOf 6 {} (initWorld cxRules) ddOps, RankedR cxRank w := by
  intro w hw
  simp only [ddOps, worldsOf, List.mem_cons, List.not_mem_nil, or_false] at hw
  rcases hw with rfl | rfl | rfl | rfl | rfl | rfl | rfl | rfl
  · exact dd_ranked_of _ rfl (fun c sc h => by cases h)
  · exact dd_ranked_of _ rfl (fun c sc h => by
      simp only [applyOp, initWorld] at h
      split at h
      · exact Or.inl (Option.some.inj h).symm
      · cases h)
  · exact dd_ranked_of _ rfl (dd_progs_of _ rfl)
  · exact dd_ranked_of _ rfl (dd_progs_of _ rfl)
  · exact dd_ranked_of _ rfl (dd_progs_of _ rfl)
  · exact dd_ranked_of _ rfl (dd_progs_of _ rfl)
  · exact dd_ranked_of _ rfl (dd_progs_of _ rfl)
  · exact dd_ranked_of _ rfl (dd_progs_of _ rfl)

theorem dd_opsOk : OpsOkW 6 (initWorld cxRules) ddOps := by
  refine ⟨?_, ?_, trivial, trivial, trivial, trivial, trivial, trivial⟩
  · intro t dof _ n hn; cases hn
  · intro t dof _ n hn; cases hn

theorem dd_rankLt : ∀ f, cxRank f < 6 := by intro f; unfold cxRank; split <;> omega

/-- The recorded closure of 2 after the second build: 2, its .do file 1, the source 4 — not 5, not `//ALWAYS`. -/
theorem dd_closure {f : Nat} (h : RecReach ddRes.2 [2] f) : f ∈ [2, 4, 1] :=
  RecReach.sub [2, 4, 1] (by simp) (by
    intro d hd
    have : (d.target, d.source) ∈ ddRes.2.deps.map (fun d => (d.target, d.source)) := List.mem_map.2 ⟨d, hd, rfl⟩
    rw [dd_deps] at this
    simp only [List.mem_cons, Prod.mk.injEq, List.not_mem_nil, or_false] at this
    rcases this with ⟨a, b⟩ | ⟨a, b⟩ <;> simp [a, b]) h

theorem dd_no_always : ¬ RecReach ddRes.2 [2] alwaysId := fun h => by
  have := dd_closure h; simp [alwaysId] at this

theorem dd_five_out : ¬ RecReach ddRes.2 [2] 5 := fun h => by
  have := dd_closure h; simp at this

end RedoModel.Deps.Rich
