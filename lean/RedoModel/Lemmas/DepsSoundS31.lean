import RedoModel.Lemmas.DepsSoundS30
/-! Forced rebuild of a verified generated target: `startSelf`. -/
namespace RedoModel.Deps.S
open RedoModel.Generated

theorem idem_prep {rank R t w pre dof post} (hi : Inv rank R NoX w) (hv : VerR w R t)
    (hg : (w.recs t).isGenerated = true) (hr : w.rules t = pre ++ dof :: post)
    (hpre : ∀ c ∈ pre, existsF w c = false ∧ HasRow w t c false) (hdex : existsF w dof = true)
    (hdrow : HasRow w t dof true) :
    (findDoFile t ((zapDeps1 w t).rules t) (zapDeps1 w t)).1 = some dof ∧
    Inv rank R NoX (findDoFile t ((zapDeps1 w t).rules t) (zapDeps1 w t)).2 ∧
    RowOp t w (findDoFile t ((zapDeps1 w t).rules t) (zapDeps1 w t)).2 ∧
    (∀ c ∈ pre, HasRowU (findDoFile t ((zapDeps1 w t).rules t) (zapDeps1 w t)).2 t c false) ∧
    HasRowU (findDoFile t ((zapDeps1 w t).rules t) (zapDeps1 w t)).2 t dof true ∧
    (∀ d ∈ (findDoFile t ((zapDeps1 w t).rules t) (zapDeps1 w t)).2.deps, d.target = t → d.deleteMe = false →
      DoRow w (some dof) d) ∧
    SameTriples w (findDoFile t ((zapDeps1 w t).rules t) (zapDeps1 w t)).2 := by
  have hi1 := Inv_zapDeps1_good hi t
  have hro := RowOp.zapDeps1 w t
  have hst := SameTriples.zapDeps1 w t
  have hrules : (zapDeps1 w t).rules t = pre ++ dof :: post := hr
  rw [hrules]
  obtain ⟨a1, a2, a3, a4, a5, a6, a7⟩ := findDoFile_good (rank := rank) (R := R) (X := NoX) (t := t) (dof := dof)
    (post := post) pre (zapDeps1 w t) hi1 ((hro.verR R t).2 hv) hg
    (fun c hc => ⟨(hpre c hc).1, (hst _ _ _).2 (hpre c hc).2⟩) hdex ((hst _ _ _).2 hdrow)
  refine ⟨a1, a2, hro.trans a3, a4, a5, fun d hd hdt hdm => ?_, hst.trans a7⟩
  rcases a6 d hd hdt with h | h
  · have := zapDeps1_marked d h hdt
    rw [hdm] at this; cases this
  · exact h

theorem idem_script {rank R t w2 dof n} {cx : Ctx} (d : Defects)
    (hd1 : d.oobRecordsDepsOnCaller = false) (hd2 : d.oobRebuildsDepsNotTarget = false) (hcx : cx.runid = R) (hcrash : cx.crash = none)
    (hcyc : cx.cycles = []) (hi2 : Inv rank R NoX w2) (hv2 : VerR w2 R t) (hg2 : (w2.recs t).isGenerated = true)
    (hdm : dof ∈ w2.rules t) (hdex : existsF w2 dof = true) (hfuel : rank t ≤ n + 1)
    (hreads : ∀ x ∈ (scriptAt w2 dof).ifchange.flatten, rank x < rank t ∧ Good w2 R x ∧ HasRow w2 t x true) :
    scriptAt (ev (setRec w2 dof (setStatic w2 dof (w2.recs dof) R)) (.ran t)) dof = scriptAt w2 dof ∧
    IdemStep rank R t (scriptAt w2 dof).ifchange.flatten w2
      (runScript.cmds (engine d (n + 1)) cx t (childCx cx t) (scriptAt w2 dof).ifchange 0
        (ev (setRec w2 dof (setStatic w2 dof (w2.recs dof) R)) (.ran t))) := by
  have hdP : w2.rules dof = [] := (hi2.base.rulesOk.2 t dof hdm).1
  have hdlt : rank dof < rank t := hi2.base.ranked.1 t dof hdm
  obtain ⟨hi3, _, hb3, hn3⟩ := setStatic_spec (b := rank t) (po := some t) hi2 hdex
    (fun _ => hi2.base.srcNotGen dof hdP) hdlt
  have hsc : scriptAt (ev (setRec w2 dof (setStatic w2 dof (w2.recs dof) R)) (.ran t)) dof = scriptAt w2 dof := rfl
  have hd3 : (setRec w2 dof (setStatic w2 dof (w2.recs dof) R)).deps = w2.deps := rfl
  generalize setRec w2 dof (setStatic w2 dof (w2.recs dof) R) = w3 at hi3 hb3 hn3 hd3 hsc ⊢
  have e4 := WEqv.ev w3 (.ran t)
  have hi4 := e4.inv hi3
  have hb4 : BExt rank R (rank t) (some t) w2 (ev w3 (.ran t)) := hb3.trans e4.toBExt
  have hv4 := (hb4.ver t hv2).1
  have hg4 : ((ev w3 (.ran t)).recs t).isGenerated = true := by rw [(hb4.ver t hv2).2.2]; exact hg2
  have hrow4 : ∀ s m, HasRow w2 t s m → HasRow (ev w3 (.ran t)) t s m := by
    intro s m h; unfold HasRow at h ⊢; rw [show (ev w3 (.ran t)).deps = w2.deps from hd3]; exact h
  have hstep : ∀ (c : List Nat) (w : World), Inv rank R NoX w → VerR w R t → (w.recs t).isGenerated = true →
      (∀ x ∈ c, rank x < rank t ∧ Good w R x ∧ HasRow w t x true) →
      IdemStep rank R t c w ((engine d (n + 1)).ifchangeCmd (childCx cx t) c w) := by
    intro c w hi hv hg hc
    have hcyc' : (childCx cx t).cycles = [t] := by show t :: cx.cycles = [t]; rw [hcyc]
    exact ifchange_good (cx := childCx cx t) (fuel := n + 1) (engine d n) (engine_spec rank R d hd1 hd2 n) d hd1 hd2 hcx rfl rfl
      hcrash rfl hcyc' hi hv hg hfuel c hc
  have hcm := cmds_good (cx := cx) hcrash hstep (scriptAt w2 dof).ifchange 0 (ev w3 (.ran t)) hi4 hv4 hg4
    (fun c hc x hx => by
      obtain ⟨h1, h2, h3⟩ := hreads x (List.mem_flatten.2 ⟨c, hc, hx⟩)
      exact ⟨h1, hb4.good h2, hrow4 _ _ h3⟩)
  refine ⟨hsc, hcm.status, hcm.inv, hb4.trans hcm.bext, ?_, hcm.rows, fun s m h => hcm.keep s m (hrow4 s m h),
    fun h => hcm.noFail ((hn3 h).eqv e4)⟩
  have := hcm.decl
  unfold RowsDecl HasRowU at this ⊢
  rw [show (ev w3 (.ran t)).deps = w2.deps from hd3] at this
  exact this

end RedoModel.Deps.S
