import RedoModel.Lemmas.DepsSoundS10
/-! Frame of building files of rank `< b` (`BExt`), and conversions from the smaller frames. -/
namespace RedoModel.Deps.S

/-- Frame of a command that builds files of rank `< b` on behalf of `po` (whose rows it may extend). -/
structure BExt (rank : Nat → Nat) (R b : Nat) (po : Option Nat) (w w' : World) : Prop where
  rules : w'.rules = w.rules
  progs : w'.progs = w.progs
  plain : ∀ x, w.rules x = [] → w'.fs x = w.fs x
  above : ∀ x, b ≤ rank x → w'.fs x = w.fs x ∧
    (w'.recs x).isGenerated = (w.recs x).isGenerated ∧ (w'.recs x).isOverride = (w.recs x).isOverride ∧
    (w'.recs x).checked = (w.recs x).checked ∧ (w'.recs x).changed = (w.recs x).changed ∧
    (w'.recs x).failed = (w.recs x).failed ∧ (w'.recs x).stamp = (w.recs x).stamp ∧
    (w'.recs x).csum = (w.recs x).csum
  rowsAbove : ∀ d : Dep, b ≤ rank d.target → po ≠ some d.target → (d ∈ w'.deps ↔ d ∈ w.deps)
  ver : ∀ x, VerR w R x → VerR w' R x ∧ contentOf w' x = contentOf w x ∧
    (w'.recs x).isGenerated = (w.recs x).isGenerated
  stat : ∀ x, RecCur w x → (w.recs x).isGenerated = false →
    RecCur w' x ∧ (w'.recs x).isGenerated = false ∧ w'.fs x = w.fs x
  clock : w.clock ≤ w'.clock
  rc : w'.runCounter = w.runCounter

theorem BExt.refl (rank R b po w) : BExt rank R b po w w :=
  ⟨rfl, rfl, fun _ _ => rfl, fun _ _ => ⟨rfl, rfl, rfl, rfl, rfl, rfl, rfl, rfl⟩, fun _ _ _ => Iff.rfl,
   fun _ h => ⟨h, rfl, rfl⟩, fun _ h1 h2 => ⟨h1, h2, rfl⟩, Nat.le_refl _, rfl⟩

theorem BExt.trans {rank R b po w w' w''} (h1 : BExt rank R b po w w') (h2 : BExt rank R b po w' w'') :
    BExt rank R b po w w'' := by
  refine ⟨h2.rules.trans h1.rules, h2.progs.trans h1.progs,
    fun x hx => (h2.plain x (by rw [h1.rules]; exact hx)).trans (h1.plain x hx), fun x hx => ?_,
    fun d hd hp => (h2.rowsAbove d hd hp).trans (h1.rowsAbove d hd hp), fun x hv => ?_, fun x hc hg => ?_,
    Nat.le_trans h1.clock h2.clock, h2.rc.trans h1.rc⟩
  · obtain ⟨a1, a2, a3, a4, a5, a6, a7, a8⟩ := h1.above x hx
    obtain ⟨b1, b2, b3, b4, b5, b6, b7, b8⟩ := h2.above x hx
    exact ⟨b1.trans a1, b2.trans a2, b3.trans a3, b4.trans a4, b5.trans a5, b6.trans a6, b7.trans a7, b8.trans a8⟩
  · obtain ⟨a1, a2, a3⟩ := h1.ver x hv
    obtain ⟨b1, b2, b3⟩ := h2.ver x a1
    exact ⟨b1, b2.trans a2, b3.trans a3⟩
  · obtain ⟨a1, a2, a3⟩ := h1.stat x hc hg
    obtain ⟨b1, b2, b3⟩ := h2.stat x a1 a2
    exact ⟨b1, b2, b3.trans a3⟩

theorem BExt.mono {rank R b b' po w w'} (h : BExt rank R b po w w') (hb : b ≤ b') : BExt rank R b' po w w' :=
  ⟨h.rules, h.progs, h.plain, fun x hx => h.above x (Nat.le_trans hb hx),
   fun d hd hp => h.rowsAbove d (Nat.le_trans hb hd) hp, h.ver, h.stat, h.clock, h.rc⟩

theorem BExt.good {rank R b po w w'} (h : BExt rank R b po w w') {x} (hg : Good w R x) : Good w' R x := by
  rcases hg with hv | ⟨hc, hg⟩
  · exact Or.inl (h.ver x hv).1
  · exact Or.inr ⟨(h.stat x hc hg).1, (h.stat x hc hg).2.1⟩

theorem DExt.toBExt {rank R b po w w'} (h : DExt rank R b w w') : BExt rank R b po w w' := by
  obtain ⟨hfs, hdeps, hrc, hclock, _, hprogs, hrules⟩ := h.same
  refine ⟨hrules, hprogs, fun x _ => congrFun hfs x, fun x hx => ?_, fun d _ _ => by rw [hdeps],
    fun x hv => ⟨(h.ver x hv).1, contentOf_congr (congrFun hfs x), (h.ver x hv).2⟩,
    fun x hc hg => ⟨(h.stat x hc hg).1, (h.stat x hc hg).2, congrFun hfs x⟩, Nat.le_of_eq hclock.symm, hrc⟩
  · rw [h.above x hx]; exact ⟨congrFun hfs x, rfl, rfl, rfl, rfl, rfl, rfl, rfl⟩

end RedoModel.Deps.S
