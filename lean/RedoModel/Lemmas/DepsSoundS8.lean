import RedoModel.Lemmas.DepsSoundS7
/-! Good files are found clean (`P.verR_clean`), or the check runs out of fuel. -/
namespace RedoModel.Deps.S

/-- Enough fuel, and no ancestor in the way. -/
def FuelOk (rank : Nat → Nat) (fuel : Nat) (seen : List Nat) (f : Nat) : Prop :=
  rank f < fuel ∧ ∀ x ∈ seen, rank f < rank x

/-- The record copy itself shows that the file is good. -/
def GoodRec (R : Nat) (r : Rec) : Prop := r.checked = some R ∨ r.changed = some R ∨ r.isGenerated = false

theorem Good.goodRec {rank R w f} (hi : Inv rank R X w) (hg : Good w R f) : GoodRec R (getRec w R f) := by
  have hrc := hg.recCur hi
  have h0 := ne_always_of_stamp hi.base hrc.1 (by rw [hrc.2.2]; simp)
  rw [getRec_ne w R h0]
  rcases hg with ⟨_, h | h⟩ | ⟨_, h⟩
  · exact Or.inl h
  · exact Or.inr (Or.inl h)
  · exact Or.inr (Or.inr h)

theorem goDeps_good {rank R} (P : Nat → Prop) (chk : World → List Nat → Nat → Rec → DR × World × List Nat)
    (hspec : ChkSpec rank X R R chk)
    (hchk : ∀ w cache s snap, Inv rank R X w → Good w R s → Snap w R s snap → GoodRec R snap →
      (∀ x, X x → rank s < rank x) →
      (chk w cache s snap).1 = .clean ∨ ((chk w cache s snap).1 = .cyclic ∧ ¬ P s)) (hasCsum : Bool) (f : Nat) :
    ∀ (ds : List (Dep × Rec)) (w : World) (cache : List Nat), Inv rank R X w →
      (∀ p ∈ ds, Snap w R p.1.source p.2 ∧ (p.1.modeM = true → Good w R p.1.source ∧ GoodRec R p.2) ∧
        (p.1.modeM = false → existsF w p.1.source = false) ∧ (∀ x, X x → rank p.1.source < rank x)) →
      (goDeps chk hasCsum f ds w cache []).1 = none ∨
      ((goDeps chk hasCsum f ds w cache []).1 = some .cyclic ∧ ∃ p ∈ ds, p.1.modeM = true ∧ ¬ P p.1.source)
  | [], w, cache, _, _ => by simp [goDeps]
  | (d, snap) :: ds, w, cache, hi, hds => by
    obtain ⟨hsn, hgood, habs, hxa⟩ := hds (d, snap) (by simp)
    rw [goDeps]
    by_cases hm : d.modeM = true
    · simp only [hm, if_true]
      have h1 := (hspec w cache d.source snap hi hxa).1 hsn
      have h2 := hchk w cache d.source snap hi (hgood hm).1 hsn (hgood hm).2 hxa
      generalize chk w cache d.source snap = r at h1 h2
      obtain ⟨sub, w1, c1⟩ := r
      obtain ⟨hi1, _, _, hcl, _⟩ := h1
      rcases h2 with h2 | ⟨h2, h3⟩
      · dsimp only at h2; subst h2
        obtain ⟨hck, _, _⟩ := hcl rfl
        have := goDeps_good P chk hspec hchk hasCsum f ds w1 c1 hi1 (fun p hp => by
          obtain ⟨a, b, c, e⟩ := hds p (List.mem_cons_of_mem _ hp)
          exact ⟨a.ext hck, fun h => ⟨Good_ext hck (b h).1, (b h).2⟩, fun h => by rw [hck.existsF]; exact c h, e⟩)
        rcases this with h | ⟨h, p, hp, hpp⟩
        · exact Or.inl h
        · exact Or.inr ⟨h, p, List.mem_cons_of_mem _ hp, hpp⟩
      · dsimp only at h2; subst h2
        exact Or.inr ⟨rfl, (d, snap), by simp, hm, h3⟩
    · have hm' : d.modeM = false := by simpa using hm
      simp only [hm', Bool.false_eq_true, if_false, habs hm']
      have := goDeps_good P chk hspec hchk hasCsum f ds w cache hi (fun p hp => hds p (List.mem_cons_of_mem _ hp))
      rcases this with h | ⟨h, p, hp, hpp⟩
      · exact Or.inl h
      · exact Or.inr ⟨h, p, List.mem_cons_of_mem _ hp, hpp⟩

theorem good_clean {rank R} : ∀ (fuel f : Nat) (seen : List Nat) (w : World) (cache : List Nat) (pre : Option Rec),
    Inv rank R X w → Good w R f → (∀ s, pre = some s → Snap w R f s ∧ GoodRec R s) →
    (∀ x, X x → rank f < rank x) →
    (isDirty false R fuel w cache f R seen pre).1 = .clean ∨
    ((isDirty false R fuel w cache f R seen pre).1 = .cyclic ∧ ¬ FuelOk rank fuel seen f)
  | 0, f, seen, w, cache, pre, _, _, _, _ => by
    simp only [isDirty]
    exact Or.inr ⟨trivial, fun h => by have := h.1; omega⟩
  | fuel + 1, f, seen, w, cache, pre, hi, hg, hpre, hXa => by
    have hs : Snap w R f (pre.getD (getRec w R f)) ∧ GoodRec R (pre.getD (getRec w R f)) := by
      cases pre with
      | none => exact ⟨Snap.getRec hi.base f, hg.goodRec hi⟩
      | some s => exact hpre s rfl
    rw [isDirty]
    by_cases hseen : f ∈ seen
    · simp only [hseen, if_true]
      exact Or.inr ⟨trivial, fun h => by have := h.2 f hseen; omega⟩
    simp only [hseen, if_false, Bool.false_eq_true]
    generalize pre.getD (getRec w R f) = r at hs
    obtain ⟨hs, hgr⟩ := hs
    have hrc := hg.recCur hi
    have h0 := ne_always_of_stamp hi.base hrc.1 (by rw [hrc.2.2]; simp)
    obtain ⟨row, gen, ovr, ck, chg, fl, st, cs⟩ := r
    have hov : ovr = false := by have := hs.ovr; rw [hi.base.noOvr f] at this; exact this
    have hfl : fl = none := by have := hs.failed; rw [hrc.1] at this; exact this
    have hst : st = some (readStamp w f) := by have := hs.stamp; rw [hrc.2.2] at this; exact this
    subst hov hfl hst
    simp only [Option.isSome_none, Bool.false_eq_true, if_false]
    cases chg with
    | none => exact absurd (hs.changed h0).symm hrc.2.1
    | some ch =>
    dsimp only
    have hle : ¬ ch > R := by
      have := hi.base.chLe f ch (hs.changed h0).symm; omega
    simp only [hle, if_false]
    split
    · exact Or.inl rfl
    simp only [ne_eq, not_true_eq_false, if_false, Bool.false_and, Bool.false_eq_true]
    rename_i hnck
    cases gen with
    | false => simp [depsWithRecs, depsOf, goDeps]
    | true =>
    have hmx : max ch (ck.getD 0) = R := by
      have hckle : ck.getD 0 ≤ R := by
        cases hc : ck with
        | none => simp
        | some c => simpa using hs.ckLe c (by simp [hc])
      rcases hgr with h | h | h
      · exfalso; apply hnck
        simp only at h
        have := hi.Rpos
        simp only [isCheckedR, h, Bool.and_eq_true, bne_iff_ne, ne_eq, decide_eq_true_eq]
        omega
      · simp only [Option.some.injEq] at h; omega
      · cases h
    rw [hmx]
    have hgen : (w.recs f).isGenerated = true := hs.gen.symm
    have hv : VerR w R f := by
      rcases hg with h | ⟨_, h⟩
      · exact h
      · rw [hgen] at h; cases h
    have := goDeps_good (rank := rank) (R := R) (FuelOk rank fuel (f :: seen))
      (fun w cache s snap => isDirty false R fuel w cache s R (f :: seen) (some snap))
      (fun w1 c1 s snap hi1 hx1 => ⟨fun hs1 => isDirty_spec fuel s _ _ w1 c1 (some snap) hi1
        (fun s' e => by cases e; exact hs1) hx1, fun hv1 => isDirty_van hv1 _ _ _ _⟩)
      (fun w1 c1 s snap hi1 hg1 hs1 hr1 hx1 => good_clean fuel s (f :: seen) w1 c1 (some snap) hi1 hg1
        (fun s' e => by cases e; exact ⟨hs1, hr1⟩) hx1)
      cs.isSome f (depsWithRecs w R { row := row, isGenerated := true, checked := ck, changed := some ch, stamp := some (readStamp w f), csum := cs } f)
      w cache hi (by
        intro p hp
        obtain ⟨d, hd, rfl⟩ := List.mem_map.1 hp
        obtain ⟨_, hd1, hd2⟩ := mem_depsOf.1 hd
        have hcl := (hi.ver f hv).2.2 hgen d hd1 hd2
        have hlt := hi.base.rowsLt d hd1
        rw [hd2] at hlt
        exact ⟨Snap.getRec hi.base _, fun hm => ⟨hcl.1 hm, (hcl.1 hm).goodRec hi⟩, hcl.2,
          fun x hx => Nat.lt_trans hlt (hXa x hx)⟩)
    generalize goDeps _ cs.isSome f _ w cache [] = res at this ⊢
    obtain ⟨o, w', c'⟩ := res
    rcases this with h | ⟨h, p, hp, hpm, hpf⟩
    · dsimp only at h; subst h; exact Or.inl rfl
    · dsimp only at h; subst h
      refine Or.inr ⟨rfl, fun hfo => hpf ?_⟩
      obtain ⟨d, hd, rfl⟩ := List.mem_map.1 hp
      obtain ⟨_, hd1, hd2⟩ := mem_depsOf.1 hd
      have hlt := hi.base.rowsLt d hd1
      rw [hd2] at hlt
      show rank d.source < fuel ∧ ∀ x ∈ f :: seen, rank d.source < rank x
      refine ⟨by have := hfo.1; omega, fun x hx => ?_⟩
      rcases List.mem_cons.1 hx with rfl | hx
      · exact hlt
      · have := hfo.2 x hx; omega

end RedoModel.Deps.S
