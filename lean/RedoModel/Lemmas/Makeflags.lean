import RedoModel.Makeflags
import RedoModel.Lemmas.LogRec
/-!
Helper lemmas for `RedoModel/Makeflags.lean`: idempotence of `canonI32`, the substring search `after`,
`cutComma`, and the shape of what `format` writes.
-/
namespace RedoModel.Makeflags
open RedoModel.LogRec

theorem stripZeros_zero (d : Char) (ds : List Char) : stripZeros ('0' :: d :: ds) = stripZeros (d :: ds) := by
  rw [stripZeros]

theorem stripZeros_single (x : Char) : stripZeros [x] = [x] := by
  unfold stripZeros; split <;> simp_all

theorem stripZeros_ne {x : Char} (r : List Char) (h : x ≠ '0') : stripZeros (x :: r) = x :: r := by
  unfold stripZeros; split
  · rename_i heq; simp only [List.cons.injEq] at heq; exact absurd heq.1 h
  · rfl

theorem digitsVal_zero (ds : List Char) : digitsVal ('0' :: ds) = digitsVal ds := by
  simp [digitsVal]

/-- Everything the proofs need about `stripZeros`, by one induction. -/
theorem stripZeros_spec : ∀ (ds : List Char), ds ≠ [] →
    stripZeros ds ≠ [] ∧ digitsVal (stripZeros ds) = digitsVal ds ∧
    stripZeros (stripZeros ds) = stripZeros ds ∧ (stripZeros ds).head? ∈ ds.map some
  | [], h => absurd rfl h
  | [x], _ => by simp [stripZeros_single]
  | x :: y :: r, _ => by
    by_cases hx : x = '0'
    · subst hx
      have ih := stripZeros_spec (y :: r) (by simp)
      rw [stripZeros_zero, digitsVal_zero]
      refine ⟨ih.1, ih.2.1, ih.2.2.1, ?_⟩
      have := ih.2.2.2
      simp only [List.map_cons, List.mem_cons] at this ⊢
      exact Or.inr this
    · simp [stripZeros_ne _ hx]

theorem signSplit_digit {c : Char} (t : List Char) (h : isDigit c = true) :
    signSplit (c :: t) = (false, c :: t) := by
  unfold signSplit; split
  · rename_i heq; simp only [List.cons.injEq] at heq; rw [heq.1] at h; exact absurd h (by decide)
  · rename_i heq; simp only [List.cons.injEq] at heq; rw [heq.1] at h; exact absurd h (by decide)
  · rfl

theorem canonI32Core_strip (neg : Bool) {ds : List Char} (hne : ds ≠ []) (hall : ds.all isDigit = true) :
    canonI32Core neg (stripZeros ds) =
      (if neg then
        if digitsVal ds > 2147483648 then none
        else if digitsVal ds = 0 then some ['0'] else some ('-' :: stripZeros ds)
      else if digitsVal ds > 2147483647 then none else some (stripZeros ds)) := by
  obtain ⟨h1, h2, h3, _⟩ := stripZeros_spec ds hne
  have hall' : (stripZeros ds).all isDigit = true := by
    rw [List.all_eq_true] at hall ⊢
    exact fun x hx => hall x (mem_stripZeros hx)
  unfold canonI32Core
  rw [h2, h3, hall']
  have : (stripZeros ds).isEmpty = false := by
    cases h : stripZeros ds with
    | nil => exact absurd h h1
    | cons _ _ => rfl
  simp [this]

theorem signSplit_strip {ds : List Char} (hne : ds ≠ []) (hall : ds.all isDigit = true) :
    signSplit (stripZeros ds) = (false, stripZeros ds) := by
  obtain ⟨h1, _, _, h4⟩ := stripZeros_spec ds hne
  cases h : stripZeros ds with
  | nil => exact absurd h h1
  | cons c t =>
    rw [h] at h4
    simp only [List.head?_cons, List.mem_map, Option.some.injEq] at h4
    obtain ⟨a, ha, rfl⟩ := h4
    exact signSplit_digit t ((List.all_eq_true.1 hall) a ha)

/-- `canonI32` is idempotent: its output is a fixed point (`Display` then `parse` then `Display`). -/
theorem canonI32_idem {tok p : List Char} (h : canonI32 tok = some p) : canonI32 p = some p := by
  unfold canonI32 at h
  generalize (signSplit tok).1 = neg at h
  generalize (signSplit tok).2 = ds at h
  unfold canonI32Core at h
  split at h
  · cases h
  · rename_i hd
    simp only [Bool.or_eq_true, Bool.not_eq_true', not_or, Bool.not_eq_false] at hd
    have hne : ds ≠ [] := by intro e; subst e; simp at hd
    have hall := hd.2
    split at h
    · split at h
      · cases h
      · split at h
        · cases h; decide
        · cases h
          rename_i h1 h2
          show canonI32Core true (stripZeros ds) = _
          rw [canonI32Core_strip true hne hall]; simp [h1, h2]
    · split at h
      · cases h
      · cases h
        rename_i h1
        unfold canonI32
        rw [signSplit_strip hne hall]
        show canonI32Core false (stripZeros ds) = _
        rw [canonI32Core_strip false hne hall]; simp [h1]

/-! ### `after` -/

theorem after_cons (pat : List Char) (c : Char) (cs : List Char) :
    after pat (c :: cs) =
      if pat <+: c :: cs then some ((c :: cs).drop pat.length) else after pat cs := by
  rw [after]; simp only [List.isPrefixOf_iff_prefix]

/-- `after` finds nothing exactly when the pattern is not a substring (also for the empty pattern). -/
theorem after_eq_none_iff (pat : List Char) : ∀ s : List Char, after pat s = none ↔ ¬ pat <:+: s
  | [] => by
    cases pat <;> simp [after]
  | c :: cs => by
    rw [after_cons, List.infix_cons_iff]
    by_cases h : pat <+: c :: cs
    · simp [h]
    · simp [h, after_eq_none_iff pat cs]

/-- The first occurrence: if `pat` does not occur in `u ++ pat.dropLast` (no occurrence starting inside `u`)
then searching `u ++ pat ++ t` returns `t`. -/
theorem after_first (pat t : List Char) : ∀ u : List Char, ¬ pat <:+: u ++ pat.dropLast →
    after pat (u ++ pat ++ t) = some t
  | [], _ => by
    cases h : pat ++ t with
    | nil =>
      have := List.append_eq_nil_iff.1 h
      simp [this.1, this.2, after]
    | cons c cs =>
      simp only [List.nil_append, h, after_cons]
      rw [← h, if_pos (List.prefix_append _ _)]; simp
  | c :: u, h => by
    rw [List.cons_append, List.infix_cons_iff, not_or] at h
    have hnp : ¬ pat <+: c :: (u ++ pat ++ t) := by
      intro hp
      apply h.1
      cases hpat : pat with
      | nil => exact List.nil_prefix
      | cons x xs =>
      rw [← hpat]
      refine List.prefix_of_prefix_length_le hp (l₂ := c :: (u ++ pat.dropLast)) ?_ ?_
      · rw [List.append_assoc]
        exact (List.prefix_cons_inj c).2 ((List.prefix_append_right_inj u).2
          ((List.dropLast_prefix pat).trans (List.prefix_append _ _)))
      · simp [hpat]
    rw [List.cons_append, List.cons_append, after_cons, if_neg hnp]
    exact after_first pat t u h.2

/-! ### the argument of the option -/

theorem cutComma_append (w : List Char) : ∀ r : List Char, ',' ∉ r → cutComma (r ++ ',' :: w) = some (r, w)
  | [], _ => by simp [cutComma]
  | c :: r, h => by
    simp only [List.mem_cons, not_or] at h
    have hc : c ≠ ',' := fun e => h.1 e.symm
    simp [cutComma, hc, cutComma_append w r h.2]

/-- A canonical token holds neither a blank nor a comma. -/
theorem canon_no_sep {r : List Char} (h : canonI32 r = some r) : ' ' ∉ r ∧ ',' ∉ r := by
  have hc := canonI32_chars h
  constructor <;> intro hm <;> rcases hc _ hm with e | e <;> revert e <;> decide

/-- What `parse_makeflags` makes of the text following the option name it found. -/
def decode (s : List Char) : Parsed :=
  match cutComma (s.takeWhile (· ≠ ' ')) with
  | none => .invalid
  | some (a, b) =>
    match canonI32 a, canonI32 b with
    | some a, some b => .fds a b
    | _, _ => .invalid

theorem parse_eq (flags : List Char) :
    parse flags =
      match after find1 (' ' :: (flags ++ [' '])) with
      | some s => decode s
      | none => match after find2 (' ' :: (flags ++ [' '])) with
        | some s => decode s
        | none => .absent := by
  unfold parse decode
  simp (config := { zeta := true, zetaHave := true }) only []
  generalize after find1 (' ' :: (flags ++ [' '])) = x
  generalize after find2 (' ' :: (flags ++ [' '])) = y
  cases x with
  | some s => rfl
  | none => cases y <;> rfl

theorem decode_ne_absent (s : List Char) : decode s ≠ .absent := by
  unfold decode
  split
  · simp
  · split <;> simp

theorem decode_fds {s a b : List Char} (h : decode s = .fds a b) :
    canonI32 a = some a ∧ canonI32 b = some b := by
  unfold decode at h
  split at h
  · cases h
  · split at h
    · rename_i ha hb
      cases h
      exact ⟨canonI32_idem ha, canonI32_idem hb⟩
    · cases h

/-- The text after the option name is `r,w` followed by end of string or a blank. -/
theorem decode_token {r w : List Char} (hr : canonI32 r = some r) (hw : canonI32 w = some w)
    (rest : List Char) : decode (r ++ ',' :: w ++ ' ' :: rest) = .fds r w := by
  have h1 := canon_no_sep hr
  have h2 := canon_no_sep hw
  have ht : (r ++ ',' :: w ++ ' ' :: rest).takeWhile (· ≠ ' ') = r ++ ',' :: w := by
    rw [List.takeWhile_append_of_pos]
    · simp
    · intro a ha
      simp only [List.mem_append, List.mem_cons] at ha
      rcases ha with ha | rfl | ha
      · have : a ≠ ' ' := fun e => h1.1 (e ▸ ha)
        simpa using this
      · decide
      · have : a ≠ ' ' := fun e => h2.1 (e ▸ ha)
        simpa using this
  unfold decode
  rw [ht, cutComma_append w r h1.2]
  simp only [hr, hw]

/-! ### the option inside a longer `MAKEFLAGS` -/

theorem parse_at {flags : List Char} (u t : List Char) (hfl : ' ' :: (flags ++ [' ']) = u ++ find1 ++ t)
    (hno : ¬ find1 <:+: u ++ find1.dropLast) : parse flags = decode t := by
  rw [parse_eq, hfl, after_first find1 t u hno]

/-- `pre` can stand before `--jobserver-auth=…` without disturbing it: it is empty or ends with a blank (so the
option starts a word), and `" --jobserver-auth="` does not occur earlier, i.e. nowhere in
`" " ++ pre ++ "--jobserver-auth"`. -/
def CleanPrefix (pre : List Char) : Prop :=
  (pre = [] ∨ pre.getLast? = some ' ') ∧ after find1 (' ' :: pre ++ "--jobserver-auth".toList) = none

instance (pre : List Char) : Decidable (CleanPrefix pre) := by unfold CleanPrefix; infer_instance

/-- What may follow the option: nothing, or a blank and anything. -/
def CleanSuffix (post : List Char) : Prop := post = [] ∨ post.head? = some ' '

instance (post : List Char) : Decidable (CleanSuffix post) := by unfold CleanSuffix; infer_instance

theorem parse_inside (pre post r w : List Char) (hpre : CleanPrefix pre) (hpost : CleanSuffix post)
    (hr : canonI32 r = some r) (hw : canonI32 w = some w) :
    parse (pre ++ "--jobserver-auth=".toList ++ r ++ ',' :: w ++ post) = .fds r w := by
  obtain ⟨rest, hrest⟩ : ∃ rest, post ++ [' '] = ' ' :: rest := by
    rcases hpost with rfl | h
    · exact ⟨[], rfl⟩
    · cases post with
      | nil => simp at h
      | cons c cs => simp only [List.head?_cons, Option.some.injEq] at h; subst h; exact ⟨cs ++ [' '], rfl⟩
  obtain ⟨u, hu⟩ : ∃ u, ' ' :: pre = u ++ [' '] := by
    rcases hpre.1 with rfl | h
    · exact ⟨[], rfl⟩
    · obtain ⟨ys, rfl⟩ := List.getLast?_eq_some_iff.1 h
      exact ⟨' ' :: ys, rfl⟩
  have hno := (after_eq_none_iff _ _).1 hpre.2
  have hfind : find1 = [' '] ++ "--jobserver-auth=".toList := rfl
  have hdl : find1.dropLast = [' '] ++ "--jobserver-auth".toList := by decide
  rw [parse_at u (r ++ ',' :: w ++ ' ' :: rest), decode_token hr hw]
  · rw [hfind, ← List.append_assoc u, ← hu, ← hrest]; simp
  · rw [hdl, ← List.append_assoc u, ← hu]; exact hno

end RedoModel.Makeflags
