import RedoModel.Lemmas.DepsQuiet14
import RedoModel.Lemmas.Once.DepsFrame
/-!
C02, converse direction, stronger form of `unrelatedChangeQuiet`: between the successful build of `ts` and the next
`redo-ifchange ts` the user may also run `redo-ifchange` on ANY other targets — the closure of `ts` stays settled
(`ifchange_leaves_settled`), so the final command still runs nothing.
-/
namespace RedoModel.Deps.Rich
open RedoModel.Generated

theorem SAt.mono {R1 R2 S w f} (h : SAt R1 S w f) (hR : R1 ≤ R2) : SAt R2 S w f :=
  ⟨h.ne0, h.failed, by obtain ⟨c, e, hle⟩ := h.ch; exact ⟨c, e, Nat.le_trans hle hR⟩,
   fun c hc => Nat.le_trans (h.ck c hc) hR, h.stamp, h.rowsM, h.rowsC⟩

theorem SSet.mono {R1 R2 S w} (h : SSet R1 S w) (hR : R1 ≤ R2) : SSet R2 S w := fun f hf => (h f hf).mono hR

/-- The `QSet` of the simpler development is settled in the refined sense, in a world whose `checked` marks are
bounded and whose `c` rows name plain files. -/
theorem SSet_of_QSet {rank R S w} (hq : QSet rank R S w) (hck : ∀ f c, (w.recs f).checked = some c → c ≤ R)
    (hcp : ∀ d ∈ w.deps, d.modeM = false → w.rules d.source = []) : SSet R S w := by
  intro f hf
  have hqa := hq.mem f hf
  refine ⟨hqa.ne0, hqa.failed, hqa.ch, hck f, hqa.stamp, fun hg d hd ht hm => ?_, fun hg d hd ht hm => ?_⟩
  · have hs := hqa.rowsM hg d hd ht hm
    refine ⟨hs, fun c hc => ?_⟩
    obtain ⟨c', e, hle⟩ := (hq.mem _ hs).ch
    rw [e] at hc; cases hc
    exact Nat.le_trans hle (hqa.mof hg)
  · exact ⟨hqa.rowsC hg d hd ht hm, hcp d hd hm⟩

/-- Settled sets and what the user does to files outside: records, rows, rules untouched; the files of the members
and of the objects of their `c` rows untouched. -/
theorem SSet.user {R' S w w'} (hq : SSet R' S w) (hrecs : w'.recs = w.recs) (hdeps : w'.deps = w.deps)
    (hrules : w'.rules = w.rules)
    (hfs : ∀ f, (S f ∨ ∃ d ∈ w.deps, S d.target ∧ d.source = f) → w'.fs f = w.fs f) : SSet R' S w' := by
  intro f hf
  have hqa := hq f hf
  refine ⟨hqa.ne0, by rw [hrecs]; exact hqa.failed, by rw [hrecs]; exact hqa.ch, by rw [hrecs]; exact hqa.ck, ?_,
    fun hg d hd ht hm => ?_, fun hg d hd ht hm => ?_⟩
  · rw [hrecs, readStamp_congr (hfs f (Or.inl hf))]; exact hqa.stamp
  · rw [hrecs] at hg ⊢; rw [hdeps] at hd; exact hqa.rowsM hg d hd ht hm
  · rw [hrecs] at hg; rw [hdeps] at hd
    obtain ⟨a, b⟩ := hqa.rowsC hg d hd ht hm
    exact ⟨by rw [existsF_congr (hfs d.source (Or.inr ⟨d, hd, by rw [ht]; exact hf, rfl⟩))]; exact a,
      by rw [hrules]; exact b⟩

/-! ### A command over members only -/

theorem runTargets_members {R' S fuel} {cx : Ctx} (rank : Nat → Nat) (E : Engine) (d : Defects) (hcx : CxOk R' S cx)
    (hcyc : cx.cycles = []) :
    ∀ (ts seen : List Nat) (w : World), SSet R' S w → RowsLt rank S w.deps → (∀ t ∈ ts, S t ∧ rank t < fuel) →
      (runTargets E d cx fuel ts seen false w).1 = 0 ∧ (runTargets E d cx fuel ts seen false w).2.fs = w.fs ∧
      (∀ t, Ev.ran t ∈ (runTargets E d cx fuel ts seen false w).2.trace → Ev.ran t ∈ w.trace)
  | [], seen, w, _, _, _ => by rw [runTargets]; exact ⟨rfl, rfl, fun _ h => h⟩
  | t :: ts, seen, w, hq, hlt, hts => by
    have htl : ∀ t' ∈ ts, S t' ∧ rank t' < fuel := fun t' h => hts t' (List.mem_cons_of_mem _ h)
    rw [runTargets]
    by_cases hin : t ∈ seen
    · simp only [hin, if_true]
      exact runTargets_members rank E d hcx hcyc ts seen w hq hlt htl
    simp only [hin, if_false, Bool.false_and, Bool.false_eq_true, hcyc, List.not_mem_nil, decide_false, Bool.and_false]
    have ha := SRel.addKnown (R' := R') (S := S) w t
    have hq1 := hq.step ha
    have hfs1 : (addKnown w t).fs = w.fs := (WEqv.addKnown w t).fs
    have hd1 : (addKnown w t).deps = w.deps := (WEqv.addKnown w t).deps
    obtain ⟨hx, hv⟩ := shouldBuild_member (fuel := fuel) rank hcx hq1 (hts t (by simp)).1
    have hclean : (shouldBuild cx fuel t (addKnown w t)).1 = some .clean := by
      rcases hv with h | ⟨_, h⟩
      · exact h
      · exact absurd (hts t (by simp)).2 (h (by rw [hd1]; exact hlt))
    unfold buildJob
    generalize shouldBuild cx fuel t (addKnown w t) = sb at hx hclean
    obtain ⟨o, w1⟩ := sb
    dsimp only at hx hclean
    subst hclean
    dsimp only
    have hnc : ¬ ((0 : Status) = CRASHED) := by decide
    simp only [hnc, if_false, ne_eq, not_true_eq_false, decide_false, Bool.or_false]
    obtain ⟨a1, a2, a3⟩ := runTargets_members rank E d hcx hcyc ts (t :: seen) w1 (hq1.step hx.toRel)
      (by rw [hx.same.2.1, hd1]; exact hlt) htl
    refine ⟨a1, a2.trans (hx.same.1.trans hfs1), fun t' h => ?_⟩
    have := hx.ran t' (a3 t' h)
    rw [addKnown_trace] at this
    exact this

/-- `redo-ifchange ts` over members of a settled set whose rows lead downwards: exit 0, nothing executed, no file
touched. -/
theorem ifchange_members_quiet {rank S n w} (d : Defects) (hq : SSet (w.runCounter + 1) S w)
    (hlt : RowsLt rank S w.deps) (hN : ∀ f, rank f < n) (ts : List Nat) (kg : Bool) (hts : ∀ t ∈ ts, S t) :
    (runCmd d n (.ifchange ts kg) w).1.status = 0 ∧
    (∀ t, Ev.ran t ∈ (runCmd d n (.ifchange ts kg) w).2.trace → Ev.ran t ∈ w.trace) ∧
    (runCmd d n (.ifchange ts kg) w).2.fs = w.fs := by
  have h0 : SRel (w.runCounter + 1) S w (allocRun w).2 :=
    ⟨fun _ _ => Iff.rfl, rfl, fun _ _ => RecKeep.refl _ _, fun _ _ => rfl, fun _ _ h => h⟩
  obtain ⟨a1, a2, a3⟩ := runTargets_members (R' := w.runCounter + 1) (S := S) (fuel := 2 * n + 4)
    (cx := { runid := w.runCounter + 1, keepGoing := kg }) rank (engine d (2 * n + 4)) d
    ⟨rfl, rfl, (fun p hp => by cases hp)⟩ rfl ts [] (allocRun w).2 (hq.step h0) hlt
    (fun t ht => ⟨hts t ht, by have := hN t; omega⟩)
  exact ⟨a1, a3, a2⟩

/-! ### What may happen in between -/

/-- As `Unrelated`, and `redo-ifchange` of anything. -/
def Harmless (C : Nat → Prop) : UserOp → Prop
  | .write f _ => ¬ C f
  | .remove f => ¬ C f
  | .chmod f => ¬ C f
  | .hide f => ¬ C f
  | .unhide f => ¬ C f
  | .setProg _ _ => True
  | .cmd c => c = .ood ∨ c = .targets ∨ c = .sources ∨ ∃ ts kg, c = .ifchange ts kg
  | .crashCmd _ _ _ => False

/-- The invariant between the two commands. -/
structure Between (rank : Nat → Nat) (S C : Nat → Prop) (w : World) : Prop where
  set : SSet (w.runCounter + 1) S w
  lt : RowsLt rank S w.deps
  clo : ∀ d ∈ w.deps, S d.target → C d.source

theorem runCmd_ifchange_rc (d : Defects) (n : Nat) (ts : List Nat) (kg : Bool) (w : World) :
    (runCmd d n (.ifchange ts kg) w).2.runCounter = w.runCounter + 1 :=
  (Once.runTargets_keeps (Once.engine_keeps d _) (allocRun w).2 d _ _ ts [] false (allocRun w).2 (Once.Keeps.refl _)).1

theorem Between.user {rank S C w w'} (hb : Between rank S C w) (hSC : ∀ f, S f → C f) (hrecs : w'.recs = w.recs)
    (hdeps : w'.deps = w.deps) (hrules : w'.rules = w.rules) (hfs : ∀ f, C f → w'.fs f = w.fs f)
    (hrc : w.runCounter ≤ w'.runCounter) : Between rank S C w' :=
  ⟨(hb.set.user hrecs hdeps hrules (fun f hf => hfs f (by
      rcases hf with h | ⟨d, hd, hs, rfl⟩
      · exact hSC f h
      · exact hb.clo d hd hs))).mono (by omega),
   by rw [hdeps]; exact hb.lt, by rw [hdeps]; exact hb.clo⟩

theorem Between.setFile {rank S C w} (hb : Between rank S C w) (hSC : ∀ f, S f → C f) (f : Nat) (x : Option FNode)
    (h : ¬ C f) : Between rank S C (setFile w f x) :=
  hb.user hSC rfl rfl rfl (fun g hg => by
    have : g ≠ f := fun e => h (e ▸ hg)
    simp [Deps.setFile, this]) (Nat.le_refl _)

theorem applyOp_between {rank S C} (hSC : ∀ f, S f → C f) (d : Defects) (n : Nat) (op : UserOp) (h : Harmless C op)
    (w : World) (hb : Between rank S C w) : Between rank S C (applyOp d n op w).2 := by
  cases op with
  | write f v =>
    have h1 : Between rank S C { w with clock := w.clock + 1 } :=
      hb.user hSC rfl rfl rfl (fun _ _ => rfl) (Nat.le_refl _)
    exact h1.setFile hSC f _ h
  | remove f => exact hb.setFile hSC f none h
  | chmod f =>
    simp only [applyOp]
    split
    · exact hb.setFile hSC f _ h
    · exact hb
  | hide f =>
    simp only [applyOp]
    split
    · exact (hb.setFile hSC f none h).user hSC rfl rfl rfl (fun _ _ => rfl) (Nat.le_refl _)
    · exact hb
  | unhide f =>
    simp only [applyOp]
    split
    · exact (hb.setFile hSC f _ h).user hSC rfl rfl rfl (fun _ _ => rfl) (Nat.le_refl _)
    · exact hb
  | setProg c s => exact hb.user hSC rfl rfl rfl (fun _ _ => rfl) (Nat.le_refl _)
  | crashCmd ts t k => exact h.elim
  | cmd c =>
    simp only [applyOp]
    have hq : c = .ood ∨ c = .targets ∨ c = .sources ∨ ∃ ts kg, c = .ifchange ts kg := h
    rcases hq with hq | hq | hq | ⟨ts, kg, rfl⟩
    · rw [query_world d n w c (Or.inl hq)]
      exact hb.user hSC rfl rfl rfl (fun _ _ => rfl) (Nat.le_succ _)
    · rw [query_world d n w c (Or.inr (Or.inl hq))]
      exact hb.user hSC rfl rfl rfl (fun _ _ => rfl) (Nat.le_succ _)
    · rw [query_world d n w c (Or.inr (Or.inr hq))]
      exact hb.user hSC rfl rfl rfl (fun _ _ => rfl) (Nat.le_succ _)
    · have hrel := ifchange_leaves_settled d n ts kg hb.set
      have hrc := runCmd_ifchange_rc d n ts kg w
      refine ⟨(hb.set.step hrel).mono (by omega), fun dd hd hs hm => ?_, fun dd hd hs => ?_⟩
      · exact hb.lt dd ((hrel.deps dd hs).1 hd) hs hm
      · exact hb.clo dd ((hrel.deps dd hs).1 hd) hs

theorem foldl_between {rank S C} (hSC : ∀ f, S f → C f) (d : Defects) (n : Nat) : ∀ (us : List UserOp) (w : World),
    (∀ u ∈ us, Harmless C u) → Between rank S C w → Between rank S C (us.foldl (fun w op => (applyOp d n op w).2) w)
  | [], _, _, hb => hb
  | u :: us, w, h, hb => by
    rw [List.foldl_cons]
    exact foldl_between hSC d n us _ (fun u' hu' => h u' (List.mem_cons_of_mem _ hu'))
      (applyOp_between hSC d n u (h u (by simp)) w hb)

end RedoModel.Deps.Rich
