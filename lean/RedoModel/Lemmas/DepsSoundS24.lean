import RedoModel.Lemmas.DepsSoundS23
import RedoModel.Lemmas.DepsCsum4
/-! `shouldBuild` / `buildJob` for `redo-ifchange` (not forced). -/
namespace RedoModel.Deps.S
open RedoModel.Generated

def jrStatus : JobResult → Status
  | .abort c => c
  | .done rv => rv

theorem DExt.noFail {rank R b w w'} (h : DExt rank R b w w') (hR : 0 < R) (hn : NoFail R w) : NoFail R w' := by
  intro f
  rcases h.fail f with e | e
  · rw [e]; exact hn f
  · rw [e]; intro h; cases h; omega

theorem isFailedR_false {r : Rec} {R : Nat} (hR : 0 < R) (h : isFailedR r R = false) : r.failed ≠ some R := by
  intro e
  unfold isFailedR at h
  rw [e] at h
  simp only [Bool.and_eq_false_iff, bne_eq_false_iff_eq, decide_eq_false_iff_not] at h
  omega

theorem getRec_failed (w : World) (R f : Nat) : (getRec w R f).failed = (w.recs f).failed := by
  unfold getRec; split <;> rfl

theorem exit_codes : EXIT_TARGET_FAILED ≠ 0 ∧ EXIT_TARGET_FAILED ≠ CRASHED ∧ EXIT_CYCLIC_DEPENDENCY ≠ 0 ∧
    EXIT_CYCLIC_DEPENDENCY ≠ CRASHED ∧ EXIT_FAILURE ≠ 0 ∧ EXIT_FAILURE ≠ CRASHED := by decide

theorem JobPost.nonzero {rank R X t b po w} (hi : Inv rank R X w) (rv : Status) (h0 : rv ≠ 0) (hc : rv ≠ CRASHED) :
    JobPost rank R X t b po w (rv, w) :=
  ⟨hi, BExt.refl _ _ _ _ _, fun h => absurd h h0, fun _ h => absurd h h0, hc⟩

/-- The job decided to rebuild `t` itself (verdict dirty, or `need` for `t` alone, or `need` when OOB is off). -/
theorem job_dirty {rank R E t w w1 b} {cx : Ctx} {X : Nat → Prop} (hE : ESpec rank R E) (d : Defects)
    (hcx : cx.runid = R) (hcrash : cx.crash = none) (hi : Inv rank R X w) (hi1 : Inv rank R X w1)
    (hdx : DExt rank R (rank t + 1) w w1) (ho : OwnRel w w1 t) (hnv : ¬ VerR w R t)
    (hnf0 : (w.recs t).failed ≠ some R)
    (hXa : ∀ x, X x → rank t < rank x) (hlt : rank t < b) (po : Option Nat) :
    JobPost rank R X t b po w ((startSelf E d cx t (w.recs t) w1).1, (startSelf E d cx t (w.recs t) w1).2) := by
  subst hcx
  have hown' : w1.recs t = w.recs t ∨ (w1.recs t = { w.recs t with isGenerated := false, isOverride := false, failed := some 0 } ∧ w1.fs t = none) := by
    rcases ho with h | ⟨h, hf⟩
    · exact Or.inl h
    · exact Or.inr ⟨h, by rw [congrFun hdx.same.1 t]; exact hf⟩
  rw [startSelf_own E d cx t (w.recs t) w1 (hi.base.recOk t).noOvr hown']
  have hV : VerR w1 cx.runid t → (w1.recs t).isGenerated = false := by
    intro hv
    rcases hown' with h | ⟨h, _⟩
    · exfalso
      have hv0 : VerR w cx.runid t := by unfold VerR at hv ⊢; rw [h] at hv; exact hv
      exact hnv hv0
    · rw [h]
  have hnf1 : (w1.recs t).failed ≠ some cx.runid := by
    rcases hown' with h | ⟨h, _⟩
    · rw [h]; exact hnf0
    · rw [h]; intro e; have e' := Option.some.inj e; have := hi.Rpos; omega
  obtain ⟨a1, a2, a3, a4, a5⟩ := (startSelf_spec (b := b) (po := po) hE d rfl hcrash hi1 hV hXa hlt hnf1).strong hnf1
  exact ⟨a1, (hdx.toBExt.mono (Nat.succ_le_of_lt hlt)).trans a2, a3, fun h hz => a4 (hdx.noFail hi.Rpos h) hz, a5⟩

theorem BExt.weaken_po {rank R b po w w'} (h : BExt rank R b none w w') : BExt rank R b po w w' :=
  ⟨h.rules, h.progs, h.plain, h.above, fun d hd _ => h.rowsAbove d hd (by simp), h.ver, h.stat, h.clock, h.rc⟩

/-- The out-of-band path: `redo-ifchange ts` (files below `t`), then `redo-ifchange t` unlocked. -/
theorem job_oob {rank R E t w1 b} {cx : Ctx} {X : Nat → Prop} (hE : ESpec rank R E)
    (hcx : cx.runid = R) (hcrash : cx.crash = none) (hi1 : Inv rank R X w1)
    (ts : List Nat) (hts : ∀ x ∈ ts, rank x < rank t)
    (hXa : ∀ x, X x → rank t < rank x) (hlt : rank t < b) (po : Option Nat) :
    JobPost rank R X t b po w1 (jrStatus (oobPath E cx t ts w1).1, (oobPath E cx t ts w1).2) := by
  unfold oobPath
  have hts' : ∀ x ∈ oobOrder w1 ts, rank x < rank t := by
    intro x hx
    unfold oobOrder at hx
    split at hx
    · exact hts x (List.mem_eraseDups.1 (List.mem_reverse.1 hx))
    · exact hts x (List.mem_eraseDups.1 hx)
  have h1 := hE X (oobCx1 cx t) (oobOrder w1 ts) w1 (rank t) hcx rfl hcrash hi1 hts'
    (fun x hx => Nat.le_of_lt (hXa x hx)) (fun _ p hp => by cases hp)
  generalize E.ifchangeCmd (oobCx1 cx t) (oobOrder w1 ts) w1 = r1 at h1
  obtain ⟨rv1, w2⟩ := r1
  obtain ⟨hi2, hb2, _, _, hnf2, hnc2⟩ := h1
  dsimp only at hi2 hb2 hnf2 hnc2 ⊢
  have hb2' : BExt rank R b po w1 w2 := by
    have : BExt rank R (rank t) none w1 w2 := by simpa [oobCx1] using hb2
    exact (this.mono (Nat.le_of_lt hlt)).weaken_po
  by_cases hrv : rv1 = 0
  · subst hrv
    simp only [if_true]
    have h2 := hE X (oobCx2 cx) [t] w2 (rank t + 1) hcx rfl hcrash hi2
      (fun x hx => by simp at hx; subst hx; exact Nat.lt_succ_self _)
      (fun x hx => Nat.succ_le_of_lt (hXa x hx)) (fun hu => by simp [oobCx2] at hu)
    generalize E.ifchangeCmd (oobCx2 cx) [t] w2 = r2 at h2
    obtain ⟨rv2, w3⟩ := r2
    obtain ⟨hi3, hb3, _, hg3, hnf3, hnc3⟩ := h2
    dsimp only at hi3 hb3 hg3 hnf3 hnc3 ⊢
    have hb3' : BExt rank R b po w2 w3 := by
      have : BExt rank R (rank t + 1) none w2 w3 := by simpa [oobCx2] using hb3
      exact (this.mono (Nat.succ_le_of_lt hlt)).weaken_po
    exact ⟨hi3, hb2'.trans hb3', fun hz => hg3 hz t (by simp), fun h hz => hnf3 (hnf2 h rfl) hz, hnc3⟩
  · simp only [hrv, if_false]
    exact ⟨hi2, hb2', fun h => absurd h hrv, fun _ h => absurd h hrv, hnc2⟩

theorem shouldBuild_plainV {cx : Ctx} {fuel t : Nat} {w w1 : World} {c : List Nat} {dr : DR} (hredo : cx.isRedo = false)
    (hfr : isFailedR (getRec w cx.runid t) cx.runid = false)
    (hres : isDirty false cx.runid fuel w [] t cx.runid [] none = (dr, w1, c)) (hn : ∀ ts, dr ≠ .need ts) :
    shouldBuild cx fuel t w = (some dr, w1) := by
  unfold shouldBuild
  simp only [hredo, Bool.false_eq_true, if_false, hfr, hres]
  cases dr with
  | need ts => exact absurd rfl (hn ts)
  | _ => rfl

theorem shouldBuild_needV {cx : Ctx} {fuel t : Nat} {w w1 : World} {c : List Nat} {ts : List Nat} (hredo : cx.isRedo = false)
    (hfr : isFailedR (getRec w cx.runid t) cx.runid = false)
    (hres : isDirty false cx.runid fuel w [] t cx.runid [] none = (.need ts, w1, c)) :
    shouldBuild cx fuel t w = (some (if ts = [t] then .dirty else .need ts), w1) := by
  unfold shouldBuild
  simp only [hredo, Bool.false_eq_true, if_false, hfr, hres]
  cases ts with
  | nil => simp
  | cons x l =>
    cases l with
    | nil =>
      by_cases e : x = t
      · subst e; simp
      · simp [e]
    | cons y l => simp

theorem buildJob_spec {rank R E t w b fuel} {cx : Ctx} {X : Nat → Prop} (hE : ESpec rank R E) (d : Defects)
    (hd1 : d.oobRecordsDepsOnCaller = false) (hd2 : d.oobRebuildsDepsNotTarget = false)
    (hcx : cx.runid = R) (hredo : cx.isRedo = false) (hcrash : cx.crash = none) (hi : Inv rank R X w)
    (hXa : ∀ x, X x → rank t < rank x) (hlt : rank t < b) (po : Option Nat) :
    JobPost rank R X t b po w (jrStatus (buildJob E d cx fuel t w).1, (buildJob E d cx fuel t w).2) := by
  obtain ⟨c1, c2, c3, c4, c5, c6⟩ := exit_codes
  cases hfr : isFailedR (getRec w cx.runid t) cx.runid with
  | true =>
    unfold buildJob shouldBuild
    simp only [hredo, Bool.false_eq_true, if_false, hfr, if_true]
    split <;> exact JobPost.nonzero hi _ c1 c2
  | false =>
    have hsp := isDirty_spec (rank := rank) (R := R) (X := X) fuel t cx.runid [] w [] none (hcx ▸ hi)
      (fun s e => by cases e) hXa
    have hgc := fun hg => good_clean (rank := rank) (R := R) (X := X) fuel t [] w [] none (hcx ▸ hi) hg
      (fun s e => by cases e) hXa
    subst hcx
    have hnf0 : (w.recs t).failed ≠ some cx.runid := by
      rw [← getRec_failed w cx.runid t]; exact isFailedR_false hi.Rpos hfr
    -- the job when the verdict (after `should_build`'s adjustment) is `dirty`
    have hD : ∀ dr w1 c, isDirty false cx.runid fuel w [] t cx.runid [] none = (dr, w1, c) → dr ≠ .clean → dr ≠ .cyclic →
        JobPost rank cx.runid X t b po w ((startSelf E d cx t (w.recs t) w1).1, (startSelf E d cx t (w.recs t) w1).2) := by
      intro dr w1 c hres hnc hncy
      rw [hres] at hsp hgc
      obtain ⟨hi1, hdx, _, _, hown⟩ := hsp
      refine job_dirty hE d rfl hcrash hi hi1 hdx (hown hnc) (fun hv => ?_) hnf0 hXa hlt po
      rcases hgc (Or.inl hv) with h1 | ⟨h1, _⟩
      · exact hnc h1
      · exact hncy h1
    generalize hres : isDirty false cx.runid fuel w [] t cx.runid [] none = res at hsp hgc hD
    obtain ⟨dr, w1, c⟩ := res
    obtain ⟨hi1, hdx, hnn, hcl, hown⟩ := hsp
    dsimp only at hi1 hdx hnn hcl hown hgc
    cases dr with
    | cyclic =>
      unfold buildJob
      rw [shouldBuild_plainV hredo hfr hres (fun ts e => by cases e)]
      exact ⟨hi1, hdx.toBExt.mono (Nat.succ_le_of_lt hlt), fun h => absurd h c3, fun _ h => absurd h c3, c4⟩
    | clean =>
      unfold buildJob
      rw [shouldBuild_plainV hredo hfr hres (fun ts e => by cases e)]
      obtain ⟨hck, hv, _⟩ := hcl rfl
      exact ⟨hi1, hdx.toBExt.mono (Nat.succ_le_of_lt hlt), fun _ => Or.inl hv,
        fun h _ => hdx.noFail hi.Rpos h, CRASHED_ne_zero⟩
    | dirty =>
      unfold buildJob
      rw [shouldBuild_plainV hredo hfr hres (fun ts e => by cases e)]
      exact hD _ _ _ rfl (by intro h; cases h) (by intro h; cases h)
    | need ts =>
      have hDn := hD _ _ _ rfl (by intro h; cases h) (by intro h; cases h)
      have hok : NeedOk rank t (rank t) ts := hnn ts rfl
      have hsb := shouldBuild_needV hredo hfr hres
      by_cases hts : ts = [t]
      · unfold buildJob
        rw [hsb]
        simp only [hts, if_true]
        exact hDn
      · simp only [hts, if_false] at hsb
        cases hno : cx.noOob with
        | true =>
          unfold buildJob
          rw [hsb]
          simp only [hno, if_true]
          exact hDn
        | false =>
          rw [Deps.buildJob_need E d cx fuel t w ts hno hd1 hd2 (by rw [hsb]), hsb]
          have hlow : ∀ x ∈ ts, rank x < rank t := by
            rcases hok with h | ⟨_, h⟩
            · exact absurd h hts
            · exact h
          obtain ⟨a1, a2, a3, a4, a5⟩ := job_oob (b := b) hE rfl hcrash hi1 ts hlow hXa hlt po
          exact ⟨a1, (hdx.toBExt.mono (Nat.succ_le_of_lt hlt)).trans a2, a3, fun h hz => a4 (hdx.noFail hi.Rpos h) hz, a5⟩

end RedoModel.Deps.S
