import RedoModel.Lemmas.DepsOodUp3
/-!
# redo-ood — part 4: the lower bound with an abstract fuel certificate, and exactness

`isDirty_builder_clean` (DepsOod2) with the bound on file ids replaced by a `FuelCert`; then
"listed ⇔ not found clean by the next command's check".
-/
namespace RedoModel.Deps

theorem isDirty_builder_cleanF (w : World) (R : Nat) (hR : R ≠ 0) {Fu : Nat → List Nat → Nat → Prop}
    (hF : FuelCert w R Fu) {f mx : Nat} (h : PC w R f mx) :
    ∀ (fuel : Nat) (w' : World) (cache seen : List Nat) (pre : Option Rec),
      BInv w w' R → (∀ s, pre = some s → BRec w R f s) → Fu fuel seen f →
      (isDirty false R fuel w' cache f mx seen pre).1 = .clean ∧
      BInv w (isDirty false R fuel w' cache f mx seen pre).2.1 R := by
  induction h with
  | mk f mx ch hfail hch hle hst hm hc ih =>
    intro fuel w' cache seen pre hi hpre hfu
    have hpc : PC w R f mx := PC.mk f mx ch hfail hch hle hst hm hc
    obtain ⟨hns, hf0⟩ := hF.enter hfu hpc
    obtain ⟨fuel, rfl⟩ : ∃ k, fuel = k + 1 := ⟨fuel - 1, by omega⟩
    have hr : BRec w R f (pre.getD (getRec w' R f)) := by
      cases pre with
      | none => exact (hi.2.2 f).2
      | some s => exact hpre s rfl
    simp (config := { zeta := true, zetaHave := true }) only [isDirty, Bool.false_eq_true, ↓reduceIte, hns]
    generalize pre.getD (getRec w' R f) = r at hr ⊢
    have hrf : r.failed = none := by rcases hr with h | h <;> (subst h; exact hfail)
    have hrc : r.changed = some ch := by rcases hr with h | h <;> (subst h; exact hch)
    have hrs : r.stamp = some (readStamp w' f) := by
      rw [hi.rs]; rcases hr with h | h <;> (subst h; exact hst)
    split
    · rename_i hf; rw [hrf] at hf; cases hf
    split
    · rename_i hn; rw [hrc] at hn; cases hn
    rename_i ch' hch'
    rw [hrc] at hch'
    cases hch'
    split
    · omega
    split
    · exact ⟨rfl, hi⟩
    rename_i hnck
    have hre : r = getRec w R f := by
      rcases hr with h | h
      · exact h
      · exfalso
        apply hnck
        subst h
        simp [isCheckedR, hR]
    subst hre
    split
    · rename_i hn; rw [hrs] at hn; cases hn
    rename_i old hold
    rw [hrs] at hold
    cases hold
    simp only [ne_eq, not_true_eq_false, if_false]
    have hgd := goDeps_builder_clean w R
      (fun w2 cache s snap => isDirty false R fuel w2 cache s (max ch ((getRec w R f).checked.getD 0)) (f :: seen) (some snap))
      (getRec w R f).csum.isSome f (depsWithRecs w' R (getRec w R f) f) w' cache hi
      (by
        intro p hp
        simp only [depsWithRecs, List.mem_map] at hp
        obtain ⟨d, hd, rfl⟩ := hp
        rw [hi.dp] at hd
        refine ⟨fun hmode w'' c hi'' => ?_, fun hmode => hc d hd hmode⟩
        exact ih d hd hmode fuel w'' c (f :: seen) (some (getRec w' R d.source)) hi''
          (fun s hs => by cases hs; exact (hi.2.2 d.source).2) (hF.child hfu hpc ⟨d, hd, hmode, rfl⟩))
    generalize goDeps _ (getRec w R f).csum.isSome f (depsWithRecs w' R (getRec w R f) f) w' cache [] = gr at hgd
    obtain ⟨o, w2, c2⟩ := gr
    obtain ⟨ho, hi2⟩ := hgd
    dsimp only at ho hi2
    subst ho
    dsimp only
    refine ⟨rfl, ?_⟩
    split
    · exact (hi2.ev _).mark f
    · exact hi2.mark f

/-- **Lower bound with an abstract fuel certificate.** -/
theorem ood_lower_coreF (d : Defects) (n : Nat) (w : World) (hwf : WF w) {Fu : Nat → List Nat → Nat → Prop}
    (hF : FuelCert w (w.runCounter + 2) Fu) (t : Nat) (hlt : t < n) (hkn : known w t = true)
    (ht : isTarget w (w.runCounter + 1) t = true) (fuel : Nat) (hfu : Fu fuel [] t)
    (w2 : World) (hfs : w2.fs = w.fs) (hrecs : w2.recs = w.recs) (hdeps : w2.deps = w.deps)
    (hne : (isDirty false (w.runCounter + 2) fuel w2 [] t (w.runCounter + 2) [] none).1 ≠ .clean) :
    t ∈ (runCmd d n .ood w).1.listing := by
  refine Classical.byContradiction fun hnot => hne ?_
  have hpc := ood_not_listed_pc d n w hwf t hlt hkn ht hnot (R2 := w.runCounter + 2) (by omega)
  have hpc2 : PC w2 (w.runCounter + 2) t (w.runCounter + 2) := PC.congr hfs hrecs hdeps hpc
  have hF2 : FuelCert w2 (w.runCounter + 2) Fu := by
    refine ⟨fun {fuel seen f mx} h1 h2 => hF.enter h1 (PC.congr (w := w2) (w2 := w) hfs.symm hrecs.symm hdeps.symm h2),
      fun {fuel seen f mx s} h1 h2 h3 => hF.child h1
        (PC.congr (w := w2) (w2 := w) hfs.symm hrecs.symm hdeps.symm h2) ?_⟩
    obtain ⟨dd, hd, hm, e⟩ := h3
    refine ⟨dd, ?_, hm, e⟩
    have hg : getRec w2 (w.runCounter + 2) f = getRec w (w.runCounter + 2) f := by simp [getRec, hrecs]
    have hdp : depsOf w2 (getRec w (w.runCounter + 2) f) f = depsOf w (getRec w (w.runCounter + 2) f) f := by
      simp [depsOf, hrecs, hdeps]
    rw [hg, hdp] at hd; exact hd
  exact (isDirty_builder_cleanF w2 (w.runCounter + 2) (by omega) hF2 hpc2 fuel w2 [] [] none (BInv.refl _ _)
    (fun s hs => by cases hs) hfu).1

/-- **Exactness**: a known target below `n` is listed by `redo-ood` iff the check of the following command does not
find it clean. -/
theorem ood_exact_core (d : Defects) (n : Nat) (w : World) (hwf : WF w) {Fu : Nat → List Nat → Nat → Prop}
    (hF1 : FuelCert { w with runCounter := w.runCounter + 1 } (w.runCounter + 1) Fu)
    (hF2 : FuelCert w (w.runCounter + 2) Fu) (hfu : ∀ t, t < n → Fu (2 * n + 4) [] t)
    (t : Nat) (hlt : t < n) (hkn : known w t = true) (ht : isTarget w (w.runCounter + 1) t = true)
    (w2 : World) (hfs : w2.fs = w.fs) (hrecs : w2.recs = w.recs) (hdeps : w2.deps = w.deps) :
    t ∈ (runCmd d n .ood w).1.listing ↔
      (isDirty false (w.runCounter + 2) (2 * n + 4) w2 [] t (w.runCounter + 2) [] none).1 ≠ .clean :=
  ⟨fun h => (ood_upper_core d n w hwf hF1 hfu t h w2 hfs hrecs hdeps _).2,
   fun h => ood_lower_coreF d n w hwf hF2 t hlt hkn ht _ (hfu t hlt) w2 hfs hrecs hdeps h⟩

end RedoModel.Deps
