import RedoModel.Lemmas.Paths

/-!
Semantic lemmas about the lexical path model (used by `Props/C15b.lean`):

* A. a symlink-free file-system semantics (`Tree`, `step`, `walk`, `resolve`) and the proof that
  `normpath` never changes what a resolvable path names (`resolve_normpath`);
* B. `normpath (pushPath b (relpathLex t b)) = t` for absolute normalised `t`, `b` (`rejoin_lex`);
* C. two spellings whose directory parts canonicalise to the same directory get one key
  (`realdirpath_one_key`, `relpath_one_key`), plus the specification of `splitLast`.
-/
namespace RedoModel.Paths

/-! ## A. A file system without symlinks -/

/-- A directory tree without symlinks. -/
inductive Tree where
  | file : Tree
  | dir (entries : List (List Char × Tree)) : Tree

/-- First entry with the given name. -/
def lookup (nm : List Char) : List (List Char × Tree) → Option Tree
  | [] => none
  | (k, t) :: es => if k = nm then some t else lookup nm es

/-- Resolve one component against a stack of nodes (head = current node, last = root).
Like POSIX, every component — also `.` and `..` — needs the current node to be a
directory; `..` at the root stays at the root. -/
def step (st : List Tree) (c : List Char) : Option (List Tree) :=
  match st with
  | Tree.dir es :: rest =>
    if c = dot then some (Tree.dir es :: rest)
    else if c = dotdot then
      (match rest with
       | [] => some (Tree.dir es :: rest)
       | _ :: _ => some rest)
    else
      (match lookup c es with
       | some t => some (t :: Tree.dir es :: rest)
       | none => none)
  | _ => none

/-- Resolve a list of components, left to right. -/
def walk : List Tree → List (List Char) → Option (List Tree)
  | st, [] => some st
  | st, c :: cs => (step st c).bind (fun st' => walk st' cs)

/-- Resolve the path string `p`: absolute paths start at the root, relative ones at the
cwd stack.  The result is the whole chain root…node (head = the node named by `p`).
Trailing and repeated slashes are ignored (this is more permissive than POSIX for `file/`,
which only makes `preserves` stronger). -/
def resolve (root : Tree) (cwd : List Tree) (p : List Char) : Option (List Tree) :=
  walk (if rooted p then [root] else cwd) (comps p)

/-- The current node is a directory. -/
def topIsDir : List Tree → Prop
  | Tree.dir _ :: _ => True
  | _ => False

/-- `st` is a chain root … node in which every node is an entry of the next one. -/
inductive Chain (root : Tree) : List Tree → Prop
  | root : Chain root [root]
  | child {nm es t rest} : Chain root (Tree.dir es :: rest) → (nm, t) ∈ es →
      Chain root (t :: Tree.dir es :: rest)

/-- A valid cwd: a chain from the root whose last node is a directory. -/
def ValidCwd (root : Tree) (cwd : List Tree) : Prop := Chain root cwd ∧ topIsDir cwd

/-- Entry names are real names: non-empty, no `/`, not `.` or `..`.  (Not needed for
`preserves`: `step` never looks up `.` or `..`, and `comps` never yields other bad names.) -/
inductive Tree.WF : Tree → Prop
  | file : Tree.WF Tree.file
  | dir {es} : (∀ e ∈ es, e.1 ≠ [] ∧ '/' ∉ e.1 ∧ e.1 ≠ dot ∧ e.1 ≠ dotdot) →
      (∀ nm t, (nm, t) ∈ es → Tree.WF t) → Tree.WF (Tree.dir es)

theorem lookup_mem {nm es t} (h : lookup nm es = some t) : (nm, t) ∈ es := by
  induction es with
  | nil => simp [lookup] at h
  | cons e es ih =>
    obtain ⟨k, v⟩ := e
    unfold lookup at h
    split at h
    · rename_i hk
      simp only [Option.some.injEq] at h
      subst hk h
      simp
    · exact List.mem_cons_of_mem _ (ih h)

theorem Chain.tail {root t u rest} (h : Chain root (t :: u :: rest)) : Chain root (u :: rest) := by
  cases h with
  | child h _ => exact h

/-- Resolution keeps the stack a chain from the root. -/
theorem step_chain {root st c st'} (hc : Chain root st) (h : step st c = some st') :
    Chain root st' := by
  unfold step at h
  split at h
  · rename_i es rest
    split at h
    · simp only [Option.some.injEq] at h; subst h; exact hc
    · split at h
      · split at h
        · simp only [Option.some.injEq] at h; subst h; exact hc
        · simp only [Option.some.injEq] at h; subst h; exact hc.tail
      · split at h
        · rename_i t hl
          simp only [Option.some.injEq] at h; subst h
          exact .child hc (lookup_mem hl)
        · simp at h
  · simp at h

theorem walk_chain {root st cs st'} (hc : Chain root st) (h : walk st cs = some st') :
    Chain root st' := by
  induction cs generalizing st with
  | nil => simp only [walk, Option.some.injEq] at h; subst h; exact hc
  | cons c cs ih =>
    simp only [walk] at h
    cases hs : step st c with
    | none => rw [hs] at h; simp at h
    | some s => rw [hs] at h; exact ih (step_chain hc hs) h

theorem walk_append (S : List Tree) (xs ys : List (List Char)) :
    walk S (xs ++ ys) = (walk S xs).bind (fun S' => walk S' ys) := by
  induction xs generalizing S with
  | nil => simp [walk]
  | cons x xs ih =>
    simp only [List.cons_append, walk]
    cases step S x with
    | none => simp
    | some s => simp [ih]

theorem walk_single (S : List Tree) (c : List Char) : walk S [c] = step S c := by
  simp only [walk]
  cases step S c <;> simp

theorem walk_snoc {S xs c S1} (h : walk S xs = some S1) : walk S (xs ++ [c]) = step S1 c := by
  rw [walk_append, h]
  simp [walk_single]

theorem walk_snoc_inv {S xs c S1} (h : walk S (xs ++ [c]) = some S1) :
    ∃ S', walk S xs = some S' ∧ step S' c = some S1 := by
  rw [walk_append] at h
  cases hw : walk S xs with
  | none => rw [hw] at h; simp at h
  | some S' =>
    rw [hw] at h
    simp only [Option.bind_some, walk_single] at h
    exact ⟨S', rfl, h⟩

theorem step_dot {S S2} (h : step S dot = some S2) : S2 = S := by
  unfold step at h
  split at h
  · simp at h; exact h.symm
  · simp at h

theorem step_dotdot_root {r S2} (h : step [r] dotdot = some S2) : S2 = [r] := by
  unfold step at h
  split at h
  · rename_i es rest heq
    simp only [List.cons.injEq] at heq
    obtain ⟨h1, h2⟩ := heq
    subst h1 h2
    rw [if_neg (by decide), if_pos rfl] at h
    simp at h; exact h.symm
  · simp at h

/-- Entering an entry and leaving it again with `..` is the identity. -/
theorem step_name_dotdot {S S1 S2 c} (h1 : c ≠ dot) (h2 : c ≠ dotdot)
    (hs : step S c = some S1) (hd : step S1 dotdot = some S2) : S2 = S := by
  unfold step at hs
  split at hs
  · rename_i es rest
    rw [if_neg h1, if_neg h2] at hs
    split at hs
    · rename_i t hl
      simp only [Option.some.injEq] at hs; subst hs
      unfold step at hd
      split at hd
      · rename_i es' rest' heq
        simp only [List.cons.injEq] at heq
        obtain ⟨e1, e2⟩ := heq
        subst e1 e2
        rw [if_neg (by decide), if_pos rfl] at hd
        simp at hd; exact hd.symm
      · simp at hd
    · simp at hs
  · simp at hs

theorem dot_ne_dotdot : dot ≠ dotdot := by decide

theorem not_dot_mem_push {root st c} (h : dot ∉ st) : dot ∉ push root st c := by
  intro hm
  by_cases hc : c = dot
  · rw [hc] at hm; unfold push at hm; rw [if_pos rfl] at hm; exact h hm
  · rcases mem_push hm with e | e | e
    · exact h e
    · exact hc e.symm
    · exact dot_ne_dotdot e

/-- One step of the clean-up loop is sound for resolution: if the components consumed so
far resolve, and so does the next one, then the output stack resolves to the same place. -/
theorem push_sound {root : Bool} {S0 S1 S2 : List Tree} {st : List (List Char)} {c : List Char}
    (hroot : root = true → ∃ r, S0 = [r]) (hdot : dot ∉ st)
    (h1 : walk S0 st.reverse = some S1) (h2 : step S1 c = some S2) :
    walk S0 (push root st c).reverse = some S2 := by
  unfold push
  split
  · rename_i hc; subst hc
    rw [step_dot h2]; exact h1
  · rename_i hnd
    split
    · rename_i hc; subst hc
      cases st with
      | nil =>
        simp only [List.reverse_nil, walk, Option.some.injEq] at h1
        subst h1
        cases root with
        | true =>
          obtain ⟨r, hr⟩ := hroot rfl
          subst hr
          simp only [if_true, List.reverse_nil, walk]
          rw [step_dotdot_root h2]
        | false =>
          simp only [Bool.false_eq_true, if_false, List.reverse_cons, List.reverse_nil,
            List.nil_append]
          rw [walk_single]; exact h2
      | cons top rest =>
        simp only
        split
        · rw [List.reverse_cons, walk_snoc h1]; exact h2
        · rename_i htop
          rw [List.reverse_cons] at h1
          obtain ⟨S', hw, hs⟩ := walk_snoc_inv h1
          have htd : top ≠ dot := fun e => hdot (by simp [e])
          rw [step_name_dotdot htd htop hs h2]; exact hw
    · rw [List.reverse_cons, walk_snoc h1]; exact h2

theorem foldl_push_sound {root : Bool} {S0 : List Tree} (hroot : root = true → ∃ r, S0 = [r])
    (cs : List (List Char)) :
    ∀ (st : List (List Char)) (S1 R : List Tree), dot ∉ st → walk S0 st.reverse = some S1 →
      walk S1 cs = some R → walk S0 (cs.foldl (push root) st).reverse = some R := by
  induction cs with
  | nil =>
    intro st S1 R _ h1 h2
    simp only [walk, Option.some.injEq] at h2
    subst h2; simpa using h1
  | cons c cs ih =>
    intro st S1 R hd h1 h2
    simp only [walk] at h2
    cases hs : step S1 c with
    | none => rw [hs] at h2; simp at h2
    | some S2 =>
      rw [hs] at h2
      simp only [Option.bind_some] at h2
      simp only [List.foldl_cons]
      exact ih _ S2 R (not_dot_mem_push hd) (push_sound hroot hd h1 hs) h2

/-- Component level: cleaning never changes where a resolvable component list leads. -/
theorem walk_cleanComps {root : Bool} {S0 R : List Tree} {cs : List (List Char)}
    (hroot : root = true → ∃ r, S0 = [r]) (h : walk S0 cs = some R) :
    walk S0 (cleanComps root cs) = some R := by
  unfold cleanComps
  exact foldl_push_sound hroot cs [] S0 R (by simp) (by simp [walk]) h

theorem comps_normpath_rooted {p : List Char} (h : rooted p = true) :
    comps (normpath p) = cleanComps true (comps p) := by
  rw [normpath_def, h]
  simp only [render, if_true]
  exact comps_slash_joinSlash _ (cleanComps_good (comps_good p))

theorem rooted_normpath (p : List Char) : rooted (normpath p) = rooted p :=
  rooted_render (cleanComps_good (comps_good p))

/-- String level: if `p` resolves then `normpath p` resolves to the same node (indeed the
same chain).  `hcwd` is only used for the empty path `p = ""` (cleaned to `.`). -/
theorem resolve_normpath {root : Tree} {cwd : List Tree} {p : List Char} {n : List Tree}
    (hcwd : topIsDir cwd) (h : resolve root cwd p = some n) :
    resolve root cwd (normpath p) = some n := by
  unfold resolve at h ⊢
  rw [rooted_normpath]
  cases hr : rooted p with
  | true =>
    rw [hr] at h
    simp only [if_true] at h ⊢
    rw [comps_normpath_rooted hr]
    exact walk_cleanComps (fun _ => ⟨root, rfl⟩) h
  | false =>
    rw [hr] at h
    simp only [Bool.false_eq_true, if_false] at h ⊢
    have hw := walk_cleanComps (root := false) (by simp) h
    have hg := cleanComps_good (root := false) (comps_good p)
    rw [normpath_def, hr]
    generalize cleanComps false (comps p) = cs at hw hg
    cases cs with
    | nil =>
      simp only [walk, Option.some.injEq] at hw
      subst hw
      have : comps (render false []) = [dot] := by decide
      rw [this, walk_single]
      unfold topIsDir at hcwd
      split at hcwd
      · simp [step]
      · exact absurd hcwd id
    | cons c cs' =>
      have : comps (render false (c :: cs')) = c :: cs' := by
        simp only [render, Bool.false_eq_true, if_false, List.isEmpty_cons]
        exact comps_joinSlash _ (by simp) hg
      rw [this]; exact hw

/-! ### The POSIX trailing-slash rule

POSIX refuses `file/`.  `resolve` ignores trailing slashes; `resolveStrict` adds the rule.
`normpath` preserves strict resolution as well. -/

instance (st : List Tree) : Decidable (topIsDir st) := by
  unfold topIsDir; split <;> infer_instance

/-- `resolve`, and a path with a trailing slash must name a directory. -/
def resolveStrict (root : Tree) (cwd : List Tree) (p : List Char) : Option (List Tree) :=
  match resolve root cwd p with
  | some n => if p.getLast? = some '/' ∧ ¬ topIsDir n then none else some n
  | none => none

theorem resolveStrict_eq_some {root cwd p n} :
    resolveStrict root cwd p = some n ↔
      resolve root cwd p = some n ∧ (p.getLast? = some '/' → topIsDir n) := by
  unfold resolveStrict
  cases resolve root cwd p with
  | none => simp
  | some m =>
    simp only [Option.some.injEq]
    constructor
    · intro h
      split at h
      · simp at h
      · rename_i hn
        simp only [Option.some.injEq] at h; subst h
        exact ⟨rfl, fun hl => Classical.byContradiction fun hd => hn ⟨hl, hd⟩⟩
    · rintro ⟨rfl, h⟩
      rw [if_neg (fun hc => hc.2 (h hc.1))]

theorem getLast?_joinSlash (cs : List (List Char)) (h : ∀ c ∈ cs, GoodComp c) :
    (joinSlash cs).getLast? ≠ some '/' := by
  induction cs with
  | nil => simp [joinSlash]
  | cons c cs ih =>
    cases cs with
    | nil =>
      simp only [joinSlash]
      intro hl
      exact (h c (by simp)).2 (List.mem_of_getLast? hl)
    | cons d ds =>
      have hne := joinSlash_ne_nil (d :: ds) (by simp) (fun x hx => h x (by simp [hx]))
      have ih' := ih (fun x hx => h x (by simp [hx]))
      simp only [joinSlash, List.getLast?_append]
      cases hj : joinSlash (d :: ds) with
      | nil => exact absurd hj hne
      | cons y ys =>
        rw [hj] at ih'
        rw [List.getLast?_cons_cons]
        cases hl : (y :: ys).getLast? with
        | none => simp at hl
        | some z => rw [hl] at ih'; simpa using ih'

/-- A cleaned path ends in `/` only if it is the root. -/
theorem normpath_trailing {p : List Char} (h : (normpath p).getLast? = some '/') :
    rooted p = true ∧ cleanComps true (comps p) = [] := by
  have hg := cleanComps_good (root := rooted p) (comps_good p)
  rw [normpath_def] at h
  cases hr : rooted p with
  | true =>
    rw [hr] at h hg
    refine ⟨rfl, ?_⟩
    generalize cleanComps true (comps p) = cs at h hg
    cases cs with
    | nil => rfl
    | cons c cs' =>
      exfalso
      have hne := joinSlash_ne_nil (c :: cs') (by simp) hg
      simp only [render, if_true] at h
      cases hj : joinSlash (c :: cs') with
      | nil => exact hne hj
      | cons y ys =>
        have := getLast?_joinSlash _ hg
        rw [hj] at h this
        rw [List.getLast?_cons_cons] at h
        exact this h
  | false =>
    exfalso
    rw [hr] at h hg
    generalize cleanComps false (comps p) = cs at h hg
    simp only [render, Bool.false_eq_true, if_false] at h
    split at h
    · revert h; decide
    · exact getLast?_joinSlash _ hg h

theorem comps_eq_nil {p : List Char} (h : comps p = []) : ∀ x ∈ p, x = '/' := by
  induction p with
  | nil => simp
  | cons c cs ih =>
    by_cases hc : c = '/'
    · subst hc
      have : comps ('/' :: cs) = comps cs := by
        simp [comps, splitSlash]
      rw [this] at h
      intro x hx
      rcases List.mem_cons.1 hx with e | e
      · exact e
      · exact ih h x e
    · exfalso
      unfold comps splitSlash at h
      rw [if_neg hc] at h
      have := splitSlash_ne_nil cs
      cases hs : splitSlash cs with
      | nil => exact this hs
      | cons a as => rw [hs] at h; simp at h

theorem walk_cons_topIsDir {S c cs R} (h : walk S (c :: cs) = some R) : topIsDir S := by
  simp only [walk] at h
  cases hs : step S c with
  | none => rw [hs] at h; simp at h
  | some S' =>
    unfold step at hs
    split at hs
    · trivial
    · simp at hs

theorem resolveStrict_normpath {root : Tree} {cwd : List Tree} {p : List Char} {n : List Tree}
    (hcwd : topIsDir cwd) (h : resolveStrict root cwd p = some n) :
    resolveStrict root cwd (normpath p) = some n := by
  rw [resolveStrict_eq_some] at h ⊢
  obtain ⟨h1, h2⟩ := h
  have h3 := resolve_normpath hcwd h1
  refine ⟨h3, fun hl => ?_⟩
  obtain ⟨hr, hc⟩ := normpath_trailing hl
  -- the cleaned path is the root
  have hn : n = [root] := by
    unfold resolve at h3
    rw [rooted_normpath, hr, comps_normpath_rooted hr, hc] at h3
    simpa [walk] using h3.symm
  by_cases hp : p.getLast? = some '/'
  · exact h2 hp
  · subst hn
    unfold resolve at h1
    rw [hr] at h1
    simp only [if_true] at h1
    cases hcs : comps p with
    | nil =>
      exfalso
      have hall := comps_eq_nil hcs
      cases hlast : p.getLast? with
      | none =>
        have : p = [] := by simpa using hlast
        subst this; simp [rooted] at hr
      | some z =>
        have := hall z (List.mem_of_getLast? hlast)
        subst this; exact hp hlast
    | cons c cs => rw [hcs] at h1; exact walk_cons_topIsDir h1

/-! ## B. Relative path and re-joining -/

/-- No `.` and no `..`. -/
def Plain (cs : List (List Char)) : Prop := ∀ c ∈ cs, c ≠ dot ∧ c ≠ dotdot

theorem NStack.plain {st : List (List Char)} (h : NStack true st) : Plain st := by
  induction h with
  | dds ha hr => rw [hr rfl]; intro c hc; simp at hc
  | real h1 h2 _ ih =>
    intro x hx
    rcases List.mem_cons.1 hx with e | e
    · subst e; exact ⟨h1, h2⟩
    · exact ih x e

theorem Plain.tail {c cs} (h : Plain (c :: cs)) : Plain cs :=
  fun x hx => h x (by simp [hx])

/-- An absolute normalised path is `/` followed by its plain components joined. -/
theorem abs_normal {t : List Char} (hr : rooted t = true) (hn : normpath t = t) :
    Plain (comps t) ∧ t = '/' :: joinSlash (comps t) := by
  have hcs : comps t = cleanComps true (comps t) := by
    calc comps t = comps (normpath t) := by rw [hn]
      _ = cleanComps true (comps t) := comps_normpath_rooted hr
  constructor
  · have := cleanComps_normal true (comps t)
    rw [← hcs] at this
    have hp := NStack.plain this
    intro c hc
    exact hp c (by simp [hc])
  · have : normpath t = '/' :: joinSlash (cleanComps true (comps t)) := by
      rw [normpath_def, hr]; simp [render]
    rw [← hcs, hn] at this
    exact this

theorem splitSlash_append_slash (a r : List Char) :
    splitSlash (a ++ '/' :: r) = splitSlash a ++ splitSlash r := by
  induction a with
  | nil => simp [splitSlash]
  | cons c a ih =>
    simp only [List.cons_append]
    by_cases hc : c = '/'
    · subst hc
      simp only [splitSlash, if_true, ih, List.cons_append]
    · rw [splitSlash, if_neg hc, ih, splitSlash, if_neg hc]
      have := splitSlash_ne_nil a
      cases hs : splitSlash a with
      | nil => exact absurd hs this
      | cons h t => simp

theorem comps_append_slash (a r : List Char) : comps (a ++ '/' :: r) = comps a ++ comps r := by
  unfold comps
  rw [splitSlash_append_slash, List.filter_append]

theorem comps_nil : comps [] = [] := by decide

theorem comps_snoc_slash (a : List Char) : comps (a ++ ['/']) = comps a := by
  rw [comps_append_slash, comps_nil, List.append_nil]

/-- `PathBuf::push` of a relative path concatenates the components. -/
theorem comps_pushPath (a r : List Char) (hr : rooted r = false) :
    comps (pushPath a r) = comps a ++ comps r := by
  unfold pushPath
  rw [hr]
  simp only [Bool.false_eq_true, if_false]
  split
  · rename_i h
    rw [Bool.or_eq_true] at h
    rcases h with h | h
    · have : a = [] := by simpa using h
      subst this; simp [comps_nil]
    · have hl : a.getLast? = some '/' := by simpa using h
      obtain ⟨a', ha⟩ : ∃ a', a = a' ++ ['/'] := by
        rcases List.eq_nil_or_concat a with e | ⟨l, x, e⟩
        · subst e; simp at hl
        · subst e; simp at hl; subst hl; exact ⟨l, by simp⟩
      subst ha
      rw [comps_snoc_slash, List.append_assoc, List.singleton_append, comps_append_slash]
  · exact comps_append_slash a r

theorem rooted_pushPath (a r : List Char) (ha : rooted a = true) (hr : rooted r = false) :
    rooted (pushPath a r) = true := by
  unfold pushPath
  rw [hr]
  cases a with
  | nil => simp [rooted] at ha
  | cons c a =>
    simp only [Bool.false_eq_true, if_false]
    split <;> simpa [rooted] using ha

theorem mem_relComps {ts bs : List (List Char)} {x : List Char} (h : x ∈ relComps ts bs) :
    x = dotdot ∨ x ∈ ts := by
  fun_induction relComps ts bs with
  | case1 ts b bs ih =>
    rcases ih h with e | e
    · exact .inl e
    · exact .inr (by simp [e])
  | case2 t ts b bs hne =>
    rcases List.mem_append.1 h with e | e
    · exact .inl (List.eq_of_mem_replicate e)
    · exact .inr e
  | case3 ts bs _ =>
    rcases List.mem_append.1 h with e | e
    · exact .inl (List.eq_of_mem_replicate e)
    · exact .inr e

theorem push_plain {root st c} (h1 : c ≠ dot) (h2 : c ≠ dotdot) : push root st c = c :: st := by
  unfold push; rw [if_neg h1, if_neg h2]

theorem foldl_push_plain {root} (cs st : List (List Char)) (h : Plain cs) :
    cs.foldl (push root) st = cs.reverse ++ st := by
  induction cs generalizing st with
  | nil => simp
  | cons c cs ih =>
    simp only [List.foldl_cons, push_plain (h c (by simp)).1 (h c (by simp)).2]
    rw [ih _ h.tail]; simp

/-- `k` times `..` pop `k` plain components. -/
theorem foldl_push_pop {root} (xs st : List (List Char)) (h : Plain xs) :
    (List.replicate xs.length dotdot).foldl (push root) (xs ++ st) = st := by
  induction xs with
  | nil => simp
  | cons x xs ih =>
    simp only [List.length_cons, List.replicate_succ, List.foldl_cons, List.cons_append]
    have hx := (h x (by simp)).2
    have : push root (x :: (xs ++ st)) dotdot = xs ++ st := by
      unfold push
      rw [if_neg (by decide), if_pos rfl]
      simp [hx]
    rw [this]; exact ih h.tail

theorem foldl_push_climb {root} (bs ts st : List (List Char)) (hb : Plain bs) (ht : Plain ts) :
    (bs ++ (List.replicate bs.length dotdot ++ ts)).foldl (push root) st = ts.reverse ++ st := by
  rw [List.foldl_append, List.foldl_append, foldl_push_plain bs st hb]
  have := foldl_push_pop (root := root) bs.reverse st (fun c hc => hb c (by simpa using hc))
  rw [List.length_reverse] at this
  rw [this, foldl_push_plain ts st ht]

/-- Cleaning `base ++ relComps target base` gives `target`. -/
theorem foldl_push_relComps {root} (ts bs : List (List Char)) :
    ∀ st, Plain ts → Plain bs →
      (bs ++ relComps ts bs).foldl (push root) st = ts.reverse ++ st := by
  fun_induction relComps ts bs with
  | case1 ts b bs ih =>
    intro st ht hb
    simp only [List.cons_append, List.foldl_cons, push_plain (ht b (by simp)).1 (ht b (by simp)).2]
    rw [ih _ ht.tail hb.tail]; simp
  | case2 t ts b bs hne =>
    intro st ht hb
    exact foldl_push_climb (b :: bs) (t :: ts) st hb ht
  | case3 ts bs _ =>
    intro st ht hb
    exact foldl_push_climb bs ts st hb ht

theorem cleanComps_relComps {root} {ts bs : List (List Char)} (ht : Plain ts) (hb : Plain bs) :
    cleanComps root (bs ++ relComps ts bs) = ts := by
  unfold cleanComps
  rw [foldl_push_relComps ts bs [] ht hb]; simp

theorem comps_joinSlash' (cs : List (List Char)) (h : ∀ c ∈ cs, GoodComp c) :
    comps (joinSlash cs) = cs := by
  cases cs with
  | nil => decide
  | cons c cs => exact comps_joinSlash _ (by simp) h

theorem rooted_joinSlash' (cs : List (List Char)) (h : ∀ c ∈ cs, GoodComp c) :
    rooted (joinSlash cs) = false := by
  cases cs with
  | nil => rfl
  | cons c cs => exact rooted_joinSlash _ (by simp) h

theorem cleanComps_true_plain (cs : List (List Char)) : Plain (cleanComps true cs) := by
  have := NStack.plain (cleanComps_normal true cs)
  intro c hc
  exact this c (by simp [hc])

/-- Cleaning may be done on a prefix first (when the cleaned prefix is plain). -/
theorem cleanComps_append_clean (root : Bool) (bs rest : List (List Char))
    (hp : Plain (cleanComps root bs)) :
    cleanComps root (bs ++ rest) = cleanComps root (cleanComps root bs ++ rest) := by
  have h2 : (cleanComps root bs).foldl (push root) [] = (cleanComps root bs).reverse := by
    rw [foldl_push_plain _ [] hp]; simp
  unfold cleanComps at h2 ⊢
  rw [List.foldl_append, List.foldl_append, h2, List.reverse_reverse]

/-- Expressing an absolute `t` relative to an absolute base `b` and joining the result back
onto `b` names `t` again — for arbitrary (not necessarily normalised) spellings of both. -/
theorem rejoin_lex_gen {t b : List Char} (hrt : rooted t = true) (hrb : rooted b = true) :
    normpath (pushPath b (relpathLex t b)) = normpath t := by
  have hct : comps (normpath t) = cleanComps true (comps t) := comps_normpath_rooted hrt
  have hcb : comps (normpath b) = cleanComps true (comps b) := comps_normpath_rooted hrb
  have hgood : ∀ c ∈ relComps (comps (normpath t)) (comps (normpath b)), GoodComp c := by
    intro c hc
    rcases mem_relComps hc with e | e
    · subst e; exact dotdot_good
    · exact comps_good _ c e
  have hrr : rooted (relpathLex t b) = false := rooted_joinSlash' _ hgood
  have hcr : comps (relpathLex t b) = relComps (comps (normpath t)) (comps (normpath b)) :=
    comps_joinSlash' _ hgood
  rw [normpath_def, rooted_pushPath b _ hrb hrr, comps_pushPath b _ hrr, hcr, hct, hcb,
    cleanComps_append_clean true _ _ (cleanComps_true_plain _),
    cleanComps_relComps (cleanComps_true_plain _) (cleanComps_true_plain _),
    normpath_def t, hrt]

/-- Expressing an absolute normalised `t` relative to an absolute normalised base `b` and
joining the result back onto `b` yields `t` again (also for `t = b`, where the relative
path is empty, and for `b = "/"`). -/
theorem rejoin_lex {t b : List Char} (hrt : rooted t = true) (hnt : normpath t = t)
    (hrb : rooted b = true) (_hnb : normpath b = b) :
    normpath (pushPath b (relpathLex t b)) = t := by
  rw [rejoin_lex_gen hrt hrb, hnt]

/-! ## C. One key per target -/

theorem joinSlash_splitSlash (p : List Char) : joinSlash (splitSlash p) = p := by
  induction p with
  | nil => rfl
  | cons c cs ih =>
    have hne := splitSlash_ne_nil cs
    unfold splitSlash
    cases hs : splitSlash cs with
    | nil => exact absurd hs hne
    | cons h t =>
      rw [hs] at ih
      split
      · rename_i hc; subst hc
        simp only [joinSlash, List.nil_append, ih]
      · simp only
        cases t with
        | nil => simp only [joinSlash] at ih ⊢; rw [ih]
        | cons d t' => simp only [joinSlash, List.cons_append] at ih ⊢; rw [ih]

theorem joinSlash_snoc (xs : List (List Char)) (f : List Char) (h : xs ≠ []) :
    joinSlash (xs ++ [f]) = joinSlash xs ++ '/' :: f := by
  induction xs with
  | nil => exact absurd rfl h
  | cons x xs ih =>
    cases xs with
    | nil => simp [joinSlash]
    | cons y ys =>
      have := ih (by simp)
      simp only [List.cons_append, joinSlash] at this ⊢
      rw [this]; simp

/-- `splitLast` cuts after the last `/`. -/
theorem splitLast_spec {p d f : List Char} (h : splitLast p = some (d, f)) :
    p = d ++ f ∧ d.getLast? = some '/' ∧ '/' ∉ f := by
  unfold splitLast at h
  generalize hr : (splitSlash p).reverse = r at h
  match r, h with
  | f' :: g :: rest, h =>
    simp only [Option.some.injEq, Prod.mk.injEq] at h
    obtain ⟨hd, hf⟩ := h
    subst hf
    have hsp : splitSlash p = (g :: rest).reverse ++ [f'] := by
      have := congrArg List.reverse hr
      simpa using this
    have hp : p = (joinSlash (g :: rest).reverse ++ ['/']) ++ f' := by
      have := joinSlash_splitSlash p
      rw [hsp, joinSlash_snoc _ _ (by simp)] at this
      rw [← this]; simp
    have hd' : d = joinSlash (g :: rest).reverse ++ ['/'] := by
      have key : ∀ (A f : List Char), (A ++ f).take ((A ++ f).length - f.length) = A := by
        intro A f; simp
      rw [← hd, hp]; exact key _ _
    refine ⟨by rw [hd']; exact hp, by rw [hd']; simp, ?_⟩
    exact splitSlash_noslash p f' (by rw [hsp]; simp)

theorem splitLast_rooted {p d f : List Char} (h : splitLast p = some (d, f))
    (hr : rooted p = true) : rooted d = true ∧ isDotPath d = false := by
  obtain ⟨hp, hl, _⟩ := splitLast_spec h
  have : rooted d = true := by
    cases d with
    | nil => simp at hl
    | cons c d' => rw [hp] at hr; simpa [rooted] using hr
  exact ⟨this, by simp [isDotPath, this]⟩

theorem realdirpath_of_canon {canon : List Char → Option (List Char)} {cwd t d f D : List Char}
    (hs : splitLast t = some (d, f)) (hd : isDotPath d = false) (hc : canon d = some D) :
    realdirpath canon cwd t = pushPath D f := by
  simp [realdirpath, hs, hd, hc]

/-- Two spellings with the same final component whose directory parts canonicalise to the
same directory get the same key. -/
theorem realdirpath_one_key {canon : List Char → Option (List Char)}
    {cwd t1 t2 d1 d2 f D : List Char}
    (hs1 : splitLast t1 = some (d1, f)) (hs2 : splitLast t2 = some (d2, f))
    (hd1 : isDotPath d1 = false) (hd2 : isDotPath d2 = false)
    (hc1 : canon d1 = some D) (hc2 : canon d2 = some D) :
    realdirpath canon cwd t1 = realdirpath canon cwd t2 := by
  rw [realdirpath_of_canon hs1 hd1 hc1, realdirpath_of_canon hs2 hd2 hc2]

theorem relpath_eq (canon : List Char → Option (List Char)) (cwd t base : List Char) :
    relpath canon cwd t base =
      relpathLex (realdirpath canon cwd (absPath cwd t)) (realdirpath canon cwd base) := rfl

/-- General form: the hypotheses speak about the spellings made absolute (as `relpath` does). -/
theorem relpath_one_key_abs {canon : List Char → Option (List Char)}
    {cwd t1 t2 d1 d2 f D : List Char} (base : List Char)
    (hs1 : splitLast (absPath cwd t1) = some (d1, f))
    (hs2 : splitLast (absPath cwd t2) = some (d2, f))
    (hd1 : isDotPath d1 = false) (hd2 : isDotPath d2 = false)
    (hc1 : canon d1 = some D) (hc2 : canon d2 = some D) :
    relpath canon cwd t1 base = relpath canon cwd t2 base := by
  rw [relpath_eq, relpath_eq, realdirpath_one_key hs1 hs2 hd1 hd2 hc1 hc2]

/-- Absolute spellings: the directory part of an absolute path is never a dot-path. -/
theorem relpath_one_key {canon : List Char → Option (List Char)}
    {cwd t1 t2 d1 d2 f D : List Char} (base : List Char)
    (hr1 : rooted t1 = true) (hr2 : rooted t2 = true)
    (hs1 : splitLast t1 = some (d1, f)) (hs2 : splitLast t2 = some (d2, f))
    (hc1 : canon d1 = some D) (hc2 : canon d2 = some D) :
    relpath canon cwd t1 base = relpath canon cwd t2 base := by
  have e1 : absPath cwd t1 = t1 := by simp [absPath, hr1]
  have e2 : absPath cwd t2 = t2 := by simp [absPath, hr2]
  exact relpath_one_key_abs base (by rw [e1]; exact hs1) (by rw [e2]; exact hs2)
    (splitLast_rooted hs1 hr1).2 (splitLast_rooted hs2 hr2).2 hc1 hc2

end RedoModel.Paths
