import RedoModel.Lemmas.Once.DepsOnceDirty
/-! Run-level invariant of the once-per-run proof and what the elementary updates do to it. -/
namespace RedoModel.Deps.Once
open RedoModel.Deps

/-- Hygiene of the project: the `//ALWAYS` pseudo file, .do candidates and the files named in
`redo-ifcreate` (or tested before being declared) have no build rule. -/
structure Hyg (w : World) : Prop where
  r0 : w.rules alwaysId = []
  dofiles : ∀ t c, c ∈ w.rules t → w.rules c = []
  scripts : ∀ c sc, w.progs c = some sc → ∀ f, (f ∈ sc.ifcreate ∨ f ∈ sc.cond) → w.rules f = []

structure RInv (R : Nat) (cyc : List Nat) (w : World) : Prop where
  d : DInv R cyc w
  hyg : Hyg w
  f0 : w.fs alwaysId = none
  g0 : (w.recs alwaysId).isGenerated = false
  cy : ∀ q ∈ cyc, w.rules q ≠ []
  i1 : ∀ t ∈ ranList w, t ∈ cyc ∨ Done R w t
  nd : (ranList w).Nodup
  /-- a target with a build rule that is not running and carries `changed = R` is done -/
  p3 : ∀ z, w.rules z ≠ [] → z ∉ cyc → (getRec w R z).changed = some R → Done R w z

structure RStep (R : Nat) (cyc : List Nat) (add : Nat → Dep → Prop) (w w' : World) : Prop where
  settled : ∀ z, Settled R cyc w z → Settled R cyc w' z
  done : ∀ z, z ∉ cyc → Done R w z → Done R w' z
  rows : ∀ q ∈ cyc, ∀ row ∈ w'.deps, row.target = q → row ∈ w.deps ∨ add q row
  keeps : Keeps w w'

def noAdd : Nat → Dep → Prop := fun _ _ => False

variable {R : Nat} {cyc : List Nat}

theorem RStep.refl (add : Nat → Dep → Prop) (w : World) : RStep R cyc add w w :=
  ⟨fun _ h => h, fun _ _ h => h, fun _ _ _ h _ => .inl h, Keeps.refl w⟩

theorem RStep.trans {add : Nat → Dep → Prop} {a b c : World} (h1 : RStep R cyc add a b) (h2 : RStep R cyc add b c) :
    RStep R cyc add a c where
  settled := fun z h => h2.settled z (h1.settled z h)
  done := fun z hz h => h2.done z hz (h1.done z hz h)
  rows := fun q hq row hrow ht => by
    rcases h2.rows q hq row hrow ht with h | h
    · exact h1.rows q hq row h ht
    · exact .inr h
  keeps := h1.keeps.trans h2.keeps

theorem RStep.mono {add add' : Nat → Dep → Prop} {a b : World} (h : RStep R cyc add a b)
    (ha : ∀ q row, add q row → add' q row) : RStep R cyc add' a b :=
  { h with rows := fun q hq row hrow ht => (h.rows q hq row hrow ht).imp id (ha q row) }

theorem RStep.ofNoAdd {add : Nat → Dep → Prop} {a b : World} (h : RStep R cyc noAdd a b) : RStep R cyc add a b :=
  h.mono (fun _ _ h => h.elim)

theorem getRec_isGenerated (w : World) (R z : Nat) : (getRec w R z).isGenerated = (w.recs z).isGenerated := by
  unfold getRec; simp only; split <;> rfl

theorem getRec_isOverride (w : World) (R z : Nat) : (getRec w R z).isOverride = (w.recs z).isOverride := by
  unfold getRec; simp only; split <;> rfl

/-- From a step of the dirtiness check to a step of the run. -/
theorem RStep.ofDStep {seen : List Nat} {w w' : World} (h : DStep R cyc seen w w') : RStep R cyc noAdd w w' where
  settled := h.settled
  done := fun z hz hd => by
    rcases hd with hd | hd
    · left; rw [h.failedR]; exact hd
    · right; exact (h.settled z ⟨hd, fun hc => absurd hc hz⟩).1
  rows := fun q _ row hrow _ => by rw [h.same.2.1] at hrow; exact .inl hrow
  keeps := (Keeps.refl w).of_same h.same

theorem Hyg.of_keeps {w w' : World} (h : Hyg w) (k : Keeps w w') : Hyg w' := by
  obtain ⟨_, k2, k3, _⟩ := k
  refine ⟨?_, ?_, ?_⟩
  · rw [k2]; exact h.r0
  · rw [k2]; exact h.dofiles
  · rw [k2, k3]; exact h.scripts

theorem RInv.ofDStep {seen : List Nat} {w w' : World} (hinv : RInv R cyc w) (h : DStep R cyc seen w w')
    (hd : DInv R cyc w') : RInv R cyc w' where
  d := hd
  hyg := hinv.hyg.of_keeps (RStep.ofDStep h).keeps
  f0 := by rw [h.same.1]; exact hinv.f0
  g0 := by
    have := h.genF alwaysId (by rw [getRec_isGenerated]; exact hinv.g0)
    rw [getRec_isGenerated] at this; exact this
  cy := by rw [h.same.2.2.2.2.2.2]; exact hinv.cy
  i1 := by
    rw [h.ran]
    intro t ht
    rcases hinv.i1 t ht with hc | hdn
    · exact .inl hc
    · by_cases hc : t ∈ cyc
      · exact .inl hc
      · exact .inr ((RStep.ofDStep h).done t hc hdn)
  nd := by rw [h.ran]; exact hinv.nd
  p3 := by
    intro z hz hzc hch
    rw [h.same.2.2.2.2.2.2] at hz
    rw [h.changed] at hch
    exact (RStep.ofDStep h).done z hzc (hinv.p3 z hz hzc hch)

/-! ### updates that touch no record field but `row`, and dependency rows of unverified or running targets -/

/-- `w'` is `w` up to row ids, dependency rows and the row counter. -/
structure RowEq (w w' : World) : Prop where
  recs : ∀ z, ∃ n, w'.recs z = { (w.recs z) with row := n }
  fs : w'.fs = w.fs
  rules : w'.rules = w.rules
  progs : w'.progs = w.progs
  trace : w'.trace = w.trace
  rc : w'.runCounter = w.runCounter

theorem RowEq.refl (w : World) : RowEq w w := ⟨fun z => ⟨(w.recs z).row, rfl⟩, rfl, rfl, rfl, rfl, rfl⟩

theorem RowEq.trans {a b c : World} (h1 : RowEq a b) (h2 : RowEq b c) : RowEq a c where
  recs := fun z => by
    obtain ⟨n, hn⟩ := h1.recs z
    obtain ⟨m, hm⟩ := h2.recs z
    exact ⟨m, by rw [hm, hn]⟩
  fs := h2.fs.trans h1.fs
  rules := h2.rules.trans h1.rules
  progs := h2.progs.trans h1.progs
  trace := h2.trace.trans h1.trace
  rc := h2.rc.trans h1.rc

theorem RowEq.getRec' {w w' : World} (h : RowEq w w') (R z : Nat) :
    ∃ n, Deps.getRec w' R z = { (Deps.getRec w R z) with row := n } := by
  obtain ⟨n, hn⟩ := h.recs z
  refine ⟨n, ?_⟩
  unfold Deps.getRec
  simp only [hn]
  split <;> rfl

theorem RowEq.keeps {w w' : World} (h : RowEq w w') : Keeps w w' :=
  ⟨h.rc, h.rules, h.progs, fun z _ => by rw [h.fs]⟩

theorem RowEq.v0 {w w' : World} (h : RowEq w w') (z : Nat) : V0 R w' z ↔ V0 R w z := by
  obtain ⟨n, hn⟩ := h.getRec' R z
  unfold V0
  rw [hn, readStamp_congr _ h.fs]
  exact Iff.rfl

theorem RowEq.checked {w w' : World} (h : RowEq w w') (z : Nat) :
    isCheckedR (getRec w' R z) R = isCheckedR (getRec w R z) R := by
  obtain ⟨n, hn⟩ := h.getRec' R z
  rw [hn]; rfl

theorem RowEq.settled {w w' : World} (h : RowEq w w') (z : Nat) : Settled R cyc w' z ↔ Settled R cyc w z := by
  unfold Settled
  rw [h.v0, h.checked]

theorem RowEq.done {w w' : World} (h : RowEq w w') (z : Nat) : Done R w' z ↔ Done R w z := by
  obtain ⟨n, hn⟩ := h.getRec' R z
  unfold Done
  rw [h.v0, hn]
  exact Iff.rfl

theorem RowEq.goodRow {w w' : World} (h : RowEq w w') (row : Dep) : GoodRow R cyc w' row ↔ GoodRow R cyc w row := by
  unfold GoodRow
  rw [h.settled, existsF_congr _ h.fs, h.rules]

theorem RowEq.wfr {w w' : World} (h : RowEq w w') (hw : WFR R w) : WFR R w' := by
  intro z
  obtain ⟨n, hn⟩ := h.recs z
  rw [hn]
  exact (hw z).row n

/-- Updating dependency rows (of targets that are running or not verified) and row ids. -/
theorem RInv.depsUpdate {add : Nat → Dep → Prop} {w w' : World} (hinv : RInv R cyc w) (h : RowEq w w')
    (hdeps : ∀ y, y ∉ cyc → V0 R w y → ∀ row ∈ w'.deps, row.target = y → row ∈ w.deps)
    (hrows : ∀ q ∈ cyc, ∀ row ∈ w'.deps, row.target = q → row ∈ w.deps ∨ add q row) :
    RInv R cyc w' ∧ RStep R cyc add w w' := by
  refine ⟨⟨⟨h.wfr hinv.d.wf, ?_, ?_, ?_, ?_⟩, hinv.hyg.of_keeps h.keeps, by rw [h.fs]; exact hinv.f0, ?_, ?_, ?_, ?_, ?_⟩,
    ⟨fun z hz => (h.settled z).2 hz, fun z _ hz => (h.done z).2 hz, hrows, h.keeps⟩⟩
  · intro y hy hV hck hg ho row hrow ht
    obtain ⟨n, hn⟩ := h.getRec' R y
    rw [hn] at hck hg ho
    have hV' := (h.v0 y).1 hV
    exact (h.goodRow row).2 (hinv.d.j y hy hV' hck hg ho row (hdeps y hy hV' row hrow ht) ht)
  · intro z hz hex
    obtain ⟨n, hn⟩ := h.getRec' R z
    rw [hn] at hz ⊢
    rw [readStamp_congr _ h.fs]
    rw [existsF_congr _ h.fs] at hex
    exact hinv.d.ov z hz hex
  · intro z hz
    obtain ⟨n, hn⟩ := h.getRec' R z
    rw [hn] at hz ⊢
    exact hinv.d.p1 z hz
  · intro z hzc hz
    obtain ⟨n, hn⟩ := h.getRec' R z
    rw [hn] at hz ⊢
    exact hinv.d.p2 z hzc hz
  · obtain ⟨n, hn⟩ := h.recs alwaysId
    rw [hn]; exact hinv.g0
  · rw [h.rules]; exact hinv.cy
  · rw [ranList_congr h.trace]
    intro t ht
    exact (hinv.i1 t ht).imp id (h.done t).2
  · rw [ranList_congr h.trace]; exact hinv.nd
  · intro z hz hzc hch
    obtain ⟨n, hn⟩ := h.getRec' R z
    rw [hn] at hch
    rw [h.rules] at hz
    exact (h.done z).2 (hinv.p3 z hz hzc hch)

theorem RowEq.addKnown (w : World) (z : Nat) : RowEq w (Deps.addKnown w z) := by
  unfold Deps.addKnown
  split
  · exact RowEq.refl w
  · refine ⟨fun y => ?_, rfl, rfl, rfl, rfl, rfl⟩
    simp only [setRec]
    split
    · rename_i e; subst e; exact ⟨_, rfl⟩
    · exact ⟨_, rfl⟩

theorem RowEq.addDep (w : World) (t s : Nat) (m : Bool) : RowEq w (Deps.addDep w t s m) := by
  have := RowEq.addKnown w s
  exact ⟨this.recs, this.fs, this.rules, this.progs, this.trace, this.rc⟩

theorem addKnown_deps (w : World) (z : Nat) : (addKnown w z).deps = w.deps := by
  unfold addKnown; split <;> rfl

theorem mem_addDep_deps {w : World} {t s : Nat} {m : Bool} {row : Dep} (h : row ∈ (addDep w t s m).deps) :
    row = { target := t, source := s, modeM := m, deleteMe := false } ∨ (row ∈ w.deps ∧ row.target ≠ t) ∨
    (row ∈ w.deps ∧ row.source ≠ s) := by
  simp only [addDep, List.mem_cons, List.mem_filter, addKnown_deps] at h
  rcases h with h | ⟨h1, h2⟩
  · exact .inl h
  · by_cases ht : row.target = t
    · right; right
      refine ⟨h1, ?_⟩
      intro hs; simp [ht, hs] at h2
    · exact .inr (.inl ⟨h1, ht⟩)

theorem mem_addDep_deps' {w : World} {t s : Nat} {m : Bool} {row : Dep} (h : row ∈ (addDep w t s m).deps) :
    row = { target := t, source := s, modeM := m, deleteMe := false } ∨ row ∈ w.deps := by
  rcases mem_addDep_deps h with h | h | h
  · exact .inl h
  · exact .inr h.1
  · exact .inr h.1

/-- Declaring a dependency of a target that is running or not verified. -/
theorem RInv.addDep {add : Nat → Dep → Prop} {w : World} (hinv : RInv R cyc w) (p s : Nat) (m : Bool)
    (hp : p ∈ cyc ∨ ¬ V0 R w p)
    (hadd : p ∈ cyc → add p { target := p, source := s, modeM := m, deleteMe := false }) :
    RInv R cyc (Deps.addDep w p s m) ∧ RStep R cyc add w (Deps.addDep w p s m) := by
  apply hinv.depsUpdate (RowEq.addDep w p s m)
  · intro y hy hV row hrow ht
    rcases mem_addDep_deps' hrow with h | h
    · subst h
      simp only at ht
      subst ht
      rcases hp with hp | hp
      · exact absurd hp hy
      · exact absurd hV hp
    · exact h
  · intro q hq row hrow ht
    rcases mem_addDep_deps' hrow with h | h
    · subst h
      simp only at ht
      subst ht
      exact .inr (hadd hq)
    · exact .inl h

theorem RInv.addKnown {add : Nat → Dep → Prop} {w : World} (hinv : RInv R cyc w) (z : Nat) :
    RInv R cyc (Deps.addKnown w z) ∧ RStep R cyc add w (Deps.addKnown w z) := by
  apply hinv.depsUpdate (RowEq.addKnown w z)
  · intro y _ _ row hrow _
    rw [addKnown_deps] at hrow; exact hrow
  · intro q _ row hrow _
    rw [addKnown_deps] at hrow; exact .inl hrow

/-! ### writing one record -/

theorem RInv.recWrite {w : World} (hinv : RInv R cyc w) (f : Nat) (r' : Rec) (hwf : WFrec R r')
    (hS : Settled R cyc w f → Settled R cyc (setRec w f r') f)
    (hD : f ∉ cyc → Done R w f → Done R (setRec w f r') f)
    (hJ : f ∉ cyc → V0 R (setRec w f r') f → isCheckedR (getRec (setRec w f r') R f) R = false →
      (getRec (setRec w f r') R f).isGenerated = true → (getRec (setRec w f r') R f).isOverride = false →
      ∀ row ∈ w.deps, row.target = f → GoodRow R cyc w row)
    (hOV : (getRec (setRec w f r') R f).isOverride = true → existsF w f = true →
      isFailedR (getRec (setRec w f r') R f) R = true ∨
      ((getRec (setRec w f r') R f).failed = none ∧
        ((getRec (setRec w f r') R f).stamp = some (readStamp w f) ∨ (getRec (setRec w f r') R f).isGenerated = true)))
    (hg0 : f = alwaysId → r'.isGenerated = false)
    (hP1 : isCheckedR (getRec (setRec w f r') R f) R = true → (getRec (setRec w f r') R f).failed = none)
    (hP2 : f ∈ cyc → (getRec (setRec w f r') R f).changed = some R → (getRec (setRec w f r') R f).failed = none)
    (hP3 : f ∉ cyc → (getRec (setRec w f r') R f).changed = some R → Done R (setRec w f r') f) :
    RInv R cyc (setRec w f r') ∧ RStep R cyc noAdd w (setRec w f r') := by
  have hne : ∀ z, z ≠ f → getRec (setRec w f r') R z = getRec w R z := fun z hz => getRec_setRec_ne _ hz
  have hsettled : ∀ z, Settled R cyc w z → Settled R cyc (setRec w f r') z := by
    intro z hz
    by_cases hzf : z = f
    · subst hzf; exact hS hz
    · unfold Settled V0 at hz ⊢
      rw [hne z hzf]; exact hz
  have hdone : ∀ z, z ∉ cyc → Done R w z → Done R (setRec w f r') z := by
    intro z hzc hz
    by_cases hzf : z = f
    · subst hzf; exact hD hzc hz
    · unfold Done V0 at hz ⊢
      rw [hne z hzf]; exact hz
  refine ⟨⟨⟨hinv.d.wf.setRec f hwf, ?_, ?_, ?_, ?_⟩, ⟨hinv.hyg.r0, hinv.hyg.dofiles, hinv.hyg.scripts⟩, hinv.f0, ?_,
      hinv.cy, ?_, hinv.nd, ?_⟩,
    ⟨hsettled, hdone, fun _ _ _ h _ => .inl h, Keeps.refl _⟩⟩
  · intro y hy hV hck hg ho row hrow ht
    refine GoodRow.mono hsettled rfl rfl ?_
    by_cases hyf : y = f
    · subst hyf; exact hJ hy hV hck hg ho row hrow ht
    · rw [hne y hyf] at hck hg ho
      unfold V0 at hV
      rw [hne y hyf] at hV
      exact hinv.d.j y hy hV hck hg ho row hrow ht
  · intro z hz hex
    by_cases hzf : z = f
    · subst hzf
      rcases hOV hz hex with h | ⟨h1, h2 | h2⟩
      · exact .inl h
      · exact .inr (.inr ⟨h1, h2⟩)
      · exact .inr (.inl h2)
    · rw [hne z hzf] at hz ⊢
      exact hinv.d.ov z hz hex
  · intro z hz
    by_cases hzf : z = f
    · subst hzf; exact hP1 hz
    · rw [hne z hzf] at hz ⊢; exact hinv.d.p1 z hz
  · intro z hzc hz
    by_cases hzf : z = f
    · subst hzf; exact hP2 hzc hz
    · rw [hne z hzf] at hz ⊢; exact hinv.d.p2 z hzc hz
  · simp only [setRec]
    split
    · rename_i e; exact hg0 e.symm
    · exact hinv.g0
  · intro t ht
    rcases hinv.i1 t ht with hc | hd
    · exact .inl hc
    · by_cases hc : t ∈ cyc
      · exact .inl hc
      · exact .inr (hdone t hc hd)
  · intro z hz hzc hch
    by_cases hzf : z = f
    · subst hzf; exact hP3 hzc hch
    · rw [hne z hzf] at hch
      exact hdone z hzc (hinv.p3 z hz hzc hch)

/-- A file that is neither verified nor failed in this run. -/
def Open (R : Nat) (w : World) (t : Nat) : Prop := ¬ V0 R w t ∧ isFailedR (getRec w R t) R = false

theorem Open.not_done {w : World} {t : Nat} (h : Open R w t) : ¬ Done R w t := by
  rintro (hd | hd)
  · rw [h.2] at hd; cases hd
  · exact h.1 hd

theorem Open.not_settled {w : World} {t : Nat} (h : Open R w t) : ¬ Settled R cyc w t := fun hs => h.1 hs.1

theorem RInv.not_ran_of_open {w : World} (hinv : RInv R cyc w) {t : Nat} (ht : t ∉ cyc) (ho : Open R w t) :
    t ∉ ranList w := by
  intro h
  rcases hinv.i1 t h with hc | hd
  · exact ht hc
  · exact ho.not_done hd

/-- No good row points at an open file. -/
theorem GoodRow.source_ne_of_open {w : World} {row : Dep} {t : Nat} (h : GoodRow R cyc w row) (ho : ¬ V0 R w t)
    (hr : w.rules t ≠ []) : row.source ≠ t := by
  intro e
  cases hm : row.modeM with
  | true => exact ho (e ▸ (h.1 hm).1.1)
  | false => exact hr (e ▸ (h.2 hm).2)

theorem getRec_fields (w : World) (R z : Nat) : ∃ c, getRec w R z = { (w.recs z) with changed := c } := by
  unfold getRec
  simp only
  split
  · exact ⟨_, rfl⟩
  · exact ⟨(w.recs z).changed, rfl⟩

theorem V0_of_static {w : World} (hw : WFR R w) (t : Nat) (hf : (w.recs t).failed = none)
    (hs : (w.recs t).stamp = some (readStamp w t))
    (hg : (w.recs t).isGenerated = false ∨ (w.recs t).isOverride = true) : V0 R w t := by
  have hwf := WFrec.getRec hw t
  obtain ⟨c, hc⟩ := getRec_fields w R t
  unfold V0
  rw [hc] at hwf ⊢
  cases c with
  | none =>
    have := (hwf.2.2.2 rfl).1
    simp only at this
    rw [hs] at this; cases this
  | some c => exact ⟨hf, c, rfl, hwf.1 c rfl, .inr ⟨hs, hg.imp id .inl⟩⟩

/-- Recording a file as a source (or as overridden), with a fresh stamp. -/
theorem RInv.settleWrite {w : World} (hinv : RInv R cyc w) (t : Nat) (ht : t ∉ cyc) (r' : Rec) (hwf : WFrec R r')
    (hf : r'.failed = none) (hs : r'.stamp = some (readStamp w t))
    (hg : r'.isGenerated = false ∨ r'.isOverride = true) (hg0 : t = alwaysId → r'.isGenerated = false) :
    RInv R cyc (setRec w t r') ∧ RStep R cyc noAdd w (setRec w t r') ∧ Settled R cyc (setRec w t r') t := by
  have hV : V0 R (setRec w t r') t := by
    apply V0_of_static (hinv.d.wf.setRec t hwf) t <;> simp [setRec, hf, hg]
    exact hs
  obtain ⟨c, hc⟩ := getRec_fields (setRec w t r') R t
  have hrec : (setRec w t r').recs t = r' := by simp [setRec]
  rw [hrec] at hc
  have hS : Settled R cyc (setRec w t r') t := ⟨hV, fun h => absurd h ht⟩
  obtain ⟨i1, i2⟩ := hinv.recWrite t r' hwf (fun _ => hS) (fun _ _ => .inr hV)
    (by
      intro _ _ _ hgen hov
      rw [hc] at hgen hov
      rcases hg with h | h
      · rw [h] at hgen; cases hgen
      · rw [h] at hov; cases hov)
    (by
      intro _ _
      rw [hc]
      exact .inr ⟨hf, .inl hs⟩)
    hg0
    (by intro _; rw [hc]; exact hf)
    (by intro _ _; rw [hc]; exact hf)
    (fun _ _ => .inr hV)
  exact ⟨i1, i2, hS⟩

theorem isFailedR_self {r : Rec} (hR : 0 < R) (h : r.failed = some R) : isFailedR r R = true := by
  simp [isFailedR, h]; omega

/-- Recording a failure of an open target. -/
theorem RInv.failWrite {w : World} (hR : 0 < R) (hinv : RInv R cyc w) (t : Nat) (ht : t ∉ cyc) (ho : Open R w t)
    (r' : Rec) (hwf : WFrec R r') (hf : r'.failed = some R)
    (hck : isCheckedR r' R = false) (hg0 : t = alwaysId → r'.isGenerated = false) :
    RInv R cyc (setRec w t r') ∧ RStep R cyc noAdd w (setRec w t r') ∧ Done R (setRec w t r') t := by
  obtain ⟨c, hc⟩ := getRec_fields (setRec w t r') R t
  have hrec : (setRec w t r').recs t = r' := by simp [setRec]
  rw [hrec] at hc
  have hD : Done R (setRec w t r') t := by
    left; rw [hc]; exact isFailedR_self hR hf
  have hnV : ¬ V0 R (setRec w t r') t := by
    rintro ⟨h0, _⟩
    rw [hc] at h0
    simp only at h0
    rw [hf] at h0; cases h0
  obtain ⟨i1, i2⟩ := hinv.recWrite t r' hwf (fun h => absurd h ho.not_settled) (fun _ _ => hD)
    (fun _ hV => absurd hV hnV)
    (by
      intro _ _
      left; rw [hc]; exact isFailedR_self hR hf)
    hg0
    (by
      intro h
      rw [hc] at h
      simp only [isCheckedR] at h hck
      rw [hck] at h; cases h)
    (fun h => absurd h ht)
    (fun _ _ => hD)
  exact ⟨i1, i2, hD⟩

end RedoModel.Deps.Once
