import RedoModel.Lemmas.Once.DepsOnceEngine
import RedoModel.Lemmas.Once.DepsWFOps
import RedoModel.Lemmas.Once.DepsOG
/-!
# Within one `redo-ifchange` run no script is executed twice — for hygienic worlds

`ran_nodup_of_wf`: the list of executed scripts of a top-level `redo-ifchange` has no repetition, provided the
world is well formed (`WF`, true of every reachable world) and *clean* (`Clean`): the `//ALWAYS` pseudo file does
not exist as a file, .do files and the files named by `redo-ifcreate` have no build rule, and every overridden
file that exists carries no failure mark and is still recorded as generated (or is in step with its record; since the
repair of `start_self` it may have been edited again).  None of the three cleanliness conditions can be dropped: see
`RedoModel/Lemmas/DepsOnceCex.lean` for reachable counterexamples.  The defect switch `oobRebuildsDepsNotTarget`
must be off; the other two switches are arbitrary.
-/
namespace RedoModel.Deps.Once
open RedoModel.Deps
open RedoModel.Generated

variable {R : Nat} {cyc : List Nat}

theorem mem_foldl_addDep (p : Nat) : ∀ (ts : List Nat) (w : World) (row : Dep),
    row ∈ (ts.foldl (fun w t => addDep w p t true) w).deps →
    row ∈ w.deps ∨ ∃ s ∈ ts, row = { target := p, source := s, modeM := true, deleteMe := false }
  | [], _, _, h => .inl h
  | t :: ts, w, row, h => by
    simp only [List.foldl_cons] at h
    rcases mem_foldl_addDep p ts _ row h with h1 | ⟨s, hs, e⟩
    · rcases mem_addDep_deps' h1 with h2 | h2
      · exact .inr ⟨t, by simp, h2⟩
      · exact .inl h2
    · exact .inr ⟨s, by simp [hs], e⟩

theorem foldl_addDep_spec {p : Nat} (hp : p ∈ cyc) : ∀ (ts : List Nat) (w : World), RInv R cyc w →
    RInv R cyc (ts.foldl (fun w t => addDep w p t true) w) ∧
    RStep R cyc (addFor (some p)) w (ts.foldl (fun w t => addDep w p t true) w)
  | [], w, h => ⟨h, RStep.refl _ _⟩
  | t :: ts, w, h => by
    simp only [List.foldl_cons]
    obtain ⟨a1, a2⟩ := h.addDep (add := addFor (some p)) p t true (.inl hp) (fun _ => rfl)
    obtain ⟨b1, b2⟩ := foldl_addDep_spec hp ts _ a1
    exact ⟨b1, a2.trans b2⟩

/-- One level of the engine satisfies the specification if the nested level does. -/
theorem ifchangeWith_spec (hR : 0 < R) {E : Engine} (hE : ESpec R E) (d : Defects) (hd : d.oobRebuildsDepsNotTarget = false)
    (fuel : Nat) : ESpec R { ifchangeCmd := fun cx ts w => ifchangeWith E d fuel cx ts w } := by
  intro cx cyc ts w hRid hredo hcr hsub hpar hunl hinv
  dsimp only
  unfold ifchangeWith
  have hrt := fun w0 (h0 : RInv R cyc w0) =>
    runTargets_spec hR hE d hd cx hRid hredo hcr hsub hpar fuel ts [] false w0 hunl h0 (fun _ s hs => by cases hs)
  cases hp : cx.parent with
  | none =>
    simp only [Bool.false_eq_true, if_false]
    have h := hrt w hinv
    rw [hp] at h
    exact ⟨h.inv, h.step, fun e => ⟨(h.ok e).2.1, (h.ok e).2.2.1⟩, h.nn⟩
  | some p =>
    have hpc : p ∈ cyc := hpar p hp
    simp only
    cases hcon : (!cx.unlocked && ts.contains p) with
    | true =>
      simp only [if_true]
      refine ⟨hinv, RStep.refl _ _, (fun h => ?_), (by show (0 : Int) ≤ EXIT_CYCLIC_DEPENDENCY; decide)⟩
      exact absurd (show EXIT_CYCLIC_DEPENDENCY = (0 : Int) from h) (by decide)
    | false =>
      simp only [Bool.false_eq_true, if_false]
      cases hu : cx.unlocked with
      | true =>
        simp only [if_true]
        have h := hrt w hinv
        rw [hp] at h
        exact ⟨h.inv, h.step, fun e => ⟨(h.ok e).2.1, (h.ok e).2.2.1⟩, h.nn⟩
      | false =>
        simp only [Bool.false_eq_true, if_false]
        obtain ⟨k1, k2⟩ := hinv.addKnown (add := addFor (some p)) p
        obtain ⟨f1, f2⟩ := foldl_addDep_spec hpc ts _ k1
        have h := hrt _ f1
        rw [hp] at h
        refine ⟨h.inv, k2.trans (f2.trans h.step), ?_, h.nn⟩
        intro e
        obtain ⟨_, g1, g2, _⟩ := h.ok e
        refine ⟨?_, g2⟩
        intro q hq row hrow htq
        rcases g1 q hq row hrow htq with h1 | h1
        · rcases mem_foldl_addDep p ts _ row h1 with h2 | ⟨s, hs, e2⟩
          · rw [addKnown_deps] at h2; exact .inl h2
          · subst e2
            exact .inr ⟨rfl, g2 s hs⟩
        · exact .inr h1

theorem engine_spec (hR : 0 < R) (d : Defects) (hd : d.oobRebuildsDepsNotTarget = false) : ∀ n, ESpec R (engine d n)
  | 0 => by
    intro cx cyc ts w _ _ _ _ _ _ hinv
    refine ⟨hinv, RStep.refl _ _, (fun h => ?_), (by show (0 : Int) ≤ EXIT_FAILURE; decide)⟩
    exact absurd (show EXIT_FAILURE = (0 : Int) from h) (by decide)
  | n + 1 => ifchangeWith_spec hR (engine_spec hR d hd n) d hd (n + 1)

/-- The cleanliness conditions under which the once-per-run property holds. -/
structure Clean (w : World) : Prop where
  /-- hygiene of the build rules: `//ALWAYS`, .do candidates and `redo-ifcreate` objects are not targets -/
  hyg : Hyg w
  /-- no file is named like the `//ALWAYS` pseudo file -/
  f0 : w.fs alwaysId = none
  g0 : (w.recs alwaysId).isGenerated = false

/-- Every overridden file that exists is still recorded as generated (then `start_self` refreshes its record when it
visits it), or carries no failure mark and is in step with its record.  Holds in every reachable world, where an
overridden record is always a generated one (`OG`, `ovOK_reachable`); only needed for hand-made worlds. -/
def OvOK (w : World) : Prop :=
  ∀ z, (w.recs z).isOverride = true → existsF w z = true →
    (w.recs z).isGenerated = true ∨ ((w.recs z).failed = none ∧ (w.recs z).stamp = some (readStamp w z))

theorem OvOK.of_og {w : World} (h : OG w) : OvOK w := fun z hz _ => .inl (h z hz).1

theorem ovOK_reachable (d : Defects) (n : Nat) (rules : Nat → List Nat) (ops : List UserOp) :
    OvOK (runOps d n ops (initWorld rules)) := OvOK.of_og (og_reachable d n rules ops)

/-- The statement: the scripts run by `redo-ifchange ts` from `w` are pairwise different. -/
def RanNodupFrom (d : Defects) (n : Nat) (w : World) (ts : List Nat) (kg : Bool) : Prop :=
  let w' := (runCmd d n (.ifchange ts kg) { w with trace := [] }).2
  (w'.trace.filterMap (fun e => match e with | .ran t => some t | _ => none)).Nodup

/-- The invariant holds at the start of a run. -/
theorem rinv_start {w : World} (hwf : WF w) (hov : OvOK w) (hc : Clean w) :
    RInv (w.runCounter + 1) [] { w with trace := [], runCounter := w.runCounter + 1 } := by
  have hlt : ∀ z c, ((w.recs z).changed = some c ∨ (w.recs z).checked = some c) → c < w.runCounter + 1 := by
    intro z c h
    rcases h with h | h
    · exact Nat.lt_succ_of_le ((hwf z).1 c h)
    · exact Nat.lt_succ_of_le ((hwf z).2.1 c h)
  have hwfr : WFR (w.runCounter + 1) { w with trace := [], runCounter := w.runCounter + 1 } :=
    fun z => (hwf z).mono (Nat.le_succ _)
  have hnck : ∀ z, isCheckedR (getRec { w with trace := [], runCounter := w.runCounter + 1 } (w.runCounter + 1) z)
      (w.runCounter + 1) = false := by
    intro z
    obtain ⟨c, hc'⟩ := getRec_fields { w with trace := [], runCounter := w.runCounter + 1 } (w.runCounter + 1) z
    rw [hc']
    simp only [isCheckedR]
    cases hck : (w.recs z).checked with
    | none => rfl
    | some c' =>
      have := hlt z c' (.inr hck)
      simp only [Bool.and_eq_false_imp, bne_iff_ne, ne_eq, decide_eq_false_iff_not]
      intro _; omega
  have hchR : ∀ z, z ≠ alwaysId → (getRec { w with trace := [], runCounter := w.runCounter + 1 } (w.runCounter + 1) z).changed
      ≠ some (w.runCounter + 1) := by
    intro z hz h
    rw [getRec_ne hz] at h
    have := hlt z _ (.inl h)
    omega
  have hgen0 : (getRec { w with trace := [], runCounter := w.runCounter + 1 } (w.runCounter + 1) alwaysId).isGenerated
      = false := by rw [getRec_isGenerated]; exact hc.g0
  refine ⟨⟨hwfr, ?_, ?_, ?_, ?_⟩, ⟨hc.hyg.r0, hc.hyg.dofiles, hc.hyg.scripts⟩, hc.f0, hc.g0, ?_, ?_, ?_, ?_⟩
  · intro y _ hV hck hg ho
    exfalso
    obtain ⟨_, c, hcc, _, hor⟩ := hV
    by_cases hy : y = alwaysId
    · subst hy; rw [hgen0] at hg; cases hg
    · rcases hor with h | ⟨_, h | h | h⟩
      · rw [hck] at h; cases h
      · rw [hg] at h; cases h
      · rw [ho] at h; cases h
      · subst h; exact hchR y hy hcc
  · intro z hz hex
    obtain ⟨c, hc'⟩ := getRec_fields { w with trace := [], runCounter := w.runCounter + 1 } (w.runCounter + 1) z
    rw [hc'] at hz ⊢
    exact .inr (hov z hz hex)
  · intro z hz
    rw [hnck z] at hz; cases hz
  · intro z hz; cases hz
  · intro q hq; cases hq
  · intro t ht; simp [ranList] at ht
  · simp [ranList]
  · intro z hz _ hch
    by_cases hy : z = alwaysId
    · subst hy; exact absurd hc.hyg.r0 hz
    · exact absurd hch (hchR z hy)

/-- **Once per run.**  From a well-formed, clean world satisfying `OvOK`, a top-level `redo-ifchange` runs no script twice
(defect switch `oobRebuildsDepsNotTarget` off, the other switches arbitrary). -/
theorem ran_nodup_of_wf (d : Defects) (hd : d.oobRebuildsDepsNotTarget = false) (n : Nat) (w : World) (ts : List Nat)
    (kg : Bool) (hwf : WF w) (hov : OvOK w) (hc : Clean w) : RanNodupFrom d n w ts kg := by
  unfold RanNodupFrom
  simp only [runCmd, allocRun]
  have hinv := rinv_start hwf hov hc
  have hR : 0 < w.runCounter + 1 := Nat.succ_pos _
  have h := runTargets_spec (cyc := []) hR (engine_spec hR d hd (2 * n + 4)) d hd
    { runid := w.runCounter + 1, keepGoing := kg } rfl rfl rfl (fun x hx => by cases hx) (fun p hp => by cases hp) (2 * n + 4) ts [] false
    { w with trace := [], runCounter := w.runCounter + 1 } (fun h => by cases h) hinv (fun _ s hs => by cases hs)
  exact h.inv.nd

/-- The same for every world reachable from the initial one by user operations (any commands, any defect
switches while getting there), as long as the reached world is clean. -/
theorem ran_nodup_reachable (d0 d : Defects) (hd : d.oobRebuildsDepsNotTarget = false) (n0 n : Nat)
    (rules : Nat → List Nat) (ops : List UserOp) (ts : List Nat) (kg : Bool)
    (hc : Clean (runOps d0 n0 ops (initWorld rules))) :
    RanNodupFrom d n (runOps d0 n0 ops (initWorld rules)) ts kg :=
  ran_nodup_of_wf d hd n _ ts kg (wf_reachable d0 n0 rules ops) (ovOK_reachable d0 n0 rules ops) hc

end RedoModel.Deps.Once
