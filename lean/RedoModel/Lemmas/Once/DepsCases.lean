import RedoModel.Lemmas.Deps
/-! Case analysis principle for the dirtiness check (the `redo-ifchange` variant, `ood = false`). -/
namespace RedoModel.Deps.Once
open RedoModel.Deps

theorem isDirty_cases (R fuel : Nat) (w : World) (cache : List Nat) (f mx : Nat) (seen : List Nat) (pre : Option Rec)
    (P : DR × World × List Nat → Prop) (r : Rec) (hr : r = pre.getD (getRec w R f))
    (h1 : f ∈ seen → P (.cyclic, w, cache))
    (h2 : f ∉ seen → r.failed.isSome = true → P (.dirty, w, cache))
    (h3 : f ∉ seen → r.failed = none → r.changed = none → P (.dirty, w, cache))
    (h4 : ∀ ch, f ∉ seen → r.failed = none → r.changed = some ch → ch > mx → P (.dirty, w, cache))
    (h5 : ∀ ch, f ∉ seen → r.failed = none → r.changed = some ch → ch ≤ mx → isCheckedR r R = true →
      P (.clean, w, cache))
    (h6 : ∀ ch, f ∉ seen → r.failed = none → r.changed = some ch → ch ≤ mx → isCheckedR r R = false →
      r.stamp = none → P (.dirty, w, cache))
    (h7 : ∀ ch old, f ∉ seen → r.failed = none → r.changed = some ch → ch ≤ mx → isCheckedR r R = false →
      r.stamp = some old → old ≠ readStamp w f →
      P (if r.csum.isSome then .need [f] else .dirty,
         if readStamp w f = .missing ∧ r.isGenerated then setRec w f { r with isGenerated := false, isOverride := false, failed := some 0 } else w,
         cache))
    (h8 : ∀ ch dr w1 c1, f ∉ seen → r.failed = none → r.changed = some ch → ch ≤ mx → isCheckedR r R = false →
      r.stamp = some (readStamp w f) →
      goDeps (fun w2 c2 s snap => isDirty false R fuel w2 c2 s (max ch (r.checked.getD 0)) (f :: seen) (some snap))
        r.csum.isSome f (depsWithRecs w R r f) w cache [] = (some dr, w1, c1) → P (dr, w1, c1))
    (h9 : ∀ ch w1 c1, f ∉ seen → r.failed = none → r.changed = some ch → ch ≤ mx → isCheckedR r R = false →
      r.stamp = some (readStamp w f) →
      goDeps (fun w2 c2 s snap => isDirty false R fuel w2 c2 s (max ch (r.checked.getD 0)) (f :: seen) (some snap))
        r.csum.isSome f (depsWithRecs w R r f) w cache [] = (none, w1, c1) →
      P (.clean, setRec (if r.isOverride then ev w1 (.warnOverride f) else w1) f { r with checked := some R }, c1)) :
    P (isDirty false R (fuel + 1) w cache f mx seen pre) := by
  subst hr
  by_cases hs : f ∈ seen
  · have e : isDirty false R (fuel + 1) w cache f mx seen pre = (.cyclic, w, cache) := by
      simp (config := { zeta := true, zetaHave := true }) only [isDirty, hs, if_true]
    rw [e]; exact h1 hs
  cases hf : (pre.getD (getRec w R f)).failed with
  | some x =>
    have e : isDirty false R (fuel + 1) w cache f mx seen pre = (.dirty, w, cache) := by
      simp (config := { zeta := true, zetaHave := true }) only [isDirty, hs, if_false, hf, Option.isSome_some, if_true]
    rw [e]; exact h2 hs (by rw [hf]; rfl)
  | none =>
  cases hc : (pre.getD (getRec w R f)).changed with
  | none =>
    have e : isDirty false R (fuel + 1) w cache f mx seen pre = (.dirty, w, cache) := by
      simp (config := { zeta := true, zetaHave := true }) only [isDirty, hs, if_false, hf, Option.isSome_none,
        Bool.false_eq_true, hc]
    rw [e]; exact h3 hs hf hc
  | some ch =>
  by_cases hgt : ch > mx
  · have e : isDirty false R (fuel + 1) w cache f mx seen pre = (.dirty, w, cache) := by
      simp (config := { zeta := true, zetaHave := true }) only [isDirty, hs, if_false, hf, Option.isSome_none,
        Bool.false_eq_true, hc, hgt, if_true]
    rw [e]; exact h4 ch hs hf hc hgt
  have hle : ch ≤ mx := by omega
  cases hck : isCheckedR (pre.getD (getRec w R f)) R with
  | true =>
    have e : isDirty false R (fuel + 1) w cache f mx seen pre = (.clean, w, cache) := by
      simp (config := { zeta := true, zetaHave := true }) only [isDirty, hs, if_false, hf, Option.isSome_none,
        Bool.false_eq_true, hc, hgt, hck, if_true]
    rw [e]; exact h5 ch hs hf hc hle hck
  | false =>
  cases hst : (pre.getD (getRec w R f)).stamp with
  | none =>
    have e : isDirty false R (fuel + 1) w cache f mx seen pre = (.dirty, w, cache) := by
      simp (config := { zeta := true, zetaHave := true }) only [isDirty, hs, if_false, hf, Option.isSome_none,
        Bool.false_eq_true, hc, hgt, hck, hst]
    rw [e]; exact h6 ch hs hf hc hle hck hst
  | some old =>
  by_cases hne : old ≠ readStamp w f
  · have e : isDirty false R (fuel + 1) w cache f mx seen pre =
        (if (pre.getD (getRec w R f)).csum.isSome then .need [f] else .dirty,
         if readStamp w f = .missing ∧ (pre.getD (getRec w R f)).isGenerated then
           setRec w f { (pre.getD (getRec w R f)) with isGenerated := false, isOverride := false, failed := some 0 } else w,
         cache) := by
      simp (config := { zeta := true, zetaHave := true }) only [isDirty, hs, if_false, hf, Option.isSome_none,
        Bool.false_eq_true, hc, hgt, hck, hst, hne, if_true, ne_eq, not_false_eq_true]
    rw [e]; exact h7 ch old hs hf hc hle hck hst hne
  have heq : old = readStamp w f := by
    by_cases h : old = readStamp w f
    · exact h
    · exact absurd h hne
  subst heq
  generalize hg : goDeps (fun w2 c2 s snap => isDirty false R fuel w2 c2 s
      (max ch ((pre.getD (getRec w R f)).checked.getD 0)) (f :: seen) (some snap))
      (pre.getD (getRec w R f)).csum.isSome f (depsWithRecs w R (pre.getD (getRec w R f)) f) w cache [] = res
  obtain ⟨o, w1, c1⟩ := res
  cases o with
  | some dr =>
    have e : isDirty false R (fuel + 1) w cache f mx seen pre = (dr, w1, c1) := by
      simp (config := { zeta := true, zetaHave := true }) only [isDirty, hs, if_false, hf, Option.isSome_none,
        Bool.false_eq_true, hc, hgt, hck, hst, ne_eq, not_true_eq_false, hg]
    rw [e]; exact h8 ch dr w1 c1 hs hf hc hle hck hst hg
  | none =>
    have e : isDirty false R (fuel + 1) w cache f mx seen pre =
        (.clean, setRec (if (pre.getD (getRec w R f)).isOverride then ev w1 (.warnOverride f) else w1) f
          { (pre.getD (getRec w R f)) with checked := some R }, c1) := by
      simp (config := { zeta := true, zetaHave := true }) only [isDirty, hs, if_false, hf, Option.isSome_none,
        Bool.false_eq_true, hc, hgt, hck, hst, ne_eq, not_true_eq_false, hg, Bool.not_false, Bool.and_true]
    rw [e]; exact h9 ch w1 c1 hs hf hc hle hck hst hg

theorem goDeps_cons_cases (chk : World → List Nat → Nat → Rec → DR × World × List Nat) (hasCsum : Bool) (f : Nat)
    (d : Dep) (snap : Rec) (ds : List (Dep × Rec)) (w : World) (cache must : List Nat)
    (P : Option DR × World × List Nat → Prop)
    (hc : d.modeM = false → existsF w d.source = true →
      P (some (if hasCsum then .need [f] else .dirty), w, cache))
    (hc' : d.modeM = false → existsF w d.source = false → P (goDeps chk hasCsum f ds w cache must))
    (hm : d.modeM = true → ∀ sub w1 c1, chk w cache d.source snap = (sub, w1, c1) →
      P (match sub with
        | .cyclic => (some .cyclic, w1, c1)
        | .clean => goDeps chk hasCsum f ds w1 c1 must
        | .dirty => (some (if hasCsum then .need [f] else .dirty), w1, c1)
        | .need ts => goDeps chk hasCsum f ds w1 c1 (must ++ ts))) :
    P (goDeps chk hasCsum f ((d, snap) :: ds) w cache must) := by
  rw [goDeps]
  cases hmm : d.modeM with
  | true =>
    simp only [if_true]
    have := hm hmm
    generalize chk w cache d.source snap = res at this
    obtain ⟨sub, w1, c1⟩ := res
    have h := this sub w1 c1 rfl
    cases sub <;> exact h
  | false =>
    simp only [Bool.false_eq_true, if_false]
    cases he : existsF w d.source with
    | true => simp only [if_true]; exact hc hmm he
    | false => simp only [Bool.false_eq_true, if_false]; exact hc' hmm he

end RedoModel.Deps.Once
