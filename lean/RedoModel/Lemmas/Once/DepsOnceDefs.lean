import RedoModel.Lemmas.Once.DepsFrame
/-!
Vocabulary of the once-per-run proof: what it means for a file to be *verified* in run `R`, the relation between
the record copies the dirtiness check holds and the database, and the step relation of the dirtiness check.
-/
namespace RedoModel.Deps.Once
open RedoModel.Deps

/-- The list of targets whose script ran, most recent first. -/
def ranList (w : World) : List Nat :=
  w.trace.filterMap (fun e => match e with | .ran t => some t | _ => none)

/-- A record that the dirtiness check of run `R` answers `clean` for, as far as the record itself goes. -/
def OKrec (R : Nat) (cur : DStamp) (r : Rec) : Prop :=
  r.failed = none ∧ ∃ ch, r.changed = some ch ∧ ch ≤ R ∧
    (isCheckedR r R = true ∨ (r.stamp = some cur ∧ (r.isGenerated = false ∨ r.isOverride = true ∨ ch = R)))

def V0 (R : Nat) (w : World) (z : Nat) : Prop := OKrec R (readStamp w z) (getRec w R z)

/-- Verified; a target whose script is still running only counts if it carries the `checked` mark. -/
def Settled (R : Nat) (cyc : List Nat) (w : World) (z : Nat) : Prop :=
  V0 R w z ∧ (z ∈ cyc → isCheckedR (getRec w R z) R = true)

def Done (R : Nat) (w : World) (z : Nat) : Prop := isFailedR (getRec w R z) R = true ∨ V0 R w z

/-- A dependency row that the check of its target (with threshold `mx`) passes over. -/
def RowOK (R : Nat) (cyc : List Nat) (w : World) (row : Dep) (mx : Nat) : Prop :=
  (row.modeM = true → Settled R cyc w row.source ∧ ∀ ch, (getRec w R row.source).changed = some ch → ch ≤ mx) ∧
  (row.modeM = false → existsF w row.source = false)

/-- A dependency row that stays passed over for the rest of the run. -/
def GoodRow (R : Nat) (cyc : List Nat) (w : World) (row : Dep) : Prop :=
  (row.modeM = true → Settled R cyc w row.source ∧ row.source ∉ cyc) ∧
  (row.modeM = false → existsF w row.source = false ∧ w.rules row.source = [])

/-- Targets built in this run (and not yet marked checked) have only good rows. -/
def J (R : Nat) (cyc : List Nat) (w : World) : Prop :=
  ∀ y, y ∉ cyc → V0 R w y → isCheckedR (getRec w R y) R = false → (getRec w R y).isGenerated = true →
    (getRec w R y).isOverride = false → ∀ row ∈ w.deps, row.target = y → GoodRow R cyc w row

/-- An overridden file that exists either failed in this run, or is still recorded as generated (so that
`start_self` will record its new stamp and clear any failure mark when it visits it), or carries no failure mark
and is in step with its record. -/
def OV (R : Nat) (w : World) : Prop :=
  ∀ z, (getRec w R z).isOverride = true → existsF w z = true →
    isFailedR (getRec w R z) R = true ∨ (getRec w R z).isGenerated = true ∨
    ((getRec w R z).failed = none ∧ (getRec w R z).stamp = some (readStamp w z))

/-- A copy `s` of the record of `z` taken earlier in the same dirtiness check. -/
structure SnapRel (R : Nat) (cyc : List Nat) (w : World) (z : Nat) (s : Rec) : Prop where
  wf : WFrec R s
  stamp : s.stamp = (getRec w R z).stamp
  changed : s.changed = (getRec w R z).changed
  ovr : (getRec w R z).failed = none → s.isOverride = (getRec w R z).isOverride
  failed : s.failed = (getRec w R z).failed ∨
    (s.failed = none ∧ (getRec w R z).failed = some 0 ∧ s.stamp ≠ some (readStamp w z) ∧ isCheckedR s R = false)
  gen : (getRec w R z).failed = none → s.isGenerated = (getRec w R z).isGenerated
  unchecked : isCheckedR (getRec w R z) R = false → s.checked = (getRec w R z).checked
  late : isCheckedR (getRec w R z) R = true → isCheckedR s R = false →
    (getRec w R z).stamp = some (readStamp w z) ∧
    (s.isGenerated = true → s.isOverride = false → ∀ ch, s.changed = some ch → ∀ row ∈ w.deps, row.target = z →
      RowOK R cyc w row (max ch (s.checked.getD 0)))

/-- What one dirtiness check does to the world. -/
structure DStep (R : Nat) (cyc seen : List Nat) (w w' : World) : Prop where
  same : SameButRecs w w'
  settled : ∀ z, Settled R cyc w z → Settled R cyc w' z
  failedR : ∀ z, isFailedR (getRec w' R z) R = isFailedR (getRec w R z) R
  changed : ∀ z, (getRec w' R z).changed = (getRec w R z).changed
  snap : ∀ z s, SnapRel R cyc w z s → SnapRel R cyc w' z s
  seen : ∀ g ∈ seen, w'.recs g = w.recs g
  ran : ranList w' = ranList w
  genF : ∀ z, (getRec w R z).isGenerated = false → (getRec w' R z).isGenerated = false

structure DInv (R : Nat) (cyc : List Nat) (w : World) : Prop where
  wf : WFR R w
  j : J R cyc w
  ov : OV R w
  /-- a `checked` mark of this run is only carried by records without failure mark -/
  p1 : ∀ z, isCheckedR (getRec w R z) R = true → (getRec w R z).failed = none
  /-- a running target stamped in this run has no failure mark -/
  p2 : ∀ z ∈ cyc, (getRec w R z).changed = some R → (getRec w R z).failed = none

/-! ### `getRec` -/

theorem getRec_ne {w : World} {R z : Nat} (h : z ≠ alwaysId) : getRec w R z = w.recs z := by
  simp [getRec, h]

theorem getRec_setRec_ne {w : World} {R f z : Nat} (r : Rec) (h : z ≠ f) :
    getRec (setRec w f r) R z = getRec w R z := by
  simp [getRec, setRec, h]

theorem getRec_setRec_self {w : World} {R f : Nat} (r : Rec) (h : f = alwaysId → r.changed = some R) :
    getRec (setRec w f r) R f = r := by
  unfold getRec
  simp only [setRec, if_true]
  split
  · rename_i h0
    rw [h h0]
    simp
    cases r
    simp_all
  · rfl

theorem getRec_changed_always {w : World} {R : Nat} (h : WFR R w) : (getRec w R alwaysId).changed = some R := by
  unfold getRec
  simp only [if_true]
  split
  · rename_i c hc
    have := (h alwaysId).1 c hc
    simp; omega
  · rfl

theorem getRec_congr {w w' : World} {R z : Nat} (h : w'.recs z = w.recs z) : getRec w' R z = getRec w R z := by
  simp [getRec, h]

theorem readStamp_congr {w w' : World} (z : Nat) (h : w'.fs = w.fs) : readStamp w' z = readStamp w z := by
  simp [readStamp, h]

theorem existsF_congr {w w' : World} (z : Nat) (h : w'.fs = w.fs) : existsF w' z = existsF w z := by
  simp [existsF, h]

theorem ranList_ev_warn (w : World) (t : Nat) : ranList (ev w (.warnOverride t)) = ranList w := by
  simp [ranList, ev]

theorem ranList_congr {w w' : World} (h : w'.trace = w.trace) : ranList w' = ranList w := by
  simp [ranList, h]

theorem isCheckedR_some_self {r : Rec} {R : Nat} (hR : 0 < R) (h : r.checked = some R) : isCheckedR r R = true := by
  simp [isCheckedR, h]; omega

theorem isFailedR_none {r : Rec} {R : Nat} (h : r.failed = none) : isFailedR r R = false := by
  simp [isFailedR, h]

theorem isFailedR_zero {r : Rec} {R : Nat} (h : r.failed = some 0) : isFailedR r R = false := by
  simp [isFailedR, h]

/-- A fresh copy. -/
theorem SnapRel.fresh {R : Nat} {cyc : List Nat} {w : World} (h : WFR R w) (z : Nat) :
    SnapRel R cyc w z (getRec w R z) where
  wf := WFrec.getRec h z
  stamp := rfl
  changed := rfl
  ovr := fun _ => rfl
  failed := .inl rfl
  gen := fun _ => rfl
  unchecked := fun _ => rfl
  late := fun h1 h2 => by rw [h1] at h2; cases h2

end RedoModel.Deps.Once
