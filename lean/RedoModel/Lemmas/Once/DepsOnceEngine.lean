import RedoModel.Lemmas.Once.DepsOnceJob
/-! A build job, a target list, a command, the engine: the once-per-run proof. -/
namespace RedoModel.Deps.Once
open RedoModel.Deps
open RedoModel.Generated

variable {R : Nat} {cyc : List Nat}

theorem NewGood.ofNoAdd {w w' : World} (h : RStep R cyc noAdd w w') : NewGood R cyc w w' := by
  intro q hq row hrow ht
  rcases h.rows q hq row hrow ht with h1 | h1
  · exact .inl h1
  · exact h1.elim

theorem NewGood.trans {add : Nat → Dep → Prop} {a b c : World} (h1 : NewGood R cyc a b) (h2 : NewGood R cyc b c)
    (hs : RStep R cyc add b c) : NewGood R cyc a c := by
  intro q hq row hrow ht
  rcases h2 q hq row hrow ht with h | h
  · rcases h1 q hq row h ht with h' | h'
    · exact .inl h'
    · exact .inr ⟨h'.1, hs.settled _ h'.2.1, h'.2.2⟩
  · exact .inr h

theorem shouldBuild_spec (hR : 0 < R) (cx : Ctx) (hRid : cx.runid = R) (hredo : cx.isRedo = false) (fuel : Nat)
    {t : Nat} (ht : t ∉ cyc) (w : World) (hinv : RInv R cyc w) :
    RInv R cyc (shouldBuild cx fuel t w).2 ∧ RStep R cyc noAdd w (shouldBuild cx fuel t w).2 ∧
    ((shouldBuild cx fuel t w).1 = none → (shouldBuild cx fuel t w).2 = w) ∧
    ((shouldBuild cx fuel t w).1 = some .clean → Settled R cyc (shouldBuild cx fuel t w).2 t) ∧
    (∀ dr, (shouldBuild cx fuel t w).1 = some dr → dr ≠ .clean → dr ≠ .cyclic →
      Open R (shouldBuild cx fuel t w).2 t ∧
      ((w.recs t).isOverride = true → existsF (shouldBuild cx fuel t w).2 t = true → (w.recs t).isGenerated = true) ∧
      isCheckedR (w.recs t) R = false) := by
  unfold shouldBuild
  simp only [hredo, Bool.false_eq_true, if_false, hRid]
  cases hfl : isFailedR (getRec w R t) R with
  | true =>
    simp only [if_true]
    exact ⟨hinv, RStep.refl _ _, fun _ => trivial, (fun h => by cases h), (fun dr h => by cases h)⟩
  | false =>
    simp only [Bool.false_eq_true, if_false]
    have hchR : ∀ ch, (getRec w R t).changed = some ch → ch ≤ R := (WFrec.getRec hinv.d.wf t).1
    have hs := isDirty_spec (cyc := cyc) hR fuel w [] t R [] none hinv.d (fun s h => by cases h) (fun _ => .inl ht)
    generalize isDirty false R fuel w [] t R [] none = res at hs
    obtain ⟨dr, w1, c1⟩ := res
    have hinv1 : RInv R cyc w1 := hinv.ofDStep hs.step hs.inv
    have hbad : dr ≠ .clean → dr ≠ .cyclic →
        Open R w1 t ∧ ((w.recs t).isOverride = true → existsF w1 t = true → (w.recs t).isGenerated = true) ∧
        isCheckedR (w.recs t) R = false := by
      intro h1 h2
      have hnV := hs.bad ht hchR h1 h2
      have hop : Open R w1 t := ⟨hnV, by rw [hs.step.failedR]; exact hfl⟩
      have hnS : ¬ Settled R cyc w t := by
        intro hset
        rcases hs.ok hset hchR with h | h
        · exact h1 h
        · exact h2 h
      refine ⟨hop, ?_, ?_⟩
      · -- an overridden file in step with its record is verified: this one is out of step, so still generated
        intro hov hex1
        have hex0 : existsF w t = true := by rw [← existsF_congr t hs.step.same.1]; exact hex1
        have h1' : (getRec w R t).isOverride = true := by rw [getRec_isOverride]; exact hov
        rcases hinv.d.ov t h1' hex0 with hfr | o2 | ⟨o1, o2⟩
        · rw [hfl] at hfr; cases hfr
        · rw [getRec_isGenerated] at o2; exact o2
        · exfalso
          obtain ⟨c, hc⟩ := getRec_fields w R t
          have hwf := WFrec.getRec hinv.d.wf t
          apply hnS
          refine ⟨⟨o1, ?_⟩, fun h => absurd h ht⟩
          cases hcc : (getRec w R t).changed with
          | none =>
            have := (hwf.2.2.2 hcc).1
            rw [o2] at this; cases this
          | some c' => exact ⟨c', rfl, hwf.1 c' hcc, .inr ⟨o2, .inr (.inl h1')⟩⟩
      · cases hck : isCheckedR (w.recs t) R with
        | false => rfl
        | true =>
          exfalso
          have hck' : isCheckedR (getRec w R t) R = true := by
            obtain ⟨c, hc⟩ := getRec_fields w R t
            rw [hc]; exact hck
          have hf := hinv.d.p1 t hck'
          have hwf := WFrec.getRec hinv.d.wf t
          apply hnS
          refine ⟨⟨hf, ?_⟩, fun h => absurd h ht⟩
          cases hcc : (getRec w R t).changed with
          | none =>
            have := (hwf.2.2.2 hcc).2.1
            simp [isCheckedR, this] at hck'
          | some c' => exact ⟨c', rfl, hwf.1 c' hcc, .inl hck'⟩
    dsimp only
    refine ⟨hinv1, RStep.ofDStep hs.step, (fun h => by cases h), ?_, ?_⟩
    · intro h
      have hdr : dr = .clean := by
        simp only [Option.some.injEq] at h
        split at h
        · split at h <;> cases h
        · exact h
      obtain ⟨a, b, _⟩ := hs.clean hdr
      exact ⟨a, fun _ => b⟩
    · intro dr' h h1 h2
      simp only [Option.some.injEq] at h
      apply hbad
      · intro e
        subst e
        simp at h
        exact h1 h.symm
      · intro e
        subst e
        simp at h
        exact h2 h.symm

/-- What a build job on `t` guarantees. -/
structure BJPost (R : Nat) (cyc : List Nat) (p : Option Nat) (t : Nat) (w : World) (res : JobResult × World) : Prop where
  inv : RInv R cyc res.2
  step : RStep R cyc (addFor p) w res.2
  done : ∀ rv, res.1 = .done rv → 0 ≤ rv ∧ (rv = 0 → NewGood R cyc w res.2 ∧ Settled R cyc res.2 t)
  abort : ∀ code, res.1 = .abort code → code ≠ 0 ∧ 0 ≤ code

theorem BJPost.ofJob {p : Option Nat} {t : Nat} {w0 w : World} {res : Status × World}
    (h0 : RStep R cyc noAdd w0 w) (h : JobPost R cyc t w res) :
    BJPost R cyc p t w0 (.done res.1, res.2) where
  inv := h.inv
  step := (h0.trans h.step).ofNoAdd
  done := fun rv e => by
    cases e
    exact ⟨h.nn, fun e0 => ⟨NewGood.ofNoAdd (h0.trans h.step), h.ok e0⟩⟩
  abort := fun code e => by cases e

theorem buildJob_spec (hR : 0 < R) {E : Engine} (hE : ESpec R E) (d : Defects) (hd : d.oobRebuildsDepsNotTarget = false)
    (cx : Ctx) (hRid : cx.runid = R) (hredo : cx.isRedo = false) (hcr : cx.crash = none) (hcyc : ∀ x ∈ cyc, x ∈ cx.cycles)
    (hpar : ∀ p, cx.parent = some p → p ∈ cyc) (fuel : Nat) {t : Nat} (ht : t ∉ cyc) (w : World)
    (hinv : RInv R cyc w) : BJPost R cyc cx.parent t w (buildJob E d cx fuel t w) := by
  unfold buildJob
  simp only
  obtain ⟨s1, s2, s3, s4, s5⟩ := shouldBuild_spec hR cx hRid hredo fuel ht w hinv
  generalize shouldBuild cx fuel t w = sb at s1 s2 s3 s4 s5
  obtain ⟨o, w1⟩ := sb
  have hstart : ∀ dr, o = some dr → dr ≠ .clean → dr ≠ .cyclic →
      BJPost R cyc cx.parent t w (.done (startSelf E d cx t (w.recs t) w1).1, (startSelf E d cx t (w.recs t) w1).2) := by
    intro dr e h1 h2
    obtain ⟨a1, a2, a3⟩ := s5 dr (by rw [e]) h1 h2
    exact BJPost.ofJob s2 (startSelf_spec hR hE d cx hRid hcr hcyc ht (w.recs t) (hinv.d.wf t) w1 a2 a3 s1 a1)
  cases o with
  | none =>
    dsimp only
    refine ⟨s1, s2.ofNoAdd, ?_, ?_⟩
    · intro rv e
      split at e
      · cases e
      · simp only [JobResult.done.injEq] at e
        rw [← e]
        exact ⟨by decide, fun h => absurd h (by decide)⟩
    · intro code e
      split at e
      · simp only [JobResult.abort.injEq] at e
        rw [← e]
        exact ⟨by decide, by decide⟩
      · cases e
  | some dr =>
    cases dr with
    | cyclic =>
      exact ⟨s1, s2.ofNoAdd, (fun rv e => by cases e), (fun code e => by cases e; exact ⟨by decide, by decide⟩)⟩
    | clean =>
      refine ⟨s1, s2.ofNoAdd, ?_, (fun code e => by cases e)⟩
      intro rv e
      cases e
      exact ⟨by decide, fun _ => ⟨NewGood.ofNoAdd s2, s4 rfl⟩⟩
    | dirty => exact hstart .dirty rfl (by simp) (by simp)
    | need ts =>
      dsimp only
      cases hno : cx.noOob with
      | true =>
        simp only [if_true]
        exact hstart (.need ts) rfl (by simp) (by simp)
      | false =>
        simp only [Bool.false_eq_true, if_false, hd]
        generalize (if w1.oobRev = true then ts.eraseDups.reverse else ts.eraseDups) = ts'
        have hcy1 : ∀ x ∈ cyc, x ∈ (oobCx1 d cx t).cycles := fun x hx => List.mem_cons_of_mem _ (hcyc x hx)
        have h1 := hE (oobCx1 d cx t) cyc ts' w1 hRid rfl hcr hcy1
          (by
            intro p hp
            simp only [oobCx1] at hp
            split at hp
            · exact hpar p hp
            · cases hp)
          (fun h => by cases h) s1
        unfold oobCx1 at h1
        generalize E.ifchangeCmd _ ts' w1 = r1 at h1
        obtain ⟨rv1, w2⟩ := r1
        obtain ⟨i1, i2, i3, i4⟩ := h1
        have hadd1 : ∀ q row, addFor (if d.oobRecordsDepsOnCaller = true then cx.parent else none) q row →
            addFor cx.parent q row := by
          intro q row h
          unfold addFor at h ⊢
          split at h
          · exact h
          · cases h
        by_cases hrv1 : rv1 = 0
        · subst hrv1
          split
          · rename_i heq
            cases heq
            have h2 := hE (oobCx2 cx) cyc [t] w2 hRid rfl hcr hcyc hpar
              (by intro _ t' ht'; simp only [List.mem_singleton] at ht'; rw [ht']; exact ht)
              i1
            unfold oobCx2 at h2
            obtain ⟨j1, j2, j3, j4⟩ := h2
            have hstep := s2.ofNoAdd.trans ((i2.mono hadd1).trans j2)
            refine ⟨j1, hstep, ?_, (fun code e => by cases e)⟩
            intro rv e
            cases e
            refine ⟨j4, fun e0 => ?_⟩
            obtain ⟨k1, k2⟩ := j3 e0
            refine ⟨?_, (k2 t (by simp)).1⟩
            exact ((NewGood.ofNoAdd s2).trans (i3 rfl).1 i2).trans k1 j2
          · rename_i hne heq
            cases heq
            exact absurd rfl hne
        · split
          · rename_i heq; cases heq; exact absurd rfl hrv1
          · rename_i heq; cases heq
            refine ⟨i1, s2.ofNoAdd.trans (i2.mono hadd1), ?_, (fun code e => by cases e)⟩
            intro rv e
            cases e
            exact ⟨i4, fun h => absurd h hrv1⟩

/-- What a target list guarantees. -/
structure RTPost (R : Nat) (cyc : List Nat) (p : Option Nat) (ts seen : List Nat) (e : Bool) (w : World)
    (res : Status × World) : Prop where
  inv : RInv R cyc res.2
  step : RStep R cyc (addFor p) w res.2
  ok : res.1 = 0 → e = false ∧ NewGood R cyc w res.2 ∧ (∀ t ∈ ts, Settled R cyc res.2 t ∧ t ∉ cyc) ∧
    (∀ s ∈ seen, Settled R cyc res.2 s ∧ s ∉ cyc)
  nn : 0 ≤ res.1

theorem runTargets_spec (hR : 0 < R) {E : Engine} (hE : ESpec R E) (d : Defects) (hd : d.oobRebuildsDepsNotTarget = false)
    (cx : Ctx) (hRid : cx.runid = R) (hredo : cx.isRedo = false) (hcr : cx.crash = none) (hcyc : ∀ x ∈ cyc, x ∈ cx.cycles)
    (hpar : ∀ p, cx.parent = some p → p ∈ cyc) (fuel : Nat) :
    ∀ (ts seen : List Nat) (e : Bool) (w : World), (cx.unlocked = true → ∀ t ∈ ts, t ∉ cyc) → RInv R cyc w →
      (e = false → ∀ s ∈ seen, Settled R cyc w s ∧ s ∉ cyc) →
      RTPost R cyc cx.parent ts seen e w (runTargets E d cx fuel ts seen e w)
  | [], seen, e, w, _, hinv, hseen => by
    rw [runTargets]
    refine ⟨hinv, RStep.refl _ _, ?_, ?_⟩
    · intro h
      cases e with
      | true => simp at h
      | false => exact ⟨rfl, NewGood.ofNoAdd (RStep.refl _ _), (fun t ht => by cases ht), hseen rfl⟩
    · cases e <;> simp
  | t :: ts, seen, e, w, hunl, hinv, hseen => by
    have hunl' : cx.unlocked = true → ∀ t' ∈ ts, t' ∉ cyc := fun h t' ht' => hunl h t' (by simp [ht'])
    rw [runTargets]
    by_cases hts : t ∈ seen
    · rw [if_pos hts]
      have ih := runTargets_spec hR hE d hd cx hRid hredo hcr hcyc hpar fuel ts seen e w hunl' hinv hseen
      refine ⟨ih.inv, ih.step, ?_, ih.nn⟩
      intro h
      obtain ⟨a, b, c, dd⟩ := ih.ok h
      refine ⟨a, b, ?_, dd⟩
      intro t' ht'
      rcases List.mem_cons.1 ht' with e' | ht'
      · subst e'; exact dd _ hts
      · exact c t' ht'
    · rw [if_neg hts]
      cases hek : (e && !cx.keepGoing) with
      | true =>
        simp only [if_true]
        exact ⟨hinv, RStep.refl _ _, (fun h => by cases h), (by show (0 : Int) ≤ 1; decide)⟩
      | false =>
        simp only [Bool.false_eq_true, if_false]
        obtain ⟨k1, k2⟩ := hinv.addKnown (add := addFor cx.parent) t
        cases hcc : (!cx.unlocked && decide (t ∈ cx.cycles)) with
        | true =>
          simp only [if_true]
          refine ⟨k1, k2, (fun h => ?_), (by show (0 : Int) ≤ EXIT_CYCLIC_DEPENDENCY; decide)⟩
          exact absurd (show EXIT_CYCLIC_DEPENDENCY = (0 : Int) from h) (by decide)
        | false =>
          simp only [Bool.false_eq_true, if_false]
          have htc : t ∉ cyc := by
            cases hu : cx.unlocked with
            | true => exact hunl hu t (by simp)
            | false =>
              rw [hu] at hcc
              simp only [Bool.not_false, Bool.true_and, decide_eq_false_iff_not] at hcc
              exact fun h => hcc (hcyc t h)
          have hj := buildJob_spec hR hE d hd cx hRid hredo hcr hcyc hpar fuel htc (addKnown w t) k1
          generalize buildJob E d cx fuel t (addKnown w t) = jr at hj
          obtain ⟨r, w1⟩ := jr
          cases r with
          | abort code =>
            dsimp only
            obtain ⟨c1, c2⟩ := hj.abort code rfl
            exact ⟨hj.inv, k2.trans hj.step, fun h => absurd h c1, c2⟩
          | done rv =>
            dsimp only
            obtain ⟨d1, d2⟩ := hj.done rv rfl
            have hnc : rv ≠ CRASHED := by
              intro e'; rw [e'] at d1
              have : ¬ ((0 : Int) ≤ CRASHED) := by decide
              exact this d1
            rw [if_neg hnc]
            have hstep01 : RStep R cyc (addFor cx.parent) w w1 := k2.trans hj.step
            have hseen' : (e || decide (rv ≠ 0)) = false → ∀ s ∈ t :: seen, Settled R cyc w1 s ∧ s ∉ cyc := by
              intro he s hs
              have he1 : e = false := by
                cases e
                · rfl
                · simp at he
              have hrv : rv = 0 := by
                cases e
                · simpa using he
                · simp at he
              rcases List.mem_cons.1 hs with e' | hs
              · subst e'; exact ⟨(d2 hrv).2, htc⟩
              · exact ⟨hstep01.settled s (hseen he1 s hs).1, (hseen he1 s hs).2⟩
            have ih := runTargets_spec hR hE d hd cx hRid hredo hcr hcyc hpar fuel ts (t :: seen)
              (e || decide (rv ≠ 0)) w1 hunl' hj.inv hseen'
            refine ⟨ih.inv, hstep01.trans ih.step, ?_, ih.nn⟩
            intro h
            obtain ⟨a, b, c, dd⟩ := ih.ok h
            have he1 : e = false := by
              cases e
              · rfl
              · simp at a
            have hrv : rv = 0 := by
              cases e
              · simpa using a
              · simp at a
            refine ⟨he1, ?_, ?_, fun s hs => dd s (List.mem_cons_of_mem _ hs)⟩
            · exact ((NewGood.ofNoAdd (hinv.addKnown (add := noAdd) t).2).trans (d2 hrv).1 hj.step).trans b ih.step
            · intro t' ht'
              rcases List.mem_cons.1 ht' with e' | ht'
              · subst e'; exact dd _ (by simp)
              · exact c t' ht'

end RedoModel.Deps.Once
