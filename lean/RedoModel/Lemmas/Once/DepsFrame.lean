import RedoModel.Lemmas.Once.DepsWF
/-!
What no command changes: the run counter, the rules, the meaning of scripts, and the files that have no
build rule.
-/
namespace RedoModel.Deps.Once
open RedoModel.Deps

/-- `w` is `w0` up to what a command may change. -/
def Keeps (w0 w : World) : Prop :=
  w.runCounter = w0.runCounter ∧ w.rules = w0.rules ∧ w.progs = w0.progs ∧
  ∀ z, w0.rules z = [] → w.fs z = w0.fs z

theorem Keeps.refl (w : World) : Keeps w w := ⟨rfl, rfl, rfl, fun _ _ => rfl⟩

theorem Keeps.of_eq {w0 w w' : World} (h : Keeps w0 w) (h1 : w'.runCounter = w.runCounter) (h2 : w'.rules = w.rules)
    (h3 : w'.progs = w.progs) (h4 : w'.fs = w.fs) : Keeps w0 w' :=
  ⟨h1.trans h.1, h2.trans h.2.1, h3.trans h.2.2.1, fun z hz => by rw [h4]; exact h.2.2.2 z hz⟩

theorem Keeps.trans {a b c : World} (h1 : Keeps a b) (h2 : Keeps b c) : Keeps a c :=
  ⟨h2.1.trans h1.1, h2.2.1.trans h1.2.1, h2.2.2.1.trans h1.2.2.1,
    fun z hz => (h2.2.2.2 z (by rw [h1.2.1]; exact hz)).trans (h1.2.2.2 z hz)⟩

theorem Keeps.of_same {w0 w w' : World} (h : Keeps w0 w) (s : SameButRecs w w') : Keeps w0 w' :=
  h.of_eq s.2.2.1 s.2.2.2.2.2.2 s.2.2.2.2.2.1 s.1

theorem Keeps.setRec {w0 w : World} (h : Keeps w0 w) (f : Nat) (r : Rec) : Keeps w0 (Deps.setRec w f r) :=
  h.of_eq rfl rfl rfl rfl

theorem Keeps.addKnown {w0 w : World} (h : Keeps w0 w) (f : Nat) : Keeps w0 (Deps.addKnown w f) := by
  unfold Deps.addKnown
  split
  · exact h
  · exact h.of_eq rfl rfl rfl rfl

theorem Keeps.addDep {w0 w : World} (h : Keeps w0 w) (t s : Nat) (m : Bool) : Keeps w0 (Deps.addDep w t s m) :=
  (h.addKnown s).of_eq rfl rfl rfl rfl

theorem Keeps.foldl_addDep {w0 : World} (p : Nat) (m : Bool) : ∀ (ts : List Nat) {w : World}, Keeps w0 w →
    Keeps w0 (ts.foldl (fun w t => Deps.addDep w p t m) w)
  | [], _, h => h
  | t :: ts, _, h => Keeps.foldl_addDep p m ts (h.addDep p t m)

theorem Keeps.findDoFile {w0 : World} (t : Nat) : ∀ (cs : List Nat) {w : World}, Keeps w0 w →
    Keeps w0 (Deps.findDoFile t cs w).2
  | [], _, h => h
  | c :: cs, w, h => by
    rw [Deps.findDoFile]
    split
    · exact h.addDep t c true
    · exact Keeps.findDoFile t cs (h.addDep t c false)

theorem findDoFile_some_ne_nil (t : Nat) : ∀ (cs : List Nat) (w : World) (dof : Nat) (w' : World),
    findDoFile t cs w = (some dof, w') → dof ∈ cs ∧ existsF w' dof = existsF w dof ∧ existsF w dof = true := by
  intro cs
  induction cs with
  | nil => intro w dof w' h; simp [findDoFile] at h
  | cons c cs ih =>
    intro w dof w' h
    rw [findDoFile] at h
    split at h
    · rename_i he
      simp only [Prod.mk.injEq, Option.some.injEq] at h
      obtain ⟨rfl, rfl⟩ := h
      refine ⟨by simp, ?_, he⟩
      simp only [existsF, addDep]
      unfold addKnown
      split <;> rfl
    · have := ih _ dof w' h
      refine ⟨by simp [this.1], ?_, ?_⟩
      · rw [this.2.1]
        simp only [existsF, addDep]
        unfold addKnown
        split <;> rfl
      · rw [← this.2.2]
        simp only [existsF, addDep]
        unfold addKnown
        split <;> rfl

theorem shouldBuild_keeps {w0 : World} (cx : Ctx) (fuel t : Nat) (w : World) (h : Keeps w0 w) :
    Keeps w0 (shouldBuild cx fuel t w).2 := by
  unfold shouldBuild
  split
  · exact h
  · simp only
    split
    · exact h
    · have := isDirty_frame false cx.runid fuel w [] t cx.runid [] none
      generalize isDirty false cx.runid fuel w [] t cx.runid [] none = res at this
      obtain ⟨dr, w1, c1⟩ := res
      exact h.of_same this

/-- What the frame proof needs from the nested commands. -/
def EngineKeeps (E : Engine) : Prop :=
  ∀ (cx : Ctx) (ts : List Nat) (w0 w : World), Keeps w0 w → Keeps w0 (E.ifchangeCmd cx ts w).2

theorem cmds_keeps {E : Engine} (hE : EngineKeeps E) (w0 : World) (cx : Ctx) (t : Nat) (cx' : Ctx) :
    ∀ (cs : List (List Nat)) (k : Nat) (w : World), Keeps w0 w → Keeps w0 (runScript.cmds E cx t cx' cs k w).2
  | [], k, w, h => by rw [runScript.cmds]; exact h
  | c :: cs, k, w, h => by
    rw [runScript.cmds]
    split
    · exact h
    · have h1 := hE cx' c w0 w h
      generalize E.ifchangeCmd cx' c w = res at h1
      obtain ⟨rv, w1⟩ := res
      split
      · rename_i heq; cases heq; exact cmds_keeps hE w0 cx t cx' cs (k + 1) _ h1
      · rename_i _ heq; cases heq; exact h1

theorem conds_keeps {E : Engine} (hE : EngineKeeps E) (w0 : World) (t : Nat) (cx' : Ctx) :
    ∀ (fs : List Nat) (w : World), Keeps w0 w → Keeps w0 (runScript.conds E t cx' fs w).2
  | [], w, h => by rw [runScript.conds]; exact h
  | f :: fs, w, h => by
    rw [runScript.conds]
    split
    · have h1 := hE cx' [f] w0 w h
      generalize E.ifchangeCmd cx' [f] w = res at h1
      obtain ⟨rv, w1⟩ := res
      split
      · rename_i heq; cases heq; exact conds_keeps hE w0 t cx' fs _ h1
      · rename_i _ heq; cases heq; exact h1
    · exact conds_keeps hE w0 t cx' fs _ (h.addDep t f false)

theorem runScript_keeps {E : Engine} (hE : EngineKeeps E) (w0 : World) (d : Defects) (cx : Ctx)
    (t : Nat) (sc : Script) (w : World) (h : Keeps w0 w) : Keeps w0 (runScript E d cx t sc w).2.2 := by
  unfold runScript
  simp only
  have h0 : Keeps w0 (if sc.always = true then
      setRec (addDep w t alwaysId true) alwaysId
        (setChanged { ((addDep w t alwaysId true).recs alwaysId) with stamp := some .missing } cx.runid) else w) := by
    split
    · exact (h.addDep _ _ _).setRec _ _
    · exact h
  generalize (if sc.always = true then
      setRec (addDep w t alwaysId true) alwaysId
        (setChanged { ((addDep w t alwaysId true).recs alwaysId) with stamp := some .missing } cx.runid) else w) = w1 at h0
  split
  · exact h0
  · have h1 := conds_keeps hE w0 t (scriptCx cx t) sc.cond _ (Keeps.foldl_addDep t false sc.ifcreate h0)
    unfold scriptCx at h1
    generalize runScript.conds E t _ sc.cond _ = res at h1
    obtain ⟨rvc, w2⟩ := res
    dsimp only
    split
    · exact h1
    · have h2 := cmds_keeps hE w0 cx t (scriptCx cx t) sc.ifchange 0 w2 h1
      unfold scriptCx at h2
      generalize runScript.cmds E cx t _ sc.ifchange 0 w2 = res at h2
      obtain ⟨rv, w3⟩ := res
      dsimp only
      split
      · exact h2
      · repeat' split
        all_goals first
          | exact h2
          | exact (h2.addKnown t).setRec t _

theorem recordNewState_keeps {w0 : World} (cx : Ctx) (t : Nat) (ht : w0.rules t ≠ []) (sf : Rec)
    (rv : Status) (out : Option Content) (w : World) (h : Keeps w0 w) :
    Keeps w0 (recordNewState cx t sf rv out w).2 := by
  have hfile : ∀ n, Keeps w0 (setFile w t n) := by
    intro n
    refine ⟨h.1, h.2.1, h.2.2.1, ?_⟩
    intro z hz
    have : z ≠ t := fun e => ht (e ▸ hz)
    simp only [setFile, this, if_false]
    exact h.2.2.2 z hz
  unfold recordNewState
  simp only
  split
  · cases out with
    | some c =>
      have := hfile (some (newNode w c).1)
      exact ⟨this.1, this.2.1, this.2.2.1, this.2.2.2⟩
    | none =>
      have := hfile none
      exact ⟨this.1, this.2.1, this.2.2.1, this.2.2.2⟩
  · exact ⟨h.1, h.2.1, h.2.2.1, h.2.2.2⟩

theorem startSelf_keeps {E : Engine} (hE : EngineKeeps E) (w0 : World) (d : Defects) (cx : Ctx)
    (t : Nat) (sf0 : Rec) (w : World) (h : Keeps w0 w) :
    Keeps w0 (startSelf E d cx t sf0 w).2 := by
  unfold startSelf
  simp only
  generalize hb : (sf0.isGenerated && readStamp w t != .missing &&
      (sf0.isOverride || detectOverride (sf0.stamp.getD .missing) (readStamp w t))) = b
  have hA : ∃ sf w1, (if b = true then
        (setOverride (ev w (.warnOverride t)) t sf0 cx.runid,
          setRec (ev w (.warnOverride t)) t (setOverride (ev w (.warnOverride t)) t sf0 cx.runid))
      else (sf0, w)) = (sf, w1) ∧ Keeps w0 w1 := by
    cases b
    · exact ⟨_, _, rfl, h⟩
    · exact ⟨_, _, rfl, (h.of_eq (w' := ev w (.warnOverride t)) rfl rfl rfl rfl).setRec _ _⟩
  obtain ⟨sf, w1, e, hw1⟩ := hA
  rw [e]
  dsimp only
  split
  · exact hw1.setRec _ _
  · have hz : Keeps w0 (zapDeps1 w1 t) := hw1.of_eq rfl rfl rfl rfl
    have hf := Keeps.findDoFile t ((zapDeps1 w1 t).rules t) hz
    have hne := findDoFile_some_ne_nil t ((zapDeps1 w1 t).rules t) (zapDeps1 w1 t)
    generalize Deps.findDoFile t ((zapDeps1 w1 t).rules t) (zapDeps1 w1 t) = res at hf hne
    obtain ⟨o, w2⟩ := res
    cases o with
    | none =>
      dsimp only
      split
      · exact hf.setRec _ _
      · exact hf.setRec _ _
    | some dof =>
      dsimp only
      have hrt : w0.rules t ≠ [] := by
        have := (hne dof w2 rfl).1
        have e2 : (zapDeps1 w1 t).rules = w0.rules := hz.2.1
        rw [e2] at this
        intro hn; rw [hn] at this; cases this
      have h3 : Keeps w0 (ev (setRec w2 dof (setStatic w2 dof (w2.recs dof) cx.runid)) (.ran t)) :=
        ⟨hf.1, hf.2.1, hf.2.2.1, hf.2.2.2⟩
      generalize ev (setRec w2 dof (setStatic w2 dof (w2.recs dof) cx.runid)) (.ran t) = w3 at h3
      have h4 := runScript_keeps hE w0 d cx t (match w3.fs dof with
        | some n => (w3.progs n.content).getD {}
        | none => {}) w3 h3
      generalize runScript E d cx t _ w3 = res at h4
      obtain ⟨rv, out, w4⟩ := res
      dsimp only
      split
      · exact h4
      · exact recordNewState_keeps cx t hrt sf rv out w4 h4

theorem buildJob_keeps {E : Engine} (hE : EngineKeeps E) (w0 : World) (d : Defects) (cx : Ctx)
    (fuel t : Nat) (w : World) (h : Keeps w0 w) : Keeps w0 (buildJob E d cx fuel t w).2 := by
  unfold buildJob
  simp only
  have h1 := shouldBuild_keeps cx fuel t w h
  generalize shouldBuild cx fuel t w = res at h1
  obtain ⟨o, w1⟩ := res
  have hs := startSelf_keeps hE w0 d cx t (w.recs t) w1 h1
  cases o with
  | none => exact h1
  | some dr =>
    cases dr with
    | cyclic => exact h1
    | clean => exact h1
    | dirty => exact hs
    | need ts =>
      dsimp only
      split
      · exact hs
      · generalize (if w1.oobRev = true then ts.eraseDups.reverse else ts.eraseDups) = ts'
        have h2 := hE (oobCx1 d cx t) ts' w0 w1 h1
        unfold oobCx1 at h2
        generalize E.ifchangeCmd _ ts' w1 = res at h2
        obtain ⟨rv, w2⟩ := res
        split
        · rename_i heq; cases heq
          exact hE (oobCx2 cx) _ _ _ h2
        · rename_i _ heq; cases heq; exact h2

theorem runTargets_keeps {E : Engine} (hE : EngineKeeps E) (w0 : World) (d : Defects) (cx : Ctx)
    (fuel : Nat) : ∀ (ts seen : List Nat) (e : Bool) (w : World), Keeps w0 w →
      Keeps w0 (runTargets E d cx fuel ts seen e w).2
  | [], _, _, w, h => by rw [runTargets]; exact h
  | t :: ts, seen, e, w, h => by
    rw [runTargets]
    split
    · exact runTargets_keeps hE w0 d cx fuel ts seen e w h
    · split
      · exact h
      · dsimp only
        split
        · exact h.addKnown t
        · have h1 := buildJob_keeps hE w0 d cx fuel t _ (h.addKnown t)
          generalize buildJob E d cx fuel t (addKnown w t) = res at h1
          obtain ⟨jr, w1⟩ := res
          cases jr with
          | abort code => exact h1
          | done rv =>
            dsimp only
            split
            · exact h1
            · exact runTargets_keeps hE w0 d cx fuel ts _ _ w1 h1

theorem ifchangeWith_keeps {E : Engine} (hE : EngineKeeps E) (w0 : World) (d : Defects) (fuel : Nat) (cx : Ctx)
    (ts : List Nat) (w : World) (h : Keeps w0 w) : Keeps w0 (ifchangeWith E d fuel cx ts w).2 := by
  unfold ifchangeWith
  cases hp : cx.parent with
  | none =>
    simp only [Bool.false_eq_true, if_false]
    exact runTargets_keeps hE w0 d cx fuel ts [] false _ h
  | some p =>
    simp only
    split
    · exact h
    · refine runTargets_keeps hE w0 d cx fuel ts [] false _ ?_
      split
      · exact h
      · exact Keeps.foldl_addDep _ true ts (h.addKnown _)

theorem engine_keeps (d : Defects) : ∀ n, EngineKeeps (engine d n)
  | 0 => fun _ _ _ _ h => h
  | n + 1 => fun cx ts w0 w h => ifchangeWith_keeps (engine_keeps d n) w0 d (n + 1) cx ts w h

end RedoModel.Deps.Once
