import RedoModel.Lemmas.Once.DepsOnceScript
/-! `record_new_state`, `start_self`, a build job, a target list: the once-per-run proof. -/
namespace RedoModel.Deps.Once
open RedoModel.Deps
open RedoModel.Generated

variable {R : Nat} {cyc : List Nat}

/-- What the end of the script of `t` establishes. -/
structure LeavePost (R : Nat) (cyc : List Nat) (t : Nat) (w4 w5 : World) : Prop where
  inv : RInv R cyc w5
  settled : ∀ z, z ≠ t → Settled R (t :: cyc) w4 z → Settled R cyc w5 z
  done : ∀ z, z ∉ t :: cyc → Done R w4 z → Done R w5 z
  doneT : Done R w5 t
  rows : ∀ q ∈ cyc, ∀ row ∈ w5.deps, row.target = q → row ∈ w4.deps
  keeps : Keeps w4 w5

theorem leave_core {t : Nat} (ht : t ∉ cyc) {w4 wF : World} (hinv : RInv R (t :: cyc) w4)
    (hrecs : wF.recs = w4.recs) (hdeps : wF.deps = w4.deps) (hrules : wF.rules = w4.rules)
    (hprogs : wF.progs = w4.progs) (hrc : wF.runCounter = w4.runCounter) (htrace : wF.trace = w4.trace)
    (hfs : ∀ z, z ≠ t → wF.fs z = w4.fs z)
    (r5 : Rec) (hwf : WFrec R r5) (hov : r5.isOverride = true → isFailedR r5 R = true)
    (hdone : isFailedR r5 R = true ∨ OKrec R (readStamp wF t) r5)
    (hp1 : isCheckedR r5 R = true → r5.failed = none)
    (hK : OKrec R (readStamp wF t) r5 → K R (t :: cyc) w4 t) :
    LeavePost R cyc t w4 (setRec (zapDeps2 wF t) t r5) ∧
    (OKrec R (readStamp wF t) r5 → Settled R cyc (setRec (zapDeps2 wF t) t r5) t) := by
  have htr : w4.rules t ≠ [] := hinv.cy t (by simp)
  have ht0 : t ≠ alwaysId := fun e => htr (e ▸ hinv.hyg.r0)
  have hself : getRec (setRec (zapDeps2 wF t) t r5) R t = r5 := by
    rw [getRec_ne ht0]; simp [setRec]
  have hne : ∀ z, z ≠ t → getRec (setRec (zapDeps2 wF t) t r5) R z = getRec w4 R z := by
    intro z hz
    rw [getRec_setRec_ne _ hz]
    exact getRec_congr (by show wF.recs z = w4.recs z; rw [hrecs])
  have hrs : ∀ z, z ≠ t → readStamp (setRec (zapDeps2 wF t) t r5) z = readStamp w4 z := by
    intro z hz
    show (match wF.fs z with | none => DStamp.missing | some n => .st n.ms n.rest) = _
    rw [hfs z hz]; rfl
  have hrst : readStamp (setRec (zapDeps2 wF t) t r5) t = readStamp wF t := rfl
  have hex : ∀ z, z ≠ t → existsF (setRec (zapDeps2 wF t) t r5) z = existsF w4 z := by
    intro z hz
    show (wF.fs z).isSome = _
    rw [hfs z hz]; rfl
  have hmem : ∀ row, row ∈ (setRec (zapDeps2 wF t) t r5).deps → row ∈ w4.deps ∧ ¬ (row.target = t ∧ row.deleteMe = true) := by
    intro row hrow
    have hrow' : row ∈ (wF.deps.filter (fun d => !(d.target = t && d.deleteMe))) := hrow
    rw [List.mem_filter, hdeps] at hrow'
    refine ⟨hrow'.1, ?_⟩
    rintro ⟨a, b⟩
    simp [a, b] at hrow'
  have hV0 : ∀ z, z ≠ t → (V0 R (setRec (zapDeps2 wF t) t r5) z ↔ V0 R w4 z) := by
    intro z hz
    unfold V0
    rw [hne z hz, hrs z hz]
  have hVt : V0 R (setRec (zapDeps2 wF t) t r5) t ↔ OKrec R (readStamp wF t) r5 := by
    unfold V0
    rw [hself, hrst]
  have hsettled : ∀ z, z ≠ t → Settled R (t :: cyc) w4 z → Settled R cyc (setRec (zapDeps2 wF t) t r5) z := by
    intro z hz hs
    refine ⟨(hV0 z hz).2 hs.1, fun hc => ?_⟩
    rw [hne z hz]
    exact hs.2 (List.mem_cons_of_mem _ hc)
  have hdoneZ : ∀ z, z ≠ t → Done R w4 z → Done R (setRec (zapDeps2 wF t) t r5) z := by
    intro z hz hd
    unfold Done at hd ⊢
    rw [hne z hz, hV0 z hz]
    exact hd
  have hdoneT : Done R (setRec (zapDeps2 wF t) t r5) t := by
    unfold Done
    rw [hself, hVt]
    exact hdone
  have hgood : ∀ row, GoodRow R (t :: cyc) w4 row → GoodRow R cyc (setRec (zapDeps2 wF t) t r5) row := by
    intro row hg
    refine ⟨fun hm => ?_, fun hm => ?_⟩
    · obtain ⟨hs, hnc⟩ := hg.1 hm
      have hst : row.source ≠ t := fun e => hnc (e ▸ List.mem_cons_self)
      exact ⟨hsettled _ hst hs, fun hc => hnc (List.mem_cons_of_mem _ hc)⟩
    · obtain ⟨he, hr⟩ := hg.2 hm
      have hst : row.source ≠ t := fun e => htr (e ▸ hr)
      refine ⟨by rw [hex _ hst]; exact he, ?_⟩
      show wF.rules row.source = []
      rw [hrules]; exact hr
  refine ⟨⟨⟨⟨?_, ?_, ?_, ?_, ?_⟩, ?_, ?_, ?_, ?_, ?_, ?_, ?_⟩, hsettled, ?_, hdoneT, ?_, ?_⟩, ?_⟩
  · exact WFR.setRec (hinv.d.wf.of_recs (by show wF.recs = w4.recs; exact hrecs)) t hwf
  · -- J
    intro y hy hV hck hg ho row hrow hty
    obtain ⟨hrow4, hnd⟩ := hmem row hrow
    by_cases hyt : y = t
    · subst hyt
      have hdm : row.deleteMe = false := by
        cases hd : row.deleteMe with
        | false => rfl
        | true => exact absurd ⟨hty, hd⟩ hnd
      exact hgood row (hK (hVt.1 hV) row hrow4 hty hdm)
    · rw [hne y hyt] at hck hg ho
      have hy' : y ∉ t :: cyc := by
        intro h
        rcases List.mem_cons.1 h with e | h
        · exact hyt e
        · exact hy h
      exact hgood row (hinv.d.j y hy' ((hV0 y hyt).1 hV) hck hg ho row hrow4 hty)
  · -- OV
    intro z hz hexz
    by_cases hzt : z = t
    · subst hzt; rw [hself] at hz ⊢; exact .inl (hov hz)
    · rw [hne z hzt] at hz ⊢
      rw [hrs z hzt]
      rw [hex z hzt] at hexz
      exact hinv.d.ov z hz hexz
  · intro z hz
    by_cases hzt : z = t
    · subst hzt; rw [hself] at hz ⊢; exact hp1 hz
    · rw [hne z hzt] at hz ⊢; exact hinv.d.p1 z hz
  · intro z hzc hz
    have hzt : z ≠ t := fun e => ht (e ▸ hzc)
    rw [hne z hzt] at hz ⊢
    exact hinv.d.p2 z (List.mem_cons_of_mem _ hzc) hz
  · refine ⟨?_, ?_, ?_⟩
    · show wF.rules alwaysId = []
      rw [hrules]; exact hinv.hyg.r0
    · show ∀ t c, c ∈ wF.rules t → wF.rules c = []
      rw [hrules]; exact hinv.hyg.dofiles
    · show ∀ c sc, wF.progs c = some sc → ∀ f, (f ∈ sc.ifcreate ∨ f ∈ sc.cond) → wF.rules f = []
      rw [hrules, hprogs]; exact hinv.hyg.scripts
  · show wF.fs alwaysId = none
    rw [hfs _ (fun e => ht0 e.symm)]; exact hinv.f0
  · show ((setRec (zapDeps2 wF t) t r5).recs alwaysId).isGenerated = false
    have : (setRec (zapDeps2 wF t) t r5).recs alwaysId = w4.recs alwaysId := by
      simp only [setRec]
      rw [if_neg (fun e => ht0 e.symm)]
      show wF.recs alwaysId = _
      rw [hrecs]
    rw [this]; exact hinv.g0
  · intro q hq
    show wF.rules q ≠ []
    rw [hrules]; exact hinv.cy q (List.mem_cons_of_mem _ hq)
  · have hran : ranList (setRec (zapDeps2 wF t) t r5) = ranList w4 := ranList_congr htrace
    rw [hran]
    intro z hz
    by_cases hzt : z = t
    · subst hzt; exact .inr hdoneT
    · rcases hinv.i1 z hz with h | h
      · rcases List.mem_cons.1 h with e | h
        · exact absurd e hzt
        · exact .inl h
      · exact .inr (hdoneZ z hzt h)
  · have hran : ranList (setRec (zapDeps2 wF t) t r5) = ranList w4 := ranList_congr htrace
    rw [hran]; exact hinv.nd
  · intro z hz hzc hch
    by_cases hzt : z = t
    · subst hzt; exact hdoneT
    · rw [hne z hzt] at hch
      have hz' : w4.rules z ≠ [] := by rw [← hrules]; exact hz
      have hzc' : z ∉ t :: cyc := by
        intro h
        rcases List.mem_cons.1 h with e | h
        · exact hzt e
        · exact hzc h
      exact hdoneZ z hzt (hinv.p3 z hz' hzc' hch)
  · intro z hz hd
    have hzt : z ≠ t := fun e => hz (e ▸ List.mem_cons_self)
    exact hdoneZ z hzt hd
  · intro q _ row hrow _
    exact (hmem row hrow).1
  · refine ⟨hrc, hrules, hprogs, ?_⟩
    intro z hz
    have hzt : z ≠ t := fun e => htr (e ▸ hz)
    exact hfs z hzt
  · intro hok
    exact ⟨hVt.2 hok, fun h => absurd h ht⟩

theorem updateStamp_stamp (w : World) (f : Nat) (r : Rec) (R : Nat) :
    (updateStamp w f r R).stamp = some (readStamp w f) := by
  unfold updateStamp
  simp only
  split
  · assumption
  · rfl

/-- The record written after a successful script. -/
theorem success_rec {t : Nat} {w4 wF : World} (hinv : RInv R (t :: cyc) w4) (hrecs : wF.recs = w4.recs)
    (r5 : Rec)
    (h5 : r5 = if (isCheckedR { (wF.recs t) with isGenerated := true, isOverride := false } R ||
              isChangedR { (wF.recs t) with isGenerated := true, isOverride := false } R) = true then
            { (wF.recs t) with isGenerated := true, isOverride := false, stamp := some (readStamp wF t) }
          else setChanged (updateStamp wF t { (wF.recs t) with isGenerated := true, isOverride := false, csum := none }
            R) R) :
    WFrec R r5 ∧ r5.isOverride = false ∧ OKrec R (readStamp wF t) r5 ∧ (isCheckedR r5 R = true → r5.failed = none) := by
  have htr : w4.rules t ≠ [] := hinv.cy t (by simp)
  have ht0 : t ≠ alwaysId := fun e => htr (e ▸ hinv.hyg.r0)
  have hg : getRec w4 R t = wF.recs t := by rw [getRec_ne ht0, hrecs]
  have hwf : WFrec R (wF.recs t) := by rw [hrecs]; exact hinv.d.wf t
  obtain ⟨w1, w2, w3, w4'⟩ := hwf
  by_cases hc : (isCheckedR { (wF.recs t) with isGenerated := true, isOverride := false } R ||
      isChangedR { (wF.recs t) with isGenerated := true, isOverride := false } R) = true
  · rw [if_pos hc] at h5
    have hck : isCheckedR (wF.recs t) R = true ∨ isChangedR (wF.recs t) R = true := by
      simpa [isCheckedR, isChangedR] using hc
    have hfail : (wF.recs t).failed = none := by
      rcases hck with h | h
      · have := hinv.d.p1 t (by rw [hg]; exact h)
        rw [hg] at this; exact this
      · have hch : (wF.recs t).changed = some R := by
          simp only [isChangedR] at h
          cases hcc : (wF.recs t).changed with
          | none => rw [hcc] at h; cases h
          | some c =>
            rw [hcc] at h
            have := w1 c hcc
            simp at h
            have : c = R := by omega
            rw [this]
        have := hinv.d.p2 t (by simp) (by rw [hg]; exact hch)
        rw [hg] at this; exact this
    have hchs : ∃ c, (wF.recs t).changed = some c ∧ c ≤ R := by
      cases hcc : (wF.recs t).changed with
      | none =>
        exfalso
        have h4 := w4' hcc
        rcases hck with h | h
        · simp [isCheckedR, h4.2.1] at h
        · simp [isChangedR, hcc] at h
      | some c => exact ⟨c, rfl, w1 c hcc⟩
    obtain ⟨c, hcc, hcR⟩ := hchs
    subst h5
    refine ⟨⟨w1, w2, w3, ?_⟩, rfl, ⟨hfail, c, hcc, hcR, ?_⟩, fun _ => hfail⟩
    · intro hn; simp only at hn; rw [hcc] at hn; cases hn
    · rcases hck with h | h
      · left; simpa [isCheckedR] using h
      · right
        refine ⟨rfl, .inr (.inr ?_)⟩
        simp only [isChangedR, hcc] at h
        simp at h
        omega
  · rw [if_neg hc] at h5
    subst h5
    have hbase : WFrec R { (wF.recs t) with isGenerated := true, isOverride := false, csum := none } :=
      ⟨w1, w2, w3, fun hn => ⟨(w4' hn).1, (w4' hn).2.1, rfl⟩⟩
    refine ⟨(hbase.updateStamp _ _).setChanged, rfl, ⟨rfl, R, rfl, Nat.le_refl _, .inr ⟨?_, .inr (.inr rfl)⟩⟩, fun _ => rfl⟩
    exact updateStamp_stamp _ _ _ _

theorem setFailed_props (hR : 0 < R) (w : World) (t : Nat) (sf : Rec)
    (hck : isCheckedR sf R = false) :
    (setFailed w t sf R).failed = some R ∧
    isCheckedR (setFailed w t sf R) R = false ∧ (setFailed w t sf R).stamp = some (readStamp w t) ∧
    isFailedR (setFailed w t sf R) R = true := by
  have h1 : isCheckedR (updateStamp w t sf R) R = false := by
    unfold updateStamp
    simp only
    split
    · exact hck
    · simpa [isCheckedR, setChanged] using hck
  refine ⟨rfl, ?_, updateStamp_stamp _ _ _ _, isFailedR_self hR rfl⟩
  simpa [isCheckedR, setFailed] using h1

theorem recordNewState_spec (hR : 0 < R) (cx : Ctx) (hRid : cx.runid = R) {t : Nat} (ht : t ∉ cyc) {w4 : World}
    (hinv : RInv R (t :: cyc) w4) (sf : Rec) (hsf : WFrec R sf)
    (hck : isCheckedR sf R = false) (rv : Status) (out : Option Content) (hK : rv = 0 → K R (t :: cyc) w4 t) :
    (recordNewState cx t sf rv out w4).1 = rv ∧
    LeavePost R cyc t w4 (recordNewState cx t sf rv out w4).2 ∧
    (rv = 0 → Settled R cyc (recordNewState cx t sf rv out w4).2 t) := by
  have htr : w4.rules t ≠ [] := hinv.cy t (by simp)
  unfold recordNewState
  simp only
  rw [hRid]
  by_cases hrv : rv = 0
  · rw [if_pos hrv]
    have key : ∀ wF : World, wF.recs = w4.recs → wF.deps = w4.deps → wF.rules = w4.rules → wF.progs = w4.progs →
        wF.runCounter = w4.runCounter → wF.trace = w4.trace → (∀ z, z ≠ t → wF.fs z = w4.fs z) →
        ∀ r5, r5 = (if (isCheckedR { (wF.recs t) with isGenerated := true, isOverride := false } R ||
              isChangedR { (wF.recs t) with isGenerated := true, isOverride := false } R) = true then
            { (wF.recs t) with isGenerated := true, isOverride := false, stamp := some (readStamp wF t) }
          else setChanged (updateStamp wF t { (wF.recs t) with isGenerated := true, isOverride := false, csum := none }
            R) R) →
        LeavePost R cyc t w4 (setRec (zapDeps2 wF t) t r5) ∧ Settled R cyc (setRec (zapDeps2 wF t) t r5) t := by
      intro wF h1 h2 h3 h4 h5 h6 h7 r5 h5'
      obtain ⟨a1, a2, a3, a4⟩ := success_rec hinv h1 r5 h5'
      obtain ⟨b1, b2⟩ := leave_core ht hinv h1 h2 h3 h4 h5 h6 h7 r5 a1 (fun h => by rw [a2] at h; cases h)
        (.inr a3) a4 (fun _ => hK hrv)
      exact ⟨b1, b2 a3⟩
    have hsf' : ∀ (n : Option FNode) (w' : World), w'.fs = w4.fs → ∀ z, z ≠ t → (setFile w' t n).fs z = w4.fs z := by
      intro n w' e z hz
      simp [setFile, hz, e]
    cases out with
    | some c =>
      obtain ⟨k1, k2⟩ := key (setFile (newNode w4 c).2 t (some (newNode w4 c).1)) rfl rfl rfl rfl rfl rfl
        (hsf' _ _ rfl) _ rfl
      exact ⟨hrv.symm, k1, fun _ => k2⟩
    | none =>
      obtain ⟨k1, k2⟩ := key (setFile w4 t none) rfl rfl rfl rfl rfl rfl (hsf' _ _ rfl) _ rfl
      exact ⟨hrv.symm, k1, fun _ => k2⟩
  · rw [if_neg hrv]
    obtain ⟨f1, f3, f4, f5⟩ := setFailed_props hR w4 t sf hck
    obtain ⟨b1, _⟩ := leave_core ht hinv (wF := w4) rfl rfl rfl rfl rfl rfl (fun _ _ => rfl)
      (setFailed w4 t sf R) (hsf.setFailed _ _) (fun _ => f5) (.inl f5)
      (fun h => by rw [f3] at h; cases h)
      (fun h => by rw [h.1] at f1; cases f1)
    exact ⟨rfl, b1, fun h => absurd h hrv⟩

/-- What a job on `t` guarantees. -/
structure JobPost (R : Nat) (cyc : List Nat) (t : Nat) (w : World) (res : Status × World) : Prop where
  inv : RInv R cyc res.2
  step : RStep R cyc noAdd w res.2
  done : Done R res.2 t
  ok : res.1 = 0 → Settled R cyc res.2 t
  nn : 0 ≤ res.1

theorem JobPost.after {t : Nat} {w0 w : World} {res : Status × World} (h0 : RStep R cyc noAdd w0 w)
    (h : JobPost R cyc t w res) : JobPost R cyc t w0 res :=
  { h with step := h0.trans h.step }

theorem Open.setRec_ne {w : World} {t f : Nat} (ho : Open R w t) (hne : t ≠ f) (r : Rec) : Open R (setRec w f r) t := by
  unfold Open V0 at ho ⊢
  rw [getRec_setRec_ne _ hne]
  exact ho

theorem RInv.evWarn {w : World} (hinv : RInv R cyc w) (t : Nat) : RInv R cyc (ev w (.warnOverride t)) where
  d := ⟨hinv.d.wf.of_recs rfl, hinv.d.j, hinv.d.ov, hinv.d.p1, hinv.d.p2⟩
  hyg := ⟨hinv.hyg.r0, hinv.hyg.dofiles, hinv.hyg.scripts⟩
  f0 := hinv.f0
  g0 := hinv.g0
  cy := hinv.cy
  i1 := by rw [ranList_ev_warn]; exact hinv.i1
  nd := by rw [ranList_ev_warn]; exact hinv.nd
  p3 := hinv.p3

theorem RStep.evWarn (w : World) (t : Nat) : RStep R cyc noAdd w (ev w (.warnOverride t)) :=
  ⟨fun _ h => h, fun _ _ h => h, fun _ _ _ h _ => .inl h, ⟨rfl, rfl, rfl, fun _ _ => rfl⟩⟩

/-- From the chosen .do file to the recorded result. -/
theorem script_phase (hR : 0 < R) {E : Engine} (hE : ESpec R E) (d : Defects) (cx : Ctx) (hRid : cx.runid = R)
    (hcr : cx.crash = none) (hcyc : ∀ x ∈ cyc, x ∈ cx.cycles) {t : Nat} (ht : t ∉ cyc) (sf : Rec) (hsf : WFrec R sf)
    (hck : isCheckedR sf R = false) (w3 : World) (dof : Nat)
    (hinv : RInv R cyc w3) (ho : Open R w3 t) (hdr : dof ∈ w3.rules t) (hdx : existsF w3 dof = true)
    (hrows : ∀ row ∈ w3.deps, row.target = t → row.deleteMe = false →
      GoodRow R cyc w3 row ∨ (row.modeM = true ∧ row.source = dof))
    (sc : Script) (hsc : ∀ f, (f ∈ sc.ifcreate ∨ f ∈ sc.cond) → w3.rules f = [])
    (rv : Status) (out : Option Content) (w6 : World)
    (hrun : runScript E d cx t sc (ev (setRec w3 dof (setStatic w3 dof (w3.recs dof) R)) (.ran t)) = (rv, out, w6)) :
    rv ≠ CRASHED ∧ JobPost R cyc t w3 (recordNewState cx t sf rv out w6) := by
  have htr : w3.rules t ≠ [] := by intro e; rw [e] at hdr; cases hdr
  have hdof0 : w3.rules dof = [] := hinv.hyg.dofiles t dof hdr
  have hdc : dof ∉ cyc := fun h => hinv.cy dof h hdof0
  have hdt : t ≠ dof := fun e => htr (e ▸ hdof0)
  -- the .do file becomes a source
  have hstamp : (setStatic w3 dof (w3.recs dof) R).stamp = some (readStamp w3 dof) := updateStamp_stamp _ _ _ _
  obtain ⟨a1, a2, a3⟩ := hinv.settleWrite dof hdc (setStatic w3 dof (w3.recs dof) R)
    ((hinv.d.wf dof).setStatic _ _) rfl hstamp (.inl rfl) (fun _ => rfl)
  have ho4 : Open R (setRec w3 dof (setStatic w3 dof (w3.recs dof) R)) t := ho.setRec_ne hdt _
  have hK4 : K R cyc (setRec w3 dof (setStatic w3 dof (w3.recs dof) R)) t := by
    intro row hrow htg hdm
    rcases hrows row hrow htg hdm with h | h
    · exact a2.goodRow h
    · refine ⟨fun _ => ?_, fun hm => by rw [h.1] at hm; cases hm⟩
      rw [h.2]; exact ⟨a3, hdc⟩
  -- the script starts
  have b1 := a1.enter ht ho4 htr
  have hK5 : K R (t :: cyc) (ev (setRec w3 dof (setStatic w3 dof (w3.recs dof) R)) (.ran t)) t := by
    intro row hrow htg hdm
    exact (hK4 row hrow htg hdm).enter ho4.1
  have hs := runScript_spec hR hE d cx hRid hcr hcyc t sc
    (ev (setRec w3 dof (setStatic w3 dof (w3.recs dof) R)) (.ran t)) hsc b1 hK5
  rw [hrun] at hs
  obtain ⟨c1, c2, c3, c4⟩ := hs
  have hnc : rv ≠ CRASHED := by
    intro e; rw [e] at c4
    have : ¬ ((0 : Int) ≤ CRASHED) := by decide
    exact this c4
  obtain ⟨e1, e2, e3⟩ := recordNewState_spec hR cx hRid ht c1 sf hsf hck rv out c3
  refine ⟨hnc, ⟨e2.inv, ⟨?_, ?_, ?_, ?_⟩, e2.doneT, ?_, ?_⟩⟩
  · intro z hz
    have h4 := a2.settled z hz
    have hzt : z ≠ t := fun e => ho4.1 (e ▸ h4.1)
    exact e2.settled z hzt (c2.settled z (h4.enter ho4.1))
  · intro z hzc hz
    have h4 := a2.done z hzc hz
    have hzt : z ≠ t := fun e => ho4.not_done (e ▸ h4)
    have hzc' : z ∉ t :: cyc := by
      intro h
      rcases List.mem_cons.1 h with e | h
      · exact hzt e
      · exact hzc h
    exact e2.done z hzc' (c2.done z hzc' h4)
  · intro q hq row hrow htg
    have h6 := e2.rows q hq row hrow htg
    rcases c2.rows q (List.mem_cons_of_mem _ hq) row h6 htg with h | h
    · exact .inl h
    · exact absurd (h ▸ hq) ht
  · exact a2.keeps.trans ((Keeps.of_eq (Keeps.refl _) rfl rfl rfl rfl).trans (c2.keeps.trans e2.keeps))
  · rw [e1]; exact e3
  · rw [e1]; exact c4

theorem existsF_of_readStamp {w : World} {t : Nat} (h : (readStamp w t != .missing) = true) : existsF w t = true := by
  simp only [readStamp, existsF] at h ⊢
  cases hf : w.fs t with
  | none => rw [hf] at h; simp at h
  | some n => rfl

theorem Open.rowEq' {w w' : World} {t : Nat} (ho : Open R w t) (h : RowEq w w') : Open R w' t := ho.rowEq h

theorem startSelf_spec (hR : 0 < R) {E : Engine} (hE : ESpec R E) (d : Defects) (cx : Ctx) (hRid : cx.runid = R)
    (hcr : cx.crash = none) (hcyc : ∀ x ∈ cyc, x ∈ cx.cycles) {t : Nat} (ht : t ∉ cyc) (sf0 : Rec) (hsf : WFrec R sf0)
    (w1 : World) (hov0 : sf0.isOverride = true → existsF w1 t = true → sf0.isGenerated = true)
    (hck0 : isCheckedR sf0 R = false) (hinv : RInv R cyc w1)
    (ho : Open R w1 t) : JobPost R cyc t w1 (startSelf E d cx t sf0 w1) := by
  unfold startSelf
  simp only [hRid]
  generalize hb : (sf0.isGenerated && readStamp w1 t != .missing &&
      (sf0.isOverride || detectOverride (sf0.stamp.getD .missing) (readStamp w1 t))) = b
  cases b with
  | true =>
    -- the file was modified by hand (maybe once more): it becomes or stays overridden, with its new stamp
    simp only [if_true]
    have hns : (readStamp w1 t != .missing) = true := by
      simp only [Bool.and_eq_true] at hb; exact hb.1.2
    have hex : existsF w1 t = true := existsF_of_readStamp hns
    have ht0 : t ≠ alwaysId := by
      intro e
      rw [e] at hex
      simp [existsF, hinv.f0] at hex
    have i0 := hinv.evWarn t
    obtain ⟨a1, a2, a3⟩ := i0.settleWrite t ht (setOverride (ev w1 (.warnOverride t)) t sf0 R)
      (hsf.setOverride _ _) rfl (updateStamp_stamp _ _ _ _) (.inr rfl) (fun e => absurd e ht0)
    obtain ⟨b1, b2, b3⟩ := a1.settleWrite t ht (setOverride (ev w1 (.warnOverride t)) t sf0 R)
      (hsf.setOverride _ _) rfl (updateStamp_stamp _ _ _ _) (.inr rfl) (fun e => absurd e ht0)
    have hcond : (existsF (setRec (ev w1 (.warnOverride t)) t (setOverride (ev w1 (.warnOverride t)) t sf0 R)) t &&
        ((setOverride (ev w1 (.warnOverride t)) t sf0 R).isOverride ||
          !(setOverride (ev w1 (.warnOverride t)) t sf0 R).isGenerated)) = true := by
      have : existsF (setRec (ev w1 (.warnOverride t)) t (setOverride (ev w1 (.warnOverride t)) t sf0 R)) t = true := hex
      rw [this]; rfl
    rw [if_pos hcond]
    have hsame : (if (!(setOverride (ev w1 (.warnOverride t)) t sf0 R).isOverride) = true then
        setStatic (setRec (ev w1 (.warnOverride t)) t (setOverride (ev w1 (.warnOverride t)) t sf0 R)) t
          (setOverride (ev w1 (.warnOverride t)) t sf0 R) R
        else setOverride (ev w1 (.warnOverride t)) t sf0 R) = setOverride (ev w1 (.warnOverride t)) t sf0 R := rfl
    rw [hsame]
    exact ⟨b1, (RStep.evWarn w1 t).trans (a2.trans b2), .inr b3.1, fun _ => b3, by simp⟩
  | false =>
    simp only [Bool.false_eq_true, if_false]
    -- an overridden copy that gets here belongs to a file that has disappeared
    have hovex : sf0.isOverride = true → existsF w1 t = false := by
      intro ho'
      cases hex : existsF w1 t with
      | false => rfl
      | true =>
        exfalso
        have hg := hov0 ho' hex
        have hns : (readStamp w1 t != .missing) = true := by
          simp only [readStamp, existsF] at hex ⊢
          cases hfs : w1.fs t with
          | none => rw [hfs] at hex; cases hex
          | some n => rfl
        rw [hg, hns, ho'] at hb
        simp at hb
    cases hst : (existsF w1 t && (sf0.isOverride || !sf0.isGenerated)) with
    | true =>
      -- an existing file that is not redo's
      have hov' : sf0.isOverride = false := by
        cases ho' : sf0.isOverride with
        | false => rfl
        | true =>
          have := hovex ho'
          rw [this] at hst; simp at hst
      simp only [if_true, hov', Bool.not_false]
      obtain ⟨a1, a2, a3⟩ := hinv.settleWrite t ht (setStatic w1 t sf0 R) (hsf.setStatic _ _) rfl
        (updateStamp_stamp _ _ _ _) (.inl rfl) (fun _ => rfl)
      exact ⟨a1, a2, .inr a3.1, fun _ => a3, by simp⟩
    | false =>
      simp only [Bool.false_eq_true, if_false]
      obtain ⟨z1, z2, z3⟩ := hinv.zapDeps1 t ht ho.1
      have hoz : Open R (zapDeps1 w1 t) t := ho.rowEq (RowEq.zapDeps1 w1 t)
      have hcs : ∀ c ∈ (zapDeps1 w1 t).rules t, (zapDeps1 w1 t).rules c = [] := fun c hc => z1.hyg.dofiles t c hc
      have hfd := findDoFile_spec (R := R) (cyc := cyc) ht ((zapDeps1 w1 t).rules t) (zapDeps1 w1 t) z1 hoz.1 hcs z3
      have hne := findDoFile_some_ne_nil t ((zapDeps1 w1 t).rules t) (zapDeps1 w1 t)
      generalize findDoFile t ((zapDeps1 w1 t).rules t) (zapDeps1 w1 t) = res at hfd hne
      obtain ⟨o, w3⟩ := res
      obtain ⟨f1, f2, f3, f4⟩ := hfd
      have ho3 : Open R w3 t := hoz.rowEq f3
      cases o with
      | none =>
        dsimp only
        cases hex : existsF w3 t with
        | true =>
          simp only [if_true]
          obtain ⟨a1, a2, a3⟩ := f1.settleWrite t ht (setStatic w3 t sf0 R) (hsf.setStatic _ _) rfl
            (updateStamp_stamp _ _ _ _) (.inl rfl) (fun _ => rfl)
          exact ⟨a1, z2.trans (f2.trans a2), .inr a3.1, fun _ => a3, by simp⟩
        | false =>
          simp only [Bool.false_eq_true, if_false]
          obtain ⟨p1, p3, p4, p5⟩ := setFailed_props hR w3 t sf0 hck0
          have hg0 : t = alwaysId → (setFailed w3 t sf0 R).isGenerated = false := by
            intro _
            show ((updateStamp w3 t sf0 R).stamp != some DStamp.missing) = false
            rw [updateStamp_stamp]
            have : readStamp w3 t = .missing := by
              simp only [existsF] at hex
              simp only [readStamp]
              cases hf : w3.fs t with
              | none => rfl
              | some n => rw [hf] at hex; cases hex
            rw [this]; rfl
          obtain ⟨a1, a2, a3⟩ := f1.failWrite hR t ht ho3 (setFailed w3 t sf0 R) (hsf.setFailed _ _) p1 p3 hg0
          refine ⟨a1, z2.trans (f2.trans a2), a3, fun h => ?_, (by show (0 : Int) ≤ 1; decide)⟩
          exact absurd (show (1 : Int) = 0 from h) (by decide)
      | some dof =>
        obtain ⟨n1, n2, n3⟩ := hne dof w3 rfl
        have hdr : dof ∈ w3.rules t := by
          rw [f3.rules]; exact n1
        have hdx : existsF w3 dof = true := by rw [n2]; exact n3
        have hrows : ∀ row ∈ w3.deps, row.target = t → row.deleteMe = false →
            GoodRow R cyc w3 row ∨ (row.modeM = true ∧ row.source = dof) := by
          intro row hrow htg hdm
          rcases f4 row hrow htg hdm with h | h
          · exact .inl h
          · exact .inr ⟨h.1, (Option.some.inj h.2).symm⟩
        dsimp only
        generalize heq : runScript E d cx t _ _ = rr
        obtain ⟨rv, out, w6⟩ := rr
        dsimp only
        have key := script_phase hR hE d cx hRid hcr hcyc ht sf0 hsf hck0 w3 dof f1 ho3 hdr hdx hrows _ ?_
          rv out w6 heq
        · rw [if_neg key.1]
          exact key.2.after (z2.trans f2)
        · intro f hf
          split at hf
          · rename_i n _
            cases hp : w3.progs n.content with
            | none =>
              have : (ev (setRec w3 dof (setStatic w3 dof (w3.recs dof) R)) (.ran t)).progs n.content = none := hp
              rw [this] at hf
              simp at hf
            | some sc' =>
              have : (ev (setRec w3 dof (setStatic w3 dof (w3.recs dof) R)) (.ran t)).progs n.content = some sc' := hp
              rw [this] at hf
              exact f1.hyg.scripts _ sc' hp f hf
          · simp at hf

end RedoModel.Deps.Once
