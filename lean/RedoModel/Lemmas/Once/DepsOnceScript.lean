import RedoModel.Lemmas.Once.DepsOnceStart
/-! The script of a target, for the once-per-run proof. -/
namespace RedoModel.Deps.Once
open RedoModel.Deps
open RedoModel.Generated

variable {R : Nat} {cyc : List Nat}

/-- The rows a `redo-ifchange` run by the script of `p` may add to `p`. -/
def addFor (p : Option Nat) : Nat → Dep → Prop := fun q _ => p = some q

/-- Every row a running target has gained is good. -/
def NewGood (R : Nat) (cyc : List Nat) (w w' : World) : Prop :=
  ∀ q ∈ cyc, ∀ row ∈ w'.deps, row.target = q →
    row ∈ w.deps ∨ (row.modeM = true ∧ Settled R cyc w' row.source ∧ row.source ∉ cyc)

/-- Specification of the nested `redo-ifchange` commands. -/
def ESpec (R : Nat) (E : Engine) : Prop :=
  ∀ (cx : Ctx) (cyc : List Nat) (ts : List Nat) (w : World), cx.runid = R → cx.isRedo = false → cx.crash = none →
    (∀ x ∈ cyc, x ∈ cx.cycles) →
    (∀ p, cx.parent = some p → p ∈ cyc) →
    (cx.unlocked = true → ∀ t ∈ ts, t ∉ cyc) →
    RInv R cyc w →
    RInv R cyc (E.ifchangeCmd cx ts w).2 ∧
    RStep R cyc (addFor cx.parent) w (E.ifchangeCmd cx ts w).2 ∧
    ((E.ifchangeCmd cx ts w).1 = 0 → NewGood R cyc w (E.ifchangeCmd cx ts w).2 ∧
      ∀ t ∈ ts, Settled R cyc (E.ifchangeCmd cx ts w).2 t ∧ t ∉ cyc) ∧
    0 ≤ (E.ifchangeCmd cx ts w).1

theorem RStep.goodRow {add : Nat → Dep → Prop} {w w' : World} (h : RStep R cyc add w w') {row : Dep}
    (hg : GoodRow R cyc w row) : GoodRow R cyc w' row := by
  refine ⟨fun hm => ⟨h.settled _ (hg.1 hm).1, (hg.1 hm).2⟩, fun hm => ?_⟩
  obtain ⟨h1, h2⟩ := hg.2 hm
  refine ⟨?_, by rw [h.keeps.2.1]; exact h2⟩
  simp only [existsF] at h1 ⊢
  rw [h.keeps.2.2.2 _ h2]; exact h1

/-- Additions to `t` only. -/
def addT (t : Nat) : Nat → Dep → Prop := fun q _ => q = t

/-- One nested command of the script of `t`. -/
theorem script_call {E : Engine} (hE : ESpec R E) (cx : Ctx) (hR : cx.runid = R) (hcr : cx.crash = none)
    (hcyc : ∀ x ∈ cyc, x ∈ cx.cycles) (t : Nat) (c : List Nat) (w : World) (hinv : RInv R (t :: cyc) w)
    (hK : K R (t :: cyc) w t) :
    RInv R (t :: cyc) (E.ifchangeCmd (scriptCx cx t) c w).2 ∧
    RStep R (t :: cyc) (addT t) w (E.ifchangeCmd (scriptCx cx t) c w).2 ∧
    ((E.ifchangeCmd (scriptCx cx t) c w).1 = 0 → K R (t :: cyc) (E.ifchangeCmd (scriptCx cx t) c w).2 t) ∧
    0 ≤ (E.ifchangeCmd (scriptCx cx t) c w).1 := by
  have hcy' : ∀ x ∈ t :: cyc, x ∈ (scriptCx cx t).cycles := by
    intro x hx
    rcases List.mem_cons.1 hx with e | hx
    · simp [scriptCx, e]
    · exact List.mem_cons_of_mem _ (hcyc x hx)
  have := hE (scriptCx cx t) (t :: cyc) c w hR rfl hcr hcy'
    (by intro p hp; simp only [scriptCx] at hp; cases hp; simp)
    (by intro h; cases h) hinv
  obtain ⟨i1, i2, i3, i4⟩ := this
  refine ⟨i1, i2.mono (fun q row h => ?_), ?_, i4⟩
  · have : some t = some q := h
    exact (Option.some.inj this).symm
  · intro hrv row hrow ht hdm
    rcases (i3 hrv).1 t (by simp) row hrow ht with h | h
    · exact i2.goodRow (hK row h ht hdm)
    · exact ⟨fun _ => ⟨h.2.1, h.2.2⟩, (fun hm => by rw [h.1] at hm; cases hm)⟩

theorem cmds_spec {E : Engine} (hE : ESpec R E) (cx : Ctx) (hR : cx.runid = R) (hcr : cx.crash = none)
    (hcyc : ∀ x ∈ cyc, x ∈ cx.cycles) (t : Nat) :
    ∀ (cs : List (List Nat)) (k : Nat) (w : World), RInv R (t :: cyc) w → K R (t :: cyc) w t →
      RInv R (t :: cyc) (runScript.cmds E cx t (scriptCx cx t) cs k w).2 ∧
      RStep R (t :: cyc) (addT t) w (runScript.cmds E cx t (scriptCx cx t) cs k w).2 ∧
      ((runScript.cmds E cx t (scriptCx cx t) cs k w).1 = 0 →
        K R (t :: cyc) (runScript.cmds E cx t (scriptCx cx t) cs k w).2 t) ∧
      0 ≤ (runScript.cmds E cx t (scriptCx cx t) cs k w).1
  | [], k, w, hinv, hK => by
    rw [runScript.cmds]
    simp only [hcr]
    exact ⟨hinv, RStep.refl _ _, fun _ => hK, by simp⟩
  | c :: cs, k, w, hinv, hK => by
    rw [runScript.cmds]
    simp only [hcr]
    have h1 := script_call hE cx hR hcr hcyc t c w hinv hK
    generalize E.ifchangeCmd (scriptCx cx t) c w = res at h1
    obtain ⟨rv, w1⟩ := res
    obtain ⟨i1, i2, i3, i4⟩ := h1
    by_cases hrv : rv = 0
    · subst hrv
      obtain ⟨j1, j2, j3, j4⟩ := cmds_spec hE cx hR hcr hcyc t cs (k + 1) w1 i1 (i3 rfl)
      exact ⟨j1, i2.trans j2, j3, j4⟩
    · have hnn : ¬ ((none : Option (Nat × Nat)) = some (t, k)) := by simp
      rw [if_neg hnn]
      split
      · rename_i heq; cases heq; exact absurd rfl hrv
      · rename_i heq; cases heq
        exact ⟨i1, i2, fun h => absurd h hrv, i4⟩

theorem K.step {add : Nat → Dep → Prop} {w w' : World} {t : Nat} (h : RStep R (t :: cyc) add w w')
    (hK : K R (t :: cyc) w t)
    (hadd : ∀ row ∈ w'.deps, row.target = t → add t row → row.deleteMe = false → GoodRow R (t :: cyc) w' row) :
    K R (t :: cyc) w' t := by
  intro row hrow ht hdm
  rcases h.rows t (by simp) row hrow ht with h1 | h1
  · exact h.goodRow (hK row h1 ht hdm)
  · exact hadd row hrow ht h1 hdm

/-- Declaring one more dependency of the running target `t`. -/
theorem script_addDep {w : World} {t : Nat} (hinv : RInv R (t :: cyc) w) (hK : K R (t :: cyc) w t) (s : Nat) (m : Bool)
    (hgood : GoodRow R (t :: cyc) w { target := t, source := s, modeM := m, deleteMe := false }) :
    RInv R (t :: cyc) (addDep w t s m) ∧ RStep R (t :: cyc) (addT t) w (addDep w t s m) ∧
    K R (t :: cyc) (addDep w t s m) t := by
  obtain ⟨i1, i2⟩ := hinv.addDep (add := addT t) t s m (.inl (by simp)) (fun _ => rfl)
  refine ⟨i1, i2, ?_⟩
  intro row hrow ht hdm
  rcases mem_addDep_deps' hrow with h | h
  · subst h; exact hgood.rowEq (RowEq.addDep _ _ _ _)
  · exact (hK row h ht hdm).rowEq (RowEq.addDep _ _ _ _)

theorem conds_spec {E : Engine} (hE : ESpec R E) (cx : Ctx) (hR : cx.runid = R) (hcr : cx.crash = none)
    (hcyc : ∀ x ∈ cyc, x ∈ cx.cycles) (t : Nat) :
    ∀ (fs : List Nat) (w : World), RInv R (t :: cyc) w → K R (t :: cyc) w t → (∀ f ∈ fs, w.rules f = []) →
      RInv R (t :: cyc) (runScript.conds E t (scriptCx cx t) fs w).2 ∧
      RStep R (t :: cyc) (addT t) w (runScript.conds E t (scriptCx cx t) fs w).2 ∧
      ((runScript.conds E t (scriptCx cx t) fs w).1 = 0 →
        K R (t :: cyc) (runScript.conds E t (scriptCx cx t) fs w).2 t) ∧
      0 ≤ (runScript.conds E t (scriptCx cx t) fs w).1
  | [], w, hinv, hK, _ => by
    rw [runScript.conds]
    exact ⟨hinv, RStep.refl _ _, fun _ => hK, by simp⟩
  | f :: fs, w, hinv, hK, hru => by
    rw [runScript.conds]
    cases he : existsF w f with
    | true =>
      simp only [if_true]
      have h1 := script_call hE cx hR hcr hcyc t [f] w hinv hK
      generalize E.ifchangeCmd (scriptCx cx t) [f] w = res at h1
      obtain ⟨rv, w1⟩ := res
      obtain ⟨i1, i2, i3, i4⟩ := h1
      by_cases hrv : rv = 0
      · subst hrv
        obtain ⟨j1, j2, j3, j4⟩ := conds_spec hE cx hR hcr hcyc t fs w1 i1 (i3 rfl)
          (fun f' hf' => by rw [i2.keeps.2.1]; exact hru f' (by simp [hf']))
        exact ⟨j1, i2.trans j2, j3, j4⟩
      · split
        · rename_i heq; cases heq; exact absurd rfl hrv
        · rename_i heq; cases heq
          exact ⟨i1, i2, fun h => absurd h hrv, i4⟩
    | false =>
      simp only [Bool.false_eq_true, if_false]
      obtain ⟨i1, i2, i3⟩ := script_addDep hinv hK f false
        ⟨(fun h => by cases h), fun _ => ⟨he, hru f (by simp)⟩⟩
      obtain ⟨j1, j2, j3, j4⟩ := conds_spec hE cx hR hcr hcyc t fs _ i1 i3
        (fun f' hf' => by rw [i2.keeps.2.1]; exact hru f' (by simp [hf']))
      exact ⟨j1, i2.trans j2, j3, j4⟩

theorem ifcreate_spec {t : Nat} : ∀ (fs : List Nat) (w : World), RInv R (t :: cyc) w → K R (t :: cyc) w t →
    (∀ f ∈ fs, w.rules f = []) → (∀ f ∈ fs, existsF w f = false) →
    RInv R (t :: cyc) (fs.foldl (fun w f => addDep w t f false) w) ∧
    RStep R (t :: cyc) (addT t) w (fs.foldl (fun w f => addDep w t f false) w) ∧
    K R (t :: cyc) (fs.foldl (fun w f => addDep w t f false) w) t
  | [], w, hinv, hK, _, _ => ⟨hinv, RStep.refl _ _, hK⟩
  | f :: fs, w, hinv, hK, hru, hex => by
    simp only [List.foldl_cons]
    obtain ⟨i1, i2, i3⟩ := script_addDep hinv hK f false
      ⟨(fun h => by cases h), fun _ => ⟨hex f (by simp), hru f (by simp)⟩⟩
    have hre := RowEq.addDep w t f false
    obtain ⟨j1, j2, j3⟩ := ifcreate_spec fs _ i1 i3
      (fun f' hf' => by rw [hre.rules]; exact hru f' (by simp [hf']))
      (fun f' hf' => by rw [existsF_congr _ hre.fs]; exact hex f' (by simp [hf']))
    exact ⟨j1, i2.trans j2, j3⟩

theorem stampRec_props (hR : 0 < R) (r : Rec) (data : Content) :
    (stampRec r R data).failed = none ∧ (stampRec r R data).isOverride = false ∧
    (isCheckedR r R = true → isCheckedR (stampRec r R data) R = true) ∧
    (∀ c, r.changed = some c → c ≤ R → ∃ c', (stampRec r R data).changed = some c' ∧ c' ≤ R) := by
  unfold stampRec
  simp only
  split
  · refine ⟨rfl, rfl, ?_, fun _ _ _ => ⟨R, rfl, Nat.le_refl _⟩⟩
    intro h; simpa [isCheckedR, setChanged] using h
  · refine ⟨rfl, rfl, fun _ => ?_, fun c hc hle => ⟨c, hc, hle⟩⟩
    simp [isCheckedR]; omega

/-- `redo-stamp` run by the script of `t`. -/
theorem stampWrite (hR : 0 < R) {w : World} {t : Nat} (hinv : RInv R (t :: cyc) w) (data : Content) :
    RInv R (t :: cyc) (setRec w t (stampRec (w.recs t) R data)) ∧
    RStep R (t :: cyc) noAdd w (setRec w t (stampRec (w.recs t) R data)) := by
  have ht0 : t ≠ alwaysId := by
    intro e
    exact hinv.cy t (by simp) (e ▸ hinv.hyg.r0)
  have hself : getRec (setRec w t (stampRec (w.recs t) R data)) R t = stampRec (w.recs t) R data := by
    rw [getRec_ne ht0]; simp [setRec]
  have hold : getRec w R t = w.recs t := getRec_ne ht0
  obtain ⟨p1, p2, p3, p4⟩ := stampRec_props hR (w.recs t) data
  apply hinv.recWrite t _ ((hinv.d.wf t).stampRec data)
  · rintro ⟨⟨hf, c, hc, hcR, _⟩, hck⟩
    have hck' := hck (by simp)
    rw [hold] at hf hc hck'
    obtain ⟨c', hc', hle'⟩ := p4 c hc hcR
    unfold Settled V0
    rw [hself]
    exact ⟨⟨p1, c', hc', hle', .inl (p3 hck')⟩, fun _ => p3 hck'⟩
  · intro h; exact absurd (List.mem_cons_self) h
  · intro h; exact absurd (List.mem_cons_self) h
  · intro h
    rw [hself, p2] at h; cases h
  · intro e; exact absurd e ht0
  · intro _; rw [hself]; exact p1
  · intro _ _; rw [hself]; exact p1
  · intro h; exact absurd (List.mem_cons_self) h

/-- `redo-always` run by the script of `t`. -/
theorem always_spec {w : World} {t : Nat} (hinv : RInv R (t :: cyc) w) (hK : K R (t :: cyc) w t) :
    RInv R (t :: cyc) (setRec (addDep w t alwaysId true) alwaysId
      (setChanged { ((addDep w t alwaysId true).recs alwaysId) with stamp := some .missing } R)) ∧
    RStep R (t :: cyc) (addT t) w (setRec (addDep w t alwaysId true) alwaysId
      (setChanged { ((addDep w t alwaysId true).recs alwaysId) with stamp := some .missing } R)) ∧
    K R (t :: cyc) (setRec (addDep w t alwaysId true) alwaysId
      (setChanged { ((addDep w t alwaysId true).recs alwaysId) with stamp := some .missing } R)) t := by
  obtain ⟨i1, i2⟩ := hinv.addDep (add := addT t) t alwaysId true (.inl (by simp)) (fun _ => rfl)
  have h0 : alwaysId ∉ t :: cyc := fun h => i1.cy _ h i1.hyg.r0
  have hrs : readStamp (addDep w t alwaysId true) alwaysId = .missing := by
    simp [readStamp, i1.f0]
  obtain ⟨j1, j2, j3⟩ := i1.settleWrite alwaysId h0
    (setChanged { ((addDep w t alwaysId true).recs alwaysId) with stamp := some .missing } R)
    ((i1.d.wf alwaysId).withStamp _) rfl (by rw [hrs]; rfl) (.inl i1.g0) (fun _ => i1.g0)
  refine ⟨j1, i2.trans j2.ofNoAdd, ?_⟩
  intro row hrow ht hdm
  have hrow' : row ∈ (addDep w t alwaysId true).deps := hrow
  rcases mem_addDep_deps' hrow' with h | h
  · subst h
    exact ⟨fun _ => ⟨j3, h0⟩, (fun hm => by cases hm)⟩
  · exact j2.goodRow ((hK row h ht hdm).rowEq (RowEq.addDep _ _ _ _))

/-- What the script of `t` guarantees. -/
def ScriptPost (R : Nat) (cyc : List Nat) (t : Nat) (w : World) (res : Status × Option Content × World) : Prop :=
  RInv R (t :: cyc) res.2.2 ∧ RStep R (t :: cyc) (addT t) w res.2.2 ∧
  (res.1 = 0 → K R (t :: cyc) res.2.2 t) ∧ 0 ≤ res.1

theorem runScript_spec (hR : 0 < R) {E : Engine} (hE : ESpec R E) (d : Defects) (cx : Ctx) (hRid : cx.runid = R)
    (hcr : cx.crash = none) (hcyc : ∀ x ∈ cyc, x ∈ cx.cycles) (t : Nat) (sc : Script) (w : World)
    (hsc : ∀ f, (f ∈ sc.ifcreate ∨ f ∈ sc.cond) → w.rules f = [])
    (hinv : RInv R (t :: cyc) w) (hK : K R (t :: cyc) w t) :
    ScriptPost R cyc t w (runScript E d cx t sc w) := by
  unfold runScript
  simp only
  have h0 : ∃ w0, (if sc.always = true then
      setRec (addDep w t alwaysId true) alwaysId
        (setChanged { ((addDep w t alwaysId true).recs alwaysId) with stamp := some .missing } cx.runid) else w) = w0 ∧
      RInv R (t :: cyc) w0 ∧ RStep R (t :: cyc) (addT t) w w0 ∧ K R (t :: cyc) w0 t := by
    split
    · rw [hRid]; exact ⟨_, rfl, always_spec hinv hK⟩
    · exact ⟨_, rfl, hinv, RStep.refl _ _, hK⟩
  obtain ⟨w0, e0, a1, a2, a3⟩ := h0
  rw [e0]
  have hsc0 : ∀ f, (f ∈ sc.ifcreate ∨ f ∈ sc.cond) → w0.rules f = [] := by
    intro f hf; rw [a2.keeps.2.1]; exact hsc f hf
  cases hic : sc.ifcreate.any (fun f => existsF w0 f) with
  | true =>
    simp only [if_true]
    exact ⟨a1, a2, (fun h => by cases h), (by show (0 : Int) ≤ 1; decide)⟩
  | false =>
    simp only [Bool.false_eq_true, if_false]
    have hex : ∀ f ∈ sc.ifcreate, existsF w0 f = false := by
      intro f hf
      cases he : existsF w0 f with
      | false => rfl
      | true =>
        have : sc.ifcreate.any (fun f => existsF w0 f) = true := List.any_eq_true.2 ⟨f, hf, he⟩
        rw [hic] at this; cases this
    obtain ⟨b1, b2, b3⟩ := ifcreate_spec sc.ifcreate w0 a1 a3 (fun f hf => hsc0 f (.inl hf)) hex
    have hc := conds_spec hE cx hRid hcr hcyc t sc.cond _ b1 b3
      (fun f hf => by rw [b2.keeps.2.1]; exact hsc0 f (.inr hf))
    unfold scriptCx at hc
    generalize runScript.conds E t _ sc.cond _ = res at hc
    obtain ⟨rvc, w2⟩ := res
    obtain ⟨c1, c2, c3, c4⟩ := hc
    dsimp only
    by_cases hrvc : rvc = 0
    · subst hrvc
      simp only [ne_eq, not_true_eq_false, if_false]
      have hm := cmds_spec hE cx hRid hcr hcyc t sc.ifchange 0 w2 c1 (c3 rfl)
      unfold scriptCx at hm
      generalize runScript.cmds E cx t _ sc.ifchange 0 w2 = res at hm
      obtain ⟨rv, w3⟩ := res
      obtain ⟨m1, m2, m3, m4⟩ := hm
      have hall : RStep R (t :: cyc) (addT t) w w3 := a2.trans (b2.trans (c2.trans m2))
      dsimp only
      by_cases hrv : rv = 0
      · subst hrv
        simp only [not_true_eq_false, if_false, hcr, reduceCtorEq, decide_false, Bool.and_false, Bool.false_eq_true]
        generalize outContent sc.tag _ = out
        have tail : ∀ b : Bool, ScriptPost R cyc t w
            (if b = true then ((1 : Status), (none : Option Content), w3) else
              ((sc.exit : Int), (if sc.outMode = 2 then none else some out),
                (if sc.stamp = 0 then w3 else
                  setRec (addKnown w3 t) t (stampRec ((addKnown w3 t).recs t) cx.runid
                    (if sc.stamp = 1 then out else [sc.stamp - 2]))))) := by
          intro b
          cases b with
          | true =>
            rw [if_pos rfl]
            exact ⟨m1, hall, (fun h => by cases h), (by show (0 : Int) ≤ 1; decide)⟩
          | false =>
            rw [if_neg Bool.false_ne_true]
            by_cases hst : sc.stamp = 0
            · simp only [hst, if_true]
              exact ⟨m1, hall, fun _ => m3 rfl, by simp⟩
            · simp only [hst, if_false]
              obtain ⟨k1, k2⟩ := m1.addKnown (add := addT t) t
              have hK4 : K R (t :: cyc) (addKnown w3 t) t := by
                intro row hrow ht hdm
                rw [addKnown_deps] at hrow
                exact (m3 rfl row hrow ht hdm).rowEq (RowEq.addKnown _ _)
              rw [hRid]
              obtain ⟨s1, s2⟩ := stampWrite hR k1 (if sc.stamp = 1 then out else [sc.stamp - 2])
              refine ⟨s1, hall.trans (k2.trans s2.ofNoAdd), fun _ => ?_, by simp⟩
              exact K.step s2 hK4 (fun _ _ _ h => h.elim)
        exact tail _
      · rw [if_pos (show rv ≠ 0 from hrv)]
        exact ⟨m1, hall, fun h => absurd h hrv, m4⟩
    · rw [if_pos (show rvc ≠ 0 from hrvc)]
      exact ⟨c1, a2.trans (b2.trans c2), fun h => absurd h hrvc, c4⟩

end RedoModel.Deps.Once
