import RedoModel.Lemmas.Once.DepsWFOps
/-!
"Overridden implies generated": a record carries the override flag only while it is recorded as generated and its
recorded stamp is not that of a missing file.  Holds initially and is preserved by every user operation (whatever
the defect switches): the flag is only set by `setOverride` in `start_self`, whose guard requires `isGenerated` and an
existing file; `isGenerated` is only cleared by `setStatic` (which clears the flag), by `setFailed` when the recorded
stamp is that of a missing file, and by the vanished-target write of the dirtiness check (which clears the flag
since the repair).  The development mirrors `DepsWF.lean`; the run id parameter is kept only for that reason.
-/
namespace RedoModel.Deps.Once
open RedoModel.Deps

def OGrec (_R : Nat) (r : Rec) : Prop :=
  r.isOverride = true → r.isGenerated = true ∧ r.stamp ≠ some .missing

def OGR (R : Nat) (w : World) : Prop := ∀ f, OGrec R (w.recs f)

/-- Between commands. -/
def OG (w : World) : Prop := ∀ f, (w.recs f).isOverride = true → (w.recs f).isGenerated = true ∧ (w.recs f).stamp ≠ some .missing

theorem OGrec.noOvr {R : Nat} {r : Rec} (h : r.isOverride = false) : OGrec R r := by
  intro h'; rw [h] at h'; cases h'

theorem OGrec.default (R : Nat) : OGrec R {} := OGrec.noOvr rfl

theorem OGrec.row {R : Nat} {r : Rec} (h : OGrec R r) (n : Nat) : OGrec R { r with row := n } := h

theorem OGrec.setChanged {R : Nat} {r : Rec} : OGrec R (setChanged r R) := OGrec.noOvr rfl

theorem OGrec.withStamp {R : Nat} {r : Rec} (s : Option DStamp) :
    OGrec R (Deps.setChanged { r with stamp := s } R) := OGrec.noOvr rfl

theorem OGrec.updateStamp {R : Nat} {r : Rec} (h : OGrec R r) (w : World) (f : Nat) :
    OGrec R (updateStamp w f r R) := by
  unfold Deps.updateStamp
  simp only
  split
  · exact h
  · exact OGrec.withStamp _

theorem OGrec.setFailed {R : Nat} {r : Rec} (h : OGrec R r) (w : World) (f : Nat) :
    OGrec R (setFailed w f r R) := by
  have h1 := h.updateStamp w f
  intro ho
  have h2 := h1 ho
  refine ⟨?_, h2.2⟩
  simp only [Deps.setFailed, bne_iff_ne, ne_eq]
  exact h2.2

theorem OGrec.setStatic {R : Nat} {r : Rec} (w : World) (f : Nat) :
    OGrec R (setStatic w f r R) := OGrec.noOvr rfl

theorem OGrec.setOverride {R : Nat} {r : Rec} (w : World) (f : Nat) (hg : r.isGenerated = true)
    (hs : readStamp w f ≠ .missing) : OGrec R (setOverride w f r R) := by
  intro _
  unfold Deps.setOverride Deps.updateStamp
  simp only
  split
  · rename_i e; exact ⟨hg, by rw [e]; intro h; exact hs (Option.some.inj h)⟩
  · exact ⟨hg, by simp only [Deps.setChanged]; intro h; exact hs (Option.some.inj h)⟩

theorem OGrec.stampRec {R : Nat} {r : Rec} (data : Content) : OGrec R (stampRec r R data) := by
  apply OGrec.noOvr
  unfold Deps.stampRec
  simp only
  split <;> rfl

theorem OGrec.checked {R : Nat} {r : Rec} (h : OGrec R r) : OGrec R { r with checked := some R } := h

theorem OGrec.unfail {R : Nat} {r : Rec} :
    OGrec R { r with isGenerated := false, isOverride := false, failed := some 0 } := OGrec.noOvr rfl

theorem OGrec.getRec {R : Nat} {w : World} (h : OGR R w) (f : Nat) : OGrec R (getRec w R f) := by
  unfold Deps.getRec
  simp only
  split
  · exact h f
  · exact h f

theorem OGR.setRec {R : Nat} {w : World} (h : OGR R w) (f : Nat) {r : Rec} (hr : OGrec R r) : OGR R (Deps.setRec w f r) := by
  intro x
  simp only [Deps.setRec]
  split
  · exact hr
  · exact h x

theorem OGR.of_recs {R : Nat} {w w' : World} (h : OGR R w) (e : w'.recs = w.recs) : OGR R w' := by
  intro x; rw [e]; exact h x

theorem OGR.addKnown {R : Nat} {w : World} (h : OGR R w) (f : Nat) : OGR R (Deps.addKnown w f) := by
  unfold Deps.addKnown
  split
  · exact h
  · exact (h.setRec f ((h f).row _)).of_recs rfl

theorem OGR.addDep {R : Nat} {w : World} (h : OGR R w) (t s : Nat) (m : Bool) : OGR R (Deps.addDep w t s m) :=
  (h.addKnown s).of_recs rfl

theorem OGR.foldl_addDep {R : Nat} (p : Nat) (m : Bool) : ∀ (ts : List Nat) {w : World}, OGR R w →
    OGR R (ts.foldl (fun w t => Deps.addDep w p t m) w)
  | [], _, h => h
  | t :: ts, _, h => OGR.foldl_addDep p m ts (h.addDep p t m)

theorem OGR.findDoFile {R : Nat} (t : Nat) : ∀ (cs : List Nat) {w : World}, OGR R w → OGR R (Deps.findDoFile t cs w).2
  | [], _, h => h
  | c :: cs, w, h => by
    rw [Deps.findDoFile]
    split
    · exact h.addDep t c true
    · exact OGR.findDoFile t cs (h.addDep t c false)

/-! ### the dirtiness check -/

theorem goDeps_og {R : Nat} (chk : World → List Nat → Nat → Rec → DR × World × List Nat)
    (hchk : ∀ w c s r, OGR R w → OGrec R r → OGR R (chk w c s r).2.1) (hasCsum : Bool) (f : Nat) :
    ∀ (ds : List (Dep × Rec)) (w : World) (cache must : List Nat), OGR R w → (∀ p ∈ ds, OGrec R p.2) →
      OGR R (goDeps chk hasCsum f ds w cache must).2.1
  | [], w, cache, must, h, _ => by simp [goDeps, h]
  | (d, snap) :: ds, w, cache, must, h, hs => by
    have hsnap : OGrec R snap := hs (d, snap) (by simp)
    have hrest : ∀ p ∈ ds, OGrec R p.2 := fun p hp => hs p (by simp [hp])
    rw [goDeps]
    by_cases hm : d.modeM = true
    · simp only [hm, if_true]
      have h1 := hchk w cache d.source snap h hsnap
      generalize chk w cache d.source snap = r at h1
      obtain ⟨sub, w1, c1⟩ := r
      cases sub with
      | cyclic => exact h1
      | clean => exact goDeps_og chk hchk hasCsum f ds w1 c1 must h1 hrest
      | dirty => exact h1
      | need ts => exact goDeps_og chk hchk hasCsum f ds w1 c1 (must ++ ts) h1 hrest
    · simp only [hm, Bool.false_eq_true, if_false]
      split
      · rename_i heq
        split at heq <;> cases heq
        all_goals exact h
      · rename_i heq
        split at heq <;> cases heq
        all_goals exact goDeps_og chk hchk hasCsum f ds w cache must h hrest
      · rename_i heq
        split at heq <;> cases heq
        all_goals exact h
      · rename_i heq
        split at heq <;> cases heq

theorem depsWithRecs_og {R : Nat} {w : World} (h : OGR R w) (r : Rec) (f : Nat) :
    ∀ p ∈ depsWithRecs w R r f, OGrec R p.2 := by
  intro p hp
  simp only [depsWithRecs, List.mem_map] at hp
  obtain ⟨d, _, rfl⟩ := hp
  exact OGrec.getRec h _

theorem isDirty_og {R : Nat} : ∀ (fuel : Nat) (w : World) (cache : List Nat) (f mx : Nat) (seen : List Nat)
    (pre : Option Rec), OGR R w → (∀ s, pre = some s → OGrec R s) →
      OGR R (isDirty false R fuel w cache f mx seen pre).2.1
  | 0, w, cache, f, mx, seen, pre, h, _ => by simpa [isDirty] using h
  | fuel + 1, w, cache, f, mx, seen, pre, h, hp => by
    have hr : OGrec R (pre.getD (getRec w R f)) := by
      cases pre with
      | none => exact OGrec.getRec h f
      | some s => exact hp s rfl
    have hg : ∀ mx' hc o w1 c1, goDeps (fun w2 c2 s snap => isDirty false R fuel w2 c2 s mx' (f :: seen) (some snap)) hc f
        (depsWithRecs w R (pre.getD (getRec w R f)) f) w cache [] = (o, w1, c1) → OGR R w1 := by
      intro mx' hc o w1 c1 e
      have := goDeps_og (R := R) (fun w2 c2 s snap => isDirty false R fuel w2 c2 s mx' (f :: seen) (some snap))
        (fun w2 c2 s r hw hr => isDirty_og fuel w2 c2 s mx' (f :: seen) (some r) hw (fun s' hs' => by cases hs'; exact hr))
        hc f (depsWithRecs w R (pre.getD (getRec w R f)) f) w cache [] h (depsWithRecs_og h _ f)
      rw [e] at this
      exact this
    apply isDirty_cases R fuel w cache f mx seen pre (fun res => OGR R res.2.1) _ rfl
    · intro _; exact h
    · intro _ _; exact h
    · intro _ _ _; exact h
    · intro _ _ _ _ _; exact h
    · intro _ _ _ _ _ _; exact h
    · intro _ _ _ _ _ _ _; exact h
    · intro ch old _ _ _ _ _ _ _
      dsimp only
      split
      · exact h.setRec f OGrec.unfail
      · exact h
    · intro ch dr w1 c1 _ _ _ _ _ _ e
      exact hg _ _ _ _ _ e
    · intro ch w1 c1 _ _ hc _ _ _ e
      have h1 := hg _ _ _ _ _ e
      refine OGR.setRec ?_ f hr.checked
      split
      · exact h1.of_recs rfl
      · exact h1

theorem shouldBuild_og {R : Nat} (cx : Ctx) (hR : cx.runid = R) (fuel t : Nat) (w : World) (h : OGR R w) :
    OGR R (shouldBuild cx fuel t w).2 := by
  unfold shouldBuild
  split
  · exact h
  · simp only
    split
    · exact h
    · subst hR
      have := isDirty_og (R := cx.runid) fuel w [] t cx.runid [] none h (fun s hs => by cases hs)
      generalize isDirty false cx.runid fuel w [] t cx.runid [] none = res at this
      obtain ⟨dr, w1, c1⟩ := res
      exact this

/-! ### the engine -/

/-- What the proof needs from the nested commands. -/
def EngineOG (R : Nat) (E : Engine) : Prop :=
  ∀ (cx : Ctx) (ts : List Nat) (w : World), cx.runid = R → OGR R w → OGR R (E.ifchangeCmd cx ts w).2

theorem cmds_og {R : Nat} {E : Engine} (hE : EngineOG R E) (cx : Ctx) (t : Nat) (cx' : Ctx) (hR : cx'.runid = R) :
    ∀ (cs : List (List Nat)) (k : Nat) (w : World), OGR R w → OGR R (runScript.cmds E cx t cx' cs k w).2
  | [], k, w, h => by rw [runScript.cmds]; exact h
  | c :: cs, k, w, h => by
    rw [runScript.cmds]
    split
    · exact h
    · have h1 := hE cx' c w hR h
      generalize E.ifchangeCmd cx' c w = res at h1
      obtain ⟨rv, w1⟩ := res
      split
      · rename_i heq; cases heq; exact cmds_og hE cx t cx' hR cs (k + 1) _ h1
      · rename_i _ heq; cases heq; exact h1

theorem conds_og {R : Nat} {E : Engine} (hE : EngineOG R E) (t : Nat) (cx' : Ctx) (hR : cx'.runid = R) :
    ∀ (fs : List Nat) (w : World), OGR R w → OGR R (runScript.conds E t cx' fs w).2
  | [], w, h => by rw [runScript.conds]; exact h
  | f :: fs, w, h => by
    rw [runScript.conds]
    split
    · have h1 := hE cx' [f] w hR h
      generalize E.ifchangeCmd cx' [f] w = res at h1
      obtain ⟨rv, w1⟩ := res
      split
      · rename_i heq; cases heq; exact conds_og hE t cx' hR fs _ h1
      · rename_i _ heq; cases heq; exact h1
    · exact conds_og hE t cx' hR fs _ (h.addDep t f false)

theorem runScript_og {R : Nat} {E : Engine} (hE : EngineOG R E) (d : Defects) (cx : Ctx) (hR : cx.runid = R)
    (t : Nat) (sc : Script) (w : World) (h : OGR R w) : OGR R (runScript E d cx t sc w).2.2 := by
  unfold runScript
  simp only
  have h0 : OGR R (if sc.always = true then
      setRec (addDep w t alwaysId true) alwaysId
        (setChanged { ((addDep w t alwaysId true).recs alwaysId) with stamp := some .missing } cx.runid) else w) := by
    split
    · refine OGR.setRec (h.addDep _ _ _) _ ?_
      rw [hR]
      exact OGrec.withStamp _
    · exact h
  generalize (if sc.always = true then
      setRec (addDep w t alwaysId true) alwaysId
        (setChanged { ((addDep w t alwaysId true).recs alwaysId) with stamp := some .missing } cx.runid) else w) = w0 at h0
  split
  · exact h0
  · have h1 := conds_og hE t (scriptCx cx t) hR sc.cond _ (OGR.foldl_addDep t false sc.ifcreate h0)
    unfold scriptCx at h1
    generalize runScript.conds E t _ sc.cond _ = res at h1
    obtain ⟨rvc, w1⟩ := res
    dsimp only
    split
    · exact h1
    · have h2 := cmds_og hE cx t (scriptCx cx t) hR sc.ifchange 0 w1 h1
      unfold scriptCx at h2
      generalize runScript.cmds E cx t _ sc.ifchange 0 w1 = res at h2
      obtain ⟨rv, w2⟩ := res
      dsimp only
      split
      · exact h2
      · repeat' split
        all_goals first
          | exact h2
          | (refine OGR.setRec (h2.addKnown t) t ?_
             rw [hR]
             exact OGrec.stampRec _)

theorem OGR.setFile {R : Nat} {w : World} (h : OGR R w) (f : Nat) (n : Option FNode) : OGR R (Deps.setFile w f n) :=
  h.of_recs rfl

theorem recordNewState_og {R : Nat} (cx : Ctx) (hR : cx.runid = R) (t : Nat) (sf : Rec) (hsf : OGrec R sf)
    (rv : Status) (out : Option Content) (w : World) (h : OGR R w) :
    OGR R (recordNewState cx t sf rv out w).2 := by
  unfold recordNewState
  simp only
  subst hR
  split
  · have hw : ∀ w' : World, w'.recs = w.recs → OGR cx.runid (setRec (zapDeps2 w' t) t
        (if (isCheckedR { (w'.recs t) with isGenerated := true, isOverride := false } cx.runid ||
              isChangedR { (w'.recs t) with isGenerated := true, isOverride := false } cx.runid) = true then
            { (w'.recs t) with isGenerated := true, isOverride := false, stamp := some (readStamp w' t) }
          else setChanged (updateStamp w' t { (w'.recs t) with isGenerated := true, isOverride := false, csum := none }
            cx.runid) cx.runid)) := by
      intro w' e
      have h' : OGR cx.runid w' := h.of_recs e
      refine OGR.setRec (h'.of_recs rfl) t ?_
      split
      · exact OGrec.noOvr rfl
      · exact OGrec.setChanged
    cases out with
    | some c => exact hw _ rfl
    | none => exact hw _ rfl
  · exact OGR.setRec (h.of_recs rfl) t (hsf.setFailed _ _)

theorem startSelf_og {R : Nat} {E : Engine} (hE : EngineOG R E) (d : Defects) (cx : Ctx) (hR : cx.runid = R)
    (t : Nat) (sf0 : Rec) (hsf : OGrec R sf0) (w : World) (h : OGR R w) :
    OGR R (startSelf E d cx t sf0 w).2 := by
  unfold startSelf
  simp only
  subst hR
  -- the override detection
  have hA : ∀ b : Bool, (b = true → sf0.isGenerated = true ∧ readStamp w t ≠ .missing) →
      OGrec cx.runid (if b then (setOverride (ev w (.warnOverride t)) t sf0 cx.runid) else sf0) ∧
      OGR cx.runid (if b then setRec (ev w (.warnOverride t)) t (setOverride (ev w (.warnOverride t)) t sf0 cx.runid) else w) := by
    intro b hb
    cases b
    · exact ⟨hsf, h⟩
    · have h1 : OGrec cx.runid (setOverride (ev w (.warnOverride t)) t sf0 cx.runid) :=
        OGrec.setOverride _ _ (hb rfl).1 (hb rfl).2
      exact ⟨h1, OGR.setRec (h.of_recs rfl) t h1⟩
  generalize hb : (sf0.isGenerated && readStamp w t != .missing &&
      (sf0.isOverride || detectOverride (sf0.stamp.getD .missing) (readStamp w t))) = b
  have hA' := hA b (by
    intro e; rw [e] at hb
    simp only [Bool.and_eq_true, bne_iff_ne, ne_eq] at hb
    exact ⟨hb.1.1, hb.1.2⟩)
  have e : (if b = true then
        (setOverride (ev w (.warnOverride t)) t sf0 cx.runid,
          setRec (ev w (.warnOverride t)) t (setOverride (ev w (.warnOverride t)) t sf0 cx.runid))
      else (sf0, w)) =
      ((if b then (setOverride (ev w (.warnOverride t)) t sf0 cx.runid) else sf0),
       (if b then setRec (ev w (.warnOverride t)) t (setOverride (ev w (.warnOverride t)) t sf0 cx.runid) else w)) := by
    cases b <;> rfl
  rw [e]
  generalize (if b then (setOverride (ev w (.warnOverride t)) t sf0 cx.runid) else sf0) = sf at hA'
  generalize (if b then setRec (ev w (.warnOverride t)) t (setOverride (ev w (.warnOverride t)) t sf0 cx.runid) else w) = w1 at hA'
  obtain ⟨hsf1, hw1⟩ := hA'
  dsimp only
  split
  · refine OGR.setRec hw1 t ?_
    split
    · exact OGrec.setStatic _ _
    · exact hsf1
  · have hz : OGR cx.runid (zapDeps1 w1 t) := hw1.of_recs rfl
    have hf := OGR.findDoFile t ((zapDeps1 w1 t).rules t) hz
    generalize Deps.findDoFile t ((zapDeps1 w1 t).rules t) (zapDeps1 w1 t) = res at hf
    obtain ⟨o, w2⟩ := res
    cases o with
    | none =>
      dsimp only
      split
      · exact OGR.setRec hf t (OGrec.setStatic _ _)
      · exact OGR.setRec hf t (hsf1.setFailed _ _)
    | some dof =>
      dsimp only
      have h3 : OGR cx.runid (ev (setRec w2 dof (setStatic w2 dof (w2.recs dof) cx.runid)) (.ran t)) :=
        (OGR.setRec hf dof (OGrec.setStatic _ _)).of_recs rfl
      generalize ev (setRec w2 dof (setStatic w2 dof (w2.recs dof) cx.runid)) (.ran t) = w3 at h3
      have h4 := runScript_og hE d cx rfl t (match w3.fs dof with
        | some n => (w3.progs n.content).getD {}
        | none => {}) w3 h3
      generalize runScript E d cx t _ w3 = res at h4
      obtain ⟨rv, out, w4⟩ := res
      dsimp only
      split
      · exact h4
      · exact recordNewState_og cx rfl t sf hsf1 rv out w4 h4

theorem buildJob_og {R : Nat} {E : Engine} (hE : EngineOG R E) (d : Defects) (cx : Ctx) (hR : cx.runid = R)
    (fuel t : Nat) (w : World) (h : OGR R w) : OGR R (buildJob E d cx fuel t w).2 := by
  unfold buildJob
  simp only
  have h1 := shouldBuild_og cx hR fuel t w h
  generalize shouldBuild cx fuel t w = res at h1
  obtain ⟨o, w1⟩ := res
  have hs := startSelf_og hE d cx hR t (w.recs t) (h t) w1 h1
  cases o with
  | none => exact h1
  | some dr =>
    cases dr with
    | cyclic => exact h1
    | clean => exact h1
    | dirty => exact hs
    | need ts =>
      dsimp only
      split
      · exact hs
      · generalize (if w1.oobRev = true then ts.eraseDups.reverse else ts.eraseDups) = ts'
        have h2 := hE (oobCx1 d cx t) ts' w1 hR h1
        unfold oobCx1 at h2
        generalize E.ifchangeCmd _ ts' w1 = res at h2
        obtain ⟨rv, w2⟩ := res
        split
        · rename_i heq; cases heq
          exact hE (oobCx2 cx) _ _ hR h2
        · rename_i _ heq; cases heq; exact h2

theorem runTargets_og {R : Nat} {E : Engine} (hE : EngineOG R E) (d : Defects) (cx : Ctx) (hR : cx.runid = R)
    (fuel : Nat) : ∀ (ts seen : List Nat) (e : Bool) (w : World), OGR R w →
      OGR R (runTargets E d cx fuel ts seen e w).2
  | [], _, _, w, h => by rw [runTargets]; exact h
  | t :: ts, seen, e, w, h => by
    rw [runTargets]
    split
    · exact runTargets_og hE d cx hR fuel ts seen e w h
    · split
      · exact h
      · dsimp only
        split
        · exact h.addKnown t
        · have h1 := buildJob_og hE d cx hR fuel t _ (h.addKnown t)
          generalize buildJob E d cx fuel t (addKnown w t) = res at h1
          obtain ⟨jr, w1⟩ := res
          cases jr with
          | abort code => exact h1
          | done rv =>
            dsimp only
            split
            · exact h1
            · exact runTargets_og hE d cx hR fuel ts _ _ w1 h1

theorem ifchangeWith_og {R : Nat} {E : Engine} (hE : EngineOG R E) (d : Defects) (fuel : Nat) (cx : Ctx)
    (hR : cx.runid = R) (ts : List Nat) (w : World) (h : OGR R w) : OGR R (ifchangeWith E d fuel cx ts w).2 := by
  unfold ifchangeWith
  cases hp : cx.parent with
  | none =>
    simp only [Bool.false_eq_true, if_false]
    exact runTargets_og hE d cx hR fuel ts [] false _ h
  | some p =>
    simp only
    split
    · exact h
    · refine runTargets_og hE d cx hR fuel ts [] false _ ?_
      split
      · exact h
      · exact OGR.foldl_addDep _ true ts (h.addKnown _)

theorem engine_og (R : Nat) (d : Defects) : ∀ n, EngineOG R (engine d n)
  | 0 => fun _ _ _ _ h => h
  | n + 1 => fun cx ts w hR h => ifchangeWith_og (engine_og R d n) d (n + 1) cx hR ts w h

/-! ### user operations -/

theorem og_init (rules : Nat → List Nat) : OG (initWorld rules) := by
  intro f h
  simp only [initWorld] at h
  split at h <;> cases h

theorem OG.toR {w : World} (h : OG w) (R : Nat) : OGR R w := h

theorem og_runTargets_top (d : Defects) (cx : Ctx) (n : Nat) (ts : List Nat) (w : World) (h : OG w) :
    OG (runTargets (engine d n) d cx n ts [] false w).2 :=
  runTargets_og (engine_og cx.runid d n) d cx rfl n ts [] false w h

theorem og_applyOp (d : Defects) (n : Nat) (op : UserOp) (w : World) (h : OG w) : OG (applyOp d n op w).2 := by
  cases op with
  | write f v => exact h
  | remove f => exact h
  | chmod f =>
    simp only [applyOp]
    split
    · exact h
    · exact h
  | hide f =>
    simp only [applyOp]
    split
    · exact h
    · exact h
  | unhide f =>
    simp only [applyOp]
    split
    · exact h
    · exact h
  | setProg c s => exact h
  | crashCmd ts t k =>
    simp only [applyOp]
    exact og_runTargets_top d _ _ ts _ h
  | cmd c =>
    simp only [applyOp]
    cases c with
    | redo ts kg =>
      simp only [runCmd]
      exact og_runTargets_top d _ _ ts _ h
    | ifchange ts kg =>
      simp only [runCmd]
      exact og_runTargets_top d _ _ ts _ h
    | ood => exact h
    | targets => exact h
    | sources => exact h

theorem og_runOps (d : Defects) (n : Nat) : ∀ (ops : List UserOp) (w : World), OG w → OG (runOps d n ops w)
  | [], _, h => h
  | op :: ops, w, h => og_runOps d n ops _ (og_applyOp d n op w h)

/-- In every world reached from the empty project, an overridden record is a generated one whose recorded stamp is
not that of a missing file. -/
theorem og_reachable (d : Defects) (n : Nat) (rules : Nat → List Nat) (ops : List UserOp) :
    OG (runOps d n ops (initWorld rules)) :=
  og_runOps d n ops _ (og_init rules)

end RedoModel.Deps.Once
