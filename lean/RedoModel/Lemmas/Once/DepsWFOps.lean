import RedoModel.Lemmas.Once.DepsFrame
/-! Well-formedness of run ids holds initially and after every user operation. -/
namespace RedoModel.Deps.Once
open RedoModel.Deps

theorem oodGo_runCounter (R fuel : Nat) : ∀ (fs : List Nat) (w : World) (cache acc : List Nat),
    (runCmd.go R fuel fs w cache acc).2.runCounter = w.runCounter
  | [], w, cache, acc => by rw [runCmd.go]
  | f :: fs, w, cache, acc => by
    rw [runCmd.go]
    have := isDirty_frame true R fuel w cache f R [] none
    generalize isDirty true R fuel w cache f R [] none = res at this
    obtain ⟨dr, w1, c1⟩ := res
    dsimp only
    rw [oodGo_runCounter R fuel fs w1 c1]
    exact this.2.2.1

theorem runTargets_top_wf (d : Defects) (cx : Ctx) (n : Nat) (ts : List Nat) (w : World)
    (hR : cx.runid = w.runCounter) (h : WFR w.runCounter w) :
    WF (runTargets (engine d n) d cx n ts [] false w).2 := by
  have h1 := runTargets_wf (engine_wf w.runCounter d n) d cx hR n ts [] false w h
  have h2 := runTargets_keeps (engine_keeps d n) w d cx n ts [] false w (Keeps.refl w)
  unfold WF
  rw [h2.1]
  exact h1

theorem wf_allocRun {w : World} (h : WF w) : WFR (allocRun w).2.runCounter (allocRun w).2 := by
  intro f
  exact (h f).mono (Nat.le_succ _)

theorem wf_applyOp (d : Defects) (n : Nat) (op : UserOp) (w : World) (h : WF w) : WF (applyOp d n op w).2 := by
  cases op with
  | write f v => exact h
  | remove f => exact h
  | chmod f =>
    simp only [applyOp]
    split
    · exact h
    · exact h
  | hide f =>
    simp only [applyOp]
    split
    · exact h
    · exact h
  | unhide f =>
    simp only [applyOp]
    split
    · exact h
    · exact h
  | setProg c s => exact h
  | crashCmd ts t k =>
    simp only [applyOp]
    exact runTargets_top_wf d _ _ ts _ rfl (wf_allocRun h)
  | cmd c =>
    simp only [applyOp]
    cases c with
    | redo ts kg =>
      simp only [runCmd]
      exact runTargets_top_wf d _ _ ts _ rfl (wf_allocRun h)
    | ifchange ts kg =>
      simp only [runCmd]
      exact runTargets_top_wf d _ _ ts _ rfl (wf_allocRun h)
    | ood =>
      simp only [runCmd]
      intro f
      have := oodGo_runCounter (allocRun w).1 (2 * n + 4)
        ((knownFiles (allocRun w).2 n).filter (isTarget (allocRun w).2 (allocRun w).1)) (allocRun w).2 [] []
      simp only
      rw [this]
      exact wf_allocRun h f
    | targets => exact wf_allocRun h
    | sources => exact wf_allocRun h

/-- Replay a history of user operations. -/
def runOps (d : Defects) (n : Nat) : List UserOp → World → World
  | [], w => w
  | op :: ops, w => runOps d n ops (applyOp d n op w).2

theorem wf_runOps (d : Defects) (n : Nat) : ∀ (ops : List UserOp) (w : World), WF w → WF (runOps d n ops w)
  | [], _, h => h
  | op :: ops, w, h => wf_runOps d n ops _ (wf_applyOp d n op w h)

theorem wf_reachable (d : Defects) (n : Nat) (rules : Nat → List Nat) (ops : List UserOp) :
    WF (runOps d n ops (initWorld rules)) :=
  wf_runOps d n ops _ (wf_init rules)

end RedoModel.Deps.Once
