import RedoModel.Lemmas.Once.DepsOnceRun
/-! The steps of `start_self` before and after the script, for the once-per-run proof. -/
namespace RedoModel.Deps.Once
open RedoModel.Deps

variable {R : Nat} {cyc : List Nat}

/-- The rows a running target has (re)declared so far are good. -/
def K (R : Nat) (cyc : List Nat) (w : World) (t : Nat) : Prop :=
  ∀ row ∈ w.deps, row.target = t → row.deleteMe = false → GoodRow R cyc w row

theorem Open.rowEq {w w' : World} {t : Nat} (ho : Open R w t) (h : RowEq w w') : Open R w' t := by
  obtain ⟨n, hn⟩ := h.getRec' R t
  refine ⟨fun hV => ho.1 ((h.v0 t).1 hV), ?_⟩
  rw [hn]; exact ho.2

theorem mem_zapDeps1 {w : World} {t : Nat} {row : Dep} (h : row ∈ (zapDeps1 w t).deps) :
    (row.target ≠ t ∧ row ∈ w.deps) ∨ (row.target = t ∧ row.deleteMe = true) := by
  simp only [zapDeps1, List.mem_map] at h
  obtain ⟨d, hd, rfl⟩ := h
  by_cases ht : d.target = t
  · right; simp [ht]
  · left; simp [ht, hd]

theorem RowEq.zapDeps1 (w : World) (t : Nat) : RowEq w (Deps.zapDeps1 w t) :=
  ⟨fun z => ⟨(w.recs z).row, rfl⟩, rfl, rfl, rfl, rfl, rfl⟩

theorem RInv.zapDeps1 {w : World} (hinv : RInv R cyc w) (t : Nat) (ht : t ∉ cyc) (ho : ¬ V0 R w t) :
    RInv R cyc (Deps.zapDeps1 w t) ∧ RStep R cyc noAdd w (Deps.zapDeps1 w t) ∧ K R cyc (Deps.zapDeps1 w t) t := by
  obtain ⟨i1, i2⟩ := hinv.depsUpdate (add := noAdd) (RowEq.zapDeps1 w t)
    (by
      intro y _ hV row hrow hty
      rcases mem_zapDeps1 hrow with h | h
      · exact h.2
      · rw [h.1] at hty; subst hty; exact absurd hV ho)
    (by
      intro q hq row hrow htq
      rcases mem_zapDeps1 hrow with h | h
      · exact .inl h.2
      · rw [h.1] at htq; subst htq; exact absurd hq ht)
  refine ⟨i1, i2, ?_⟩
  intro row hrow htr hdm
  rcases mem_zapDeps1 hrow with h | h
  · exact absurd htr h.1
  · rw [h.2] at hdm; cases hdm

theorem GoodRow.rowEq {w w' : World} (h : RowEq w w') {row : Dep} (hg : GoodRow R cyc w row) :
    GoodRow R cyc w' row := (h.goodRow row).2 hg

/-- Rows of the running target after one more declaration. -/
theorem K.addDep {w : World} {t s : Nat} {m : Bool} {P : Dep → Prop}
    (hK : ∀ row ∈ w.deps, row.target = t → row.deleteMe = false → P row)
    (hnew : P { target := t, source := s, modeM := m, deleteMe := false }) :
    ∀ row ∈ (Deps.addDep w t s m).deps, row.target = t → row.deleteMe = false → P row := by
  intro row hrow ht hd
  rcases mem_addDep_deps' hrow with h | h
  · subst h; exact hnew
  · exact hK row h ht hd

/-- The search for the .do file: earlier candidates are declared `c`, the chosen one `m`. -/
theorem findDoFile_spec {t : Nat} (ht : t ∉ cyc) : ∀ (cs : List Nat) (w : World), RInv R cyc w → ¬ V0 R w t →
    (∀ c ∈ cs, w.rules c = []) →
    (∀ row ∈ w.deps, row.target = t → row.deleteMe = false → GoodRow R cyc w row) →
    RInv R cyc (findDoFile t cs w).2 ∧ RStep R cyc noAdd w (findDoFile t cs w).2 ∧ RowEq w (findDoFile t cs w).2 ∧
    (∀ row ∈ (findDoFile t cs w).2.deps, row.target = t → row.deleteMe = false →
      GoodRow R cyc (findDoFile t cs w).2 row ∨
      (row.modeM = true ∧ (findDoFile t cs w).1 = some row.source))
  | [], w, hinv, _, _, hK => by
    rw [findDoFile]
    exact ⟨hinv, RStep.refl _ _, RowEq.refl _, fun row hrow h1 h2 => .inl (hK row hrow h1 h2)⟩
  | c :: cs, w, hinv, ho, hcs, hK => by
    rw [findDoFile]
    split
    · obtain ⟨i1, i2⟩ := hinv.addDep (add := noAdd) t c true (.inr ho) (fun h => absurd h ht)
      refine ⟨i1, i2, RowEq.addDep _ _ _ _, ?_⟩
      apply K.addDep (P := fun row => GoodRow R cyc (addDep w t c true) row ∨ (row.modeM = true ∧ some c = some row.source))
      · intro row hrow h1 h2
        exact .inl ((hK row hrow h1 h2).rowEq (RowEq.addDep _ _ _ _))
      · exact .inr ⟨rfl, rfl⟩
    · rename_i hne
      obtain ⟨i1, i2⟩ := hinv.addDep (add := noAdd) t c false (.inr ho) (fun h => absurd h ht)
      have hre := RowEq.addDep w t c false
      have ho' : ¬ V0 R (addDep w t c false) t := fun h => ho ((hre.v0 t).1 h)
      have hK' : ∀ row ∈ (addDep w t c false).deps, row.target = t → row.deleteMe = false →
          GoodRow R cyc (addDep w t c false) row := by
        apply K.addDep
        · intro row hrow h1 h2
          exact (hK row hrow h1 h2).rowEq hre
        · refine ⟨(fun h => by cases h), fun _ => ⟨?_, ?_⟩⟩
          · rw [existsF_congr _ hre.fs]
            cases he : existsF w c with
            | true => exact absurd he hne
            | false => rfl
          · rw [hre.rules]; exact hcs c (by simp)
      obtain ⟨j1, j2, j3, j4⟩ := findDoFile_spec ht cs (addDep w t c false) i1 ho'
        (fun c' hc' => by rw [hre.rules]; exact hcs c' (by simp [hc'])) hK'
      exact ⟨j1, i2.trans j2, hre.trans j3, j4⟩

theorem GoodRow.enter {w : World} {row : Dep} {t : Nat} (h : GoodRow R cyc w row) (ho : ¬ V0 R w t) :
    GoodRow R (t :: cyc) w row := by
  refine ⟨fun hm => ?_, h.2⟩
  obtain ⟨⟨hV, hc⟩, hnc⟩ := h.1 hm
  have hne : row.source ≠ t := fun e => ho (e ▸ hV)
  refine ⟨⟨hV, fun hmem => ?_⟩, fun hmem => ?_⟩
  · rcases List.mem_cons.1 hmem with e | hmem
    · exact absurd e hne
    · exact hc hmem
  · rcases List.mem_cons.1 hmem with e | hmem
    · exact hne e
    · exact hnc hmem

theorem Settled.enter {w : World} {z t : Nat} (h : Settled R cyc w z) (ho : ¬ V0 R w t) :
    Settled R (t :: cyc) w z := by
  refine ⟨h.1, fun hmem => ?_⟩
  rcases List.mem_cons.1 hmem with e | hmem
  · exact absurd (e ▸ h.1) ho
  · exact h.2 hmem

theorem Settled.leave {w : World} {z t : Nat} (h : Settled R (t :: cyc) w z) : Settled R cyc w z :=
  ⟨h.1, fun hmem => h.2 (List.mem_cons_of_mem _ hmem)⟩

theorem GoodRow.leave {w : World} {row : Dep} {t : Nat} (h : GoodRow R (t :: cyc) w row) : GoodRow R cyc w row :=
  ⟨fun hm => ⟨(h.1 hm).1.leave, fun hmem => (h.1 hm).2 (List.mem_cons_of_mem _ hmem)⟩, h.2⟩

/-- The script of the open target `t` starts: `t` joins the running targets. -/
theorem RInv.enter {w : World} (hinv : RInv R cyc w) {t : Nat} (ht : t ∉ cyc) (ho : Open R w t)
    (hr : w.rules t ≠ []) : RInv R (t :: cyc) (ev w (.ran t)) := by
  have hran : ranList (ev w (.ran t)) = t :: ranList w := by simp [ranList, ev]
  refine ⟨⟨hinv.d.wf.of_recs rfl, ?_, hinv.d.ov, hinv.d.p1, ?_⟩, ⟨hinv.hyg.r0, hinv.hyg.dofiles, hinv.hyg.scripts⟩,
    hinv.f0, hinv.g0, ?_, ?_, ?_, ?_⟩
  · intro y hy hV hck hg hov row hrow hty
    have hy' : y ∉ cyc := fun h => hy (List.mem_cons_of_mem _ h)
    exact (hinv.d.j y hy' hV hck hg hov row hrow hty).enter ho.1
  · intro z hz hch
    rcases List.mem_cons.1 hz with e | hz
    · subst e
      exact absurd (hinv.p3 z hr ht hch) ho.not_done
    · exact hinv.d.p2 z hz hch
  · intro q hq
    rcases List.mem_cons.1 hq with e | hq
    · subst e; exact hr
    · exact hinv.cy q hq
  · rw [hran]
    intro z hz
    rcases List.mem_cons.1 hz with e | hz
    · subst e; left; simp
    · exact (hinv.i1 z hz).imp (List.mem_cons_of_mem _) id
  · rw [hran]
    exact List.nodup_cons.2 ⟨hinv.not_ran_of_open ht ho, hinv.nd⟩
  · intro z hz hzc hch
    exact hinv.p3 z hz (fun h => hzc (List.mem_cons_of_mem _ h)) hch

end RedoModel.Deps.Once
