import RedoModel.Lemmas.Once.DepsOnceCex
/-! Non-vacuity of `ran_nodup_of_wf` / `ran_nodup_reachable`: a clean reachable world with a non-trivial run. -/
namespace RedoModel.Deps.Once
open RedoModel.Deps
namespace Ex

def rulesN : Nat → List Nat := fun t => if t = 1 ∨ t = 2 ∨ t = 3 then [10 + t] else []

/-- 1 = `t` (11: reads the source 4), 2 = `p` (12: `redo-ifchange t`), 3 = `q`
(13: `redo-ifchange p; redo-ifchange t`, output stamped). -/
def histN : List UserOp :=
  [ .setProg (srcContent 1) { reads := [4] },
    .setProg (srcContent 2) { ifchange := [[1]] },
    .setProg (srcContent 3) { ifchange := [[2], [1]], stamp := 1 },
    .write 11 1, .write 12 2, .write 13 3, .write 4 0 ]

def wN : World := runOps {} 0 histN (initWorld rulesN)

theorem hyg_rulesN (w : World) (hr : w.rules = rulesN)
    (hp : ∀ c sc, w.progs c = some sc → sc.ifcreate = [] ∧ sc.cond = []) : Hyg w := by
  refine ⟨?_, ?_, ?_⟩
  · rw [hr]; simp [rulesN, alwaysId]
  · rw [hr]
    intro t c hc
    simp only [rulesN] at hc ⊢
    split at hc
    · simp only [List.mem_singleton] at hc
      subst hc
      rw [if_neg (by omega)]
    · cases hc
  · intro c sc h f hf
    obtain ⟨h1, h2⟩ := hp c sc h
    rw [h1, h2] at hf
    simp at hf

theorem clean_wN : Clean wN := by
  refine ⟨hyg_rulesN wN rfl ?_, ?_, ?_⟩
  · intro c sc h
    simp only [wN, runOps, histN, applyOp, initWorld, setFile, newNode] at h
    repeat' split at h
    all_goals first | (cases h; exact ⟨rfl, rfl⟩) | cases h
  · simp [wN, runOps, histN, applyOp, initWorld, setFile, newNode, alwaysId]
  · simp [wN, runOps, histN, applyOp, initWorld, setFile, newNode]

/-- The theorem applies ... -/
example : RanNodupFrom {} 0 wN [3, 2, 1] false :=
  ran_nodup_reachable {} {} rfl 0 0 rulesN histN [3, 2, 1] false clean_wN

/-- ... to a run that executes all three scripts (`q` asks for `p`, which asks for `t`; `q`'s second request of
`t` and the two later top-level requests run nothing). -/
example : ranList (runCmd {} 0 (.ifchange [3, 2, 1] false) { wN with trace := [] }).2 = [1, 2, 3] := by
  unfold wN histN rulesN
  eval_run

/-- It also applies with the two admissible defect switches on. -/
example : RanNodupFrom { failedTargetAbortsRun := true, oobRecordsDepsOnCaller := true } 7 wN [2, 3] true :=
  ran_nodup_of_wf _ rfl 7 wN [2, 3] true (wf_reachable {} 0 rulesN histN) (ovOK_reachable {} 0 rulesN histN) clean_wN


/-- A world with history: everything was built once, then the source 4 was edited. -/
def histN2 : List UserOp := histN ++ [.cmd (.ifchange [3] false), .write 4 1]

def wN2 : World := runOps {} 0 histN2 (initWorld rulesN)

example : WF wN2 := wf_reachable {} 0 rulesN histN2

set_option maxHeartbeats 4000000 in
theorem clean_wN2 : Clean wN2 := by
  refine ⟨hyg_rulesN wN2 ?_ ?_, ?_, ?_⟩
  · unfold wN2 histN2 histN rulesN
    eval_run
  · intro c sc h
    revert h
    unfold wN2 histN2 histN rulesN
    eval_run
    intro h
    repeat' split at h
    all_goals first | (cases h; exact ⟨rfl, rfl⟩) | cases h
  · unfold wN2 histN2 histN rulesN
    eval_run
  · unfold wN2 histN2 histN rulesN
    eval_run

example : RanNodupFrom {} 0 wN2 [2, 3, 1] false :=
  ran_nodup_reachable {} {} rfl 0 0 rulesN histN2 [2, 3, 1] false clean_wN2

/-! ### An overridden file that was edited a second time (the former fourth counterexample) -/

/-- 1 = `t` (11), 2 = `p` (12: `redo-ifchange t`), 3 = `q` (13: `redo-ifchange p`).  `t` is built, then
overwritten by hand and accepted as overridden; then it is edited by hand again. -/
def histO : List UserOp :=
  [ .setProg (srcContent 1) { },
    .setProg (srcContent 2) { ifchange := [[1]] },
    .setProg (srcContent 3) { ifchange := [[2]] },
    .write 11 1, .write 12 2, .write 13 3,
    .cmd (.ifchange [1] false),
    .write 1 7, .cmd (.ifchange [1] false),
    .write 1 8 ]

def wO : World := runOps {} 0 histO (initWorld rulesN)

set_option maxHeartbeats 4000000 in
/-- The record of `t` is overridden and out of step with the file ... -/
theorem wO_out_of_step : (wO.recs 1).isOverride = true ∧ (wO.recs 1).stamp ≠ some (readStamp wO 1) := by
  unfold wO histO rulesN
  eval_run

set_option maxHeartbeats 4000000 in
/-- ... and the world is clean all the same (before the repair of `start_self` it had to be excluded). -/
theorem clean_wO : Clean wO := by
  refine ⟨hyg_rulesN wO ?_ ?_, ?_, ?_⟩
  · unfold wO histO rulesN
    eval_run
  · intro c sc h
    revert h
    unfold wO histO rulesN
    eval_run
    intro h
    repeat' split at h
    all_goals first | (cases h; exact ⟨rfl, rfl⟩) | cases h
  · unfold wO histO rulesN
    eval_run
  · unfold wO histO rulesN
    eval_run

example : RanNodupFrom {} 0 wO [2, 3] false :=
  ran_nodup_reachable {} {} rfl 0 0 rulesN histO [2, 3] false clean_wO

set_option maxHeartbeats 4000000 in
/-- The first request of `p` finds `t` dirty and rebuilds `p`; on the way `start_self` records the new stamp of `t`
(flag kept), so the second request of `p` finds everything clean.  Order of execution: p, q — before the repair
it was p, q, p. -/
theorem override_edited_again_once :
    ranList (runCmd {} 0 (.ifchange [2, 3] false) { wO with trace := [] }).2 = [3, 2] := by
  unfold wO histO rulesN
  eval_run

/-! ### An overridden file that vanished and was written again (the former `Cex.override_unfailed_twice`) -/

/-- 1 = `t` (11), 2 = `p` (12: `redo-ifchange t`, later edited to declare nothing), 3 = `q` (13: `redo-ifchange t`),
4 = `r` (14: `redo-ifchange q`). -/
def rulesV : Nat → List Nat := fun t => if t = 1 ∨ t = 2 ∨ t = 3 ∨ t = 4 then [10 + t] else []

/-- `t` is built, overwritten by hand and accepted as overridden, `p` and `q` are brought up to date, then `t` is
removed; the check of `p` (whose .do no longer asks for `t`) turns the record of `t` into a source with failure
mark 0 — and, since the repair, without the override flag; then `t` is written by hand again. -/
def histV : List UserOp :=
  [ .setProg (srcContent 1) { },
    .setProg (srcContent 2) { ifchange := [[1]] },
    .setProg (srcContent 3) { ifchange := [[1]] },
    .setProg (srcContent 4) { ifchange := [[3]] },
    .setProg (srcContent 5) { },
    .write 11 1, .write 12 2, .write 13 3, .write 14 4,
    .cmd (.ifchange [1] false), .cmd (.ifchange [2] false),
    .write 1 7, .cmd (.ifchange [1] false), .cmd (.ifchange [2] false),
    .remove 1, .write 12 5, .cmd (.ifchange [2] false),
    .write 1 9 ]

def wV : World := runOps {} 0 histV (initWorld rulesV)

set_option maxRecDepth 8000 in
set_option maxHeartbeats 4000000 in
/-- The record of `t`: a plain source with failure mark 0 (before the repair: `isOverride = true`, and
`start_self` never touched it again). -/
theorem wV_forgotten : (wV.recs 1).isOverride = false ∧ (wV.recs 1).isGenerated = false ∧
    (wV.recs 1).failed = some 0 := by
  unfold wV histV rulesV
  eval_run

set_option maxRecDepth 8000 in
set_option maxHeartbeats 4000000 in
/-- `q` is rebuilt once (its source `t` changed), `r` once; the second request of `q` finds `t` repaired by
`start_self`.  Order of execution: q, r — before the repair it was q, r, q. -/
theorem vanished_override_recreated_once :
    ranList (runCmd {} 0 (.ifchange [3, 4] false) { wV with trace := [] }).2 = [4, 3] := by
  unfold wV histV rulesV
  eval_run

end Ex
end RedoModel.Deps.Once
