import RedoModel.Lemmas.Once.DepsOnceDefs
/-! The two writes of the dirtiness check, as steps. -/
namespace RedoModel.Deps.Once
open RedoModel.Deps

variable {R : Nat} {cyc : List Nat}

theorem DStep.refl (seen : List Nat) (w : World) : DStep R cyc seen w w where
  same := SameButRecs.refl w
  settled := fun _ h => h
  failedR := fun _ => rfl
  changed := fun _ => rfl
  snap := fun _ _ h => h
  seen := fun _ _ => rfl
  ran := rfl
  genF := fun _ h => h

theorem DStep.trans {seen : List Nat} {a b c : World} (h1 : DStep R cyc seen a b) (h2 : DStep R cyc seen b c) :
    DStep R cyc seen a c where
  same := h1.same.trans h2.same
  settled := fun z h => h2.settled z (h1.settled z h)
  failedR := fun z => (h2.failedR z).trans (h1.failedR z)
  changed := fun z => (h2.changed z).trans (h1.changed z)
  snap := fun z s h => h2.snap z s (h1.snap z s h)
  seen := fun g hg => (h2.seen g hg).trans (h1.seen g hg)
  ran := h2.ran.trans h1.ran
  genF := fun z h => h2.genF z (h1.genF z h)

theorem DStep.weaken {seen seen' : List Nat} {a b : World} (h : DStep R cyc seen' a b) (hs : ∀ g ∈ seen, g ∈ seen') :
    DStep R cyc seen a b :=
  { h with seen := fun g hg => h.seen g (hs g hg) }

theorem RowOK.mono {w w' : World} {row : Dep} {mx : Nat}
    (hs : ∀ z, Settled R cyc w z → Settled R cyc w' z)
    (hc : ∀ z, (getRec w' R z).changed = (getRec w R z).changed) (hfs : w'.fs = w.fs)
    (h : RowOK R cyc w row mx) : RowOK R cyc w' row mx := by
  refine ⟨fun hm => ⟨hs _ (h.1 hm).1, ?_⟩, fun hm => ?_⟩
  · intro ch hch
    rw [hc] at hch
    exact (h.1 hm).2 ch hch
  · rw [existsF_congr _ hfs]; exact h.2 hm

theorem GoodRow.mono {w w' : World} {row : Dep}
    (hs : ∀ z, Settled R cyc w z → Settled R cyc w' z) (hfs : w'.fs = w.fs) (hrules : w'.rules = w.rules)
    (h : GoodRow R cyc w row) : GoodRow R cyc w' row := by
  refine ⟨fun hm => ⟨hs _ (h.1 hm).1, (h.1 hm).2⟩, fun hm => ?_⟩
  rw [existsF_congr _ hfs, hrules]; exact h.2 hm

theorem DStep.rowOK {seen : List Nat} {w w' : World} (h : DStep R cyc seen w w') {row : Dep} {mx : Nat}
    (hr : RowOK R cyc w row mx) : RowOK R cyc w' row mx :=
  hr.mono h.settled h.changed h.same.1

theorem DStep.goodRow {seen : List Nat} {w w' : World} (h : DStep R cyc seen w w') {row : Dep}
    (hr : GoodRow R cyc w row) : GoodRow R cyc w' row :=
  hr.mono h.settled h.same.1 h.same.2.2.2.2.2.2

theorem SnapRel.of_ne {w w' : World} {z : Nat} {s : Rec}
    (hs : ∀ z, Settled R cyc w z → Settled R cyc w' z)
    (hc : ∀ z, (getRec w' R z).changed = (getRec w R z).changed) (hfs : w'.fs = w.fs) (hdeps : w'.deps = w.deps)
    (hrec : getRec w' R z = getRec w R z) (h : SnapRel R cyc w z s) : SnapRel R cyc w' z s where
  wf := h.wf
  stamp := by rw [hrec]; exact h.stamp
  changed := by rw [hrec]; exact h.changed
  ovr := by rw [hrec]; exact h.ovr
  failed := by rw [hrec, readStamp_congr _ hfs]; exact h.failed
  gen := by rw [hrec]; exact h.gen
  unchecked := by rw [hrec]; exact h.unchecked
  late := by
    rw [hrec, readStamp_congr _ hfs, hdeps]
    intro h1 h2
    refine ⟨(h.late h1 h2).1, ?_⟩
    intro hg ho ch hch row hrow ht
    exact ((h.late h1 h2).2 hg ho ch hch row hrow ht).mono hs hc hfs

/-- The `checked` mark written after a clean verdict. -/
theorem cleanWrite (hR : 0 < R) {seen : List Nat} {w1 wE : World} (hinv : DInv R cyc w1) (f : Nat) (r : Rec) (ch : Nat)
    (hsnap : SnapRel R cyc w1 f r) (hfail : r.failed = none) (hch : r.changed = some ch)
    (hck : isCheckedR r R = false) (hst : r.stamp = some (readStamp w1 f))
    (hrows : r.isGenerated = true → r.isOverride = false → ∀ row ∈ w1.deps, row.target = f →
      RowOK R cyc w1 row (max ch (r.checked.getD 0)))
    (hseen : f ∉ seen) (hsame : SameButRecs w1 wE) (hrecs : wE.recs = w1.recs) (hran : ranList wE = ranList w1) :
    DStep R cyc seen w1 (setRec wE f { r with checked := some R }) ∧
    DInv R cyc (setRec wE f { r with checked := some R }) ∧
    V0 R (setRec wE f { r with checked := some R }) f ∧
    isCheckedR (getRec (setRec wE f { r with checked := some R }) R f) R = true := by
  have hfs : (setRec wE f { r with checked := some R }).fs = w1.fs := hsame.1
  have hdeps : (setRec wE f { r with checked := some R }).deps = w1.deps := hsame.2.1
  have hrules : (setRec wE f { r with checked := some R }).rules = w1.rules := hsame.2.2.2.2.2.2
  have hcur_ch : (getRec w1 R f).changed = some ch := by rw [← hsnap.changed]; exact hch
  have hself : getRec (setRec wE f { r with checked := some R }) R f = { r with checked := some R } := by
    apply getRec_setRec_self
    intro h0
    subst h0
    have := getRec_changed_always hinv.wf
    rw [hcur_ch] at this
    simpa [hch] using this
  have hne : ∀ z, z ≠ f → getRec (setRec wE f { r with checked := some R }) R z = getRec w1 R z := by
    intro z hz
    rw [getRec_setRec_ne _ hz]
    exact getRec_congr (by rw [hrecs])
  have hchR : ch ≤ R := hsnap.wf.1 ch hch
  have hchk' : isCheckedR ({ r with checked := some R } : Rec) R = true := isCheckedR_some_self hR rfl
  have hV : V0 R (setRec wE f { r with checked := some R }) f := by
    unfold V0
    rw [hself]
    exact ⟨hfail, ch, hch, hchR, .inl hchk'⟩
  -- the record in the database before the write
  have hcurfail : (getRec w1 R f).failed = none ∨ (getRec w1 R f).failed = some 0 := by
    rcases hsnap.failed with h | h
    · left; rw [← h]; exact hfail
    · right; exact h.2.1
  have hcurfail' : (getRec w1 R f).failed = none := by
    rcases hsnap.failed with h | h
    · rw [← h]; exact hfail
    · exact absurd hst h.2.2.1
  have hsettled : ∀ z, Settled R cyc w1 z → Settled R cyc (setRec wE f { r with checked := some R }) z := by
    intro z hz
    by_cases hzf : z = f
    · subst hzf
      exact ⟨hV, fun _ => by rw [hself]; exact hchk'⟩
    · unfold Settled V0 at hz ⊢
      rw [hne z hzf, readStamp_congr _ hfs]
      exact hz
  have hchanged : ∀ z, (getRec (setRec wE f { r with checked := some R }) R z).changed = (getRec w1 R z).changed := by
    intro z
    by_cases hzf : z = f
    · subst hzf; rw [hself, hcur_ch]; exact hch
    · rw [hne z hzf]
  refine ⟨?_, ?_, hV, by rw [hself]; exact hchk'⟩
  · refine ⟨hsame.trans (SameButRecs.setRec _ _ _), hsettled, ?_, hchanged, ?_, ?_, ?_, ?_⟩
    · intro z
      by_cases hzf : z = f
      · subst hzf
        rw [hself, isFailedR_none (r := { r with checked := some R }) hfail, isFailedR_none hcurfail']
      · rw [hne z hzf]
    · intro z s hs
      by_cases hzf : z = f
      · subst hzf
        have hsfail : s.failed = none := by
          rcases hs.failed with h | h
          · rw [h]; exact hcurfail'
          · exact h.1
        refine ⟨hs.wf, ?_, ?_, ?_, ?_, ?_, ?_, ?_⟩
        · rw [hself]; exact hs.stamp.trans hsnap.stamp.symm
        · rw [hself]; exact hs.changed.trans hsnap.changed.symm
        · rw [hself]; intro _; exact (hs.ovr hcurfail').trans (hsnap.ovr hcurfail').symm
        · rw [hself]; left; exact hsfail.trans hfail.symm
        · rw [hself]; intro _
          exact (hs.gen hcurfail').trans (hsnap.gen hcurfail').symm
        · rw [hself, hchk']; intro h; cases h
        · rw [hself]
          intro _ hsck
          refine ⟨by rw [readStamp_congr _ hfs]; exact hst, ?_⟩
          intro hg ho c hc row hrow ht
          rw [hdeps] at hrow
          have hc' : c = ch := by
            have := hs.changed.trans hsnap.changed.symm
            rw [hc, hch] at this
            exact Option.some.inj this
          subst hc'
          refine RowOK.mono hsettled hchanged hfs ?_
          cases hcc : isCheckedR (getRec w1 R z) R with
          | true => exact (hs.late hcc hsck).2 hg ho c hc row hrow ht
          | false =>
            have e1 := hs.unchecked hcc
            have e2 := hsnap.unchecked hcc
            have hg' : r.isGenerated = true := by
              rw [← hg]; exact (hsnap.gen hcurfail').trans (hs.gen hcurfail').symm
            have ho' : r.isOverride = false := by
              rw [← ho]; exact (hsnap.ovr hcurfail').trans (hs.ovr hcurfail').symm
            have := hrows hg' ho' row hrow ht
            rw [e1, ← e2]
            exact this
      · exact hs.of_ne hsettled hchanged hfs hdeps (hne z hzf)
    · intro g hg
      have : g ≠ f := fun e => hseen (e ▸ hg)
      simp [setRec, this, hrecs]
    · rw [← hran]; rfl
    · intro z hz
      by_cases hzf : z = f
      · subst hzf
        rw [hself]
        rw [← hsnap.gen hcurfail'] at hz
        exact hz
      · rw [hne z hzf]; exact hz
  · refine ⟨WFR.setRec (hinv.wf.of_recs hrecs) f (hsnap.wf.checked (by rw [hch]; simp)), ?_, ?_, ?_, ?_⟩
    · intro y hy hV0 hyck hyg hyo row hrow ht
      have hyf : y ≠ f := by
        intro e; subst e; rw [hself, hchk'] at hyck; cases hyck
      rw [hdeps] at hrow
      rw [hne y hyf] at hyck hyg hyo
      unfold V0 at hV0
      rw [hne y hyf, readStamp_congr _ hfs] at hV0
      exact (hinv.j y hy hV0 hyck hyg hyo row hrow ht).mono hsettled hfs hrules
    · intro z hz hex
      by_cases hzf : z = f
      · subst hzf
        rw [hself] at hz ⊢
        exact .inr (.inr ⟨hfail, by rw [readStamp_congr _ hfs]; exact hst⟩)
      · rw [hne z hzf] at hz ⊢
        rw [readStamp_congr _ hfs]
        rw [existsF_congr _ hfs] at hex
        exact hinv.ov z hz hex
    · intro z hz
      by_cases hzf : z = f
      · subst hzf; rw [hself]; exact hfail
      · rw [hne z hzf] at hz ⊢; exact hinv.p1 z hz
    · intro z hzc hz
      by_cases hzf : z = f
      · subst hzf; rw [hself]; exact hfail
      · rw [hne z hzf] at hz ⊢; exact hinv.p2 z hzc hz

/-- The target-to-source conversion written when a generated file has disappeared. -/
theorem unfailWrite {seen : List Nat} {w : World} (hinv : DInv R cyc w) (f : Nat) (r : Rec) (ch : Nat) (old : DStamp)
    (hsnap : SnapRel R cyc w f r) (hfail : r.failed = none) (hch : r.changed = some ch)
    (hck : isCheckedR r R = false) (hst : r.stamp = some old) (hne : old ≠ readStamp w f)
    (hmiss : existsF w f = false) (hseen : f ∉ seen) (hp2 : f ∈ cyc → ch ≠ R) :
    DStep R cyc seen w (setRec w f { r with isGenerated := false, isOverride := false, failed := some 0 }) ∧
    DInv R cyc (setRec w f { r with isGenerated := false, isOverride := false, failed := some 0 }) := by
  have hcur_ch : (getRec w R f).changed = some ch := by rw [← hsnap.changed]; exact hch
  have hself : getRec (setRec w f { r with isGenerated := false, isOverride := false, failed := some 0 }) R f =
      { r with isGenerated := false, isOverride := false, failed := some 0 } := by
    apply getRec_setRec_self
    intro h0
    subst h0
    have := getRec_changed_always hinv.wf
    rw [hcur_ch] at this
    simpa [hch] using this
  have hnez : ∀ z, z ≠ f → getRec (setRec w f { r with isGenerated := false, isOverride := false, failed := some 0 }) R z = getRec w R z :=
    fun z hz => getRec_setRec_ne _ hz
  have hstne : r.stamp ≠ some (readStamp w f) := by
    rw [hst]; intro e; exact hne (Option.some.inj e)
  -- the database record is not checked either, and is not verified
  have hcurck : isCheckedR (getRec w R f) R = false := by
    cases hcc : isCheckedR (getRec w R f) R with
    | false => rfl
    | true =>
      have := (hsnap.late hcc hck).1
      rw [← hsnap.stamp] at this
      exact absurd this hstne
  have hnotV : ¬ V0 R w f := by
    rintro ⟨_, c, _, _, h | h⟩
    · rw [hcurck] at h; cases h
    · rw [← hsnap.stamp] at h; exact hstne h.1
  have hcurfail : (getRec w R f).failed = none ∨ (getRec w R f).failed = some 0 := by
    rcases hsnap.failed with h | h
    · left; rw [← h]; exact hfail
    · right; exact h.2.1
  have hsettled : ∀ z, Settled R cyc w z →
      Settled R cyc (setRec w f { r with isGenerated := false, isOverride := false, failed := some 0 }) z := by
    intro z hz
    by_cases hzf : z = f
    · subst hzf; exact absurd hz.1 hnotV
    · unfold Settled V0 at hz ⊢
      rw [hnez z hzf]
      exact hz
  have hchanged : ∀ z, (getRec (setRec w f { r with isGenerated := false, isOverride := false, failed := some 0 }) R z).changed =
      (getRec w R z).changed := by
    intro z
    by_cases hzf : z = f
    · subst hzf; rw [hself, hcur_ch]; exact hch
    · rw [hnez z hzf]
  refine ⟨⟨SameButRecs.setRec _ _ _, hsettled, ?_, hchanged, ?_, ?_, rfl, ?_⟩, ?_⟩
  · intro z
    by_cases hzf : z = f
    · subst hzf
      rw [hself, isFailedR_zero (r := { r with isGenerated := false, isOverride := false, failed := some 0 }) rfl]
      rcases hcurfail with h | h
      · rw [isFailedR_none h]
      · rw [isFailedR_zero h]
    · rw [hnez z hzf]
  · intro z s hs
    by_cases hzf : z = f
    · subst hzf
      have hsck : s.checked = r.checked := (hs.unchecked hcurck).trans (hsnap.unchecked hcurck).symm
      have hsck' : isCheckedR s R = false := by
        simp only [isCheckedR, hsck] at hck ⊢; exact hck
      refine ⟨hs.wf, ?_, ?_, ?_, ?_, ?_, ?_, ?_⟩
      · rw [hself]; exact hs.stamp.trans hsnap.stamp.symm
      · rw [hself]; exact hs.changed.trans hsnap.changed.symm
      · rw [hself]; intro h; cases h
      · rw [hself]
        cases hsf : s.failed with
        | none =>
          right
          refine ⟨rfl, rfl, ?_, hsck'⟩
          rw [hs.stamp, ← hsnap.stamp]
          exact hstne
        | some x =>
          left
          rcases hs.failed with h | h
          · rcases hsnap.failed with h' | h'
            · rw [hsf, ← h', hfail] at h; cases h
            · rw [hsf, h'.2.1] at h; exact h
          · rw [hsf] at h; cases h.1
      · rw [hself]; intro h; cases h
      · rw [hself]; intro _; exact hsck
      · rw [hself]
        intro h
        simp only [isCheckedR] at h hck
        rw [hck] at h; cases h
    · exact hs.of_ne hsettled hchanged rfl rfl (hnez z hzf)
  · intro g hg
    have : g ≠ f := fun e => hseen (e ▸ hg)
    simp [setRec, this]
  · intro z hz
    by_cases hzf : z = f
    · subst hzf; rw [hself]
    · rw [hnez z hzf]; exact hz
  · refine ⟨WFR.setRec hinv.wf f hsnap.wf.unfail, ?_, ?_, ?_, ?_⟩
    · intro y hy hV0 hyck hyg hyo row hrow ht
      have hyf : y ≠ f := by
        intro e; subst e; rw [hself] at hyg; cases hyg
      rw [hnez y hyf] at hyck hyg hyo
      unfold V0 at hV0
      rw [hnez y hyf] at hV0
      exact (hinv.j y hy hV0 hyck hyg hyo row hrow ht).mono hsettled rfl rfl
    · intro z hz hex
      by_cases hzf : z = f
      · subst hzf
        have hex' : existsF w z = true := hex
        rw [hmiss] at hex'; cases hex'
      · rw [hnez z hzf] at hz ⊢
        exact hinv.ov z hz hex
    · intro z hz
      by_cases hzf : z = f
      · subst hzf
        rw [hself] at hz
        simp only [isCheckedR] at hz hck
        rw [hck] at hz; cases hz
      · rw [hnez z hzf] at hz ⊢; exact hinv.p1 z hz
    · intro z hzc hz
      by_cases hzf : z = f
      · subst hzf
        rw [hself] at hz
        simp only at hz
        rw [hch] at hz
        exact absurd (Option.some.inj hz) (hp2 hzc)
      · rw [hnez z hzf] at hz ⊢; exact hinv.p2 z hzc hz

end RedoModel.Deps.Once
