import RedoModel.Lemmas.Once.DepsOnce
/-!
Counterexamples to "no script runs twice within one top-level `redo-ifchange`" (`C02.exact_full`), on worlds
reachable from `initWorld` with every defect switch off: each cleanliness condition of `ran_nodup_of_wf` is
necessary, and so are the well-formedness of run ids and the condition `OvOK` on overridden records (both on
unreachable worlds: they hold in every reachable one).
-/
namespace RedoModel.Deps.Once
open RedoModel.Deps
open RedoModel.Generated

/-- `C02.exact_full`, restated. -/
def RanNodup : Prop :=
  ∀ (d : Defects) (n : Nat) (w : World) (ts : List Nat) (kg : Bool),
    let w' := (runCmd d n (.ifchange ts kg) { w with trace := [] }).2
    (w'.trace.filterMap (fun e => match e with | .ran t => some t | _ => none)).Nodup

namespace Cex
def rules0 : Nat → List Nat := fun t => if t = 1 ∨ t = 2 ∨ t = 3 then [10 + t] else []

/-- 1 = `t` (`t.do` = 11: `redo-ifcreate f`), 2 = `f` (`f.do` = 12), 3 = `a` (`a.do` = 13: `redo-ifchange t`). -/
def histC : List UserOp :=
  [ .setProg (srcContent 1) { ifcreate := [2] },
    .setProg (srcContent 2) { },
    .setProg (srcContent 3) { ifchange := [[1]] },
    .write 11 1, .write 12 2, .write 13 3 ]

def wC : World := runOps {} 20 histC (initWorld rules0)


theorem mergeSort_pair {α} (a b : α) (le : α → α → Bool) :
    [a, b].mergeSort le = if le a b then [a, b] else [b, a] := by
  simp [List.mergeSort, List.merge, List.MergeSort.Internal.splitInTwo]

/-- Evaluation set for concrete runs (the kernel cannot unfold `List.mergeSort`, so `decide` is of no use). -/
macro "eval_run" : tactic => `(tactic|
  simp (config := { zeta := true, zetaHave := true, decide := true }) [ranList, runCmd, allocRun, runOps, applyOp, initWorld, engine, runTargets,
    buildJob, shouldBuild, isDirty, goDeps, startSelf, recordNewState, runScript, runScript.cmds, runScript.conds,
    ifchangeWith, findDoFile, addDep, addKnown, setRec, setFile, ev, getRec, readStamp, existsF, newNode,
    srcContent, outContent, depsWithRecs, depsOf, zapDeps1, zapDeps2, updateStamp, setChanged, setStatic, setFailed,
    setOverride, detectOverride, isCheckedR, isChangedR, isFailedR, alwaysId, mergeSort_pair, CRASHED,
    EXIT_CYCLIC_DEPENDENCY, EXIT_TARGET_FAILED, EXIT_FAILURE, stampRec])

/-- `t` declared `redo-ifcreate f`, was built, then `f` was built in the same run, then `a` asked for `t`
again: `t`'s script runs a second time (and fails, `f` exists now). Order of execution: t, f, a, t. -/
theorem ifcreate_twice :
    ranList (runCmd {} 0 (.ifchange [1, 2, 3] false) { wC with trace := [] }).2 = [1, 3, 2, 1] := by
  unfold wC histC rules0
  eval_run

/-- 3 = `q` (13: `redo-ifchange t`), 4 = `r` (14: `redo-ifchange q`); 1 = `t` is a hand-written file. -/
def rulesF : Nat → List Nat := fun t => if t = 3 ∨ t = 4 then [10 + t] else []

def histF : List UserOp :=
  [ .setProg (srcContent 3) { ifchange := [[1]] },
    .setProg (srcContent 4) { ifchange := [[3]] },
    .write 13 3, .write 14 4, .write 1 7,
    .cmd (.ifchange [3, 4] false) ]

/-- An unreachable world: the record of the source `t` carries the override flag without being recorded as
generated, and the failure mark 0.  (Before the vanished-target write of the dirtiness check was repaired to clear
the override flag, such a record was reachable: build `t`, override it, remove it, let a check find it missing,
write it again.  Since the repair an overridden record is always a generated one, `og_reachable`.) -/
def wF : World :=
  let w := runOps {} 0 histF (initWorld rulesF)
  { w with recs := fun z => if z = 1 then { w.recs 1 with isOverride := true, isGenerated := false, failed := some 0 }
      else w.recs z }

set_option maxRecDepth 8000 in
set_option maxHeartbeats 4000000 in
/-- Such a record is never repaired — `start_self` leaves an overridden non-target alone — so every request finds
`t` dirty and `q` is rebuilt for each of its two requests in the run.  Order of execution: q, r, q. -/
theorem ovOK_needed :
    ranList (runCmd {} 0 (.ifchange [3, 4] false) { wF with trace := [] }).2 = [3, 4, 3] := by
  unfold wF histF rulesF
  eval_run

/-- 1 = `t` (11: `redo-always`), 3 = `a` (13: `redo-ifchange t`); a file named like the `//ALWAYS` pseudo file
exists. -/
def histA : List UserOp :=
  [ .setProg (srcContent 1) { always := true },
    .setProg (srcContent 3) { ifchange := [[1]] },
    .write 11 1, .write 13 3, .write 0 0 ]

def wA : World := runOps {} 0 histA (initWorld rules0)

theorem always_twice :
    ranList (runCmd {} 0 (.ifchange [1, 3] false) { wA with trace := [] }).2 = [1, 3, 1] := by
  unfold wA histA rules0
  eval_run


/-- 1 = `t` with candidates 5 (missing at first) and 11; 5 is itself a target (`5.do` = 15); 3 = `a`
(13: `redo-ifchange t`). -/
def rulesD : Nat → List Nat := fun t => if t = 1 then [5, 11] else if t = 3 then [13] else if t = 5 then [15] else []

def histD : List UserOp :=
  [ .setProg (srcContent 1) { },
    .setProg (srcContent 3) { ifchange := [[1]] },
    .setProg (srcContent 5) { },
    .write 11 1, .write 13 3, .write 15 5 ]

def wD : World := runOps {} 0 histD (initWorld rulesD)

/-- `t` was built with its second .do candidate while the first did not exist; the first candidate is then
built in the same run, so the next request finds `t` dirty and runs it again.  Order: t, 5, a, t. -/
theorem dofile_twice :
    ranList (runCmd {} 0 (.ifchange [1, 5, 3] false) { wD with trace := [] }).2 = [1, 3, 5, 1] := by
  unfold wD histD rulesD
  eval_run

/-- An unreachable world: the source file 4 carries a `changed` mark from the future (run 100). -/
def histW : List UserOp :=
  [ .setProg (srcContent 2) { ifchange := [[4]] },
    .setProg (srcContent 3) { ifchange := [[2]] },
    .write 12 2, .write 13 3, .write 4 0 ]

def wW : World :=
  let w := runOps {} 0 histW (initWorld rules0)
  { w with recs := fun z => if z = 4 then { row := 9, changed := some 100, stamp := some (.st 3 0) } else w.recs z }

/-- Without well-formed run ids the source 4 is dirty for every request, so `p` (2) is rebuilt for each of its
two requests.  Order: p, q, p. -/
theorem wf_needed :
    ranList (runCmd {} 0 (.ifchange [2, 3] false) { wW with trace := [] }).2 = [2, 3, 2] := by
  unfold wW histW rules0
  eval_run

theorem wW_not_wf : ¬ WF wW := by
  intro h
  have := (h 4).1 100 (by simp [wW])
  simp [wW, runOps, histW, applyOp, initWorld, setFile, newNode] at this

/-! In each reachable counterexample one condition of `Clean` fails. -/

theorem wC_not_clean : ¬ Clean wC := by
  intro h
  have := h.hyg.scripts (srcContent 1) { ifcreate := [2] } (by simp [wC, runOps, histC, applyOp, srcContent, initWorld, setFile, newNode]) 2
    (by simp)
  simp [wC, runOps, histC, applyOp, initWorld, rules0, setFile, newNode] at this

theorem wA_not_clean : ¬ Clean wA := by
  intro h
  have := h.f0
  simp [wA, runOps, histA, applyOp, initWorld, setFile, newNode, alwaysId] at this

theorem wD_not_clean : ¬ Clean wD := by
  intro h
  have := h.hyg.dofiles 1 5 (by simp [wD, runOps, histD, applyOp, initWorld, rulesD, setFile, newNode])
  simp [wD, runOps, histD, applyOp, initWorld, rulesD, setFile, newNode] at this

set_option maxRecDepth 8000 in
set_option maxHeartbeats 4000000 in
/-- The hand-made world violates `OvOK` (and only that: it is well formed, `wF_wf`). -/
theorem wF_not_ovOK : ¬ OvOK wF := by
  intro h
  have h1 : (wF.recs 1).isOverride = true := rfl
  have h2 : existsF wF 1 = true := by
    unfold wF histF rulesF
    eval_run
  rcases h 1 h1 h2 with h3 | h3
  · cases h3
  · cases h3.1

theorem wF_wf : WF wF := by
  have h : WF (runOps {} 0 histF (initWorld rulesF)) := wf_reachable {} 0 rulesF histF
  intro f
  show WFrec (runOps {} 0 histF (initWorld rulesF)).runCounter (wF.recs f)
  simp only [wF]
  split
  · obtain ⟨a1, a2, _, a4⟩ := h 1
    exact ⟨a1, a2, fun c hc => by cases hc; exact Nat.zero_le _, a4⟩
  · exact h f

end Cex

/-- The unconditional statement is false, already for worlds reachable from `initWorld` with all defect
switches off. -/
theorem ranNodup_false : ¬ RanNodup := by
  intro h
  have h1 : (ranList (runCmd {} 0 (.ifchange [1, 2, 3] false) { Cex.wC with trace := [] }).2).Nodup :=
    h {} 0 Cex.wC [1, 2, 3] false
  rw [Cex.ifcreate_twice] at h1
  exact absurd h1 (by decide)

end RedoModel.Deps.Once
