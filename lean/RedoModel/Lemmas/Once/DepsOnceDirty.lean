import RedoModel.Lemmas.Once.DepsOnceWrites
/-! Specification of the dirtiness check for the once-per-run proof. -/
namespace RedoModel.Deps.Once
open RedoModel.Deps

variable {R : Nat} {cyc : List Nat}

structure DSpec (R : Nat) (cyc seen : List Nat) (f mx : Nat) (w : World) (res : DR × World × List Nat) : Prop where
  inv : DInv R cyc res.2.1
  step : DStep R cyc seen w res.2.1
  clean : res.1 = .clean → V0 R res.2.1 f ∧ isCheckedR (getRec res.2.1 R f) R = true ∧
    ∀ ch, (getRec w R f).changed = some ch → ch ≤ mx
  ok : Settled R cyc w f → (∀ ch, (getRec w R f).changed = some ch → ch ≤ mx) → res.1 = .clean ∨ res.1 = .cyclic
  bad : f ∉ cyc → (∀ ch, (getRec w R f).changed = some ch → ch ≤ mx) → res.1 ≠ .clean → res.1 ≠ .cyclic →
    ¬ V0 R res.2.1 f
  needNe : ∀ ts, res.1 = .need ts → ts ≠ []

theorem notV0_of_stamp {w : World} {f : Nat} {r : Rec} (hsnap : SnapRel R cyc w f r)
    (hck : isCheckedR r R = false) (hst : r.stamp ≠ some (readStamp w f)) : ¬ V0 R w f := by
  rintro ⟨_, c, _, _, h | h⟩
  · have := (hsnap.late h hck).1
    rw [← hsnap.stamp] at this
    exact hst this
  · rw [← hsnap.stamp] at h; exact hst h.1

theorem mem_depsOf {w : World} {r : Rec} {f : Nat} (hg : r.isGenerated = true) (ho : r.isOverride = false) (d : Dep) :
    d ∈ depsOf w r f ↔ d ∈ w.deps ∧ d.target = f := by
  simp [depsOf, hg, ho, List.mem_mergeSort, List.mem_filter]

theorem depsOf_static {w : World} {r : Rec} {f : Nat} (h : r.isGenerated = false ∨ r.isOverride = true) :
    depsOf w r f = [] := by
  rcases h with h | h <;> simp [depsOf, h]

theorem goDeps_some_shape (chk : World → List Nat → Nat → Rec → DR × World × List Nat) (hasCsum : Bool) (f : Nat) :
    ∀ (ds : List (Dep × Rec)) (w : World) (cache must : List Nat) (dr : DR) (w1 : World) (c1 : List Nat),
      goDeps chk hasCsum f ds w cache must = (some dr, w1, c1) → dr ≠ .clean ∧ ∀ ts, dr = .need ts → ts ≠ []
  | [], w, cache, must, dr, w1, c1, h => by
    rw [goDeps] at h
    split at h
    · cases h
    · rename_i hne
      simp only [Prod.mk.injEq, Option.some.injEq] at h
      rw [← h.1]
      refine ⟨by simp, ?_⟩
      intro ts e
      cases e
      intro e2; subst e2; simp at hne
  | (d, snap) :: ds, w, cache, must, dr, w1, c1, h => by
    have hd : ∀ dr', (if hasCsum = true then DR.need [f] else DR.dirty) = dr' →
        dr' ≠ .clean ∧ ∀ ts, dr' = .need ts → ts ≠ [] := by
      intro dr' e
      subst e
      split
      · refine ⟨by simp, ?_⟩
        intro ts e; cases e; simp
      · exact ⟨by simp, fun ts e => by cases e⟩
    revert h
    apply goDeps_cons_cases chk hasCsum f d snap ds w cache must
      (fun res => res = (some dr, w1, c1) → dr ≠ .clean ∧ ∀ ts, dr = .need ts → ts ≠ [])
    · intro _ _ h
      simp only [Prod.mk.injEq, Option.some.injEq] at h
      exact hd dr h.1
    · intro _ _ h
      exact goDeps_some_shape chk hasCsum f ds w cache must dr w1 c1 h
    · intro _ sub w2 c2 _
      cases sub with
      | cyclic =>
        intro h
        simp only [Prod.mk.injEq, Option.some.injEq] at h
        rw [← h.1]
        exact ⟨by simp, fun ts e => by cases e⟩
      | clean => exact goDeps_some_shape chk hasCsum f ds w2 c2 must dr w1 c1
      | dirty =>
        intro h
        simp only [Prod.mk.injEq, Option.some.injEq] at h
        exact hd dr h.1
      | need ts => exact goDeps_some_shape chk hasCsum f ds w2 c2 (must ++ ts) dr w1 c1

/-- The loop over the recorded dependencies. -/
theorem goDeps_spec {seen : List Nat} {mx' : Nat} (chk : World → List Nat → Nat → Rec → DR × World × List Nat)
    (hchk : ∀ w2 c2 s snap, DInv R cyc w2 → SnapRel R cyc w2 s snap → (R ≤ mx' → s ∉ cyc ∨ Settled R cyc w2 s) →
      DSpec R cyc seen s mx' w2 (chk w2 c2 s snap))
    (hasCsum : Bool) (f : Nat) :
    ∀ (ds : List (Dep × Rec)) (w : World) (cache must : List Nat), DInv R cyc w →
      (∀ p ∈ ds, SnapRel R cyc w p.1.source p.2 ∧
        (p.1.modeM = true → R ≤ mx' → p.1.source ∉ cyc ∨ Settled R cyc w p.1.source)) →
      DInv R cyc (goDeps chk hasCsum f ds w cache must).2.1 ∧
      DStep R cyc seen w (goDeps chk hasCsum f ds w cache must).2.1 ∧
      ((goDeps chk hasCsum f ds w cache must).1 = none →
        must = [] ∧ ∀ p ∈ ds, RowOK R cyc (goDeps chk hasCsum f ds w cache must).2.1 p.1 mx') ∧
      ((∀ p ∈ ds, RowOK R cyc w p.1 mx') →
        (goDeps chk hasCsum f ds w cache must).1 = (if must.isEmpty then none else some (.need must)) ∨
        (goDeps chk hasCsum f ds w cache must).1 = some .cyclic)
  | [], w, cache, must, hinv, _ => by
    rw [goDeps]
    refine ⟨hinv, DStep.refl _ _, ?_, fun _ => .inl rfl⟩
    intro h
    simp only at h
    split at h
    · rename_i he
      exact ⟨by simpa using he, fun p hp => by cases hp⟩
    · cases h
  | (d, snap) :: ds, w, cache, must, hinv, hsn => by
    have hsnap : SnapRel R cyc w d.source snap := (hsn (d, snap) (by simp)).1
    have hpre := (hsn (d, snap) (by simp)).2
    have hrest : ∀ p ∈ ds, SnapRel R cyc w p.1.source p.2 ∧
        (p.1.modeM = true → R ≤ mx' → p.1.source ∉ cyc ∨ Settled R cyc w p.1.source) :=
      fun p hp => hsn p (by simp [hp])
    apply goDeps_cons_cases chk hasCsum f d snap ds w cache must
      (fun res => DInv R cyc res.2.1 ∧ DStep R cyc seen w res.2.1 ∧
        (res.1 = none → must = [] ∧ ∀ p ∈ (d, snap) :: ds, RowOK R cyc res.2.1 p.1 mx') ∧
        ((∀ p ∈ (d, snap) :: ds, RowOK R cyc w p.1 mx') →
          res.1 = (if must.isEmpty then none else some (.need must)) ∨ res.1 = some .cyclic))
    · -- a `c` row whose file exists
      intro hm he
      refine ⟨hinv, DStep.refl _ _, (fun h => by cases h), ?_⟩
      intro hall
      have := (hall (d, snap) (by simp)).2 hm
      rw [he] at this; cases this
    · -- a `c` row whose file does not exist
      intro hm he
      obtain ⟨i1, i2, i3, i4⟩ := goDeps_spec chk hchk hasCsum f ds w cache must hinv hrest
      refine ⟨i1, i2, ?_, ?_⟩
      · intro hn
        obtain ⟨a, b⟩ := i3 hn
        refine ⟨a, ?_⟩
        intro p hp
        rcases List.mem_cons.1 hp with rfl | hp
        · refine ⟨(fun h => by rw [hm] at h; cases h), fun _ => ?_⟩
          rw [existsF_congr _ i2.same.1]; exact he
        · exact b p hp
      · intro hall
        exact i4 (fun p hp => hall p (by simp [hp]))
    · -- an `m` row
      intro hm sub w2 c2 hsub
      have hs := hchk w cache d.source snap hinv hsnap (hpre hm)
      rw [hsub] at hs
      have hrest2 : ∀ p ∈ ds, SnapRel R cyc w2 p.1.source p.2 ∧
          (p.1.modeM = true → R ≤ mx' → p.1.source ∉ cyc ∨ Settled R cyc w2 p.1.source) :=
        fun p hp => ⟨hs.step.snap _ _ (hrest p hp).1,
          fun h1 h2 => ((hrest p hp).2 h1 h2).imp id (hs.step.settled _)⟩
      cases sub with
      | cyclic =>
        exact ⟨hs.inv, hs.step, (fun h => by cases h), (fun _ => Or.inr rfl)⟩
      | dirty =>
        refine ⟨hs.inv, hs.step, (fun h => by cases h), ?_⟩
        intro hall
        have hrow := (hall (d, snap) (by simp)).1 hm
        rcases hs.ok hrow.1 hrow.2 with h | h <;> cases h
      | clean =>
        dsimp only
        obtain ⟨i1, i2, i3, i4⟩ := goDeps_spec chk hchk hasCsum f ds w2 c2 must hs.inv hrest2
        refine ⟨i1, hs.step.trans i2, ?_, ?_⟩
        · intro hn
          obtain ⟨a, b⟩ := i3 hn
          refine ⟨a, ?_⟩
          intro p hp
          rcases List.mem_cons.1 hp with rfl | hp
          · obtain ⟨c1, c2', c3⟩ := hs.clean rfl
            have : RowOK R cyc w2 d mx' := by
              refine ⟨fun _ => ⟨⟨c1, fun _ => c2'⟩, ?_⟩, (fun h => by rw [hm] at h; cases h)⟩
              intro ch hch
              rw [hs.step.changed] at hch
              exact c3 ch hch
            exact i2.rowOK this
          · exact b p hp
        · intro hall
          exact i4 (fun p hp => hs.step.rowOK (hall p (by simp [hp])))
      | need ts =>
        dsimp only
        obtain ⟨i1, i2, i3, i4⟩ := goDeps_spec chk hchk hasCsum f ds w2 c2 (must ++ ts) hs.inv hrest2
        refine ⟨i1, hs.step.trans i2, ?_, ?_⟩
        · intro hn
          obtain ⟨a, b⟩ := i3 hn
          -- `must ++ ts = []` is impossible for a verified row, but here we only know the loop said `none`
          have hrow_bad : ts = [] := (List.append_eq_nil_iff.1 a).2
          have hmust : must = [] := (List.append_eq_nil_iff.1 a).1
          refine ⟨hmust, ?_⟩
          intro p hp
          rcases List.mem_cons.1 hp with rfl | hp
          · exact absurd hrow_bad (hs.needNe ts rfl)
          · exact b p hp
        · intro hall
          have hrow := (hall (d, snap) (by simp)).1 hm
          rcases hs.ok hrow.1 hrow.2 with h | h <;> cases h

theorem depsWithRecs_snap {w : World} (hw : WFR R w) (r : Rec) (f : Nat) :
    ∀ p ∈ depsWithRecs w R r f, SnapRel R cyc w p.1.source p.2 := by
  intro p hp
  simp only [depsWithRecs, List.mem_map] at hp
  obtain ⟨d, _, rfl⟩ := hp
  exact SnapRel.fresh hw _

theorem depsWithRecs_rows {w w1 : World} {r : Rec} {f mx' : Nat}
    (h : ∀ p ∈ depsWithRecs w R r f, RowOK R cyc w1 p.1 mx') (hg : r.isGenerated = true) (ho : r.isOverride = false)
    (row : Dep) (hrow : row ∈ w.deps) (ht : row.target = f) : RowOK R cyc w1 row mx' := by
  have : row ∈ depsOf w r f := (mem_depsOf hg ho row).2 ⟨hrow, ht⟩
  exact h (row, getRec w R row.source) (by
    simp only [depsWithRecs, List.mem_map]
    exact ⟨row, this, rfl⟩)

/-- All rows that the check of a verified file looks at are passed over. -/
theorem rows_ok_of_settled {w : World} (hinv : DInv R cyc w) {f : Nat} {r : Rec} {ch : Nat}
    (hsnap : SnapRel R cyc w f r) (hset : Settled R cyc w f) (hch : r.changed = some ch)
    (hck : isCheckedR r R = false) :
    ∀ p ∈ depsWithRecs w R r f, RowOK R cyc w p.1 (max ch (r.checked.getD 0)) := by
  intro p hp
  simp only [depsWithRecs, List.mem_map] at hp
  obtain ⟨d, hd, rfl⟩ := hp
  dsimp only
  cases hg : r.isGenerated with
  | false => rw [depsOf_static (.inl hg)] at hd; cases hd
  | true =>
  cases ho : r.isOverride with
  | true => rw [depsOf_static (.inr ho)] at hd; cases hd
  | false =>
  obtain ⟨hdw, hdt⟩ := (mem_depsOf hg ho d).1 hd
  cases hcc : isCheckedR (getRec w R f) R with
  | true => exact (hsnap.late hcc hck).2 hg ho ch hch d hdw hdt
  | false =>
    obtain ⟨hV, hcy⟩ := hset
    have hfc : f ∉ cyc := fun h => by rw [hcy h] at hcc; cases hcc
    obtain ⟨hf0, c, hc, hcR, hor⟩ := hV
    have hgen : (getRec w R f).isGenerated = true := by rw [← hsnap.gen hf0]; exact hg
    have hov : (getRec w R f).isOverride = false := by rw [← hsnap.ovr (by first | exact hf0 | exact hcf)]; exact ho
    have hcc' : c = ch := by
      have := hsnap.changed
      rw [hch, hc] at this
      exact (Option.some.inj this).symm
    subst hcc'
    rcases hor with h | ⟨_, h⟩
    · rw [hcc] at h; cases h
    · rcases h with h | h | h
      · rw [hgen] at h; cases h
      · rw [hov] at h; cases h
      · subst h
        have hgood := hinv.j f hfc ⟨hf0, c, hc, hcR, .inr ⟨by assumption, .inr (.inr rfl)⟩⟩ hcc hgen hov d hdw hdt
        refine ⟨fun hm => ⟨(hgood.1 hm).1, ?_⟩, fun hm => (hgood.2 hm).1⟩
        intro c' hc'
        obtain ⟨_, c'', hc'', hle, _⟩ := (hgood.1 hm).1.1
        rw [hc''] at hc'
        cases hc'
        exact Nat.le_trans hle (Nat.le_max_left _ _)

/-- What the loop needs to know about each row before looking at it. -/
theorem depsWithRecs_pre (hR : 0 < R) {w : World} (hinv : DInv R cyc w) {f mx ch : Nat} {r : Rec}
    (hsnap : SnapRel R cyc w f r) (hf : r.failed = none) (hch : r.changed = some ch)
    (hck : isCheckedR r R = false) (hst : r.stamp = some (readStamp w f)) (hle : ch ≤ mx)
    (hmx : R ≤ mx → f ∉ cyc ∨ Settled R cyc w f) :
    ∀ p ∈ depsWithRecs w R r f, SnapRel R cyc w p.1.source p.2 ∧
      (p.1.modeM = true → R ≤ max ch (r.checked.getD 0) → p.1.source ∉ cyc ∨ Settled R cyc w p.1.source) := by
  intro p hp
  refine ⟨depsWithRecs_snap hinv.wf r f p hp, ?_⟩
  intro hm hge
  simp only [depsWithRecs, List.mem_map] at hp
  obtain ⟨d, hd, rfl⟩ := hp
  dsimp only at hm ⊢
  -- the threshold can only reach `R` through `changed`
  have hchR : ch ≤ R := hsnap.wf.1 ch hch
  have hckd : r.checked.getD 0 < R := by
    simp only [isCheckedR] at hck
    cases hcc : r.checked with
    | none => simpa using hR
    | some c =>
      rw [hcc] at hck
      simp only [Option.getD_some]
      by_cases h0 : c = 0
      · omega
      · by_cases hge' : c ≥ R
        · simp [h0, hge'] at hck
        · omega
  have hchR' : ch = R := by
    rcases Nat.le_total R ch with h | h
    · omega
    · have : max ch (r.checked.getD 0) < R ∨ ch = R := by
        by_cases e : ch = R
        · exact .inr e
        · left; omega
      rcases this with h' | h'
      · omega
      · exact h'
  rw [hchR'] at hch hle
  cases hg : r.isGenerated with
  | false => rw [depsOf_static (.inl hg)] at hd; cases hd
  | true =>
  cases ho : r.isOverride with
  | true => rw [depsOf_static (.inr ho)] at hd; cases hd
  | false =>
  obtain ⟨hdw, hdt⟩ := (mem_depsOf hg ho d).1 hd
  cases hcc : isCheckedR (getRec w R f) R with
  | true =>
    exact .inr (((hsnap.late hcc hck).2 hg ho R hch d hdw hdt).1 hm).1
  | false =>
    -- the database record is `changed = R`, unchecked, in step: verified
    have hcf : (getRec w R f).failed = none := by
      rcases hsnap.failed with h | h
      · rw [← h]; exact hf
      · exact absurd hst h.2.2.1
    have hV : V0 R w f := ⟨hcf, R, by rw [← hsnap.changed]; exact hch, Nat.le_refl _,
      .inr ⟨by rw [← hsnap.stamp]; exact hst, .inr (.inr rfl)⟩⟩
    have hfc : f ∉ cyc := by
      intro hfc
      rcases hmx hle with h | h
      · exact h hfc
      · rw [h.2 hfc] at hcc; cases hcc
    have hgen : (getRec w R f).isGenerated = true := by rw [← hsnap.gen hcf]; exact hg
    have hov : (getRec w R f).isOverride = false := by rw [← hsnap.ovr (by first | exact hf0 | exact hcf)]; exact ho
    exact .inl ((hinv.j f hfc hV hcc hgen hov d hdw hdt).1 hm).2

theorem isDirty_spec (hR : 0 < R) : ∀ (fuel : Nat) (w : World) (cache : List Nat) (f mx : Nat) (seen : List Nat)
    (pre : Option Rec), DInv R cyc w → (∀ s, pre = some s → SnapRel R cyc w f s) →
      (R ≤ mx → f ∉ cyc ∨ Settled R cyc w f) →
      DSpec R cyc seen f mx w (isDirty false R fuel w cache f mx seen pre)
  | 0, w, cache, f, mx, seen, pre, hinv, _, _ => by
    rw [isDirty]
    exact ⟨hinv, DStep.refl _ _, (fun h => by cases h), (fun _ _ => .inr rfl), (fun _ _ _ h => absurd rfl h),
      (fun ts h => by cases h)⟩
  | fuel + 1, w, cache, f, mx, seen, pre, hinv, hpre, hmx => by
    have hsnap : SnapRel R cyc w f (pre.getD (getRec w R f)) := by
      cases pre with
      | none => exact SnapRel.fresh hinv.wf f
      | some s => exact hpre s rfl
    generalize hr : pre.getD (getRec w R f) = r at hsnap
    have hcurch : (getRec w R f).changed = r.changed := hsnap.changed.symm
    apply isDirty_cases R fuel w cache f mx seen pre (DSpec R cyc seen f mx w) r hr.symm
    · -- already on the path
      intro _
      exact ⟨hinv, DStep.refl _ _, (fun h => by cases h), (fun _ _ => .inr rfl), (fun _ _ _ h => absurd rfl h),
        (fun ts h => by cases h)⟩
    · -- failed
      intro _ hf
      have hnV : ¬ V0 R w f := by
        rintro ⟨h0, _⟩
        rcases hsnap.failed with h | h
        · rw [h, h0] at hf; cases hf
        · rw [h.1] at hf; cases hf
      exact ⟨hinv, DStep.refl _ _, (fun h => by cases h), (fun hs _ => absurd hs.1 hnV), (fun _ _ _ _ => hnV),
        (fun ts h => by cases h)⟩
    · -- never built
      intro _ _ hc
      have hnV : ¬ V0 R w f := by
        rintro ⟨_, c, h, _⟩
        rw [hcurch, hc] at h; cases h
      exact ⟨hinv, DStep.refl _ _, (fun h => by cases h), (fun hs _ => absurd hs.1 hnV), (fun _ _ _ _ => hnV),
        (fun ts h => by cases h)⟩
    · -- newer than the threshold
      intro ch _ _ hc hgt
      have hno : ¬ ∀ c, (getRec w R f).changed = some c → c ≤ mx := by
        intro h
        have := h ch (by rw [hcurch]; exact hc)
        omega
      exact ⟨hinv, DStep.refl _ _, (fun h => by cases h), (fun _ h => absurd h hno), (fun _ h => absurd h hno),
        (fun ts h => by cases h)⟩
    · -- memoised
      intro ch _ hf hc hle hck
      have hcurck : isCheckedR (getRec w R f) R = true := by
        cases hcc : isCheckedR (getRec w R f) R with
        | true => rfl
        | false =>
          have := hsnap.unchecked hcc
          simp only [isCheckedR, this] at hck
          simp only [isCheckedR] at hcc
          rw [hcc] at hck; cases hck
      have hcurf : (getRec w R f).failed = none := by
        rcases hsnap.failed with h | h
        · rw [← h]; exact hf
        · rw [h.2.2.2] at hck; cases hck
      have hV : V0 R w f := ⟨hcurf, ch, by rw [hcurch]; exact hc, hsnap.wf.1 ch hc, .inl hcurck⟩
      refine ⟨hinv, DStep.refl _ _, (fun _ => ⟨hV, hcurck, ?_⟩), (fun _ _ => .inl rfl), (fun _ _ h => absurd rfl h),
        (fun ts h => by cases h)⟩
      intro c hc'
      rw [hcurch, hc] at hc'; cases hc'; exact hle
    · -- no stamp
      intro ch _ _ _ _ hck hst
      have hnV : ¬ V0 R w f := notV0_of_stamp hsnap hck (by rw [hst]; simp)
      exact ⟨hinv, DStep.refl _ _, (fun h => by cases h), (fun hs _ => absurd hs.1 hnV), (fun _ _ _ _ => hnV),
        (fun ts h => by cases h)⟩
    · -- stamp mismatch
      intro ch old hs hf hc hle hck hst hne
      have hstne : r.stamp ≠ some (readStamp w f) := by
        rw [hst]; intro e; exact hne (Option.some.inj e)
      have hnV : ¬ V0 R w f := notV0_of_stamp hsnap hck hstne
      have hdr : (if r.csum.isSome = true then DR.need [f] else DR.dirty) ≠ .clean ∧
          ∀ ts, (if r.csum.isSome = true then DR.need [f] else DR.dirty) = .need ts → ts ≠ [] := by
        split
        · exact ⟨by simp, fun ts e => by cases e; simp⟩
        · exact ⟨by simp, fun ts e => by cases e⟩
      generalize (if r.csum.isSome = true then DR.need [f] else DR.dirty) = dr0 at hdr
      by_cases hcond : readStamp w f = .missing ∧ r.isGenerated = true
      · rw [if_pos hcond]
        have hp2 : f ∈ cyc → ch ≠ R := by
          intro hfc e
          subst e
          rcases hmx hle with h | h
          · exact h hfc
          · exact hnV h.1
        have hmiss : existsF w f = false := by
          have h := hcond.1
          simp only [readStamp, existsF] at h ⊢
          cases hfs : w.fs f with
          | none => rfl
          | some n => rw [hfs] at h; cases h
        obtain ⟨st, iv⟩ := unfailWrite (seen := seen) hinv f r ch old hsnap hf hc hck hst hne hmiss hs hp2
        refine ⟨iv, st, (fun h => absurd h hdr.1), (fun hs' _ => absurd hs'.1 hnV), ?_, hdr.2⟩
        intro _ _ _ _
        rintro ⟨h0, _⟩
        have hself : getRec (setRec w f { r with isGenerated := false, isOverride := false, failed := some 0 }) R f =
            { r with isGenerated := false, isOverride := false, failed := some 0 } := by
          apply getRec_setRec_self
          intro h00
          subst h00
          have := getRec_changed_always hinv.wf
          rw [hcurch] at this
          exact this
        dsimp only at h0
        rw [hself] at h0
        cases h0
      · rw [if_neg hcond]
        exact ⟨hinv, DStep.refl _ _, (fun h => absurd h hdr.1), (fun hs' _ => absurd hs'.1 hnV), (fun _ _ _ _ => hnV),
          hdr.2⟩
    · -- some dependency is not clean
      intro ch dr w1 c1 hs hf hc hle hck hst hg
      have hgs := goDeps_spec (R := R) (cyc := cyc) (seen := f :: seen) (mx' := max ch (r.checked.getD 0))
        (fun w2 c2 s snap => isDirty false R fuel w2 c2 s (max ch (r.checked.getD 0)) (f :: seen) (some snap))
        (fun w2 c2 s snap hi hsn hm2 => isDirty_spec hR fuel w2 c2 s _ (f :: seen) (some snap) hi
          (fun s' e => by cases e; exact hsn) hm2)
        r.csum.isSome f (depsWithRecs w R r f) w cache [] hinv
        (depsWithRecs_pre hR hinv hsnap hf hc hck hst hle hmx)
      rw [hg] at hgs
      obtain ⟨i1, i2, _, i4⟩ := hgs
      have hshape := goDeps_some_shape _ _ _ _ _ _ _ dr w1 c1 hg
      have hok : Settled R cyc w f → dr = .cyclic := by
        intro hset
        rcases i4 (rows_ok_of_settled hinv hsnap hset hc hck) with h | h
        · simp at h
        · simpa using h
      refine ⟨i1, i2.weaken (fun g hg => List.mem_cons_of_mem _ hg), (fun h => absurd h hshape.1),
        (fun hset _ => .inr (hok hset)), ?_, hshape.2⟩
      intro hfc _ _ hncyc hV
      apply hncyc
      apply hok
      have hrec : w1.recs f = w.recs f := i2.seen f (by simp)
      have : V0 R w f := by
        unfold V0 at hV ⊢
        rw [getRec_congr hrec, readStamp_congr _ i2.same.1] at hV
        exact hV
      exact ⟨this, fun h => absurd h hfc⟩
    · -- every dependency is clean
      intro ch w1 c1 hs hf hc hle hck hst hg
      have hgs := goDeps_spec (R := R) (cyc := cyc) (seen := f :: seen) (mx' := max ch (r.checked.getD 0))
        (fun w2 c2 s snap => isDirty false R fuel w2 c2 s (max ch (r.checked.getD 0)) (f :: seen) (some snap))
        (fun w2 c2 s snap hi hsn hm2 => isDirty_spec hR fuel w2 c2 s _ (f :: seen) (some snap) hi
          (fun s' e => by cases e; exact hsn) hm2)
        r.csum.isSome f (depsWithRecs w R r f) w cache [] hinv
        (depsWithRecs_pre hR hinv hsnap hf hc hck hst hle hmx)
      rw [hg] at hgs
      obtain ⟨i1, i2, i3, _⟩ := hgs
      have hrows := (i3 rfl).2
      have hsnap1 : SnapRel R cyc w1 f r := i2.snap f r hsnap
      have hst1 : r.stamp = some (readStamp w1 f) := by rw [readStamp_congr _ i2.same.1]; exact hst
      have hrows1 : r.isGenerated = true → r.isOverride = false → ∀ row ∈ w1.deps, row.target = f →
          RowOK R cyc w1 row (max ch (r.checked.getD 0)) := by
        intro hg' ho' row hrow ht
        rw [i2.same.2.1] at hrow
        exact depsWithRecs_rows hrows hg' ho' row hrow ht
      have hE : SameButRecs w1 (if r.isOverride = true then ev w1 (.warnOverride f) else w1) ∧
          (if r.isOverride = true then ev w1 (.warnOverride f) else w1).recs = w1.recs ∧
          ranList (if r.isOverride = true then ev w1 (.warnOverride f) else w1) = ranList w1 := by
        split
        · exact ⟨SameButRecs.ev _ _, rfl, ranList_ev_warn _ _⟩
        · exact ⟨SameButRecs.refl _, rfl, rfl⟩
      obtain ⟨st, iv, hV, hchk⟩ := cleanWrite (seen := seen) hR i1 f r ch hsnap1 hf hc hck hst1 hrows1 hs
        hE.1 hE.2.1 hE.2.2
      refine ⟨iv, (i2.weaken (fun g hg => List.mem_cons_of_mem _ hg)).trans st, (fun _ => ⟨hV, hchk, ?_⟩),
        (fun _ _ => .inl rfl), (fun _ _ h => absurd rfl h), (fun ts h => by cases h)⟩
      intro c hc'
      rw [hcurch, hc] at hc'; cases hc'; exact hle

end RedoModel.Deps.Once
