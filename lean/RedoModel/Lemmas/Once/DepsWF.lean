import RedoModel.Lemmas.Deps
import RedoModel.Lemmas.Once.DepsCases
/-!
Well-formedness of run ids in records: no record carries a run id larger than the allocated one, and a
record without a `changed` mark has no stamp, checksum or `checked` mark.  Holds initially and is preserved by
every user operation (whatever the defect switches).
-/
namespace RedoModel.Deps.Once
open RedoModel.Deps

def WFrec (R : Nat) (r : Rec) : Prop :=
  (∀ c, r.changed = some c → c ≤ R) ∧ (∀ c, r.checked = some c → c ≤ R) ∧ (∀ c, r.failed = some c → c ≤ R) ∧
  (r.changed = none → r.stamp = none ∧ r.checked = none ∧ r.csum = none)

/-- All records are well formed for run id `R`. -/
def WFR (R : Nat) (w : World) : Prop := ∀ f, WFrec R (w.recs f)

/-- The well-formedness of a world between commands. -/
def WF (w : World) : Prop := WFR w.runCounter w

theorem WFrec.mono {R R' : Nat} {r : Rec} (h : WFrec R r) (hle : R ≤ R') : WFrec R' r := by
  obtain ⟨h1, h2, h3, h4⟩ := h
  exact ⟨fun c hc => Nat.le_trans (h1 c hc) hle, fun c hc => Nat.le_trans (h2 c hc) hle,
    fun c hc => Nat.le_trans (h3 c hc) hle, h4⟩

theorem WFrec.default (R : Nat) : WFrec R {} := by
  refine ⟨?_, ?_, ?_, ?_⟩ <;> simp

theorem WFrec.row {R : Nat} {r : Rec} (h : WFrec R r) (n : Nat) : WFrec R { r with row := n } := h

theorem WFrec.setChanged {R : Nat} {r : Rec} (h : WFrec R r) : WFrec R (setChanged r R) := by
  obtain ⟨h1, h2, h3, h4⟩ := h
  refine ⟨?_, h2, ?_, ?_⟩ <;> simp [Deps.setChanged]

theorem WFrec.withStamp {R : Nat} {r : Rec} (h : WFrec R r) (s : Option DStamp) :
    WFrec R (Deps.setChanged { r with stamp := s } R) := by
  obtain ⟨h1, h2, h3, h4⟩ := h
  refine ⟨?_, h2, ?_, ?_⟩ <;> simp [Deps.setChanged]

theorem WFrec.updateStamp {R : Nat} {r : Rec} (h : WFrec R r) (w : World) (f : Nat) :
    WFrec R (updateStamp w f r R) := by
  unfold Deps.updateStamp
  simp only
  split
  · exact h
  · exact h.withStamp _

theorem WFrec.setFailed {R : Nat} {r : Rec} (h : WFrec R r) (w : World) (f : Nat) :
    WFrec R (setFailed w f r R) := by
  obtain ⟨h1, h2, h3, h4⟩ := h.updateStamp w f
  refine ⟨h1, h2, ?_, h4⟩
  simp [Deps.setFailed]

theorem WFrec.setStatic {R : Nat} {r : Rec} (h : WFrec R r) (w : World) (f : Nat) :
    WFrec R (setStatic w f r R) := by
  obtain ⟨h1, h2, h3, h4⟩ := h.updateStamp w f
  refine ⟨h1, h2, ?_, ?_⟩
  · simp [Deps.setStatic]
  · intro hc
    exact ⟨(h4 hc).1, (h4 hc).2.1, rfl⟩

theorem WFrec.setOverride {R : Nat} {r : Rec} (h : WFrec R r) (w : World) (f : Nat) :
    WFrec R (setOverride w f r R) := by
  obtain ⟨h1, h2, h3, h4⟩ := h.updateStamp w f
  refine ⟨h1, h2, ?_, ?_⟩
  · simp [Deps.setOverride]
  · intro hc
    exact ⟨(h4 hc).1, (h4 hc).2.1, rfl⟩

theorem WFrec.stampRec {R : Nat} {r : Rec} (h : WFrec R r) (data : Content) : WFrec R (stampRec r R data) := by
  obtain ⟨h1, h2, h3, h4⟩ := h
  unfold Deps.stampRec
  simp only
  split
  · refine ⟨?_, h2, ?_, ?_⟩ <;> simp [Deps.setChanged]
  · rename_i hc
    refine ⟨h1, ?_, ?_, ?_⟩
    · simp
    · simp
    · intro hn
      have := (h4 hn).2.2
      simp at hc hn
      rw [this] at hc
      cases hc

theorem WFrec.checked {R : Nat} {r : Rec} (h : WFrec R r) (hc : r.changed ≠ none) :
    WFrec R { r with checked := some R } := by
  obtain ⟨h1, h2, h3, h4⟩ := h
  refine ⟨h1, ?_, h3, ?_⟩
  · simp
  · intro hn; exact absurd hn hc

theorem WFrec.unfail {R : Nat} {r : Rec} (h : WFrec R r) :
    WFrec R { r with isGenerated := false, isOverride := false, failed := some 0 } := by
  obtain ⟨h1, h2, h3, h4⟩ := h
  refine ⟨h1, h2, ?_, h4⟩
  simp

theorem WFrec.gen {R : Nat} {r : Rec} (h : WFrec R r) (g o : Bool) :
    WFrec R { r with isGenerated := g, isOverride := o } := h

theorem WFrec.getRec {R : Nat} {w : World} (h : WFR R w) (f : Nat) : WFrec R (getRec w R f) := by
  unfold Deps.getRec
  simp only
  split
  · obtain ⟨h1, h2, h3, h4⟩ := h f
    refine ⟨?_, h2, h3, ?_⟩
    · intro c hc
      simp only [Option.some.injEq] at hc
      subst hc
      split
      · rename_i c' hc'; have := h1 c' hc'; omega
      · omega
    · intro hn; simp at hn
  · exact h f

theorem WFR.setRec {R : Nat} {w : World} (h : WFR R w) (f : Nat) {r : Rec} (hr : WFrec R r) : WFR R (Deps.setRec w f r) := by
  intro x
  simp only [Deps.setRec]
  split
  · exact hr
  · exact h x

theorem WFR.of_recs {R : Nat} {w w' : World} (h : WFR R w) (e : w'.recs = w.recs) : WFR R w' := by
  intro x; rw [e]; exact h x

theorem WFR.addKnown {R : Nat} {w : World} (h : WFR R w) (f : Nat) : WFR R (Deps.addKnown w f) := by
  unfold Deps.addKnown
  split
  · exact h
  · exact (h.setRec f ((h f).row _)).of_recs rfl

theorem WFR.addDep {R : Nat} {w : World} (h : WFR R w) (t s : Nat) (m : Bool) : WFR R (Deps.addDep w t s m) :=
  (h.addKnown s).of_recs rfl

theorem WFR.foldl_addDep {R : Nat} (p : Nat) (m : Bool) : ∀ (ts : List Nat) {w : World}, WFR R w →
    WFR R (ts.foldl (fun w t => Deps.addDep w p t m) w)
  | [], _, h => h
  | t :: ts, _, h => WFR.foldl_addDep p m ts (h.addDep p t m)

theorem WFR.findDoFile {R : Nat} (t : Nat) : ∀ (cs : List Nat) {w : World}, WFR R w → WFR R (Deps.findDoFile t cs w).2
  | [], _, h => h
  | c :: cs, w, h => by
    rw [Deps.findDoFile]
    split
    · exact h.addDep t c true
    · exact WFR.findDoFile t cs (h.addDep t c false)

/-! ### the dirtiness check -/

theorem goDeps_wf {R : Nat} (chk : World → List Nat → Nat → Rec → DR × World × List Nat)
    (hchk : ∀ w c s r, WFR R w → WFrec R r → WFR R (chk w c s r).2.1) (hasCsum : Bool) (f : Nat) :
    ∀ (ds : List (Dep × Rec)) (w : World) (cache must : List Nat), WFR R w → (∀ p ∈ ds, WFrec R p.2) →
      WFR R (goDeps chk hasCsum f ds w cache must).2.1
  | [], w, cache, must, h, _ => by simp [goDeps, h]
  | (d, snap) :: ds, w, cache, must, h, hs => by
    have hsnap : WFrec R snap := hs (d, snap) (by simp)
    have hrest : ∀ p ∈ ds, WFrec R p.2 := fun p hp => hs p (by simp [hp])
    rw [goDeps]
    by_cases hm : d.modeM = true
    · simp only [hm, if_true]
      have h1 := hchk w cache d.source snap h hsnap
      generalize chk w cache d.source snap = r at h1
      obtain ⟨sub, w1, c1⟩ := r
      cases sub with
      | cyclic => exact h1
      | clean => exact goDeps_wf chk hchk hasCsum f ds w1 c1 must h1 hrest
      | dirty => exact h1
      | need ts => exact goDeps_wf chk hchk hasCsum f ds w1 c1 (must ++ ts) h1 hrest
    · simp only [hm, Bool.false_eq_true, if_false]
      split
      · rename_i heq
        split at heq <;> cases heq
        all_goals exact h
      · rename_i heq
        split at heq <;> cases heq
        all_goals exact goDeps_wf chk hchk hasCsum f ds w cache must h hrest
      · rename_i heq
        split at heq <;> cases heq
        all_goals exact h
      · rename_i heq
        split at heq <;> cases heq

theorem depsWithRecs_wf {R : Nat} {w : World} (h : WFR R w) (r : Rec) (f : Nat) :
    ∀ p ∈ depsWithRecs w R r f, WFrec R p.2 := by
  intro p hp
  simp only [depsWithRecs, List.mem_map] at hp
  obtain ⟨d, _, rfl⟩ := hp
  exact WFrec.getRec h _

theorem isDirty_wf {R : Nat} : ∀ (fuel : Nat) (w : World) (cache : List Nat) (f mx : Nat) (seen : List Nat)
    (pre : Option Rec), WFR R w → (∀ s, pre = some s → WFrec R s) →
      WFR R (isDirty false R fuel w cache f mx seen pre).2.1
  | 0, w, cache, f, mx, seen, pre, h, _ => by simpa [isDirty] using h
  | fuel + 1, w, cache, f, mx, seen, pre, h, hp => by
    have hr : WFrec R (pre.getD (getRec w R f)) := by
      cases pre with
      | none => exact WFrec.getRec h f
      | some s => exact hp s rfl
    have hg : ∀ mx' hc o w1 c1, goDeps (fun w2 c2 s snap => isDirty false R fuel w2 c2 s mx' (f :: seen) (some snap)) hc f
        (depsWithRecs w R (pre.getD (getRec w R f)) f) w cache [] = (o, w1, c1) → WFR R w1 := by
      intro mx' hc o w1 c1 e
      have := goDeps_wf (R := R) (fun w2 c2 s snap => isDirty false R fuel w2 c2 s mx' (f :: seen) (some snap))
        (fun w2 c2 s r hw hr => isDirty_wf fuel w2 c2 s mx' (f :: seen) (some r) hw (fun s' hs' => by cases hs'; exact hr))
        hc f (depsWithRecs w R (pre.getD (getRec w R f)) f) w cache [] h (depsWithRecs_wf h _ f)
      rw [e] at this
      exact this
    apply isDirty_cases R fuel w cache f mx seen pre (fun res => WFR R res.2.1) _ rfl
    · intro _; exact h
    · intro _ _; exact h
    · intro _ _ _; exact h
    · intro _ _ _ _ _; exact h
    · intro _ _ _ _ _ _; exact h
    · intro _ _ _ _ _ _ _; exact h
    · intro ch old _ _ _ _ _ _ _
      dsimp only
      split
      · exact h.setRec f hr.unfail
      · exact h
    · intro ch dr w1 c1 _ _ _ _ _ _ e
      exact hg _ _ _ _ _ e
    · intro ch w1 c1 _ _ hc _ _ _ e
      have h1 := hg _ _ _ _ _ e
      refine WFR.setRec ?_ f (hr.checked (by rw [hc]; simp))
      split
      · exact h1.of_recs rfl
      · exact h1

theorem shouldBuild_wf {R : Nat} (cx : Ctx) (hR : cx.runid = R) (fuel t : Nat) (w : World) (h : WFR R w) :
    WFR R (shouldBuild cx fuel t w).2 := by
  unfold shouldBuild
  split
  · exact h
  · simp only
    split
    · exact h
    · subst hR
      have := isDirty_wf (R := cx.runid) fuel w [] t cx.runid [] none h (fun s hs => by cases hs)
      generalize isDirty false cx.runid fuel w [] t cx.runid [] none = res at this
      obtain ⟨dr, w1, c1⟩ := res
      exact this

/-! ### the engine -/

/-- The environment a script's commands run in. -/
def scriptCx (cx : Ctx) (t : Nat) : Ctx :=
  { runid := cx.runid, parent := some t, cycles := t :: cx.cycles, keepGoing := cx.keepGoing, crash := cx.crash }

/-- The environments of the two phases of `redo-unlocked`. -/
def oobCx1 (d : Defects) (cx : Ctx) (t : Nat) : Ctx :=
  { cx with noOob := true, unlocked := false, isRedo := false, cycles := t :: cx.cycles, parent := if d.oobRecordsDepsOnCaller then cx.parent else none }

def oobCx2 (cx : Ctx) : Ctx := { cx with noOob := true, unlocked := true, isRedo := false }

/-- What the well-formedness proof needs from the nested commands. -/
def EngineWF (R : Nat) (E : Engine) : Prop :=
  ∀ (cx : Ctx) (ts : List Nat) (w : World), cx.runid = R → WFR R w → WFR R (E.ifchangeCmd cx ts w).2

theorem cmds_wf {R : Nat} {E : Engine} (hE : EngineWF R E) (cx : Ctx) (t : Nat) (cx' : Ctx) (hR : cx'.runid = R) :
    ∀ (cs : List (List Nat)) (k : Nat) (w : World), WFR R w → WFR R (runScript.cmds E cx t cx' cs k w).2
  | [], k, w, h => by rw [runScript.cmds]; exact h
  | c :: cs, k, w, h => by
    rw [runScript.cmds]
    split
    · exact h
    · have h1 := hE cx' c w hR h
      generalize E.ifchangeCmd cx' c w = res at h1
      obtain ⟨rv, w1⟩ := res
      split
      · rename_i heq; cases heq; exact cmds_wf hE cx t cx' hR cs (k + 1) _ h1
      · rename_i _ heq; cases heq; exact h1

theorem conds_wf {R : Nat} {E : Engine} (hE : EngineWF R E) (t : Nat) (cx' : Ctx) (hR : cx'.runid = R) :
    ∀ (fs : List Nat) (w : World), WFR R w → WFR R (runScript.conds E t cx' fs w).2
  | [], w, h => by rw [runScript.conds]; exact h
  | f :: fs, w, h => by
    rw [runScript.conds]
    split
    · have h1 := hE cx' [f] w hR h
      generalize E.ifchangeCmd cx' [f] w = res at h1
      obtain ⟨rv, w1⟩ := res
      split
      · rename_i heq; cases heq; exact conds_wf hE t cx' hR fs _ h1
      · rename_i _ heq; cases heq; exact h1
    · exact conds_wf hE t cx' hR fs _ (h.addDep t f false)

theorem runScript_wf {R : Nat} {E : Engine} (hE : EngineWF R E) (d : Defects) (cx : Ctx) (hR : cx.runid = R)
    (t : Nat) (sc : Script) (w : World) (h : WFR R w) : WFR R (runScript E d cx t sc w).2.2 := by
  unfold runScript
  simp only
  have h0 : WFR R (if sc.always = true then
      setRec (addDep w t alwaysId true) alwaysId
        (setChanged { ((addDep w t alwaysId true).recs alwaysId) with stamp := some .missing } cx.runid) else w) := by
    split
    · refine WFR.setRec (h.addDep _ _ _) _ ?_
      rw [hR]
      exact ((h.addDep t alwaysId true) alwaysId).withStamp _
    · exact h
  generalize (if sc.always = true then
      setRec (addDep w t alwaysId true) alwaysId
        (setChanged { ((addDep w t alwaysId true).recs alwaysId) with stamp := some .missing } cx.runid) else w) = w0 at h0
  split
  · exact h0
  · have h1 := conds_wf hE t (scriptCx cx t) hR sc.cond _ (WFR.foldl_addDep t false sc.ifcreate h0)
    unfold scriptCx at h1
    generalize runScript.conds E t _ sc.cond _ = res at h1
    obtain ⟨rvc, w1⟩ := res
    dsimp only
    split
    · exact h1
    · have h2 := cmds_wf hE cx t (scriptCx cx t) hR sc.ifchange 0 w1 h1
      unfold scriptCx at h2
      generalize runScript.cmds E cx t _ sc.ifchange 0 w1 = res at h2
      obtain ⟨rv, w2⟩ := res
      dsimp only
      split
      · exact h2
      · repeat' split
        all_goals first
          | exact h2
          | (refine WFR.setRec (h2.addKnown t) t ?_
             rw [hR]
             exact ((h2.addKnown t) t).stampRec _)

theorem WFR.setFile {R : Nat} {w : World} (h : WFR R w) (f : Nat) (n : Option FNode) : WFR R (Deps.setFile w f n) :=
  h.of_recs rfl

theorem recordNewState_wf {R : Nat} (cx : Ctx) (hR : cx.runid = R) (t : Nat) (sf : Rec) (hsf : WFrec R sf)
    (rv : Status) (out : Option Content) (w : World) (h : WFR R w) :
    WFR R (recordNewState cx t sf rv out w).2 := by
  unfold recordNewState
  simp only
  subst hR
  split
  · have hw : ∀ w' : World, w'.recs = w.recs → WFR cx.runid (setRec (zapDeps2 w' t) t
        (if (isCheckedR { (w'.recs t) with isGenerated := true, isOverride := false } cx.runid ||
              isChangedR { (w'.recs t) with isGenerated := true, isOverride := false } cx.runid) = true then
            { (w'.recs t) with isGenerated := true, isOverride := false, stamp := some (readStamp w' t) }
          else setChanged (updateStamp w' t { (w'.recs t) with isGenerated := true, isOverride := false, csum := none }
            cx.runid) cx.runid)) := by
      intro w' e
      have h' : WFR cx.runid w' := h.of_recs e
      refine WFR.setRec (h'.of_recs rfl) t ?_
      split
      · rename_i hc
        obtain ⟨h1, h2, h3, h4⟩ := h' t
        refine ⟨h1, h2, h3, ?_⟩
        intro hn
        exfalso
        simp only at hn
        have := h4 hn
        simp [isCheckedR, isChangedR, hn, this.2.1] at hc
      · refine WFrec.setChanged (WFrec.updateStamp ?_ _ _)
        obtain ⟨h1, h2, h3, h4⟩ := h' t
        exact ⟨h1, h2, h3, fun hn => ⟨(h4 hn).1, (h4 hn).2.1, rfl⟩⟩
    cases out with
    | some c => exact hw _ rfl
    | none => exact hw _ rfl
  · exact WFR.setRec (h.of_recs rfl) t (hsf.setFailed _ _)

theorem startSelf_wf {R : Nat} {E : Engine} (hE : EngineWF R E) (d : Defects) (cx : Ctx) (hR : cx.runid = R)
    (t : Nat) (sf0 : Rec) (hsf : WFrec R sf0) (w : World) (h : WFR R w) :
    WFR R (startSelf E d cx t sf0 w).2 := by
  unfold startSelf
  simp only
  subst hR
  -- the override detection
  have hA : ∀ b : Bool, WFrec cx.runid (if b then (setOverride (ev w (.warnOverride t)) t sf0 cx.runid) else sf0) ∧
      WFR cx.runid (if b then setRec (ev w (.warnOverride t)) t (setOverride (ev w (.warnOverride t)) t sf0 cx.runid) else w) := by
    intro b
    have h1 : WFrec cx.runid (setOverride (ev w (.warnOverride t)) t sf0 cx.runid) := hsf.setOverride _ _
    cases b
    · exact ⟨hsf, h⟩
    · exact ⟨h1, WFR.setRec (h.of_recs rfl) t h1⟩
  generalize hb : (sf0.isGenerated && readStamp w t != .missing &&
      (sf0.isOverride || detectOverride (sf0.stamp.getD .missing) (readStamp w t))) = b
  have hA' := hA b
  have e : (if b = true then
        (setOverride (ev w (.warnOverride t)) t sf0 cx.runid,
          setRec (ev w (.warnOverride t)) t (setOverride (ev w (.warnOverride t)) t sf0 cx.runid))
      else (sf0, w)) =
      ((if b then (setOverride (ev w (.warnOverride t)) t sf0 cx.runid) else sf0),
       (if b then setRec (ev w (.warnOverride t)) t (setOverride (ev w (.warnOverride t)) t sf0 cx.runid) else w)) := by
    cases b <;> rfl
  rw [e]
  generalize (if b then (setOverride (ev w (.warnOverride t)) t sf0 cx.runid) else sf0) = sf at hA'
  generalize (if b then setRec (ev w (.warnOverride t)) t (setOverride (ev w (.warnOverride t)) t sf0 cx.runid) else w) = w1 at hA'
  obtain ⟨hsf1, hw1⟩ := hA'
  dsimp only
  split
  · refine WFR.setRec hw1 t ?_
    split
    · exact hsf1.setStatic _ _
    · exact hsf1
  · have hz : WFR cx.runid (zapDeps1 w1 t) := hw1.of_recs rfl
    have hf := WFR.findDoFile t ((zapDeps1 w1 t).rules t) hz
    generalize Deps.findDoFile t ((zapDeps1 w1 t).rules t) (zapDeps1 w1 t) = res at hf
    obtain ⟨o, w2⟩ := res
    cases o with
    | none =>
      dsimp only
      split
      · exact WFR.setRec hf t (hsf1.setStatic _ _)
      · exact WFR.setRec hf t (hsf1.setFailed _ _)
    | some dof =>
      dsimp only
      have h3 : WFR cx.runid (ev (setRec w2 dof (setStatic w2 dof (w2.recs dof) cx.runid)) (.ran t)) :=
        (WFR.setRec hf dof ((hf dof).setStatic _ _)).of_recs rfl
      generalize ev (setRec w2 dof (setStatic w2 dof (w2.recs dof) cx.runid)) (.ran t) = w3 at h3
      have h4 := runScript_wf hE d cx rfl t (match w3.fs dof with
        | some n => (w3.progs n.content).getD {}
        | none => {}) w3 h3
      generalize runScript E d cx t _ w3 = res at h4
      obtain ⟨rv, out, w4⟩ := res
      dsimp only
      split
      · exact h4
      · exact recordNewState_wf cx rfl t sf hsf1 rv out w4 h4

theorem buildJob_wf {R : Nat} {E : Engine} (hE : EngineWF R E) (d : Defects) (cx : Ctx) (hR : cx.runid = R)
    (fuel t : Nat) (w : World) (h : WFR R w) : WFR R (buildJob E d cx fuel t w).2 := by
  unfold buildJob
  simp only
  have h1 := shouldBuild_wf cx hR fuel t w h
  generalize shouldBuild cx fuel t w = res at h1
  obtain ⟨o, w1⟩ := res
  have hs := startSelf_wf hE d cx hR t (w.recs t) (h t) w1 h1
  cases o with
  | none => exact h1
  | some dr =>
    cases dr with
    | cyclic => exact h1
    | clean => exact h1
    | dirty => exact hs
    | need ts =>
      dsimp only
      split
      · exact hs
      · generalize (if w1.oobRev = true then ts.eraseDups.reverse else ts.eraseDups) = ts'
        have h2 := hE (oobCx1 d cx t) ts' w1 hR h1
        unfold oobCx1 at h2
        generalize E.ifchangeCmd _ ts' w1 = res at h2
        obtain ⟨rv, w2⟩ := res
        split
        · rename_i heq; cases heq
          exact hE (oobCx2 cx) _ _ hR h2
        · rename_i _ heq; cases heq; exact h2

theorem runTargets_wf {R : Nat} {E : Engine} (hE : EngineWF R E) (d : Defects) (cx : Ctx) (hR : cx.runid = R)
    (fuel : Nat) : ∀ (ts seen : List Nat) (e : Bool) (w : World), WFR R w →
      WFR R (runTargets E d cx fuel ts seen e w).2
  | [], _, _, w, h => by rw [runTargets]; exact h
  | t :: ts, seen, e, w, h => by
    rw [runTargets]
    split
    · exact runTargets_wf hE d cx hR fuel ts seen e w h
    · split
      · exact h
      · dsimp only
        split
        · exact h.addKnown t
        · have h1 := buildJob_wf hE d cx hR fuel t _ (h.addKnown t)
          generalize buildJob E d cx fuel t (addKnown w t) = res at h1
          obtain ⟨jr, w1⟩ := res
          cases jr with
          | abort code => exact h1
          | done rv =>
            dsimp only
            split
            · exact h1
            · exact runTargets_wf hE d cx hR fuel ts _ _ w1 h1

theorem ifchangeWith_wf {R : Nat} {E : Engine} (hE : EngineWF R E) (d : Defects) (fuel : Nat) (cx : Ctx)
    (hR : cx.runid = R) (ts : List Nat) (w : World) (h : WFR R w) : WFR R (ifchangeWith E d fuel cx ts w).2 := by
  unfold ifchangeWith
  cases hp : cx.parent with
  | none =>
    simp only [Bool.false_eq_true, if_false]
    exact runTargets_wf hE d cx hR fuel ts [] false _ h
  | some p =>
    simp only
    split
    · exact h
    · refine runTargets_wf hE d cx hR fuel ts [] false _ ?_
      split
      · exact h
      · exact WFR.foldl_addDep _ true ts (h.addKnown _)

theorem engine_wf (R : Nat) (d : Defects) : ∀ n, EngineWF R (engine d n)
  | 0 => fun _ _ _ _ h => h
  | n + 1 => fun cx ts w hR h => ifchangeWith_wf (engine_wf R d n) d (n + 1) cx hR ts w h

/-! ### user operations -/

theorem wf_init (rules : Nat → List Nat) : WF (initWorld rules) := by
  intro f
  simp only [initWorld]
  split
  · refine ⟨?_, ?_, ?_, ?_⟩ <;> simp
  · exact WFrec.default _

theorem WFR.mono {R R' : Nat} {w : World} (h : WFR R w) (hle : R ≤ R') : WFR R' w := fun f => (h f).mono hle

theorem wf_of_wfr {w : World} (h : WFR w.runCounter w) : WF w := h

end RedoModel.Deps.Once
