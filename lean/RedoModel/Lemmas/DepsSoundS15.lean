import RedoModel.Lemmas.DepsSoundS14
/-! `findDoFile`: what it chooses, the rows it adds, the invariant. -/
namespace RedoModel.Deps.S

/-- Shape of the rows `findDoFile` adds for `t`. -/
def DoRow (w : World) (dofo : Option Nat) (d : Dep) : Prop :=
  d.deleteMe = false ∧ (d.modeM = false → existsF w d.source = false) ∧ (d.modeM = true → dofo = some d.source)

theorem findDoFile_keeps (t s : Nat) : ∀ (cs : List Nat) (w : World), HasRowU w t s false → existsF w s = false →
    HasRowU (findDoFile t cs w).2 t s false
  | [], w, h, _ => by simpa [findDoFile] using h
  | c :: cs, w, h, hs => by
    rw [findDoFile]
    by_cases e : c = s
    · subst e
      simp only [hs, Bool.false_eq_true, if_false]
      exact findDoFile_keeps t c cs _ (addDep_hasRowU_new w t c false)
        (by rw [(RowOp.addDep w t c false).existsF]; exact hs)
    · have hk : ∀ m, HasRowU (addDep w t c m) t s false := fun m => addDep_hasRowU_keep h (fun ⟨_, h2⟩ => e h2.symm)
      split
      · exact hk true
      · exact findDoFile_keeps t s cs _ (hk false) (by rw [(RowOp.addDep w t c false).existsF]; exact hs)

theorem findDoFile_spec {rank R X t} (hX : X t) :
    ∀ (cs : List Nat) (w : World), Inv rank R X w → ¬ Good w R t → (∀ c ∈ cs, rank c < rank t ∧ w.rules c = []) →
      (findDoFile t cs w).1 = firstEx w cs ∧ Inv rank R X (findDoFile t cs w).2 ∧ RowOp t w (findDoFile t cs w).2 ∧
      (∀ d ∈ (findDoFile t cs w).2.deps, d.target = t → d ∈ w.deps ∨ DoRow w (firstEx w cs) d) ∧
      (∀ pre dof post, cs = pre ++ dof :: post → (∀ c ∈ pre, existsF w c = false) → existsF w dof = true →
        (∀ c ∈ pre, HasRowU (findDoFile t cs w).2 t c false) ∧ HasRowU (findDoFile t cs w).2 t dof true)
  | [], w, hi, _, _ => by
    simp only [findDoFile, firstEx]
    refine ⟨trivial, hi, RowOp.refl t w, fun d hd _ => Or.inl hd, ?_⟩
    intro pre dof post h; simp at h
  | c :: cs, w, hi, hng, hcs => by
    obtain ⟨hlt, hpl⟩ := hcs c (by simp)
    rw [findDoFile]
    simp only [firstEx]
    cases hex : existsF w c with
    | true =>
      simp only [if_true]
      refine ⟨trivial, Inv_addDep hi hX hng hlt (fun h => by cases h), RowOp.addDep w t c true, ?_, ?_⟩
      · intro d hd _
        rcases addDep_mem hd with rfl | ⟨h, _⟩
        · exact Or.inr ⟨rfl, (fun h => by cases h), fun _ => rfl⟩
        · exact Or.inl h
      · intro pre dof post h hpre hdof
        cases pre with
        | nil =>
          simp only [List.nil_append, List.cons.injEq] at h
          obtain ⟨rfl, _⟩ := h
          exact ⟨fun c hc => by simp at hc, addDep_hasRowU_new w t c true⟩
        | cons p pre =>
          simp only [List.cons_append, List.cons.injEq] at h
          obtain ⟨rfl, _⟩ := h
          have := hpre c (by simp); rw [hex] at this; cases this
    | false =>
      simp only [Bool.false_eq_true, if_false]
      have hro := RowOp.addDep w t c false
      have hi1 := Inv_addDep (m := false) hi hX hng hlt (fun _ => hpl)
      have hng1 : ¬ Good (addDep w t c false) R t := fun h => hng ((hro.good R t).1 h)
      obtain ⟨h1, h2, h3, h4, h5⟩ := findDoFile_spec hX cs (addDep w t c false) hi1 hng1
        (fun c' hc' => ⟨(hcs c' (List.mem_cons_of_mem _ hc')).1, by rw [hro.rules]; exact (hcs c' (List.mem_cons_of_mem _ hc')).2⟩)
      have hfe : firstEx (addDep w t c false) cs = firstEx w cs := firstEx_congr cs (fun x _ => congrFun hro.fs x)
      refine ⟨by rw [h1, hfe], h2, hro.trans h3, ?_, ?_⟩
      · intro d hd hdt
        rcases h4 d hd hdt with h | ⟨a, b, c'⟩
        · rcases addDep_mem h with rfl | ⟨h, _⟩
          · exact Or.inr ⟨rfl, (fun _ => hex), (fun h => by cases h)⟩
          · exact Or.inl h
        · exact Or.inr ⟨a, fun hm => by rw [← hro.existsF]; exact b hm, fun hm => by rw [← hfe]; exact c' hm⟩
      · intro pre dof post h hpre hdof
        cases pre with
        | nil =>
          simp only [List.nil_append, List.cons.injEq] at h
          obtain ⟨rfl, _⟩ := h
          rw [hex] at hdof; cases hdof
        | cons p pre =>
          simp only [List.cons_append, List.cons.injEq] at h
          obtain ⟨rfl, rfl⟩ := h
          obtain ⟨h6, h7⟩ := h5 pre dof post rfl
            (fun c' hc' => by rw [hro.existsF]; exact hpre c' (List.mem_cons_of_mem _ hc'))
            (by rw [hro.existsF]; exact hdof)
          refine ⟨fun c' hc' => ?_, h7⟩
          rcases List.mem_cons.1 hc' with rfl | hc'
          · exact findDoFile_keeps t c' _ _ (addDep_hasRowU_new w t c' false) (by rw [hro.existsF]; exact hex)
          · exact h6 c' hc' 

end RedoModel.Deps.S
