import RedoModel.Lemmas.DepsFuel1
import RedoModel.Lemmas.DepsFuel2
import RedoModel.Lemmas.DepsFuel3
import RedoModel.Lemmas.DepsFuel4
import RedoModel.Lemmas.DepsFuel5
import RedoModel.Lemmas.DepsFuel6
import RedoModel.Lemmas.DepsFuel7
import RedoModel.Lemmas.DepsFuel8
/-!
# C12 — fuel is an artefact, cycles are reported: the lemma files

* `DepsFuel1` — `isDirty`: the recursion depth is bounded by the number of distinct files; the fuel-0 answer is
  never consulted (`isDirtyFrom_eq_isDirty`, `isDirty_fuel_irrelevant`), `need` lists name walked files only,
  no `need` without checksums (`isDirty_nocsum`).
* `DepsFuel2` — `engineFrom base` (the engine over an arbitrary innermost level); refusal of ancestors: status 208 / non-zero.
* `DepsFuel3` — a failing nested command fails the script, the job (`ssBuild_nonzero`), with the frame `Desc`.
* `DepsFuel4` — `Forced`, the step `buildJob_forced`, and the chain theorem `lasso_runTargets` / `lasso_fails`.
* `DepsFuel5` — the invariant `WInv nc N` (all ids below `N`; `nc = true`: moreover no checksums, no `redo-stamp`)
  and agreement of two engines at script level.
* `DepsFuel6` — … at job / target-list / command level; contexts `CtxOK`, their level `lvl`.
* `DepsFuel7` — `engineFrom_base_irrelevant` (A), `engineFrom_fuel_irrelevant` (B), top-level corollaries.
* `DepsFuel8` — `redo-ood`: `oodWith_fuel`.
-/
