import RedoModel.Lemmas.DepsShift2
set_option linter.unusedSimpArgs false
/-!
# Run-id shift — part 3: jobs, target lists, the engine
-/
namespace RedoModel.Deps
open RedoModel.Generated

theorem shCx_runid {R : Nat} (cx : Ctx) (hcx : cx.runid = R) : (shCx cx).runid = R + 1 := by
  simp [shCx, hcx]

/-! ### `record_new_state`, cut into pieces -/

def genRec (r : Rec) : Rec := { r with isGenerated := true, isOverride := false }
def withStamp (r : Rec) (s : DStamp) : Rec := { r with stamp := some s }
def noCsum (r : Rec) : Rec := { r with csum := none }

def rnsOut (t : Nat) (out : Option Content) (w : World) : World :=
  match out with
  | some c => let (n, w) := newNode w c; setFile w t (some n)
  | none => setFile w t none

def rnsOk (R t : Nat) (w : World) : Status × World :=
  let sf := genRec (w.recs t)
  let sf := if isCheckedR sf R || isChangedR sf R then withStamp sf (readStamp w t)
    else setChanged (updateStamp w t (noCsum sf) R) R
  (0, setRec (zapDeps2 w t) t sf)

theorem recordNewState_eq (cx : Ctx) (t : Nat) (sfPre : Rec) (rv : Status) (out : Option Content) (w : World) :
    recordNewState cx t sfPre rv out w =
      if rv = 0 then rnsOk cx.runid t (rnsOut t out w)
      else (rv, setRec (zapDeps2 w t) t (setFailed w t sfPre cx.runid)) := by
  unfold recordNewState
  split <;> rfl

theorem rnsOut_sh (R t : Nat) (out : Option Content) (w : World) :
    rnsOut t out (shW R w) = shW R (rnsOut t out w) := by
  cases out <;> rfl

theorem rnsOk_sh {R : Nat} (hR : 0 < R) (t : Nat) (w : World) :
    rnsOk (R + 1) t (shW R w) = sh2 R (rnsOk R t w) := by
  unfold rnsOk
  have e1 : genRec ((shW R w).recs t) = shRec R (genRec (w.recs t)) := rfl
  have e2 : ∀ r s, withStamp (shRec R r) s = shRec R (withStamp r s) := fun _ _ => rfl
  have e3 : ∀ r, noCsum (shRec R r) = shRec R (noCsum r) := fun _ => rfl
  simp only [e1, isCheckedR_sh hR, isChangedR_sh hR, readStamp_sh, e2, e3, updateStamp_sh, setChanged_sh, zapDeps2_sh]
  by_cases hck : (isCheckedR (genRec (w.recs t)) R || isChangedR (genRec (w.recs t)) R) = true
  · simp only [hck, if_true, setRec_sh]; rfl
  · simp only [hck, Bool.false_eq_true, if_false, setRec_sh]; rfl

theorem recordNewState_sh {R : Nat} (hR : 0 < R) (cx : Ctx) (hcx : cx.runid = R) (t : Nat) (sfPre : Rec)
    (rv : Status) (out : Option Content) (w : World) :
    recordNewState (shCx cx) t (shRec R sfPre) rv out (shW R w) = sh2 R (recordNewState cx t sfPre rv out w) := by
  rw [recordNewState_eq, recordNewState_eq, shCx_runid cx hcx, hcx]
  by_cases hrv : rv = 0
  · simp only [hrv, if_true, rnsOut_sh]
    exact rnsOk_sh hR t _
  · simp only [hrv, if_false]
    rw [setFailed_sh, zapDeps2_sh, setRec_sh]; rfl

/-! ### `start_self`, cut into pieces -/

/-- The override detection at the start of a job. -/
def ssPhase1 (R t : Nat) (sf : Rec) (w : World) : Rec × World :=
  let ns := readStamp w t
  if sf.isGenerated && ns != .missing && (sf.isOverride || detectOverride (sf.stamp.getD .missing) ns) then
    let w := ev w (.warnOverride t)
    let sf := setOverride w t sf R
    (sf, setRec w t sf)
  else (sf, w)

/-- Running the chosen .do file and recording the result. -/
def ssRun (E : Engine) (d : Defects) (cx : Ctx) (t : Nat) (sf : Rec) (dof : Nat) (w : World) : Status × World :=
  let w := setRec w dof (setStatic w dof (w.recs dof) cx.runid)
  let w := ev w (.ran t)
  let sc : Script := match w.fs dof with
    | some n => (w.progs n.content).getD {}
    | none => {}
  match runScript E d cx t sc w with
  | (rv, out, w) => if rv = CRASHED then (CRASHED, w) else recordNewState cx t sf rv out w

def ssPhase2 (E : Engine) (d : Defects) (cx : Ctx) (t : Nat) (sf : Rec) (w : World) : Status × World :=
  let R := cx.runid
  if existsF w t && (sf.isOverride || !sf.isGenerated) then
    let sf := if !sf.isOverride then setStatic w t sf R else sf
    (0, setRec w t sf)
  else
    let w := zapDeps1 w t
    match findDoFile t (w.rules t) w with
    | (none, w) =>
      if existsF w t then (0, setRec w t (setStatic w t sf R))
      else (1, setRec w t (setFailed w t sf R))
    | (some dof, w) => ssRun E d cx t sf dof w

theorem startSelf_eq2 (E : Engine) (d : Defects) (cx : Ctx) (t : Nat) (sf0 : Rec) (w : World) :
    startSelf E d cx t sf0 w = ssPhase2 E d cx t (ssPhase1 cx.runid t sf0 w).1 (ssPhase1 cx.runid t sf0 w).2 := by
  unfold startSelf ssPhase1
  dsimp only
  split <;> rfl

theorem ssPhase1_sh (R t : Nat) (sf : Rec) (w : World) :
    ssPhase1 (R + 1) t (shRec R sf) (shW R w) = (shRec R (ssPhase1 R t sf w).1, shW R (ssPhase1 R t sf w).2) := by
  unfold ssPhase1
  simp only [readStamp_sh, shRec_isGenerated, shRec_isOverride, shRec_stamp, ev_sh, setOverride_sh]
  split
  · dsimp only
    rw [setRec_sh]
  · rfl

theorem ssRun_sh {R : Nat} (hR : 0 < R) {EA EB : Engine} (hE : EngSh R EA EB) (d : Defects) (cx : Ctx)
    (hcx : cx.runid = R) (t : Nat) (sf : Rec) (dof : Nat) (w : World) :
    ssRun EB d (shCx cx) t (shRec R sf) dof (shW R w) = sh2 R (ssRun EA d cx t sf dof w) := by
  unfold ssRun
  rw [shCx_runid cx hcx, hcx]
  simp only [shW_recs, setStatic_sh, setRec_sh, ev_sh, shW_fs, shW_progs]
  rw [runScript_sh hE d cx hcx]
  generalize runScript EA d cx t _ _ = r
  obtain ⟨rv, out, w1⟩ := r
  simp only [sh3s]
  by_cases hcr : rv = CRASHED
  · simp only [hcr, if_true]; rfl
  · simp only [hcr, if_false]
    exact recordNewState_sh hR cx hcx t sf rv out w1

theorem ssPhase2_sh {R : Nat} (hR : 0 < R) {EA EB : Engine} (hE : EngSh R EA EB) (d : Defects) (cx : Ctx)
    (hcx : cx.runid = R) (t : Nat) (sf : Rec) (w : World) :
    ssPhase2 EB d (shCx cx) t (shRec R sf) (shW R w) = sh2 R (ssPhase2 EA d cx t sf w) := by
  unfold ssPhase2
  rw [shCx_runid cx hcx, hcx]
  simp only [existsF_sh, shRec_isOverride, shRec_isGenerated, setStatic_sh, zapDeps1_sh, shW_rules]
  by_cases h1 : (existsF w t && (sf.isOverride || !sf.isGenerated)) = true
  · simp only [h1, if_true]
    split
    · rw [setRec_sh]; rfl
    · rw [setRec_sh]; rfl
  · simp only [h1, Bool.false_eq_true, if_false]
    rw [findDoFile_sh]
    generalize findDoFile t ((zapDeps1 w t).rules t) (zapDeps1 w t) = r
    obtain ⟨o, w1⟩ := r
    cases o with
    | none =>
      simp only [sh2, existsF_sh, setStatic_sh, setFailed_sh, setRec_sh]
      split <;> rfl
    | some dof =>
      simp only [sh2]
      exact ssRun_sh hR hE d cx hcx t sf dof w1

theorem startSelf_sh {R : Nat} (hR : 0 < R) {EA EB : Engine} (hE : EngSh R EA EB) (d : Defects) (cx : Ctx)
    (hcx : cx.runid = R) (t : Nat) (sf0 : Rec) (w : World) :
    startSelf EB d (shCx cx) t (shRec R sf0) (shW R w) = sh2 R (startSelf EA d cx t sf0 w) := by
  rw [startSelf_eq2, startSelf_eq2, shCx_runid cx hcx, hcx, ssPhase1_sh]
  exact ssPhase2_sh hR hE d cx hcx t _ _

/-! ### Jobs, target lists, commands -/

/-- The two environments `redo-unlocked` runs its `redo-ifchange` commands in. -/
def oobCx1 (d : Defects) (cx : Ctx) (t : Nat) : Ctx :=
  { cx with noOob := true, unlocked := false, isRedo := false, cycles := t :: cx.cycles, parent := if d.oobRecordsDepsOnCaller then cx.parent else none }

def oobCx2 (cx : Ctx) : Ctx := { cx with noOob := true, unlocked := true, isRedo := false }

def oobOrder (w : World) (ts : List Nat) : List Nat := if w.oobRev then ts.eraseDups.reverse else ts.eraseDups

/-- `redo-unlocked t deps…`. -/
def oobRun (E : Engine) (d : Defects) (cx : Ctx) (t : Nat) (ts : List Nat) (w : World) : JobResult × World :=
  match E.ifchangeCmd (oobCx1 d cx t) (oobOrder w ts) w with
  | (0, w1) =>
    let r := E.ifchangeCmd (oobCx2 cx) (if d.oobRebuildsDepsNotTarget then oobOrder w ts else [t]) w1
    (.done r.1, r.2)
  | (rv, w1) => (.done rv, w1)

theorem buildJob_eq (E : Engine) (d : Defects) (cx : Ctx) (fuel t : Nat) (w : World) :
    buildJob E d cx fuel t w =
      match shouldBuild cx fuel t w with
      | (none, w1) => (if d.failedTargetAbortsRun then .abort EXIT_TARGET_FAILED else .done EXIT_TARGET_FAILED, w1)
      | (some .cyclic, w1) => (.abort EXIT_CYCLIC_DEPENDENCY, w1)
      | (some .clean, w1) => (.done 0, w1)
      | (some .dirty, w1) => (.done (startSelf E d cx t (w.recs t) w1).1, (startSelf E d cx t (w.recs t) w1).2)
      | (some (.need ts), w1) =>
        if cx.noOob then (.done (startSelf E d cx t (w.recs t) w1).1, (startSelf E d cx t (w.recs t) w1).2)
        else oobRun E d cx t ts w1 := by
  unfold buildJob
  generalize shouldBuild cx fuel t w = r
  obtain ⟨o, w1⟩ := r
  cases o with
  | none => rfl
  | some dr =>
    cases dr with
    | cyclic => rfl
    | clean => rfl
    | dirty => rfl
    | need ts =>
      dsimp only
      split
      · rfl
      · unfold oobRun oobOrder oobCx1 oobCx2
        dsimp only
        split <;> simp_all

theorem oobRun_sh {R : Nat} {EA EB : Engine} (hE : EngSh R EA EB) (d : Defects) (cx : Ctx)
    (hcx : cx.runid = R) (t : Nat) (ts : List Nat) (w : World) :
    oobRun EB d (shCx cx) t ts (shW R w) = sh2 R (oobRun EA d cx t ts w) := by
  unfold oobRun
  have e0 : oobOrder (shW R w) ts = oobOrder w ts := rfl
  have e2 : oobCx1 d (shCx cx) t = shCx (oobCx1 d cx t) := rfl
  have e3 : oobCx2 (shCx cx) = shCx (oobCx2 cx) := rfl
  rw [e0, e2, e3, hE _ _ _ (show (oobCx1 d cx t).runid = R from hcx)]
  generalize EA.ifchangeCmd (oobCx1 d cx t) (oobOrder w ts) w = r1
  obtain ⟨rv, w2⟩ := r1
  by_cases hrv : rv = 0
  · subst hrv
    simp only [sh2]
    rw [hE _ _ _ (show (oobCx2 cx).runid = R from hcx)]
    rfl
  · simp only [sh2]

theorem buildJob_sh {R : Nat} (hR : 0 < R) {EA EB : Engine} (hE : EngSh R EA EB) (d : Defects) (cx : Ctx)
    (hcx : cx.runid = R) (fuel t : Nat) (w : World) :
    buildJob EB d (shCx cx) fuel t (shW R w) = sh2 R (buildJob EA d cx fuel t w) := by
  rw [buildJob_eq, buildJob_eq, shouldBuild_sh hR cx hcx]
  simp only [shW_recs]
  generalize shouldBuild cx fuel t w = r
  obtain ⟨o, w1⟩ := r
  cases o with
  | none => rfl
  | some dr =>
    cases dr with
    | cyclic => rfl
    | clean => rfl
    | dirty =>
      simp only [sh2]
      rw [startSelf_sh hR hE d cx hcx]
      rfl
    | need ts =>
      simp only [sh2]
      have e1 : (shCx cx).noOob = cx.noOob := rfl
      rw [e1]
      by_cases hno : cx.noOob = true
      · simp only [hno, if_true]
        rw [startSelf_sh hR hE d cx hcx]
        rfl
      · simp only [hno, Bool.false_eq_true, if_false]
        exact oobRun_sh hE d cx hcx t ts w1

theorem runTargets_sh {R : Nat} (hR : 0 < R) {EA EB : Engine} (hE : EngSh R EA EB) (d : Defects) (cx : Ctx)
    (hcx : cx.runid = R) (fuel : Nat) :
    ∀ (ts seen : List Nat) (errored : Bool) (w : World),
      runTargets EB d (shCx cx) fuel ts seen errored (shW R w) = sh2 R (runTargets EA d cx fuel ts seen errored w)
  | [], seen, errored, w => by rw [runTargets, runTargets]; rfl
  | t :: ts, seen, errored, w => by
    rw [runTargets, runTargets]
    have e1 : (shCx cx).keepGoing = cx.keepGoing := rfl
    have e2 : (shCx cx).unlocked = cx.unlocked := rfl
    have e3 : (shCx cx).cycles = cx.cycles := rfl
    rw [e1, e2, e3]
    by_cases hseen : t ∈ seen
    · simp only [hseen, if_true]
      exact runTargets_sh hR hE d cx hcx fuel ts seen errored w
    simp only [hseen, if_false]
    by_cases herr : (errored && !cx.keepGoing) = true
    · simp only [herr, if_true]; rfl
    simp only [herr, Bool.false_eq_true, if_false, addKnown_sh]
    by_cases hcyc : (!cx.unlocked && decide (t ∈ cx.cycles)) = true
    · simp only [hcyc, if_true]; rfl
    simp only [hcyc, Bool.false_eq_true, if_false]
    rw [buildJob_sh hR hE d cx hcx]
    generalize buildJob EA d cx fuel t (addKnown w t) = r
    obtain ⟨jr, w1⟩ := r
    cases jr with
    | abort code => rfl
    | done rv =>
      simp only [sh2]
      by_cases hcr : rv = CRASHED
      · simp only [hcr, if_true]
      · simp only [hcr, if_false]
        exact runTargets_sh hR hE d cx hcx fuel ts (t :: seen) _ w1

theorem foldl_addDepM_sh (R p : Nat) : ∀ (ts : List Nat) (w : World),
    ts.foldl (fun w t => addDep w p t true) (shW R w) = shW R (ts.foldl (fun w t => addDep w p t true) w)
  | [], w => rfl
  | a :: ts, w => by
    simp only [List.foldl_cons, addDep_sh]
    exact foldl_addDepM_sh R p ts _

theorem ifchangeWith_sh {R : Nat} (hR : 0 < R) {EA EB : Engine} (hE : EngSh R EA EB) (d : Defects) (fuel : Nat)
    (cx : Ctx) (hcx : cx.runid = R) (ts : List Nat) (w : World) :
    ifchangeWith EB d fuel (shCx cx) ts (shW R w) = sh2 R (ifchangeWith EA d fuel cx ts w) := by
  unfold ifchangeWith
  have e1 : (shCx cx).parent = cx.parent := rfl
  have e2 : (shCx cx).unlocked = cx.unlocked := rfl
  rw [e1, e2]
  cases hp : cx.parent with
  | none =>
    simp only [Bool.false_eq_true, if_false]
    exact runTargets_sh hR hE d cx hcx fuel ts [] false w
  | some p =>
    dsimp only
    by_cases hc : (!cx.unlocked && ts.contains p) = true
    · simp only [hc, if_true]; rfl
    · simp only [hc, Bool.false_eq_true, if_false]
      by_cases hu : cx.unlocked = true
      · simp only [hu, if_true]
        exact runTargets_sh hR hE d cx hcx fuel ts [] false w
      · simp only [hu, Bool.false_eq_true, if_false]
        rw [addKnown_sh, foldl_addDepM_sh]
        exact runTargets_sh hR hE d cx hcx fuel ts [] false _

theorem engine_sh {R : Nat} (hR : 0 < R) (d : Defects) : ∀ n, EngSh R (engine d n) (engine d n)
  | 0 => fun _ _ _ _ => rfl
  | n + 1 => fun cx ts w hcx => by
    simp only [engine]
    exact ifchangeWith_sh hR (engine_sh hR d n) d (n + 1) cx hcx ts w

end RedoModel.Deps
