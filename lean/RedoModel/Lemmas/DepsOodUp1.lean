import RedoModel.Lemmas.DepsOodUp0
/-!
# redo-ood, upper bound — part 1: `PC` ⇒ redo-ood's walk answers "clean"; what redo-ood lists has no `PC` derivation
-/
namespace RedoModel.Deps

theorem goDeps_ood_clean (w : World) (R : Nat) (chk : World → List Nat → Nat → Rec → DR × World × List Nat)
    (hasCsum : Bool) (f : Nat) :
    ∀ (ds : List (Dep × Rec)) (w' : World) (cache : List Nat), OInv w w' R →
      (∀ p ∈ ds, (p.1.modeM = true → ∀ w'' c, OInv w w'' R →
            (chk w'' c p.1.source p.2).1 = .clean ∧ OInv w (chk w'' c p.1.source p.2).2.1 R) ∧
          (p.1.modeM = false → existsF w p.1.source = false)) →
      (goDeps chk hasCsum f ds w' cache []).1 = none ∧ OInv w (goDeps chk hasCsum f ds w' cache []).2.1 R
  | [], w', cache, hi, _ => by
    rw [goDeps]
    exact ⟨rfl, hi⟩
  | (d, snap) :: ds, w', cache, hi, hds => by
    have hds' : ∀ p ∈ ds, _ := fun p hp => hds p (List.mem_cons_of_mem _ hp)
    have h0 := hds (d, snap) List.mem_cons_self
    rw [goDeps]
    by_cases hm : d.modeM = true
    · simp only [hm, if_true]
      have h1 := h0.1 hm w' cache hi
      generalize chk w' cache d.source snap = r at h1
      obtain ⟨sub, w1, c1⟩ := r
      obtain ⟨hcl, hi1⟩ := h1
      dsimp only at hcl hi1 ⊢
      subst hcl
      exact goDeps_ood_clean w R chk hasCsum f ds w1 c1 hi1 hds'
    · simp only [hm, Bool.false_eq_true, if_false]
      have hex : existsF w' d.source = false := by
        rw [hi.toOod.ex]; exact h0.2 (by simpa using hm)
      simp only [hex, Bool.false_eq_true, if_false]
      exact goDeps_ood_clean w R chk hasCsum f ds w' cache hi hds'

/-- **A file with a `PC` derivation is found clean by redo-ood's walk**, wherever in the loop it is asked. -/
theorem isDirty_ood_clean (w : World) (R : Nat) {Fu : Nat → List Nat → Nat → Prop} (hF : FuelCert w R Fu)
    {f mx : Nat} (h : PC w R f mx) :
    ∀ (fuel : Nat) (w' : World) (cache seen : List Nat) (pre : Option Rec),
      OInv w w' R → (∀ s, pre = some s → ORec w R f s) → Fu fuel seen f →
      (isDirty true R fuel w' cache f mx seen pre).1 = .clean ∧
      OInv w (isDirty true R fuel w' cache f mx seen pre).2.1 R := by
  induction h with
  | mk f mx ch hfail hch hle hst hm hc ih =>
    intro fuel w' cache seen pre hi hpre hfu
    have hpc : PC w R f mx := PC.mk f mx ch hfail hch hle hst hm hc
    refine ⟨?_, isDirty_ood_oinv w R fuel w' cache f mx seen pre hi hpre⟩
    obtain ⟨hns, hf0⟩ := hF.enter hfu hpc
    obtain ⟨fuel, rfl⟩ : ∃ k, fuel = k + 1 := ⟨fuel - 1, by omega⟩
    have hr : ORec w R f (pre.getD (getRec w' R f)) := by
      cases pre with
      | none => exact hi.recOk f
      | some s => exact hpre s rfl
    have hre : pre.getD (getRec w' R f) = getRec w R f := by
      rcases hr with h | h
      · exact h
      · exact absurd hst h.2
    simp (config := { zeta := true, zetaHave := true }) only [isDirty, ↓reduceIte, hns, hre]
    have hrs : (getRec w R f).stamp = some (readStamp w' f) := by rw [hi.toOod.rs]; exact hst
    simp only [hfail, Option.isSome_none, Bool.false_eq_true, if_false, hch]
    have hgt : ¬ ch > mx := by omega
    simp only [hgt, if_false]
    split
    · rfl
    simp only [hrs, ne_eq, not_true_eq_false, if_false]
    have hgd := goDeps_ood_clean w R
      (fun w2 cache s snap => isDirty true R fuel w2 cache s (max ch ((getRec w R f).checked.getD 0)) (f :: seen) (some snap))
      (getRec w R f).csum.isSome f (depsWithRecs w' R (getRec w R f) f) w' cache hi
      (by
        intro p hp
        simp only [depsWithRecs, List.mem_map] at hp
        obtain ⟨d, hd, rfl⟩ := hp
        rw [hi.toOod.dp] at hd
        refine ⟨fun hmode w'' c hi'' => ?_, fun hmode => hc d hd hmode⟩
        exact ih d hd hmode fuel w'' c (f :: seen) (some (getRec w' R d.source)) hi''
          (fun s hs => by cases hs; exact hi.recOk d.source) (hF.child hfu hpc ⟨d, hd, hmode, rfl⟩))
    generalize goDeps _ (getRec w R f).csum.isSome f (depsWithRecs w' R (getRec w R f) f) w' cache [] = gr at hgd
    obtain ⟨o, w2, c2⟩ := gr
    obtain ⟨ho, _⟩ := hgd
    dsimp only at ho
    subst ho
    rfl

/-- Everything the loop of `redo-ood` adds to its output has no `PC` derivation. -/
theorem go_listed_notPC (w : World) (R fuel : Nat) {Fu : Nat → List Nat → Nat → Prop} (hF : FuelCert w R Fu) :
    ∀ (fs : List Nat) (w' : World) (cache acc : List Nat), OInv w w' R → (∀ t ∈ fs, Fu fuel [] t) →
      ∀ x ∈ (runCmd.go R fuel fs w' cache acc).1, x ∈ acc ∨ (x ∈ fs ∧ ¬ PC w R x R)
  | [], w', cache, acc, _, _, x, hx => by
    rw [runCmd.go] at hx
    exact Or.inl (by simpa using hx)
  | f :: fs, w', cache, acc, hi, hfu, x, hx => by
    rw [runCmd.go] at hx
    have hfr := isDirty_ood_oinv w R fuel w' cache f R [] none hi (fun s hs => by cases hs)
    have hcl : PC w R f R → (isDirty true R fuel w' cache f R [] none).1 = .clean := fun hpc =>
      (isDirty_ood_clean w R hF hpc fuel w' cache [] none hi (fun s hs => by cases hs) (hfu f List.mem_cons_self)).1
    generalize isDirty true R fuel w' cache f R [] none = r at hx hfr hcl
    obtain ⟨dr, w1, c1⟩ := r
    dsimp only at hx hfr hcl
    have ih := go_listed_notPC w R fuel hF fs w1 c1 (if dr = .clean then acc else f :: acc) hfr
      (fun t ht => hfu t (List.mem_cons_of_mem _ ht)) x hx
    rcases ih with h | ⟨h1, h2⟩
    · split at h
      · exact Or.inl h
      · rename_i hne
        rcases List.mem_cons.1 h with rfl | h
        · exact Or.inr ⟨List.mem_cons_self, fun hpc => hne (hcl hpc)⟩
        · exact Or.inl h
    · exact Or.inr ⟨List.mem_cons_of_mem _ h1, h2⟩

/-- **What `redo-ood` lists has no `PC` derivation** (and is a known target below `n`). -/
theorem ood_listed_notPC (d : Defects) (n : Nat) (w : World) {Fu : Nat → List Nat → Nat → Prop}
    (hF : FuelCert { w with runCounter := w.runCounter + 1 } (w.runCounter + 1) Fu)
    (hfu : ∀ t, t < n → Fu (2 * n + 4) [] t) (t : Nat) (ht : t ∈ (runCmd d n .ood w).1.listing) :
    (t < n ∧ known w t = true ∧ isTarget w (w.runCounter + 1) t = true) ∧ ¬ PC w (w.runCounter + 1) t (w.runCounter + 1) := by
  rw [ood_listing_eq] at ht
  have := go_listed_notPC { w with runCounter := w.runCounter + 1 } (w.runCounter + 1) (2 * n + 4) hF _ _ [] []
    (OInv.refl _ _) (fun t ht => by
      simp only [knownFiles, List.mem_filter, List.mem_range] at ht
      exact hfu t ht.1.1) t ht
  rcases this with h | ⟨h1, h2⟩
  · cases h
  · simp only [knownFiles, List.mem_filter, List.mem_range] at h1
    refine ⟨⟨h1.1.1, ?_, ?_⟩, fun hpc => h2 (PC.congr (w := w) (w2 := { w with runCounter := w.runCounter + 1 }) rfl rfl rfl hpc)⟩
    · rw [← known_congr (w := w) (w2 := { w with runCounter := w.runCounter + 1 }) rfl]; exact h1.1.2
    · rw [← isTarget_congr (w := w) (w2 := { w with runCounter := w.runCounter + 1 }) rfl rfl]; exact h1.2

end RedoModel.Deps
