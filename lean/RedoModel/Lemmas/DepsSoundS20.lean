import RedoModel.Lemmas.DepsSoundS19
/-! Pieces of `ssBuild`: the record and file of the target stay put while its script runs. -/
namespace RedoModel.Deps.S

/-- The record (up to `row`) and the file of `t` are the same in both worlds. -/
structure SameT (t : Nat) (w w' : World) : Prop where
  flds : Flds (w'.recs t) (w.recs t)
  fs : w'.fs t = w.fs t

theorem SameT.refl (t : Nat) (w : World) : SameT t w w := ⟨Flds.refl _, rfl⟩
theorem SameT.trans {t a b c} (h1 : SameT t a b) (h2 : SameT t b c) : SameT t a c :=
  ⟨h2.flds.trans h1.flds, h2.fs.trans h1.fs⟩

theorem WEqv.sameT {w w'} (h : WEqv w w') (t : Nat) : SameT t w w' :=
  ⟨⟨h.gen t, h.ovr t, h.checked t, h.changed t, h.failed t, h.stamp t, h.csum t⟩, congrFun h.fs t⟩

theorem RowOp.sameT {t' w w'} (h : RowOp t' w w') (t : Nat) : SameT t w w' := by
  have e := h.eqv
  exact ⟨⟨e.gen t, e.ovr t, e.checked t, e.changed t, e.failed t, e.stamp t, e.csum t⟩, congrFun e.fs t⟩

theorem BExt.sameT {rank R b po w w'} (h : BExt rank R b po w w') {t : Nat} (ht : b ≤ rank t) : SameT t w w' := by
  obtain ⟨a1, a2, a3, a4, a5, a6, a7, a8⟩ := h.above t ht
  exact ⟨⟨a2, a3, a4, a5, a6, a7, a8⟩, a1⟩

theorem SameT.good {t w w'} (h : SameT t w w') (R : Nat) : Good w' R t ↔ Good w R t := by
  obtain ⟨⟨a2, _, a4, a5, a6, a7, _⟩, a1⟩ := h
  unfold Good VerR RecCur
  rw [a2, a4, a5, a6, a7, readStamp_congr a1]

theorem SameT.existsF {t w w'} (h : SameT t w w') : existsF w' t = existsF w t := existsF_congr h.fs

theorem RowOp.toBExt {rank R b po t w w'} (h : RowOp t w w') (hlt : rank t < b) : BExt rank R b po w w' := by
  have e := h.eqv
  refine ⟨e.rules, e.progs, fun x _ => congrFun e.fs x,
    fun x _ => ⟨congrFun e.fs x, e.gen x, e.ovr x, e.checked x, e.changed x, e.failed x, e.stamp x, e.csum x⟩,
    fun d hd _ => h.rows d (fun e' => by rw [e'] at hd; omega),
    fun x hv => ⟨(e.verR R x).2 hv, e.contentOf x, e.gen x⟩,
    fun x hc hg => ⟨(e.recCur x).2 hc, by rw [e.gen]; exact hg, congrFun e.fs x⟩, Nat.le_of_eq e.clock.symm, e.rc⟩

/-- The frame of the commands run on behalf of `t` is a frame of a job on `t`. -/
theorem BExt.lift {rank R t b po w w'} (h : BExt rank R (rank t) (some t) w w') (hlt : rank t < b) :
    BExt rank R b po w w' :=
  ⟨h.rules, h.progs, h.plain, fun x hx => h.above x (Nat.le_trans (Nat.le_of_lt hlt) hx),
   fun d hd _ => h.rowsAbove d (Nat.le_trans (Nat.le_of_lt hlt) hd) (fun e => by cases e; omega),
   h.ver, h.stat, h.clock, h.rc⟩

theorem zapDeps1_marked {w : World} {t : Nat} : ∀ d ∈ (zapDeps1 w t).deps, d.target = t → d.deleteMe = true := by
  intro d hd hdt
  unfold zapDeps1 at hd
  simp only [List.mem_map] at hd
  obtain ⟨a, _, e⟩ := hd
  split at e
  · subst e; rfl
  · subst e; rename_i h; exact absurd hdt h

/-- The exempt set while `t` is under construction. -/
def addX (X : Nat → Prop) (t : Nat) : Nat → Prop := fun x => X x ∨ x = t

theorem ssb_prep {rank R t w} {X : Nat → Prop} (hi : Inv rank R X w) (hng : ¬ Good w R t) :
    (findDoFile t ((zapDeps1 w t).rules t) (zapDeps1 w t)).1 = firstEx w (w.rules t) ∧
    Inv rank R (addX X t) (findDoFile t ((zapDeps1 w t).rules t) (zapDeps1 w t)).2 ∧
    RowOp t w (findDoFile t ((zapDeps1 w t).rules t) (zapDeps1 w t)).2 ∧
    (∀ d ∈ (findDoFile t ((zapDeps1 w t).rules t) (zapDeps1 w t)).2.deps, d.target = t → d.deleteMe = false →
      DoRow w (firstEx w (w.rules t)) d) ∧
    (∀ pre dof post, w.rules t = pre ++ dof :: post → (∀ c ∈ pre, existsF w c = false) → existsF w dof = true →
      (∀ c ∈ pre, HasRowU (findDoFile t ((zapDeps1 w t).rules t) (zapDeps1 w t)).2 t c false) ∧
      HasRowU (findDoFile t ((zapDeps1 w t).rules t) (zapDeps1 w t)).2 t dof true) := by
  have hiX : Inv rank R (addX X t) w := hi.weaken (fun x hx => Or.inl hx)
  have hXt : addX X t t := Or.inr rfl
  have hro := RowOp.zapDeps1 w t
  have hi1 := Inv_zapDeps1 hiX hXt hng
  have hng1 : ¬ Good (zapDeps1 w t) R t := fun h => hng ((hro.good R t).1 h)
  have hfe : ∀ cs, firstEx (zapDeps1 w t) cs = firstEx w cs := fun cs => firstEx_congr cs (fun _ _ => rfl)
  have hex : ∀ x, existsF (zapDeps1 w t) x = existsF w x := fun _ => rfl
  obtain ⟨h1, h2, h3, h4, h5⟩ := findDoFile_spec (rank := rank) (R := R) hXt ((zapDeps1 w t).rules t) (zapDeps1 w t) hi1 hng1
    (fun c hc => ⟨hi.base.ranked.1 t c hc, (hi.base.rulesOk.2 t c hc).1⟩)
  refine ⟨by rw [h1, hfe]; rfl, h2, hro.trans h3, ?_, ?_⟩
  · intro d hd hdt hdm
    rcases h4 d hd hdt with h | h
    · have := zapDeps1_marked d h hdt
      rw [hdm] at this; cases this
    · rw [hfe] at h; exact h
  · intro pre dof post hr hpre hdof
    exact h5 pre dof post hr hpre hdof

/-- What a job on `t` guarantees. -/
def JobPost (rank : Nat → Nat) (R : Nat) (X : Nat → Prop) (t b : Nat) (po : Option Nat) (w : World)
    (res : Status × World) : Prop :=
  Inv rank R X res.2 ∧ BExt rank R b po w res.2 ∧ (res.1 = 0 → Good res.2 R t) ∧
  (NoFail R w → res.1 = 0 → NoFail R res.2) ∧ res.1 ≠ CRASHED

/-- The same, except that a target which had already failed in this run need not become good. -/
def JobPostW (rank : Nat → Nat) (R : Nat) (X : Nat → Prop) (t b : Nat) (po : Option Nat) (w : World)
    (res : Status × World) : Prop :=
  Inv rank R X res.2 ∧ BExt rank R b po w res.2 ∧ (res.1 = 0 → (w.recs t).failed ≠ some R → Good res.2 R t) ∧
  (NoFail R w → res.1 = 0 → NoFail R res.2) ∧ res.1 ≠ CRASHED

theorem JobPost.weak {rank R X t b po w res} (h : JobPost rank R X t b po w res) : JobPostW rank R X t b po w res :=
  ⟨h.1, h.2.1, fun hz _ => h.2.2.1 hz, h.2.2.2.1, h.2.2.2.2⟩

theorem JobPostW.strong {rank R X t b po w res} (h : JobPostW rank R X t b po w res)
    (hnf : (w.recs t).failed ≠ some R) : JobPost rank R X t b po w res :=
  ⟨h.1, h.2.1, fun hz => h.2.2.1 hz hnf, h.2.2.2.1, h.2.2.2.2⟩

theorem addX_drop {X : Nat → Prop} {t : Nat} : ∀ u, u ≠ t → ¬ X u → ¬ addX X t u :=
  fun _ hu hx h => h.elim hx hu

theorem one_ne_zero_status : (1 : Status) ≠ 0 := by decide
theorem one_ne_crashed : (1 : Status) ≠ CRASHED := by decide

theorem ssb_none {rank R t w w2 b po} {X : Nat → Prop} (hng : ¬ Good w R t)
    (hi2 : Inv rank R (addX X t) w2) (hro : RowOp t w w2) (hlt : rank t < b) :
    JobPost rank R X t b po w
      (if existsF w2 t then (0, setRec w2 t (setStatic w2 t (w.recs t) R))
       else (1, setRec w2 t (setFailed w2 t (w.recs t) R))) := by
  have hng2 : ¬ Good w2 R t := fun h => hng ((hro.good R t).1 h)
  have hfl : Flds (w.recs t) (w2.recs t) := (hro.sameT t).flds.symm
  have hb0 : BExt rank R b po w w2 := hro.toBExt hlt
  split
  · rename_i hex
    obtain ⟨a1, a2, a3, a4⟩ := setStatic_spec' (b := b) (po := po) (X' := X) hi2 hng2 addX_drop (OffT.setRec w2 t _) rfl
      (fun _ h => h) (by simpa using setStatic_flds hfl w2 t R) hex hlt
    refine ⟨a1, hb0.trans a3, fun _ => a2, fun hnf _ => ?_, CRASHED_ne_zero⟩
    exact (hnf.eqv hro.eqv : NoFail R { w2 with deps := w.deps }).setRec (by simp)
  · rename_i hex
    have hex' : existsF w2 t = false := by simpa using hex
    obtain ⟨a1, a2, _⟩ := setFailed_spec (b := b) (po := po) (X' := X) hi2 hng2 addX_drop (OffT.setRec w2 t _) rfl
      (fun _ h => h) (by simpa using setFailed_flds hfl w2 t R) (fun _ => hex') hlt
    exact ⟨a1, hb0.trans a2, fun h => absurd h one_ne_zero_status, fun _ h => absurd h one_ne_zero_status, one_ne_crashed⟩

end RedoModel.Deps.S
