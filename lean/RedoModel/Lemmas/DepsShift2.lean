import RedoModel.Lemmas.DepsShift1
import RedoModel.Lemmas.DepsOwned2
set_option linter.unusedSimpArgs false
/-!
# Run-id shift — part 2: scripts, jobs and commands commute with the shift
-/
namespace RedoModel.Deps
open RedoModel.Generated

/-- What a pair of nested-command implementations must satisfy. -/
def EngSh (R : Nat) (EA EB : Engine) : Prop :=
  ∀ cx ts w, cx.runid = R → EB.ifchangeCmd (shCx cx) ts (shW R w) = sh2 R (EA.ifchangeCmd cx ts w)

theorem findDoFile_sh (R t : Nat) : ∀ (cs : List Nat) (w : World),
    findDoFile t cs (shW R w) = sh2 R (findDoFile t cs w)
  | [], w => by rw [findDoFile, findDoFile]; rfl
  | c :: cs, w => by
    rw [findDoFile, findDoFile, existsF_sh]
    by_cases hex : existsF w c = true
    · simp only [hex, if_true, addDep_sh]; rfl
    · simp only [hex, Bool.false_eq_true, if_false, addDep_sh]
      exact findDoFile_sh R t cs _

theorem conds_sh {R : Nat} {EA EB : Engine} (hE : EngSh R EA EB) (t : Nat) (cx' : Ctx) (hcx : cx'.runid = R) :
    ∀ (fs : List Nat) (w : World),
      runScript.conds EB t (shCx cx') fs (shW R w) = sh2 R (runScript.conds EA t cx' fs w)
  | [], w => by rw [runScript.conds, runScript.conds]; rfl
  | f :: fs, w => by
    rw [runScript.conds, runScript.conds, existsF_sh]
    by_cases hex : existsF w f = true
    · simp only [hex, if_true]
      rw [hE cx' [f] w hcx]
      generalize EA.ifchangeCmd cx' [f] w = r
      obtain ⟨rv, w1⟩ := r
      by_cases hrv : rv = 0
      · subst hrv
        exact conds_sh hE t cx' hcx fs w1
      · simp only [sh2]
    · simp only [hex, Bool.false_eq_true, if_false, addDep_sh]
      exact conds_sh hE t cx' hcx fs _

theorem cmds_sh {R : Nat} {EA EB : Engine} (hE : EngSh R EA EB) (cx : Ctx) (t : Nat) (cx' : Ctx) (hcx : cx'.runid = R) :
    ∀ (cs : List (List Nat)) (k : Nat) (w : World),
      runScript.cmds EB (shCx cx) t (shCx cx') cs k (shW R w) = sh2 R (runScript.cmds EA cx t cx' cs k w)
  | [], k, w => by
    rw [runScript.cmds, runScript.cmds]
    have : (shCx cx).crash = cx.crash := rfl
    rw [this]; rfl
  | c :: cs, k, w => by
    rw [runScript.cmds, runScript.cmds]
    have : (shCx cx).crash = cx.crash := rfl
    rw [this]
    by_cases hcr : cx.crash = some (t, k)
    · simp only [hcr, if_true]; rfl
    · simp only [hcr, if_false]
      rw [hE cx' c w hcx]
      generalize EA.ifchangeCmd cx' c w = r
      obtain ⟨rv, w1⟩ := r
      by_cases hrv : rv = 0
      · subst hrv
        exact cmds_sh hE cx t cx' hcx cs (k + 1) w1
      · simp only [sh2]

theorem rsAlways_sh {R : Nat} (cx : Ctx) (hcx : cx.runid = R) (t : Nat) (sc : Script) (w : World) :
    rsAlways (shCx cx) t sc (shW R w) = shW R (rsAlways cx t sc w) := by
  unfold rsAlways
  split
  · dsimp only
    rw [addDep_sh]
    have e2 : (shCx cx).runid = R + 1 := by simp [shCx, hcx]
    rw [e2, hcx]
    have : ({ ((shW R (addDep w t alwaysId true)).recs alwaysId) with stamp := some DStamp.missing } : Rec)
        = shRec R { ((addDep w t alwaysId true).recs alwaysId) with stamp := some DStamp.missing } := rfl
    rw [this, setChanged_sh, setRec_sh]
  · rfl

theorem foldl_addDep_sh (R t : Nat) : ∀ (fs : List Nat) (w : World),
    fs.foldl (fun w f => addDep w t f false) (shW R w) = shW R (fs.foldl (fun w f => addDep w t f false) w)
  | [], w => rfl
  | f :: fs, w => by
    simp only [List.foldl_cons, addDep_sh]
    exact foldl_addDep_sh R t fs _

def sh3s {α β : Type} (R : Nat) (x : α × β × World) : α × β × World := (x.1, x.2.1, shW R x.2.2)

theorem rsFinish_sh {R : Nat} (cx : Ctx) (hcx : cx.runid = R) (t : Nat) (sc : Script) (w : World) :
    rsFinish (shCx cx) t sc (shW R w) = sh3s R (rsFinish cx t sc w) := by
  unfold rsFinish
  have e0 : rsFailNow sc (shW R w) = rsFailNow sc w := rfl
  rw [e0]
  by_cases hfn : rsFailNow sc w = true
  · simp only [hfn, if_true]; rfl
  simp only [hfn, Bool.false_eq_true, if_false, shW_fs]
  by_cases hst : sc.stamp = 0
  · simp only [hst, if_true]; rfl
  simp only [hst, if_false]
  have e2 : (shCx cx).runid = R + 1 := by simp [shCx, hcx]
  rw [e2, hcx, addKnown_sh, shW_recs, stampRec_sh, setRec_sh]
  have ecr : (shCx cx).crash = cx.crash := rfl
  rw [ecr]
  split <;> rfl

/-- The environment a script's commands run in. -/
def scriptCx (cx : Ctx) (t : Nat) : Ctx :=
  { runid := cx.runid, parent := some t, cycles := t :: cx.cycles, keepGoing := cx.keepGoing, crash := cx.crash }

theorem rsBody_sh {R : Nat} {EA EB : Engine} (hE : EngSh R EA EB) (cx : Ctx) (hcx : cx.runid = R) (t : Nat)
    (sc : Script) (w : World) :
    rsBody EB (shCx cx) t sc (shW R w) = sh3s R (rsBody EA cx t sc w) := by
  unfold rsBody
  dsimp only
  have h1 := conds_sh hE t (scriptCx cx t) hcx sc.cond w
  have h2 := fun w => cmds_sh hE cx t (scriptCx cx t) hcx sc.ifchange 0 w
  have ec : shCx (scriptCx cx t) = scriptCx (shCx cx) t := rfl
  rw [ec] at h1 h2
  unfold scriptCx at h1 h2
  rw [h1]
  generalize runScript.conds EA t _ sc.cond w = r1
  obtain ⟨rvc, w1⟩ := r1
  simp only [sh2]
  by_cases hrvc : rvc ≠ 0
  · simp only [hrvc, ne_eq, not_false_eq_true, if_true]; rfl
  simp only [hrvc, if_false, h2]
  generalize runScript.cmds EA cx t _ sc.ifchange 0 w1 = r2
  obtain ⟨rv, w2⟩ := r2
  simp only [sh2]
  by_cases hrv : rv ≠ 0
  · simp only [hrv, ne_eq, not_false_eq_true, if_true]; rfl
  simp only [hrv, if_false]
  exact rsFinish_sh cx hcx t sc w2

theorem runScript_sh {R : Nat} {EA EB : Engine} (hE : EngSh R EA EB) (d : Defects) (cx : Ctx) (hcx : cx.runid = R)
    (t : Nat) (sc : Script) (w : World) :
    runScript EB d (shCx cx) t sc (shW R w) = sh3s R (runScript EA d cx t sc w) := by
  rw [runScript_eq, runScript_eq, rsAlways_sh cx hcx]
  simp only [existsF_sh]
  by_cases hic : (sc.ifcreate.any fun f => existsF (rsAlways cx t sc w) f) = true
  · simp only [hic, if_true]; rfl
  · simp only [hic, Bool.false_eq_true, if_false]
    rw [foldl_addDep_sh]
    exact rsBody_sh hE cx hcx t sc _

end RedoModel.Deps
