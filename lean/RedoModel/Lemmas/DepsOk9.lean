import RedoModel.Lemmas.DepsOk8
/-!
# C09 — the bound `rank f < n` (fuel `2n+4`) is needed for success

A chain of five targets `15 → 14 → 13 → 12 → 11 → 5` (source), target `10+i` built by the .do file `20+i`.  Every
target is buildable.  With `n = 0` the top-level command has engine depth `2·0+4 = 4`: the script of the fifth
level runs its `redo-ifchange` at depth 0, which fails (`EXIT_FAILURE`) — the command exits non-zero.  With
`n = 6` (> every rank) the same command exits 0.
-/
namespace RedoModel.Deps.Rich
open RedoModel.Generated

def chRules : Nat → List Nat := fun t => if 11 ≤ t ∧ t ≤ 15 then [t + 10] else []
def chScript (dep tag : Nat) : Script := { ifchange := [[dep]], reads := [dep], tag := tag }

def chOps : List UserOp :=
  [.setProg [5] (chScript 5 1), .setProg [7] (chScript 11 2), .setProg [9] (chScript 12 3),
   .setProg [11] (chScript 13 4), .setProg [13] (chScript 14 5),
   .write 5 0, .write 21 1, .write 22 2, .write 23 3, .write 24 4, .write 25 5]

/-- (user operations other than commands do not depend on `n`) -/
def chW : World := chOps.foldl (fun w op => (applyOp {} 0 op w).2) (initWorld chRules)

theorem ch_source : Buildable chW 5 :=
  .source (fun c hc => by have : chW.rules 5 = [] := by decide +kernel
                          rw [this] at hc; cases hc) (by decide +kernel)

theorem ch_step (t dep tag : Nat) (h1 : firstEx chW (chW.rules t) = some (t + 10))
    (h2 : scriptAt chW (t + 10) = chScript dep tag) (hd : Buildable chW dep) : Buildable chW t := by
  refine .target h1 ?_ ?_ ?_ ?_ ?_
  · rw [h2]; intro d hd'
    have : d = dep := by simpa [chScript] using hd'
    subst this; exact hd
  · rw [h2]; intro d hd'; simp [chScript] at hd'
  · rw [h2]; intro d hd'; simp [chScript] at hd'
  · rw [h2]; rfl
  · rw [h2]; rfl

/-- Every target of the chain is buildable. -/
theorem ch_buildable : Buildable chW 15 :=
  ch_step 15 14 5 (by decide +kernel) (by decide +kernel)
    (ch_step 14 13 4 (by decide +kernel) (by decide +kernel)
      (ch_step 13 12 3 (by decide +kernel) (by decide +kernel)
        (ch_step 12 11 2 (by decide +kernel) (by decide +kernel)
          (ch_step 11 5 1 (by decide +kernel) (by decide +kernel) ch_source))))

/-- With `n = 0` (fuel 4, below the depth of the chain) the buildable target is NOT built: the command fails. -/
theorem ch_small_fuel_fails : (runCmd {} 0 (.ifchange [15] false) chW).1.status ≠ 0 := by decide +kernel

/-- With `n = 6` the same command on the same world exits 0. -/
theorem ch_enough_fuel : (runCmd {} 6 (.ifchange [15] false) chW).1.status = 0 := by decide +kernel

end RedoModel.Deps.Rich
