import RedoModel.Lemmas.DepsSoundRK3
/-! The counterexample history `kcOps` satisfies every hypothesis of the statement: `RecoversRichK` is false. -/
namespace RedoModel.Deps.Rich
open RedoModel.Generated

theorem kc_rich : kcS.Rich := by
  refine ⟨rfl, ?_, ?_⟩
  · intro f hf; right; simpa [kcS] using hf
  · intro f hf; simp [kcS] at hf

theorem kc_single : SingleDo cxRules := by
  intro t; unfold cxRules; split <;> simp

theorem kc_ops : ∀ op ∈ kcOps, RichOpK cxRules op := by
  intro op hop
  simp only [kcOps, List.mem_cons, List.not_mem_nil, or_false] at hop
  rcases hop with rfl | rfl | rfl | rfl | rfl | rfl
  · exact kc_rich
  · simp [RichOpK, RichOp, alwaysId]
  · simp [RichOpK, RichOp, alwaysId]
  · intro t ht; simp only [Cmd.names, List.mem_singleton] at ht; subst ht; simp [alwaysId]
  · simp [RichOpK, RichOp, alwaysId]
  · intro t ht; simp only [List.mem_singleton] at ht; subst ht; simp [alwaysId]

theorem kc_ranked_of (w : World) (hr : w.rules = cxRules)
    (hp : ∀ c sc, w.progs c = some sc → sc = kcS) : RankedR cxRank w := by
  refine ⟨fun t c hc => ?_, fun t dof hd n sc _ h => ?_⟩
  · rw [hr] at hc; unfold cxRules at hc
    split at hc
    · simp at hc; subst hc; subst_vars; simp [cxRank]
    · simp at hc
  · rw [hr] at hd; unfold cxRules at hd
    split at hd
    · have := hp _ _ h; subst this; subst_vars
      refine ⟨fun ha => by simp [kcS] at ha, fun d hdm => ?_, fun d hdm => ?_⟩
      · have : d = 5 := by simpa [kcS] using hdm
        subst this
        simp [cxRank, alwaysId]
      · have : d = 5 := by simpa [kcS] using hdm
        subst this
        rw [hr]; simp [cxRules]
    · simp at hd

theorem kc_progs_of (w : World) (hp : w.progs = fun x => if x = [17] then some kcS else none) :
    ∀ c sc, w.progs c = some sc → sc = kcS := by
  intro c sc h
  rw [hp] at h
  simp only at h
  split at h
  · exact (Option.some.inj h).symm
  · cases h

theorem kc_ranked : ∀ w ∈ worldsOf 2 {} (initWorld cxRules) kcOps, RankedR cxRank w := by
  intro w hw
  simp only [kcOps, worldsOf, List.mem_cons, List.not_mem_nil, or_false] at hw
  rcases hw with rfl | rfl | rfl | rfl | rfl | rfl | rfl
  · exact kc_ranked_of _ rfl (fun c sc h => by cases h)
  · exact kc_ranked_of _ rfl (kc_progs_of _ rfl)
  · exact kc_ranked_of _ rfl (kc_progs_of _ rfl)
  · exact kc_ranked_of _ rfl (kc_progs_of _ rfl)
  · exact kc_ranked_of _ rfl (kc_progs_of _ rfl)
  · exact kc_ranked_of _ rfl (kc_progs_of _ rfl)
  · have t := crashCmd_tr {} 2 [2] 2 0
      (applyOp {} 2 (.remove 5) (applyOp {} 2 (.cmd (.ifchange [2] false)) (applyOp {} 2 (.write 1 7)
        (applyOp {} 2 (.write 5 0) (applyOp {} 2 (.setProg [17] kcS) (initWorld cxRules)).2).2).2).2).2
    exact kc_ranked_of _ (t.rules.trans rfl) (kc_progs_of _ (t.progs.trans rfl))

theorem kc_opsOk : OpsOkW 2 (initWorld cxRules) kcOps := by
  refine ⟨?_, trivial, trivial, trivial, trivial, trivial, trivial⟩
  intro t dof _ n hn
  cases hn

theorem kc_rankLt : ∀ f, cxRank f < 2 := by intro f; unfold cxRank; split <;> omega

/-- **Finding.**  The statement asked for is false: the history `kcOps` (all hypotheses hold, `SingleDo` included)
ends with a killed rebuild of 2; the recovery `redo-ifchange 2` exits 0 without running anything and 2 keeps the
output computed from the removed file 5. -/
theorem not_recoversRichK : ¬ RecoversRichK := by
  intro h
  exact kc_notUpToDate (h 2 cxRules cxRank kcOps [2] false false cx_rulesOk kc_single kc_ops kc_ranked kc_rankLt
    kc_opsOk (by simp [alwaysId]) kc_eval'.1 2 (by simp))

end RedoModel.Deps.Rich
