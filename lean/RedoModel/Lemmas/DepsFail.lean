import RedoModel.Lemmas.DepsFuel4
import RedoModel.Lemmas.DepsIfcreate
import RedoModel.Lemmas.DepsWF2
/-!
# C05 at the level of whole commands — part 1: a failing job is recorded; a failed target is not run twice

`FailedNow R w t` : the record of `t` says "failed in run `R`" (ghost-free).
-/
namespace RedoModel.Deps
open RedoModel.Generated

/-- `t` is recorded as failed in run `R` (or a later one). -/
def FailedNow (R : Nat) (w : World) (t : Nat) : Prop := isFailedR (w.recs t) R = true

instance (R : Nat) (w : World) (t : Nat) : Decidable (FailedNow R w t) := by
  unfold FailedNow; infer_instance

theorem failedNow_of_eq {R : Nat} {w : World} {t : Nat} (h : (w.recs t).failed = some R) (hR : 0 < R) :
    FailedNow R w t := by
  unfold FailedNow isFailedR
  rw [h]
  simp only [Bool.and_eq_true, bne_iff_ne, ne_eq, decide_eq_true_eq]
  exact ⟨by omega, Nat.le_refl R⟩

theorem getRec_failed (w : World) (R f : Nat) : (getRec w R f).failed = (w.recs f).failed := by
  unfold getRec
  split <;> rfl

theorem isFailedR_getRec (w : World) (R R' f : Nat) : isFailedR (getRec w R' f) R = isFailedR (w.recs f) R := by
  unfold isFailedR
  rw [getRec_failed]

/-! ### (2) a job whose own `start_self` ends non-zero records the failure -/

/-- The part of `start_self` that runs a .do file: a non-zero, non-crash status is recorded as `failed := R`. -/
theorem ssBuild_failed (E : Engine) (d : Defects) (cx : Ctx) (t : Nat) (sf : Rec) (w : World)
    (h0 : (ssBuild E d cx t sf w).1 ≠ 0) (hc : (ssBuild E d cx t sf w).1 ≠ CRASHED) :
    ((ssBuild E d cx t sf w).2.recs t).failed = some cx.runid := by
  unfold ssBuild at h0 hc ⊢
  dsimp only at h0 hc ⊢
  generalize findDoFile t ((zapDeps1 w t).rules t) (zapDeps1 w t) = r at h0 hc ⊢
  obtain ⟨o, w1⟩ := r
  cases o with
  | none =>
    dsimp only at h0 hc ⊢
    split
    · rename_i hex; rw [if_pos hex] at h0; exact absurd rfl h0
    · simp [setRec, setFailed]
  | some dof =>
    dsimp only at h0 hc ⊢
    generalize runScript E d cx t _ _ = r at h0 hc ⊢
    obtain ⟨rv, out, w4⟩ := r
    dsimp only at h0 hc ⊢
    split
    · rename_i hcr; rw [if_pos hcr] at hc; exact absurd rfl hc
    · rename_i hcr
      rw [if_neg hcr] at h0
      have hrv : rv ≠ 0 := by
        intro e; subst e
        exact h0 (by simp [recordNewState])
      exact (C05.failure_recorded cx t sf rv out w4 hrv).2.2

theorem startSelf_failed (E : Engine) (d : Defects) (cx : Ctx) (t : Nat) (sf0 : Rec) (w : World)
    (h0 : (startSelf E d cx t sf0 w).1 ≠ 0) (hc : (startSelf E d cx t sf0 w).1 ≠ CRASHED) :
    ((startSelf E d cx t sf0 w).2.recs t).failed = some cx.runid := by
  rw [startSelf_eq] at h0 hc ⊢
  generalize ssGuard cx t sf0 w = g at h0 hc ⊢
  obtain ⟨sf, w1⟩ := g
  dsimp only at h0 hc ⊢
  split
  · rename_i hg; rw [if_pos hg] at h0; exact absurd rfl h0
  · rename_i hg
    rw [if_neg hg] at h0 hc
    exact ssBuild_failed E d cx t sf w1 h0 hc

/-- A job is said to run its own `start_self` when the check answers `dirty`, or names dependencies to build
first but the job is the second phase of `redo-unlocked` (`noOob`). -/
def OwnStart (cx : Ctx) (dr : DR) : Prop := dr = .dirty ∨ (∃ ts, dr = .need ts) ∧ cx.noOob = true

theorem buildJob_ownStart (E : Engine) (d : Defects) (cx : Ctx) (fuel t : Nat) (w w1 : World) (dr : DR)
    (hs : shouldBuild cx fuel t w = (some dr, w1)) (ho : OwnStart cx dr) :
    buildJob E d cx fuel t w = (.done (startSelf E d cx t (w.recs t) w1).1, (startSelf E d cx t (w.recs t) w1).2) := by
  unfold buildJob
  dsimp only
  rw [hs]
  rcases ho with rfl | ⟨⟨ts, rfl⟩, hn⟩
  · rfl
  · simp only [hn, if_true]

/-- **(2), first half.**  A job that ran its own `start_self` and ended non-zero (the .do exited non-zero, one
of its nested commands did, or there was no .do) leaves its target recorded as failed in this run. -/
theorem buildJob_failed (E : Engine) (d : Defects) (cx : Ctx) (fuel t : Nat) (w w1 w' : World) (dr : DR) (rv : Status)
    (hs : shouldBuild cx fuel t w = (some dr, w1)) (ho : OwnStart cx dr)
    (hb : buildJob E d cx fuel t w = (.done rv, w')) (h0 : rv ≠ 0) (hc : rv ≠ CRASHED) :
    (w'.recs t).failed = some cx.runid := by
  rw [buildJob_ownStart E d cx fuel t w w1 dr hs ho] at hb
  cases hb
  exact startSelf_failed E d cx t _ w1 h0 hc

/-- **(2), second half.**  A recorded failure is found dirty by every later check — of this run or any other,
with any bound `mx`, by `redo-ifchange` and by `redo-ood` — as long as the record stands. -/
theorem failed_dirty_later (ood : Bool) (R' n : Nat) (w : World) (c : List Nat) (p mx : Nat) (seen : List Nat) (R : Nat)
    (hf : (w.recs p).failed = some R) (hs : p ∉ seen) :
    isDirty ood R' (n + 1) w c p mx seen none = (.dirty, w, c) :=
  C05.failed_is_dirty ood R' n w c p mx seen (by rw [getRec_failed, hf]; rfl) hs

/-! ### (3) a target that failed in this run is not run a second time -/

theorem addKnown_failed (w : World) (f x : Nat) : ((addKnown w f).recs x).failed = (w.recs x).failed := by
  unfold addKnown
  split
  · rfl
  · simp only [setRec]
    split
    · subst_vars; rfl
    · rfl

theorem addDep_failed (w : World) (t s : Nat) (m : Bool) (x : Nat) : ((addDep w t s m).recs x).failed = (w.recs x).failed :=
  addKnown_failed w s x

theorem foldl_addDep_failed (p : Nat) (m : Bool) (x : Nat) : ∀ (ts : List Nat) (w : World),
    ((ts.foldl (fun w t => addDep w p t m) w).recs x).failed = (w.recs x).failed
  | [], _ => rfl
  | t :: ts, w => by
    rw [List.foldl_cons, foldl_addDep_failed p m x ts, addDep_failed]

theorem foldl_addDep_trace (p : Nat) (m : Bool) : ∀ (ts : List Nat) (w : World),
    (ts.foldl (fun w t => addDep w p t m) w).trace = w.trace
  | [], _ => rfl
  | t :: ts, w => by
    rw [List.foldl_cons, foldl_addDep_trace p m ts, addDep_trace]

theorem FailedNow.congr {R : Nat} {w w' : World} {t : Nat} (h : (w'.recs t).failed = (w.recs t).failed) :
    FailedNow R w' t ↔ FailedNow R w t := by
  unfold FailedNow isFailedR
  rw [h]

/-- The single-target loop on a target that already failed in this run: job result 32, command status 1
(or 208 when the target is an ancestor), no event. -/
theorem runTargets_failed_single (E : Engine) (d : Defects) (cx : Ctx) (fuel t : Nat) (w : World)
    (hd : d.failedTargetAbortsRun = false) (hr : cx.isRedo = false) (hf : FailedNow cx.runid w t) :
    ((runTargets E d cx fuel [t] [] false w).1 = 1 ∨ (runTargets E d cx fuel [t] [] false w).1 = EXIT_CYCLIC_DEPENDENCY) ∧
    (runTargets E d cx fuel [t] [] false w).2 = addKnown w t := by
  have hf' : isFailedR (getRec (addKnown w t) cx.runid t) cx.runid = true := by
    rw [isFailedR_getRec]
    exact (FailedNow.congr (addKnown_failed w t t)).2 hf
  have hj := (C05.once_per_run E d cx fuel t (addKnown w t) hd hr hf').1
  rw [runTargets]
  simp only [List.not_mem_nil, if_false, Bool.false_and, Bool.false_eq_true]
  split
  · exact ⟨Or.inr rfl, rfl⟩
  · rw [hj]
    simp [EXIT_TARGET_FAILED, CRASHED, runTargets]

/-- **(3)** `redo-ifchange t` (nested or top level, any engine) for a target that already failed in this run:
the status is 1 (208 when `t` is an ancestor or the requester itself) and no event is added to the trace:
neither `t` nor anything else is executed. -/
theorem ifchangeWith_failed_single (E : Engine) (d : Defects) (fuel : Nat) (cx : Ctx) (t : Nat) (w : World)
    (hd : d.failedTargetAbortsRun = false) (hr : cx.isRedo = false) (hf : FailedNow cx.runid w t) :
    ((ifchangeWith E d fuel cx [t] w).1 = 1 ∨ (ifchangeWith E d fuel cx [t] w).1 = EXIT_CYCLIC_DEPENDENCY) ∧
    (ifchangeWith E d fuel cx [t] w).2.trace = w.trace := by
  have key : ∀ w2 : World, (w2.recs t).failed = (w.recs t).failed → w2.trace = w.trace →
      ((runTargets E d cx fuel [t] [] false w2).1 = 1 ∨
        (runTargets E d cx fuel [t] [] false w2).1 = EXIT_CYCLIC_DEPENDENCY) ∧
      (runTargets E d cx fuel [t] [] false w2).2.trace = w.trace := by
    intro w2 e1 e2
    obtain ⟨h1, h2⟩ := runTargets_failed_single E d cx fuel t w2 hd hr ((FailedNow.congr e1).2 hf)
    exact ⟨h1, by rw [h2, addKnown_trace, e2]⟩
  unfold ifchangeWith
  cases hp : cx.parent with
  | none =>
    simp only [Bool.false_eq_true, if_false]
    exact key w rfl rfl
  | some p =>
    dsimp only
    split
    · exact ⟨Or.inr rfl, rfl⟩
    · split
      · exact key w rfl rfl
      · exact key _ (by rw [foldl_addDep_failed, addKnown_failed]) (by rw [foldl_addDep_trace, addKnown_trace])

theorem engine_failed_single (d : Defects) (n : Nat) (cx : Ctx) (t : Nat) (w : World)
    (hd : d.failedTargetAbortsRun = false) (hr : cx.isRedo = false) (hf : FailedNow cx.runid w t) :
    ((engine d n).ifchangeCmd cx [t] w).1 ≠ 0 ∧ ((engine d n).ifchangeCmd cx [t] w).2.trace = w.trace := by
  cases n with
  | zero => exact ⟨by simp [engine, EXIT_FAILURE], rfl⟩
  | succ n =>
    obtain ⟨h1, h2⟩ := ifchangeWith_failed_single (engine d n) d (n + 1) cx t w hd hr hf
    refine ⟨?_, h2⟩
    show (ifchangeWith (engine d n) d (n + 1) cx [t] w).1 ≠ 0
    rcases h1 with h | h <;> rw [h] <;> simp [EXIT_CYCLIC_DEPENDENCY]

/-- … in `RanIn` terms: nothing at all is executed by that request. -/
theorem engine_failed_single_noRan (d : Defects) (n : Nat) (cx : Ctx) (t : Nat) (w : World)
    (hd : d.failedTargetAbortsRun = false) (hr : cx.isRedo = false) (hf : FailedNow cx.runid w t) (x : Nat) :
    ¬ RanIn x w ((engine d n).ifchangeCmd cx [t] w).2 := by
  rintro ⟨pre, he, hm⟩
  rw [(engine_failed_single d n cx t w hd hr hf).2] at he
  have : pre = [] := by
    have := congrArg List.length he
    rw [List.length_append] at this
    exact List.eq_nil_of_length_eq_zero (by omega)
  subst this
  cases hm

end RedoModel.Deps
