import RedoModel.Lemmas.DepsOod
/-!
# redo-ood vs. the builder's check — part 1: a "clean" answer of redo-ood's walk is a `PC` derivation

The loop of `redo-ood` shares one in-memory cache between the walks of all targets, and what
an earlier walk wrote (the "target vanished" conversion) stays visible until the process exits.
Invariant: every record is the original one or one that is reported dirty (`failed` set); every
cached file has a `PC` derivation on the original world.
-/
namespace RedoModel.Deps

/-- Worlds met inside the loop of `redo-ood` started on `w`. -/
def OodInv (w w' : World) (R : Nat) : Prop :=
  w'.fs = w.fs ∧ w'.deps = w.deps ∧
  ∀ g, (w'.recs g).row = (w.recs g).row ∧
    (getRec w' R g = getRec w R g ∨ (getRec w' R g).failed.isSome = true)

def RecOk (w : World) (R f : Nat) (r : Rec) : Prop := r = getRec w R f ∨ r.failed.isSome = true

def CacheOk (w : World) (R : Nat) (cache : List Nat) : Prop := ∀ g ∈ cache, ∃ mx, PC w R g mx

def OodPost (w : World) (R f mx : Nat) (res : DR × World × List Nat) : Prop :=
  OodInv w res.2.1 R ∧ CacheOk w R res.2.2 ∧ (res.1 = .clean → PC w R f mx) ∧ res.1 ≠ .need []

theorem OodInv.refl (w : World) (R : Nat) : OodInv w w R := ⟨rfl, rfl, fun _ => ⟨rfl, .inl rfl⟩⟩

theorem OodInv.rs {w w' : World} {R : Nat} (h : OodInv w w' R) (f : Nat) : readStamp w' f = readStamp w f := by
  simp [readStamp, h.1]

theorem OodInv.ex {w w' : World} {R : Nat} (h : OodInv w w' R) (f : Nat) : existsF w' f = existsF w f := by
  simp [existsF, h.1]

theorem OodInv.dp {w w' : World} {R : Nat} (h : OodInv w w' R) (r : Rec) (f : Nat) : depsOf w' r f = depsOf w r f := by
  have : (fun (a b : Dep) => decide ((w'.recs a.source).row ≤ (w'.recs b.source).row))
      = (fun (a b : Dep) => decide ((w.recs a.source).row ≤ (w.recs b.source).row)) := by
    funext a b
    rw [(h.2.2 a.source).1, (h.2.2 b.source).1]
  simp only [depsOf, h.2.1, this]

theorem OodInv.recOk {w w' : World} {R : Nat} (h : OodInv w w' R) (f : Nat) : RecOk w R f (getRec w' R f) :=
  (h.2.2 f).2

/-- The "target vanished" write. -/
theorem OodInv.vanish {w w' : World} {R : Nat} (h : OodInv w w' R) (f : Nat) (r : Rec) (hr : r = getRec w R f) :
    OodInv w (setRec w' f { r with isGenerated := false, isOverride := false, failed := some 0 }) R := by
  refine ⟨h.1, h.2.1, fun g => ?_⟩
  by_cases hg : g = f
  · subst hg
    refine ⟨?_, .inr ?_⟩
    · simp only [setRec, if_true, hr]
      simp only [getRec]
      split <;> rfl
    · simp only [getRec, setRec, if_true]
      split <;> rfl
  · have : (setRec w' f { r with isGenerated := false, isOverride := false, failed := some 0 }).recs g = w'.recs g := by
      simp [setRec, hg]
    have e : getRec (setRec w' f { r with isGenerated := false, isOverride := false, failed := some 0 }) R g = getRec w' R g := by
      simp only [getRec, this]
    rw [this, e]
    exact h.2.2 g

/-- Specification a recursive call must meet. -/
def ChkOod (w : World) (R mx' : Nat) (chk : World → List Nat → Nat → Rec → DR × World × List Nat) : Prop :=
  ∀ w' cache s snap, OodInv w w' R → RecOk w R s snap → CacheOk w R cache → OodPost w R s mx' (chk w' cache s snap)

theorem goDeps_ood_pc (w : World) (R mx' : Nat) (chk : World → List Nat → Nat → Rec → DR × World × List Nat)
    (hchk : ChkOod w R mx' chk) (hasCsum : Bool) (f : Nat) :
    ∀ (ds : List (Dep × Rec)) (w' : World) (cache must : List Nat),
      OodInv w w' R → CacheOk w R cache → (∀ p ∈ ds, RecOk w R p.1.source p.2) →
      OodInv w (goDeps chk hasCsum f ds w' cache must).2.1 R ∧
      CacheOk w R (goDeps chk hasCsum f ds w' cache must).2.2 ∧
      (∀ dr, (goDeps chk hasCsum f ds w' cache must).1 = some dr → dr ≠ .clean ∧ dr ≠ .need []) ∧
      ((goDeps chk hasCsum f ds w' cache must).1 = none → must = [] ∧
        ∀ p ∈ ds, (p.1.modeM = true → PC w R p.1.source mx') ∧ (p.1.modeM = false → existsF w p.1.source = false))
  | [], w', cache, must => by
    intro hi hc _
    rw [goDeps]
    refine ⟨hi, hc, ?_, ?_⟩
    · cases must <;> simp
    · cases must <;> simp
  | (d, snap) :: ds, w', cache, must => by
    intro hi hc hds
    have hds' : ∀ p ∈ ds, RecOk w R p.1.source p.2 := fun p hp => hds p (List.mem_cons_of_mem _ hp)
    rw [goDeps]
    by_cases hm : d.modeM = true
    · simp only [hm, if_true]
      have h1 := hchk w' cache d.source snap hi (hds (d, snap) List.mem_cons_self) hc
      generalize chk w' cache d.source snap = r at h1
      obtain ⟨sub, w1, c1⟩ := r
      obtain ⟨hi1, hc1, hpc, hne⟩ := h1
      dsimp only at hi1 hc1 hpc hne ⊢
      cases sub with
      | cyclic => exact ⟨hi1, hc1, (fun dr h => by cases h; simp), (fun h => by cases h)⟩
      | dirty => exact ⟨hi1, hc1, (fun dr h => by cases hasCsum <;> cases h <;> simp), (fun h => by cases h)⟩
      | clean =>
        obtain ⟨a, b, c0, c⟩ := goDeps_ood_pc w R mx' chk hchk hasCsum f ds w1 c1 must hi1 hc1 hds'
        refine ⟨a, b, c0, fun hn => ⟨(c hn).1, fun p hp => ?_⟩⟩
        rcases List.mem_cons.1 hp with rfl | hp
        · exact ⟨fun _ => hpc rfl, fun h => by simp [hm] at h⟩
        · exact (c hn).2 p hp
      | need ts =>
        obtain ⟨a, b, c0, c⟩ := goDeps_ood_pc w R mx' chk hchk hasCsum f ds w1 c1 (must ++ ts) hi1 hc1 hds'
        refine ⟨a, b, c0, fun hn => ?_⟩
        exfalso
        have := (c hn).1
        cases ts with
        | nil => exact hne rfl
        | cons x xs => simp at this
    · simp only [hm, Bool.false_eq_true, if_false]
      by_cases hex : existsF w' d.source = true
      · simp only [hex, if_true]
        exact ⟨hi, hc, (fun dr h => by cases hasCsum <;> cases h <;> simp), (fun h => by cases h)⟩
      · simp only [hex, Bool.false_eq_true, if_false]
        obtain ⟨a, b, c0, c⟩ := goDeps_ood_pc w R mx' chk hchk hasCsum f ds w' cache must hi hc hds'
        refine ⟨a, b, c0, fun hn => ⟨(c hn).1, fun p hp => ?_⟩⟩
        rcases List.mem_cons.1 hp with rfl | hp
        · refine ⟨fun h => absurd h hm, fun _ => ?_⟩
          rw [← hi.ex]
          simpa using hex
        · exact (c hn).2 p hp

theorem OodPost.triv {w : World} {R f mx : Nat} {w' : World} {cache : List Nat} {dr : DR}
    (hi : OodInv w w' R) (hc : CacheOk w R cache) (h1 : dr ≠ .clean) (h2 : dr ≠ .need []) :
    OodPost w R f mx (dr, w', cache) := ⟨hi, hc, fun h => absurd h h1, h2⟩

theorem PC.rebound {w : World} {R f mx0 : Nat} (h : PC w R f mx0) {ch mx : Nat}
    (hch : (getRec w R f).changed = some ch) (hle : ch ≤ mx) : PC w R f mx := by
  cases h with
  | mk _ _ ch0 hfail hch0 hle0 hst hm hc =>
    rw [hch] at hch0
    cases hch0
    exact PC.mk f mx ch hfail hch hle hst hm hc

theorem isDirty_ood_pc (w : World) (R : Nat) :
    ∀ (fuel : Nat) (w' : World) (cache : List Nat) (f mx : Nat) (seen : List Nat) (pre : Option Rec),
      OodInv w w' R → (∀ s, pre = some s → RecOk w R f s) → CacheOk w R cache →
      OodPost w R f mx (isDirty true R fuel w' cache f mx seen pre)
  | 0, w', cache, f, mx, seen, pre => by
    intro hi _ hc
    rw [isDirty]
    exact OodPost.triv hi hc (by simp) (by simp)
  | fuel + 1, w', cache, f, mx, seen, pre => by
    intro hi hpre hc
    have hr : RecOk w R f (pre.getD (getRec w' R f)) := by
      cases pre with
      | none => exact hi.recOk f
      | some s => exact hpre s rfl
    simp (config := { zeta := true, zetaHave := true }) only [isDirty, ↓reduceIte]
    generalize pre.getD (getRec w' R f) = r at hr ⊢
    split
    · exact OodPost.triv hi hc (by simp) (by simp)
    split
    · exact OodPost.triv hi hc (by simp) (by simp)
    rename_i hnf
    have hre : r = getRec w R f := by
      rcases hr with h | h
      · exact h
      · exact absurd h hnf
    split
    · exact OodPost.triv hi hc (by simp) (by simp)
    rename_i ch hch
    split
    · exact OodPost.triv hi hc (by simp) (by simp)
    rename_i hle
    split
    · rename_i hin
      simp only [decide_eq_true_eq] at hin
      obtain ⟨mx0, hpc⟩ := hc f hin
      refine ⟨hi, hc, fun _ => hpc.rebound (hre ▸ hch) (by omega), by simp⟩
    split
    · exact OodPost.triv hi hc (by simp) (by simp)
    rename_i old hold
    split
    · refine OodPost.triv ?_ hc (by split <;> simp) (by split <;> simp)
      split
      · exact hi.vanish f r hre
      · exact hi
    rename_i hsame
    have hsame' : old = readStamp w' f := by simpa using hsame
    have hgd := goDeps_ood_pc w R (max ch (r.checked.getD 0))
      (fun w cache s snap => isDirty true R fuel w cache s (max ch (r.checked.getD 0)) (f :: seen) (some snap))
      (fun w2 c2 s snap h1 h2 h3 => isDirty_ood_pc w R fuel w2 c2 s _ (f :: seen) (some snap) h1
        (fun s' hs' => by cases hs'; exact h2) h3)
      r.csum.isSome f (depsWithRecs w' R r f) w' cache [] hi hc
      (by
        intro p hp
        simp only [depsWithRecs, List.mem_map] at hp
        obtain ⟨d, _, rfl⟩ := hp
        exact hi.recOk d.source)
    generalize goDeps _ r.csum.isSome f (depsWithRecs w' R r f) w' cache [] = gr at hgd
    obtain ⟨o, w2, c2⟩ := gr
    obtain ⟨hi2, hc2, hne, hnone⟩ := hgd
    dsimp only at hi2 hc2 hne hnone
    cases o with
    | some dr =>
      dsimp only
      exact OodPost.triv hi2 hc2 (hne dr rfl).1 (hne dr rfl).2
    | none =>
      simp only [Bool.not_true, Bool.and_false, Bool.false_eq_true, if_false]
      have hpc : PC w R f mx := by
        subst hre
        refine PC.mk f mx ch (by simpa using hnf) hch (by omega) ?_ ?_ ?_
        · rw [hold, hsame', hi.rs]
        · intro d hd hmode
          have := (hnone rfl).2 (d, getRec w' R d.source)
            (by simp only [depsWithRecs, List.mem_map]; exact ⟨d, by rw [hi.dp]; exact hd, rfl⟩)
          exact this.1 hmode
        · intro d hd hmode
          have := (hnone rfl).2 (d, getRec w' R d.source)
            (by simp only [depsWithRecs, List.mem_map]; exact ⟨d, by rw [hi.dp]; exact hd, rfl⟩)
          exact this.2 hmode
      refine ⟨hi2, ?_, fun _ => hpc, by simp⟩
      intro g hg
      rcases List.mem_cons.1 hg with rfl | hg
      · exact ⟨mx, hpc⟩
      · exact hc2 g hg

/-! ### The loop of `redo-ood` -/

theorem go_acc_subset (R fuel : Nat) :
    ∀ (fs : List Nat) (w' : World) (cache acc : List Nat) (x : Nat), x ∈ acc → x ∈ (runCmd.go R fuel fs w' cache acc).1
  | [], w', cache, acc, x, hx => by rw [runCmd.go]; simpa using hx
  | f :: fs, w', cache, acc, x, hx => by
    rw [runCmd.go]
    generalize isDirty true R fuel w' cache f R [] none = r
    obtain ⟨dr, w1, c1⟩ := r
    dsimp only
    apply go_acc_subset R fuel fs w1 c1
    split
    · exact hx
    · exact List.mem_cons_of_mem _ hx

/-- A known target that `redo-ood` does not list has a `PC` derivation on the world the command
started on. -/
theorem go_ood_pc (w : World) (R fuel : Nat) :
    ∀ (fs : List Nat) (w' : World) (cache acc : List Nat), OodInv w w' R → CacheOk w R cache →
      ∀ t ∈ fs, t ∉ (runCmd.go R fuel fs w' cache acc).1 → PC w R t R
  | [], w', cache, acc, _, _, t, ht, _ => by cases ht
  | f :: fs, w', cache, acc, hi, hc, t, ht, hnot => by
    rw [runCmd.go] at hnot
    have h1 := isDirty_ood_pc w R fuel w' cache f R [] none hi (fun s hs => by cases hs) hc
    generalize isDirty true R fuel w' cache f R [] none = r at h1 hnot
    obtain ⟨dr, w1, c1⟩ := r
    obtain ⟨hi1, hc1, hpc, _⟩ := h1
    dsimp only at hi1 hc1 hpc hnot
    by_cases hdr : dr = .clean
    · rcases List.mem_cons.1 ht with rfl | ht
      · exact hpc hdr
      · exact go_ood_pc w R fuel fs w1 c1 _ hi1 hc1 t ht hnot
    · simp only [hdr, if_false] at hnot
      rcases List.mem_cons.1 ht with rfl | ht
      · exact absurd (go_acc_subset R fuel fs w1 c1 _ t List.mem_cons_self) hnot
      · exact go_ood_pc w R fuel fs w1 c1 _ hi1 hc1 t ht hnot

end RedoModel.Deps
