import RedoModel.Lemmas.DepsSoundRK2
/-! Top-level commands and user operations respect the frame `Tr`; the side conditions (`SK`) along a history. -/
namespace RedoModel.Deps.Rich
open RedoModel.Generated

theorem allocRun_tr (w : World) : Tr w (allocRun w).2 := Tr.of_deps rfl rfl rfl

theorem applyOp_crashCmd_eq (d : Defects) (n : Nat) (ts : List Nat) (t k : Nat) (w : World) :
    (applyOp d n (.crashCmd ts t k) w).2 =
      (runTargets (engine d (2 * n + 4)) d { runid := w.runCounter + 1, crash := some (t, k) } (2 * n + 4) ts [] false
        (allocRun w).2).2 := rfl

/-- A killed run changes neither rules nor scripts, and keeps the side condition on rows. -/
theorem crashCmd_tr (d : Defects) (n : Nat) (ts : List Nat) (t k : Nat) (w : World) :
    Tr w (applyOp d n (.crashCmd ts t k) w).2 := by
  rw [applyOp_crashCmd_eq]
  exact (allocRun_tr w).trans (runTargets_tr _ (engine_tr d _) d _ _ ts [] false _)

theorem runCmd_tr (d : Defects) (n : Nat) (c : Cmd) (w : World) : Tr w (runCmd d n c w).2 := by
  cases c with
  | redo ts kg =>
    exact (allocRun_tr w).trans (runTargets_tr _ (engine_tr d _) d
      { runid := w.runCounter + 1, keepGoing := kg, isRedo := true } _ ts [] false _)
  | ifchange ts kg =>
    exact (allocRun_tr w).trans (runTargets_tr _ (engine_tr d _) d
      { runid := w.runCounter + 1, keepGoing := kg } _ ts [] false _)
  | targets => exact allocRun_tr w
  | sources => exact allocRun_tr w
  | ood =>
    unfold runCmd
    simp only
    have hfr := oodGo_frame (allocRun w).1 (2 * n + 4)
      ((knownFiles (allocRun w).2 n).filter (isTarget (allocRun w).2 (allocRun w).1)) (allocRun w).2 [] []
    generalize runCmd.go (allocRun w).1 (2 * n + 4) _ (allocRun w).2 [] [] = r at hfr ⊢
    obtain ⟨_, _, _, _, _, hprogs, hrules⟩ := hfr
    exact Tr.of_deps hrules hprogs rfl

/-- The side conditions under which a killed build is harmless: one .do candidate per target, no script that
watches (`redo-ifcreate`, conditional declarations), rows as `RowsM` says. -/
structure SK (w : World) : Prop where
  single : SingleDo w.rules
  noWatch : NoWatchP w
  rowsM : RowsM w

theorem SK.tr {w w' : World} (h : SK w) (t : Tr w w') : SK w' :=
  ⟨by rw [t.rules]; exact h.single, t.noWatch h.noWatch, t.rowsM h.noWatch h.rowsM⟩

theorem SK_init {rules : Nat → List Nat} (hS : SingleDo rules) : SK (initWorld rules) :=
  ⟨hS, (fun c sc h => by cases h), (fun x s h => by obtain ⟨d, hd, _⟩ := h; cases hd)⟩

/-- What the side conditions ask of an operation: a new script does not watch. -/
def NoWatchOp : UserOp → Prop
  | .setProg _ s => s.ifcreate = [] ∧ s.cond = []
  | _ => True

theorem applyOp_sk (d : Defects) (n : Nat) (op : UserOp) (w : World) (hop : NoWatchOp op) (h : SK w) :
    SK (applyOp d n op w).2 := by
  cases op with
  | write f v => exact h.tr (Tr.of_deps rfl rfl rfl)
  | remove f => exact h.tr (Tr.of_deps rfl rfl rfl)
  | chmod f =>
    show SK (match w.fs f with
      | some n => setFile w f (some { n with rest := n.rest + 1 })
      | none => w)
    cases w.fs f with
    | none => exact h
    | some n => exact h.tr (Tr.of_deps rfl rfl rfl)
  | hide f =>
    show SK (match w.fs f with
      | some n => { setFile w f none with stash := fun x => if x = f then some n else w.stash x }
      | none => w)
    cases w.fs f with
    | none => exact h
    | some n => exact h.tr (Tr.of_deps rfl rfl rfl)
  | unhide f =>
    show SK (match w.stash f with
      | some n => { setFile w f (some n) with stash := fun x => if x = f then none else w.stash x }
      | none => w)
    cases w.stash f with
    | none => exact h
    | some n => exact h.tr (Tr.of_deps rfl rfl rfl)
  | setProg c s =>
    refine ⟨h.single, ?_, h.rowsM⟩
    intro c' sc hc
    have hc' : (if c' = c then some s else w.progs c') = some sc := hc
    split at hc'
    · cases hc'; exact hop
    · exact h.noWatch c' sc hc'
  | cmd c => exact h.tr (runCmd_tr d n c w)
  | crashCmd ts t k => exact h.tr (crashCmd_tr d n ts t k w)

end RedoModel.Deps.Rich
