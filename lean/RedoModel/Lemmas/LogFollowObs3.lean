import RedoModel.Lemmas.LogFollowObs2
/-!
# The trace acceptor `Obs` against the `Sys` model — kernel-checked examples
-/
namespace RedoModel.LogFollow
open Obs

/-- The acceptor is started right for a follower entering at `enter insts ph`: same phase, no follower session
open, and — only if the build is already running — the current instance known. -/
def StartOk (insts : List (List Nat)) (ph : Phase) (o : OSt) : Prop :=
  o.phase = ph ∧ o.fol = none ∧ (ph = .building → insts ≠ [] → o.cur = some (insts.length - 1))

theorem Rel_of_StartOk {insts : List (List Nat)} {ph : Phase} {o : OSt} (h : StartOk insts ph o) :
    Rel (enter insts ph) o := Rel_enter insts ph o h.1 h.2.1 h.2.2

theorem StartOk_obsStart (insts : List (List Nat)) (ph : Phase) : StartOk insts ph (obsStart insts ph) :=
  ⟨rfl, rfl, fun _ h => by simp [obsStart, h]⟩

theorem StartOk_default (insts : List (List Nat)) : StartOk insts .idle {} :=
  ⟨rfl, rfl, (fun h => by cases h)⟩

theorem StartOk_lockedNoLog (insts : List (List Nat)) : StartOk insts .lockedNoLog { phase := .lockedNoLog } :=
  ⟨rfl, rfl, (fun h => by cases h)⟩

/-- The acceptor's verdict on a trace: `none` = accepted, `some (flag, index of the flagged event)`. -/
def verdict (o : OSt) (evs : List OEv) : Option (Flag × Nat) :=
  match orun o evs 0 with
  | .ok _ => none
  | .error x => some x

theorem verdict_none_iff (o : OSt) (evs : List OEv) : verdict o evs = none ↔ ∃ o', orun o evs 0 = .ok o' := by
  unfold verdict
  cases h : orun o evs 0 with
  | ok o' => simp
  | error x => simp

theorem stale_projection :
    obsOf (enter [[1]] .lockedNoLog) staleRun =
      [.enter true, .opened 0, .create 1, .unlock, .eof, .check false, .eof, .stop] ∧
    verdict (obsStart [[1]] .lockedNoLog) (obsOf (enter [[1]] .lockedNoLog) staleRun) = some (.staleOpen, 2) := by
  decide

theorem rebuild_projection :
    obsOf (enter [[1]] .idle) rebuildRun = [.enter false, .opened 0, .lock, .create 1, .unlock, .eof, .stop] ∧
    verdict {} (obsOf (enter [[1]] .idle) rebuildRun) = some (.rebuiltDuringFollow, 3) := by
  decide

theorem lateBuild_projection :
    obsOf (enter [] .idle) lateBuildRun = [.enter false, .lock, .create 0, .unlock, .eof, .stop] ∧
    verdict {} (obsOf (enter [] .idle) lateBuildRun) = some (.createAfterFree, 2) := by
  decide

theorem good_projection :
    obsOf (enter [[9], [1]] .building) goodRun =
      [.enter true, .opened 1, .unlock, .eof, .lock, .check true, .unlock, .eof, .check false, .eof, .stop] ∧
    verdict (obsStart [[9], [1]] .building) (obsOf (enter [[9], [1]] .building) goodRun) = none := by
  decide

theorem fresh_projection :
    obsOf (enter [] .lockedNoLog) freshRun = [.enter true, .eof, .create 0, .unlock, .check false, .opened 0, .eof, .stop] ∧
    verdict (obsStart [] .lockedNoLog) (obsOf (enter [] .lockedNoLog) freshRun) = none := by
  decide

/-- Started in the phase `building` without knowing the current instance, the acceptor raises a spurious
`wrongInstance`: the condition on the start state is needed. -/
theorem start_state_matters :
    verdict { phase := .building } (obsOf (enter [[9], [1]] .building) goodRun) = some (.wrongInstance, 1) := by
  decide

/-- The corner of the equivalence: a second build after the follower has returned.  Accepted by the acceptor
(rightly: the follower's session is over), not `SafeRun`, and the log at the name is no longer what was shown. -/
def afterStopRun : List Ev := [.fol, .fol, .fol, .fol, .fol] ++ [.lock, .create, .append 2, .unlock]

theorem afterStop_accepted :
    obsOf (enter [[1]] .idle) afterStopRun = [.enter false, .opened 0, .eof, .stop, .lock, .create 1, .unlock] ∧
    verdict {} (obsOf (enter [[1]] .idle) afterStopRun) = none ∧
    outcome (enter [[1]] .idle) afterStopRun = some (.stopped, [1], [2]) := by
  decide

theorem afterStop_not_safeRun : ¬ SafeRun (enter [[1]] .idle) afterStopRun := by
  intro h
  have := (complete_general [[1]] .idle afterStopRun _ h rfl rfl).1
  revert this; decide

/-! ### The tolerance branch of `create` (the follower's `opened i` logged before the builder's `create i`)

Outside the model (there the open of the new instance always follows its creation).  With the follower believing
the target locked, the swapped order is treated exactly like the true order; with the follower believing it free,
the swapped order is accepted although the true order is flagged `createAfterFree`. -/

theorem swap_ok (o : OSt) (f : FolSt) (i k : Nat) (hph : o.phase = .lockedNoLog) (hf : o.fol = some f)
    (hop : f.opened = none) (hw : f.wasLocked = true) :
    orun o [.opened i, .create i] k = orun o [.create i, .opened i] k ∧
    ∃ o', orun o [.create i, .opened i] k = .ok o' := by
  simp [orun, ostep, hph, hf, hop, hw]

theorem swap_hole (o : OSt) (f : FolSt) (i k : Nat) (hph : o.phase = .lockedNoLog) (hf : o.fol = some f)
    (hop : f.opened = none) (hw : f.wasLocked = false) :
    orun o [.opened i, .create i] k = .error (.createAfterFree, k + 1) ∧
    orun o [.create i, .opened i] k = .error (.createAfterFree, k) := by
  simp [orun, ostep, hph, hf, hop, hw]

/-- A run of the model that loses a line (the follower believes the target free, the build starts, the follower
opens the new instance, sees its end at once and returns), its projection (flagged), and the same trace with
`create`/`opened` swapped in the log (flagged as well, since the tolerance branch now looks at `wasLocked`). -/
theorem swap_hole_example :
    outcome (enter [] .idle) [.fol, .lock, .create, .fol, .fol, .append 1, .unlock] = some (.stopped, [], [1]) ∧
    obsOf (enter [] .idle) [.fol, .lock, .create, .fol, .fol, .append 1, .unlock] =
      [.enter false, .lock, .create 0, .opened 0, .eof, .stop, .unlock] ∧
    verdict {} [.enter false, .lock, .create 0, .opened 0, .eof, .stop, .unlock] = some (.createAfterFree, 2) ∧
    verdict {} [.enter false, .lock, .opened 0, .create 0, .eof, .stop, .unlock] = some (.createAfterFree, 3) := by
  decide

end RedoModel.LogFollow
