import RedoModel.Lemmas.DepsSoundR33
/-! Top-level commands: the between-commands invariant `Btw`, and what exit status 0 means. -/
namespace RedoModel.Deps.Rich
open RedoModel.Generated

/-- The invariant between commands: run ids in use are at most the run counter. -/
def Btw (rank : Nat → Nat) (w : World) : Prop := Base rank w.runCounter NoX w

theorem Inv_alloc {rank w} (h : Btw rank w) :
    Inv rank (w.runCounter + 1) NoX (allocRun w).2 ∧ NoFail (w.runCounter + 1) (allocRun w).2 := by
  have hb : Base rank w.runCounter NoX w := h
  have hck : ∀ f, (w.recs f).checked ≠ some (w.runCounter + 1) := fun f e => by
    have := hb.ckLe f _ e; omega
  have hch : ∀ f, (w.recs f).changed ≠ some (w.runCounter + 1) := fun f e => by
    have := hb.chLe f _ e; omega
  refine ⟨⟨⟨hb.rulesOk, hb.ranked, hb.richProgs, fun f ch e => Nat.le_succ_of_le (hb.chLe f ch e),
    fun f ck e => Nat.le_succ_of_le (hb.ckLe f ck e), hb.noCsum, hb.ovrSt, hb.srcNotGen, hb.fs0,
    ⟨hb.rec0.failed, hb.rec0.gen, fun e => absurd e (hck _), hb.rec0.stamp⟩, hb.rowsLt,
    hb.cPlain, hb.stampCh, hb.staticEx, hb.fsB, hb.stB, fun f e => absurd e (hck f),
    fun f e => absurd e (hch f), fun f k e => Nat.le_succ_of_le (hb.flLe f k e), ?_⟩, Nat.succ_pos _, ?_⟩, ?_⟩
  · intro t _ hrc hg
    exact hb.recA t (Or.inl id) hrc hg
  · intro f hv
    rcases hv.2 with e | e
    · exact absurd e (hck f)
    · exact absurd e (hch f)
  · intro f e
    have := hb.flLe f _ e; omega

theorem Good.upToDate {rank R X w t} (hi : Inv rank R X w) (hg : Good w R t) : UpToDateR w t :=
  good_upToDate (w' := w) hi rfl rfl (fun _ _ => rfl) (fun _ _ => ⟨rfl, rfl⟩) (rank t + 1) t (Nat.lt_succ_self _) hg

/-- The common part of `redo ts` and `redo-ifchange ts` at top level. -/
theorem top_run {rank N w} {cx : Ctx} (d : Defects) (hN : ∀ f, rank f < N) (h : Btw rank w)
    (hcx : cx.runid = w.runCounter + 1) (hcrash : cx.crash = none) (hcyc : cx.cycles = []) (ts : List Nat)
    (hts0 : ∀ t ∈ ts, t ≠ alwaysId) :
    (Btw rank (runTargets (engine d (2 * N + 4)) d cx (2 * N + 4) ts [] false (allocRun w).2).2 ∧
      (runTargets (engine d (2 * N + 4)) d cx (2 * N + 4) ts [] false (allocRun w).2).2.rules = w.rules) ∧
    ((runTargets (engine d (2 * N + 4)) d cx (2 * N + 4) ts [] false (allocRun w).2).1 = 0 →
      ∀ t ∈ ts, UpToDateR (runTargets (engine d (2 * N + 4)) d cx (2 * N + 4) ts [] false (allocRun w).2).2 t) := by
  obtain ⟨hi1, hnf1⟩ := Inv_alloc h
  have hjob : ∀ t w0, Inv rank (w.runCounter + 1) NoX w0 → rank t < N → t ≠ alwaysId →
      JobPostW rank (w.runCounter + 1) NoX t N none w0
        (jrStatus (buildJob (engine d (2 * N + 4)) d cx (2 * N + 4) t w0).1,
          (buildJob (engine d (2 * N + 4)) d cx (2 * N + 4) t w0).2) := by
    intro t w0 hi0 hlt ht0
    cases hr : cx.isRedo with
    | false =>
      exact (buildJob_spec (engine_spec rank _ d (2 * N + 4)) d hcx hr hcrash hi0 ht0 (fun _ hx => hx.elim) hlt none).weak
    | true =>
      have := hN t
      exact buildJob_forced_spec (n := 2 * N + 3) d hcx hr hcrash hcyc hi0 ht0 (by omega) hlt none
  obtain ⟨⟨a1, a2, a2'⟩, a3⟩ := runTargets_top d hjob ts [] false (allocRun w).2 hi1 (fun t ht => ⟨hN t, hts0 t ht⟩)
    (fun _ => ⟨hnf1, fun s hs => by simp at hs⟩)
  constructor
  · refine ⟨?_, a2'⟩
    show Base rank _ NoX _
    rw [a2]; exact a1.base
  · intro hz t ht
    exact ((a3 hz).2.2.1 t ht).upToDate a1

end RedoModel.Deps.Rich
