import RedoModel.Lemmas.DepsShift4
set_option linter.unusedSimpArgs false
/-!
# Well-formedness is preserved — part 1: primitives, the dirtiness check, the script

`BW R w`: every run id recorded in `w` is `≤ R`.  A process with run id `R` keeps it (it only
writes `R`, `0`, maxima with `R`, and copies of what it read).
-/
namespace RedoModel.Deps
open RedoModel.Generated

def BR (R : Nat) (r : Rec) : Prop :=
  (∀ c, r.checked = some c → c ≤ R) ∧ (∀ c, r.changed = some c → c ≤ R) ∧ (∀ c, r.failed = some c → c ≤ R)

def BW (R : Nat) (w : World) : Prop := R ≤ w.runCounter ∧ ∀ f, BR R (w.recs f)

theorem WF_iff_BW (w : World) : WF w ↔ BW w.runCounter w := ⟨fun h => ⟨Nat.le_refl _, h⟩, fun h => h.2⟩

theorem BR.mono {R R' : Nat} {r : Rec} (h : BR R r) (hle : R ≤ R') : BR R' r :=
  ⟨fun c hc => Nat.le_trans (h.1 c hc) hle, fun c hc => Nat.le_trans (h.2.1 c hc) hle,
   fun c hc => Nat.le_trans (h.2.2 c hc) hle⟩


/-- Only the three mark fields matter. -/
theorem BR.congr {R : Nat} {r r' : Rec} (h : BR R r) (h1 : r'.checked = r.checked) (h2 : r'.changed = r.changed)
    (h3 : r'.failed = r.failed) : BR R r' := by
  unfold BR; rw [h1, h2, h3]; exact h

theorem BW.of_recs {R : Nat} {w w' : World} (h : BW R w) (he : w'.recs = w.recs)
    (hrc : w'.runCounter = w.runCounter) : BW R w' := by
  refine ⟨hrc ▸ h.1, fun f => ?_⟩; rw [he]; exact h.2 f

theorem BW.setRec {R : Nat} {w : World} (h : BW R w) (f : Nat) {r : Rec} (hr : BR R r) : BW R (setRec w f r) := by
  refine ⟨h.1, fun g => ?_⟩
  simp only [Deps.setRec]
  split
  · exact hr
  · exact h.2 g

theorem BW.getRec {R : Nat} {w : World} (h : BW R w) (f : Nat) : BR R (getRec w R f) := by
  unfold Deps.getRec
  split
  · obtain ⟨h1, h2, h3⟩ := h.2 f
    refine ⟨h1, ?_, h3⟩
    intro c hc
    simp only [Option.some.injEq] at hc
    subst hc
    cases hx : (w.recs f).changed with
    | none => exact Nat.le_refl _
    | some c0 => have := h2 c0 hx; simp only; omega
  · exact h.2 f

theorem BW.addKnown {R : Nat} {w : World} (h : BW R w) (f : Nat) : BW R (addKnown w f) := by
  unfold Deps.addKnown
  split
  · exact h
  · exact BW.of_recs (w := Deps.setRec w f { (w.recs f) with row := w.nextRow })
      (h.setRec f ((h.2 f).congr rfl rfl rfl)) rfl rfl

theorem BW.addDep {R : Nat} {w : World} (h : BW R w) (t s : Nat) (m : Bool) : BW R (addDep w t s m) :=
  BW.of_recs (h.addKnown s) rfl rfl

theorem BR.setChanged {R : Nat} {r : Rec} (h : BR R r) : BR R (setChanged r R) := by
  obtain ⟨h1, _, _⟩ := h
  refine ⟨h1, ?_, ?_⟩ <;> simp [Deps.setChanged]

theorem BR.updateStamp {R : Nat} {r : Rec} (h : BR R r) (w : World) (f : Nat) : BR R (updateStamp w f r R) := by
  unfold Deps.updateStamp
  dsimp only
  split
  · exact h
  · exact (h.congr (r' := { r with stamp := some (readStamp w f) }) rfl rfl rfl).setChanged

theorem BR.setFailed {R : Nat} {r : Rec} (h : BR R r) (w : World) (f : Nat) : BR R (setFailed w f r R) := by
  obtain ⟨h1, h2, _⟩ := h.updateStamp w f
  refine ⟨h1, h2, ?_⟩
  simp [Deps.setFailed]

theorem BR.setStatic {R : Nat} {r : Rec} (h : BR R r) (w : World) (f : Nat) : BR R (setStatic w f r R) := by
  obtain ⟨h1, h2, _⟩ := h.updateStamp w f
  refine ⟨h1, h2, ?_⟩
  simp [Deps.setStatic]

theorem BR.setOverride {R : Nat} {r : Rec} (h : BR R r) (w : World) (f : Nat) : BR R (setOverride w f r R) := by
  obtain ⟨h1, h2, _⟩ := h.updateStamp w f
  refine ⟨h1, h2, ?_⟩
  simp [Deps.setOverride]

theorem BR.stampRec {R : Nat} {r : Rec} (h : BR R r) (data : Content) : BR R (stampRec r R data) := by
  obtain ⟨h1, h2, _⟩ := h
  unfold Deps.stampRec
  dsimp only
  split
  · refine ⟨h1, ?_, ?_⟩ <;> simp [Deps.setChanged]
  · refine ⟨?_, h2, ?_⟩ <;> simp

/-! ### The dirtiness check -/

theorem goDeps_bw {R : Nat} (chk : World → List Nat → Nat → Rec → DR × World × List Nat)
    (hchk : ∀ w c s r, BW R w → BR R r → BW R (chk w c s r).2.1) (hasCsum : Bool) (f : Nat) :
    ∀ (ds : List (Dep × Rec)) (w : World) (cache must : List Nat), BW R w → (∀ p ∈ ds, BR R p.2) →
      BW R (goDeps chk hasCsum f ds w cache must).2.1
  | [], w, cache, must, h, _ => by rw [goDeps]; exact h
  | (d, snap) :: ds, w, cache, must, h, hds => by
    have hds' : ∀ p ∈ ds, BR R p.2 := fun p hp => hds p (List.mem_cons_of_mem _ hp)
    rw [goDeps]
    by_cases hm : d.modeM = true
    · simp only [hm, if_true]
      have h1 := hchk w cache d.source snap h (hds (d, snap) List.mem_cons_self)
      generalize chk w cache d.source snap = r at h1
      obtain ⟨sub, w1, c1⟩ := r
      cases sub with
      | cyclic => exact h1
      | clean => exact goDeps_bw chk hchk hasCsum f ds w1 c1 must h1 hds'
      | dirty => exact h1
      | need ts => exact goDeps_bw chk hchk hasCsum f ds w1 c1 (must ++ ts) h1 hds'
    · simp only [hm, Bool.false_eq_true, if_false]
      by_cases hex : existsF w d.source = true
      · simp only [hex, if_true]; exact h
      · simp only [hex, Bool.false_eq_true, if_false]
        exact goDeps_bw chk hchk hasCsum f ds w cache must h hds'

theorem isDirty_bw (ood : Bool) (R : Nat) :
    ∀ (fuel : Nat) (w : World) (cache : List Nat) (f mx : Nat) (seen : List Nat) (pre : Option Rec),
      BW R w → (∀ s, pre = some s → BR R s) → BW R (isDirty ood R fuel w cache f mx seen pre).2.1
  | 0, w, cache, f, mx, seen, pre, h, _ => by rw [isDirty]; exact h
  | fuel + 1, w, cache, f, mx, seen, pre, h, hpre => by
    have hr : BR R (pre.getD (getRec w R f)) := by
      cases pre with
      | none => exact h.getRec f
      | some s => exact hpre s rfl
    cases ood with
    | true =>
      simp (config := { zeta := true, zetaHave := true }) only [isDirty, ↓reduceIte, Bool.false_eq_true]
      generalize pre.getD (getRec w R f) = r at hr ⊢
      split
      · exact h
      split
      · exact h
      split
      · exact h
      rename_i ch hch
      split
      · exact h
      split
      · exact h
      split
      · exact h
      split
      · dsimp only
        split
        · refine h.setRec f ⟨hr.1, hr.2.1, ?_⟩
          simp
        · exact h
      have hgd := goDeps_bw (R := R)
        (fun w2 cache s snap => isDirty true R fuel w2 cache s (max ch (r.checked.getD 0)) (f :: seen) (some snap))
        (fun w2 c s r2 hw2 hr2 => isDirty_bw true R fuel w2 c s _ (f :: seen) (some r2) hw2
          (fun s' hs' => by cases hs'; exact hr2))
        r.csum.isSome f (depsWithRecs w R r f) w cache [] h
        (by
          intro p hp
          simp only [depsWithRecs, List.mem_map] at hp
          obtain ⟨d, _, rfl⟩ := hp
          exact h.getRec d.source)
      generalize goDeps _ r.csum.isSome f (depsWithRecs w R r f) w cache [] = gr at hgd
      obtain ⟨o, w2, c2⟩ := gr
      cases o with
      | some dr => exact hgd
      | none =>
        simp only [Bool.not_true, Bool.and_false, Bool.false_eq_true, if_false]
        exact hgd
    | false =>
      simp (config := { zeta := true, zetaHave := true }) only [isDirty, ↓reduceIte, Bool.false_eq_true]
      generalize pre.getD (getRec w R f) = r at hr ⊢
      split
      · exact h
      split
      · exact h
      split
      · exact h
      rename_i ch hch
      split
      · exact h
      split
      · exact h
      split
      · exact h
      split
      · dsimp only
        split
        · refine h.setRec f ⟨hr.1, hr.2.1, ?_⟩
          simp
        · exact h
      have hgd := goDeps_bw (R := R)
        (fun w2 cache s snap => isDirty false R fuel w2 cache s (max ch (r.checked.getD 0)) (f :: seen) (some snap))
        (fun w2 c s r2 hw2 hr2 => isDirty_bw false R fuel w2 c s _ (f :: seen) (some r2) hw2
          (fun s' hs' => by cases hs'; exact hr2))
        r.csum.isSome f (depsWithRecs w R r f) w cache [] h
        (by
          intro p hp
          simp only [depsWithRecs, List.mem_map] at hp
          obtain ⟨d, _, rfl⟩ := hp
          exact h.getRec d.source)
      generalize goDeps _ r.csum.isSome f (depsWithRecs w R r f) w cache [] = gr at hgd
      obtain ⟨o, w2, c2⟩ := gr
      cases o with
      | some dr => exact hgd
      | none =>
        simp only [Bool.not_false, Bool.and_true]
        refine BW.setRec ?_ f ⟨?_, hr.2.1, hr.2.2⟩
        · split
          · exact BW.of_recs hgd rfl rfl
          · exact hgd
        · simp

theorem shouldBuild_bw {R : Nat} (cx : Ctx) (hcx : cx.runid = R) (fuel t : Nat) (w : World) (h : BW R w) :
    BW R (shouldBuild cx fuel t w).2 := by
  unfold shouldBuild
  rw [hcx]
  split
  · exact h
  · dsimp only
    split
    · exact h
    · have h1 := isDirty_bw false R fuel w [] t R [] none h (fun s hs => by cases hs)
      generalize isDirty false R fuel w [] t R [] none = r at h1
      obtain ⟨dr, w1, c⟩ := r
      exact h1

end RedoModel.Deps
