import RedoModel.Lemmas.DepsSoundR18
/-! The record written after a successful build of a target that was not good: the analogue of the
success case of `P.build_spec`. -/
namespace RedoModel.Deps.Rich

theorem OkFields.offT {R t out w w'} (hf : OkFields R t out w w') (hr : w.rules t ≠ []) : OffT t w w' := by
  refine ⟨hf.rules, hf.progs, hf.fs, fun h => absurd h hr, hf.recs, fun d hd => ?_, hf.clock, hf.rc⟩
  rw [hf.deps, List.mem_filter]
  simp [hd]

theorem OkFields.hasRow {R t out w w' s m} (hf : OkFields R t out w w') (h : HasRowU w t s m) : HasRow w' t s m := by
  obtain ⟨d, hd, h1, h2, h3, h4⟩ := h
  refine ⟨d, ?_, h1, h2, h3⟩
  rw [hf.deps, List.mem_filter]
  simp [hd, h4]

theorem OkFields.recOk {R t out w w'} (hf : OkFields R t out w w') (o : RecOk R t w) (hr : w.rules t ≠ [])
    (h0 : t ≠ alwaysId) : RecOk R t w' := by
  refine ⟨?_, ?_, hf.csum, (fun h => by rw [hf.ovr] at h; cases h), ?_, ?_, ?_, ?_, hf.fsB, ?_, ?_, ?_, ?_⟩
  · intro ch h; rw [hf.changed] at h; cases h; exact Nat.le_refl _
  · rw [hf.checked]; exact o.ckLe
  · intro h; rw [hf.rules] at h; exact absurd h hr
  · intro e; exact absurd e h0
  · intro _; rw [hf.changed]; simp
  · intro _ _ h; rw [hf.genT] at h; cases h
  · intro ms rest h
    rw [hf.stamp] at h
    cases hn : w'.fs t with
    | none => rw [readStamp_missing.2 hn] at h; cases h
    | some n =>
      have hrs : readStamp w' t = .st n.ms n.rest := by unfold readStamp; rw [hn]
      rw [hrs] at h; cases h
      exact ⟨hf.fsB n hn, fun n' hn' => by cases hn'; exact Or.inr ⟨rfl, Nat.le_refl _⟩⟩
  · intro _; exact hf.failed
  · intro _; exact Or.inl hf.failed
  · intro k h; rw [hf.failed] at h; cases h

/-- Everything known about the world `w` just before the result of a successful build of `t` is recorded. -/
structure Built (rank : Nat → Nat) (R t : Nat) (pre : List Nat) (dof : Nat) (post : List Nat) (sc : Script) (w : World) : Prop where
  notGood : ¬ Good w R t
  rules : w.rules t = pre ++ dof :: post
  pre : ∀ c ∈ pre, existsF w c = false ∧ HasRowU w t c false
  dofEx : existsF w dof = true
  dofRow : HasRowU w t dof true
  dofGood : Good w R dof
  script : scriptAt w dof = sc
  exit : sc.exit = 0
  noFail : failNowOf w sc = false
  decl : ∀ d ∈ sc.ifchange.flatten, Good w R d ∧ HasRowU w t d true
  alw : sc.always = true → HasRowU w t alwaysId true
  ic : ∀ d ∈ sc.ifcreate, existsF w d = false ∧ HasRowU w t d false
  cond : ∀ d ∈ sc.cond, (Good w R d ∧ HasRowU w t d true) ∨ (existsF w d = false ∧ HasRowU w t d false)
  shape : ∀ d ∈ w.deps, d.target = t → d.deleteMe = false →
    (d.modeM = false → existsF w d.source = false) ∧ (d.modeM = true → Good w R d.source)

theorem Built.ne {rank R X t pre dof post sc w} (hi : Inv rank R X w) (hb : Built rank R t pre dof post sc w) :
    w.rules t ≠ [] ∧ t ≠ alwaysId ∧ ∀ x, Good w R x → x ≠ t := by
  have h1 : w.rules t ≠ [] := by rw [hb.rules]; simp
  exact ⟨h1, fun e => h1 (e ▸ hi.base.rulesOk.1), fun x hx e => hb.notGood (e ▸ hx)⟩

/-- After the record is written, the script of `t` is the one in place and all its declarations are recorded. -/
theorem recordOk_vscript {rank R X t pre dof post sc w w'} (hi : Inv rank R X w)
    (hb : Built rank R t pre dof post sc w) (hf : OkFields R t (outOf w sc) w w') :
    VScript w' t pre dof post := by
  obtain ⟨hr, h0, hne⟩ := hb.ne hi
  have off := hf.offT hr
  have hdm : dof ∈ w.rules t := by rw [hb.rules]; simp
  have hplain : ∀ c ∈ w.rules t, w'.fs c = w.fs c :=
    fun c hc => off.fsPlain hi.base (hi.base.rulesOk.2 t c hc).1
  have hfsd := hplain dof hdm
  have hsc : scriptAt w' dof = sc := by rw [scriptAt_congr hfsd hf.progs]; exact hb.script
  have hra : sc.Rich := hb.script ▸ scriptAt_rich hi.base dof
  obtain ⟨_, hyg1, _⟩ := scriptAt_hyg hi.base hdm
  rw [hb.script] at hyg1
  have hnt : ∀ d, (d ∈ sc.ifchange.flatten ∨ d ∈ sc.cond ∨ d ∈ sc.ifcreate) → w'.fs d = w.fs d := by
    intro d hd
    exact hf.fs d (fun e => by have := (hyg1 d hd).1; rw [e] at this; exact Nat.lt_irrefl _ this)
  have hmap : sc.reads.map (contentOf w') = sc.reads.map (contentOf w) :=
    List.map_congr_left (fun d hd => contentOf_congr (hnt d ((hra.2.1 d hd).imp id Or.inl)))
  refine ⟨by rw [hf.rules]; exact hb.rules, fun c hc => ?_, by rw [existsF_congr hfsd]; exact hb.dofEx,
    hf.hasRow hb.dofRow, ?_, ?_, by rw [hsc]; exact hb.exit, ?_, ?_, ?_, ?_, ?_⟩
  · exact ⟨by rw [existsF_congr (hplain c (by rw [hb.rules]; simp [hc]))]; exact (hb.pre c hc).1,
      hf.hasRow (hb.pre c hc).2⟩
  · rw [hf.rules, firstEx_congr _ hplain, hb.rules]
    exact firstEx_split pre dof post (fun c hc => (hb.pre c hc).1) hb.dofEx
  · rw [hsc]; exact fun d hd => hf.hasRow (hb.decl d hd).2
  · rw [hsc, ← hb.noFail]; unfold failNowOf
    cases hfo : sc.failIfOdd with
    | none => rfl
    | some f => simp only; rw [contentOf_congr (hnt f (Or.inl (hra.2.2 f hfo)))]
  · rw [hsc, hf.content]; unfold outOf; rw [hmap]
  · rw [hsc]; exact fun ha => hf.hasRow (hb.alw ha)
  · rw [hsc]; exact fun d hd => ⟨by rw [existsF_congr (hnt d (Or.inr (Or.inr hd)))]; exact (hb.ic d hd).1,
      hf.hasRow (hb.ic d hd).2⟩
  · rw [hsc]; intro d hd
    rcases hb.cond d hd with ⟨_, h2⟩ | ⟨h1, h2⟩
    · exact Or.inl (hf.hasRow h2)
    · exact Or.inr ⟨by rw [existsF_congr (hnt d (Or.inr (Or.inl hd)))]; exact h1, hf.hasRow h2⟩

theorem recordOk_spec {rank R t pre dof post sc w w' b po} {X X' : Nat → Prop} (hi : Inv rank R X w)
    (hX : ∀ u, u ≠ t → ¬ X' u → ¬ X u) (hb : Built rank R t pre dof post sc w)
    (hf : OkFields R t (outOf w sc) w w') (hlt : rank t < b) :
    Inv rank R X' w' ∧ VerR w' R t ∧ BExt rank R b po w w' ∧ (NoFail R w → NoFail R w') := by
  obtain ⟨hr, h0, hne⟩ := hb.ne hi
  have off := hf.offT hr
  have hsub : ∀ d ∈ w'.deps, d ∈ w.deps := fun d hd => by
    rw [hf.deps, List.mem_filter] at hd; exact hd.1
  have hrs : RecCur w' t := ⟨hf.failed, by rw [hf.changed]; simp, hf.stamp⟩
  have hv : VerR w' R t := ⟨hf.failed, Or.inr hf.changed⟩
  have hb' := Base_upd (X' := X') hi.base off (hf.recOk (hi.base.recOk t) hr h0) hX
    (fun d hd => hi.base.rowsLt d (hsub d hd))
    (fun d hd hm => by rw [off.rules]; exact hi.base.cPlain d (hsub d hd) hm)
    (hdet_loud hi hb.notGood hf.changed)
    (fun _ _ _ => (recordOk_vscript hi hb hf).recTruth (by
      rw [scriptAt_congr (off.fsPlain hi.base (hi.base.rulesOk.2 t dof (by rw [hb.rules]; simp)).1) hf.progs]
      exact scriptAt_rich hi.base dof) hf.stamp (by
        rintro s ⟨d, hd, h1, h2, h3⟩ hgs hss
        rw [hf.deps, List.mem_filter] at hd
        obtain ⟨hd1, hd2⟩ := hd
        have hdm : d.deleteMe = false := by
          cases hx : d.deleteMe with
          | false => rfl
          | true => simp [h1, hx] at hd2
        have hg : Good w R s := h2 ▸ (hb.shape d hd1 h1 hdm).2 h3
        have e := hne s hg
        rw [hf.recs s e] at hss; rw [hf.fs s e]
        exact fs_none_of_cur (hg.recCur hi).2.2 hss))
    (fun _ hs => Or.inl (fs_none_of_cur hf.stamp hs))
  have hup : UpToDateR w' t := by
    refine (recordOk_vscript hi hb hf).upToDate hb' (fun d hd => ?_)
    rw [scriptAt_congr (off.fsPlain hi.base (hi.base.rulesOk.2 t dof (by rw [hb.rules]; simp)).1) hf.progs, hb.script] at hd
    exact good_upToDate hi hf.rules hf.progs (fun x hx => contentOf_congr (off.fsPlain hi.base hx))
      (fun x hx => ⟨contentOf_congr (hf.fs x (hne x hx)), by rw [hf.recs x (hne x hx)]⟩)
      (rank d + 1) d (Nat.lt_succ_self _) (hb.decl d hd).1
  have hver := Ver_upd hi off hb.notGood (fun _ => ⟨hrs, hup, fun _ d hd hdt => by
    rw [hf.deps, List.mem_filter] at hd
    obtain ⟨hd1, hd2⟩ := hd
    have hdm : d.deleteMe = false := by
      cases hx : d.deleteMe with
      | false => rfl
      | true => simp [hdt, hx] at hd2
    obtain ⟨s1, s2⟩ := hb.shape d hd1 hdt hdm
    refine ⟨fun hm => ?_, fun hm => ?_⟩
    · have hg : Good w R d.source := s2 hm
      exact (off.good (hne _ hg) R).2 hg
    · rw [existsF_congr (off.fsPlain hi.base (hi.base.cPlain d hd1 hm).1)]; exact s1 hm⟩)
  refine ⟨⟨hb', hi.Rpos, hver⟩, hv,
    off.toBExt hi.base hlt (fun h => absurd (Or.inl h) hb.notGood) (fun hc hg => absurd (Or.inr ⟨h0, hc, hg⟩) hb.notGood), ?_⟩
  intro hnf f
  by_cases e : f = t
  · subst e; rw [hf.failed]; simp
  · rw [hf.recs f e]; exact hnf f

/-- A forced rebuild of a target that already failed in this run succeeds: the record stays failed. -/
theorem recordKeep_spec {rank R t w w' b po out} {X X' : Nat → Prop} (hi : Inv rank R X w) (hng : ¬ Good w R t)
    (hX : ∀ u, u ≠ t → ¬ X' u → ¬ X u) (hfail : (w.recs t).failed = some R) (hch : (w.recs t).changed = some R)
    (hr : w.rules t ≠ []) (hf : KeepFields t out w w') (hlt : rank t < b) :
    Inv rank R X' w' ∧ BExt rank R b po w w' ∧ (w'.recs t).failed = some R := by
  have h0 : t ≠ alwaysId := fun e => hr (e ▸ hi.base.rulesOk.1)
  have hfail' : (w'.recs t).failed = some R := by rw [hf.failed]; exact hfail
  have off : OffT t w w' := by
    refine ⟨hf.rules, hf.progs, hf.fs, fun h => absurd h hr, hf.recs, fun d hd => ?_, hf.clock, hf.rc⟩
    rw [hf.deps, List.mem_filter]; simp [hd]
  have hsub : ∀ d ∈ w'.deps, d ∈ w.deps := fun d hd => by
    rw [hf.deps, List.mem_filter] at hd; exact hd.1
  have o := hi.base.recOk t
  have hok : RecOk R t w' := by
    refine ⟨?_, ?_, ?_, (fun h => by rw [hf.ovr] at h; cases h), ?_, fun e => absurd e h0, ?_, ?_, hf.fsB, ?_, ?_, ?_, ?_⟩
    · rw [hf.changed]; exact o.chLe
    · rw [hf.checked]; exact o.ckLe
    · rw [hf.csum]; exact o.noCsum
    · intro h; rw [hf.rules] at h; exact absurd h hr
    · intro _; rw [hf.changed, hch]; simp
    · intro _ h; rw [hfail'] at h; cases h
    · intro ms rest h
      rw [hf.stamp] at h
      cases hn : w'.fs t with
      | none => rw [readStamp_missing.2 hn] at h; cases h
      | some n =>
        have hrs : readStamp w' t = .st n.ms n.rest := by unfold readStamp; rw [hn]
        rw [hrs] at h; cases h
        exact ⟨hf.fsB n hn, fun n' hn' => by cases hn'; exact Or.inr ⟨rfl, Nat.le_refl _⟩⟩
    · intro h
      rw [hf.checked] at h
      have := o.ckFail h
      rw [hfail] at this; cases this
    · intro _; exact Or.inr hfail'
    · rw [hf.failed]; exact o.flLe
  have hb' := Base_upd (X' := X') hi.base off hok hX (fun d hd => hi.base.rowsLt d (hsub d hd))
    (fun d hd hm => by rw [off.rules]; exact hi.base.cPlain d (hsub d hd) hm)
    (hdet_loud hi hng (by rw [hf.changed]; exact hch))
    (fun _ hrc _ => by rw [hrc.1] at hfail'; cases hfail') (fun _ hs => Or.inl (fs_none_of_cur hf.stamp hs))
  exact ⟨⟨hb', hi.Rpos, Ver_upd hi off hng (fun hv => by rw [hv.1] at hfail'; cases hfail')⟩,
    off.toBExt hi.base hlt (fun hv => absurd (Or.inl hv) hng) (fun hc hg => absurd (Or.inr ⟨h0, hc, hg⟩) hng), hfail'⟩

end RedoModel.Deps.Rich
