import RedoModel.Lemmas.DepsSoundR31
/-! Forced rebuild of a verified generated target: assembling `startSelf`. -/
namespace RedoModel.Deps.Rich
open RedoModel.Generated

theorem verR_marked {rank R X w t} (hi : Inv rank R X w) (hv : VerR w R t) :
    (isCheckedR (w.recs t) R || isChangedR (w.recs t) R) = true := by
  have hR := hi.Rpos
  rcases hv.2 with h | h
  · have : isCheckedR (w.recs t) R = true := by
      unfold isCheckedR; rw [h]
      simp only [Bool.and_eq_true, bne_iff_ne, ne_eq, decide_eq_true_eq]; omega
    rw [this]; rfl
  · have : isChangedR (w.recs t) R = true := by
      unfold isChangedR; rw [h]
      simp only [Bool.and_eq_true, bne_iff_ne, ne_eq, decide_eq_true_eq]; omega
    rw [this]; simp

theorem startSelf_idem_rec {rank t w w2 w5 b pre dof post tm tc} {cx : Ctx} (hlt : rank t < b) (po : Option Nat)
    (p2 : Inv rank cx.runid NoX w2) (p3 : RowOp t w w2) (p4 : ∀ c ∈ pre, HasRowU w2 t c false)
    (p5 : HasRowU w2 t dof true)
    (hv2 : VerR w2 cx.runid t) (hg2 : genT (w2.recs t) = true) (vs2 : VScript w2 t pre dof post)
    (S : IdemStep2 rank cx.runid t tm tc w2 ((0 : Status), w5))
    (m1 : ∀ x ∈ (scriptAt w2 dof).ifchange.flatten, x ∈ tm) (m2 : (scriptAt w2 dof).always = true → alwaysId ∈ tm)
    (m3 : ∀ x ∈ (scriptAt w2 dof).ifcreate, x ∈ tc)
    (m4 : ∀ x ∈ (scriptAt w2 dof).cond, x ∈ tm ∨ (existsF w2 x = false ∧ x ∈ tc))
    (hyg3 : ∀ x, (x ∈ (scriptAt w2 dof).cond ∨ x ∈ (scriptAt w2 dof).ifcreate) → w2.rules x = []) :
    JobPost rank cx.runid NoX t b po w (recordNewState cx t (w.recs t) 0 (outOf w5 (scriptAt w2 dof)) w5) := by
  have hv5 := (S.bext.ver t hv2).1
  have hg5 : genT (w5.recs t) = true := by rw [(S.bext.ver t hv2).2.2]; exact hg2
  have hcand : ∀ c ∈ w2.rules t, w5.fs c = w2.fs c := fun c hc => S.bext.plain c (p2.base.rulesOk.2 t c hc).1
  have hdm2 : dof ∈ w2.rules t := by rw [vs2.rules]; simp
  have hsc5 : scriptAt w5 dof = scriptAt w2 dof := scriptAt_congr (hcand dof hdm2) S.bext.progs
  obtain ⟨h0, hf⟩ := recordKeep_fields cx t (w.recs t) (outOf w5 (scriptAt w2 dof)) w5 (verR_marked S.inv hv5)
  rw [← hsc5] at hf
  obtain ⟨a1, a2, a3⟩ := recordIdem_spec (b := b) (po := po) (pre := pre) (dof := dof) (post := post) S.inv hv5 hg5
    (by rw [S.bext.rules]; exact vs2.rules)
    (fun c hc => ⟨by rw [existsF_congr (hcand c (by rw [vs2.rules]; simp [hc]))]; exact (vs2.pre c hc).1,
      S.carry hv2 hg2 (p4 c hc)⟩)
    (by rw [existsF_congr (hcand dof hdm2)]; exact vs2.dofEx)
    (S.carry hv2 hg2 p5)
    (by rw [hsc5]; exact fun x hx => S.rowsM x (m1 x hx))
    (by rw [hsc5]; exact fun ha => S.rowsM _ (m2 ha))
    (by rw [hsc5]; exact fun x hx => S.rowsC x (m3 x hx))
    (by
      rw [hsc5]; intro x hx
      rcases m4 x hx with h | ⟨h1, h2⟩
      · exact Or.inl (S.rowsM x h)
      · exact Or.inr ⟨by rw [existsF_congr (S.bext.plain x (hyg3 x (Or.inl hx)))]; exact h1, S.rowsC x h2⟩)
    hf hlt
  rw [hsc5] at a1 a2 a3
  refine ⟨a1, ((p3.toBExt hlt).trans (S.bext.lift hlt)).trans a3, fun _ => Or.inl a2, fun hn _ => ?_, ?_⟩
  · have hn5 : NoFail cx.runid w5 := S.noFail (hn.eqv p3.eqv : NoFail cx.runid { w2 with deps := w.deps })
    intro f
    by_cases e : f = t
    · subst e; rw [hsc5] at hf; rw [hf.failed]; exact hn5 f
    · rw [hsc5] at hf; rw [hf.recs f e]; exact hn5 f
  · rw [h0]; exact CRASHED_ne_zero

theorem startSelf_idem_aux {rank t w w2 w5 b pre dof post tm tc} {cx : Ctx} (hlt : rank t < b) (po : Option Nat)
    (p2 : Inv rank cx.runid NoX w2) (p3 : RowOp t w w2) (p4 : ∀ c ∈ pre, HasRowU w2 t c false)
    (p5 : HasRowU w2 t dof true)
    (hv2 : VerR w2 cx.runid t) (hg2 : genT (w2.recs t) = true) (vs2 : VScript w2 t pre dof post)
    (S : IdemStep2 rank cx.runid t tm tc w2 ((0 : Status), w5))
    (m1 : ∀ x ∈ (scriptAt w2 dof).ifchange.flatten, x ∈ tm) (m2 : (scriptAt w2 dof).always = true → alwaysId ∈ tm)
    (m3 : ∀ x ∈ (scriptAt w2 dof).ifcreate, x ∈ tc)
    (m4 : ∀ x ∈ (scriptAt w2 dof).cond, x ∈ tm ∨ (existsF w2 x = false ∧ x ∈ tc)) :
    JobPost rank cx.runid NoX t b po w
      (if (scriptEnd (scriptAt w2 dof) ((0 : Status), w5)).fst = CRASHED then
        (CRASHED, (scriptEnd (scriptAt w2 dof) ((0 : Status), w5)).2.snd)
      else recordNewState cx t (w.recs t) (scriptEnd (scriptAt w2 dof) ((0 : Status), w5)).fst
        (scriptEnd (scriptAt w2 dof) ((0 : Status), w5)).2.fst (scriptEnd (scriptAt w2 dof) ((0 : Status), w5)).2.snd) := by
  have hdm2 : dof ∈ w2.rules t := by rw [vs2.rules]; simp
  have hra : (scriptAt w2 dof).Rich := scriptAt_rich p2.base dof
  obtain ⟨_, _, hyg3⟩ := scriptAt_hyg p2.base hdm2
  have hgoodc : ∀ x, Good w2 cx.runid x → contentOf w5 x = contentOf w2 x := by
    intro x hx
    rcases hx with h | ⟨_, h1, h2⟩
    · exact (S.bext.ver x h).2.1
    · exact contentOf_congr (S.bext.stat x h1 h2).2.2
  have hfn5 : failNowOf w5 (scriptAt w2 dof) = false := by
    rw [← vs2.noFail]; unfold failNowOf
    cases hfo : (scriptAt w2 dof).failIfOdd with
    | none => rfl
    | some f => simp only; rw [hgoodc f ((vs2.decl f (hra.2.2 f hfo)).good p2 hv2 hg2)]
  have hnc : ((0 : Nat) : Int) ≠ CRASHED := CRASHED_ne_zero
  unfold scriptEnd
  simp only [ne_eq, not_true_eq_false, if_false, vs2.exit, hnc, hfn5, Bool.false_eq_true]
  rw [show ((0 : Nat) : Int) = 0 from rfl]
  exact startSelf_idem_rec hlt po p2 p3 p4 p5 hv2 hg2 vs2 S m1 m2 m3 m4 hyg3

theorem startSelf_idem {rank R t w b n} {cx : Ctx} (d : Defects) (hcx : cx.runid = R) (hcrash : cx.crash = none)
    (hcyc : cx.cycles = []) (hi : Inv rank R NoX w) (hv : VerR w R t) (hg : genT (w.recs t) = true)
    (hfuel : rank t ≤ n + 1) (hlt : rank t < b) (po : Option Nat) :
    JobPost rank R NoX t b po w (startSelf (engine d (n + 1)) d cx t (w.recs t) w) := by
  obtain ⟨pre, dof, post, vs⟩ := verR_script hi hv hg
  obtain ⟨hgr, hor⟩ := genT_true.1 hg
  rw [startSelf_eq, ssGuard_noop cx t (w.recs t) w (Or.inr (Or.inl ⟨hor, (hi.ver t hv).1.2.2⟩))]
  simp only [hor, Bool.false_or, Bool.not_false, hgr, Bool.not_true, Bool.and_false, Bool.false_eq_true, if_false]
  subst hcx
  obtain ⟨p1, p2, p3, p4, p5, p6, p7⟩ := idem_prep hi hv hg vs.rules vs.pre vs.dofEx vs.dofRow
  unfold ssBuild
  simp only
  generalize findDoFile t ((zapDeps1 w t).rules t) (zapDeps1 w t) = fr at p1 p2 p3 p4 p5 p6 p7 ⊢
  obtain ⟨o, w2⟩ := fr
  dsimp only at p1 p2 p3 p4 p5 p6 p7
  subst p1
  simp only
  have hv2 := (p3.verR cx.runid t).2 hv
  have hg2 : genT (w2.recs t) = true := by rw [p3.eqv.genT]; exact hg
  have vs2 : VScript w2 t pre dof post := vs.congr' p3.fs (fun x s m => p7 x s m) p3.rules p3.progs
  obtain ⟨w5, tm, tc, S, heq, m1, m2, m3, m4⟩ := idem_run (n := n) (cx := cx) d rfl hcrash hcyc p2 hv2 hg2 hfuel vs2
  show JobPost rank cx.runid NoX t b po w
    (if (runScript (engine d (n + 1)) d cx t (scriptAt w2 dof) (startW w2 cx.runid t dof)).fst = CRASHED then
      (CRASHED, (runScript (engine d (n + 1)) d cx t (scriptAt w2 dof) (startW w2 cx.runid t dof)).2.snd)
    else recordNewState cx t (w.recs t)
      (runScript (engine d (n + 1)) d cx t (scriptAt w2 dof) (startW w2 cx.runid t dof)).fst
      (runScript (engine d (n + 1)) d cx t (scriptAt w2 dof) (startW w2 cx.runid t dof)).2.fst
      (runScript (engine d (n + 1)) d cx t (scriptAt w2 dof) (startW w2 cx.runid t dof)).2.snd)
  rw [heq]
  exact startSelf_idem_aux hlt po p2 p3 p4 p5 hv2 hg2 vs2 S m1 m2 m3 m4

end RedoModel.Deps.Rich
