import RedoModel.Lemmas.DepsSoundS31
/-! Forced rebuild of a verified generated target: assembling `startSelf`. -/
namespace RedoModel.Deps.S
open RedoModel.Generated

theorem verR_marked {rank R X w t} (hi : Inv rank R X w) (hv : VerR w R t) :
    (isCheckedR (w.recs t) R || isChangedR (w.recs t) R) = true := by
  have hR := hi.Rpos
  rcases hv.2 with h | h
  · have : isCheckedR (w.recs t) R = true := by
      unfold isCheckedR; rw [h]
      simp only [Bool.and_eq_true, bne_iff_ne, ne_eq, decide_eq_true_eq]; omega
    rw [this]; rfl
  · have : isChangedR (w.recs t) R = true := by
      unfold isChangedR; rw [h]
      simp only [Bool.and_eq_true, bne_iff_ne, ne_eq, decide_eq_true_eq]; omega
    rw [this]; simp

theorem recordIdem_fields (cx : Ctx) (t : Nat) (sf : Rec) (sc : Script) (w5 : World) (hpl : sc.PlainS)
    (hR : 0 < cx.runid) (hm : (isCheckedR (w5.recs t) cx.runid || isChangedR (w5.recs t) cx.runid) = true)
    (hfail : (w5.recs t).failed = none) :
    (recordNewState cx t sf 0 (outOf w5 sc) (stampW cx t sc w5)).1 = 0 ∧
    IdemFields cx.runid t (outOf w5 sc) w5 (recordNewState cx t sf 0 (outOf w5 sc) (stampW cx t sc w5)).2 := by
  rcases hpl.2.2.2.1 with hs | hs
  · rw [stampW_zero hs]
    obtain ⟨h0, hf⟩ := recordKeep_fields cx t sf (outOf w5 sc) w5 hm
    exact ⟨h0, hf.toIdem hfail⟩
  · have hom : sc.outMode ≠ 2 := hpl.2.2.2.2.2.2 hs
    have hout : outOf w5 sc = some (outContent sc.tag (sc.reads.map (contentOf w5))) := by
      unfold outOf; simp [hom]
    rw [hout]
    obtain ⟨h0, hf⟩ := recordStamp_fields cx t sf sc w5 hs hR _ rfl
    refine ⟨h0, ?_⟩
    rcases hf with ⟨_, hf⟩ | ⟨_, hf⟩
    · exact hf.toIdem
    · exact hf.toIdem

theorem startSelf_idem {rank R t w b n} {cx : Ctx} (d : Defects)
    (hd1 : d.oobRecordsDepsOnCaller = false) (hd2 : d.oobRebuildsDepsNotTarget = false) (hcx : cx.runid = R) (hcrash : cx.crash = none)
    (hcyc : cx.cycles = []) (hi : Inv rank R NoX w) (hv : VerR w R t) (hg : (w.recs t).isGenerated = true)
    (hfuel : rank t ≤ n + 1) (hlt : rank t < b) (po : Option Nat) :
    JobPost rank R NoX t b po w (startSelf (engine d (n + 1)) d cx t (w.recs t) w) := by
  obtain ⟨pre, dof, post, hr, hpre, hdex, hgd, hdrow, hfe, hrd, hexit, hcont⟩ := verR_script hi hv hg
  rw [startSelf_eq, ssGuard_noop hi.base]
  simp only [hi.base.noOvr t, Bool.false_or, Bool.not_false, hg, Bool.not_true, Bool.and_false, Bool.false_eq_true, if_false]
  subst hcx
  obtain ⟨p1, p2, p3, p4, p5, p6, p7⟩ := idem_prep hi hv hg hr hpre hdex hdrow
  unfold ssBuild
  simp only
  generalize findDoFile t ((zapDeps1 w t).rules t) (zapDeps1 w t) = fr at p1 p2 p3 p4 p5 p6 p7 ⊢
  obtain ⟨o, w2⟩ := fr
  dsimp only at p1 p2 p3 p4 p5 p6 p7
  subst p1
  simp only
  have hrules2 : w2.rules = w.rules := p3.rules
  have hdm2 : dof ∈ w2.rules t := by rw [hrules2, hr]; simp
  have hv2 := (p3.verR cx.runid t).2 hv
  have hg2 : (w2.recs t).isGenerated = true := by rw [p3.eqv.gen]; exact hg
  have hsc2 : scriptAt w2 dof = scriptAt w dof := p3.scriptAt dof
  have hplain : (scriptAt w dof).PlainS := scriptAt_plain hi.base dof
  have hreads : (scriptAt w dof).reads = (scriptAt w dof).ifchange.flatten := hplain.2.2.2.2.2.1
  obtain ⟨q1, q2⟩ := idem_script (n := n) (cx := cx) d hd1 hd2 rfl hcrash hcyc p2 hv2 hg2 hdm2
    (by rw [p3.existsF]; exact hdex) hfuel (by
      rw [hsc2, ← hreads]
      intro x hx
      exact ⟨(hrd x hx).2.rank_lt hi.base, (p3.good _ x).2 (hrd x hx).1, (p7 _ _ _).2 (hrd x hx).2⟩)
  show JobPost rank cx.runid NoX t b po w
    (if (runScript (engine d (n + 1)) d cx t (scriptAt (ev (setRec w2 dof (setStatic w2 dof (w2.recs dof) cx.runid)) (Ev.ran t)) dof)
          (ev (setRec w2 dof (setStatic w2 dof (w2.recs dof) cx.runid)) (Ev.ran t))).fst = CRASHED then
      (CRASHED, (runScript (engine d (n + 1)) d cx t (scriptAt (ev (setRec w2 dof (setStatic w2 dof (w2.recs dof) cx.runid)) (Ev.ran t)) dof)
          (ev (setRec w2 dof (setStatic w2 dof (w2.recs dof) cx.runid)) (Ev.ran t))).2.snd)
    else recordNewState cx t (w.recs t)
      (runScript (engine d (n + 1)) d cx t (scriptAt (ev (setRec w2 dof (setStatic w2 dof (w2.recs dof) cx.runid)) (Ev.ran t)) dof)
          (ev (setRec w2 dof (setStatic w2 dof (w2.recs dof) cx.runid)) (Ev.ran t))).fst
      (runScript (engine d (n + 1)) d cx t (scriptAt (ev (setRec w2 dof (setStatic w2 dof (w2.recs dof) cx.runid)) (Ev.ran t)) dof)
          (ev (setRec w2 dof (setStatic w2 dof (w2.recs dof) cx.runid)) (Ev.ran t))).2.fst
      (runScript (engine d (n + 1)) d cx t (scriptAt (ev (setRec w2 dof (setStatic w2 dof (w2.recs dof) cx.runid)) (Ev.ran t)) dof)
          (ev (setRec w2 dof (setStatic w2 dof (w2.recs dof) cx.runid)) (Ev.ran t))).2.snd)
  rw [q1, hsc2] at *
  rw [runScript_plainS _ _ _ _ _ _ hplain hcrash]
  generalize runScript.cmds (engine d (n + 1)) cx t (childCx cx t) (scriptAt w dof).ifchange 0
    (ev (setRec w2 dof (setStatic w2 dof (w2.recs dof) cx.runid)) (Ev.ran t)) = cr at q2 ⊢
  obtain ⟨rv, w5⟩ := cr
  obtain ⟨s1, s2, s3, s4, s5, s6, s7⟩ := q2
  dsimp only at s1 s2 s3 s4 s5 s6 s7 ⊢
  subst s1
  have hnc : ((0 : Nat) : Int) ≠ CRASHED := CRASHED_ne_zero
  simp only [ne_eq, not_true_eq_false, if_false, hexit, hnc]
  rw [show ((0 : Nat) : Int) = 0 from rfl]
  have hv5 := (s3.ver t hv2).1
  have hg5 : (w5.recs t).isGenerated = true := by rw [(s3.ver t hv2).2.2]; exact hg2
  have hrules5 : w5.rules = w.rules := s3.rules.trans hrules2
  have hplainfs : ∀ x, w.rules x = [] → w5.fs x = w.fs x := fun x hx =>
    (s3.plain x (by rw [hrules2]; exact hx)).trans (congrFun p3.fs x)
  have hcand : ∀ c ∈ w.rules t, w5.fs c = w.fs c := fun c hc => hplainfs c (hi.base.rulesOk.2 t c hc).1
  have hsc5 : scriptAt w5 dof = scriptAt w dof :=
    scriptAt_congr (hcand dof (by rw [hr]; simp)) (s3.progs.trans p3.progs)
  obtain ⟨h0, hf⟩ := recordIdem_fields cx t (w.recs t) (scriptAt w dof) w5 hplain hi.Rpos (verR_marked s2 hv5) hv5.1
  rw [← hsc5] at hf
  obtain ⟨a1, a2, a3⟩ := recordIdem_spec (b := b) (po := po) (pre := pre) (dof := dof) (post := post) s2 hv5 hg5
    (by rw [hrules5]; exact hr)
    (fun c hc => by
      have hcm : c ∈ w.rules t := by rw [hr]; simp [hc]
      have habs : existsF w5 c = false := by rw [existsF_congr (hcand c hcm)]; exact (hpre c hc).1
      refine ⟨habs, s4.2 c false (p4 c hc) (fun hin => ?_)⟩
      exfalso
      rw [← hreads] at hin
      have hcP := (hi.base.rulesOk.2 t c hcm).1
      have := static_exists hi.base ((hrd c hin).1.recCur hi) (hi.base.srcNotGen c hcP)
      rw [(hpre c hc).1] at this; cases this)
    (by rw [existsF_congr (hcand dof (by rw [hr]; simp))]; exact hdex)
    (s4.2 dof true p5 (fun _ => rfl))
    (by rw [hsc5, hreads]; exact s5) hf hlt
  rw [hsc5] at a1 a2 a3
  refine ⟨a1, ((p3.toBExt hlt).trans (s3.lift hlt)).trans a3, fun _ => Or.inl a2, fun hn _ => ?_, ?_⟩
  · have hn5 : NoFail cx.runid w5 := s7 (hn.eqv p3.eqv : NoFail cx.runid { w2 with deps := w.deps })
    intro f
    by_cases e : f = t
    · subst e; rw [hsc5] at hf; rw [hf.failed]; simp
    · rw [hsc5] at hf; rw [hf.recs f e]; exact hn5 f
  · rw [h0]; exact CRASHED_ne_zero

end RedoModel.Deps.S
