import RedoModel.Lemmas.DepsSoundS41
/-! Non-vacuity of `noStaleStamp_partial`, first history: after `top` was built, the user removes the file of the
checksummed `mid`; `redo-ifchange top` rebuilds `mid` out of band, its checksum is unchanged, `top` is *not* rebuilt,
the command exits 0 — and `top` is up to date. -/
namespace RedoModel.Deps.S
open RedoModel.Generated

theorem mergeSort_pairS {α} (a b : α) (le : α → α → Bool) :
    [a, b].mergeSort le = if le a b then [a, b] else [b, a] := by
  simp [List.mergeSort, List.merge, List.MergeSort.Internal.splitInTwo]

/-- Evaluation set for concrete runs (the kernel cannot unfold `List.mergeSort`, so `decide` is of no use). -/
macro "eval_runS" : tactic => `(tactic|
  simp (config := { zeta := true, zetaHave := true, decide := true, maxSteps := 2000000 }) [sW, sOps0, midS, topS, sRules, runCmd, allocRun, applyOp, initWorld, engine, runTargets,
    buildJob, shouldBuild, isDirty, goDeps, startSelf, recordNewState, runScript, runScript.cmds, runScript.conds,
    ifchangeWith, findDoFile, addDep, addKnown, setRec, setFile, ev, getRec, readStamp, existsF, newNode,
    srcContent, outContent, depsWithRecs, depsOf, zapDeps1, zapDeps2, updateStamp, setChanged, setStatic, setFailed,
    setOverride, detectOverride, isCheckedR, isChangedR, isFailedR, alwaysId, mergeSort_pairS, CRASHED,
    EXIT_CYCLIC_DEPENDENCY, EXIT_TARGET_FAILED, EXIT_FAILURE, stampRec, List.eraseDups_cons, List.eraseDups_nil])

def sOpsA : List UserOp := sOps0 ++ [.remove 3]
def sResA : Result × World := runCmd {} 3 (.ifchange [4] false) (sW sOpsA)

set_option maxHeartbeats 1000000 in
theorem sA_status : sResA.1.status = 0 := by
  unfold sResA sOpsA
  eval_runS

set_option maxHeartbeats 1000000 in
/-- Only `mid` (3) ran in the last command: before it the trace was `[ran 3, ran 4]` (the first build). -/
theorem sA_trace : sResA.2.trace = [.ran 3, .ran 3, .ran 4] := by
  unfold sResA sOpsA
  eval_runS

theorem sA_hyps : (∀ op ∈ sOpsA, PlainOpS sRules op) ∧
    (∀ w ∈ worldsOf 3 {} (initWorld sRules) sOpsA, Ranked sRank w) ∧
    OpsOk 3 (initWorld sRules) sOpsA ∧ RedoKOk 3 (initWorld sRules) sOpsA := sFull_hyps (.remove 3) (by simp [PlainOpS, alwaysId]) trivial trivial
  (s_ranked_setFile 3 (by decide) (sW sOps0) sOps0_btw.1.ranked sOps0_btw.2 _ rfl rfl
    (fun x hx => by show (setFile (sW sOps0) 3 none).fs x = _; simp [setFile, hx]))

/-- Non-vacuity of `noStaleStamp_partial` (out-of-band rebuild with unchanged checksum: the dependent is not rebuilt). -/
example : UpToDateD sResA.2 4 :=
  noStaleStamp_partial 3 sRules sRank sOpsA [4] false false s_rulesOk sA_hyps.1 sA_hyps.2.1 s_rankLt sA_hyps.2.2.1
    sA_hyps.2.2.2 sA_status 4 (by simp)

end RedoModel.Deps.S
