import RedoModel.Lemmas.DepsQuiet7
/-! The dirtiness check and a settled set: whatever it is asked, it only writes `checked` marks on members (frame);
asked about a member with a bound that covers the member's `changed` mark, it answers clean (or runs out of fuel). -/
namespace RedoModel.Deps.Rich

/-- Frame of the dirtiness check with respect to the members of `S`. -/
structure DExtS (R' : Nat) (S : Nat → Prop) (w w' : World) : Prop where
  same : SameButRecs w w'
  recs : ∀ x, S x → (w'.recs x = w.recs x ∨ w'.recs x = { w.recs x with checked := some R' })
  ran : ∀ t, Ev.ran t ∈ w'.trace → Ev.ran t ∈ w.trace

theorem DExtS.refl (R' : Nat) (S : Nat → Prop) (w : World) : DExtS R' S w w :=
  ⟨SameButRecs.refl w, fun _ _ => Or.inl rfl, fun _ h => h⟩

theorem DExtS.trans {R' S a b c} (h1 : DExtS R' S a b) (h2 : DExtS R' S b c) : DExtS R' S a c := by
  refine ⟨h1.same.trans h2.same, fun x hx => ?_, fun t h => h1.ran t (h2.ran t h)⟩
  rcases h1.recs x hx with e1 | e1 <;> rcases h2.recs x hx with e2 | e2
  · exact Or.inl (e2.trans e1)
  · exact Or.inr (by rw [e2, e1])
  · exact Or.inr (by rw [e2, e1])
  · exact Or.inr (by rw [e2, e1])

theorem DExtS.toRel {R' S w w'} (h : DExtS R' S w w') : SRel R' S w w' := by
  refine ⟨fun d _ => by rw [h.same.2.1], h.same.2.2.2.2.2.2, fun x hx => ?_, fun f _ => congrFun h.same.1 f,
    fun t _ => h.ran t⟩
  rcases h.recs x hx with e | e <;> rw [e]
  · exact RecKeep.refl _ _
  · exact ⟨rfl, rfl, rfl, Or.inr rfl, id⟩

theorem DExtS.setRec_out {R' S w w'} (h : DExtS R' S w w') {f : Nat} (r : Rec) (hf : ¬ S f) :
    DExtS R' S w (setRec w' f r) :=
  ⟨h.same.trans (SameButRecs.setRec w' f r), fun x hx => by
    have : x ≠ f := fun e => hf (e ▸ hx)
    simp only [setRec, this, if_false]; exact h.recs x hx, h.ran⟩

theorem DExtS.mark {R' S w w'} (h : DExtS R' S w w') (f : Nat) :
    DExtS R' S w (setRec w' f { w.recs f with checked := some R' }) :=
  ⟨h.same.trans (SameButRecs.setRec w' f _), fun x hx => by
    by_cases e : x = f
    · subst e; right; simp [setRec]
    · simp only [setRec, e, if_false]; exact h.recs x hx, h.ran⟩

theorem DExtS.mark' {R' S w w'} (h : DExtS R' S w w') (f : Nat) (r' : Rec)
    (e : r' = { w.recs f with checked := some R' }) : DExtS R' S w (setRec w' f r') := e ▸ h.mark f

theorem DExtS.evWarn {R' S w w'} (h : DExtS R' S w w') (f : Nat) : DExtS R' S w (ev w' (.warnOverride f)) :=
  ⟨h.same.trans (SameButRecs.ev w' _), h.recs, fun t ht => by
    simp only [ev, List.mem_cons] at ht
    rcases ht with e | ht
    · cases e
    · exact h.ran t ht⟩

/-- The working copy of a member's record: the record but for an older `checked`. -/
def SnapS (w : World) (f : Nat) (r : Rec) : Prop := ∃ c, r = { w.recs f with checked := c }

theorem SnapS.ext {R' S w w' f r} (hs : SnapS w f r) (h : DExtS R' S w w') (hf : S f) : SnapS w' f r := by
  obtain ⟨c, e⟩ := hs
  refine ⟨c, ?_⟩
  rcases h.recs f hf with e1 | e1 <;> rw [e1, e]

theorem goDeps_frameS {R' S} (chk : World → List Nat → Nat → Rec → DR × World × List Nat)
    (hchk : ∀ w cache s snap, SSet R' S w → (S s → SnapS w s snap) → DExtS R' S w (chk w cache s snap).2.1)
    (hc : Bool) (f : Nat) :
    ∀ (ds : List (Dep × Rec)) (w : World) (cache must : List Nat), SSet R' S w →
      (∀ p ∈ ds, S p.1.source → SnapS w p.1.source p.2) → DExtS R' S w (goDeps chk hc f ds w cache must).2.1
  | [], w, cache, must, _, _ => by simp [goDeps, DExtS.refl]
  | (d, snap) :: ds, w, cache, must, hq, hds => by
    rw [goDeps]
    have htl : ∀ w1, DExtS R' S w w1 → ∀ p ∈ ds, S p.1.source → SnapS w1 p.1.source p.2 :=
      fun w1 hx p hp hs => (hds p (List.mem_cons_of_mem _ hp) hs).ext hx hs
    by_cases hm : d.modeM = true
    · simp only [hm, if_true]
      have h1 := hchk w cache d.source snap hq (hds (d, snap) (by simp))
      generalize chk w cache d.source snap = r at h1
      obtain ⟨sub, w1, c1⟩ := r
      dsimp only at h1 ⊢
      cases sub with
      | cyclic => exact h1
      | clean => exact h1.trans (goDeps_frameS chk hchk hc f ds w1 c1 must (hq.step h1.toRel) (htl w1 h1))
      | dirty => exact h1
      | need ts => exact h1.trans (goDeps_frameS chk hchk hc f ds w1 c1 _ (hq.step h1.toRel) (htl w1 h1))
    · simp only [hm, Bool.false_eq_true, if_false]
      have ih := fun must' => goDeps_frameS chk hchk hc f ds w cache must' hq (htl w (DExtS.refl _ _ _))
      cases existsF w d.source
      · simp only [Bool.false_eq_true, if_false]; exact ih _
      · simp only [if_true]; exact DExtS.refl _ _ _

theorem isDirty_frameS {R' S} (ood : Bool) :
    ∀ (fuel : Nat) (w : World) (cache : List Nat) (f mx : Nat) (seen : List Nat) (pre : Option Rec),
      SSet R' S w → (S f → ∀ s, pre = some s → SnapS w f s) →
      DExtS R' S w (isDirty ood R' fuel w cache f mx seen pre).2.1
  | 0, w, cache, f, mx, seen, pre, _, _ => by simp [isDirty, DExtS.refl]
  | fuel + 1, w, cache, f, mx, seen, pre, hq, hpre => by
    have hs : S f → SnapS w f (pre.getD (getRec w R' f)) := by
      intro hf
      cases pre with
      | none => simp only [Option.getD_none]; rw [getRec_ne w R' (hq f hf).ne0]; exact ⟨_, rfl⟩
      | some s => exact hpre hf s rfl
    rw [isDirty]
    generalize pre.getD (getRec w R' f) = r at hs
    by_cases hseen : f ∈ seen
    · simp only [hseen, if_true]; exact DExtS.refl _ _ _
    simp only [hseen, if_false]
    by_cases hfl : r.failed.isSome = true
    · simp only [hfl, if_true]; exact DExtS.refl _ _ _
    simp only [hfl]
    cases hch : r.changed with
    | none => exact DExtS.refl _ _ _
    | some ch =>
    dsimp only
    by_cases hgt : ch > mx
    · simp only [hgt, if_true]; exact DExtS.refl _ _ _
    simp only [hgt, if_false]
    by_cases hck : (if ood = true then decide (f ∈ cache) else isCheckedR r R') = true
    · simp only [hck, if_true]; exact DExtS.refl _ _ _
    simp only [hck]
    cases hst : r.stamp with
    | none => exact DExtS.refl _ _ _
    | some old =>
    dsimp only
    by_cases hne : old = readStamp w f
    · simp only [hne, ne_eq, not_true_eq_false, if_false]
      have hgo := goDeps_frameS (R' := R') (S := S)
        (fun w cache s snap => isDirty ood R' fuel w cache s (max ch (r.checked.getD 0)) (f :: seen) (some snap))
        (fun w1 c1 s snap hq1 hs1 => isDirty_frameS ood fuel w1 c1 s _ (f :: seen) (some snap) hq1
          (fun hS s' e => by cases e; exact hs1 hS))
        r.csum.isSome f (depsWithRecs w R' r f) w cache [] hq (by
          intro p hp hS
          obtain ⟨d, _, rfl⟩ := List.mem_map.1 hp
          dsimp only at hS ⊢
          rw [getRec_ne w R' (hq _ hS).ne0]
          exact ⟨_, rfl⟩)
      generalize goDeps _ r.csum.isSome f _ w cache [] = res at hgo ⊢
      obtain ⟨o, w', c'⟩ := res
      dsimp only at hgo
      cases o with
      | some dr => exact hgo
      | none =>
        dsimp only
        have hw2 : DExtS R' S w (if (r.isOverride && !ood) = true then ev w' (.warnOverride f) else w') := by
          split
          · exact hgo.evWarn f
          · exact hgo
        cases ood with
        | true => simpa using hgo
        | false =>
          simp only [Bool.false_eq_true, if_false]
          by_cases hS : S f
          · obtain ⟨c, e⟩ := hs hS
            refine hw2.mark' f _ ?_
            subst e
            simp only at hch hst hfl ⊢
            generalize w.recs f = q at *
            cases q; simp_all
          · exact hw2.setRec_out _ hS
    · simp only [ne_eq, hne, not_false_eq_true, if_true]
      by_cases hS : S f
      · exfalso
        obtain ⟨c, e⟩ := hs hS
        have : r.stamp = (w.recs f).stamp := by rw [e]
        rw [hst, (hq f hS).stamp] at this
        exact hne (Option.some.inj this)
      · simp only [Bool.false_eq_true, if_false]
        split
        · exact (DExtS.refl R' S w).setRec_out _ hS
        · exact DExtS.refl _ _ _

end RedoModel.Deps.Rich
