import RedoModel.Lemmas.DepsSoundS11
/-! `startSelf` with the job's stale copy of the record behaves as with the current record. -/
namespace RedoModel.Deps.S

/-- `a` and `b` agree except perhaps on `isGenerated` and `failed`. -/
def AgreeGF (a b : Rec) : Prop :=
  a.row = b.row ∧ a.isOverride = b.isOverride ∧ a.checked = b.checked ∧ a.changed = b.changed ∧
  a.stamp = b.stamp ∧ a.csum = b.csum

theorem setStatic_agree {a b : Rec} (h : AgreeGF a b) (w : World) (t R : Nat) :
    setStatic w t a R = setStatic w t b R := by
  obtain ⟨h1, h2, h3, h4, h5, h6⟩ := h
  cases a; cases b
  simp only at h1 h2 h3 h4 h5 h6
  subst h1 h2 h3 h4 h5 h6
  unfold setStatic updateStamp setChanged
  simp only
  split <;> rfl

theorem setFailed_agree {a b : Rec} (h : AgreeGF a b) (w : World) (t R : Nat) :
    setFailed w t a R = setFailed w t b R := by
  obtain ⟨h1, h2, h3, h4, h5, h6⟩ := h
  cases a; cases b
  simp only at h1 h2 h3 h4 h5 h6
  subst h1 h2 h3 h4 h5 h6
  unfold setFailed updateStamp setChanged
  simp only
  split <;> rfl

theorem recordNewState_agree {a b : Rec} (h : AgreeGF a b) (cx : Ctx) (t : Nat) (rv : Status) (out : Option Content)
    (w : World) : recordNewState cx t a rv out w = recordNewState cx t b rv out w := by
  unfold recordNewState
  simp only [setFailed_agree h]

theorem ssBuild_agree {a b : Rec} (h : AgreeGF a b) (E : Engine) (d : Defects) (cx : Ctx) (t : Nat) (w : World) :
    ssBuild E d cx t a w = ssBuild E d cx t b w := by
  unfold ssBuild
  simp only [setFailed_agree h, setStatic_agree h, recordNewState_agree h]

theorem ssGuard_missing (cx : Ctx) (t : Nat) (sf : Rec) (w : World) (h : w.fs t = none) : ssGuard cx t sf w = (sf, w) := by
  unfold ssGuard
  have : readStamp w t = .missing := readStamp_missing.2 h
  simp [this]

theorem startSelf_own (E : Engine) (d : Defects) (cx : Ctx) (t : Nat) (sf0 : Rec) (w : World)
    (hov : sf0.isOverride = false)
    (h : w.recs t = sf0 ∨ (w.recs t = { sf0 with isGenerated := false, isOverride := false, failed := some 0 } ∧ w.fs t = none)) :
    startSelf E d cx t sf0 w = startSelf E d cx t (w.recs t) w := by
  rcases h with h | ⟨h, hfs⟩
  · rw [h]
  · rw [startSelf_eq, startSelf_eq, ssGuard_missing _ _ _ _ hfs, ssGuard_missing _ _ _ _ hfs]
    have hex : existsF w t = false := existsF_eq_false.2 hfs
    simp only [hex, Bool.false_and, Bool.false_eq_true, if_false]
    apply ssBuild_agree
    rw [h]
    exact ⟨rfl, hov, rfl, rfl, rfl, rfl⟩

end RedoModel.Deps.S
