import RedoModel.Lemmas.DepsSoundS38
/-! The invariant along a plain history. -/
namespace RedoModel.Deps.S
open RedoModel.Generated

theorem Btw_init {rank rules} (hr : RulesOk rules) (hrk : Ranked rank (initWorld rules)) : Btw rank (initWorld rules) := by
  have hrec : ∀ f, (initWorld rules).recs f = {} ∨ (initWorld rules).recs f = { row := 1 } := by
    intro f; unfold initWorld; simp only; split
    · exact Or.inr rfl
    · exact Or.inl rfl
  have hdeps : (initWorld rules).deps = [] := rfl
  have hfs : ∀ f, (initWorld rules).fs f = none := fun _ => rfl
  exact {
    rulesOk := hr
    ranked := hrk
    plainProgs := fun c sc h => by cases h
    chLe := fun f ch h => by rcases hrec f with e | e <;> rw [e] at h <;> cases h
    ckLe := fun f ck h => by rcases hrec f with e | e <;> rw [e] at h <;> cases h
    csumFile := fun f x h => by rcases hrec f with e | e <;> rw [e] at h <;> cases h
    csumEx := fun f h => by rcases hrec f with e | e <;> rw [e] at h <;> exact absurd rfl h
    srcNoCsum := fun f _ => by rcases hrec f with e | e <;> rw [e]
    csumCh := fun f h => by rcases hrec f with e | e <;> rw [e] at h <;> exact absurd rfl h
    noOvr := fun f => by rcases hrec f with e | e <;> rw [e]
    srcNotGen := fun f _ => by rcases hrec f with e | e <;> rw [e]
    fs0 := rfl
    rec0 := Or.inr (by rcases hrec alwaysId with e | e <;> rw [e] <;> exact ⟨rfl, rfl⟩)
    rowsLt := fun d hd => by rw [hdeps] at hd; cases hd
    cPlain := fun d hd => by rw [hdeps] at hd; cases hd
    stampCh := fun f h => by rcases hrec f with e | e <;> rw [e] at h <;> exact absurd rfl h
    staticEx := fun f _ _ => by rcases hrec f with e | e <;> rw [e] <;> simp
    genMs := fun f hg => by rcases hrec f with e | e <;> rw [e] at hg <;> cases hg
    fsB := fun f n h => by rw [hfs] at h; cases h
    stB := fun f ms rest h => by rcases hrec f with e | e <;> rw [e] at h <;> cases h
    ckFail := fun f h => by rcases hrec f with e | e <;> rw [e] at h <;> cases h
    markFail := fun f h => by rcases hrec f with e | e <;> rw [e] at h <;> cases h
    flLe := fun f k h => by rcases hrec f with e | e <;> rw [e] at h <;> cases h
    recA := fun t _ hrc _ => by
      have := hrc.2.1
      rcases hrec t with e | e <;> rw [e] at this <;> exact absurd rfl this }

theorem worldsOf_head (n : Nat) (d : Defects) (w : World) (ops : List UserOp) : w ∈ worldsOf n d w ops := by
  cases ops <;> simp [worldsOf]

/-- The extra condition on commands in the history: a `redo -k` must exit 0 (see `noStaleStamp_partial`). -/
def OpCmdOk (n : Nat) (w : World) : UserOp → Prop
  | .cmd c => CmdOk {} n w c
  | _ => True

def RedoKOk (n : Nat) : World → List UserOp → Prop
  | _, [] => True
  | w, op :: ops => OpCmdOk n w op ∧ RedoKOk n (applyOp {} n op w).2 ops

theorem applyOp_btw {rank n rules w} (hN : ∀ f, rank f < n) (h : Btw rank w) (hr : w.rules = rules) (op : UserOp)
    (hp : PlainOpS rules op) (hok : OpOk w op) (hck : OpCmdOk n w op) (hrk : Ranked rank (applyOp {} n op w).2) :
    Btw rank (applyOp {} n op w).2 ∧ (applyOp {} n op w).2.rules = rules := by
  cases op with
  | write f v =>
    rw [applyOp_write] at hrk ⊢
    exact ⟨Btw_write h (by rw [hr]; exact hp.1) hp.2 hrk, hr⟩
  | remove f =>
    rw [applyOp_remove] at hrk ⊢
    exact ⟨Btw_remove h hp hrk, hr⟩
  | chmod f =>
    rw [applyOp_chmod] at hrk ⊢
    refine ⟨Btw_chmod h (by rw [hr]; exact hp.1) hp.2 hrk, ?_⟩
    unfold chmodW; split <;> exact hr
  | hide f => exact hp.elim
  | unhide f => exact hp.elim
  | setProg c s =>
    rw [applyOp_setProg] at hrk ⊢
    exact ⟨Btw_setProg h hp hok hrk, hr⟩
  | cmd c =>
    obtain ⟨a1, a2⟩ := runCmd_btw {} rfl rfl hN h c hck
    exact ⟨a1, a2.trans hr⟩
  | crashCmd ts t k => exact hp.elim

theorem history_btw {rank n rules} (hN : ∀ f, rank f < n) :
    ∀ (ops : List UserOp) (w : World), Btw rank w → w.rules = rules → (∀ op ∈ ops, PlainOpS rules op) →
      (∀ w' ∈ worldsOf n {} w ops, Ranked rank w') → OpsOk n w ops → RedoKOk n w ops →
      Btw rank (ops.foldl (fun w op => (applyOp {} n op w).2) w) ∧
      (ops.foldl (fun w op => (applyOp {} n op w).2) w).rules = rules
  | [], w, h, hr, _, _, _, _ => ⟨h, hr⟩
  | op :: ops, w, h, hr, hp, hrk, hok, hck => by
    have hrk1 : Ranked rank (applyOp {} n op w).2 :=
      hrk _ (by simp only [worldsOf, List.mem_cons]; exact Or.inr (worldsOf_head n {} _ ops))
    obtain ⟨a1, a2⟩ := applyOp_btw hN h hr op (hp op (by simp)) hok.1 hck.1 hrk1
    exact history_btw hN ops _ a1 a2 (fun op' h' => hp op' (List.mem_cons_of_mem _ h'))
      (fun w' hw' => hrk w' (by simp only [worldsOf, List.mem_cons]; exact Or.inr hw')) hok.2 hck.2

end RedoModel.Deps.S
